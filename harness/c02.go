package main

// C02 — source positions are exact in UTF-8 and UTF-16 modes.
// Observables: every AST node's kind / range / parent (d2ast Children(), pre-order), every error's range,
// for key segments the covered source slice re-parsed by d2parser.ParseKey; Position.Advance / Subtract /
// Before on raw rune sequences.

import (
	"bytes"
	"fmt"
	"strings"
	"unicode"
	"unicode/utf16"
	"unicode/utf8"

	"oss.terrastruct.com/d2/d2ast"
	"oss.terrastruct.com/d2/d2parser"
)

func init() {
	register(&Prop{ID: "C02", Module: "V.C02.Check", Gen: c02Gen, Quick: 900, Thorough: 16000, Shard: 70})
}

func c02Pos(p d2ast.Position) string {
	if p.Line >= 0 && p.Column >= 0 && p.Byte >= 0 {
		return fmt.Sprintf("(P %d %d %d)", p.Line, p.Column, p.Byte)
	}
	return fmt.Sprintf("(PZ %s %s %s)", coqZ(int64(p.Line)), coqZ(int64(p.Column)), coqZ(int64(p.Byte)))
}

func c02Kind(n d2ast.Node) int {
	switch n.(type) {
	case *d2ast.Map:
		return 0
	case *d2ast.Key:
		return 1
	case *d2ast.KeyPath:
		return 2
	case *d2ast.UnquotedString:
		return 3
	case *d2ast.DoubleQuotedString:
		return 4
	case *d2ast.SingleQuotedString:
		return 5
	case *d2ast.BlockString:
		return 6
	case *d2ast.Edge:
		return 7
	case *d2ast.EdgeIndex:
		return 8
	case *d2ast.Array:
		return 9
	case *d2ast.Comment:
		return 10
	case *d2ast.BlockComment:
		return 11
	case *d2ast.Substitution:
		return 12
	case *d2ast.Import:
		return 13
	case *d2ast.Null:
		return 14
	case *d2ast.Boolean:
		return 15
	case *d2ast.Number:
		return 16
	case *d2ast.Suspension:
		return 17
	}
	return 99
}

type c02N struct {
	kind, parent int
	rng          d2ast.Range
	seg          bool
	val          string
}

func c02Walk(root d2ast.Node) []c02N {
	var out []c02N
	var rec func(n d2ast.Node, parent int, seg bool)
	rec = func(n d2ast.Node, parent int, seg bool) {
		idx := len(out)
		if parent < 0 {
			parent = idx
		}
		x := c02N{kind: c02Kind(n), parent: parent, rng: n.GetRange(), seg: seg}
		if seg {
			if s, ok := n.(d2ast.String); ok {
				x.val = s.ScalarString()
			} else {
				x.seg = false
			}
		}
		out = append(out, x)
		_, isKP := n.(*d2ast.KeyPath)
		for _, c := range n.Children() {
			rec(c, idx, isKP)
		}
	}
	rec(root, -1, false)
	return out
}

// c02Text is the rune view of an input: the runes the parser's reader yields and the width (in position
// units of the chosen mode) each one contributes to the TRUE offset.
type c02Text struct {
	runes []rune
	off   []int // off[i] = offset of boundary i, len = len(runes)+1
}

func c02MakeText(runes []rune, consumed []int, u16 bool) c02Text {
	t := c02Text{runes: runes, off: make([]int, len(runes)+1)}
	for i, r := range runes {
		w := 0
		switch {
		case u16:
			w = 1
			if r >= 0x10000 {
				w = 2
			}
		case consumed != nil:
			w = consumed[i]
		default:
			w = utf8.RuneLen(r)
		}
		t.off[i+1] = t.off[i] + w
	}
	return t
}

func (t c02Text) boundary(off int) int {
	for i, o := range t.off {
		if o == off {
			return i
		}
	}
	return -1
}

func c02DecodeBytes(b []byte) (runes []rune, consumed []int) {
	for len(b) > 0 {
		r, n := utf8.DecodeRune(b)
		runes = append(runes, r)
		consumed = append(consumed, n)
		b = b[n:]
	}
	return
}

func c02IsTopDelim(r rune) bool {
	switch r {
	case '\n', ';', '#', '{', '}', '[', ']':
		return true
	}
	return false
}

// c02StaleEnd is the input signature of known finding C02-unquoted-end for an unquoted string whose range is
// the rune interval [i, j): the text just before / after its End shows that the last thing
// parseUnquotedString consumed did not update lastNonSpace:
//   - key segment: a '-' sits at End and is followed by a delimiter or a space (the dash belongs to the key);
//   - End is right behind a backslash (the escaped rune, or the line continuation, is not covered);
//   - value: End is right behind a '$' that opens a substitution (the substitution is not covered).
func c02StaleEnd(rs []rune, i, j int, seg bool) bool {
	if seg && j+1 < len(rs) && rs[j] == '-' && (c02IsTopDelim(rs[j+1]) || unicode.IsSpace(rs[j+1])) {
		return true
	}
	if j > i && rs[j-1] == '\\' {
		return true
	}
	if !seg && j > i && rs[j-1] == '$' {
		k := j
		for k < len(rs) && unicode.IsSpace(rs[k]) && rs[k] != '\n' {
			k++
		}
		if k < len(rs) && rs[k] == '{' {
			return true
		}
	}
	return false
}

// c02MissingValueKF is the input signature of known finding C02-missing-value-start for an error that ends at
// offset end: the text there is `:` + spaces + one of ; # } ] and the last space is not one unit wide
// (the error's Start is computed as End.Subtract(':')).
func c02MissingValueKF(t c02Text, end int) bool {
	j := t.boundary(end)
	rs := t.runes
	if j < 1 || j >= len(rs) || !strings.ContainsRune(";#}]", rs[j]) {
		return false
	}
	if !unicode.IsSpace(rs[j-1]) || rs[j-1] == '\n' || t.off[j]-t.off[j-1] == 1 {
		return false
	}
	k := j - 1
	for k >= 0 && unicode.IsSpace(rs[k]) && rs[k] != '\n' {
		k--
	}
	return k >= 0 && rs[k] == ':'
}

type c02Parsed struct {
	m    *d2ast.Map
	errs []d2ast.Error
	fail string
}

func c02Parse(in []byte, u16 bool) (res c02Parsed) {
	defer func() {
		if e := recover(); e != nil {
			res.fail = fmt.Sprintf("Parse panic: %v", e)
		}
	}()
	m, err := d2parser.Parse("", bytes.NewReader(in), &d2parser.ParseOptions{UTF16Pos: u16})
	res.m = m
	if err != nil {
		if pe, ok := err.(*d2parser.ParseError); ok {
			res.errs = pe.Errors
		} else {
			res.fail = "Parse returned an error that is not a *ParseError: " + err.Error()
		}
	}
	return
}

// c02TreeCases runs the real parser on in and renders the strict case and, when the input hits a known
// finding, its lenient twin.
func c02TreeCases(in []byte, u16 bool, class string) []Case {
	bom16 := len(in) >= 2 && in[0] == 0xFF && in[1] == 0xFE
	if bom16 {
		u16 = true // Parse switches to UTF-16 positions itself
	}
	res := c02Parse(in, u16)
	desc := map[string]any{"text": string(in), "utf16": u16}
	if res.fail != "" || res.m == nil {
		return []Case{{Coq: "(CTree false false (SRunes []) [] [] [])", Input: desc, Class: class, ImplFail: []string{res.fail + " (nil map)"}}}
	}
	nodes := c02Walk(res.m)
	if len(nodes) > 260 {
		return nil
	}

	var goRunes []rune
	var consumed []int
	var strictSrc string
	if bom16 {
		body := in[2:]
		var u []uint16
		for i := 0; i+1 < len(body); i += 2 {
			u = append(u, uint16(body[i])|uint16(body[i+1])<<8)
		}
		goRunes = utf16.Decode(u)
		if len(body)%2 == 1 {
			goRunes = append(goRunes, 0xFFFD)
		}
		strictSrc = "(SRunes " + c02RuneList(goRunes) + ")"
	} else {
		goRunes, consumed = c02DecodeBytes(in)
		strictSrc = "(SBytes " + coqBytes(string(in)) + ")"
	}
	invalid := !bom16 && !utf8.Valid(in)
	strictText := c02MakeText(goRunes, consumed, u16)
	lenientText := c02MakeText(goRunes, nil, u16)

	errOverlaps := func(r d2ast.Range) bool {
		for _, e := range res.errs {
			if e.Range.Start.Byte <= r.End.Byte && e.Range.End.Byte >= r.Start.Byte {
				return true
			}
		}
		return false
	}

	hasArray, anyStale, anyMissing, multi := false, false, false, false
	render := func(t c02Text, lenient bool) string {
		var ns []string
		for _, n := range nodes {
			if n.rng.Start.Line != n.rng.End.Line {
				multi = true
			}
			i, j := t.boundary(n.rng.Start.Byte), t.boundary(n.rng.End.Byte)
			kf := false
			switch n.kind {
			case 9:
				kf, hasArray = true, true
			case 3:
				if i >= 0 && j >= i && c02StaleEnd(t.runes, i, j, n.seg) {
					kf, anyStale = true, true
				}
			}
			if !n.seg || errOverlaps(n.rng) {
				ns = append(ns, fmt.Sprintf("Nd %d %d %s %s %s", n.kind, n.parent, c02Pos(n.rng.Start), c02Pos(n.rng.End), coqBool(kf)))
				continue
			}
			slice := ""
			if i >= 0 && j >= i {
				slice = string(t.runes[i:j])
			}
			path, ok, _ := c05ParseKey(slice)
			ns = append(ns, fmt.Sprintf("Seg %d %d %s %s %s %s %s %s", n.kind, n.parent, c02Pos(n.rng.Start), c02Pos(n.rng.End),
				coqBool(kf), coqRunes(n.val), coqRunes(slice), coqOpt(ok, c05StrList(path))))
		}
		var es []string
		for _, e := range res.errs {
			kf := c02MissingValueKF(t, e.Range.End.Byte)
			if kf {
				anyMissing = true
			}
			es = append(es, "("+c02Pos(e.Range.Start)+", "+c02Pos(e.Range.End)+", "+coqBool(kf)+")")
		}
		src := strictSrc
		if lenient && invalid {
			src = "(SRunes " + c02RuneList(goRunes) + ")"
		}
		return fmt.Sprintf("(CTree %s %s %s %s [%s] [%s])", coqBool(u16), coqBool(lenient), src, c02RuneList(goRunes),
			strings.Join(ns, "; "), strings.Join(es, "; "))
	}

	strict := render(strictText, false)
	var kf []string
	if hasArray {
		kf = append(kf, "C02-array-end")
	}
	if invalid && !u16 {
		kf = append(kf, "C02-invalid-utf8-offset")
	}
	if anyStale {
		kf = append(kf, "C02-unquoted-end")
	}
	if anyMissing {
		kf = append(kf, "C02-missing-value-start")
	}
	nontriv := multi
	for _, r := range goRunes {
		if r >= 0x80 {
			nontriv = true
		}
	}
	impl := map[string]any{"nodes": len(nodes), "errors": len(res.errs)}
	if len(nodes) > 1 {
		n := nodes[len(nodes)-1]
		impl["last_node"] = fmt.Sprintf("kind %d %s-%s", n.kind, n.rng.Start.Debug(), n.rng.End.Debug())
	}
	key := fmt.Sprintf("%v|%q", u16, in)
	out := []Case{{Coq: strict, Input: desc, Impl: impl, Class: class, Nontrivial: nontriv, Key: key, KF: kf}}
	if len(kf) > 0 {
		out = append(out, Case{Coq: render(lenientText, true), Input: map[string]any{"text": string(in), "utf16": u16, "lenient_twin": true},
			Impl: impl, Class: class + "-lenient", Nontrivial: nontriv, Key: key + "|L"})
	}
	return out
}

func c02RuneList(rs []rune) string {
	var b strings.Builder
	b.WriteString("[")
	for i, r := range rs {
		if i > 0 {
			b.WriteString(";")
		}
		fmt.Fprintf(&b, "%d", r)
	}
	b.WriteString("]")
	return b.String()
}

var c02AdvPool = []rune{'a', 'z', ' ', '\n', '\n', '\t', '\r', '"', 0x7F, 0x80, 0xE9, 0x7FF, 0x800, 0x20AC, 0xD7FF, 0xD800, 0xDBFF, 0xDFFF, 0xE000, 0xFFFD, 0xFFFF,
	0x10000, 0x1F600, 0x10FFFF, 0x110000, 0x7FFFFFFF, 0}

func c02AdvCase(r *Rng) Case {
	u16 := r.Bool()
	p := d2ast.Position{}
	switch r.Intn(5) {
	case 0:
		p = d2ast.Position{Line: r.Intn(50), Column: r.Intn(80), Byte: r.Intn(4000)}
	case 1:
		p = d2ast.Position{Line: r.Intn(5), Column: r.Intn(8), Byte: -1}
	case 2:
		p = d2ast.Position{Line: r.Intn(5), Column: r.Intn(3) - 1, Byte: r.Intn(5) - 2}
	}
	n := r.Range(0, 12)
	var rs []rune
	allValid := true
	for i := 0; i < n; i++ {
		x := c02AdvPool[r.Intn(len(c02AdvPool))]
		if r.Chance(0.2) {
			x = rune(r.Intn(0x11000 * 16))
		}
		if !utf8.ValidRune(x) {
			allValid = false
		}
		rs = append(rs, x)
	}
	q := p
	for _, x := range rs {
		q = q.Advance(x, u16)
	}
	var fails []string
	if allValid && p.AdvanceString(string(rs), u16) != q {
		fails = append(fails, "AdvanceString differs from folding Advance")
	}
	sub := "None"
	subDesc := "panic"
	if len(rs) > 0 {
		func() {
			defer func() { recover() }()
			x := q.Subtract(rs[len(rs)-1], u16)
			sub = "(Some " + c02Pos(x) + ")"
			subDesc = x.Debug()
		}()
	}
	bef := p.Before(q)
	coq := fmt.Sprintf("(CAdv %s %s %s %s %s %s)", coqBool(u16), c02Pos(p), c02RuneList(rs), c02Pos(q), sub, coqBool(bef))
	return Case{Coq: coq, Input: map[string]any{"utf16": u16, "from": p.Debug(), "runes": fmt.Sprintf("%U", rs)},
		Impl: map[string]any{"advanced": q.Debug(), "subtract_last": subDesc, "before": bef}, Class: "advance", Nontrivial: len(rs) > 0,
		Key: fmt.Sprintf("adv|%v|%s|%v", u16, p.Debug(), rs), ImplFail: fails}
}

var c02Corpus = []string{
	"x: [a; b]  \ny", "x: [a]\ny", "x: [\"a\"]", "x: [a]", "x: [[a]; b] # c\n", "x: [\n  a\n  b\n]\n", "x: [", "x: []",
	"a-;b", "a- :1", "a\\x: 1", "a-\nb", "a\\", "a.b\\.c: 1",
	"a: ;b", "a:\u00a0;b", "a:\u3000#c",
	"a.\"b c\".'d': \"v\"\n", "é😀.𝒳: 日本 # c\nq -> w: {\n  x: |md\n    # hi 😀\n  |\n}\n",
	"\xff", "a\xffb: \xc3\n", "\xe2\x82: x", "😀: \xf0\x9f\n",
	"a -> b -> c: {style.opacity: 0.4}", "(a -> b)[0].style.fill: red", "(a <- b)[*]: x", "a <-> b <- c\n-> d", "a -\\\n  > b",
	"x: ${a.b}", "x: \"a ${b} c\"", "...${x}", "...@y", "x: @\"a b\".d2", "x: |`md a |` |`", "x: ||go a | b ||\n",
	"\"\"\" block\ncomment \"\"\"\nx", "# c1\n# c2\n\n# c3\nx", "a: b {c: d}", "a: {b: {c: {d}}}", "&x: y", "!&x: y",
	"}", "a: }", "a: b junk", "\"a\" b", "a\n\n\n  b  \n", "a;b;;c", "a.", ".a", "a..b", "a: \"x\ny", "a: 'x", "'a''b': 'c\\\nd'",
	"a\r\nb: c\r\n", "\ufeffa: b", "a\u2028b: 1", "x: [1; null; true; 1.5; \"s\"; 's'; |md x|; {a: b}; [c]]",
	"x: *", "**.y: 1", "a.*.b -> c", "a: -", "- b", "-", "--", "a --", "a ->", "-> b", "a -> ", "a: b \\\n  c", "x: \\", "x: a\\",
}

func c02Gen(r *Rng, tier string, n int) []Case {
	var cases []Case
	add := func(cs []Case) { cases = append(cases, cs...) }

	// 1. Position.Advance / Subtract / Before on raw rune sequences
	nAdv := 80
	if tier == "thorough" {
		nAdv = 1500
	}
	for i := 0; i < nAdv; i++ {
		cases = append(cases, c02AdvCase(r))
	}

	// 2. fixed corpus, both modes; UTF-16 input for a few
	for _, s := range c02Corpus {
		add(c02TreeCases([]byte(s), false, "corpus"))
		add(c02TreeCases([]byte(s), true, "corpus-utf16pos"))
	}
	for _, s := range []string{"a: b", "é😀.𝒳: 日本 # c\nq -> w", "x: [a; 😀]\ny", "a\n\"b 😀\": 'c'\n"} {
		add(c02TreeCases(c02UTF16LE(s), false, "corpus-utf16le-bom"))
	}
	add(c02TreeCases([]byte{0xFF, 0xFE, 'a', 0, 0x3D, 0xD8, ':', 0, 'b', 0}, false, "corpus-utf16le-bom")) // lone high surrogate

	repo := c02RepoSources()
	limit := 700
	if tier == "thorough" {
		limit = 2500
	}
	budget := n
	for budget > 0 {
		u16 := r.Chance(0.4)
		var in []byte
		class := ""
		switch x := r.Intn(100); {
		case x < 30:
			in, class = []byte(c02GenFrag(r)), "frag"
		case x < 58:
			in, class = []byte(c02GenD2(r)), "d2"
		case x < 70:
			in, class = []byte(c02Mutate(r, c02GenD2(r))), "d2-mutated"
		case x < 82:
			s := repo[r.Intn(len(repo))]
			if len(s) > limit {
				continue
			}
			in, class = []byte(s), "repo"
		case x < 90:
			s := repo[r.Intn(len(repo))]
			if len(s) > limit {
				continue
			}
			in, class = []byte(c02Mutate(r, s)), "repo-mutated"
		case x < 95:
			in, class = c02RawBytes(r, 40), "bytes"
		default:
			in, class = c02UTF16LE(c02GenD2(r)), "utf16le-bom"
		}
		if len(in) > limit {
			continue
		}
		if u16 {
			class += "-utf16pos"
		}
		cs := c02TreeCases(in, u16, class)
		add(cs)
		budget--
	}
	return cases
}
