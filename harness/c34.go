package main

// C34 — multi-board output stays inside the output location, one file per board.
//
// A generated board tree (names include dots, slashes, "..", "index", separators) is written as d2
// source, compiled with the real compiler to read back the board tree the CLI will see (names,
// IsFolderOnly), and rendered by the real CLI (child process = /repo/main.go) to an output path deep
// inside a private sandbox that also holds sentinel files and directories.  The listing of the
// sandbox before and after the run is passed to coq/C34/Check.v.

import (
	"context"
	"fmt"
	"os"
	"path/filepath"
	"sort"
	"strings"
	"sync"
	"time"

	"oss.terrastruct.com/d2/d2compiler"
	"oss.terrastruct.com/d2/d2graph"
)

func init() {
	register(&Prop{ID: "C34", Module: "V.C34.Check", Gen: c34Gen, Quick: 54, Thorough: 600, Shard: 6})
}

type c34Board struct {
	Name                     string
	Shape                    bool
	Layers, Scenarios, Steps []*c34Board
}

func c34Quote(s string) string { return `"` + s + `"` }

func (b *c34Board) src(ind string, id *int) string {
	var sb strings.Builder
	if b.Shape {
		*id++
		fmt.Fprintf(&sb, "%ss%d\n", ind, *id)
	}
	kind := func(k string, bs []*c34Board) {
		if len(bs) == 0 {
			return
		}
		fmt.Fprintf(&sb, "%s%s: {\n", ind, k)
		for _, c := range bs {
			fmt.Fprintf(&sb, "%s  %s: {\n%s%s  }\n", ind, c34Quote(c.Name), c.src(ind+"    ", id), ind)
		}
		fmt.Fprintf(&sb, "%s}\n", ind)
	}
	kind("layers", b.Layers)
	kind("scenarios", b.Scenarios)
	kind("steps", b.Steps)
	return sb.String()
}

func (b *c34Board) all() []*c34Board {
	out := []*c34Board{}
	for _, l := range [][]*c34Board{b.Layers, b.Scenarios, b.Steps} {
		for _, c := range l {
			out = append(out, c)
			out = append(out, c.all()...)
		}
	}
	return out
}

// the tree as compiled
type c34Tree struct {
	Name       string     `json:"name"`
	FolderOnly bool       `json:"folder_only,omitempty"`
	Layers     []*c34Tree `json:"layers,omitempty"`
	Scenarios  []*c34Tree `json:"scenarios,omitempty"`
	Steps      []*c34Tree `json:"steps,omitempty"`
}

func c34FromGraph(g *d2graph.Graph) *c34Tree {
	t := &c34Tree{Name: g.Name, FolderOnly: g.IsFolderOnly}
	for _, l := range g.Layers {
		t.Layers = append(t.Layers, c34FromGraph(l))
	}
	for _, l := range g.Scenarios {
		t.Scenarios = append(t.Scenarios, c34FromGraph(l))
	}
	for _, l := range g.Steps {
		t.Steps = append(t.Steps, c34FromGraph(l))
	}
	return t
}

func (t *c34Tree) coq() string {
	ls := func(bs []*c34Tree) string {
		var xs []string
		for _, b := range bs {
			xs = append(xs, b.coq())
		}
		return coqList(xs)
	}
	return fmt.Sprintf("(Board %s %s %s %s %s)", coqBytes(t.Name), coqBool(t.FolderOnly), ls(t.Layers), ls(t.Scenarios), ls(t.Steps))
}

func (t *c34Tree) names() []string {
	var out []string
	for _, l := range [][]*c34Tree{t.Layers, t.Scenarios, t.Steps} {
		for _, c := range l {
			out = append(out, c.Name)
			out = append(out, c.names()...)
		}
	}
	return out
}

func c34Path(p string) string {
	var segs []string
	for _, s := range strings.Split(strings.Trim(filepath.Clean(p), "/"), "/") {
		if s != "" {
			segs = append(segs, coqBytes(s))
		}
	}
	return coqList(segs)
}

// KF signatures: narrow predicates on the board names.  Names with a ".." element are refused by the
// CLI since b8f1f57d8 and carry no signature any more.
func c34KF(names []string) []string {
	set := map[string]bool{}
	for _, n := range names {
		dotdot := false
		for _, s := range strings.Split(n, "/") {
			if s == ".." {
				dotdot = true
			}
		}
		if dotdot {
			continue
		}
		if strings.Contains(n, "/") {
			set["C34-board-name-slash"] = true
		}
		if n == "." {
			set["C34-board-name-single-dot"] = true
		}
		if n == "index" {
			set["C34-board-name-index"] = true
		}
		if strings.HasSuffix(n, ".svg") {
			set["C34-board-name-ext-suffix"] = true
		}
	}
	var out []string
	for k := range set {
		out = append(out, k)
	}
	sort.Strings(out)
	return out
}

var c34Hostile = []string{
	"../victim", "../victim/keep", "..", ".", "index", "a/b", "a/../b", "../../victim2", "x.svg", "layers",
	"scenarios", "steps", "/abs", "a/", "../out", "../out/index", "../index", "../layers/keep", "index.svg",
	"a.b", "..a", "a..", "...", " ", "a b", "x/index", "./x", "x/.", "../sentinel.txt", "../../l4", "INDEX", "out",
	"a\\b", "é", "x/../..", "../victim.svg",
}
var c34Plain = []string{"a", "b", "c", "x1", "overview", "detail", "v2", "k8s", "my board", "a.b.c", "1"}

func c34GenTree(r *Rng, hostile bool) *c34Board {
	dotdotBudget := 2
	boardBudget := 9 // boards below the root (each costs a layout + render in the CLI)
	used := map[*c34Board]map[string]bool{}
	var gen func(depth int, parent *c34Board) *c34Board
	pick := func(parent *c34Board) string {
		for try := 0; try < 20; try++ {
			var n string
			if hostile && r.Intn(3) == 0 {
				n = r.Pick(c34Hostile)
			} else {
				n = r.Pick(c34Plain)
			}
			if strings.Contains(n, "..") && strings.Contains(n, "/") || n == ".." {
				if dotdotBudget == 0 {
					continue
				}
			}
			if used[parent][n] {
				continue
			}
			if strings.Contains(n, "..") && (strings.Contains(n, "/") || n == "..") {
				dotdotBudget--
			}
			used[parent][n] = true
			return n
		}
		n := fmt.Sprintf("u%d", r.Intn(1000000))
		used[parent][n] = true
		return n
	}
	gen = func(depth int, parent *c34Board) *c34Board {
		b := &c34Board{Shape: r.Intn(5) != 0}
		used[b] = map[string]bool{}
		if parent != nil {
			b.Name = pick(parent)
		}
		if depth >= 3 {
			return b
		}
		pKids := 0.9
		if depth > 0 {
			pKids = 0.35
		}
		if r.Chance(pKids) {
			kinds := r.Intn(7) + 1 // bitmask layers/scenarios/steps
			if r.Intn(2) == 0 {
				kinds = 1 << uint(r.Intn(3))
			}
			for k := 0; k < 3; k++ {
				if kinds&(1<<uint(k)) == 0 {
					continue
				}
				n := 1 + r.Intn(2) + r.Intn(2)*r.Intn(2)
				for i := 0; i < n && boardBudget > 0; i++ {
					boardBudget--
					c := gen(depth+1, b)
					switch k {
					case 0:
						b.Layers = append(b.Layers, c)
					case 1:
						b.Scenarios = append(b.Scenarios, c)
					default:
						b.Steps = append(b.Steps, c)
					}
				}
			}
		}
		return b
	}
	root := gen(0, nil)
	// sometimes add, next to a board with children, a sibling whose NAME is the dotted path of one of
	// its grandchildren ("a.layers.b" beside a{layers:{b}}): distinct boards, same flattened board path
	var addFlat func(b *c34Board)
	addFlat = func(b *c34Board) {
		kinds := []struct {
			k  string
			bs *[]*c34Board
		}{{"layers", &b.Layers}, {"scenarios", &b.Scenarios}, {"steps", &b.Steps}}
		for _, kd := range kinds {
			var extra []*c34Board
			for _, c := range *kd.bs {
				for _, sub := range []struct {
					k  string
					bs []*c34Board
				}{{"layers", c.Layers}, {"scenarios", c.Scenarios}, {"steps", c.Steps}} {
					for _, g := range sub.bs {
						if r.Intn(3) == 0 && !strings.ContainsAny(c.Name+g.Name, "/") && c.Name != "." && c.Name != ".." {
							n := c.Name + "." + sub.k + "." + g.Name
							if !used[b][n] {
								used[b][n] = true
								extra = append(extra, &c34Board{Name: n, Shape: true})
							}
						}
					}
				}
				addFlat(c)
			}
			if r.Bool() {
				*kd.bs = append(*kd.bs, extra...)
			} else {
				*kd.bs = append(extra, *kd.bs...)
			}
		}
	}
	addFlat(root)
	return root
}

func c34L(names ...string) []*c34Board {
	var out []*c34Board
	for _, n := range names {
		out = append(out, &c34Board{Name: n, Shape: true})
	}
	return out
}

func c34Corpus() []*c34Board {
	withKids := func(name string, kids ...*c34Board) *c34Board {
		return &c34Board{Name: name, Shape: true, Layers: kids}
	}
	return []*c34Board{
		{Shape: true},                          // single board
		{Shape: true, Layers: c34L("a", "b")},  // ordinary
		{Shape: true, Layers: c34L("a"), Scenarios: c34L("s"), Steps: c34L("1", "2")},
		{Shape: true, Layers: c34L("../victim")},                         // DESIGN §8: escapes
		{Shape: true, Layers: []*c34Board{withKids("../victim", c34L("x")...)}}, // RemoveAll of a sibling directory
		{Shape: true, Layers: c34L("index")},                             // DESIGN §8: collides with the root's index.svg
		{Shape: true, Layers: c34L("index"), Scenarios: c34L("s")},       // near miss: layers/index.svg
		{Shape: true, Layers: []*c34Board{{Name: "x", Shape: true}, withKids("x.svg", c34L("y")...)}},
		{Shape: true, Layers: []*c34Board{withKids("x.svg", c34L("y")...), {Name: "x", Shape: true}}},
		{Shape: true, Layers: c34L("a/b")},
		{Shape: true, Layers: []*c34Board{{Name: "a/b", Shape: true}, withKids("a", c34L("b")...)}},
		{Shape: true, Layers: c34L(".")},
		{Shape: true, Layers: []*c34Board{withKids(".", c34L("x")...)}},
		{Shape: true, Layers: c34L("..")},
		{Shape: true, Layers: c34L("a.b", "a", "layers", "INDEX", "index.d2")},
		{Shape: false, Layers: c34L("a")}, // folder-only root
		{Shape: true, Scenarios: []*c34Board{{Name: "s", Shape: false, Steps: c34L("1")}}},
		{Shape: true, Layers: c34L("../sentinel.txt", "../../victim2")},
		// names that spell the dotted board path of a nested board (root.layers.a.layers.b twice)
		{Shape: true, Layers: []*c34Board{withKids("a", c34L("b")...), {Name: "a.layers.b", Shape: true}}},
		{Shape: true, Layers: []*c34Board{{Name: "a.layers.b", Shape: true}, withKids("a", c34L("b")...)}},
		{Shape: true, Layers: []*c34Board{{Name: "a", Shape: true, Scenarios: []*c34Board{withKids("s", c34L("x")...)}},
			withKids("a.scenarios.s", c34L("x")...), {Name: "a.scenarios.s.layers.x", Shape: true}}},
		{Shape: true, Steps: []*c34Board{{Name: "1", Shape: true, Steps: c34L("2")}, {Name: "1.steps.2", Shape: true}}},
	}
}

var c34Sentinels = []string{
	"sentinel-top.txt",
	"in.d2",
	"l1/l2/l3/l4/sentinel.txt",
	"l1/l2/l3/l4/victim.svg",
	"l1/l2/l3/l4/victim/keep.txt",
	"l1/l2/l3/l4/out/stale.svg",
	"l1/l2/l3/l4/out/old/deep.svg",
	"l1/l2/l3/victim2/keep.txt",
	"l1/l2/l3/l4/layers/keep.txt",
	"l1/l2/l3/l4/index.svg",
	"l1/l2/l3/l4/a.svg",
}

type c34Listing struct {
	files map[string]int // abs path -> tag
	dirs  []string
}

func c34List(u string, tags map[string]int) (c34Listing, error) {
	l := c34Listing{files: map[string]int{}}
	// ancestors of the sandbox exist before and after
	for d := filepath.Dir(u); d != "/" && d != "."; d = filepath.Dir(d) {
		l.dirs = append(l.dirs, d)
	}
	err := filepath.Walk(u, func(p string, info os.FileInfo, err error) error {
		if err != nil {
			return err
		}
		if info.IsDir() {
			l.dirs = append(l.dirs, p)
			return nil
		}
		b, err := os.ReadFile(p)
		if err != nil {
			return err
		}
		if t, ok := tags[string(b)]; ok {
			l.files[p] = t
		} else {
			l.files[p] = 1
		}
		return nil
	})
	sort.Strings(l.dirs)
	return l, err
}

// c34Rel prints a path below the sandbox u as (u ++ [segments]) so that the long common prefix is
// parsed once per case (`let u := ... in`).
func c34Rel(u, p string) string {
	if p == u {
		return "u"
	}
	if strings.HasPrefix(p, u+"/") {
		var segs []string
		for _, s := range strings.Split(strings.TrimPrefix(p, u+"/"), "/") {
			segs = append(segs, coqBytes(s))
		}
		return "(u ++ " + coqList(segs) + ")"
	}
	return c34Path(p)
}

func (l c34Listing) coqFiles(u string) string {
	var ks []string
	for k := range l.files {
		ks = append(ks, k)
	}
	sort.Strings(ks)
	var xs []string
	for _, k := range ks {
		xs = append(xs, coqTuple(c34Rel(u, k), fmt.Sprint(l.files[k])))
	}
	return coqList(xs)
}

func (l c34Listing) coqDirs(u string) string {
	var xs []string
	for _, d := range l.dirs {
		xs = append(xs, c34Rel(u, d))
	}
	return coqList(xs)
}

func c34Gen(r *Rng, tier string, n int) []Case {
	root := cliSandbox("c34")
	defer os.RemoveAll(root)
	defer os.Remove(filepath.Dir(root))

	type spec struct {
		b     *c34Board
		class string
	}
	var specs []spec
	for _, b := range c34Corpus() {
		specs = append(specs, spec{b, "corpus"})
	}
	for len(specs) < n {
		if r.Intn(3) == 0 {
			specs = append(specs, spec{c34GenTree(r.Fork(), false), "random-plain-names"})
		} else {
			specs = append(specs, spec{c34GenTree(r.Fork(), true), "random-hostile-names"})
		}
	}
	out := make([]Case, len(specs))
	var wg sync.WaitGroup
	sem := make(chan struct{}, 8)
	for i := range specs {
		wg.Add(1)
		go func(i int) {
			defer wg.Done()
			sem <- struct{}{}
			defer func() { <-sem }()
			out[i] = c34Case(filepath.Join(root, fmt.Sprintf("%d", i)), specs[i].b, specs[i].class)
		}(i)
	}
	wg.Wait()
	return out
}

func c34Case(u string, b *c34Board, class string) (cs Case) {
	cs.Class = class
	fail := func(f string, a ...any) Case {
		cs.ImplFail = append(cs.ImplFail, fmt.Sprintf(f, a...))
		cs.Coq = `Case [46;115] [] (Board [] false [] [] []) [] [] [] [] false`
		return cs
	}
	defer func() {
		if e := recover(); e != nil {
			cs = fail("harness panic: %v", e)
		}
	}()
	id := 0
	src := b.src("", &id)
	cs.Input = map[string]any{"d2": src}
	cs.Key = src

	// the board tree the CLI will see
	g, _, err := d2compiler.Compile("in.d2", strings.NewReader(src), nil)
	if err != nil {
		// the compiler rejects this tree (e.g. duplicate board name): not a render case
		cs.Class = class + "-rejected"
		cs.Impl = map[string]any{"compile_error": strings.SplitN(err.Error(), "\n", 2)[0]}
		cs.Coq = `Case [46;115;118;103] [] (Board [] true [] [] []) [] [] [] [] true`
		// check_case on this placeholder: failed=true and no boards -> clause 11 would fire; mark trivial instead
		cs.Coq = `Case [46;115;118;103] [] (Board [] true [] [] []) [] [] [] [] false`
		return cs
	}
	tree := c34FromGraph(g)
	names := tree.names()

	// sandbox
	if err := os.MkdirAll(u, 0o755); err != nil {
		return fail("mkdir: %v", err)
	}
	tags := map[string]int{}
	for i, s := range c34Sentinels {
		p := filepath.Join(u, s)
		content := fmt.Sprintf("sentinel %d %s\n", i, s)
		if s == "in.d2" {
			content = src
		}
		if err := os.MkdirAll(filepath.Dir(p), 0o755); err != nil {
			return fail("mkdir: %v", err)
		}
		if err := os.WriteFile(p, []byte(content), 0o644); err != nil {
			return fail("write: %v", err)
		}
		tags[content] = i + 2
	}
	outStem := filepath.Join(u, "l1/l2/l3/l4/out")
	before, err := c34List(u, tags)
	if err != nil {
		return fail("list: %v", err)
	}
	ctx, cancel := context.WithTimeout(context.Background(), 600*time.Second)
	defer cancel()
	cmd := cliChild(ctx, u, nil, "in.d2", outStem+".svg")
	outb, runErr := cmd.CombinedOutput()
	failed := runErr != nil
	if ctx.Err() != nil {
		return fail("cli timed out")
	}
	after, err := c34List(u, tags)
	if err != nil {
		return fail("list: %v", err)
	}

	cs.Coq = fmt.Sprintf("(let u := %s in Case %s %s %s %s %s %s %s %s)", c34Path(u), coqBytes(".svg"), c34Rel(u, outStem), tree.coq(),
		before.coqFiles(u), before.coqDirs(u), after.coqFiles(u), after.coqDirs(u), coqBool(failed))
	var created, removed, changed []string
	rel := func(p string) string { r, _ := filepath.Rel(u, p); return r }
	for p, t := range after.files {
		if bt, ok := before.files[p]; !ok {
			created = append(created, rel(p))
		} else if bt != t {
			changed = append(changed, rel(p))
		}
	}
	for p := range before.files {
		if _, ok := after.files[p]; !ok {
			removed = append(removed, rel(p))
		}
	}
	sort.Strings(created)
	sort.Strings(removed)
	sort.Strings(changed)
	impl := map[string]any{"tree": tree, "created": created, "removed": removed, "overwritten": changed, "failed": failed}
	if failed {
		lines := strings.Split(strings.TrimSpace(string(outb)), "\n")
		impl["stderr"] = lines[len(lines)-1]
	}
	cs.Impl = impl
	cs.Nontrivial = len(names) > 0
	cs.KF = c34KF(names)
	return cs
}
