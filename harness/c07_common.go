package main

// Shared machinery of C07 / C08 / C14: a killable worker process that runs the real compiler
// (d2compiler.Compile with a custom in-memory fs.FS), canonical projections of compiled graphs and
// of error lists.
//
// Why a worker process: a compile that never returns cannot be stopped from inside Go (a goroutine
// cannot be killed) and a stack overflow is a fatal error that `recover` does not see.  The harness
// binary therefore re-executes itself with the hidden first argument `c07-worker` (dispatched from
// init() below, harness/main.go is untouched), talks JSON lines over stdin/stdout and kills the
// worker when a request exceeds its hard deadline.

import (
	"bufio"
	"bytes"
	"crypto/sha256"
	"encoding/hex"
	"encoding/json"
	"errors"
	"fmt"
	"io"
	"io/fs"
	"os"
	"os/exec"
	"regexp"
	"runtime"
	"runtime/debug"
	"sort"
	"strconv"
	"strings"
	"sync"
	"time"

	"oss.terrastruct.com/d2/d2ast"
	"oss.terrastruct.com/d2/d2compiler"
	"oss.terrastruct.com/d2/d2graph"
	"oss.terrastruct.com/d2/d2parser"
	"oss.terrastruct.com/d2/d2target"
)

func init() {
	if len(os.Args) >= 2 && os.Args[1] == "c07-worker" {
		c07WorkerMain()
		os.Exit(0)
	}
}

// ---------------------------------------------------------------- in-memory file system

// c07FS is the custom fs.FS handed to the compiler: a finite map from slash-separated path to
// content.  Open succeeds exactly for the names of the map (fs.ValidPath names only).
type c07FS map[string]string

type c07File struct {
	name string
	r    *strings.Reader
	size int64
}

func (f *c07File) Stat() (fs.FileInfo, error) { return c07Info{f.name, f.size}, nil }
func (f *c07File) Read(b []byte) (int, error) { return f.r.Read(b) }
func (f *c07File) Close() error               { return nil }

type c07Info struct {
	name string
	size int64
}

func (i c07Info) Name() string       { return i.name }
func (i c07Info) Size() int64        { return i.size }
func (i c07Info) Mode() fs.FileMode  { return 0o444 }
func (i c07Info) ModTime() time.Time { return time.Time{} }
func (i c07Info) IsDir() bool        { return false }
func (i c07Info) Sys() any           { return nil }

func (m c07FS) Open(name string) (fs.File, error) {
	if !fs.ValidPath(name) {
		return nil, &fs.PathError{Op: "open", Path: name, Err: fs.ErrInvalid}
	}
	s, ok := m[name]
	if !ok {
		return nil, &fs.PathError{Op: "open", Path: name, Err: fs.ErrNotExist}
	}
	return &c07File{name: name, r: strings.NewReader(s), size: int64(len(s))}, nil
}

// ---------------------------------------------------------------- request / response

type c07Req struct {
	Mode  string            `json:"mode"` // compile | determinism
	Root  string            `json:"root"`
	Files map[string]string `json:"files"`
	K     int               `json:"k,omitempty"`
}

type c07Err struct {
	File   string `json:"file"`
	Line   int    `json:"line"` // 1-based as printed
	Col    int    `json:"col"`
	HasPos bool   `json:"has_pos"` // message carries `file:line:col:` and the Range agrees with it
	InFile bool   `json:"in_file"` // the position exists in the named file of the file set
	Class  int    `json:"class"`
	Msg    string `json:"msg"`
}

type c07Resp struct {
	Class     string   `json:"class"` // graph | errors | panic | timeout | dead
	Panic     string   `json:"panic,omitempty"`
	PanicSite string   `json:"panic_site,omitempty"`
	PlainErr  bool     `json:"plain_err,omitempty"` // error value that is not a *d2parser.ParseError
	Errs      []c07Err `json:"errs,omitempty"`
	Proj      []string `json:"proj,omitempty"` // position-free canonical lines of the graph
	Cfg       string   `json:"cfg,omitempty"`  // JSON of *d2target.Config ("null" when nil)
	Full      string   `json:"full,omitempty"` // sha256 of the full serialisation incl. positions
	SortKeys  [][]int  `json:"sort_keys,omitempty"`
	EdgeKeys  [][]int  `json:"edge_keys,omitempty"`
	DtNs      int64    `json:"dt_ns"`
	Runs      []string `json:"runs,omitempty"` // determinism mode: one digest per run, schedule-tagged
}

// ---------------------------------------------------------------- the real compiler, once

var c07PosRe = regexp.MustCompile(`^(.*?):(\d+):(\d+): `)

// error classes shared with coq/C07/Config.v (err_class)
const (
	c07ErrOther = iota
	c07ErrNeedsValue
	c07ErrBool
	c07ErrNeedsMap
	c07ErrInt
	c07ErrThemeID
	c07ErrInvalidConfig
	c07ErrRootVars
	c07ErrThemeCode
	c07ErrColor
	c07ErrCycle
	c07ErrImportFail
	c07ErrImportKey
	c07ErrSpreadNonMap
)

var c07ClassRes = []struct {
	re *regexp.Regexp
	c  int
}{
	{regexp.MustCompile(`: ".*" needs a value$`), c07ErrNeedsValue},
	{regexp.MustCompile(`: expected a boolean for ".*", got ".*"$`), c07ErrBool},
	{regexp.MustCompile(`: ".*" needs a map$`), c07ErrNeedsMap},
	{regexp.MustCompile(`: expected an integer for ".*", got ".*"$`), c07ErrInt},
	{regexp.MustCompile(`: -?\d+ is not a valid theme ID$`), c07ErrThemeID},
	{regexp.MustCompile(`: ".*" is not a valid config$`), c07ErrInvalidConfig},
	{regexp.MustCompile(`: ".*" can only appear at root vars$`), c07ErrRootVars},
	{regexp.MustCompile(`: ".*" is not a valid theme code$`), c07ErrThemeCode},
	{regexp.MustCompile(`: expected ".*" to be a valid named color`), c07ErrColor},
	{regexp.MustCompile(`: detected cyclic import chain: `), c07ErrCycle},
	{regexp.MustCompile(`: failed to import `), c07ErrImportFail},
	{regexp.MustCompile(`: import key .* doesn't exist inside import$`), c07ErrImportKey},
	{regexp.MustCompile(`: cannot spread import non map into map$`), c07ErrSpreadNonMap},
}

func c07ClassOf(msg string) int {
	for _, c := range c07ClassRes {
		if c.re.MatchString(msg) {
			return c.c
		}
	}
	return c07ErrOther
}

func c07PosInFile(files map[string]string, file string, line, col int) bool {
	s, ok := files[file]
	if !ok {
		return false
	}
	lines := strings.Split(s, "\n")
	if line < 1 || line > len(lines) {
		return false
	}
	return col >= 1 && col <= len(lines[line-1])+1
}

func c07ProjectErr(files map[string]string, e d2ast.Error) c07Err {
	out := c07Err{Msg: e.Message, Class: c07ClassOf(e.Message)}
	m := c07PosRe.FindStringSubmatch(e.Message)
	if m != nil {
		out.File = m[1]
		out.Line, _ = strconv.Atoi(m[2])
		out.Col, _ = strconv.Atoi(m[3])
		// the Range of the error must be the one that was printed
		out.HasPos = e.Range.Path == out.File && e.Range.Start.Line+1 == out.Line && e.Range.Start.Column+1 == out.Col
		out.InFile = c07PosInFile(files, out.File, out.Line, out.Col)
	}
	return out
}

func c07PanicSite(stack string) string {
	// first d2 frames of the stack below the runtime/panic frames
	inErrorf := strings.Contains(stack, "d2parser.Errorf(")
	fn := ""
	for _, l := range strings.Split(stack, "\n") {
		if strings.HasPrefix(l, "oss.terrastruct.com/d2/") && !strings.Contains(l, "d2parser.Errorf") && !strings.Contains(l, "d2ast.") {
			fn = l[strings.LastIndex(l, "/")+1:]
			if i := strings.Index(fn, "("); i >= 0 && !strings.HasPrefix(fn[strings.Index(fn, ".")+1:], "(") {
				fn = fn[:i]
			} else if j := strings.LastIndex(fn, "("); j > 0 {
				fn = fn[:j]
			}
			break
		}
	}
	if inErrorf {
		return fn + "/Errorf(nil)"
	}
	return fn
}

// c07CleanJSON removes position-bearing members (ranges, references) from a decoded JSON value.
func c07CleanJSON(v any) any {
	switch x := v.(type) {
	case map[string]any:
		for k := range x {
			if k == "range" || k == "references" || k == "labelDimensions" {
				delete(x, k)
				continue
			}
			x[k] = c07CleanJSON(x[k])
			// unset attributes (null, {}, {"value": ""}) are dropped to keep the lines short
			switch y := x[k].(type) {
			case nil:
				delete(x, k)
			case map[string]any:
				if len(y) == 0 {
					delete(x, k)
				} else if v, ok := y["value"]; ok && len(y) == 1 && v == "" {
					delete(x, k)
				}
			}
		}
		return x
	case []any:
		for i := range x {
			x[i] = c07CleanJSON(x[i])
		}
		return x
	}
	return v
}

func c07PosFreeJSON(v any) string {
	b, err := json.Marshal(v)
	if err != nil {
		return "!marshal:" + err.Error()
	}
	var g any
	if err := json.Unmarshal(b, &g); err != nil {
		return "!unmarshal:" + err.Error()
	}
	b, _ = json.Marshal(c07CleanJSON(g)) // map keys are written sorted
	return string(b)
}

// c07ProjectGraph: one line per object / edge / board, in graph order, without positions.
func c07ProjectGraph(g *d2graph.Graph, prefix string, out *[]string) {
	*out = append(*out, fmt.Sprintf("board %s name=%q folder=%v", prefix, g.Name, g.IsFolderOnly))
	if g.Root != nil {
		*out = append(*out, fmt.Sprintf("root %s %s", prefix, c07PosFreeJSON(g.Root.Attributes)))
	}
	for _, o := range g.Objects {
		extra := ""
		if o.Class != nil {
			extra += " class=" + c07PosFreeJSON(o.Class)
		}
		if o.SQLTable != nil {
			extra += " sql=" + c07PosFreeJSON(o.SQLTable)
		}
		if o.Icon != nil {
			extra += fmt.Sprintf(" iconurl=%q", o.Icon.String())
		}
		*out = append(*out, fmt.Sprintf("obj %s %s %s%s", prefix, o.AbsID(), c07PosFreeJSON(o.Attributes), extra))
	}
	for _, e := range g.Edges {
		ah := ""
		if e.SrcArrowhead != nil {
			ah += " srcah=" + c07PosFreeJSON(e.SrcArrowhead)
		}
		if e.DstArrowhead != nil {
			ah += " dstah=" + c07PosFreeJSON(e.DstArrowhead)
		}
		*out = append(*out, fmt.Sprintf("edge %s %s %s%s", prefix, e.AbsID(), c07PosFreeJSON(e.Attributes), ah))
	}
	if g.Legend != nil {
		*out = append(*out, fmt.Sprintf("legend %s %d %d", prefix, len(g.Legend.Objects), len(g.Legend.Edges)))
	}
	for _, kind := range []struct {
		n  string
		gs []*d2graph.Graph
	}{{"layers", g.Layers}, {"scenarios", g.Scenarios}, {"steps", g.Steps}} {
		for _, b := range kind.gs {
			c07ProjectGraph(b, prefix+"/"+kind.n+"."+b.Name, out)
		}
	}
}

// c07FullDigest: everything the serialiser writes (positions, references, AST) for all boards + config.
func c07FullDigest(g *d2graph.Graph, cfg *d2target.Config) string {
	h := sha256.New()
	var walk func(g *d2graph.Graph)
	walk = func(g *d2graph.Graph) {
		b, err := d2graph.SerializeGraph(g)
		if err != nil {
			fmt.Fprintf(h, "!serialize:%v", err)
		}
		h.Write(b)
		// SerializeGraph omits the order of Objects relative to ChildrenArray; add it
		for _, o := range g.Objects {
			fmt.Fprintf(h, "|%s", o.AbsID())
			for _, c := range o.ChildrenArray {
				fmt.Fprintf(h, ">%s", c.AbsID())
			}
		}
		for _, e := range g.Edges {
			fmt.Fprintf(h, "|%s", e.AbsID())
		}
		for _, b := range g.Layers {
			walk(b)
		}
		for _, b := range g.Scenarios {
			walk(b)
		}
		for _, b := range g.Steps {
			walk(b)
		}
	}
	walk(g)
	cb, _ := json.Marshal(cfg)
	h.Write(cb)
	return hex.EncodeToString(h.Sum(nil))
}

func c07SortKeys(g *d2graph.Graph) (objs [][]int, edges [][]int) {
	for _, o := range g.Objects {
		if len(o.References) == 0 {
			objs = append(objs, []int{0})
			continue
		}
		r := o.References[0]
		if r.IsVar {
			objs = append(objs, []int{1})
			continue
		}
		rg := r.Key.Path[r.KeyPathIndex].Unbox().GetRange()
		objs = append(objs, []int{2, rg.Start.Byte, rg.Start.Line, rg.Start.Column})
	}
	for _, e := range g.Edges {
		if len(e.References) == 0 {
			edges = append(edges, []int{0})
			continue
		}
		rg := e.References[0].Edge.Range
		edges = append(edges, []int{2, rg.Start.Byte, rg.Start.Line, rg.Start.Column})
	}
	return
}

// c07CompileOnce runs d2compiler.Compile and projects the outcome.  Panics are recovered here
// (fatal errors and hangs are handled by the parent through the process boundary).
func c07CompileOnce(req *c07Req, full bool) (resp c07Resp) {
	t0 := time.Now()
	defer func() {
		if e := recover(); e != nil {
			resp = c07Resp{Class: "panic", Panic: fmt.Sprint(e), PanicSite: c07PanicSite(string(debug.Stack()))}
		}
		resp.DtNs = time.Since(t0).Nanoseconds()
	}()
	fsys := c07FS(req.Files)
	g, cfg, err := d2compiler.Compile(req.Root, strings.NewReader(req.Files[req.Root]), &d2compiler.CompileOptions{FS: fsys})
	resp.DtNs = time.Since(t0).Nanoseconds()
	if err != nil {
		resp.Class = "errors"
		var pe *d2parser.ParseError
		if errors.As(err, &pe) {
			for _, e := range pe.Errors {
				resp.Errs = append(resp.Errs, c07ProjectErr(req.Files, e))
			}
			if len(pe.Errors) == 0 {
				resp.PlainErr = true
			}
		} else {
			resp.PlainErr = true
			resp.Errs = append(resp.Errs, c07Err{Msg: err.Error()})
		}
		if full {
			b, _ := json.Marshal(resp.Errs)
			resp.Full = fmt.Sprintf("E%x", sha256.Sum256(b))
		}
		return resp
	}
	if g == nil {
		resp.Class = "errors"
		resp.PlainErr = true
		return resp
	}
	resp.Class = "graph"
	c07ProjectGraph(g, "", &resp.Proj)
	cb, _ := json.Marshal(cfg)
	resp.Cfg = string(cb)
	resp.SortKeys, resp.EdgeKeys = c07SortKeys(g)
	if full {
		resp.Full = c07FullDigest(g, cfg)
	}
	return resp
}

// c07Determinism: K sequential compiles, then 32 goroutines at once, for several GOMAXPROCS.
func c07Determinism(req *c07Req) c07Resp {
	k := req.K
	if k <= 0 {
		k = 3
	}
	digest := func() string {
		r := c07CompileOnce(req, true)
		if r.Class == "panic" {
			return "P:" + r.Panic
		}
		pl, _ := json.Marshal(r.Proj)
		return r.Class + ":" + r.Full + ":" + fmt.Sprintf("%x", sha256.Sum256(pl))[:16]
	}
	first := c07CompileOnce(req, true)
	resp := first
	old := runtime.GOMAXPROCS(0)
	defer runtime.GOMAXPROCS(old)
	for i := 0; i < k; i++ {
		resp.Runs = append(resp.Runs, "seq:"+digest())
	}
	for _, procs := range []int{1, 2, 4, 16} {
		runtime.GOMAXPROCS(procs)
		res := make([]string, 32)
		var wg sync.WaitGroup
		start := make(chan struct{})
		for i := 0; i < 32; i++ {
			wg.Add(1)
			go func(i int) {
				defer wg.Done()
				<-start
				res[i] = digest()
			}(i)
		}
		close(start)
		wg.Wait()
		for _, d := range res {
			resp.Runs = append(resp.Runs, fmt.Sprintf("par%d:%s", procs, d))
		}
	}
	return resp
}

func c07WorkerMain() {
	in := bufio.NewReaderSize(os.Stdin, 1<<20)
	out := bufio.NewWriter(os.Stdout)
	for {
		line, err := in.ReadBytes('\n')
		if len(line) > 0 {
			var req c07Req
			var resp c07Resp
			if e := json.Unmarshal(line, &req); e != nil {
				resp = c07Resp{Class: "dead", Panic: "bad request: " + e.Error()}
			} else if req.Mode == "determinism" {
				resp = c07Determinism(&req)
			} else {
				resp = c07CompileOnce(&req, req.Mode == "full")
			}
			b, _ := json.Marshal(resp)
			out.Write(b)
			out.WriteByte('\n')
			out.Flush()
		}
		if err != nil {
			return
		}
	}
}

// ---------------------------------------------------------------- parent side

type c07Worker struct {
	cmd   *exec.Cmd
	in    io.WriteCloser
	out   *bufio.Reader
	lines chan []byte
}

var c07W *c07Worker

func c07Start() *c07Worker {
	exe, err := os.Executable()
	if err != nil {
		panic(err)
	}
	cmd := exec.Command(exe, "c07-worker")
	cmd.Stderr = io.Discard
	in, _ := cmd.StdinPipe()
	outp, _ := cmd.StdoutPipe()
	if err := cmd.Start(); err != nil {
		panic(err)
	}
	w := &c07Worker{cmd: cmd, in: in, out: bufio.NewReaderSize(outp, 1<<20), lines: make(chan []byte, 1)}
	go func() {
		for {
			l, err := w.out.ReadBytes('\n')
			if len(l) > 0 {
				w.lines <- l
			}
			if err != nil {
				close(w.lines)
				return
			}
		}
	}()
	// warm-up: process start and package initialisation of d2 are not part of any measured compile
	in.Write([]byte("{\"mode\":\"ping\",\"root\":\"p.d2\",\"files\":{\"p.d2\":\"a -> b\\n\"}}\n"))
	select {
	case <-w.lines:
	case <-time.After(180 * time.Second):
	}
	return w
}

func (w *c07Worker) kill() {
	w.cmd.Process.Kill()
	w.cmd.Wait()
}

// When many requests got no answer the violation is established; the generators stop producing further
// cases instead of waiting out the deadline hundreds of times (a removed cycle test makes every cyclic file
// set hang).  The known hanging inputs of the corpora account for at most 6 of these.
var c07NoAnswer int

func c07GiveUp() bool { return c07NoAnswer >= 14 }

// c07Call runs one request in the worker with a hard deadline; on expiry (or death of the worker:
// fatal error such as a stack overflow) the worker is killed / restarted and the class says so.
func c07Call(req *c07Req, hard time.Duration) (out c07Resp) {
	defer func() {
		if out.Class == "timeout" || out.Class == "dead" {
			c07NoAnswer++
		}
	}()
	if c07W == nil {
		c07W = c07Start()
	}
	b, _ := json.Marshal(req)
	b = append(b, '\n')
	if _, err := c07W.in.Write(b); err != nil {
		c07W.kill()
		c07W = nil
		return c07Resp{Class: "dead", Panic: "worker write failed: " + err.Error()}
	}
	select {
	case l, ok := <-c07W.lines:
		if !ok {
			c07W.kill()
			c07W = nil
			return c07Resp{Class: "dead", Panic: "worker process died (fatal error, e.g. stack overflow)"}
		}
		var resp c07Resp
		if err := json.Unmarshal(bytes.TrimSpace(l), &resp); err != nil {
			return c07Resp{Class: "dead", Panic: "bad worker response"}
		}
		return resp
	case <-time.After(hard):
		c07W.kill()
		c07W = nil
		return c07Resp{Class: "timeout", DtNs: hard.Nanoseconds()}
	}
}

func c07TotalBytes(files map[string]string) int {
	n := 0
	for _, s := range files {
		n += len(s)
	}
	return n
}

// The stated time bound of C07: 50 ms + 2 ms per byte of input (all files).
func c07Bound(files map[string]string) time.Duration {
	return 50*time.Millisecond + time.Duration(c07TotalBytes(files))*2*time.Millisecond
}

// c07Compile compiles under the time bound.  The machine is shared, so a run that exceeds the bound
// is repeated (up to 3 runs, the fastest counts); a run that exceeds the hard deadline
// (max(4*bound, 3 s)) is killed and reported as timeout at once.
func c07Compile(files map[string]string, root string, mode string) (resp c07Resp, overBound bool) {
	bound := c07Bound(files)
	hard := 4 * bound
	if hard < 3*time.Second {
		hard = 3 * time.Second
	}
	req := &c07Req{Mode: mode, Root: root, Files: files}
	for try := 0; try < 3; try++ {
		resp = c07Call(req, hard)
		if resp.Class == "timeout" && try == 0 {
			// once more on a fresh (warmed-up) worker with twice the deadline: a stall of the shared
			// machine must not be mistaken for a hang
			hard *= 2
			continue
		}
		if resp.Class == "timeout" || resp.Class == "dead" {
			return resp, true
		}
		if time.Duration(resp.DtNs) <= bound {
			return resp, false
		}
	}
	return resp, true
}

func c07SortedNames(files map[string]string) []string {
	var ns []string
	for n := range files {
		ns = append(ns, n)
	}
	sort.Strings(ns)
	return ns
}
