package main

import (
	"strings"

	"oss.terrastruct.com/d2/d2compiler"
	"oss.terrastruct.com/d2/d2graph"
	"oss.terrastruct.com/d2/d2target"
)

func c20Compile(s string) (*d2graph.Graph, *d2target.Config, error) {
	return d2compiler.Compile("", strings.NewReader(s), nil)
}
