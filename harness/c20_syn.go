package main

// C20 (a): synthetic geometry.  The REAL geo.Box.Intersections, d2graph.Edge.TraceToShape, d2layouts.DefaultRouter and
// shape.TraceToShapeBorder are called on hand-built values; inputs are small dyadic rationals so that float64
// arithmetic is exact or off by an ulp, and the degenerate configurations (touching corners, collinear / parallel
// segments, zero-size boxes, segments ending exactly on a side, zero-length segments, ties of the rounding) are part of
// the fixed corpus.

import (
	"context"
	"fmt"
	"math"
	"math/big"
	"net/url"
	"strings"

	"oss.terrastruct.com/d2/d2graph"
	"oss.terrastruct.com/d2/d2layouts"
	"oss.terrastruct.com/d2/d2target"
	"oss.terrastruct.com/d2/lib/geo"
	"oss.terrastruct.com/d2/lib/label"
	"oss.terrastruct.com/d2/lib/shape"
)

// ---- Coq printers ----

func c20Q(f float64) string {
	if math.IsNaN(f) || math.IsInf(f, 0) {
		return "(qz 0%Z)" // reported through ImplFail by the caller
	}
	if f == math.Trunc(f) && math.Abs(f) < 1e15 {
		return "(qz " + coqZ(int64(f)) + ")"
	}
	r := new(big.Rat).SetFloat64(f)
	e := r.Denom().BitLen() - 1
	if r.Num().Sign() < 0 {
		return fmt.Sprintf("(qd (%s)%%Z %d)", r.Num().String(), e)
	}
	return fmt.Sprintf("(qd %s%%Z %d)", r.Num().String(), e)
}

func c20P(x, y float64) string { return "(" + c20Q(x) + ", " + c20Q(y) + ")" }

func c20Pts(ps []*geo.Point) string {
	var out []string
	for _, p := range ps {
		out = append(out, c20P(p.X, p.Y))
	}
	return coqList(out)
}

func c20BoxT(x, y, w, h float64) string {
	return fmt.Sprintf("(mkbox %s %s %s %s)", c20Q(x), c20Q(y), c20Q(w), c20Q(h))
}

var c20PosCtor = map[string]string{
	"OUTSIDE_TOP_LEFT": "OTopLeft", "OUTSIDE_TOP_CENTER": "OTopCenter", "OUTSIDE_TOP_RIGHT": "OTopRight",
	"OUTSIDE_LEFT_TOP": "OLeftTop", "OUTSIDE_LEFT_MIDDLE": "OLeftMiddle", "OUTSIDE_LEFT_BOTTOM": "OLeftBottom",
	"OUTSIDE_RIGHT_TOP": "ORightTop", "OUTSIDE_RIGHT_MIDDLE": "ORightMiddle", "OUTSIDE_RIGHT_BOTTOM": "ORightBottom",
	"OUTSIDE_BOTTOM_LEFT": "OBottomLeft", "OUTSIDE_BOTTOM_CENTER": "OBottomCenter", "OUTSIDE_BOTTOM_RIGHT": "OBottomRight",
}
var c20OutsidePos = []string{"OUTSIDE_TOP_LEFT", "OUTSIDE_TOP_CENTER", "OUTSIDE_TOP_RIGHT", "OUTSIDE_LEFT_TOP", "OUTSIDE_LEFT_MIDDLE", "OUTSIDE_LEFT_BOTTOM",
	"OUTSIDE_RIGHT_TOP", "OUTSIDE_RIGHT_MIDDLE", "OUTSIDE_RIGHT_BOTTOM", "OUTSIDE_BOTTOM_LEFT", "OUTSIDE_BOTTOM_CENTER", "OUTSIDE_BOTTOM_RIGHT"}

func c20LabelT(pos string, lw, lh float64) string {
	c, ok := c20PosCtor[pos]
	if !ok {
		return "None"
	}
	return fmt.Sprintf("(Some (%s, %s, %s))", c, c20Q(lw), c20Q(lh))
}

func c20IconT(pos string, sz float64) string {
	c, ok := c20PosCtor[pos]
	if !ok {
		return "None"
	}
	return fmt.Sprintf("(Some (%s, %s))", c, c20Q(sz))
}

// c20EndObjT: the end as Edge.TraceToShape sees it (box as given; outside label; outside icon with the size the code
// uses at this end: MAX_ICON_SIZE at the source, d2target.GetIconSize at the destination).
func c20EndObjT(o *d2graph.Object, isDst bool) string {
	lab, ic := "None", "None"
	if o.HasLabel() && o.LabelPosition != nil {
		lab = c20LabelT(*o.LabelPosition, float64(o.LabelDimensions.Width), float64(o.LabelDimensions.Height))
	}
	if o.HasIcon() && o.IconPosition != nil {
		sz := float64(d2target.MAX_ICON_SIZE)
		if isDst {
			sz = float64(d2target.GetIconSize(o.Box, label.FromString(*o.IconPosition).String()))
		}
		ic = c20IconT(*o.IconPosition, sz)
	}
	return fmt.Sprintf("(mkend %s %s %s)", c20BoxT(o.TopLeft.X, o.TopLeft.Y, o.Width, o.Height), lab, ic)
}

// ---- geo.Box.Intersections ----

type c20Seg struct{ x0, y0, x1, y1 float64 }

func c20IntCase(class string, bx, by, bw, bh float64, s c20Seg) Case {
	cs := Case{Class: class, Input: map[string]any{"box": []float64{bx, by, bw, bh}, "segment": []float64{s.x0, s.y0, s.x1, s.y1}}}
	var pts []*geo.Point
	func() {
		defer func() {
			if e := recover(); e != nil {
				cs.ImplFail = []string{fmt.Sprintf("panic: %v", e)}
			}
		}()
		b := geo.NewBox(geo.NewPoint(bx, by), bw, bh)
		pts = b.Intersections(geo.Segment{Start: geo.NewPoint(s.x0, s.y0), End: geo.NewPoint(s.x1, s.y1)})
	}()
	var impl [][2]float64
	for _, p := range pts {
		impl = append(impl, [2]float64{p.X, p.Y})
		if !c20Finite(p.X, p.Y) {
			cs.ImplFail = append(cs.ImplFail, "non-finite intersection")
		}
	}
	cs.Impl = impl
	cs.Coq = fmt.Sprintf("CInt %s (%s, %s) %s", c20BoxT(bx, by, bw, bh), c20P(s.x0, s.y0), c20P(s.x1, s.y1), c20Pts(pts))
	cs.Nontrivial = len(pts) > 0
	cs.Key = cs.Coq
	return cs
}

func c20Dy(r *Rng, lo, hi int) float64 { // a multiple of 1/4
	return float64(r.Range(lo*4, hi*4)) / 4
}

func c20IntCorpus() []Case {
	var out []Case
	add := func(bx, by, bw, bh float64, s c20Seg) { out = append(out, c20IntCase("geo-corpus", bx, by, bw, bh, s)) }
	// through two opposite sides, through two adjacent sides, ending inside, starting inside
	add(0, 0, 100, 60, c20Seg{-50, 30, 150, 30})
	add(0, 0, 100, 60, c20Seg{50, -40, 50, 100})
	add(0, 0, 100, 60, c20Seg{-20, 20, 30, -30})
	add(0, 0, 100, 60, c20Seg{50, 30, 200, 30})
	add(0, 0, 100, 60, c20Seg{200, 90, 50, 30})
	add(10, 20, 100, 60, c20Seg{60, 50, 70, 55}) // wholly inside
	add(10, 20, 100, 60, c20Seg{-60, -50, -70, -55})
	// through corners: exactly, diagonally through two corners
	add(0, 0, 100, 60, c20Seg{-10, -10, 10, 10})
	add(0, 0, 100, 100, c20Seg{-50, -50, 150, 150})
	add(0, 0, 100, 60, c20Seg{100, 60, 200, 120})
	add(0, 0, 100, 60, c20Seg{-30, 30, 0, 0})
	// touching a side with an end point, ending exactly on a side, starting on a side
	add(0, 0, 100, 60, c20Seg{50, -40, 50, 0})
	add(0, 0, 100, 60, c20Seg{50, 60, 50, 100})
	add(0, 0, 100, 60, c20Seg{100, 10, 100, 50}) // collinear with the right side, inside it
	add(0, 0, 100, 60, c20Seg{100, -10, 100, 70})
	add(0, 0, 100, 60, c20Seg{-20, 0, 120, 0}) // collinear with the top side, overlapping
	add(0, 0, 100, 60, c20Seg{20, 0, 80, 0})
	add(0, 0, 100, 60, c20Seg{-20, -1, 120, -1}) // parallel, 1 px off
	// zero-length segments, zero-size boxes
	add(0, 0, 100, 60, c20Seg{50, 0, 50, 0})
	add(0, 0, 100, 60, c20Seg{50, 30, 50, 30})
	add(40, 40, 0, 0, c20Seg{0, 0, 80, 80})
	add(40, 40, 0, 50, c20Seg{0, 60, 80, 60})
	add(40, 40, 50, 0, c20Seg{60, 0, 60, 80})
	add(40, 40, 0, 0, c20Seg{40, 40, 40, 40})
	// ties of the rounding: exact offsets k + 1/2 (s representable, and not)
	add(0, 0, 100, 60, c20Seg{-1, -5, 0, 6})       // s = ... offsets with halves
	add(0, 0, 101, 61, c20Seg{-10, -10, 111, 71})  // s = 10/121 ...
	add(0, 0, 90, 45, c20Seg{-7.5, -15, 7.5, 30})  // s = 1/3, udx = 15: offset 5
	add(0, 0, 90, 45, c20Seg{-2.5, -15, 5, 30})    // s = 1/3, udx = 7.5: offset 2.5 (tie, s inexact)
	add(0, 0, 90, 45, c20Seg{-3.75, -10, 3.75, 20}) // s = 1/3, udx = 7.5
	add(0.5, 0.25, 90.25, 45.5, c20Seg{-3, -10, 47, 70})
	// negative coordinates, large boxes
	add(-300, -200, 150, 120, c20Seg{-400, -100, -100, -150})
	add(-300, -200, 150, 120, c20Seg{-225, -300, -225, 0})
	add(0, 0, 4096, 2048, c20Seg{-1000, 1000, 6000, 1025})
	// negative sizes (never produced by d2; box_ok false: only the correspondence is checked)
	add(0, 0, -50, 40, c20Seg{-100, 20, 100, 20})
	return out
}

func c20IntRandom(r *Rng) Case {
	bx, by := c20Dy(r, -200, 200), c20Dy(r, -200, 200)
	bw, bh := c20Dy(r, 0, 300), c20Dy(r, 0, 200)
	if r.Chance(0.08) {
		bw = 0
	}
	if r.Chance(0.08) {
		bh = 0
	}
	var s c20Seg
	pick := func() (float64, float64) { // a point inside, outside, on a side or on a corner
		switch r.Intn(6) {
		case 0:
			return bx + float64(r.Intn(2))*bw, by + float64(r.Intn(2))*bh
		case 1:
			return bx + c20Dy(r, 0, 1+int(bw)), by + float64(r.Intn(2))*bh
		case 2:
			return bx + float64(r.Intn(2))*bw, by + c20Dy(r, 0, 1+int(bh))
		case 3:
			return bx + bw/2 + c20Dy(r, -10, 10), by + bh/2 + c20Dy(r, -10, 10)
		default:
			return c20Dy(r, -400, 600), c20Dy(r, -400, 500)
		}
	}
	s.x0, s.y0 = pick()
	s.x1, s.y1 = pick()
	switch r.Intn(8) {
	case 0:
		s.x1 = s.x0 // vertical
	case 1:
		s.y1 = s.y0 // horizontal
	}
	return c20IntCase("geo-random", bx, by, bw, bh, s)
}

// ---- Edge.TraceToShape / DefaultRouter on hand-built rectangular objects ----

var c20IconURL, _ = url.Parse("https://icons.terrastruct.com/essentials/004-picture.svg")

func c20SynObj(g *d2graph.Graph, id string, x, y, w, h float64) *d2graph.Object {
	o := &d2graph.Object{Graph: g, Parent: g.Root, ID: id, IDVal: id, Children: map[string]*d2graph.Object{},
		Box: geo.NewBox(geo.NewPoint(x, y), w, h)}
	o.Shape.Value = "rectangle"
	if g.Root.Children == nil {
		g.Root.Children = map[string]*d2graph.Object{}
	}
	g.Root.Children[strings.ToLower(id)] = o
	g.Root.ChildrenArray = append(g.Root.ChildrenArray, o)
	g.Objects = append(g.Objects, o)
	return o
}

func c20Decorate(r *Rng, o *d2graph.Object) {
	switch r.Intn(5) {
	case 0:
		o.Shape.Value = ""
	case 1:
		o.Shape.Value = "class" // no perimeter: rectangular for TraceToShapeBorder, and no label (HasLabel false)
	}
	if r.Chance(0.5) {
		o.Label.Value = "label"
		lp := r.Pick(c20OutsidePos)
		if r.Chance(0.15) {
			lp = "INSIDE_MIDDLE_CENTER"
		}
		o.LabelPosition = &lp
		o.LabelDimensions.Width, o.LabelDimensions.Height = r.Range(1, 60)*3, r.Range(1, 8)*6
	}
	if r.Chance(0.4) {
		o.Icon = c20IconURL
		ip := r.Pick(c20OutsidePos)
		if r.Chance(0.15) {
			ip = "INSIDE_TOP_LEFT"
		}
		o.IconPosition = &ip
	}
}

func c20ObjJSON(o *d2graph.Object) map[string]any {
	m := map[string]any{"box": []float64{o.TopLeft.X, o.TopLeft.Y, o.Width, o.Height}, "shape": o.Shape.Value}
	if o.HasLabel() && o.LabelPosition != nil {
		m["label"] = fmt.Sprintf("%s %dx%d", *o.LabelPosition, o.LabelDimensions.Width, o.LabelDimensions.Height)
	}
	if o.HasIcon() && o.IconPosition != nil {
		m["icon"] = *o.IconPosition
	}
	return m
}

func c20PtsJSON(ps []*geo.Point) [][2]float64 {
	var out [][2]float64
	for _, p := range ps {
		out = append(out, [2]float64{p.X, p.Y})
	}
	return out
}

// c20TraceCase: a polyline from around src to around dst, traced by the real Edge.TraceToShape.
func c20TraceCase(r *Rng, router bool) Case {
	g := d2graph.NewGraph()
	g.Root.Box = &geo.Box{TopLeft: geo.NewPoint(0, 0)}
	odd := func(v int) float64 { return float64(2*v + 1) }
	a := c20SynObj(g, "a", float64(2*r.Range(-100, 100)), float64(2*r.Range(-100, 100)), float64(2*r.Range(5, 100)), float64(2*r.Range(5, 60)))
	var b *d2graph.Object
	if r.Chance(0.12) { // b inside a: container and descendant
		b = c20SynObj(g, "b", a.TopLeft.X+float64(2*r.Range(1, 4)), a.TopLeft.Y+float64(2*r.Range(1, 4)), math.Max(2, a.Width/2-10), math.Max(2, a.Height/2-10))
	} else {
		b = c20SynObj(g, "b", a.TopLeft.X+float64(2*r.Range(-200, 200)), a.TopLeft.Y+float64(2*r.Range(-150, 150)), float64(2*r.Range(5, 100)), float64(2*r.Range(5, 60)))
	}
	c20Decorate(r, a)
	c20Decorate(r, b)
	e := &d2graph.Edge{Src: a, Dst: b}
	g.Edges = append(g.Edges, e)
	cs := Case{Input: map[string]any{"src": c20ObjJSON(a), "dst": c20ObjJSON(b)}}
	srcT, dstT := c20EndObjT(a, false), c20EndObjT(b, true)
	if router {
		cs.Class = "router-synthetic"
		func() {
			defer func() {
				if x := recover(); x != nil {
					cs.ImplFail = []string{fmt.Sprintf("panic: %v", x)}
				}
			}()
			if err := d2layouts.DefaultRouter(context.Background(), g, g.Edges); err != nil {
				cs.ImplFail = []string{err.Error()}
			}
		}()
		cs.Impl = c20PtsJSON(e.Route)
		cs.Coq = fmt.Sprintf("CRoute %s %s %s", srcT, dstT, c20Pts(e.Route))
		cs.Nontrivial, cs.Key = true, cs.Coq
		return cs
	}
	cs.Class = "trace-synthetic"
	// the polyline: starts at / near the centre or the border of a, ends at / near b; odd offsets keep the rounding of
	// IntersectionPoint away from ties on most (not all) cases
	ca, cb := a.Center(), b.Center()
	n := r.Range(2, 5)
	pts := make([]*geo.Point, n)
	pts[0] = geo.NewPoint(ca.X+odd(r.Range(-3, 3)), ca.Y+odd(r.Range(-3, 3)))
	pts[n-1] = geo.NewPoint(cb.X+odd(r.Range(-3, 3)), cb.Y+odd(r.Range(-3, 3)))
	switch r.Intn(6) {
	case 0: // start on the border of a's box
		pts[0] = geo.NewPoint(a.TopLeft.X+a.Width, ca.Y+odd(r.Range(-2, 2)))
	case 1: // end exactly on b's top side
		pts[n-1] = geo.NewPoint(cb.X+odd(r.Range(-2, 2)), b.TopLeft.Y)
	case 2: // start outside a, beyond its label/icon
		pts[0] = geo.NewPoint(a.TopLeft.X-odd(r.Range(0, 60)), a.TopLeft.Y-odd(r.Range(0, 40)))
	}
	for i := 1; i < n-1; i++ {
		t := float64(i) / float64(n-1)
		pts[i] = geo.NewPoint(math.Round(pts[0].X*(1-t)+pts[n-1].X*t)+odd(r.Range(-20, 20)), math.Round(pts[0].Y*(1-t)+pts[n-1].Y*t)+odd(r.Range(-20, 20)))
	}
	if n >= 3 && r.Chance(0.25) { // a very short first / last segment: the MIN_SEGMENT_LEN merge
		pts[1] = geo.NewPoint(pts[0].X+odd(r.Range(-2, 2)), pts[0].Y+odd(r.Range(-3, 2)))
	}
	if n >= 3 && r.Chance(0.25) {
		pts[n-2] = geo.NewPoint(pts[n-1].X+odd(r.Range(-2, 2)), pts[n-1].Y+odd(r.Range(-3, 2)))
	}
	in := c20Pts(pts)
	cs.Input.(map[string]any)["points"] = c20PtsJSON(pts)
	var res []*geo.Point
	func() {
		defer func() {
			if x := recover(); x != nil {
				cs.ImplFail = []string{fmt.Sprintf("panic: %v", x)}
			}
		}()
		s, t := e.TraceToShape(pts, 0, len(pts)-1)
		res = pts[s : t+1]
	}()
	cs.Impl = c20PtsJSON(res)
	cs.Coq = fmt.Sprintf("CTrace %s %s %s %s", srcT, dstT, in, c20Pts(res))
	cs.Nontrivial, cs.Key = true, cs.Coq
	return cs
}

// ---- oracle: shape.TraceToShapeBorder on every non-rectangular shape ----

var c20NonRect = []string{"page", "parallelogram", "document", "cylinder", "queue", "package", "step", "callout", "stored_data",
	"person", "c4-person", "diamond", "oval", "circle", "hexagon", "cloud"}

func c20BorderCase(r *Rng, k int) Case {
	sh := c20NonRect[k%len(c20NonRect)]
	w, h := float64(r.Range(40, 400)), float64(r.Range(40, 300))
	if sh == "circle" {
		h = w
	}
	x, y := float64(r.Range(-300, 300)), float64(r.Range(-300, 300))
	box := geo.NewBox(geo.NewPoint(x, y), w, h)
	s := shape.NewShape(d2target.DSL_SHAPE_TO_SHAPE_TYPE[sh], box)
	// a point r0 on the bounding box border, a target t inside the central fifth of the box, prev beyond r0 on the line t -> r0
	var rx, ry float64
	switch r.Intn(4) {
	case 0:
		rx, ry = x+float64(r.Range(0, int(w))), y
	case 1:
		rx, ry = x+w, y+float64(r.Range(0, int(h)))
	case 2:
		rx, ry = x+float64(r.Range(0, int(w))), y+h
	default:
		rx, ry = x, y+float64(r.Range(0, int(h)))
	}
	tx, ty := x+w/2+float64(r.Range(-10, 10))*w/100, y+h/2+float64(r.Range(-10, 10))*h/100
	aimed := true
	if r.Chance(0.15) { // not aimed at the shape: parallel to the side, just outside the corner region
		tx, ty = rx+50, ry
		if ry == y || ry == y+h {
			tx, ty = rx, ry+50
		}
		if r.Bool() {
			tx, ty = rx+40, ry-40
		}
		aimed = false
	}
	px, py := rx+(rx-tx)*0.75, ry+(ry-ty)*0.75
	// TraceToShapeBorder extends the segment prev -> r0 beyond r0 only by the box WIDTH (by the height iff the
	// segment is exactly vertical): a steep ray into a tall narrow shape can end before it reaches the outline, the
	// function then returns r0 itself.  The monitored hypothesis is stated for rays whose extension reaches the target.
	scale := w
	if px == rx {
		scale = h
	}
	class := "border-oracle/"
	if aimed && math.Hypot(tx-rx, ty-ry) > scale {
		aimed = false
		class = "border-oracle-short-ray/"
	}
	cs := Case{Class: class + sh, Input: map[string]any{"shape": sh, "box": []float64{x, y, w, h}, "border_point": []float64{rx, ry}, "prev": []float64{px, py}, "aimed": aimed}}
	var q *geo.Point
	func() {
		defer func() {
			if e := recover(); e != nil {
				cs.ImplFail = []string{fmt.Sprintf("panic: %v", e)}
			}
		}()
		q = shape.TraceToShapeBorder(s, geo.NewPoint(rx, ry), geo.NewPoint(px, py))
	}()
	if q == nil {
		cs.Coq = "CSkip"
		return cs
	}
	loops := c20Outline(s)
	sd := math.Inf(1)
	for _, l := range loops {
		if d := c20SignedDist(l, q.X, q.Y); math.Abs(d) < math.Abs(sd) {
			sd = d
		}
	}
	if len(loops) == 0 || !c20Finite(sd, q.X, q.Y) {
		cs.ImplFail = append(cs.ImplFail, "outline of "+sh+" could not be sampled / non-finite result")
		sd = 0
	}
	cs.Impl = map[string]any{"returned": []float64{q.X, q.Y}, "signed_distance_to_outline": sd}
	cs.Coq = fmt.Sprintf("CBorder %s %s", coqBool(aimed), c20Q(math.Round(sd*1024)/1024))
	cs.Nontrivial, cs.Key = aimed, cs.Coq
	return cs
}
