package main

// C20 — connections start at their source and end at their destination.
//
// (b) Real pipeline: every d2 script is compiled and laid out by d2lib.Compile (real compiler, real text ruler,
// LayoutNested, dagre or ELK, d2near, d2grid, d2sequence, DefaultRouter, d2exporter).  Per connection of the
// laid-out graph the harness reads the exported route (d2target.Connection.Route) and, for both ends, the data the
// VISUAL EXTENT is a function of (box, 3D/multiple offsets, outside label, outside icon) and hands it to
// V.C20.Check.check_case; for non-rectangular shapes the signed distance of the end point to the outline sampled
// from the real lib/shape perimeter is passed as a number.
// (a) Synthetic geometry: geo.Box.Intersections and Edge.TraceToShape on hand-built objects vs. the Coq model.

import (
	"context"
	"fmt"
	"io"
	"log/slog"
	"math"
	"os"
	"strings"

	"oss.terrastruct.com/d2/d2graph"
	"oss.terrastruct.com/d2/d2layouts/d2dagrelayout"
	"oss.terrastruct.com/d2/d2layouts/d2elklayout"
	"oss.terrastruct.com/d2/d2lib"
	"oss.terrastruct.com/d2/d2target"
	"oss.terrastruct.com/d2/lib/geo"
	"oss.terrastruct.com/d2/lib/label"
	d2log "oss.terrastruct.com/d2/lib/log"
	"oss.terrastruct.com/d2/lib/textmeasure"
)

func init() {
	register(&Prop{ID: "C20", Module: "V.C20.Check", Gen: c20Gen, Quick: 40, Thorough: 400, Shard: 300})
}

var c20Ruler *textmeasure.Ruler

func c20Layout(script, engine string) (d *d2target.Diagram, g *d2graph.Graph, fail string) {
	defer func() {
		if e := recover(); e != nil {
			fail = fmt.Sprintf("panic: %v", e)
		}
	}()
	if c20Ruler == nil {
		r, err := textmeasure.NewRuler()
		if err != nil {
			return nil, nil, "ruler: " + err.Error()
		}
		c20Ruler = r
	}
	resolver := func(e string) (d2graph.LayoutGraph, error) {
		if engine == "elk" {
			return d2elklayout.DefaultLayout, nil
		}
		return d2dagrelayout.DefaultLayout, nil
	}
	ctx := d2log.With(context.Background(), slog.New(slog.NewTextHandler(io.Discard, nil)))
	eng := engine
	d, g, err := d2lib.Compile(ctx, script, &d2lib.CompileOptions{Ruler: c20Ruler, Layout: &eng, LayoutResolver: resolver}, nil)
	if err != nil {
		return nil, nil, "compile/layout error: " + err.Error()
	}
	return d, g, ""
}

// ---- observation ----

type c20Box struct{ X, Y, W, H float64 }

type c20Piece struct {
	Kind string   `json:"kind"` // box | shifted | label | icon | outline | outline-shifted
	Box  *c20Box  `json:"box,omitempty"`
	SD   *float64 `json:"sd,omitempty"` // signed distance of the end point (outline pieces)
}

type c20End struct {
	ID        string     `json:"id"`
	Shape     string     `json:"shape"`
	Box       c20Box     `json:"box"`
	Dx        float64    `json:"dx"`
	Dy        float64    `json:"dy"`
	ThreeD    bool       `json:"3d,omitempty"`
	Multiple  bool       `json:"multiple,omitempty"`
	LabelPos  string     `json:"label_pos,omitempty"`
	OutLabel  bool       `json:"outside_label,omitempty"`
	LW        int        `json:"lw,omitempty"`
	LH        int        `json:"lh,omitempty"`
	IconPos   string     `json:"icon_pos,omitempty"`
	OutIcon   bool       `json:"outside_icon,omitempty"`
	IconSize  int        `json:"icon_size,omitempty"`
	RectLike  bool       `json:"rect_like"`
	Container bool       `json:"container,omitempty"`
	P         [2]float64 `json:"p"` // the route end point that belongs to this end
	Pieces    []c20Piece `json:"pieces"`
	SearchOnly bool      `json:"search_only,omitempty"` // outline could not be sampled
	Margin     bool      `json:"margin,omitempty"`      // Spacing() margin of the object is non-zero
	// Go-side mirror of the Coq predicate (for reading; the verdict is Coq's)
	MinAbs float64 `json:"min_abs"`
	Deep   float64 `json:"deepest"`
	SDs    []float64 `json:"sds"`            // signed distance of P to every piece, same order as Pieces
	OwnMargin [4]float64 `json:"own_margin"`  // Spacing() margin of the object: top, bottom, left, right
	ObjSelfLoop bool `json:"obj_self_loop,omitempty"` // the object is both ends of some connection
	CodeIconBox *c20Box `json:"code_icon_box,omitempty"` // the outside icon box with MAX_ICON_SIZE (what TraceToShape uses at a source)
	NodeSD float64 `json:"node_sd"`           // signed distance of P to the box enlarged by that margin (the node ELK lays out)
}

type c20Conn struct {
	Engine   string  `json:"engine"`
	Index    int     `json:"index"`
	ID       string  `json:"id"`
	N        int     `json:"route_len"`
	SeqMsg   bool    `json:"sequence_message,omitempty"`
	SelfLoop bool    `json:"self_loop,omitempty"`
	Router   string  `json:"router"` // core | default (cross-diagram / grid-cell edge)
	Src      c20End  `json:"src"`
	Dst      c20End  `json:"dst"`
	Tags     []string `json:"tags,omitempty"`
	GraphMargin  bool `json:"graph_margin,omitempty"`  // some object laid out in the same (nested) graph has a non-zero margin
	GraphPadding bool `json:"graph_padding,omitempty"` // ... a non-zero label/icon padding
	MarginBudget float64 `json:"margin_budget,omitempty"` // sum over the objects of that graph of their largest margin component
	Related      string `json:"related,omitempty"`     // src-ancestor-of-dst | dst-ancestor-of-src
	Route    [][2]float64 `json:"route"`
	gRoute0  *geo.Point
}

// c20EnlargedBox: the box the renderer places outside/border labels on (d2svg: box around the 3d/multiple copies).
func c20EnlargedBox(o *d2graph.Object) *geo.Box {
	dx, dy := o.GetModifierElementAdjustments()
	return geo.NewBox(geo.NewPoint(o.TopLeft.X, o.TopLeft.Y-dy), o.Width+dx, o.Height+dy)
}

func c20ObserveEnd(o *d2graph.Object, p *geo.Point) c20End {
	e := c20End{ID: o.AbsID(), Shape: strings.ToLower(o.Shape.Value), Box: c20Box{o.TopLeft.X, o.TopLeft.Y, o.Width, o.Height},
		ThreeD: o.Is3D(), Multiple: o.IsMultiple(), Container: o.IsContainer(), P: [2]float64{p.X, p.Y}}
	e.Dx, e.Dy = o.GetModifierElementAdjustments()
	e.Margin = c20HasMargin(o)
	e.RectLike = c20RectLike(o)
	sd := func(s float64) *float64 { return &s }
	if e.RectLike {
		e.Pieces = append(e.Pieces, c20Piece{Kind: "box", Box: &e.Box})
		if e.Dx != 0 || e.Dy != 0 {
			e.Pieces = append(e.Pieces, c20Piece{Kind: "shifted", Box: &c20Box{o.TopLeft.X + e.Dx, o.TopLeft.Y - e.Dy, o.Width, o.Height}})
		}
	} else {
		offs := [][2]float64{{0, 0}}
		if e.Dx != 0 || e.Dy != 0 {
			offs = append(offs, [2]float64{e.Dx, -e.Dy})
		}
		for i, of := range offs {
			loops := c20Outline(c20ShapeAt(o, of[0], of[1]))
			if len(loops) == 0 {
				e.SearchOnly = true
			}
			kind := "outline"
			if i == 1 {
				kind = "outline-shifted"
			}
			for _, l := range loops {
				e.Pieces = append(e.Pieces, c20Piece{Kind: kind, SD: sd(c20SignedDist(l, p.X, p.Y))})
			}
		}
	}
	if o.HasLabel() && o.LabelPosition != nil {
		e.LabelPos = *o.LabelPosition
		pos := label.FromString(*o.LabelPosition)
		if pos.IsOutside() {
			e.OutLabel = true
			e.LW, e.LH = o.LabelDimensions.Width, o.LabelDimensions.Height
			tl := pos.GetPointOnBox(c20EnlargedBox(o), label.PADDING, float64(e.LW), float64(e.LH))
			// the label box with the horizontal padding TraceToShape gives it (label.PADDING on both sides)
			e.Pieces = append(e.Pieces, c20Piece{Kind: "label", Box: &c20Box{tl.X - label.PADDING, tl.Y, float64(e.LW) + 2*label.PADDING, float64(e.LH)}})
		}
	}
	if o.HasIcon() && o.IconPosition != nil {
		e.IconPos = *o.IconPosition
		pos := label.FromString(*o.IconPosition)
		if pos.IsOutside() {
			e.OutIcon = true
			box := geo.NewBox(o.TopLeft.Copy(), o.Width, o.Height)
			e.IconSize = d2target.GetIconSize(box, pos.String())
			tl := pos.GetPointOnBox(box, label.PADDING, float64(e.IconSize), float64(e.IconSize))
			e.Pieces = append(e.Pieces, c20Piece{Kind: "icon", Box: &c20Box{tl.X, tl.Y, float64(e.IconSize), float64(e.IconSize)}})
			tl = pos.GetPointOnBox(box, label.PADDING, d2target.MAX_ICON_SIZE, d2target.MAX_ICON_SIZE)
			e.CodeIconBox = &c20Box{tl.X, tl.Y, d2target.MAX_ICON_SIZE, d2target.MAX_ICON_SIZE}
		}
	}
	e.MinAbs, e.Deep = math.Inf(1), math.Inf(1)
	for _, pc := range e.Pieces {
		s := 0.0
		if pc.Box != nil {
			b := pc.Box
			s = math.Max(math.Max(b.X-p.X, p.X-(b.X+b.W)), math.Max(b.Y-p.Y, p.Y-(b.Y+b.H)))
		} else {
			s = *pc.SD
		}
		e.MinAbs = math.Min(e.MinAbs, math.Abs(s))
		e.Deep = math.Min(e.Deep, s)
		e.SDs = append(e.SDs, s)
	}
	m, _ := o.Spacing()
	e.OwnMargin = [4]float64{m.Top, m.Bottom, m.Left, m.Right}
	e.NodeSD = math.Max(math.Max((o.TopLeft.X-m.Left)-p.X, p.X-(o.TopLeft.X+o.Width+m.Right)), math.Max((o.TopLeft.Y-m.Top)-p.Y, p.Y-(o.TopLeft.Y+o.Height+m.Bottom)))
	return e
}

// c20Scope: the nested diagram an object is laid out in (the closest strict ancestor that is a grid diagram, a
// sequence diagram, a grid cell that is a container, or a constant near; "" = the root graph).  Edges whose ends have
// different scopes, and edges directly between the cells of a grid, are routed by DefaultRouter / d2grid, not by the
// core engine.
func c20Scope(g *d2graph.Graph, o *d2graph.Object) string {
	if o.NearKey != nil && o.Parent == g.Root && o.IsConstantNear() {
		return o.AbsID()
	}
	for a := o.Parent; a != nil && a != g.Root; a = a.Parent {
		if a.IsGridDiagram() || a.IsSequenceDiagram() {
			return a.AbsID()
		}
		if a.Parent != nil && a.Parent.IsGridDiagram() {
			return a.AbsID()
		}
		if a.NearKey != nil && a.Parent == g.Root && a.IsConstantNear() {
			return a.AbsID()
		}
	}
	if g.Root.IsGridDiagram() || g.Root.IsSequenceDiagram() {
		return "<root-special>"
	}
	return ""
}

func c20HasMargin(o *d2graph.Object) bool {
	m, _ := o.Spacing()
	return m.Top != 0 || m.Bottom != 0 || m.Left != 0 || m.Right != 0
}

func c20HasPadding(o *d2graph.Object) bool {
	_, m := o.Spacing()
	return m.Top != 0 || m.Bottom != 0 || m.Left != 0 || m.Right != 0
}

func c20Observe(engine string, d *d2target.Diagram, g *d2graph.Graph) (conns []c20Conn, fail string) {
	if len(d.Connections) != len(g.Edges) {
		return nil, fmt.Sprintf("exported %d connections for %d edges", len(d.Connections), len(g.Edges))
	}
	scopeMargin, scopePadding := map[string]bool{}, map[string]bool{}
	scopeBudget := map[string]float64{}
	for _, o := range g.Objects {
		if o.Box == nil || o.TopLeft == nil {
			continue
		}
		sc := c20Scope(g, o)
		if c20HasMargin(o) {
			scopeMargin[sc] = true
			m, _ := o.Spacing()
			scopeBudget[sc] += math.Max(math.Max(m.Top, m.Bottom), math.Max(m.Left, m.Right))
		}
		if c20HasPadding(o) {
			scopePadding[sc] = true
		}
	}
	loopObj := map[*d2graph.Object]bool{}
	for _, e := range g.Edges {
		if e.Src == e.Dst {
			loopObj[e.Src] = true
		}
	}
	for i, e := range g.Edges {
		c := c20Conn{Engine: engine, Index: i, ID: e.AbsID(), N: len(d.Connections[i].Route), SelfLoop: e.Src == e.Dst}
		if d.Connections[i].Src != e.Src.AbsID() || d.Connections[i].Dst != e.Dst.AbsID() {
			return nil, "exported connection order differs from g.Edges"
		}
		sq1, sq2 := e.Src.OuterSequenceDiagram(), e.Dst.OuterSequenceDiagram()
		c.SeqMsg = sq1 != nil && sq1 == sq2
		c.Router = "core"
		s1, s2 := c20Scope(g, e.Src), c20Scope(g, e.Dst)
		if s1 != s2 || (e.Src.Parent != nil && e.Src.Parent.IsGridDiagram() && e.Src.Parent == e.Dst.Parent) {
			c.Router = "default"
		}
		c.GraphMargin, c.GraphPadding, c.MarginBudget = scopeMargin[s1], scopePadding[s1], scopeBudget[s1]
		if e.Src != e.Dst && e.Dst.IsDescendantOf(e.Src) {
			c.Related = "src-ancestor-of-dst"
		} else if e.Src != e.Dst && e.Src.IsDescendantOf(e.Dst) {
			c.Related = "dst-ancestor-of-src"
		}
		rt := d.Connections[i].Route
		if len(e.Route) > 0 {
			c.gRoute0 = e.Route[0]
		}
		for _, p := range rt {
			c.Route = append(c.Route, [2]float64{p.X, p.Y})
			if !c20Finite(p.X, p.Y) {
				fail = "non-finite route point on " + c.ID
			}
		}
		if e.Src.Box == nil || e.Src.TopLeft == nil || e.Dst.Box == nil || e.Dst.TopLeft == nil {
			// lifelines of sequence diagrams: d2sequence appends them as edges from the actor to a box-less end object
			if e.Src.OuterSequenceDiagram() != nil || e.Src.IsSequenceDiagram() || g.Root.IsSequenceDiagram() {
				c.SeqMsg, c.Router = true, "sequence"
				conns = append(conns, c)
				continue
			}
			return nil, "edge " + c.ID + " has an endpoint object without a box after layout"
		}
		if len(rt) >= 1 {
			c.Src = c20ObserveEnd(e.Src, rt[0])
			c.Dst = c20ObserveEnd(e.Dst, rt[len(rt)-1])
			c.Src.ObjSelfLoop, c.Dst.ObjSelfLoop = loopObj[e.Src], loopObj[e.Dst]
		}
		conns = append(conns, c)
	}
	return conns, fail
}

// ---- case generation ----

// Known-finding signatures.  A signature is the INPUT predicate of a recorded defect (construct + engine + which router
// lays the edge out) AND the geometry that the recorded mechanism predicts for the end point; an end that matches the
// input predicate but whose deviation is not the predicted one keeps no tag and is reported as a violation.
const (
	c20KFDagreMargin         = "C20-dagre-margin-shift"
	c20KFElkMargin           = "C20-elk-margin-end"
	c20KFRouter3D            = "C20-router-3d-multiple"
	c20KFContainerDesc       = "C20-container-descendant-edge"
	c20KFSrcIcon             = "C20-router-source-icon-size"
	c20KFShortRay            = "C20-trace-border-short-ray"
	c20KFC4Head              = "C20-c4person-head-overhang"
	c20KFElkNonRectContainer = "C20-elk-nonrect-container"
	c20KFOffsetSelfLoop      = "C20-offset-self-loop"
	c20KFOffsetCopyChoice    = "C20-offset-copy-choice-nonrect"
	c20KFDecoBoxes           = "C20-decoration-box-mismatch"
)

const c20Tol = 1.0

// c20Geo: where the end point lies relative to the pieces of the visual extent.
//   on: kinds of the pieces whose border it is on (within c20Tol);  in: kinds of the pieces it is strictly inside;
//   untraced: on no border at all (the point floats beside the extent or sits inside a piece): what an end looks like
//   that TraceToShape did not move.
type c20Geo struct {
	on, in   map[string]bool
	untraced bool
}

func c20GeoOf(e *c20End) c20Geo {
	g := c20Geo{on: map[string]bool{}, in: map[string]bool{}}
	for i, pc := range e.Pieces {
		switch s := e.SDs[i]; {
		case math.Abs(s) <= c20Tol:
			g.on[pc.Kind] = true
		case s < -c20Tol:
			g.in[pc.Kind] = true
		}
	}
	g.untraced = len(g.on) == 0
	return g
}

func c20Only(m map[string]bool, allowed ...string) bool {
	if len(m) == 0 {
		return false
	}
	for k := range m {
		ok := false
		for _, a := range allowed {
			ok = ok || k == a
		}
		if !ok {
			return false
		}
	}
	return true
}

func c20SDBox(b c20Box, p [2]float64) float64 {
	return math.Max(math.Max(b.X-p[0], p[0]-(b.X+b.W)), math.Max(b.Y-p[1], p[1]-(b.Y+b.H)))
}

// c20ExpectedCopy reconstructs the decision of the unchanged dagre/ELK code "use the 3d/multiple offset box": it is
// taken from the pre-trace end point, which lies on the bounding box of the front copy on the line through the traced
// point and its neighbour nb.  +1: the offset copy is expected, -1: the front copy, 0: cannot be told (within win px of
// the decision boundary -- the cross-rank spacing of dagre may have moved the pre-trace point by up to the shape's own
// margin --, or the line misses the box).
func c20ExpectedCopy(e *c20End, nb [2]float64, win float64) int {
	px, py := e.P[0], e.P[1]
	dx, dy := px-nb[0], py-nb[1]
	if dx == 0 && dy == 0 {
		return 0
	}
	// first point of the ray nb + t*(p-nb), t >= 0, on the border of the front box
	best := math.Inf(1)
	try := func(t float64) {
		if t < 0 || math.IsNaN(t) || math.IsInf(t, 0) {
			return
		}
		x, y := nb[0]+t*dx, nb[1]+t*dy
		if x >= e.Box.X-0.75 && x <= e.Box.X+e.Box.W+0.75 && y >= e.Box.Y-0.75 && y <= e.Box.Y+e.Box.H+0.75 && t < best {
			best = t
		}
	}
	if dx != 0 {
		try((e.Box.X - nb[0]) / dx)
		try((e.Box.X + e.Box.W - nb[0]) / dx)
	}
	if dy != 0 {
		try((e.Box.Y - nb[1]) / dy)
		try((e.Box.Y + e.Box.H - nb[1]) / dy)
	}
	if math.IsInf(best, 1) {
		return 0
	}
	sx, sy := nb[0]+best*dx, nb[1]+best*dy
	bx, by := e.Box.X+e.Dx, e.Box.Y+e.Box.H-e.Dy
	switch {
	case sx > bx+win && sy < by-win:
		return 1
	case sx < bx-win || sy > by+win:
		return -1
	}
	return 0
}

func c20KF(c *c20Conn, e *c20End, isDst bool) []string {
	var kf []string
	if len(e.SDs) != len(e.Pieces) || len(e.Pieces) == 0 {
		return nil
	}
	g := c20GeoOf(e)
	core := c.Router == "core"
	offset := e.ThreeD || e.Multiple
	ownMargin := math.Max(math.Max(e.OwnMargin[0], e.OwnMargin[1]), math.Max(e.OwnMargin[2], e.OwnMargin[3]))
	front := []string{"box", "outline"}
	copies := []string{"box", "outline", "shifted", "outline-shifted"}
	nb := [2]float64{}
	if len(c.Route) >= 2 {
		nb = c.Route[1]
		if isDst {
			nb = c.Route[len(c.Route)-2]
		}
	}

	// dagre: shiftReachableDown moved the end point or the end's shape by the margins of the graph and TraceToShape
	// found nothing to trace to: the point is on NO border and off by at most the margins that were shifted
	if c.Engine == "dagre" && core && c.GraphMargin && g.untraced && e.MinAbs <= c.MarginBudget+c20Tol {
		kf = append(kf, c20KFDagreMargin)
	}
	// ELK: the port stayed where the border of the node enlarged by the end's own margin was
	if c.Engine == "elk" && core && e.Margin && g.untraced && e.MinAbs <= ownMargin+c20Tol {
		kf = append(kf, c20KFElkMargin)
	}
	// dagre and ELK: a self loop on a 3d/multiple shape switches the SAME object to its offset box twice and undoes it
	// once: the shape stays displaced by (dx,-dy) for every edge traced afterwards
	if core && offset && e.ObjSelfLoop {
		kf = append(kf, c20KFOffsetSelfLoop)
	}
	// dagre and ELK, non-rectangular 3d/multiple shapes: the copy is chosen from the bounding-box region of the pre-trace
	// point; the traced point is on the outline of the CHOSEN copy but inside the other one
	// (ELK: deleteBends re-traces the end with the box of the FRONT copy whatever was chosen: no expectation there)
	if core && offset && !e.RectLike && c20Only(g.on, copies...) && c20Only(g.in, copies...) {
		exp := 0
		if c.Engine == "dagre" {
			exp = c20ExpectedCopy(e, nb, 2+ownMargin)
		}
		onFront, onShifted := g.on["outline"], g.on["outline-shifted"]
		if !((exp == 1 && onFront && !onShifted) || (exp == -1 && onShifted && !onFront)) {
			kf = append(kf, c20KFOffsetCopyChoice)
		}
	}
	// the label / icon box TraceToShape stops at is not the box d2svg draws: 3d/multiple shapes with an outside label or
	// icon (box derived from the offset box vs. from the box around both copies), outside label and outside icon together
	if core && ((offset && (e.OutLabel || e.OutIcon)) || (e.OutLabel && e.OutIcon)) &&
		(g.on["label"] || g.on["icon"] || g.in["label"] || g.in["icon"]) {
		kf = append(kf, c20KFDecoBoxes)
	}
	// DefaultRouter / d2grid never switch to the offset box: on the front copy, inside the copy behind it
	if c.Router == "default" && offset && c20Only(g.on, front...) && c20Only(g.in, "shifted", "outline-shifted") {
		kf = append(kf, c20KFRouter3D)
	}
	// container <-> own descendant (or self loop on a container): the container's end was never brought to its border:
	// on no border, inside the container's own shape
	if (c.Related != "" || (c.SelfLoop && e.Container)) && (c.Router == "default" || c.Engine == "dagre") &&
		g.untraced && c20Only(g.in, copies...) {
		kf = append(kf, c20KFContainerDesc)
	}
	// ... and when one of the two is a 3d/multiple shape the edge reaches it from the inside of the container / passes
	// under the copy drawn behind it: on the border of one copy, inside the other
	if c.Related != "" && core && offset && c20Only(g.on, copies...) && c20Only(g.in, copies...) {
		kf = append(kf, c20KFContainerDesc)
	}
	// ELK + non-rectangular container: the end was not brought to the outline: it stayed on the bounding box, or
	// (container -> own descendant) on the ray between the bounding box and the outline
	if c.Engine == "elk" && core && e.Container && !e.RectLike && g.untraced && c20SDBox(e.Box, e.P) <= c20Tol &&
		(math.Abs(c20SDBox(e.Box, e.P)) <= c20Tol || c.Related != "") {
		kf = append(kf, c20KFElkNonRectContainer)
	}
	// TraceToShapeBorder's ray too short: the end stayed on the bounding box, outside the outline
	if !e.RectLike && e.Box.H > 2*e.Box.W && len(g.in) == 0 && g.untraced && math.Abs(c20SDBox(e.Box, e.P)) <= c20Tol {
		kf = append(kf, c20KFShortRay)
	}
	// c4-person: on the body outline, inside the head disc (or the other way round)
	if e.Shape == "c4-person" && 0.44*e.Box.W > e.Box.H && c20Only(g.on, "outline") && c20Only(g.in, "outline") {
		kf = append(kf, c20KFC4Head)
	}
	// source icon box built with MAX_ICON_SIZE: the end is on the border of THAT box
	if c.Router == "default" && !isDst && e.OutIcon && e.CodeIconBox != nil && math.Abs(c20SDBox(*e.CodeIconBox, e.P)) <= c20Tol {
		kf = append(kf, c20KFSrcIcon)
	}
	return kf
}

func c20VisT(e *c20End) string {
	lab, ic := "None", "None"
	if e.OutLabel {
		lab = c20LabelT(e.LabelPos, float64(e.LW), float64(e.LH))
	}
	if e.OutIcon {
		ic = c20IconT(e.IconPos, float64(e.IconSize))
	}
	return fmt.Sprintf("(mkvis %s %s %s %s %s)", c20BoxT(e.Box.X, e.Box.Y, e.Box.W, e.Box.H), c20Q(e.Dx), c20Q(e.Dy), lab, ic)
}

func c20EndCase(sc c20Script, c *c20Conn, e *c20End, o *d2graph.Object, other *d2graph.Object, isDst bool) Case {
	which := "src"
	if isDst {
		which = "dst"
	}
	cs := Case{Class: sc.class + "/" + c.Engine, Input: map[string]any{"script": sc.script, "engine": c.Engine, "connection": c.ID, "index": c.Index, "end": which}}
	var sds []string
	for _, pc := range e.Pieces {
		if pc.SD != nil {
			sds = append(sds, c20Q(math.Round(*pc.SD*1024)/1024))
		}
	}
	pre := "None"
	// DefaultRouter / d2grid routes: [centre, centre] traced by TraceToShape; replayed by the model when this end is a
	// true rectangle (TraceToShapeBorder is the identity there)
	if c.Router == "default" && c.N == 2 && o != nil && c20TrueRect(o) {
		nb := c20P(c.Route[0][0], c.Route[0][1])
		if isDst && c.gRoute0 != nil {
			nb = c20P(c.gRoute0.X, c.gRoute0.Y) // as TraceToShape saw it: not truncated by the exporter
		}
		if !isDst {
			ctr := other.Center()
			nb = c20P(ctr.X, ctr.Y)
		}
		pre = fmt.Sprintf("(Some (%s, %s))", c20EndObjT(o, isDst), nb)
	}
	cs.Coq = fmt.Sprintf("CEnd %s %s %s %s %s %s %s", coqBool(isDst), coqNat(c.N), c20P(e.P[0], e.P[1]), c20VisT(e), coqBool(e.RectLike), coqList(sds), pre)
	cs.Impl = map[string]any{"engine": c.Engine, "router": c.Router, "route": c.Route, "end": e, "graph_margin": c.GraphMargin, "margin_budget": c.MarginBudget, "related": c.Related, "self_loop": c.SelfLoop}
	cs.Nontrivial = true
	cs.Key = fmt.Sprintf("%s|%s|%d|%s", c.Engine, sc.script, c.Index, which)
	cs.KF = c20KF(c, e, isDst)
	if e.SearchOnly {
		cs.ImplFail = append(cs.ImplFail, "outline of "+e.Shape+" could not be sampled")
	}
	return cs
}

func c20TrueRect(o *d2graph.Object) bool {
	s := c20ShapeAt(o, 0, 0)
	return s.Is("") || s.IsRectangular()
}

func c20Gen(r *Rng, tier string, n int) []Case {
	var out []Case
	scripts := c20Corpus(tier)
	if f := os.Getenv("C20_SCRIPT"); f != "" { // debugging aid: lay out just this script
		b, _ := os.ReadFile(f)
		scripts, n = []c20Script{{string(b), "debug"}}, 1
	}
	// debugging / mutation-testing aid: C20_CLASSES=container,grid restricts the run to corpus classes with one of these
	// prefixes (no random scripts, no synthetic geometry unless "syn" is listed)
	only := os.Getenv("C20_CLASSES")
	if only != "" {
		var keep []c20Script
		for _, sc := range scripts {
			for _, pre := range strings.Split(only, ",") {
				if strings.HasPrefix(sc.class, pre) {
					keep = append(keep, sc)
					break
				}
			}
		}
		scripts, n = keep, len(keep)
	}
	if only == "" && os.Getenv("C20_SCRIPT") == "" && n < len(scripts)+4 {
		n = len(scripts) + 4 // the random classes are part of every tier
	}
	for tries := 0; len(scripts) < n && tries < 20*n; tries++ {
		s, class := c20Random(r.Fork()), "random"
		if tries%3 == 0 {
			s, class = c20OffsetRandom(r.Fork()), "random-offset"
		}
		if _, _, err := c20Compile(s); err != nil {
			continue
		}
		scripts = append(scripts, c20Script{s, class})
	}
	nSeq := 0
	for _, sc := range scripts {
		for _, engine := range []string{"dagre", "elk"} {
			d, g, fail := c20Layout(sc.script, engine)
			in := map[string]any{"script": sc.script, "engine": engine}
			if fail != "" {
				out = append(out, Case{Class: sc.class + "/" + engine, Input: in, ImplFail: []string{fail}, Coq: "CSkip"})
				continue
			}
			conns, ofail := c20Observe(engine, d, g)
			if ofail != "" {
				out = append(out, Case{Class: sc.class + "/" + engine, Input: in, ImplFail: []string{ofail}, Coq: "CSkip"})
				continue
			}
			for i := range conns {
				c := &conns[i]
				if c.SeqMsg { // excluded by the property; generated and counted
					nSeq++
					out = append(out, Case{Class: "sequence-message(excluded)/" + engine, Coq: "CSkip",
						Input: map[string]any{"script": sc.script, "engine": engine, "connection": c.ID}})
					continue
				}
				e := g.Edges[c.Index]
				out = append(out, c20EndCase(sc, c, &c.Src, e.Src, e.Dst, false))
				out = append(out, c20EndCase(sc, c, &c.Dst, e.Dst, e.Src, true))
			}
		}
	}
	if os.Getenv("C20_SCRIPT") != "" || (only != "" && !strings.Contains(only, "syn")) {
		return out
	}
	// (a) synthetic geometry
	out = append(out, c20IntCorpus()...)
	nSyn := 150
	if tier == "thorough" {
		nSyn = 1200
	}
	for i := 0; i < nSyn; i++ {
		out = append(out, c20IntRandom(r.Fork()))
	}
	for i := 0; i < nSyn; i++ {
		out = append(out, c20TraceCase(r.Fork(), i%4 == 3))
	}
	for i := 0; i < nSyn; i++ {
		out = append(out, c20BorderCase(r.Fork(), i))
	}
	return out
}
