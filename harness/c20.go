package main

// C20 — connections start at their source and end at their destination.
//
// (b) Real pipeline: every d2 script is compiled and laid out by d2lib.Compile (real compiler, real text ruler,
// LayoutNested, dagre or ELK, d2near, d2grid, d2sequence, DefaultRouter, d2exporter).  Per connection of the
// laid-out graph the harness reads the exported route (d2target.Connection.Route) and, for both ends, the data the
// VISUAL EXTENT is a function of (box, 3D/multiple offsets, outside label, outside icon) and hands it to
// V.C20.Check.check_case; for non-rectangular shapes the signed distance of the end point to the outline sampled
// from the real lib/shape perimeter is passed as a number.
// (a) Synthetic geometry: geo.Box.Intersections and Edge.TraceToShape on hand-built objects vs. the Coq model.

import (
	"context"
	"fmt"
	"io"
	"log/slog"
	"math"
	"os"
	"strings"

	"oss.terrastruct.com/d2/d2graph"
	"oss.terrastruct.com/d2/d2layouts/d2dagrelayout"
	"oss.terrastruct.com/d2/d2layouts/d2elklayout"
	"oss.terrastruct.com/d2/d2lib"
	"oss.terrastruct.com/d2/d2target"
	"oss.terrastruct.com/d2/lib/geo"
	"oss.terrastruct.com/d2/lib/label"
	d2log "oss.terrastruct.com/d2/lib/log"
	"oss.terrastruct.com/d2/lib/textmeasure"
)

func init() {
	register(&Prop{ID: "C20", Module: "V.C20.Check", Gen: c20Gen, Quick: 40, Thorough: 400, Shard: 80})
}

var c20Ruler *textmeasure.Ruler

func c20Layout(script, engine string) (d *d2target.Diagram, g *d2graph.Graph, fail string) {
	defer func() {
		if e := recover(); e != nil {
			fail = fmt.Sprintf("panic: %v", e)
		}
	}()
	if c20Ruler == nil {
		r, err := textmeasure.NewRuler()
		if err != nil {
			return nil, nil, "ruler: " + err.Error()
		}
		c20Ruler = r
	}
	resolver := func(e string) (d2graph.LayoutGraph, error) {
		if engine == "elk" {
			return d2elklayout.DefaultLayout, nil
		}
		return d2dagrelayout.DefaultLayout, nil
	}
	ctx := d2log.With(context.Background(), slog.New(slog.NewTextHandler(io.Discard, nil)))
	eng := engine
	d, g, err := d2lib.Compile(ctx, script, &d2lib.CompileOptions{Ruler: c20Ruler, Layout: &eng, LayoutResolver: resolver}, nil)
	if err != nil {
		return nil, nil, "compile/layout error: " + err.Error()
	}
	return d, g, ""
}

// ---- observation ----

type c20Box struct{ X, Y, W, H float64 }

type c20Piece struct {
	Kind string   `json:"kind"` // box | shifted | label | icon | outline | outline-shifted
	Box  *c20Box  `json:"box,omitempty"`
	SD   *float64 `json:"sd,omitempty"` // signed distance of the end point (outline pieces)
}

type c20End struct {
	ID        string     `json:"id"`
	Shape     string     `json:"shape"`
	Box       c20Box     `json:"box"`
	Dx        float64    `json:"dx"`
	Dy        float64    `json:"dy"`
	ThreeD    bool       `json:"3d,omitempty"`
	Multiple  bool       `json:"multiple,omitempty"`
	LabelPos  string     `json:"label_pos,omitempty"`
	OutLabel  bool       `json:"outside_label,omitempty"`
	LW        int        `json:"lw,omitempty"`
	LH        int        `json:"lh,omitempty"`
	IconPos   string     `json:"icon_pos,omitempty"`
	OutIcon   bool       `json:"outside_icon,omitempty"`
	IconSize  int        `json:"icon_size,omitempty"`
	RectLike  bool       `json:"rect_like"`
	Container bool       `json:"container,omitempty"`
	P         [2]float64 `json:"p"` // the route end point that belongs to this end
	Pieces    []c20Piece `json:"pieces"`
	SearchOnly bool      `json:"search_only,omitempty"` // outline could not be sampled
	Margin     bool      `json:"margin,omitempty"`      // Spacing() margin of the object is non-zero
	// Go-side mirror of the Coq predicate (for reading; the verdict is Coq's)
	MinAbs float64 `json:"min_abs"`
	Deep   float64 `json:"deepest"`
}

type c20Conn struct {
	Engine   string  `json:"engine"`
	Index    int     `json:"index"`
	ID       string  `json:"id"`
	N        int     `json:"route_len"`
	SeqMsg   bool    `json:"sequence_message,omitempty"`
	SelfLoop bool    `json:"self_loop,omitempty"`
	Router   string  `json:"router"` // core | default (cross-diagram / grid-cell edge)
	Src      c20End  `json:"src"`
	Dst      c20End  `json:"dst"`
	Tags     []string `json:"tags,omitempty"`
	GraphMargin  bool `json:"graph_margin,omitempty"`  // some object laid out in the same (nested) graph has a non-zero margin
	GraphPadding bool `json:"graph_padding,omitempty"` // ... a non-zero label/icon padding
	Related      string `json:"related,omitempty"`     // src-ancestor-of-dst | dst-ancestor-of-src
	Route    [][2]float64 `json:"route"`
	gRoute0  *geo.Point
}

// c20EnlargedBox: the box the renderer places outside/border labels on (d2svg: box around the 3d/multiple copies).
func c20EnlargedBox(o *d2graph.Object) *geo.Box {
	dx, dy := o.GetModifierElementAdjustments()
	return geo.NewBox(geo.NewPoint(o.TopLeft.X, o.TopLeft.Y-dy), o.Width+dx, o.Height+dy)
}

func c20ObserveEnd(o *d2graph.Object, p *geo.Point) c20End {
	e := c20End{ID: o.AbsID(), Shape: strings.ToLower(o.Shape.Value), Box: c20Box{o.TopLeft.X, o.TopLeft.Y, o.Width, o.Height},
		ThreeD: o.Is3D(), Multiple: o.IsMultiple(), Container: o.IsContainer(), P: [2]float64{p.X, p.Y}}
	e.Dx, e.Dy = o.GetModifierElementAdjustments()
	e.Margin = c20HasMargin(o)
	e.RectLike = c20RectLike(o)
	sd := func(s float64) *float64 { return &s }
	if e.RectLike {
		e.Pieces = append(e.Pieces, c20Piece{Kind: "box", Box: &e.Box})
		if e.Dx != 0 || e.Dy != 0 {
			e.Pieces = append(e.Pieces, c20Piece{Kind: "shifted", Box: &c20Box{o.TopLeft.X + e.Dx, o.TopLeft.Y - e.Dy, o.Width, o.Height}})
		}
	} else {
		offs := [][2]float64{{0, 0}}
		if e.Dx != 0 || e.Dy != 0 {
			offs = append(offs, [2]float64{e.Dx, -e.Dy})
		}
		for i, of := range offs {
			loops := c20Outline(c20ShapeAt(o, of[0], of[1]))
			if len(loops) == 0 {
				e.SearchOnly = true
			}
			kind := "outline"
			if i == 1 {
				kind = "outline-shifted"
			}
			for _, l := range loops {
				e.Pieces = append(e.Pieces, c20Piece{Kind: kind, SD: sd(c20SignedDist(l, p.X, p.Y))})
			}
		}
	}
	if o.HasLabel() && o.LabelPosition != nil {
		e.LabelPos = *o.LabelPosition
		pos := label.FromString(*o.LabelPosition)
		if pos.IsOutside() {
			e.OutLabel = true
			e.LW, e.LH = o.LabelDimensions.Width, o.LabelDimensions.Height
			tl := pos.GetPointOnBox(c20EnlargedBox(o), label.PADDING, float64(e.LW), float64(e.LH))
			// the label box with the horizontal padding TraceToShape gives it (label.PADDING on both sides)
			e.Pieces = append(e.Pieces, c20Piece{Kind: "label", Box: &c20Box{tl.X - label.PADDING, tl.Y, float64(e.LW) + 2*label.PADDING, float64(e.LH)}})
		}
	}
	if o.HasIcon() && o.IconPosition != nil {
		e.IconPos = *o.IconPosition
		pos := label.FromString(*o.IconPosition)
		if pos.IsOutside() {
			e.OutIcon = true
			box := geo.NewBox(o.TopLeft.Copy(), o.Width, o.Height)
			e.IconSize = d2target.GetIconSize(box, pos.String())
			tl := pos.GetPointOnBox(box, label.PADDING, float64(e.IconSize), float64(e.IconSize))
			e.Pieces = append(e.Pieces, c20Piece{Kind: "icon", Box: &c20Box{tl.X, tl.Y, float64(e.IconSize), float64(e.IconSize)}})
		}
	}
	e.MinAbs, e.Deep = math.Inf(1), math.Inf(1)
	for _, pc := range e.Pieces {
		s := 0.0
		if pc.Box != nil {
			b := pc.Box
			s = math.Max(math.Max(b.X-p.X, p.X-(b.X+b.W)), math.Max(b.Y-p.Y, p.Y-(b.Y+b.H)))
		} else {
			s = *pc.SD
		}
		e.MinAbs = math.Min(e.MinAbs, math.Abs(s))
		e.Deep = math.Min(e.Deep, s)
	}
	return e
}

// c20Scope: the nested diagram an object is laid out in (the closest strict ancestor that is a grid diagram, a
// sequence diagram, a grid cell that is a container, or a constant near; "" = the root graph).  Edges whose ends have
// different scopes, and edges directly between the cells of a grid, are routed by DefaultRouter / d2grid, not by the
// core engine.
func c20Scope(g *d2graph.Graph, o *d2graph.Object) string {
	if o.NearKey != nil && o.Parent == g.Root && o.IsConstantNear() {
		return o.AbsID()
	}
	for a := o.Parent; a != nil && a != g.Root; a = a.Parent {
		if a.IsGridDiagram() || a.IsSequenceDiagram() {
			return a.AbsID()
		}
		if a.Parent != nil && a.Parent.IsGridDiagram() {
			return a.AbsID()
		}
		if a.NearKey != nil && a.Parent == g.Root && a.IsConstantNear() {
			return a.AbsID()
		}
	}
	if g.Root.IsGridDiagram() || g.Root.IsSequenceDiagram() {
		return "<root-special>"
	}
	return ""
}

func c20HasMargin(o *d2graph.Object) bool {
	m, _ := o.Spacing()
	return m.Top != 0 || m.Bottom != 0 || m.Left != 0 || m.Right != 0
}

func c20HasPadding(o *d2graph.Object) bool {
	_, m := o.Spacing()
	return m.Top != 0 || m.Bottom != 0 || m.Left != 0 || m.Right != 0
}

func c20Observe(engine string, d *d2target.Diagram, g *d2graph.Graph) (conns []c20Conn, fail string) {
	if len(d.Connections) != len(g.Edges) {
		return nil, fmt.Sprintf("exported %d connections for %d edges", len(d.Connections), len(g.Edges))
	}
	scopeMargin, scopePadding := map[string]bool{}, map[string]bool{}
	for _, o := range g.Objects {
		if o.Box == nil || o.TopLeft == nil {
			continue
		}
		sc := c20Scope(g, o)
		if c20HasMargin(o) {
			scopeMargin[sc] = true
		}
		if c20HasPadding(o) {
			scopePadding[sc] = true
		}
	}
	for i, e := range g.Edges {
		c := c20Conn{Engine: engine, Index: i, ID: e.AbsID(), N: len(d.Connections[i].Route), SelfLoop: e.Src == e.Dst}
		if d.Connections[i].Src != e.Src.AbsID() || d.Connections[i].Dst != e.Dst.AbsID() {
			return nil, "exported connection order differs from g.Edges"
		}
		sq1, sq2 := e.Src.OuterSequenceDiagram(), e.Dst.OuterSequenceDiagram()
		c.SeqMsg = sq1 != nil && sq1 == sq2
		c.Router = "core"
		s1, s2 := c20Scope(g, e.Src), c20Scope(g, e.Dst)
		if s1 != s2 || (e.Src.Parent != nil && e.Src.Parent.IsGridDiagram() && e.Src.Parent == e.Dst.Parent) {
			c.Router = "default"
		}
		c.GraphMargin, c.GraphPadding = scopeMargin[s1], scopePadding[s1]
		if e.Src != e.Dst && e.Dst.IsDescendantOf(e.Src) {
			c.Related = "src-ancestor-of-dst"
		} else if e.Src != e.Dst && e.Src.IsDescendantOf(e.Dst) {
			c.Related = "dst-ancestor-of-src"
		}
		rt := d.Connections[i].Route
		if len(e.Route) > 0 {
			c.gRoute0 = e.Route[0]
		}
		for _, p := range rt {
			c.Route = append(c.Route, [2]float64{p.X, p.Y})
			if !c20Finite(p.X, p.Y) {
				fail = "non-finite route point on " + c.ID
			}
		}
		if e.Src.Box == nil || e.Src.TopLeft == nil || e.Dst.Box == nil || e.Dst.TopLeft == nil {
			// lifelines of sequence diagrams: d2sequence appends them as edges from the actor to a box-less end object
			if e.Src.OuterSequenceDiagram() != nil || e.Src.IsSequenceDiagram() || g.Root.IsSequenceDiagram() {
				c.SeqMsg, c.Router = true, "sequence"
				conns = append(conns, c)
				continue
			}
			return nil, "edge " + c.ID + " has an endpoint object without a box after layout"
		}
		if len(rt) >= 1 {
			c.Src = c20ObserveEnd(e.Src, rt[0])
			c.Dst = c20ObserveEnd(e.Dst, rt[len(rt)-1])
		}
		conns = append(conns, c)
	}
	return conns, fail
}

// ---- case generation ----

// Known-finding signatures (narrow predicates on the INPUT: construct + engine + which router lays the edge out).
const (
	c20KFDagreMargin  = "C20-dagre-margin-shift"
	c20KFElkMargin    = "C20-elk-margin-end"
	c20KFRouter3D     = "C20-router-3d-multiple"
	c20KFContainerDesc = "C20-container-descendant-edge"
	c20KFSrcIcon      = "C20-router-source-icon-size"
	c20KFShortRay     = "C20-trace-border-short-ray"
	c20KFC4Head       = "C20-c4person-head-overhang"
	c20KFElkNonRectContainer = "C20-elk-nonrect-container"
)

func c20KF(c *c20Conn, e *c20End, isDst bool) []string {
	var kf []string
	if c.Engine == "dagre" && c.Router == "core" && c.GraphMargin {
		kf = append(kf, c20KFDagreMargin)
	}
	if c.Engine == "elk" && c.Router == "core" && e.Margin {
		kf = append(kf, c20KFElkMargin)
	}
	if c.Router == "default" && (e.ThreeD || e.Multiple) {
		kf = append(kf, c20KFRouter3D)
	}
	if (c.Related != "" || (c.SelfLoop && e.Container)) && (c.Router == "default" || c.Engine == "dagre") {
		kf = append(kf, c20KFContainerDesc)
	}
	if c.Engine == "elk" && c.Router == "core" && e.Container && !e.RectLike {
		kf = append(kf, c20KFElkNonRectContainer)
	}
	if !e.RectLike && e.Box.H > 2*e.Box.W {
		kf = append(kf, c20KFShortRay)
	}
	if e.Shape == "c4-person" && 0.44*e.Box.W > e.Box.H {
		kf = append(kf, c20KFC4Head)
	}
	if c.Router == "default" && !isDst && e.OutIcon {
		kf = append(kf, c20KFSrcIcon)
	}
	return kf
}

func c20VisT(e *c20End) string {
	lab, ic := "None", "None"
	if e.OutLabel {
		lab = c20LabelT(e.LabelPos, float64(e.LW), float64(e.LH))
	}
	if e.OutIcon {
		ic = c20IconT(e.IconPos, float64(e.IconSize))
	}
	return fmt.Sprintf("(mkvis %s %s %s %s %s)", c20BoxT(e.Box.X, e.Box.Y, e.Box.W, e.Box.H), c20Q(e.Dx), c20Q(e.Dy), lab, ic)
}

func c20EndCase(sc c20Script, c *c20Conn, e *c20End, o *d2graph.Object, other *d2graph.Object, isDst bool) Case {
	which := "src"
	if isDst {
		which = "dst"
	}
	cs := Case{Class: sc.class + "/" + c.Engine, Input: map[string]any{"script": sc.script, "engine": c.Engine, "connection": c.ID, "index": c.Index, "end": which}}
	var sds []string
	for _, pc := range e.Pieces {
		if pc.SD != nil {
			sds = append(sds, c20Q(math.Round(*pc.SD*1024)/1024))
		}
	}
	pre := "None"
	// DefaultRouter / d2grid routes: [centre, centre] traced by TraceToShape; replayed by the model when this end is a
	// true rectangle (TraceToShapeBorder is the identity there)
	if c.Router == "default" && c.N == 2 && o != nil && c20TrueRect(o) {
		nb := c20P(c.Route[0][0], c.Route[0][1])
		if isDst && c.gRoute0 != nil {
			nb = c20P(c.gRoute0.X, c.gRoute0.Y) // as TraceToShape saw it: not truncated by the exporter
		}
		if !isDst {
			ctr := other.Center()
			nb = c20P(ctr.X, ctr.Y)
		}
		pre = fmt.Sprintf("(Some (%s, %s))", c20EndObjT(o, isDst), nb)
	}
	cs.Coq = fmt.Sprintf("CEnd %s %s %s %s %s %s %s", coqBool(isDst), coqNat(c.N), c20P(e.P[0], e.P[1]), c20VisT(e), coqBool(e.RectLike), coqList(sds), pre)
	cs.Impl = map[string]any{"engine": c.Engine, "router": c.Router, "route": c.Route, "end": e, "graph_margin": c.GraphMargin, "related": c.Related, "self_loop": c.SelfLoop}
	cs.Nontrivial = true
	cs.Key = fmt.Sprintf("%s|%s|%d|%s", c.Engine, sc.script, c.Index, which)
	cs.KF = c20KF(c, e, isDst)
	if e.SearchOnly {
		cs.ImplFail = append(cs.ImplFail, "outline of "+e.Shape+" could not be sampled")
	}
	return cs
}

func c20TrueRect(o *d2graph.Object) bool {
	s := c20ShapeAt(o, 0, 0)
	return s.Is("") || s.IsRectangular()
}

func c20Gen(r *Rng, tier string, n int) []Case {
	var out []Case
	scripts := c20Corpus(tier)
	if f := os.Getenv("C20_SCRIPT"); f != "" { // debugging aid: lay out just this script
		b, _ := os.ReadFile(f)
		scripts, n = []c20Script{{string(b), "debug"}}, 1
	}
	// debugging / mutation-testing aid: C20_CLASSES=container,grid restricts the run to corpus classes with one of these
	// prefixes (no random scripts, no synthetic geometry unless "syn" is listed)
	only := os.Getenv("C20_CLASSES")
	if only != "" {
		var keep []c20Script
		for _, sc := range scripts {
			for _, pre := range strings.Split(only, ",") {
				if strings.HasPrefix(sc.class, pre) {
					keep = append(keep, sc)
					break
				}
			}
		}
		scripts, n = keep, len(keep)
	}
	for tries := 0; len(scripts) < n && tries < 20*n; tries++ {
		s := c20Random(r.Fork())
		if _, _, err := c20Compile(s); err != nil {
			continue
		}
		scripts = append(scripts, c20Script{s, "random"})
	}
	nSeq := 0
	for _, sc := range scripts {
		for _, engine := range []string{"dagre", "elk"} {
			d, g, fail := c20Layout(sc.script, engine)
			in := map[string]any{"script": sc.script, "engine": engine}
			if fail != "" {
				out = append(out, Case{Class: sc.class + "/" + engine, Input: in, ImplFail: []string{fail}, Coq: "CSkip"})
				continue
			}
			conns, ofail := c20Observe(engine, d, g)
			if ofail != "" {
				out = append(out, Case{Class: sc.class + "/" + engine, Input: in, ImplFail: []string{ofail}, Coq: "CSkip"})
				continue
			}
			for i := range conns {
				c := &conns[i]
				if c.SeqMsg { // excluded by the property; generated and counted
					nSeq++
					out = append(out, Case{Class: "sequence-message(excluded)/" + engine, Coq: "CSkip",
						Input: map[string]any{"script": sc.script, "engine": engine, "connection": c.ID}})
					continue
				}
				e := g.Edges[c.Index]
				out = append(out, c20EndCase(sc, c, &c.Src, e.Src, e.Dst, false))
				out = append(out, c20EndCase(sc, c, &c.Dst, e.Dst, e.Src, true))
			}
		}
	}
	if os.Getenv("C20_SCRIPT") != "" || (only != "" && !strings.Contains(only, "syn")) {
		return out
	}
	// (a) synthetic geometry
	out = append(out, c20IntCorpus()...)
	nSyn := 150
	if tier == "thorough" {
		nSyn = 1200
	}
	for i := 0; i < nSyn; i++ {
		out = append(out, c20IntRandom(r.Fork()))
	}
	for i := 0; i < nSyn; i++ {
		out = append(out, c20TraceCase(r.Fork(), i%4 == 3))
	}
	for i := 0; i < nSyn; i++ {
		out = append(out, c20BorderCase(r.Fork(), i))
	}
	return out
}
