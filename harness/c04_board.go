package main

// Board model cases of C04: lists of items (ordinary declarations and scenarios blocks) rendered as D2 text,
// compiled before and after formatting; Coq compares with V.C04.Model.meaning / fmt_move.

import (
	"fmt"
	"sort"
	"strconv"
	"strings"

	"oss.terrastruct.com/d2/d2graph"
)

type c04Item struct {
	decl int   // > 0: ordinary declaration o<decl>
	own  []int // board block with these own declarations
}

func c04BoardText(items []c04Item, r *Rng) string {
	var b strings.Builder
	nb := 0
	for _, it := range items {
		if it.decl > 0 {
			fmt.Fprintf(&b, "o%d\n", it.decl)
			continue
		}
		nb++
		var own []string
		for _, o := range it.own {
			own = append(own, fmt.Sprintf("o%d", o))
		}
		if r != nil && r.Bool() {
			fmt.Fprintf(&b, "scenarios: {s%d: {%s}}\n", nb, strings.Join(own, "; "))
		} else {
			fmt.Fprintf(&b, "scenarios: {\n  s%d: {\n    %s\n  }\n}\n", nb, strings.Join(own, "\n    "))
		}
	}
	return b.String()
}

func c04ObjNums(g *d2graph.Graph) []int {
	var out []int
	for _, o := range g.Objects {
		if n, err := strconv.Atoi(strings.TrimPrefix(o.AbsID(), "o")); err == nil {
			out = append(out, n)
		} else {
			out = append(out, 0)
		}
	}
	return out
}

func c04Ints(xs []int) string {
	var s []string
	for _, x := range xs {
		s = append(s, strconv.Itoa(x))
	}
	return "[" + strings.Join(s, ";") + "]"
}

func c04BoardObs(g *d2graph.Graph, nboards int) (base []int, boards [][]int) {
	base = c04ObjNums(g)
	byName := map[string]*d2graph.Graph{}
	for _, s := range g.Scenarios {
		byName[s.Name] = s
	}
	for i := 1; i <= nboards; i++ {
		if s := byName[fmt.Sprintf("s%d", i)]; s != nil {
			boards = append(boards, c04ObjNums(s))
		} else {
			boards = append(boards, []int{-1})
		}
	}
	return
}

func c04BoardCase(items []c04Item, r *Rng, class string) (Case, bool) {
	text := c04BoardText(items, r)
	c := Case{Class: "c04board/" + class, Key: "b:" + text}
	g1, _, err, fail := c04Compile(text)
	if fail != "" || err != nil || g1 == nil {
		return c, false
	}
	m, nerr, _ := c03Parse(text)
	if nerr > 0 || m == nil {
		return c, false
	}
	f1, _ := c03Format(m)
	g2, _, err2, fail2 := c04Compile(f1)
	if fail2 != "" {
		c.ImplFail = append(c.ImplFail, fail2)
	}
	nb := 0
	var its []string
	last := true
	seenB := false
	for _, it := range items {
		if it.decl > 0 {
			its = append(its, fmt.Sprintf("D %d", it.decl))
			if seenB {
				last = false
			}
		} else {
			nb++
			seenB = true
			its = append(its, "B "+c04Ints(it.own))
		}
	}
	b1, bs1 := c04BoardObs(g1, nb)
	var b2 []int
	var bs2 [][]int
	if err2 == nil && g2 != nil {
		b2, bs2 = c04BoardObs(g2, nb)
	} else {
		c.ImplFail = append(c.ImplFail, "formatted board text does not compile")
	}
	ll := func(xs [][]int) string {
		var s []string
		for _, x := range xs {
			s = append(s, c04Ints(x))
		}
		return "[" + strings.Join(s, "; ") + "]"
	}
	c.Coq = fmt.Sprintf("CBoard [%s] %s %s %s %s", strings.Join(its, "; "), c04Ints(b1), ll(bs1), c04Ints(b2), ll(bs2))
	c.Input = map[string]any{"text": text}
	st := "ok"
	if fmt.Sprint(sortedAll(bs1)) != fmt.Sprint(sortedAll(bs2)) || fmt.Sprint(sortedInts(b1)) != fmt.Sprint(sortedInts(b2)) {
		st = "meaning-changed"
	}
	c.Impl = map[string]any{"f1": f1, "status": st, "base_before": b1, "boards_before": bs1, "base_after": b2, "boards_after": bs2, "boards_last": last}
	c.Nontrivial = nb > 0
	if !last {
		c.KF = []string{"C04-board-moved"}
	}
	return c, true
}

func sortedInts(x []int) []int {
	y := append([]int{}, x...)
	sort.Ints(y)
	return y
}
func sortedAll(xs [][]int) [][]int {
	var out [][]int
	for _, x := range xs {
		out = append(out, sortedInts(x))
	}
	return out
}

func c04RandItems(r *Rng) []c04Item {
	n := 1 + r.Intn(6)
	var items []c04Item
	next := 1
	for i := 0; i < n; i++ {
		if r.Chance(0.4) {
			k := 1 + r.Intn(2)
			var own []int
			for j := 0; j < k; j++ {
				own = append(own, next)
				next++
			}
			items = append(items, c04Item{own: own})
		} else {
			items = append(items, c04Item{decl: next})
			next++
		}
	}
	if r.Chance(0.3) { // boards last
		sort.SliceStable(items, func(i, j int) bool { return items[i].decl > 0 && items[j].decl == 0 })
	}
	return items
}
