package main

// C47 — embedded font subsets cover every character drawn with them.
//
// Two generators feed the real renderer:
//   A  d2target.Diagram values built directly (every text position filled with random Unicode text),
//   B  D2 scripts (text-transform, terminal theme = CapsLock + Mono, arrowhead labels, classes, tables, legend,
//      layers) compiled by d2lib.Compile with a trivial layout function and exported by d2exporter.
// Each diagram is rendered by d2svg.Render (mode 0), d2svg.Render + appendix.Append (mode 1) or, for board
// trees, board by board with a MasterID and d2animate.Wrap (mode 2).  From the SVG the harness extracts every
// <text> element (font class + character data) and every embedded @font-face (WOFF -> sfnt -> cmap), and asks
// the full font (d2fonts.FontFaces) which of the relevant characters it has a glyph for.

import (
	"bytes"
	"compress/zlib"
	"context"
	"encoding/base64"
	"encoding/binary"
	"encoding/json"
	"fmt"
	"html"
	"io"
	"log/slog"
	"os"
	"path/filepath"
	"regexp"
	"sort"
	"strings"

	"golang.org/x/image/font/sfnt"

	"oss.terrastruct.com/d2/d2graph"
	"oss.terrastruct.com/d2/d2lib"
	"oss.terrastruct.com/d2/d2renderers/d2animate"
	"oss.terrastruct.com/d2/d2renderers/d2fonts"
	"oss.terrastruct.com/d2/d2renderers/d2svg"
	"oss.terrastruct.com/d2/d2renderers/d2svg/appendix"
	"oss.terrastruct.com/d2/d2target"
	"oss.terrastruct.com/d2/lib/geo"
	"oss.terrastruct.com/d2/lib/label"
	"oss.terrastruct.com/d2/lib/log"
	"oss.terrastruct.com/d2/lib/textmeasure"
)

func init() {
	register(&Prop{ID: "C47", Module: "V.C47.Check", Gen: c47Gen, Quick: 130, Thorough: 2500, Shard: 10})
}

// ---------------------------------------------------------------------------------------------- transport

// c47R prints a string as (R len ([w;...])%uint63): 3 runes of 21 bits per word (coq/C47/Check.v)
func c47R(s string) string {
	rs := []rune(s)
	var b strings.Builder
	fmt.Fprintf(&b, "(R %d ([", len(rs))
	for i := 0; i < len(rs); i += 3 {
		var w uint64
		for j := 0; j < 3; j++ {
			w <<= 21
			if i+j < len(rs) {
				w |= uint64(rs[i+j]) & 0x1FFFFF
			}
		}
		if i > 0 {
			b.WriteString(";")
		}
		fmt.Fprintf(&b, "%d", w)
	}
	b.WriteString("])%uint63)")
	return b.String()
}

func c47Runes(rs []rune) string { return c47R(string(rs)) }

// ---------------------------------------------------------------------------------------------- fonts

func c47Woff2Sfnt(w []byte) ([]byte, error) {
	if len(w) < 44 || string(w[:4]) != "wOFF" {
		return nil, fmt.Errorf("not a WOFF file")
	}
	num := int(binary.BigEndian.Uint16(w[12:]))
	if len(w) < 44+20*num {
		return nil, fmt.Errorf("short WOFF directory")
	}
	var out bytes.Buffer
	out.Write(w[4:8]) // flavor
	hdr := make([]byte, 8)
	binary.BigEndian.PutUint16(hdr, uint16(num))
	out.Write(hdr)
	var data bytes.Buffer
	base := uint32(12 + 16*num)
	for i := 0; i < num; i++ {
		e := w[44+i*20:]
		off, comp, orig, sum := binary.BigEndian.Uint32(e[4:]), binary.BigEndian.Uint32(e[8:]), binary.BigEndian.Uint32(e[12:]), binary.BigEndian.Uint32(e[16:])
		if int(off+comp) > len(w) {
			return nil, fmt.Errorf("WOFF table out of range")
		}
		raw := w[off : off+comp]
		if comp < orig {
			zr, err := zlib.NewReader(bytes.NewReader(raw))
			if err != nil {
				return nil, err
			}
			raw, err = io.ReadAll(zr)
			if err != nil {
				return nil, err
			}
		}
		rec := make([]byte, 16)
		copy(rec, e[:4])
		binary.BigEndian.PutUint32(rec[4:], sum)
		binary.BigEndian.PutUint32(rec[8:], base+uint32(data.Len()))
		binary.BigEndian.PutUint32(rec[12:], uint32(len(raw)))
		out.Write(rec)
		data.Write(raw)
		for data.Len()%4 != 0 {
			data.WriteByte(0)
		}
	}
	out.Write(data.Bytes())
	return out.Bytes(), nil
}

var c47FontCache = map[string]*sfnt.Font{}

func c47FullFont(fam d2fonts.FontFamily, style d2fonts.FontStyle) *sfnt.Font {
	k := string(fam) + "/" + string(style)
	if f, ok := c47FontCache[k]; ok {
		return f
	}
	face := d2fonts.FontFaces.Get(fam.Font(0, style))
	f, err := sfnt.Parse(face)
	if err != nil {
		f = nil
	}
	c47FontCache[k] = f
	return f
}

func c47Has(f *sfnt.Font, r rune) bool {
	if f == nil {
		return false
	}
	var b sfnt.Buffer
	gi, err := f.GlyphIndex(&b, r)
	return err == nil && gi != 0
}

// font classes: 0 text, 1 bold, 2 italic, 3 mono, 4 mono-bold, 5 mono-italic, 6 semibold (markdown headings)
var c47ClassOfSuffix = map[string]int{"font-regular": 0, "font-bold": 1, "font-italic": 2, "font-mono": 3, "font-mono-bold": 4, "font-mono-italic": 5, "font-semibold": 6}

func c47FullOfClass(cls int, fam, mono d2fonts.FontFamily) *sfnt.Font {
	switch cls {
	case 0:
		return c47FullFont(fam, d2fonts.FONT_STYLE_REGULAR)
	case 1:
		return c47FullFont(fam, d2fonts.FONT_STYLE_BOLD)
	case 2:
		return c47FullFont(fam, d2fonts.FONT_STYLE_ITALIC)
	case 3:
		return c47FullFont(mono, d2fonts.FONT_STYLE_REGULAR)
	case 4:
		return c47FullFont(mono, d2fonts.FONT_STYLE_BOLD)
	case 5:
		return c47FullFont(mono, d2fonts.FONT_STYLE_ITALIC)
	default:
		return c47FullFont(fam, d2fonts.FONT_STYLE_SEMIBOLD)
	}
}

var c47FaceRe = regexp.MustCompile(`@font-face\s*\{\s*font-family:\s*([A-Za-z0-9_-]*?)(font-(?:regular|bold|italic|semibold|mono-bold|mono-italic|mono));\s*src:\s*url\("data:application/font-woff;base64,([A-Za-z0-9+/=]*)"\)`)

type c47Embedded struct {
	cls    int
	hashed bool // family name carries the diagram hash (cut by EmbedFonts); false: full font added by the appendix
	font   *sfnt.Font
	err    string
}

func c47ExtractFonts(svg string) []c47Embedded {
	var out []c47Embedded
	for _, m := range c47FaceRe.FindAllStringSubmatch(svg, -1) {
		e := c47Embedded{cls: c47ClassOfSuffix[m[2]], hashed: m[1] != ""}
		raw, err := base64.StdEncoding.DecodeString(m[3])
		if err != nil {
			e.err = "base64: " + err.Error()
		} else if ttf, err := c47Woff2Sfnt(raw); err != nil && !(len(raw) > 4 && string(raw[:4]) != "wOFF") {
			e.err = "woff: " + err.Error()
		} else if f, err := sfnt.Parse(func() []byte {
			if ttf != nil {
				return ttf
			}
			return raw // the built-in full encodings are plain sfnt data
		}()); err != nil {
			e.err = "sfnt: " + err.Error()
		} else {
			e.font = f
		}
		out = append(out, e)
	}
	return out
}

// ---------------------------------------------------------------------------------------------- text extraction

var c47TextOpen = regexp.MustCompile(`<text(\s[^>]*)?>`)
var c47ClassAttr = regexp.MustCompile(`class="([^"]*)"`)
var c47TagRe = regexp.MustCompile(`<[^>]*>`)
var c47CodeLine = regexp.MustCompile(` y="[0-9.]+em"`)
var c47MdRe = regexp.MustCompile(`(?s)<div[^>]*class="md[ "][^>]*>(.*?)</div></foreignObject>`)

type c47Item struct {
	cls  int
	text string
}

func c47ClassOf(attr string) int {
	m := c47ClassAttr.FindStringSubmatch(attr)
	if m == nil {
		return -1
	}
	for _, c := range strings.Fields(m[1]) {
		switch c {
		case "text":
			return 0
		case "text-bold":
			return 1
		case "text-italic":
			return 2
		case "text-mono":
			return 3
		case "text-mono-bold":
			return 4
		case "text-mono-italic":
			return 5
		}
	}
	return -1
}

func c47ExtractText(svg string) (plain, search []c47Item, unknown []string) {
	for _, loc := range c47TextOpen.FindAllStringSubmatchIndex(svg, -1) {
		attr := ""
		if loc[2] >= 0 {
			attr = svg[loc[2]:loc[3]]
		}
		if strings.HasSuffix(attr, "/") {
			continue // self-closing: nothing drawn
		}
		rest := svg[loc[1]:]
		end := strings.Index(rest, "</text>")
		if end < 0 {
			unknown = append(unknown, "unterminated text element")
			continue
		}
		cls := c47ClassOf(attr)
		content := html.UnescapeString(c47TagRe.ReplaceAllString(rest[:end], ""))
		if cls < 0 {
			unknown = append(unknown, attr)
			continue
		}
		if c47CodeLine.MatchString(attr) {
			search = append(search, c47Item{cls, content})
		} else {
			plain = append(plain, c47Item{cls, content})
		}
	}
	for _, m := range c47MdRe.FindAllStringSubmatch(svg, -1) {
		search = append(search, c47Item{0, html.UnescapeString(c47TagRe.ReplaceAllString(m[1], ""))})
	}
	return
}

// ---------------------------------------------------------------------------------------------- projection

func c47Lang(l string) string {
	switch l {
	case "":
		return "LNone"
	case "latex":
		return "LLatex"
	case "markdown":
		return "LMarkdown"
	}
	return "LCode"
}

func c47Text(t d2target.Text) string {
	return fmt.Sprintf("(mkText %s %s %s %s %s)", c47R(t.Label), c47Lang(t.Language), coqBool(t.FontFamily == "mono"), coqBool(t.Bold), coqBool(t.Italic))
}

func c47Vis(v string) string {
	switch v {
	case "protected":
		return "1"
	case "private":
		return "2"
	}
	return "0"
}

func c47Shape(s d2target.Shape) string {
	typ := "TOther"
	if s.Type == d2target.ShapeClass {
		typ = "TClass"
	} else if s.Type == d2target.ShapeSQLTable {
		typ = "TSQLTable"
	}
	var fs, ms, cs []string
	for _, f := range s.Fields {
		fs = append(fs, fmt.Sprintf("(mkField %s %s %s)", c47R(f.Name), c47R(f.Type), c47Vis(f.Visibility)))
	}
	for _, f := range s.Methods {
		ms = append(ms, fmt.Sprintf("(mkField %s %s %s)", c47R(f.Name), c47R(f.Return), c47Vis(f.Visibility)))
	}
	for _, c := range s.Columns {
		var ks []string
		for _, k := range c.Constraint {
			ks = append(ks, c47R(k))
		}
		cs = append(cs, fmt.Sprintf("(mkColumn %s %s %s)", c47R(c.Name.Label), c47R(c.Type.Label), coqList(ks)))
	}
	return fmt.Sprintf("(mkShape %s %s %s %s %s %s %s %s %s %s)", typ, c47Text(s.Text), c47R(s.Tooltip), c47R(s.Link), c47R(s.PrettyLink),
		coqBool(s.Opacity != 0), coqBool(s.TooltipPosition != ""), coqList(fs), coqList(ms), coqList(cs))
}

func c47OptLabel(t *d2target.Text) string {
	if t == nil {
		return "None"
	}
	return "(Some " + c47R(t.Label) + ")"
}

func c47Diagram(d *d2target.Diagram) string {
	var sh, cn []string
	for _, s := range d.Shapes {
		sh = append(sh, c47Shape(s))
	}
	for _, c := range d.Connections {
		cn = append(cn, fmt.Sprintf("(mkConn %s %s %s)", c47Text(c.Text), c47OptLabel(c.SrcLabel), c47OptLabel(c.DstLabel)))
	}
	lg := "None"
	if d.Legend != nil {
		var ls, lc []string
		for _, s := range d.Legend.Shapes {
			ls = append(ls, c47R(s.Label))
		}
		for _, c := range d.Legend.Connections {
			lc = append(lc, c47R(c.Label))
		}
		lg = fmt.Sprintf("(Some (mkLegend %s %s %s))", c47R(d.Legend.Label), coqList(ls), coqList(lc))
	}
	sub := func(l []*d2target.Diagram) string {
		var xs []string
		for _, x := range l {
			xs = append(xs, c47Diagram(x))
		}
		return coqList(xs)
	}
	return fmt.Sprintf("(Diagram %s %s %s %s %s %s)", coqList(sh), coqList(cn), lg, sub(d.Layers), sub(d.Scenarios), sub(d.Steps))
}

// ---------------------------------------------------------------------------------------------- rendering

func c47AllBoards(d *d2target.Diagram) []*d2target.Diagram {
	out := []*d2target.Diagram{d}
	for _, l := range [][]*d2target.Diagram{d.Layers, d.Scenarios, d.Steps} {
		for _, x := range l {
			out = append(out, c47AllBoards(x)...)
		}
	}
	return out
}

var c47Ruler *textmeasure.Ruler

func c47Render(d *d2target.Diagram, mode int, themeID int64) (svg string, fail string) {
	defer func() {
		if e := recover(); e != nil {
			fail = fmt.Sprintf("panic: %v", e)
		}
	}()
	pad := int64(20)
	opts := &d2svg.RenderOpts{Pad: &pad, ThemeID: &themeID}
	switch mode {
	case 0, 1:
		out, err := d2svg.Render(d, opts)
		if err != nil {
			return "", "Render error: " + err.Error()
		}
		if mode == 1 {
			out = appendix.Append(d, opts, c47Ruler, out)
			if out == nil {
				return "", "appendix.Append returned nil"
			}
		}
		return string(out), ""
	default:
		master, err := d.HashID(nil)
		if err != nil {
			return "", "HashID: " + err.Error()
		}
		var svgs [][]byte
		for _, b := range c47AllBoards(d) {
			o := *opts
			o.MasterID = master
			out, err := d2svg.Render(b, &o)
			if err != nil {
				return "", "Render error: " + err.Error()
			}
			svgs = append(svgs, out)
		}
		out, err := d2animate.Wrap(d, svgs, *opts, 1000)
		if err != nil {
			return "", "Wrap error: " + err.Error()
		}
		return string(out), ""
	}
}

// ---------------------------------------------------------------------------------------------- one case

type c47Spec struct {
	d      *d2target.Diagram
	mode   int
	theme  int64
	class  string
	script string
}

var c47Known map[string]bool

// ids of C47 findings already recorded in known_findings.json (next to build/): for those the failing
// characters are reported (and suppressed by the driver); otherwise they are exempted so that a recorded-later
// finding does not fail the run.
func c47KnownIDs() map[string]bool {
	if c47Known != nil {
		return c47Known
	}
	c47Known = map[string]bool{}
	exe, err := os.Executable()
	if err != nil {
		return c47Known
	}
	b, err := os.ReadFile(filepath.Join(filepath.Dir(exe), "..", "known_findings.json"))
	if err != nil {
		return c47Known
	}
	var kf struct {
		Findings []struct {
			Property string `json:"property"`
			ID       string `json:"id"`
		} `json:"findings"`
	}
	if json.Unmarshal(b, &kf) == nil {
		for _, f := range kf.Findings {
			if f.Property == "C47" {
				c47Known[f.ID] = true
			}
		}
	}
	return c47Known
}

func c47BlankLine(s string) bool {
	if !strings.Contains(s, "\n") {
		return false
	}
	for _, l := range strings.Split(s, "\n") {
		if l == "" {
			return true
		}
	}
	return false
}

// strings d2svg.RenderText is applied to on this board
func c47RenderedStrings(d *d2target.Diagram) []string {
	var out []string
	for _, s := range d.Shapes {
		if s.Type == d2target.ShapeClass || (s.Type != d2target.ShapeSQLTable && s.Language == "" && s.Opacity != 0) {
			out = append(out, s.Label)
		}
		out = append(out, s.Tooltip, s.PrettyLink)
	}
	for _, c := range d.Connections {
		if c.Language == "" {
			out = append(out, c.Label)
		}
		if c.SrcLabel != nil {
			out = append(out, c.SrcLabel.Label)
		}
		if c.DstLabel != nil {
			out = append(out, c.DstLabel.Label)
		}
	}
	return out
}

func c47RunCase(sp *c47Spec) Case {
	c := Case{Class: sp.class}
	d := sp.d
	fam, mono := d2fonts.SourceSansPro, d2fonts.SourceCodePro
	if d.FontFamily != nil {
		fam = *d.FontFamily
	}
	if d.MonoFontFamily != nil {
		mono = *d.MonoFontFamily
	}
	var corpus string
	func() {
		defer func() {
			if e := recover(); e != nil {
				c.ImplFail = append(c.ImplFail, fmt.Sprintf("GetCorpus panic: %v", e))
			}
		}()
		if sp.mode == 2 {
			corpus = d.GetNestedCorpus()
		} else {
			corpus = d.GetCorpus()
		}
	}()
	svg, fail := c47Render(d, sp.mode, sp.theme)
	if fail != "" {
		c.ImplFail = append(c.ImplFail, fail)
	}
	plain, search, unknown := c47ExtractText(svg)
	for _, u := range unknown {
		c.ImplFail = append(c.ImplFail, "text element without a font class: "+u)
	}
	emb := c47ExtractFonts(svg)
	// relevant characters
	rel := map[rune]bool{}
	for _, r := range corpus {
		rel[r] = true
	}
	for _, it := range append(append([]c47Item{}, plain...), search...) {
		for _, r := range it.text {
			rel[r] = true
		}
	}
	var relSorted []rune
	for r := range rel {
		relSorted = append(relSorted, r)
	}
	sort.Slice(relSorted, func(i, j int) bool { return relSorted[i] < relSorted[j] })
	// effective font per class: the hashed (subset) face wins over the appendix's global full face
	eff := map[int]*c47Embedded{}
	for i := range emb {
		e := &emb[i]
		if e.err != "" {
			c.ImplFail = append(c.ImplFail, fmt.Sprintf("embedded font of class %d cannot be decoded: %s", e.cls, e.err))
			continue
		}
		if old, ok := eff[e.cls]; !ok || (e.hashed && !old.hashed) {
			eff[e.cls] = e
		}
	}
	var fontsCoq []string
	var clss []int
	for k := range eff {
		clss = append(clss, k)
	}
	sort.Ints(clss)
	fontInfo := map[string]any{}
	astralHazard := false
	for _, k := range clss {
		full := c47FullOfClass(k, fam, mono)
		var fh, sh []rune
		for _, r := range relSorted {
			if c47Has(full, r) {
				fh = append(fh, r)
				if r > 0xFFFF {
					astralHazard = true
				}
			}
			if c47Has(eff[k].font, r) {
				sh = append(sh, r)
			}
		}
		fontsCoq = append(fontsCoq, coqTuple(coqN(uint64(k)), coqTuple(c47Runes(fh), c47Runes(sh))))
		fontInfo[fmt.Sprint(k)] = map[string]any{"subset": eff[k].hashed, "full_has": len(fh), "embedded_has": len(sh), "glyphs": eff[k].font.NumGlyphs()}
	}
	// known-finding signatures (decidable on the input)
	var exempt []rune
	known := c47KnownIDs()
	if astralHazard {
		if known["C47-astral-glyph-dropped"] {
			c.KF = append(c.KF, "C47-astral-glyph-dropped")
		} else {
			for _, r := range relSorted {
				if r > 0xFFFF {
					exempt = append(exempt, r)
				}
			}
		}
	}
	blank := false
	boards := []*d2target.Diagram{d}
	if sp.mode == 2 {
		boards = c47AllBoards(d)
	}
	for _, b := range boards {
		for _, s := range c47RenderedStrings(b) {
			if c47BlankLine(s) {
				blank = true
			}
		}
	}
	if blank && !strings.Contains(corpus, " ") {
		if known["C47-blank-line-space"] {
			c.KF = append(c.KF, "C47-blank-line-space")
		} else {
			exempt = append(exempt, ' ')
		}
	}
	codeSpace := false
	for _, b := range boards {
		for _, s := range b.Shapes {
			if s.Language != "" && s.Language != "latex" && s.Language != "markdown" && s.Label != "" && s.Opacity != 0 && strings.ContainsAny(s.Label, " \t") &&
				s.Type != d2target.ShapeClass && s.Type != d2target.ShapeSQLTable {
				codeSpace = true
			}
		}
		for _, k := range b.Connections {
			if k.Language != "" && k.Language != "latex" && k.Language != "markdown" && strings.ContainsAny(k.Label, " \t") {
				codeSpace = true
			}
		}
	}
	if codeSpace && !strings.Contains(corpus, "\u00a0") {
		if known["C47-code-nbsp"] {
			c.KF = append(c.KF, "C47-code-nbsp")
		} else {
			exempt = append(exempt, 0xA0)
		}
	}
	item := func(l []c47Item) string {
		var xs []string
		for _, it := range l {
			xs = append(xs, coqTuple(coqN(uint64(it.cls)), c47R(it.text)))
		}
		return coqList(xs)
	}
	c.Coq = fmt.Sprintf("CRender %d %s %s %s %s %s %s", sp.mode, c47Diagram(d), c47R(corpus), item(plain), item(search), coqList(fontsCoq), c47Runes(exempt))
	nChars := len(relSorted)
	c.Nontrivial = len(plain) > 0 && len(eff) > 0 && nChars >= 3
	c.Key = fmt.Sprintf("%d|%s|%d", sp.mode, corpus, len(plain))
	var shown []string
	for i, it := range plain {
		if i < 12 {
			shown = append(shown, fmt.Sprintf("%d:%q", it.cls, it.text))
		}
	}
	c.Input = map[string]any{"mode": sp.mode, "theme": sp.theme, "corpus": corpus, "script": sp.script, "shapes": len(d.Shapes), "connections": len(d.Connections),
		"boards": len(c47AllBoards(d)), "legend": d.Legend != nil}
	if dir := os.Getenv("C47_DUMP"); dir != "" {
		js, _ := json.Marshal(d)
		os.WriteFile(filepath.Join(dir, fmt.Sprintf("diagram_%s_%d.json", sp.class, len(svg))), js, 0o644)
		os.WriteFile(filepath.Join(dir, fmt.Sprintf("diagram_%s_%d.svg", sp.class, len(svg))), []byte(svg), 0o644)
	}
	c.Impl = map[string]any{"text_elements": len(plain), "search_only_elements": len(search), "drawn": shown, "fonts": fontInfo, "svg_len": len(svg), "exempt": string(exempt)}
	return c
}

// ---------------------------------------------------------------------------------------------- generator A

var c47Alphabets = [][]rune{
	[]rune("abcxyzABCXYZ0189"),
	[]rune("abcdefghijklmnopqrstuvwxyz"),
	[]rune(" _-.,:;!?()[]{}/|@#%^*+=~`$"),
	[]rune("<>&\"'"),
	[]rune("éüñßçØåÀÿ"),
	[]rune("ΩλπΔжЯдіґ"),
	[]rune("€©™→✓•…–“”≤≠×÷"),
	[]rune("漢字☃😀🚀́​"), // not in the fonts / combining / zero width
	[]rune(" \t "),
	[]rune("\u0001￾\u001b"), // not XML characters: drawn as U+FFFD
}

// astral code points the d2 fonts do have glyphs for (SourceSansPro: U+1F16A/B; SourceCodePro: the rest)
var c47AstralInFont = []rune{0x1F16A, 0x1F16B, 0x1F3B5, 0x1F3B6, 0x1F4A9, 0x1F512, 0x1F916}

type c47TextGen struct {
	r       *Rng
	astral  bool // may use astral code points that the fonts have (finding C47-astral-glyph-dropped)
	blank   bool // may produce empty lines without any space in the diagram (finding C47-blank-line-space)
	nospace bool
}

func (g *c47TextGen) word(maxLen int) string {
	r := g.r
	n := 1 + r.Intn(maxLen)
	var rs []rune
	for i := 0; i < n; i++ {
		var a []rune
		switch k := r.Intn(20); {
		case k < 8:
			a = c47Alphabets[r.Intn(2)]
		case k < 18:
			a = c47Alphabets[2+r.Intn(len(c47Alphabets)-2)]
		default:
			if g.astral {
				a = c47AstralInFont
			} else {
				a = c47Alphabets[0]
			}
		}
		c := a[r.Intn(len(a))]
		if g.nospace && c == ' ' {
			c = '_'
		}
		rs = append(rs, c)
	}
	return string(rs)
}

// a label: sometimes empty, sometimes multi-line
func (g *c47TextGen) label() string {
	r := g.r
	switch k := r.Intn(12); {
	case k == 0:
		return ""
	case k < 8:
		return g.word(8)
	case k < 10:
		return g.word(5) + "\n" + g.word(5)
	case k == 10:
		if g.blank {
			return g.word(4) + "\n\n" + g.word(4)
		}
		if g.nospace {
			return g.word(4) + "\n" + g.word(4)
		}
		return g.word(3) + " " + g.word(3) + "\n\n" + g.word(4) // empty line, but a space is in the corpus
	default:
		if g.nospace {
			return g.word(6)
		}
		return g.word(4) + " " + g.word(4)
	}
}

func (g *c47TextGen) safeWord() string {
	a := []rune("abcXYZ_09éΩ€ ")
	n := 1 + g.r.Intn(6)
	var rs []rune
	for i := 0; i < n; i++ {
		c := a[g.r.Intn(len(a))]
		if g.nospace && c == ' ' {
			c = '_'
		}
		rs = append(rs, c)
	}
	return string(rs)
}

func c47BuildText(g *c47TextGen, lbl string) d2target.Text {
	r := g.r
	t := d2target.Text{Label: lbl, FontSize: 16, FontFamily: "DEFAULT", LabelWidth: 40 + r.Intn(60), LabelHeight: 21 + r.Intn(40)}
	if r.Chance(0.25) {
		t.FontFamily = "mono"
	}
	switch r.Intn(4) {
	case 0:
		t.Bold = true
	case 1:
		t.Italic = true
	case 2:
		t.Bold, t.Italic = true, true
	}
	t.Underline = r.Chance(0.1)
	return t
}

var c47PlainShapes = []string{d2target.ShapeRectangle, d2target.ShapeSquare, d2target.ShapeOval, d2target.ShapeCircle, d2target.ShapeDiamond, d2target.ShapeHexagon,
	d2target.ShapeCloud, d2target.ShapePerson, d2target.ShapeCylinder, d2target.ShapeQueue, d2target.ShapePackage, d2target.ShapeStep, d2target.ShapePage,
	d2target.ShapeParallelogram, d2target.ShapeDocument, d2target.ShapeStoredData, d2target.ShapeCallout}

func c47BuildBoard(g *c47TextGen, depth int, name string) *d2target.Diagram {
	r := g.r
	d := d2target.NewDiagram()
	d.Name = name
	ff, mf := d2fonts.SourceSansPro, d2fonts.SourceCodePro
	d.FontFamily, d.MonoFontFamily = &ff, &mf
	n := 1 + r.Intn(4)
	for i := 0; i < n; i++ {
		s := d2target.BaseShape()
		s.ID = fmt.Sprintf("%s.s%d", name, i)
		s.Pos = d2target.NewPoint(i*320, 0)
		s.Width, s.Height = 240, 160
		s.Fill, s.Stroke, s.Color = "B6", "B1", "N1"
		s.Text = c47BuildText(g, g.label())
		s.LabelPosition = label.InsideMiddleCenter.String()
		if r.Chance(0.15) {
			s.LabelPosition = label.OutsideTopCenter.String()
		}
		switch k := r.Intn(12); {
		case k < 6:
			s.Type = c47PlainShapes[r.Intn(len(c47PlainShapes))]
		case k < 8:
			s.Type = d2target.ShapeClass
			s.FontFamily = "DEFAULT"
			for j := r.Intn(3); j > 0; j-- {
				s.Fields = append(s.Fields, d2target.ClassField{Name: g.word(6), Type: g.word(4), Visibility: r.Pick([]string{"public", "protected", "private", ""}), Underline: r.Chance(0.2)})
			}
			for j := r.Intn(3); j > 0; j-- {
				s.Methods = append(s.Methods, d2target.ClassMethod{Name: g.word(6) + "()", Return: g.word(4), Visibility: r.Pick([]string{"public", "protected", "private"})})
			}
		case k < 10:
			s.Type = d2target.ShapeSQLTable
			for j := 1 + r.Intn(3); j > 0; j-- {
				col := d2target.SQLColumn{Name: d2target.Text{Label: g.word(6), LabelWidth: 30, LabelHeight: 20}, Type: d2target.Text{Label: g.word(4), LabelWidth: 30, LabelHeight: 20}}
				for _, k := range []string{"primary_key", "foreign_key", "unique", g.word(5)} {
					if r.Chance(0.3) {
						col.Constraint = append(col.Constraint, k)
					}
				}
				s.Columns = append(s.Columns, col)
			}
		case k == 10:
			s.Type = d2target.ShapeText
			s.Language = "markdown"
			s.Label = "# " + g.safeWord() + "\n\n**" + g.safeWord() + "** _" + g.safeWord() + "_ `" + g.safeWord() + "` " + g.safeWord()
			s.LabelWidth, s.LabelHeight = 200, 120
		default:
			s.Type = d2target.ShapeCode
			s.Language = r.Pick([]string{"go", "text", "python"})
			s.Label = strings.ReplaceAll(g.safeWord(), " ", "_") + ":=" + strings.ReplaceAll(g.safeWord(), " ", "_") + "\n//" + strings.ReplaceAll(g.safeWord(), " ", "_")
			if r.Chance(0.25) {
				s.Label = g.safeWord() + " := " + g.safeWord() + "\n\t// " + g.safeWord()
			}
			s.LabelWidth, s.LabelHeight = 200, 60
		}
		if r.Chance(0.08) {
			s.Opacity = 0
		}
		if r.Chance(0.3) {
			s.Tooltip = g.label()
			if r.Chance(0.15) && s.Tooltip != "" {
				s.TooltipPosition = "top-center"
				s.Tooltip = g.safeWord()
			}
		}
		if r.Chance(0.3) {
			s.Link = "https://example.com/" + g.safeWord()
			s.PrettyLink = s.Link
			if r.Chance(0.4) {
				s.PrettyLink = g.word(8)
			}
		}
		d.Shapes = append(d.Shapes, *s)
	}
	for i := r.Intn(4); i > 0; i-- {
		c := d2target.BaseConnection()
		a, b := r.Intn(n), r.Intn(n)
		c.ID = fmt.Sprintf("%s.c%d", name, i)
		c.Src, c.Dst = d.Shapes[a].ID, d.Shapes[b].ID
		c.Route = []*geo.Point{geo.NewPoint(float64(a*320+120), 160), geo.NewPoint(float64(b*320+140), 400)}
		c.Text = c47BuildText(g, g.label())
		c.Stroke, c.Color = "B1", "N2"
		c.LabelPosition = label.InsideMiddleCenter.String()
		c.LabelPercentage = 0.5
		c.DstArrow = d2target.TriangleArrowhead
		if r.Chance(0.4) {
			t := d2target.Text{Label: g.label(), LabelWidth: 20, LabelHeight: 21}
			c.SrcLabel = &t
		}
		if r.Chance(0.4) {
			t := d2target.Text{Label: g.label(), LabelWidth: 20, LabelHeight: 21}
			c.DstLabel = &t
		}
		if r.Chance(0.06) {
			c.Language = "markdown"
			c.Label = "*" + g.safeWord() + "*"
		}
		d.Connections = append(d.Connections, *c)
	}
	if r.Chance(0.3) {
		lg := &d2target.Legend{}
		if r.Bool() {
			lg.Label = g.word(6)
		}
		for i := r.Intn(3); i > 0; i-- {
			s := d2target.BaseShape()
			s.ID = fmt.Sprintf("%s.l%d", name, i)
			s.Type = c47PlainShapes[r.Intn(4)]
			s.Fill, s.Stroke = "B6", "B1"
			s.Label = g.label()
			lg.Shapes = append(lg.Shapes, *s)
		}
		for i := r.Intn(3); i > 0; i-- {
			c := d2target.BaseConnection()
			c.ID = fmt.Sprintf("%s.lc%d", name, i)
			c.Stroke = "B1"
			c.Label = g.label()
			lg.Connections = append(lg.Connections, *c)
		}
		d.Legend = lg
	}
	if depth > 0 {
		for i := r.Intn(3); i > 0; i-- {
			d.Layers = append(d.Layers, c47BuildBoard(g, depth-1, fmt.Sprintf("%s.y%d", name, i)))
		}
		for i := r.Intn(2); i > 0; i-- {
			d.Scenarios = append(d.Scenarios, c47BuildBoard(g, depth-1, fmt.Sprintf("%s.n%d", name, i)))
		}
		for i := r.Intn(2); i > 0; i-- {
			d.Steps = append(d.Steps, c47BuildBoard(g, depth-1, fmt.Sprintf("%s.t%d", name, i)))
		}
	}
	return d
}

// ---------------------------------------------------------------------------------------------- generator B

func c47TrivialLayout(ctx context.Context, g *d2graph.Graph) error {
	x := 0.
	for _, obj := range g.Objects {
		obj.TopLeft = geo.NewPoint(x, 0)
		x += obj.Width + 60
		if obj.HasLabel() && obj.LabelPosition == nil {
			p := label.InsideMiddleCenter.String()
			if len(obj.ChildrenArray) > 0 {
				p = label.OutsideTopCenter.String()
			}
			obj.LabelPosition = &p
		}
		if obj.Icon != nil && obj.IconPosition == nil {
			p := label.InsideMiddleCenter.String()
			obj.IconPosition = &p
		}
	}
	for _, e := range g.Edges {
		e.Route = []*geo.Point{e.Src.Center(), geo.NewPoint(e.Dst.Center().X, e.Dst.Center().Y+300)}
		if e.Label.Value != "" {
			p := label.InsideMiddleCenter.String()
			e.LabelPosition = &p
		}
	}
	return nil
}

func c47Quote(s string) string {
	var b strings.Builder
	b.WriteByte('"')
	for _, r := range s {
		switch r {
		case '"', '\\', '$':
			b.WriteByte('\\')
			b.WriteRune(r)
		case '\n':
			b.WriteString(`\n`)
		default:
			b.WriteRune(r)
		}
	}
	b.WriteByte('"')
	return b.String()
}

func (g *c47TextGen) scriptLine() string {
	return strings.SplitN(g.scriptText(), "\n", 2)[0]
}

func (g *c47TextGen) scriptText() string {
	a := []rune("abc xyz ABC éüß Ωλж €→ ı ǆ ŉ 09_-")
	n := 1 + g.r.Intn(8)
	var rs []rune
	for i := 0; i < n; i++ {
		c := a[g.r.Intn(len(a))]
		if g.nospace && c == ' ' {
			c = '-'
		}
		rs = append(rs, c)
	}
	s := strings.TrimSpace(string(rs))
	if s == "" {
		s = "q"
	}
	if g.r.Chance(0.15) {
		s += "\n" + string(a[g.r.Intn(len(a)-4)])
	}
	return s
}

func c47Script(g *c47TextGen) (string, int64) {
	r := g.r
	var b strings.Builder
	theme := int64(0)
	if r.Chance(0.4) {
		theme = 300 // terminal: CapsLock + Mono
	} else if r.Chance(0.2) {
		theme = 301
	}
	tt := func() string {
		if r.Chance(0.5) {
			return ""
		}
		return "style.text-transform: " + r.Pick([]string{"uppercase", "lowercase", "capitalize", "none"}) + "; "
	}
	style := func() string {
		s := tt()
		if r.Chance(0.2) {
			s += "style.font: mono; "
		}
		if r.Chance(0.2) {
			s += "style.italic: true; "
		}
		if r.Chance(0.2) {
			s += "style.bold: false; "
		}
		return s
	}
	n := 2 + r.Intn(3)
	for i := 0; i < n; i++ {
		fmt.Fprintf(&b, "n%d: %s {%s", i, c47Quote(g.scriptText()), style())
		if r.Chance(0.25) {
			fmt.Fprintf(&b, "tooltip: %s; ", c47Quote(g.scriptText()))
		}
		if r.Chance(0.2) {
			fmt.Fprintf(&b, "link: https://example.com/%d; ", i)
		}
		if r.Chance(0.3) {
			fmt.Fprintf(&b, "shape: %s; ", r.Pick([]string{"oval", "person", "cloud", "hexagon", "queue"}))
		}
		b.WriteString("}\n")
	}
	for i := r.Intn(3); i > 0; i-- {
		fmt.Fprintf(&b, "n%d -> n%d: %s {%s", r.Intn(n), r.Intn(n), c47Quote(g.scriptText()), style())
		if r.Chance(0.5) {
			fmt.Fprintf(&b, "source-arrowhead.label: %s; ", c47Quote(g.scriptText()))
		}
		if r.Chance(0.5) {
			fmt.Fprintf(&b, "target-arrowhead: {label: %s}; ", c47Quote(g.scriptText()))
		}
		b.WriteString("}\n")
	}
	if r.Chance(0.4) {
		fmt.Fprintf(&b, "k: %s {shape: class; %s\n  +%s: %s\n  -%s(): %s\n  \\#%s: %s\n}\n", c47Quote(g.scriptLine()), tt(),
			"fA"+fmt.Sprint(r.Intn(9)), c47Quote(g.scriptLine()), "mB", c47Quote(g.scriptLine()), "pC", "int")
	}
	if r.Chance(0.4) {
		fmt.Fprintf(&b, "t: %s {shape: sql_table; %s\n  id: int {constraint: primary_key}\n  %s: %s {constraint: [foreign_key; unique]}\n  w: x {constraint: %s}\n}\n",
			c47Quote(g.scriptLine()), tt(), "col"+fmt.Sprint(r.Intn(9)), c47Quote(g.scriptLine()), "zz"+fmt.Sprint(r.Intn(9)))
	}
	if r.Chance(0.25) {
		fmt.Fprintf(&b, "m: |md\n  # %s\n  **b** _i_ `c` %s\n|\n", "Head", "tail")
	}
	if r.Chance(0.2) {
		b.WriteString("cd: |go\n  x := 1 // y\n|\n")
	}
	if r.Chance(0.25) {
		fmt.Fprintf(&b, "vars: {d2-legend: {la: %s; lb: %s {shape: oval}; la -> lb: %s}}\n", c47Quote(g.scriptText()), c47Quote(g.scriptText()), c47Quote(g.scriptText()))
	}
	if r.Chance(0.3) {
		fmt.Fprintf(&b, "layers: {\n  L1: {\n    u: %s {%s}\n    u -> v: %s\n  }\n}\n", c47Quote(g.scriptText()), style(), c47Quote(g.scriptText()))
		if r.Chance(0.5) {
			fmt.Fprintf(&b, "steps: {\n  S1: {\n    w: %s\n  }\n}\n", c47Quote(g.scriptText()))
		}
	}
	return b.String(), theme
}

func c47Compile(script string, theme int64) (d *d2target.Diagram, fail string) {
	defer func() {
		if e := recover(); e != nil {
			fail = fmt.Sprintf("panic: %v", e)
		}
	}()
	layout := "trivial"
	co := &d2lib.CompileOptions{Ruler: c47Ruler, Layout: &layout,
		LayoutResolver: func(string) (d2graph.LayoutGraph, error) { return c47TrivialLayout, nil }}
	ro := &d2svg.RenderOpts{ThemeID: &theme}
	d, _, err := d2lib.Compile(log.With(context.Background(), slog.New(slog.NewTextHandler(io.Discard, nil))), script, co, ro)
	if err != nil {
		return nil, "compile: " + err.Error()
	}
	return d, ""
}

// ---------------------------------------------------------------------------------------------- Gen

func c47Gen(r *Rng, tier string, n int) []Case {
	if c47Ruler == nil {
		var err error
		c47Ruler, err = textmeasure.NewRuler()
		if err != nil {
			panic(err)
		}
	}
	var out []Case
	run := func(sp *c47Spec) {
		out = append(out, c47RunCase(sp))
	}
	// ---- corpus: the two recorded hazards, minimal
	{
		g := &c47TextGen{r: r.Fork()}
		d := c47BuildBoard(g, 0, "kfA")
		d.Shapes = d.Shapes[:1]
		d.Connections, d.Legend = nil, nil
		s := &d.Shapes[0]
		s.Type, s.Language, s.Opacity = d2target.ShapeClass, "", 1
		s.Label, s.Tooltip, s.Link, s.PrettyLink = "Robot", "", "", ""
		s.Fields = []d2target.ClassField{{Name: "\U0001F916lock\U0001F512", Type: "int", Visibility: "public"}}
		s.Methods, s.Columns = nil, nil
		run(&c47Spec{d: d, mode: 0, class: "finding-astral"})
	}
	{
		g := &c47TextGen{r: r.Fork()}
		d := c47BuildBoard(g, 0, "kfB")
		d.Shapes = d.Shapes[:1]
		d.Connections, d.Legend = nil, nil
		s := &d.Shapes[0]
		s.Type, s.Language, s.Opacity = d2target.ShapeRectangle, "", 1
		s.Label, s.Tooltip, s.Link, s.PrettyLink = "a\n\nb", "", "", ""
		s.Fields, s.Methods, s.Columns = nil, nil, nil
		run(&c47Spec{d: d, mode: 0, class: "finding-blank-line"})
	}
	// the same two through the whole pipeline
	for _, sc := range []struct{ class, script string }{
		{"finding-astral", "c: Robot {shape: class; \"\U0001F916run\": \"\U0001F512\"}\n"},
		{"finding-blank-line", "x: \"a\\n\\nb\"\n"},
	} {
		d, fail := c47Compile(sc.script, 0)
		if d == nil {
			out = append(out, Case{Class: sc.class, Coq: "CRender 0 (Diagram [] [] None [] [] []) (R 0 ([])%uint63) [] [] [] (R 0 ([])%uint63)", ImplFail: []string{fail}, Input: sc.script})
			continue
		}
		run(&c47Spec{d: d, mode: 0, class: sc.class, script: sc.script})
	}
	// ---- generator A
	nB := n * 3 / 10
	for i := 0; i < n-nB; i++ {
		g := &c47TextGen{r: r.Fork()}
		class := "direct"
		switch r.Intn(10) {
		case 0:
			g.astral = true
			class = "direct-astral"
		case 1:
			g.blank, g.nospace = true, true
			class = "direct-blank-line"
		case 2:
			g.nospace = true
			class = "direct-nospace"
		}
		mode := r.Intn(3)
		depth := 0
		if mode == 2 {
			depth = 1 + r.Intn(2)
		}
		d := c47BuildBoard(g, depth, "b")
		theme := []int64{0, 0, 1, 300, 200}[r.Intn(5)]
		run(&c47Spec{d: d, mode: mode, theme: theme, class: class + fmt.Sprintf("-mode%d", mode)})
	}
	// ---- generator B
	for i := 0; i < nB; i++ {
		g := &c47TextGen{r: r.Fork(), nospace: r.Chance(0.2)}
		script, theme := c47Script(g)
		d, fail := c47Compile(script, theme)
		if d == nil {
			out = append(out, Case{Class: "pipeline", Coq: "CRender 0 (Diagram [] [] None [] [] []) (R 0 ([])%uint63) [] [] [] (R 0 ([])%uint63)", ImplFail: []string{fail}, Input: script})
			continue
		}
		mode := r.Intn(2)
		if len(d.Layers)+len(d.Scenarios)+len(d.Steps) > 0 && r.Bool() {
			mode = 2
		}
		run(&c47Spec{d: d, mode: mode, theme: theme, class: fmt.Sprintf("pipeline-theme%d-mode%d", theme, mode), script: script})
	}
	return out
}
