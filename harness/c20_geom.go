package main

// C20 geometry helpers of the harness: the outline of a (non-rectangular) shape as closed polygons
// sampled from the REAL lib/shape perimeter objects, and the signed distance of a point to it.

import (
	"math"
	"strings"

	"oss.terrastruct.com/d2/d2graph"
	"oss.terrastruct.com/d2/d2target"
	"oss.terrastruct.com/d2/lib/geo"
	"oss.terrastruct.com/d2/lib/shape"
)

type c20Loop [][2]float64

// c20ShapeAt builds the lib/shape value exactly like Object.ToShape does, for the box moved by (dx, dy).
func c20ShapeAt(o *d2graph.Object, dx, dy float64) shape.Shape {
	shapeType := d2target.DSL_SHAPE_TO_SHAPE_TYPE[strings.ToLower(o.Shape.Value)]
	box := geo.NewBox(geo.NewPoint(o.TopLeft.X+dx, o.TopLeft.Y+dy), o.Width, o.Height)
	s := shape.NewShape(shapeType, box)
	if shapeType == shape.CLOUD_TYPE && o.ContentAspectRatio != nil {
		s.SetInnerBoxAspectRatio(*o.ContentAspectRatio)
	}
	return s
}

// c20RectLike: TraceToShapeBorder returns the rectangular border point (IsRectangular, or no perimeter at all:
// class, sql_table, code, text, sequence_diagram, ...).
func c20RectLike(o *d2graph.Object) bool {
	s := c20ShapeAt(o, 0, 0)
	return s.Is("") || s.IsRectangular() || len(s.Perimeter()) == 0
}

const c20BezierSamples = 96
const c20EllipseSamples = 720

// c20Outline samples the perimeter into closed loops: every ellipse is a loop of its own, consecutive
// segments / bezier curves form one loop (all lib/shape paths are single closed sub-paths).
func c20Outline(s shape.Shape) []c20Loop {
	var loops []c20Loop
	var cur c20Loop
	for _, el := range s.Perimeter() {
		switch v := el.(type) {
		case *geo.Ellipse:
			var l c20Loop
			for i := 0; i < c20EllipseSamples; i++ {
				a := 2 * math.Pi * float64(i) / c20EllipseSamples
				l = append(l, [2]float64{v.Center.X + v.Rx*math.Cos(a), v.Center.Y + v.Ry*math.Sin(a)})
			}
			loops = append(loops, l)
		case geo.Ellipse:
			var l c20Loop
			for i := 0; i < c20EllipseSamples; i++ {
				a := 2 * math.Pi * float64(i) / c20EllipseSamples
				l = append(l, [2]float64{v.Center.X + v.Rx*math.Cos(a), v.Center.Y + v.Ry*math.Sin(a)})
			}
			loops = append(loops, l)
		case *geo.Segment:
			cur = append(cur, [2]float64{v.Start.X, v.Start.Y}, [2]float64{v.End.X, v.End.Y})
		case geo.Segment:
			cur = append(cur, [2]float64{v.Start.X, v.Start.Y}, [2]float64{v.End.X, v.End.Y})
		case *geo.BezierCurve:
			for i := 0; i <= c20BezierSamples; i++ {
				p := v.At(float64(i) / c20BezierSamples)
				cur = append(cur, [2]float64{p.X, p.Y})
			}
		case geo.BezierCurve:
			for i := 0; i <= c20BezierSamples; i++ {
				p := v.At(float64(i) / c20BezierSamples)
				cur = append(cur, [2]float64{p.X, p.Y})
			}
		default:
			return nil // unknown perimeter element: caller falls back to "search only"
		}
	}
	if len(cur) > 0 {
		loops = append(loops, cur)
	}
	return loops
}

func c20DistSeg(px, py, ax, ay, bx, by float64) float64 {
	cx, cy := bx-ax, by-ay
	l2 := cx*cx + cy*cy
	t := 0.0
	if l2 > 0 {
		t = ((px-ax)*cx + (py-ay)*cy) / l2
		if t < 0 {
			t = 0
		} else if t > 1 {
			t = 1
		}
	}
	dx, dy := px-(ax+t*cx), py-(ay+t*cy)
	return math.Sqrt(dx*dx + dy*dy)
}

// c20SignedDist: Euclidean distance of p to the closed polygon, negative when p is inside (even-odd rule).
func c20SignedDist(l c20Loop, px, py float64) float64 {
	n := len(l)
	if n == 0 {
		return math.Inf(1)
	}
	d := math.Inf(1)
	inside := false
	for i := 0; i < n; i++ {
		a, b := l[i], l[(i+1)%n]
		if dd := c20DistSeg(px, py, a[0], a[1], b[0], b[1]); dd < d {
			d = dd
		}
		if (a[1] > py) != (b[1] > py) {
			x := a[0] + (py-a[1])/(b[1]-a[1])*(b[0]-a[0])
			if px < x {
				inside = !inside
			}
		}
	}
	if inside {
		return -d
	}
	return d
}

func c20Finite(fs ...float64) bool {
	for _, f := range fs {
		if math.IsNaN(f) || math.IsInf(f, 0) {
			return false
		}
	}
	return true
}
