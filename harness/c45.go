package main

// C45 — shutdown of the watch server waits for every client handler and admits none afterwards.
//
// Two kinds of sessions with the REAL server:
//   close:  the watcher is built through the add-only hook d2cli.VerifNewWatcher (the only way to call the
//           unexported close() while the HTTP server still serves); websocket upgrades are fired on
//           pre-opened TCP connections around the moment close() is called, some clients are slow to answer
//           the close handshake (their handlers outlive the cancellation), and more upgrades are tried after
//           close() has returned.
//   cancel: the public path, d2cli.Run with its context cancelled (what a signal does).
// Recorded: the order of the harness's own actions, the HTTP status of every upgrade, what clients
// received, the watcher's "broadcasting update to N clients" log lines, and the number of live
// handleWatch handler goroutines (runtime stack dump) at the moment close()/Run returned.
// Coq (V.C45.Check) checks the history is one of the model and evaluates the clauses of the property.

import (
	"bufio"
	"context"
	"fmt"
	"go/ast"
	"go/parser"
	"go/token"
	"net"
	"net/http"
	"os"
	"path/filepath"
	"runtime"
	"strings"
	"sync"
	"sync/atomic"
	"time"

	"github.com/coder/websocket"

	"oss.terrastruct.com/util-go/xhttp"

	"oss.terrastruct.com/d2/d2cli"
)

func init() {
	register(&Prop{ID: "C45", Module: "V.C45.Check", Gen: c45Gen, Quick: 20, Thorough: 100, Shard: 2})
}

// c45RawUpgrade sends a GET /watch on conn. good=false omits the upgrade headers (websocket.Accept fails).
// Returns the HTTP status (0 on transport error).
func c45RawUpgrade(conn net.Conn, good bool) int {
	req := "GET /watch HTTP/1.1\r\nHost: verif\r\n"
	if good {
		req += "Connection: Upgrade\r\nUpgrade: websocket\r\nSec-WebSocket-Version: 13\r\nSec-WebSocket-Key: dGhlIHNhbXBsZSBub25jZQ==\r\n"
	}
	req += "\r\n"
	conn.SetDeadline(time.Now().Add(120 * time.Second))
	if _, err := conn.Write([]byte(req)); err != nil {
		c45Debug("raw write: %v", err)
		return 0
	}
	resp, err := http.ReadResponse(bufio.NewReader(conn), nil)
	if err != nil {
		c45Debug("raw read: %v", err)
		return 0
	}
	return resp.StatusCode
}

func c45Debug(f string, a ...any) {
	if os.Getenv("VERIF_DEBUG") != "" {
		fmt.Fprintf(os.Stderr, "c45: "+f+"\n", a...)
	}
}

type c45Attempt struct {
	id     int
	conn   net.Conn
	kind   string        // "ws" real client library, "raw" raw good upgrade (never answers the close handshake), "bad"
	offset time.Duration // when to fire, relative to the close call (negative = before)
	lazy   time.Duration // ws only: start reading this long after the upgrade succeeded (0 = at once)
	late   bool          // fired only after close has returned
	hold   time.Duration // raw only: close the TCP connection this long after shutdown began

	code             atomic.Int32 // HTTP status read by the harness (0 = none yet / transport error)
	answered         atomic.Bool  // the answer has been read
	readBeforeCensus bool         // ... before the census at the return of close() started
}

// c45Census takes ONE snapshot of all goroutines (runtime.Stack stops the world) and counts: client
// handlers (the goroutine started by handleWatch), heartbeats, and requests that are inside handleWatch
// itself and have not yet reached its `go` statement (goLine), i.e. are not yet past admission + upgrade.
func c45Census(goLine int) (handlers, heartbeats, inflightPre int) {
	buf := make([]byte, 1<<20)
	for {
		n := runtime.Stack(buf, true)
		if n < len(buf) {
			buf = buf[:n]
			break
		}
		buf = make([]byte, 2*len(buf))
	}
	for _, g := range strings.Split(string(buf), "\n\n") {
		if strings.Contains(g, "d2cli.(*watcher).handleWatch.func1(") {
			handlers++
		}
		if strings.Contains(g, "d2cli.wsHeartbeat(") {
			heartbeats++
		}
		if i := strings.Index(g, "d2cli.(*watcher).handleWatch("); i >= 0 {
			// the next line is "\t<file>:<line> +0x..."
			rest := g[i:]
			if j := strings.Index(rest, "\n"); j >= 0 {
				loc := rest[j+1:]
				if k := strings.Index(loc, "\n"); k >= 0 {
					loc = loc[:k]
				}
				line := 0
				if c := strings.LastIndex(loc, ":"); c >= 0 {
					fmt.Sscanf(loc[c+1:], "%d", &line)
				}
				if goLine == 0 || line < goLine {
					inflightPre++
				}
			}
		}
	}
	return
}

// c45GoLine: the line of the `go func() {...}()` statement of handleWatch in the source the harness was
// built against (0 if it cannot be found: then every request inside handleWatch counts as pre-admission).
func c45GoLine() int {
	fset := token.NewFileSet()
	f, err := parser.ParseFile(fset, filepath.Join(repoRoot(), "d2cli", "watch.go"), nil, 0)
	if err != nil {
		return 0
	}
	for _, d := range f.Decls {
		if fd, ok := d.(*ast.FuncDecl); ok && fd.Name.Name == "handleWatch" && fd.Body != nil {
			for _, st := range fd.Body.List {
				if g, ok := st.(*ast.GoStmt); ok {
					return fset.Position(g.Pos()).Line
				}
			}
		}
	}
	return 0
}

func c45Session(r *Rng, sid int, class string) Case {
	cs := Case{Class: class}
	dir := c44WorkDir(fmt.Sprintf("c45s%d", sid))
	defer os.RemoveAll(dir)
	log := c44NewLog()

	var addr string
	var closeFn func() // what "shutdown" means in this session
	runDone := make(chan error, 1)
	var cancelRun context.CancelFunc

	if class == "cancel" {
		srv, err := c44Start(dir, log, 0)
		if err != nil {
			cs.ImplFail = []string{err.Error()}
			cs.Coq = "Case []"
			return cs
		}
		addr = srv.addr
		cancelRun = srv.cancel
		go func() { runDone <- <-srv.done }()
	} else {
		in := filepath.Join(dir, "in.d2")
		if err := os.WriteFile(in, c44Content(1), 0o644); err != nil {
			cs.ImplFail = []string{err.Error()}
			cs.Coq = "Case []"
			return cs
		}
		lw := &c44LogWriter{addr: make(chan string, 1), log: log}
		var extraEnv []string
		if class == "race" {
			// a slow stderr with debug logging on: every line the server logs takes 5-15 ms, which
			// stretches whatever the code does between two of its own steps around a log call
			extraEnv = []string{"DEBUG=1"}
			log.jitter = func() {
				time.Sleep(time.Duration(5000+time.Now().UnixNano()%10000) * time.Microsecond)
			}
		}
		ms := c44State(dir, nil, lw, extraEnv...)
		ctx, cancel := context.WithCancel(context.Background())
		cancelRun = cancel
		vw, err := d2cli.VerifNewWatcher(ctx, ms, in, filepath.Join(dir, "out.svg"))
		if err != nil {
			cancel()
			cs.ImplFail = []string{"VerifNewWatcher: " + err.Error()}
			cs.Coq = "Case []"
			return cs
		}
		// the harness's own dispatcher in front of the real handleWatch (see the hook's comment): it is
		// never shut down, so upgrades keep reaching handleWatch during and after close()
		hl, err := net.Listen("tcp", "127.0.0.1:0")
		if err != nil {
			cancel()
			cs.ImplFail = []string{"harness listen: " + err.Error()}
			cs.Coq = "Case []"
			return cs
		}
		mux := http.NewServeMux()
		mux.Handle("/watch", xhttp.HandlerFuncAdapter{Log: ms.Log, Func: vw.HandleWatch})
		hs := &http.Server{Handler: mux}
		go hs.Serve(hl)
		defer hs.Close()
		addr = hl.Addr().String()
		closeFn = vw.Close
		go func() {
			defer func() {
				if e := recover(); e != nil {
					runDone <- fmt.Errorf("panic: %v", e)
				}
			}()
			runDone <- vw.Run()
		}()
	}
	defer cancelRun()

	var mu sync.Mutex // protects ImplFail, conns
	fail := func(s string) {
		mu.Lock()
		cs.ImplFail = append(cs.ImplFail, s)
		mu.Unlock()
	}
	var allConns []net.Conn
	var wsConns []*websocket.Conn
	var readers sync.WaitGroup
	shutdownStarted := make(chan struct{})

	// reception after the shutdown call is not part of the property (a compile cut short by the
	// cancellation broadcasts an error result): not recorded
	recordRecv := func(cl *c44Client) {
		defer readers.Done()
		for {
			_, msg, err := cl.conn.Read(context.Background())
			if err != nil {
				return
			}
			select {
			case <-shutdownStarted:
			default:
				log.add(c44Ev{Kind: "recv", C: cl.id, V: c44Version(msg)}, nil)
			}
		}
	}

	nextID := 1
	// clients connected before anything else
	nEarly := r.Intn(3)
	if class == "race" {
		// nobody else holds the wait group: a handler that registers with it too late is not waited for
		nEarly = 0
	}
	lazyEarly := time.Duration(0)
	if r.Chance(0.6) {
		lazyEarly = time.Duration(r.Range(80, 350)) * time.Millisecond
	}
	for i := 0; i < nEarly; i++ {
		id := nextID
		nextID++
		log.add(c44Ev{Kind: "attempt", C: id}, nil)
		conn, code, err := c44Dial(addr, nil)
		if err != nil {
			if code != 0 {
				log.add(c44Ev{Kind: "res", C: id, V: code}, nil)
			}
			continue
		}
		log.add(c44Ev{Kind: "res", C: id, V: 101}, nil)
		mu.Lock()
		wsConns = append(wsConns, conn)
		mu.Unlock()
		cl := &c44Client{id: id, conn: conn}
		readers.Add(1)
		if i == 0 && lazyEarly > 0 {
			// a slow browser: stops reading now, resumes only a while after shutdown began, so its
			// handler is still in the close handshake when a hasty close() would already have returned
			go func() {
				<-shutdownStarted
				time.Sleep(lazyEarly)
				recordRecv(cl)
			}()
		} else {
			go recordRecv(cl)
		}
	}

	// pre-opened connections for the racing and the late attempts
	nRace := r.Range(2, 5)
	nLate := 0
	if class != "cancel" {
		nLate = r.Range(1, 2)
	}
	if class == "race" {
		nRace = r.Range(1, 2)
		nLate = 1
	}
	var atts []*c45Attempt
	for i := 0; i < nRace+nLate; i++ {
		conn, err := net.DialTimeout("tcp", addr, 120*time.Second)
		if err != nil {
			fail("harness: cannot pre-open connection: " + err.Error())
			break
		}
		allConns = append(allConns, conn)
		a := &c45Attempt{id: nextID, conn: conn, hold: time.Duration(r.Range(80, 300)) * time.Millisecond}
		nextID++
		switch k := r.Intn(10); {
		case k < 5:
			a.kind = "ws"
			if r.Chance(0.4) {
				a.lazy = time.Duration(r.Range(60, 300)) * time.Millisecond
			}
		case k < 8:
			a.kind = "raw"
		default:
			a.kind = "bad"
		}
		if i >= nRace {
			a.late = true
		} else {
			// offsets concentrated around the close call
			us := []int{-30000, -5000, -1000, -300, -100, -30, 0, 20, 60, 150, 400, 1000, 4000, 20000}[r.Intn(14)]
			if class == "race" {
				us = -r.Range(0, 9000)
				// a client that is slow to answer the close handshake: its handler, once started,
				// is still there when the censuses are taken
				a.kind = "ws"
				a.lazy = time.Duration(r.Range(200, 400)) * time.Millisecond
			}
			a.offset = time.Duration(us+r.Range(-20, 20)) * time.Microsecond
		}
		atts = append(atts, a)
	}

	// when to shut down: before / during / after the first compile
	if class != "race" {
		time.Sleep(time.Duration([]int{0, 5, 40, 150, 500, 1200}[r.Intn(6)]) * time.Millisecond)
	}

	fire := func(a *c45Attempt) {
		log.add(c44Ev{Kind: "attempt", C: a.id, Bad: a.kind == "bad"}, nil)
		switch a.kind {
		case "ws":
			conn, code, err := c44Dial(addr, a.conn)
			if err != nil {
				c45Debug("ws dial %d: code=%d %v", a.id, code, err)
				a.code.Store(int32(code))
				a.answered.Store(true)
				if code != 0 {
					log.add(c44Ev{Kind: "res", C: a.id, V: code}, nil)
				}
				return
			}
			a.code.Store(101)
			a.answered.Store(true)
			log.add(c44Ev{Kind: "res", C: a.id, V: 101}, nil)
			mu.Lock()
			wsConns = append(wsConns, conn)
			mu.Unlock()
			cl := &c44Client{id: a.id, conn: conn}
			readers.Add(1)
			go func() {
				if a.lazy > 0 {
					time.Sleep(a.lazy)
				}
				recordRecv(cl)
			}()
		default:
			code := c45RawUpgrade(a.conn, a.kind == "raw")
			a.code.Store(int32(code))
			a.answered.Store(true)
			if code != 0 {
				log.add(c44Ev{Kind: "res", C: a.id, V: code}, nil)
			}
			if code == 101 {
				// a peer that never answers the close handshake: its handler lives until the TCP
				// connection goes away
				d := a.hold
				go func() {
					<-shutdownStarted
					time.Sleep(d)
					a.conn.Close()
				}()
			}
		}
	}

	t0 := time.Now().Add(40 * time.Millisecond) // the instant of the shutdown call
	var racing sync.WaitGroup
	for _, a := range atts {
		if a.late {
			continue
		}
		racing.Add(1)
		go func(a *c45Attempt) {
			defer racing.Done()
			d := time.Until(t0.Add(a.offset))
			if d > 0 {
				time.Sleep(d)
			}
			fire(a)
		}(a)
	}
	time.Sleep(time.Until(t0))

	handlersAtReturn := -1
	inflightAtReturn := 0
	goLine := c45GoLine()
	returned := true
	if class == "cancel" {
		log.add(c44Ev{Kind: "cancel"}, nil)
		close(shutdownStarted)
		cancelRun()
		// the racing attempts use up their connections; the server's graceful Shutdown waits for them
		racing.Wait()
		select {
		case <-runDone:
			handlersAtReturn, _, _ = c45Census(goLine)
		case <-time.After(240 * time.Second):
			returned = false
			fail("d2cli.Run did not return within 240s of cancelling its context")
		}
	} else {
		log.add(c44Ev{Kind: "closecall"}, nil)
		close(shutdownStarted)
		done := make(chan struct{})
		go func() {
			defer func() {
				if e := recover(); e != nil {
					fail(fmt.Sprintf("panic in close(): %v", e))
				}
				close(done)
			}()
			c45Debug("close called %dus", time.Since(log.t0).Microseconds())
			closeFn()
			c45Debug("close returned %dus", time.Since(log.t0).Microseconds())
			// which answers had been read before this point (read first: an answer read later counts
			// as unread, which can only make the check below more lenient)
			for _, a := range atts {
				a.readBeforeCensus = a.answered.Load()
			}
			handlersAtReturn, _, inflightAtReturn = c45Census(goLine)
		}()
		select {
		case <-done:
		case <-time.After(240 * time.Second):
			returned = false
			fail("watcher.close() did not return within 240s")
		}
		racing.Wait()
		// Once close() has returned no handler may ever exist again (C45_returned_no_handlers): a
		// second census, taken when every racing upgrade has been answered, catches a request that was
		// still inside handleWatch when close() returned and became a client afterwards.
		if returned {
			h2, hb2, _ := c45Census(goLine)
			c45Debug("second census %dus: handlers=%d heartbeats=%d (first %d, inflight %d)", time.Since(log.t0).Microseconds(), h2, hb2, handlersAtReturn, inflightAtReturn)
			if h2 > handlersAtReturn {
				handlersAtReturn = h2
			}
			// Requests that were inside handleWatch, before its go statement, when close() returned, can
			// only be answered 503/4xx: past wsclientsWG.Add(1) they would have kept close() waiting.
			// If there were more of them than racing upgrades that were still unanswered then and did
			// not end as websocket clients, one of them was admitted after close() had returned.
			nonAdmitUnread := 0
			for _, a := range atts {
				if !a.late && !a.readBeforeCensus && a.code.Load() != 101 {
					nonAdmitUnread++
				}
			}
			if late := inflightAtReturn - nonAdmitUnread; late > handlersAtReturn {
				handlersAtReturn = late
			}
		}
	}
	// Everything the server put out before returning has to be in the history before the return is:
	// wait for the receivers (their connections are closed by the finished handlers).
	waitTimeout(&readers, 120*time.Second)
	if returned {
		log.add(c44Ev{Kind: "closereturn", V: handlersAtReturn}, nil)
	}

	// upgrades after close() has returned, on connections opened before it
	for _, a := range atts {
		if a.late {
			fire(a)
		}
	}

	// tidy up: every connection goes away, Run must return, no goroutine of the watcher may stay
	mu.Lock()
	for _, c := range wsConns {
		c.CloseNow()
	}
	for _, c := range allConns {
		c.Close()
	}
	mu.Unlock()
	cancelRun()
	if class != "cancel" {
		select {
		case <-runDone:
		case <-time.After(240 * time.Second):
			fail("watcher.run() did not return within 240s of close()")
		}
	}
	leakDeadline := time.Now().Add(120 * time.Second)
	for {
		h, hb, _ := c45Census(goLine)
		if (h == 0 && hb == 0) || c45OtherSessions() {
			break
		}
		if time.Now().After(leakDeadline) {
			fail(fmt.Sprintf("leaked goroutines after shutdown: %d handlers, %d heartbeats", h, hb))
			break
		}
		time.Sleep(30 * time.Millisecond)
	}

	evs := log.snapshot()
	n101, n503, nAfter := 0, 0, 0
	seenRet := false
	for _, e := range evs {
		if e.Kind == "closereturn" {
			seenRet = true
		}
		if e.Kind == "res" && e.V == 101 {
			n101++
		}
		if e.Kind == "res" && e.V == 503 {
			n503++
			if seenRet {
				nAfter++
			}
		}
	}
	var desc []string
	for _, a := range atts {
		if a.late {
			desc = append(desc, fmt.Sprintf("%d:%s:late", a.id, a.kind))
		} else {
			desc = append(desc, fmt.Sprintf("%d:%s:%dus", a.id, a.kind, a.offset.Microseconds()))
		}
	}
	cs.Coq = "Case " + c44CoqHist(evs)
	cs.Input = map[string]any{"early_clients": nEarly, "attempts": strings.Join(desc, " ")}
	cs.Impl = map[string]any{"history": evs}
	cs.Nontrivial = n101 >= 1 && (n503 >= 1 || class == "cancel")
	if class == "race" {
		cs.Nontrivial = n101 >= 1 || n503 >= 2
	}
	cs.Key = fmt.Sprintf("%d:%s", sid, strings.Join(desc, ","))
	return cs
}

// goroutine counts are process-wide: sessions of this property run one at a time (see c45Gen), so no
// other session can own handler goroutines.
func c45OtherSessions() bool { return false }

func waitTimeout(wg *sync.WaitGroup, d time.Duration) bool {
	ch := make(chan struct{})
	go func() { wg.Wait(); close(ch) }()
	select {
	case <-ch:
		return true
	case <-time.After(d):
		return false
	}
}

func c45Gen(r *Rng, tier string, n int) []Case {
	out := make([]Case, 0, n)
	for i := 0; i < n; i++ {
		class := []string{"close", "race", "close", "race", "cancel"}[i%5]
		rr := r.Fork()
		func() {
			defer func() {
				if e := recover(); e != nil {
					out = append(out, Case{Class: class, Coq: "Case []", ImplFail: []string{fmt.Sprintf("panic in session: %v", e)}})
				}
			}()
			out = append(out, c45Session(rr, i, class))
		}()
	}
	return out
}
