package main

// Config cases of C07: projection of the real IR to the `field` type of coq/C07/Config.v and of
// the real outcome (config / positioned errors / crash site) of d2compiler.Compile.

import (
	"encoding/json"
	"fmt"
	"regexp"
	"sort"
	"strings"

	"oss.terrastruct.com/d2/d2ast"
	"oss.terrastruct.com/d2/d2ir"
	"oss.terrastruct.com/d2/d2parser"
	"oss.terrastruct.com/d2/d2target"
)

var c07DoubleGlobEdge = regexp.MustCompile(`(\*\*\s*(->|<-|--|<->))|((->|<-|--|<->)\s*\*\*)`)
var c07ConfigWord = regexp.MustCompile(`(?i)d2-config`)

// twin program: `d2-config` spelled `d2-konfig` (same length, same case pattern), so that the real
// d2ir.Compile builds the same IR below it but does not run validateConfigs on it.
func c07Twin(files map[string]string) map[string]string {
	out := map[string]string{}
	for k, v := range files {
		out[k] = c07ConfigWord.ReplaceAllStringFunc(v, func(s string) string {
			b := []byte(s)
			b[3] += 'k' - 'c'
			return string(b)
		})
	}
	return out
}

func c07Untwin(s string) string {
	if len(s) == 9 && strings.EqualFold(s, "d2-konfig") {
		b := []byte(s)
		b[3] -= 'k' - 'c'
		return string(b)
	}
	return s
}

// c07IR compiles the twin with the real d2ir.Compile and returns the root map (nil on error/panic).
func c07IR(files map[string]string, root string) (m *d2ir.Map) {
	defer func() {
		if e := recover(); e != nil {
			m = nil
		}
	}()
	tw := c07Twin(files)
	ast, err := d2parser.Parse(root, strings.NewReader(tw[root]), nil)
	if err != nil {
		return nil
	}
	ir, _, err := d2ir.Compile(ast, &d2ir.CompileOptions{FS: c07FS(tw)})
	if err != nil {
		return nil
	}
	return ir
}

func c07Pos(line, col int) string { return coqTuple(coqN(uint64(line)), coqN(uint64(col))) }

// Coq term `Field name unq prim pref pkey kind kids avals`
func c07FieldCoq(f *d2ir.Field, depth int, budget *int) string {
	*budget--
	name := ""
	unq := true
	if f.Name != nil {
		name = c07Untwin(f.Name.ScalarString())
		unq = f.Name.IsUnquoted()
	}
	prim := "None"
	if f.Primary() != nil {
		prim = "(Some " + coqRunes(f.Primary().Value.ScalarString()) + ")"
	}
	pref := c07Pos(0, 0)
	if len(f.References) > 0 {
		if a := f.LastRef().AST(); a != nil {
			rg := a.GetRange()
			pref = c07Pos(rg.Start.Line+1, rg.Start.Column+1)
		}
	}
	pkey := "None"
	if k := f.LastPrimaryKey(); k != nil {
		rg := k.GetRange()
		pkey = "(Some " + c07Pos(rg.Start.Line+1, rg.Start.Column+1) + ")"
	}
	kind := "KNone"
	var kids, avals []string
	switch c := f.Composite.(type) {
	case *d2ir.Map:
		kind = "KMap"
		if c != nil && depth < 8 {
			for _, k := range c.Fields {
				if *budget <= 0 {
					break
				}
				kids = append(kids, c07FieldCoq(k, depth+1, budget))
			}
		}
	case *d2ir.Array:
		kind = "KArr"
		if c != nil {
			for _, v := range c.Values {
				if s, ok := v.(*d2ir.Scalar); ok {
					avals = append(avals, "(AScalar "+coqRunes(s.String())+")")
				} else {
					avals = append(avals, "AOther")
				}
			}
		}
	}
	return fmt.Sprintf("(Field %s %s %s %s %s %s %s %s)", coqRunes(name), coqBool(unq), prim, pref, pkey, kind, coqList(kids), coqList(avals))
}

// does the IR reach one of the two nil dereferences of compileThemeOverrides?  (known-finding signature)
var c07ThemeCodeSet = map[string]bool{"N1": true, "N2": true, "N3": true, "N4": true, "N5": true, "N6": true, "N7": true, "B1": true, "B2": true, "B3": true, "B4": true, "B5": true, "B6": true, "AA2": true, "AA4": true, "AA5": true, "AB4": true, "AB5": true}

func c07ThemeOverridesSignature(ir *d2ir.Map) bool {
	if ir == nil {
		return false
	}
	var cfg *d2ir.Map
	for _, f := range ir.Fields {
		if f.Name != nil && strings.EqualFold(f.Name.ScalarString(), "vars") && f.Name.IsUnquoted() && f.Map() != nil {
			for _, g := range f.Map().Fields {
				if g.Name != nil && strings.EqualFold(g.Name.ScalarString(), "d2-konfig") && g.Map() != nil {
					cfg = g.Map()
					break
				}
			}
			break
		}
	}
	if cfg == nil {
		return false
	}
	for _, f := range cfg.Fields {
		if f.Name == nil || f.Map() == nil {
			continue
		}
		n := strings.ToLower(f.Name.ScalarString())
		if n != "theme-overrides" && n != "dark-theme-overrides" {
			continue
		}
		for _, t := range f.Map().Fields {
			if t.Name == nil {
				return true
			}
			if c07ThemeCodeSet[strings.ToUpper(t.Name.ScalarString())] {
				if t.Primary() == nil {
					return true
				}
			} else if t.LastPrimaryKey() == nil {
				return true
			}
		}
	}
	return false
}

// compileConfig finds a `vars` field by EqualFold that d2ir (exact spelling) never validated, and a scalar
// config key below it has no primary value.
func c07VarsSpellingSignature(ir *d2ir.Map) bool {
	if ir == nil {
		return false
	}
	for _, f := range ir.Fields {
		if f.Name == nil || !strings.EqualFold(f.Name.ScalarString(), "vars") || !f.Name.IsUnquoted() {
			continue
		}
		if f.Name.ScalarString() == "vars" || f.Map() == nil {
			continue
		}
		for _, g := range f.Map().Fields {
			if g.Name == nil || !strings.EqualFold(g.Name.ScalarString(), "d2-konfig") || g.Map() == nil {
				continue
			}
			for _, k := range g.Map().Fields {
				if k.Name == nil || k.Primary() != nil {
					continue
				}
				for _, w := range []string{"sketch", "theme-id", "dark-theme-id", "pad", "layout-engine", "center"} {
					if strings.EqualFold(k.Name.ScalarString(), w) {
						return true
					}
				}
			}
		}
	}
	return false
}

// A substitution placeholder (d2ir.Field with Name == nil, created for a map-level `...${x}`) is still in
// its map while one of the loops that dereference f.Name runs: `***` globs (_tripleGlob), null
// deletion (DeleteField), `**` edge ends / &leaf (IsContainer), scenarios/steps overlay (OverlayMap),
// block strings with substitutions (collectVariables).  Decided on the ASTs of the file set.
func c07PlaceholderSignature(files map[string]string) bool {
	spread, spreadInVars, trigger, blockSubst := false, false, false, false
	var walkMap func(m *d2ast.Map, inVars bool)
	var walkKey func(k *d2ast.Key, inVars bool)
	walkMap = func(m *d2ast.Map, inVars bool) {
		if m == nil {
			return
		}
		for _, n := range m.Nodes {
			if n.Substitution != nil && n.Substitution.Spread {
				spread = true
				if inVars {
					spreadInVars = true
				}
			}
			if n.MapKey != nil {
				walkKey(n.MapKey, inVars)
			}
		}
	}
	walkKey = func(k *d2ast.Key, inVars bool) {
		if k.HasTripleGlob() {
			trigger = true
		}
		if k.Value.Null != nil || (k.Primary.Null != nil) {
			trigger = true
		}
		for _, e := range k.Edges {
			if (e.Src != nil && e.Src.HasMultiGlob()) || (e.Dst != nil && e.Dst.HasMultiGlob()) {
				trigger = true
			}
		}
		isVars := false
		if k.Key != nil && len(k.Key.Path) > 0 {
			for _, sb := range k.Key.Path {
				s := sb.Unbox().ScalarString()
				if s == "scenarios" || s == "steps" {
					trigger = true
				}
				if s == "vars" {
					isVars = true
				}
			}
			if k.Ampersand || k.NotAmpersand {
				if k.Key.Path[0].Unbox().ScalarString() == "leaf" {
					trigger = true
				}
			}
		}
		for _, v := range []*d2ast.BlockString{k.Value.BlockString, k.Primary.BlockString} {
			if v != nil { // resolveSubstitutions calls collectVariables for every block string
				blockSubst = true
			}
		}
		if k.Value.Map != nil {
			walkMap(k.Value.Map, inVars || isVars)
		}
	}
	for name, src := range files {
		ast, _ := d2parser.Parse(name, strings.NewReader(src), nil)
		walkMap(ast, false)
	}
	return (spread && trigger) || (spreadInVars && blockSubst)
}

func c07SearchKF(p *c07Prog) []string {
	var kf []string
	low := strings.ToLower(fmt.Sprint(p.Files))
	if strings.Contains(low, "d2-config") {
		ir := c07IR(p.Files, p.Root)
		if c07ThemeOverridesSignature(ir) {
			kf = append(kf, c07KFThemeOverrides)
		}
		if c07VarsSpellingSignature(ir) {
			kf = append(kf, c07KFVarsSpelling)
		}
	}
	if strings.Contains(low, "...${") && c07PlaceholderSignature(p.Files) {
		kf = append(kf, c07KFPlaceholder)
	}
	if strings.Contains(low, "class") && c07ClassCycleSignature(c07IRPlain(p.Files, p.Root)) {
		kf = append(kf, c07KFClassCycle)
	}
	if strings.Contains(low, "${") && strings.Contains(low, "\"") && c07QuotedSubstSignature(p.Files) {
		kf = append(kf, c07KFQuotedSubst)
	}
	if strings.Contains(low, "link") && c14LinkNoValue(p.Files) {
		kf = append(kf, "C07-import-link-without-value")
	}
	kf = append(kf, c07PeekKF(p)...)
	return kf
}

// ---------------------------------------------------------------- implementation outcome for Coq

func c07OptStr(p *string) string {
	if p == nil {
		return "None"
	}
	return "(Some " + coqRunes(*p) + ")"
}
func c07OptInt(p *int64) string {
	if p == nil {
		return "None"
	}
	return "(Some " + coqZ(*p) + ")"
}
func c07OptBool(p *bool) string {
	if p == nil {
		return "None"
	}
	return "(Some " + coqBool(*p) + ")"
}
func c07Overrides(o *d2target.ThemeOverrides) string {
	if o == nil {
		return "None"
	}
	xs := []string{c07OptStr(o.N1), c07OptStr(o.N2), c07OptStr(o.N3), c07OptStr(o.N4), c07OptStr(o.N5), c07OptStr(o.N6), c07OptStr(o.N7),
		c07OptStr(o.B1), c07OptStr(o.B2), c07OptStr(o.B3), c07OptStr(o.B4), c07OptStr(o.B5), c07OptStr(o.B6),
		c07OptStr(o.AA2), c07OptStr(o.AA4), c07OptStr(o.AA5), c07OptStr(o.AB4), c07OptStr(o.AB5)}
	return "(Some " + coqList(xs) + ")"
}

func c07ConfigCoq(cfgJSON string) string {
	if cfgJSON == "" || cfgJSON == "null" {
		return "None"
	}
	var c d2target.Config
	if err := json.Unmarshal([]byte(cfgJSON), &c); err != nil {
		return "None"
	}
	var keys []string
	for k := range c.Data {
		keys = append(keys, k)
	}
	sort.Strings(keys)
	var data []string
	for _, k := range keys {
		switch v := c.Data[k].(type) {
		case string:
			data = append(data, coqTuple(coqRunes(k), "(DStr "+coqRunes(v)+")"))
		case []any:
			var xs []string
			for _, x := range v {
				xs = append(xs, coqRunes(fmt.Sprint(x)))
			}
			data = append(data, coqTuple(coqRunes(k), "(DArr "+coqList(xs)+")"))
		case nil:
			data = append(data, coqTuple(coqRunes(k), "(DArr [])"))
		default:
			data = append(data, coqTuple(coqRunes(k), "(DStr "+coqRunes("?"+fmt.Sprint(v))+")"))
		}
	}
	return fmt.Sprintf("(Some (MkConfig %s %s %s %s %s %s %s %s %s))", c07OptBool(c.Sketch), c07OptInt(c.ThemeID), c07OptInt(c.DarkThemeID),
		c07OptInt(c.Pad), c07OptStr(c.LayoutEngine), c07OptBool(c.Center), c07Overrides(c.ThemeOverrides), c07Overrides(c.DarkThemeOverrides), coqList(data))
}

func c07CrashSiteCoq(site string) string {
	switch {
	case strings.Contains(site, "compileThemeOverrides") && strings.Contains(site, "Errorf(nil)"):
		return "SiteThemeErrorfKey"
	case strings.Contains(site, "compileThemeOverrides"):
		return "SiteThemePrimary"
	case strings.Contains(site, "compileConfig"):
		return "SiteConfigPrimary"
	}
	return "SiteOther"
}

// ---------------------------------------------------------------- config programs

func c07ConfigProgram(r *Rng) *c07Prog {
	p := &c07Prog{Root: "index.d2", Files: map[string]string{}, Feats: map[string]bool{"vars": true, "d2-config": true}}
	g := &c07G{r: r, feats: p.Feats, noVars: true}
	var b strings.Builder
	if r.Chance(0.4) {
		b.WriteString("x -> y\n")
		g.feat("edge")
	}
	where := r.Intn(10)
	cfg := g.configBody()
	switch where {
	case 0: // not at root: rejected
		g.feat("map")
		b.WriteString("c: {\n  vars: {\n    d2-config: {\n" + cfg + "\n    }\n  }\n}\n")
	case 1: // inside a layer: allowed there, ignored by compileConfig
		g.feat("boards")
		b.WriteString("layers: {\n  l: {\n    vars: {\n      d2-config: {\n" + cfg + "\n      }\n    }\n    a\n  }\n}\n")
	case 2: // key path form
		g.feat("key-path")
		b.WriteString("vars.d2-config: {\n" + cfg + "\n}\n")
	case 3: // two vars blocks merge
		b.WriteString("vars: {\n  a: 1\n}\nvars: {\n  d2-config: {\n" + cfg + "\n  }\n}\n")
	case 4: // other spellings
		b.WriteString(r.Pick([]string{"vars: {\n  D2-CONFIG: {\n", "vars: {\n  \"d2-config\": {\n", "\"vars\": {\n  d2-config: {\n", "vars: {\n  vars: {\n    x: 1\n  }\n  d2-config: {\n",
			"VARS: 1 {\n  d2-config: {\n", "Vars: v {\n  d2-config: {\n", "varſ: {\n  d2-config: {\n", "VARS: {\n  d2-config: {\n"}) + cfg + "\n  }\n}\n")
	default:
		b.WriteString("vars: {\n  d2-config: {\n" + cfg + "\n  }\n}\n")
	}
	if r.Chance(0.3) {
		b.WriteString("z: hi\n")
	}
	p.Files["index.d2"] = b.String()
	return p
}

var c07ConfigCorpus = []string{
	"vars: {d2-config: {theme-overrides: {N1: {x: y}}}}",
	"vars: {d2-config: {dark-theme-overrides: {B1: [a]}}}",
	"vars: {d2-config: {theme-overrides: {N1}}}",
	"vars: {d2-config: {theme-overrides: {zz.a: b}}}",
	"vars: {d2-config.theme-overrides.zz.a: b}",
	"vars: {d2-config: {theme-overrides: {N1: red}}}",
	"vars: {d2-config: {theme-overrides: {n1: RED; aa2: \"#FFF\"; B3: \"#12345\"}}}",
	"vars: {d2-config: {theme-overrides: {N1: red; N1.a: b}}}",
	"vars: {d2-config: {theme-overrides: {zz: 1; zz.a: b}}}",
	"vars: {d2-config: {theme-overrides: {N1: blacK}}}",
	"vars: {d2-config: {theme-overrides: red}}",
	"vars: {d2-config: {theme-overrides: null}}",
	"vars: {d2-config: {theme-overrides: {}; dark-theme-overrides: {N2: blue}}}",
	"vars: {d2-config: {data: {a: {b: c}; d: [x; \"y z\"; [q]]; e: 1; f}}}",
	"vars: {d2-config: {sketch: {a: b}}}",
	"vars: {d2-config: {sketch: true; center: T; pad: -12; theme-id: 300; dark-theme-id: 200; layout-engine: elk}}",
	"vars: {d2-config: {sketch: yes}}",
	"vars: {d2-config: {theme-id: 99999999999999999999}}",
	"vars: {d2-config: {theme-id: 7777}}",
	"vars: {d2-config: {theme-id: +1}}",
	"vars: {d2-config: {pad: 1_0}}",
	"vars: {d2-config: {pad: 0x10}}",
	"vars: {d2-config: {layout-engine: null}}",
	"vars: {d2-config: {layout-engine}}",
	"vars: {d2-config: {bogus: 1; SKETCH: true}}",
	"vars: {d2-config: null}",
	"vars: {d2-config: 3}",
	"\"vars\": {d2-config: {sketch: {a: b}}}",
	"VARS: 1 {d2-config: {sketch: {a: b}}}",
	"Vars: x {d2-config: {pad: zz; theme-id: 99999999999999999999; dark-theme-id: -99999999999999999999; center: maybe}}",
	"Vars: x {d2-config: {theme-overrides: {N1: {a: b}}}}",
	"VARS: {d2-config: {sketch: {a: b}}}",
	"varſ: {d2-config: {layout-engine: {a: b}}}",
	"varſ: {d2-config: {ſketch: true; Kenter: 1; pad: 3}}",
	"x: {vars: {d2-config: {sketch: true}}}",
	"layers: {l: {vars: {d2-config: {sketch: maybe}}}}",
	"scenarios: {l: {vars: {d2-config: {sketch: true}}}}\nvars: {d2-config: {pad: 3}}",
	"vars: {vars: {d2-config: {sketch: true}}}",
}

func c07ConfigCase(p *c07Prog, class string) Case {
	before := c07NoAnswer
	c := c07ConfigCaseInner(p, class)
	if len(c.KF) > 0 {
		c07NoAnswer = before
	}
	return c
}

func c07ConfigCaseInner(p *c07Prog, class string) Case {
	resp, over := c07Compile(p.Files, p.Root, "compile")
	ir := c07IR(p.Files, p.Root)
	c := Case{Class: class, Nontrivial: true, Key: p.Files[p.Root]}
	c.Input = map[string]any{"root": p.Root, "files": p.Files}
	var irCoq string
	if ir == nil {
		irCoq = "None"
	} else {
		budget := 400
		var fs []string
		for _, f := range ir.Fields {
			fs = append(fs, c07FieldCoq(f, 0, &budget))
		}
		if budget <= 0 {
			irCoq = "None"
		} else {
			irCoq = "(Some " + coqList(fs) + ")"
		}
	}
	var impl string
	implJ := map[string]any{"class": resp.Class}
	switch resp.Class {
	case "graph":
		impl = "(IConfig " + c07ConfigCoq(resp.Cfg) + ")"
		implJ["config"] = json.RawMessage(resp.Cfg)
	case "errors":
		var es []string
		var ms []string
		for _, e := range resp.Errs {
			es = append(es, fmt.Sprintf("(MkErr %s %s %s %s)", c07Pos(e.Line, e.Col), coqN(uint64(e.Class)), coqBool(e.HasPos), coqBool(e.InFile)))
			ms = append(ms, e.Msg)
		}
		impl = "(IErrors " + coqList(es) + ")"
		implJ["errors"] = ms
	case "panic":
		impl = "(ICrash " + c07CrashSiteCoq(resp.PanicSite) + ")"
		implJ["panic"] = resp.Panic
		implJ["site"] = resp.PanicSite
		c.ImplFail = []string{"panic: " + resp.Panic + " at " + resp.PanicSite}
	default:
		impl = "ITimeout"
		c.ImplFail = []string{"no result: " + resp.Class + " " + resp.Panic}
	}
	if over && len(c.ImplFail) == 0 {
		c.ImplFail = []string{fmt.Sprintf("took %.1f ms, bound %v", float64(resp.DtNs)/1e6, c07Bound(p.Files))}
	}
	c.Impl = implJ
	c.Coq = fmt.Sprintf("Config %s %s %s", c07Variant(), irCoq, impl)
	if c07ThemeOverridesSignature(ir) {
		c.KF = append(c.KF, c07KFThemeOverrides)
	}
	if c07VarsSpellingSignature(ir) {
		c.KF = append(c.KF, c07KFVarsSpelling)
	}
	return c
}

// c07Variant probes which variant of the configuration code is linked: the pinned one panics on the
// DESIGN section 8 witness, the repaired one (coq/C07/fix.patch) reports a positioned error.
var c07VariantCache string

func c07Variant() string {
	if c07VariantCache == "" {
		files := map[string]string{"index.d2": "vars: {d2-config: {theme-overrides: {N1: {x: y}}}}\n"}
		resp, _ := c07Compile(files, "index.d2", "compile")
		if resp.Class == "errors" {
			c07VariantCache = "Fixed"
		} else {
			c07VariantCache = "Pinned"
		}
	}
	return c07VariantCache
}

func c07ConfigCases(r *Rng, tier string, n int) []Case {
	var out []Case
	for _, s := range c07ConfigCorpus {
		if c07GiveUp() {
			break
		}
		p := &c07Prog{Root: "index.d2", Files: map[string]string{"index.d2": s + "\n"}, Feats: map[string]bool{"vars": true, "d2-config": true, "map": true}}
		out = append(out, c07ConfigCase(p, "config-corpus"))
	}
	for len(out) < n {
		if c07GiveUp() {
			break
		}
		out = append(out, c07ConfigCase(c07ConfigProgram(r), "config-random"))
	}
	return out
}
