package main

// C36: every successful edit yields source text that compiles to the returned diagram and that the
// formatter leaves unchanged.
//
// After EVERY step of every history (all operation kinds of d2oracle: Create, Set, Delete, Rename, Move,
// ReconnectEdge, addressed to the root or to nested boards; and UpdateImport on text) three observables
// are taken from the implementation and compared in Coq (coq/C36/Check.v):
//   (a) text := d2format.Format(returned.AST) compiles                              code 10
//   (b) the compilation of text projects to the same boards as the returned graph    code 11
//   (c) d2format.Format(d2parser.Parse(text)) == text                                code 12

import (
	"fmt"
	"io/fs"
	"strings"
	"testing/fstest"

	"oss.terrastruct.com/d2/d2compiler"
	"oss.terrastruct.com/d2/d2format"
	"oss.terrastruct.com/d2/d2graph"
	"oss.terrastruct.com/d2/d2oracle"
	"oss.terrastruct.com/d2/d2parser"
)

func init() {
	register(&Prop{ID: "C36", Module: "V.C36.Check", Gen: c36Gen, Quick: 900, Thorough: 12000, Shard: 75})
}

var c36KindCode = map[string]int{"create-obj": 1, "create-edge": 2, "set-obj": 3, "set-edge": 4, "delobj": 5, "deledge": 6,
	"delobjattr": 7, "deledgeattr": 8, "rename": 9, "move": 10, "reconnect": 11, "import": 12}

func c36CompileFS(path, text string, fsys fs.FS) (g *d2graph.Graph, err error) {
	defer func() {
		if e := recover(); e != nil {
			err = fmt.Errorf("compile panic: %v", e)
		}
	}()
	g, _, err = d2compiler.Compile(path, strings.NewReader(text), &d2compiler.CompileOptions{FS: fsys})
	return g, err
}

func c36Reformat(text string) (out string, err error) {
	defer func() {
		if e := recover(); e != nil {
			err = fmt.Errorf("parse/format panic: %v", e)
		}
	}()
	ast, err := d2parser.Parse("", strings.NewReader(text), nil)
	if err != nil {
		return "", err
	}
	return d2format.Format(ast), nil
}

var c36EmptyTree = "BT [] [] [] [] [] []"

// c36Observe renders the three observables for a returned graph.
func c36Observe(kind string, returned *d2graph.Graph, fsys fs.FS, path string) (coq string, impl map[string]any, fails []string) {
	impl = map[string]any{}
	var text string
	func() {
		defer func() {
			if e := recover(); e != nil {
				fails = append(fails, fmt.Sprintf("panic formatting the returned AST: %v", e))
			}
		}()
		text = d2format.Format(returned.AST)
	}()
	impl["text"] = text
	ret := c41ProjectAll(returned)
	g3, err := c36CompileFS(path, text, fsys)
	rec := c36EmptyTree
	if err == nil {
		r3 := c41ProjectAll(g3)
		rec = c41CoqTree(r3)
		if r3.canon() != ret.canon() {
			impl["recompiled_differs"] = true
		}
	} else {
		impl["recompile_err"] = err.Error()
	}
	fmtText, ferr := c36Reformat(text)
	if ferr != nil {
		impl["reparse_err"] = ferr.Error()
		fmtText = "<parse error> " + ferr.Error()
	} else if fmtText != text {
		impl["reformatted"] = fmtText
	}
	coq = fmt.Sprintf("KEdit %d %s (%s) (%s) %s %s", c36KindCode[kind], coqBool(err == nil), c41CoqTree(ret), rec, coqBytes(text), coqBytes(fmtText))
	return coq, impl, fails
}

// c36MovePanics: signature of the recorded crash of d2oracle.Move with includeDescendants: the moved
// object is declared through a dotted key (a real element precedes its own element in a non-edge
// reference), and the old and the new ID agree at some position (edit.go getCommonPath, which compares
// position by position), so move() takes its "3. Extend" branch, which "does not make sense for
// includeDescendants" (comment in edit.go) and slices ref.Key.Path out of range.
func c36MovePanics(op *c37Op) bool {
	if op.Kind != "move" || op.g12 == nil || !op.g12.Incl || op.g12.tgt == nil {
		return false
	}
	t := op.g12.tgt
	if op.g12.dest == t.Par {
		return false
	}
	dotted := false
	for _, ref := range t.obj.References {
		if ref.InEdge() || ref.Key == nil || ref.MapKey == nil || len(ref.MapKey.Edges) != 0 {
			continue
		}
		for j := 0; j < ref.KeyPathIndex && j < len(ref.Key.Path); j++ {
			if ref.Key.Path[j].Unbox().ScalarString() != "_" {
				dotted = true
			}
		}
	}
	if !dotted {
		return false
	}
	var ak2 []string
	if op.g12.dest != nil {
		ak2 = append(ak2, op.g12.dest.Path...)
	}
	ak2 = append(ak2, op.g12.name)
	for i := 0; i < len(t.Path) && i < len(ak2); i++ {
		if t.Path[i] == ak2[i] {
			return true
		}
	}
	return false
}

func c36KF(st *c41Step) []string {
	if st.movePanics {
		return []string{"C36-move-with-descendants-dotted-key-panics"}
	}
	return nil
}

func c36EditCase(st *c41Step, class string, s int) (Case, bool) {
	op := st.op
	c := Case{Class: class + "/" + op.Kind, Nontrivial: true,
		Key: st.text + "|" + strings.Join(st.board, "/") + "|" + op.Kind + "|" + op.Key + "|" + op.Val + "|" + op.Src + "|" + op.Dst}
	c.Input = map[string]any{"text": st.text, "board": st.board, "op": op, "step": s}
	if st.res.tmo {
		c.ImplFail = append(c.ImplFail, "timeout in "+op.Kind)
	}
	if st.res.panic != "" {
		c.ImplFail = append(c.ImplFail, "panic in "+op.Kind+": "+st.res.panic)
	}
	if st.res.err != nil || st.res.g == nil {
		if len(c.ImplFail) == 0 {
			return c, false // refused: the property speaks about successful edits
		}
		c.Coq = fmt.Sprintf("KEdit %d true (%s) (%s) [] []", c36KindCode[op.Kind], c36EmptyTree, c36EmptyTree)
		c.KF = c36KF(st)
		return c, true
	}
	coq, impl, fails := c36Observe(op.Kind, st.res.g, nil, "")
	c.Coq, c.Impl = coq, impl
	c.ImplFail = append(c.ImplFail, fails...)
	c.KF = c36KF(st)
	return c, true
}

// ---------------------------------------------------------------- import updates

var c36FileBodies = []string{
	"a: L1\nb: L2\na -> b: E1\n",
	"shape: circle\nstyle.fill: red\n",
	"p: L3 {\n  q: L4\n}\n",
	"label: imported\nk: L5\n",
}
var c36ImportNames = []string{"imp", "lib", "dir/part", "dir/sub/deep", "x-y", "two words", "q.r"}
var c36NewNames = []string{"renamed", "dir2/part", "dir/other", "new name", "a.b", "q#r", "x", "dir/sub/deep2", "über", "semi;colon", "we'ird", "tab\there"}

func c36ImportRef(name string) string {
	return "@" + c37KeySeg(name)
}

func c36ImportCases(r *Rng, n int) []Case {
	var out []Case
	for len(out) < n {
		files := map[string]string{}
		k := r.Range(1, 3)
		var names []string
		for i := 0; i < k; i++ {
			nm := r.Pick(c36ImportNames)
			if _, ok := files[nm]; ok {
				continue
			}
			files[nm] = r.Pick(c36FileBodies)
			names = append(names, nm)
		}
		var b strings.Builder
		b.WriteString("root: R1\n")
		for i, nm := range names {
			switch r.Intn(5) {
			case 0:
				fmt.Fprintf(&b, "x%d: %s\n", i, c36ImportRef(nm))
			case 1:
				fmt.Fprintf(&b, "y%d: {\n  ...%s\n  own: O%d\n}\n", i, c36ImportRef(nm), i)
			case 2:
				fmt.Fprintf(&b, "...%s\n", c36ImportRef(nm))
			case 3:
				fmt.Fprintf(&b, "layers: {\n  l%d: %s\n}\n", i, c36ImportRef(nm))
			default:
				fmt.Fprintf(&b, "z%d: Z {\n  inner: %s\n}\nw%d: %s\n", i, c36ImportRef(nm), i, c36ImportRef(nm))
			}
		}
		text := b.String()
		mk := func(fl map[string]string) fs.FS {
			m := fstest.MapFS{}
			for nm, body := range fl {
				m[nm+".d2"] = &fstest.MapFile{Data: []byte(body)}
			}
			return m
		}
		g0, err := c36CompileFS("index.d2", text, mk(files))
		if err != nil {
			continue
		}
		old := names[r.Intn(len(names))]
		var newp *string
		files2 := map[string]string{}
		for nm, body := range files {
			files2[nm] = body
		}
		mode := r.Intn(6)
		oldArg := old
		switch {
		case mode == 0: // remove the import
			delete(files2, old)
		case mode == 1 && strings.Contains(old, "/"): // rename the directory
			i := strings.Index(old, "/")
			oldArg = old[:i+1]
			nd := r.Pick([]string{"moved/", "d 2/", "a.b/"})
			newp = &nd
			for nm, body := range files {
				if strings.HasPrefix(nm, oldArg) {
					delete(files2, nm)
					files2[nd+nm[len(oldArg):]] = body
				}
			}
		default:
			nn := r.Pick(c36NewNames)
			if _, ok := files[nn]; ok {
				continue
			}
			newp = &nn
			files2[nn] = files[old]
			delete(files2, old)
		}
		var res string
		var rerr error
		var pan string
		func() {
			defer func() {
				if e := recover(); e != nil {
					pan = fmt.Sprint(e)
				}
			}()
			res, rerr = d2oracle.UpdateImport(text, oldArg, newp)
		}()
		c := Case{Class: "import", Nontrivial: true, Key: fmt.Sprintf("I|%s|%s|%v", text, oldArg, newp)}
		np := "<remove>"
		if newp != nil {
			np = *newp
		}
		c.Input = map[string]any{"text": text, "old": oldArg, "new": np}
		if pan != "" {
			c.ImplFail = append(c.ImplFail, "panic in UpdateImport: "+pan)
		}
		if rerr != nil || pan != "" {
			c.Impl = map[string]any{"err": fmt.Sprint(rerr)}
			c.Coq = fmt.Sprintf("KEdit 12 true (%s) (%s) [] []", c36EmptyTree, c36EmptyTree)
			if pan == "" {
				c.Class = "import/refused"
			}
			out = append(out, c)
			continue
		}
		impl := map[string]any{"text": res}
		g1, cerr := c36CompileFS("index.d2", res, mk(files2))
		orig := c41ProjectAll(g0)
		rec := c36EmptyTree
		if cerr == nil {
			r1 := c41ProjectAll(g1)
			rec = c41CoqTree(r1)
			if newp == nil {
				orig = r1 // a removed import changes the diagram: only (a) and (c) are checked
			}
		} else {
			impl["recompile_err"] = cerr.Error()
		}
		fmtText, ferr := c36Reformat(res)
		if ferr != nil {
			fmtText = "<parse error> " + ferr.Error()
			impl["reparse_err"] = ferr.Error()
		} else if fmtText != res {
			impl["reformatted"] = fmtText
		}
		c.Impl = impl
		c.Coq = fmt.Sprintf("KEdit 12 %s (%s) (%s) %s %s", coqBool(cerr == nil), c41CoqTree(orig), rec, coqBytes(res), coqBytes(fmtText))
		out = append(out, c)
	}
	return out
}

func c36Gen(r *Rng, tier string, n int) []Case {
	var out []Case
	emit := func(class string) func(st *c41Step, s int) bool {
		return func(st *c41Step, s int) bool {
			c, ok := c36EditCase(st, class, s)
			if ok {
				out = append(out, c)
			}
			return len(c.ImplFail) == 0
		}
	}
	for _, t := range c38Corpus {
		c41History(r.Fork(), t, 10, emit("corpus"))
	}
	for _, t := range c41Corpus {
		for k := 0; k < 2; k++ {
			c41History(r.Fork(), t, 10, emit("boards-corpus"))
		}
	}
	out = append(out, c36ImportCases(r.Fork(), n/12)...)
	for len(out) < n {
		if r.Chance(0.45) {
			text := c41GenText(r)
			if _, err := c38Compile(text); err != nil {
				continue
			}
			c41History(r.Fork(), text, r.Range(1, 20), emit("boards"))
		} else {
			rich := r.Intn(3)
			c41History(r.Fork(), c38GenDiagram(r, rich), r.Range(1, 20), emit(fmt.Sprintf("rich%d", rich)))
		}
	}
	return out
}
