package main

// Grammar-directed generator of D2 programs over the full language, shared by C07 / C08 / C14.
// Every random choice comes from the Rng handed in (replays depend on it).

import (
	"fmt"
	"regexp"
	"sort"
	"strings"

	"oss.terrastruct.com/d2/d2ast"
)

type c07Prog struct {
	Root  string
	Files map[string]string
	Feats map[string]bool
}

func (p *c07Prog) featList() []string {
	var fs []string
	for f := range p.Feats {
		fs = append(fs, f)
	}
	sort.Strings(fs)
	return fs
}

type c07G struct {
	r     *Rng
	feats map[string]bool
	// names of the other files of the set as they must be written in an import from the current file
	imports []string
	noVars  bool
}

func (g *c07G) feat(f string) { g.feats[f] = true }

var c07Idents = []string{"a", "b", "c", "x", "y", "q", "A", "user", "db"}
var c07Shapes = []string{"rectangle", "circle", "sql_table", "class", "sequence_diagram", "text", "image", "person", "cloud", "hexagon", "oval", "diamond", "code"}
var c07Colors = []string{"red", "#00ff00", "blue", "#abc", "honeydew", "N1"}
var c07Words = []string{"hello", "1", "0.5", "true", "false", "-3", "100", "top-left", "center", "right", "lower", "uppercase", "dagre", "elk", "4", "x", "https://example.com", "./img.png", "../up/icon.svg", "layers.l1", "_.x"}

func (g *c07G) ident() string {
	switch g.r.Intn(12) {
	case 0:
		g.feat("quoted-key")
		return `"` + g.r.Pick([]string{"a b", "x.y", "q", "a-b", "é", "*"}) + `"`
	case 1:
		g.feat("quoted-key")
		return `'` + g.r.Pick([]string{"a", "x y", "1"}) + `'`
	case 2:
		return g.r.Pick([]string{"é", "日本", "a-b", "a b", "1", "İ"})
	}
	return g.r.Pick(c07Idents)
}

func (g *c07G) keyPath() string {
	n := 1
	if g.r.Chance(0.3) {
		n = g.r.Range(2, 3)
		g.feat("key-path")
	}
	var ps []string
	for i := 0; i < n; i++ {
		if i > 0 && g.r.Chance(0.08) {
			g.feat("underscore")
			ps = append(ps, "_")
			continue
		}
		ps = append(ps, g.ident())
	}
	return strings.Join(ps, ".")
}

func (g *c07G) scalar() string {
	switch g.r.Intn(14) {
	case 0:
		g.feat("quoted-value")
		return `"` + g.r.Pick([]string{"hi there", "a: b", "#x", "${x}", ""}) + `"`
	case 1:
		g.feat("block-string")
		return g.r.Pick([]string{"|md # hi |", "|`md x | y `|", "|go\n  func f() {}\n|", "|latex \\frac{1}{2} |"})
	case 2:
		if !g.noVars {
			g.feat("substitution")
			return "${" + g.r.Pick([]string{"v", "w", "m.k", "nope", "arr", "m"}) + "}"
		}
	case 3:
		if !g.noVars {
			g.feat("substitution")
			return "pre-${" + g.r.Pick([]string{"v", "w", "m.k"}) + "}-post"
		}
	case 4:
		g.feat("null")
		return "null"
	case 5:
		return g.r.Pick(c07Colors)
	case 6:
		return g.r.Pick(c07Shapes)
	}
	return g.r.Pick(c07Words)
}

func (g *c07G) importRef(spread bool) string {
	g.feat("import")
	tgt := "nofile"
	if len(g.imports) > 0 && !g.r.Chance(0.05) {
		tgt = g.r.Pick(g.imports)
	}
	if g.r.Chance(0.15) {
		tgt += ".d2"
	}
	if !spread && g.r.Chance(0.2) {
		g.feat("import-key")
		tgt += "." + g.r.Pick(c07Idents)
	}
	if spread {
		return "...@" + tgt
	}
	return "@" + tgt
}

func (g *c07G) array(depth int) string {
	g.feat("array")
	n := g.r.Intn(4)
	var xs []string
	for i := 0; i < n; i++ {
		switch g.r.Intn(8) {
		case 0:
			if depth > 0 {
				xs = append(xs, g.array(depth-1))
				continue
			}
		case 1:
			if depth > 0 {
				xs = append(xs, "{"+g.body(depth-1, g.r.Intn(2)+1, "; ", "object")+"}")
				continue
			}
		case 2:
			if !g.noVars {
				g.feat("spread-substitution")
				xs = append(xs, "...${"+g.r.Pick([]string{"arr", "m", "v"})+"}")
				continue
			}
		case 3:
			xs = append(xs, g.importRef(g.r.Bool()))
			continue
		case 4:
			xs = append(xs, "# comment in array\n")
			continue
		}
		xs = append(xs, g.scalar())
	}
	return "[" + strings.Join(xs, "; ") + "]"
}

// value after the colon
func (g *c07G) value(depth int, ctx string) string {
	switch g.r.Intn(10) {
	case 0, 1:
		if depth > 0 {
			g.feat("map")
			v := "{\n" + g.body(depth-1, g.r.Range(0, 3), "\n", ctx) + "\n}"
			if g.r.Chance(0.3) {
				return g.scalar() + " " + v
			}
			return v
		}
	case 2:
		return g.array(depth)
	case 3:
		if g.r.Chance(0.5) {
			return g.importRef(false)
		}
	}
	return g.scalar()
}

var c07StyleKW, c07SimpleKW, c07AllKW []string

func init() {
	for k := range d2ast.StyleKeywords {
		c07StyleKW = append(c07StyleKW, k)
	}
	for k := range d2ast.ReservedKeywords {
		c07AllKW = append(c07AllKW, k)
		if _, ok := d2ast.StyleKeywords[k]; !ok {
			c07SimpleKW = append(c07SimpleKW, k)
		}
	}
	sort.Strings(c07StyleKW)
	sort.Strings(c07SimpleKW)
	sort.Strings(c07AllKW)
}

func (g *c07G) reservedKey() string {
	g.feat("reserved")
	if g.r.Chance(0.4) {
		return "style." + g.r.Pick(c07StyleKW)
	}
	k := g.r.Pick(c07SimpleKW)
	if g.r.Chance(0.05) {
		k = strings.ToUpper(k[:1]) + k[1:]
	}
	return k
}

func (g *c07G) edge() string {
	g.feat("edge")
	ops := []string{"->", "<-", "--", "<->"}
	n := 2
	if g.r.Chance(0.25) {
		n = g.r.Range(3, 4)
		g.feat("edge-chain")
	}
	var b strings.Builder
	for i := 0; i < n; i++ {
		if i > 0 {
			b.WriteString(" " + g.r.Pick(ops) + " ")
		}
		if g.r.Chance(0.12) {
			g.feat("edge-glob")
			b.WriteString(g.r.Pick([]string{"*", "**", "a*", "*.x", "x.*"}))
		} else {
			b.WriteString(g.keyPath())
		}
	}
	return b.String()
}

func (g *c07G) edgeRef() string {
	g.feat("edge-index")
	idx := g.r.Pick([]string{"0", "1", "*", "7"})
	src, dst := g.r.Pick(c07Idents[:4]), g.r.Pick(c07Idents[:4])
	if g.r.Chance(0.15) {
		src = "*"
	}
	return fmt.Sprintf("(%s %s %s)[%s]", src, g.r.Pick([]string{"->", "<-", "--", "<->"}), dst, idx)
}

func (g *c07G) globKey() string {
	g.feat("glob")
	return g.r.Pick([]string{"*", "**", "***", "a*", "*.b", "**.x", "x.*", "*a*", "(* -> *)[*]", "(** -> **)[*]", "layers.*", "*.style.fill", "**.shape", "***.style.opacity"})
}

func (g *c07G) filter() string {
	g.feat("glob-filter")
	neg := ""
	if g.r.Chance(0.25) {
		neg = "!"
	}
	k := g.r.Pick([]string{"shape", "label", "style.fill", "leaf", "connected", "level", "class", "src", "dst", "x", "link", "icon"})
	v := g.scalar()
	switch k {
	case "leaf", "connected":
		if g.r.Chance(0.8) {
			v = g.r.Pick([]string{"true", "false"})
		}
	case "level":
		if g.r.Chance(0.8) {
			v = g.r.Pick([]string{"0", "1", "2", "-1"})
		}
	case "shape":
		if g.r.Chance(0.7) {
			v = g.r.Pick(c07Shapes)
		}
	}
	if g.r.Chance(0.1) {
		v = g.array(0)
	}
	return neg + "&" + k + ": " + v
}

// one declaration of a map body; ctx steers which reserved keywords are plausible
func (g *c07G) decl(depth int, ctx string) string {
	switch g.r.Intn(24) {
	case 0, 1, 2, 3:
		return g.keyPath() + ": " + g.value(depth, "object")
	case 4:
		return g.keyPath()
	case 5, 6:
		e := g.edge()
		if g.r.Chance(0.5) {
			e += ": " + g.value(depth, "edge")
		}
		return e
	case 7:
		return g.edgeRef() + "." + g.reservedKey() + ": " + g.value(depth, "edge")
	case 8:
		if g.r.Bool() {
			return g.edgeRef() + ": " + g.value(depth, "edge")
		}
		return g.edgeRef() + ": null"
	case 9, 10:
		return g.reservedKey() + ": " + g.value(depth, ctx)
	case 11:
		return g.keyPath() + "." + g.reservedKey() + ": " + g.value(depth, "object")
	case 12:
		k := g.globKey()
		if depth > 0 && g.r.Chance(0.6) {
			n := g.r.Range(1, 3)
			var ds []string
			for i := 0; i < n; i++ {
				if g.r.Chance(0.5) {
					ds = append(ds, g.filter())
				} else {
					ds = append(ds, g.decl(depth-1, "object"))
				}
			}
			return k + ": {\n" + strings.Join(ds, "\n") + "\n}"
		}
		return k + "." + g.reservedKey() + ": " + g.scalar()
	case 13:
		if depth > 0 {
			return g.filter()
		}
	case 14:
		return g.importRef(true)
	case 15:
		if !g.noVars {
			g.feat("spread-substitution")
			return "...${" + g.r.Pick([]string{"m", "v", "arr", "nope"}) + "}"
		}
	case 16:
		if depth > 0 && !g.noVars {
			g.feat("vars")
			return "vars: {\n" + g.body(depth-1, g.r.Range(1, 3), "\n", "vars") + "\n}"
		}
	case 17:
		if depth > 0 {
			g.feat("classes")
			cn := g.r.Pick([]string{"c1", "c2"})
			body := g.body(depth-1, g.r.Range(1, 3), "\n", "class")
			if g.r.Chance(0.12) {
				g.feat("class-in-class")
				body += "\nclass: " + g.r.Pick([]string{"c1", "c2", "[c2; c1]"})
			}
			return "classes: {\n" + cn + ": {\n" + body + "\n}\n}\n" + g.keyPath() + ".class: " + g.r.Pick([]string{cn, "[c1; c2]", "nope"})
		}
	case 18:
		if depth > 0 {
			g.feat("boards")
			kind := g.r.Pick([]string{"layers", "scenarios", "steps"})
			return kind + ": {\n" + g.r.Pick([]string{"l1", "s1", "x"}) + ": {\n" + g.body(depth-1, g.r.Range(1, 3), "\n", "object") + "\n}\n}"
		}
	case 19:
		g.feat("comment")
		return g.r.Pick([]string{"# a comment", `"""` + " block\ncomment " + `"""`})
	case 20:
		g.feat("shape")
		return g.keyPath() + ".shape: " + g.r.Pick(c07Shapes)
	case 21:
		if depth > 0 && !g.noVars {
			g.feat("d2-config")
			return "vars: {\n  d2-config: {\n" + g.configBody() + "\n  }\n}"
		}
	case 22:
		g.feat("link")
		return g.keyPath() + "." + g.r.Pick([]string{"link", "icon"}) + ": " + g.r.Pick([]string{"./a.png", "../b/c.svg", "https://x.y/z", "layers.l1", "_.layers.x", "root.layers.l1", "/abs/p.png", "a.png"})
	}
	return g.keyPath() + ": " + g.scalar()
}

var c07ConfigKeys = []string{"sketch", "theme-id", "dark-theme-id", "pad", "layout-engine", "center", "theme-overrides", "dark-theme-overrides", "data", "bogus", "SKETCH"}
var c07ThemeCodes = []string{"N1", "N2", "N3", "N4", "N5", "N6", "N7", "B1", "B2", "B3", "B4", "B5", "B6", "AA2", "AA4", "AA5", "AB4", "AB5", "n1", "zz", "aa2"}

func (g *c07G) configBody() string {
	n := g.r.Range(0, 4)
	var ds []string
	for i := 0; i < n; i++ {
		k := g.r.Pick(c07ConfigKeys)
		var v string
		switch k {
		case "theme-overrides", "dark-theme-overrides":
			if g.r.Chance(0.85) {
				m := g.r.Range(0, 3)
				var es []string
				for j := 0; j < m; j++ {
					tv := g.r.Pick(c07Colors)
					if g.r.Chance(0.1) {
						tv = g.value(1, "config")
					}
					es = append(es, g.r.Pick(c07ThemeCodes)+": "+tv)
				}
				v = "{" + strings.Join(es, "; ") + "}"
			} else {
				v = g.value(1, "config")
			}
		case "data":
			if g.r.Chance(0.8) {
				v = "{" + g.body(0, g.r.Range(0, 3), "; ", "object") + "}"
			} else {
				v = g.value(1, "config")
			}
		case "sketch", "center":
			v = g.r.Pick([]string{"true", "false", "1", "T", "yes", "null"})
		case "theme-id", "dark-theme-id":
			v = g.r.Pick([]string{"0", "1", "3", "8", "100", "200", "300", "5", "-1", "x", "99999999999999999999"})
		case "pad":
			v = g.r.Pick([]string{"0", "10", "-5", "1.5", "x"})
		default:
			v = g.scalar()
		}
		if g.r.Chance(0.08) {
			v = g.value(1, "config")
		}
		ds = append(ds, "    "+k+": "+v)
	}
	return strings.Join(ds, "\n")
}

func (g *c07G) body(depth, n int, sep, ctx string) string {
	var ds []string
	for i := 0; i < n; i++ {
		ds = append(ds, g.decl(depth, ctx))
	}
	return strings.Join(ds, sep)
}

// import name of file `to` as written in file `from` (both slash paths inside the set)
func c07RelImport(from, to string) string {
	fd := strings.Split(from, "/")
	fd = fd[:len(fd)-1]
	td := strings.Split(strings.TrimSuffix(to, ".d2"), "/")
	i := 0
	for i < len(fd) && i < len(td)-1 && fd[i] == td[i] {
		i++
	}
	var parts []string
	for j := i; j < len(fd); j++ {
		parts = append(parts, "..")
	}
	parts = append(parts, td[i:]...)
	return strings.Join(parts, "/")
}

var c07FileNames = []string{"index.d2", "x.d2", "sub/y.d2", "sub/deep/z.d2"}

// c07GenProgram: a file set of 1..4 files; later files are importable from earlier ones (and, with
// probability cyc, from every file: cycles).
func c07GenProgram(r *Rng, maxFiles int, depth int, decls int) *c07Prog {
	nf := 1
	if maxFiles > 1 && r.Chance(0.55) {
		nf = r.Range(2, maxFiles)
	}
	p := &c07Prog{Root: "index.d2", Files: map[string]string{}, Feats: map[string]bool{}}
	cyc := r.Chance(0.25)
	for i := 0; i < nf; i++ {
		g := &c07G{r: r, feats: p.Feats}
		for j := 0; j < nf; j++ {
			if j > i || (cyc && nf > 0) {
				g.imports = append(g.imports, c07RelImport(c07FileNames[i], c07FileNames[j]))
			}
		}
		var b strings.Builder
		if r.Chance(0.35) {
			g.feat("vars")
			b.WriteString("vars: {\n  v: 1\n  w: red\n  m: {k: circle; j: {i: 2}}\n  arr: [a; b]\n}\n")
		}
		n := r.Range(1, decls)
		if i > 0 {
			n = r.Range(1, (decls+1)/2)
		}
		b.WriteString(g.body(depth, n, "\n", "object"))
		b.WriteString("\n")
		p.Files[c07FileNames[i]] = b.String()
	}
	if nf > 1 {
		p.Feats["multi-file"] = true
	}
	return p
}

// ---------------------------------------------------------------- token mutation

var c07TokRe = regexp.MustCompile(`\$\{|\.\.\.|->|<-|--|<->|[A-Za-z0-9_\-]+|\s+|.`)
var c07Noise = []string{"{", "}", "[", "]", ":", ";", ".", "(", ")", "*", "&", "!", "@", "$", "${", "...", "->", "|", "\"", "'", "#", "\n", "\\", "null", "_", "<-"}

func c07Mutate(r *Rng, s string) string {
	toks := c07TokRe.FindAllString(s, -1)
	if len(toks) == 0 {
		return r.Pick(c07Noise)
	}
	n := r.Range(1, 3)
	for k := 0; k < n; k++ {
		i := r.Intn(len(toks))
		switch r.Intn(5) {
		case 0: // delete
			toks = append(toks[:i], toks[i+1:]...)
		case 1: // duplicate
			toks = append(toks[:i+1], toks[i:]...)
		case 2: // swap
			j := r.Intn(len(toks))
			toks[i], toks[j] = toks[j], toks[i]
		case 3: // replace
			toks[i] = r.Pick(c07Noise)
		default: // insert
			toks = append(toks[:i], append([]string{r.Pick(c07Noise)}, toks[i:]...)...)
		}
		if len(toks) == 0 {
			break
		}
	}
	return strings.Join(toks, "")
}

// ---------------------------------------------------------------- static import graph of a file set

var c07ImportRe = regexp.MustCompile(`@([A-Za-z0-9_./\-]+)`)

// c07StaticImports: for each file of the set, the cleaned paths its `@…` tokens resolve to (as
// d2ir.pushImportStack computes them from a file that was itself reached by a cleaned path).
func c07StaticImports(files map[string]string) map[string][]string {
	out := map[string][]string{}
	for name, src := range files {
		for _, m := range c07ImportRe.FindAllStringSubmatch(src, -1) {
			t := m[1]
			// strip an import key (`@x.key`): the parser keeps only the first path element (+ optional .d2)
			segs := strings.Split(t, "/")
			last := segs[len(segs)-1]
			if i := strings.Index(last, "."); i > 0 {
				rest := last[i+1:]
				last = last[:i]
				if rest == "d2" || strings.HasPrefix(rest, "d2.") {
					// x.d2 or x.d2.key
				}
			}
			segs[len(segs)-1] = last
			p := c07PathJoin(c07PathDir(name), strings.Join(segs, "/")+".d2")
			out[name] = append(out[name], p)
		}
	}
	return out
}

func c07PathDir(p string) string {
	i := strings.LastIndex(p, "/")
	if i < 0 {
		return "."
	}
	return p[:i]
}

func c07PathJoin(a, b string) string {
	var st []string
	for _, s := range strings.Split(a+"/"+b, "/") {
		switch s {
		case "", ".":
		case "..":
			if len(st) > 0 && st[len(st)-1] != ".." {
				st = st[:len(st)-1]
			} else {
				st = append(st, "..")
			}
		default:
			st = append(st, s)
		}
	}
	return strings.Join(st, "/")
}

// c07HasStaticCycle: some file reachable from root imports (transitively) a file that is on the path to it.
func c07HasStaticCycle(files map[string]string, root string) bool {
	imps := c07StaticImports(files)
	on := map[string]bool{}
	var dfs func(f string, depth int) bool
	dfs = func(f string, depth int) bool {
		if on[f] {
			return true
		}
		if _, ok := files[f]; !ok || depth > 8 {
			return false
		}
		on[f] = true
		defer delete(on, f)
		for _, t := range imps[f] {
			if dfs(t, depth+1) {
				return true
			}
		}
		return false
	}
	return dfs(root, 0)
}
