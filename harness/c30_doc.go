package main

// C30, whole-document part: render generated diagrams whose user strings carry XML metacharacters and
// unique sentinel tokens through the real pipeline (d2lib.Compile with dagre, d2svg.Render, optionally
// appendix.Append) and parse the result with a strict XML parser.

import (
	"bytes"
	"context"
	"encoding/xml"
	"fmt"
	"io"
	"regexp"
	"sort"
	"strings"
	"sync"
	"time"

	"oss.terrastruct.com/d2/d2ast"
	"oss.terrastruct.com/d2/d2format"
	"oss.terrastruct.com/d2/d2graph"
	"oss.terrastruct.com/d2/d2layouts/d2dagrelayout"
	"oss.terrastruct.com/d2/d2lib"
	"oss.terrastruct.com/d2/d2renderers/d2svg"
	"oss.terrastruct.com/d2/d2renderers/d2svg/appendix"
	"oss.terrastruct.com/d2/d2target"
	"oss.terrastruct.com/d2/lib/color"
	"oss.terrastruct.com/d2/lib/log"
	"oss.terrastruct.com/d2/lib/textmeasure"
)

// ---- user strings --------------------------------------------------------------------------------

type c30Field struct {
	Kind string `json:"kind"`
	Sent string `json:"sentinel"`
	Val  string `json:"value"`
}

type c30Opts struct {
	Sketch   bool    `json:"sketch"`
	Theme    int64   `json:"theme"`
	Dark     int64   `json:"dark"` // -1: none
	Pad      int64   `json:"pad"`
	Scale    float64 `json:"scale"` // 0: unset
	Center   bool    `json:"center"`
	NoXML    bool    `json:"no_xml_tag"`
	Appendix bool    `json:"appendix"`
}

type c30Doc struct {
	Template string
	Src      string
	Fields   []c30Field
	Opts     c30Opts
	KF       map[string]bool
	Hostile  int
	// constructs with a recorded finding of their own
	RootPatternNone bool
	ImageNoIcon     bool
	CurrentColor    bool
	ClipPathRawID   bool
}

// c30Strict parses b the way a conforming XML processor would see it (Strict, only the predefined
// entities) and returns the distinct element and attribute names, and the error if it is not
// well-formed. A document must also have exactly one root element and nothing but space outside it.
func c30Strict(b []byte) (elems, attrs []string, nElem int, err error) {
	d := xml.NewDecoder(bytes.NewReader(b))
	d.Strict = true
	es, as := map[string]bool{}, map[string]bool{}
	depth, roots := 0, 0
	for {
		t, e := d.RawToken()
		if e == io.EOF {
			break
		}
		if e != nil {
			err = e
			break
		}
		switch t := t.(type) {
		case xml.StartElement:
			if depth == 0 {
				roots++
			}
			depth++
			nElem++
			n := t.Name.Local
			if t.Name.Space != "" {
				n = t.Name.Space + ":" + n
			}
			es[n] = true
			seen := map[string]bool{}
			for _, a := range t.Attr {
				an := a.Name.Local
				if a.Name.Space != "" {
					an = a.Name.Space + ":" + an
				}
				if seen[an] && err == nil {
					err = fmt.Errorf("duplicate attribute %q in <%s>", an, n)
				}
				seen[an] = true
				as[an] = true
			}
		case xml.EndElement:
			depth--
		case xml.CharData:
			if depth == 0 && len(bytes.TrimSpace(t)) > 0 && err == nil {
				err = fmt.Errorf("character data outside the root element")
			}
		}
	}
	if err == nil {
		// RawToken does not match start and end tags: do that with Token on a second pass
		d2 := xml.NewDecoder(bytes.NewReader(b))
		d2.Strict = true
		for {
			_, e := d2.Token()
			if e == io.EOF {
				break
			}
			if e != nil {
				err = e
				break
			}
		}
	}
	if err == nil && roots != 1 {
		err = fmt.Errorf("%d root elements", roots)
	}
	for k := range es {
		elems = append(elems, k)
	}
	for k := range as {
		attrs = append(attrs, k)
	}
	sort.Strings(elems)
	sort.Strings(attrs)
	return
}

// When the strict parse stops early the names after the error are not seen; a lenient scan of the raw
// bytes finds sentinel-bearing tags and attributes anyway (escaped text never contains a raw '<').
var c30RawElem = regexp.MustCompile(`<[/!?]?\s*[A-Za-z0-9:_-]*zqx[0-9]+[A-Za-z0-9:_-]*`)
var c30RawAttr = regexp.MustCompile(`[\s"']([A-Za-z0-9:_-]*zqx[0-9]+[A-Za-z0-9:_-]*)\s*=\s*["']`)

var (
	c30RulerOnce sync.Once
	c30Ruler     *textmeasure.Ruler
)

func c30GetRuler() *textmeasure.Ruler {
	c30RulerOnce.Do(func() { c30Ruler, _ = textmeasure.NewRuler() })
	return c30Ruler
}

type c30Result struct {
	Compiled  bool     `json:"compiled"`
	CompErr   string   `json:"compile_error,omitempty"`
	Boards    int      `json:"boards"`
	Bytes     int      `json:"bytes"`
	WF        bool     `json:"well_formed"`
	WFErr     string   `json:"xml_error,omitempty"`
	Elems     []string `json:"element_names"`
	Attrs     []string `json:"attribute_names"`
	NElem     int      `json:"elements"`
	RawHits   []string `json:"raw_sentinel_markup,omitempty"`
	Reflected int      `json:"sentinels_reflected"`
	Fail      string   `json:"-"`
}

func c30RenderOpts(o c30Opts) *d2svg.RenderOpts {
	ro := &d2svg.RenderOpts{}
	pad := o.Pad
	ro.Pad = &pad
	sk := o.Sketch
	ro.Sketch = &sk
	c := o.Center
	ro.Center = &c
	th := o.Theme
	ro.ThemeID = &th
	if o.Dark >= 0 {
		d := o.Dark
		ro.DarkThemeID = &d
	}
	if o.Scale != 0 {
		s := o.Scale
		ro.Scale = &s
	}
	nx := o.NoXML
	ro.NoXMLTag = &nx
	return ro
}

func c30AllBoards(d *d2target.Diagram) []*d2target.Diagram {
	out := []*d2target.Diagram{d}
	for _, l := range [][]*d2target.Diagram{d.Layers, d.Scenarios, d.Steps} {
		for _, c := range l {
			out = append(out, c30AllBoards(c)...)
		}
	}
	return out
}

func c30RunDoc(doc *c30Doc) (res c30Result) {
	done := make(chan struct{})
	go func() {
		defer close(done)
		defer func() {
			if e := recover(); e != nil {
				res.Fail = fmt.Sprintf("panic: %v", e)
			}
		}()
		ruler := c30GetRuler()
		ctx := log.WithDefault(context.Background())
		ctx = log.Leveled(ctx, 100)
		lr := func(engine string) (d2graph.LayoutGraph, error) { return d2dagrelayout.DefaultLayout, nil }
		ro := c30RenderOpts(doc.Opts)
		diagram, _, err := d2lib.Compile(ctx, doc.Src, &d2lib.CompileOptions{Ruler: ruler, LayoutResolver: lr}, ro)
		if err != nil {
			res.CompErr = err.Error()
			if len(res.CompErr) > 200 {
				res.CompErr = res.CompErr[:200]
			}
			return
		}
		res.Compiled = true
		res.WF = true
		es, as := map[string]bool{}, map[string]bool{}
		for _, board := range c30AllBoards(diagram) {
			if board.IsFolderOnly {
				continue
			}
			out, err := d2svg.Render(board, ro)
			if err != nil {
				res.Fail = "render error: " + err.Error()
				return
			}
			if doc.Opts.Appendix {
				out = appendix.Append(board, ro, ruler, out)
			}
			res.Boards++
			res.Bytes += len(out)
			el, at, n, perr := c30Strict(out)
			res.NElem += n
			for _, x := range el {
				es[x] = true
			}
			for _, x := range at {
				as[x] = true
			}
			if perr != nil && res.WF {
				res.WF = false
				res.WFErr = perr.Error()
			}
			for _, m := range c30RawElem.FindAll(out, 4) {
				res.RawHits = append(res.RawHits, string(m))
			}
			for _, m := range c30RawAttr.FindAllSubmatch(out, 4) {
				res.RawHits = append(res.RawHits, "@"+string(m[1]))
			}
			for _, f := range doc.Fields {
				if bytes.Contains(out, []byte(f.Sent)) {
					res.Reflected++
				}
			}
		}
		for k := range es {
			res.Elems = append(res.Elems, k)
		}
		for k := range as {
			res.Attrs = append(res.Attrs, k)
		}
		sort.Strings(res.Elems)
		sort.Strings(res.Attrs)
	}()
	select {
	case <-done:
	case <-time.After(900 * time.Second):
		res.Fail = "timeout (900 s) in compile/render"
	}
	return
}

// ---- generator -----------------------------------------------------------------------------------

type c30Builder struct {
	r      *Rng
	doc    *c30Doc
	pHost  float64 // probability that a user string is hostile
	nextID int
	// which string kinds may be hostile in this case (nil = all)
	only map[string]bool
}

var c30Benign = []string{"alpha", "Beta 2", "gamma_delta", "x", "Customer DB", "réseau", "数据", "a.b", "Q1 report", "ok-1"}

// pieces that try to leave the lexical context the string is written into
func c30Pieces(s string) []string {
	return []string{
		`"/><` + s + ` x="1"/><g class="`,
		`'/><` + s + `/><g class='`,
		`" ` + s + `="1`,
		`' ` + s + `='1`,
		`</text><` + s + `/><text>`,
		`</title><` + s + `>`,
		`<` + s + `>`,
		`<` + s + ` a="b"/>`,
		`]]><` + s + `/>`,
		`--><` + s + `/><!--`,
		`</style><` + s + `/>`,
		`<![CDATA[<` + s + `>]]>`,
		`<!-- ` + s + ` --`,
		`&` + s + `;`,
		`&#0;` + s,
		`&lt;` + s + `&amp;`,
		`<?` + s + ` ?>`,
		"\x01" + s, "\x08" + s + "\x0b", "\x1f\x7f" + s, "\t" + s + "\r",
		"￾" + s + "￿",
		"%s%d%v%!" + s + "%[1]s",
		"a\nb " + s + "\n\nc",
		"`" + s + "`\\",
		s + " 𝔘 ‮ <",
		"> " + s + " >>",
		"' \" " + s,
		s,
	}
}

func (b *c30Builder) sentinel() string {
	b.nextID++
	return fmt.Sprintf("zqx%d", b.nextID)
}

func (b *c30Builder) hostileOK(kind string) bool {
	if b.only != nil && !b.only[kind] {
		return false
	}
	return b.r.Chance(b.pHost)
}

// str returns the raw user string for a field of the given kind.
func (b *c30Builder) str(kind string) string {
	if !b.hostileOK(kind) {
		return b.r.Pick(c30Benign)
	}
	s := b.sentinel()
	ps := c30Pieces(s)
	if kind == "tooltip" {
		// every tooltip is validated as Markdown by the compiler: only balanced markup and XML characters compile
		ps = []string{`"/><` + s + ` x="1"/>`, `'/><` + s + `/>`, `" ` + s + `="1`, `' ` + s + `='1`, `<` + s + ` a="b"/>`, `&` + s + `;`,
			`]]><` + s + `/>`, `&lt;` + s + `&amp;`, "%s%d%v%!" + s + "%[1]s", "a\nb " + s + "\n\nc", s + " 𝔘 ‮", `> ` + s + ` >>`, `' " ` + s, "\t" + s + "\r"}
	}
	if kind == "mdlabel" || kind == "tooltip-positioned" {
		// rendered as Markdown (outside the property): no markup, no control characters
		ps = []string{`' " ` + s, `> ` + s + ` >>`, `&` + s + `;`, s, `&lt;` + s + `&amp;`, `" ` + s + `="1`}
	}
	n := 1 + b.r.Intn(3)
	var sb strings.Builder
	for i := 0; i < n; i++ {
		if i > 0 && b.r.Bool() {
			sb.WriteString(b.r.Pick([]string{" ", "", "x", "-"}))
		}
		sb.WriteString(ps[b.r.Intn(len(ps))])
	}
	v := sb.String()
	switch kind {
	case "id", "board", "classname-key", "column", "field":
		// keys: one line; no backtick / dollar (edge ids are pasted into a JS template literal by the dagre
		// layout, a different problem that ends in a compile error)
		v = strings.NewReplacer("\n", " ", "\r", " ", "`", "", "$", "").Replace(v)
	case "icon":
		// must survive url.Parse
		v = strings.Map(func(r rune) rune {
			if r < 0x20 || r == 0x7f || r == '%' || r == '`' || r == '\\' {
				return -1
			}
			return r
		}, v)
	}
	b.doc.Fields = append(b.doc.Fields, c30Field{kind, s, v})
	b.doc.Hostile++
	return v
}

// q writes a d2 double-quoted string.
func c30Q(s string) string {
	var sb strings.Builder
	sb.WriteByte('"')
	for _, r := range s {
		switch r {
		case '"':
			sb.WriteString(`\"`)
		case '\\':
			sb.WriteString(`\\`)
		case '\n':
			sb.WriteString(`\n`)
		case '$':
			sb.WriteString(`\$`)
		default:
			sb.WriteRune(r)
		}
	}
	sb.WriteByte('"')
	return sb.String()
}

var c30NamedColors = []string{"red", "Blue", "PapayaWhip", "transparent", "#abc", "#A0b1C2", "honeydew", "DARKKHAKI", "\u212Ahaki"}

// colour returns a colour value that the compiler accepts or (hostile) one that tries not to be one.
func (b *c30Builder) colour(kind string) string {
	if !b.hostileOK(kind) {
		if b.r.Chance(0.02) {
			b.doc.CurrentColor = true
			return b.r.Pick([]string{"currentColor", "currentcolor"})
		}
		switch b.r.Intn(4) {
		case 0:
			return b.r.Pick([]string{"linear-gradient(red, blue)", "radial-gradient(circle, #fff 10%, rgb(1,2,3) 90%)",
				"linear-gradient(45deg, hsl(10,20%,30%), navy 80%)", "linear-gradient(to right top, red, white, blue)",
				"radial-gradient(#abc)"})
		default:
			return b.r.Pick(c30NamedColors)
		}
	}
	s := b.sentinel()
	ps := c30Pieces(s)
	p := ps[b.r.Intn(len(ps))]
	nosp := strings.Join(strings.Fields(p), "")
	var v string
	switch b.r.Intn(12) {
	case 0, 9: // stop position
		v = "linear-gradient(red 10%" + nosp + ", blue)"
	case 1: // stop colour accepted through the hex fallback of the colour parser
		v = "linear-gradient(" + strings.NewReplacer("(", "", ")", "", ",", "").Replace(nosp) + "(abc), blue)"
	case 2, 10: // direction
		v = "linear-gradient(to " + strings.ReplaceAll(p, ",", "") + ", red, blue)"
	case 3, 11:
		v = "linear-gradient(" + strings.ReplaceAll(nosp, ",", "") + "deg, red, blue)"
	case 4: // parameter with three words is skipped by the parser
		v = "radial-gradient(red, a " + strings.ReplaceAll(p, ",", "") + " c, blue)"
	case 5: // the whole gradient text goes into the id hash only
		v = "radial-gradient(circle, red 5%, blue)" + ""
		v = "linear-gradient(red, blue " + "1" + nosp + ")"
	case 6: // not a colour at all: must be rejected by the compiler
		v = p
	case 7:
		v = "red" + p
	default:
		v = "radial-gradient(red " + nosp + ")"
	}
	b.doc.Fields = append(b.doc.Fields, c30Field{kind, s, v})
	b.doc.Hostile++
	return v
}

var c30Shapes = []string{"rectangle", "square", "page", "parallelogram", "document", "cylinder", "queue", "package", "step",
	"callout", "stored_data", "person", "diamond", "oval", "circle", "hexagon", "cloud", "c4-person", "text"}

func (b *c30Builder) styleLines(w *strings.Builder, indent string, conn bool, typ string) {
	r := b.r
	if r.Chance(0.35) {
		fmt.Fprintf(w, "%sstyle.fill: %s\n", indent, c30Q(b.colour("colour")))
	}
	if r.Chance(0.35) {
		fmt.Fprintf(w, "%sstyle.stroke: %s\n", indent, c30Q(b.colour("colour")))
	}
	if r.Chance(0.3) {
		fmt.Fprintf(w, "%sstyle.font-color: %s\n", indent, c30Q(b.colour("colour")))
	}
	if r.Chance(0.15) {
		fmt.Fprintf(w, "%sstyle.opacity: 0.%d\n", indent, 1+r.Intn(9))
	}
	if r.Chance(0.15) {
		fmt.Fprintf(w, "%sstyle.stroke-dash: %d\n", indent, r.Intn(6))
	}
	if r.Chance(0.1) {
		fmt.Fprintf(w, "%sstyle.animated: true\n", indent)
	}
	if r.Chance(0.1) {
		fmt.Fprintf(w, "%sstyle.font: mono\n", indent)
	}
	if r.Chance(0.1) {
		fmt.Fprintf(w, "%sstyle.text-transform: %s\n", indent, r.Pick([]string{"uppercase", "lowercase", "capitalize"}))
	}
	if r.Chance(0.1) {
		fmt.Fprintf(w, "%sstyle.italic: true\n%sstyle.bold: true\n%sstyle.underline: true\n", indent, indent, indent)
	}
	if !conn {
		if r.Chance(0.15) {
			fmt.Fprintf(w, "%sstyle.shadow: true\n", indent)
		}
		if r.Chance(0.1) {
			fmt.Fprintf(w, "%sstyle.multiple: true\n", indent)
		}
		if r.Chance(0.2) && (typ == "rectangle" || typ == "square" || typ == "circle" || typ == "oval") {
			fmt.Fprintf(w, "%sstyle.double-border: true\n", indent)
		}
		if r.Chance(0.15) {
			fmt.Fprintf(w, "%sstyle.fill-pattern: %s\n", indent, r.Pick([]string{"dots", "lines", "grain", "paper"}))
		}
		if typ != "" && r.Chance(0.1) {
			fmt.Fprintf(w, "%sstyle.border-radius: %d\n", indent, r.Intn(30))
		}
	}
}

func (b *c30Builder) classValue() string {
	if b.r.Chance(0.3) {
		return "[" + c30Q(b.str("classname")) + "; " + c30Q(b.str("classname")) + "]"
	}
	return c30Q(b.str("classname"))
}

func (b *c30Builder) shape(w *strings.Builder, id string, typ string) {
	r := b.r
	lk := "label"
	if typ == "text" {
		lk = "mdlabel"
	}
	fmt.Fprintf(w, "%s: %s {\n", c30Q(id), c30Q(b.str(lk)))
	fmt.Fprintf(w, "  shape: %s\n", typ)
	if typ == "image" {
		fmt.Fprintf(w, "  icon: %s\n", c30Q("https://icons.example.com/"+strings.Join(strings.Fields(b.str("icon")), "+")+".png"))
	}
	if typ == "rectangle" && r.Chance(0.2) {
		fmt.Fprintf(w, "  style.3d: true\n")
	}
	if r.Chance(0.45) {
		fmt.Fprintf(w, "  tooltip: %s\n", c30Q(b.str("tooltip")))
	}
	if r.Chance(0.35) {
		if r.Chance(0.3) {
			fmt.Fprintf(w, "  link: %s\n", c30Q("https://example.com/?q="+b.str("link")))
		} else {
			fmt.Fprintf(w, "  link: %s\n", c30Q(b.str("link")))
		}
	}
	if typ != "image" && r.Chance(0.25) {
		fmt.Fprintf(w, "  icon: %s\n", c30Q("https://icons.example.com/"+strings.Join(strings.Fields(b.str("icon")), "+")+".svg"))
		if r.Chance(0.3) {
			fmt.Fprintf(w, "  icon.near: %s\n", r.Pick([]string{"top-left", "outside-top-right", "bottom-center", "center-left"}))
		}
	}
	if r.Chance(0.4) {
		fmt.Fprintf(w, "  class: %s\n", b.classValue())
	}
	if r.Chance(0.2) {
		fmt.Fprintf(w, "  label.near: %s\n", r.Pick([]string{"top-left", "outside-top-center", "bottom-right", "outside-bottom-left", "border-top-center"}))
	}
	b.styleLines(w, "  ", false, typ)
	w.WriteString("}\n")
}

func (b *c30Builder) conn(w *strings.Builder, a, c string) {
	r := b.r
	arrow := r.Pick([]string{"->", "<-", "<->", "--"})
	fmt.Fprintf(w, "%s %s %s: %s {\n", c30Q(a), arrow, c30Q(c), c30Q(b.str("connlabel")))
	if r.Chance(0.4) {
		fmt.Fprintf(w, "  source-arrowhead: %s {shape: %s}\n", c30Q(b.str("arrowlabel")), r.Pick([]string{"diamond", "circle", "cf-many", "arrow", "box", "cross"}))
	}
	if r.Chance(0.4) {
		fmt.Fprintf(w, "  target-arrowhead.label: %s\n", c30Q(b.str("arrowlabel")))
	}
	if r.Chance(0.4) {
		fmt.Fprintf(w, "  class: %s\n", b.classValue())
	}
	if r.Chance(0.2) {
		fmt.Fprintf(w, "  link: %s\n", c30Q(b.str("link")))
	}
	if r.Chance(0.2) {
		fmt.Fprintf(w, "  tooltip: %s\n", c30Q(b.str("tooltip")))
	}
	if r.Chance(0.15) {
		fmt.Fprintf(w, "  icon: %s\n", c30Q("https://icons.example.com/"+strings.Join(strings.Fields(b.str("icon")), "+")))
	}
	b.styleLines(w, "  ", true, "")
	w.WriteString("}\n")
}

func (b *c30Builder) id() string { return b.str("id") }

func c30UniqueIDs(ids []string) []string {
	seen := map[string]bool{}
	for i, s := range ids {
		for seen[strings.ToLower(s)] || s == "" {
			s += "_"
		}
		seen[strings.ToLower(s)] = true
		ids[i] = s
	}
	return ids
}

var c30Templates = []string{"basic", "basic", "basic", "container", "class", "sql", "code", "sequence", "grid", "layers", "legend", "root", "classes", "tooltipnear"}

func (b *c30Builder) build(template string) {
	r := b.r
	var w strings.Builder
	switch template {
	case "basic":
		n := 2 + r.Intn(2)
		ids := make([]string, n)
		for i := range ids {
			ids[i] = b.id()
		}
		ids = c30UniqueIDs(ids)
		for _, id := range ids {
			b.shape(&w, id, r.Pick(c30Shapes))
		}
		for i := 0; i+1 < n; i++ {
			b.conn(&w, ids[i], ids[i+1])
		}
	case "container":
		ids := c30UniqueIDs([]string{b.id(), b.id(), b.id()})
		fmt.Fprintf(&w, "%s: %s {\n", c30Q(ids[0]), c30Q(b.str("label")))
		var in strings.Builder
		b.shape(&in, ids[1], r.Pick(c30Shapes))
		b.shape(&in, ids[2], r.Pick(c30Shapes))
		b.conn(&in, ids[1], ids[2])
		w.WriteString(in.String())
		if r.Chance(0.5) {
			fmt.Fprintf(&w, "  class: %s\n", b.classValue())
		}
		b.styleLines(&w, "  ", false, "")
		w.WriteString("}\n")
	case "class":
		cid := b.id()
		fmt.Fprintf(&w, "%s: %s {\n  shape: class\n", c30Q(cid), c30Q(b.str("label")))
		if r.Chance(0.3) {
			fmt.Fprintf(&w, "  style.border-radius: %d\n", 1+r.Intn(12))
			b.doc.ClipPathRawID = c30AttrBreaks(c30ShapeID(cid))
		}
		for i := 0; i < 1+r.Intn(3); i++ {
			fmt.Fprintf(&w, "  %s: %s\n", c30Q(r.Pick([]string{"+", "-", "#", ""})+b.str("field")+fmt.Sprint(i)), c30Q(b.str("fieldtype")))
		}
		fmt.Fprintf(&w, "  %s: %s\n", c30Q(b.str("field")+"(a int)"), c30Q(b.str("fieldtype")))
		if r.Chance(0.5) {
			fmt.Fprintf(&w, "  tooltip: %s\n", c30Q(b.str("tooltip")))
		}
		b.styleLines(&w, "  ", false, "")
		w.WriteString("}\n")
	case "sql":
		cid := b.id()
		fmt.Fprintf(&w, "%s: %s {\n  shape: sql_table\n", c30Q(cid), c30Q(b.str("label")))
		if r.Chance(0.3) {
			fmt.Fprintf(&w, "  style.border-radius: %d\n", 1+r.Intn(12))
			b.doc.ClipPathRawID = c30AttrBreaks(c30ShapeID(cid))
		}
		for i := 0; i < 1+r.Intn(3); i++ {
			fmt.Fprintf(&w, "  %s: %s {constraint: %s}\n", c30Q(b.str("column")+fmt.Sprint(i)), c30Q(b.str("fieldtype")),
				r.Pick([]string{"primary_key", "foreign_key", "unique", c30Q(b.str("constraint")), "[primary_key; " + c30Q(b.str("constraint")) + "]"}))
		}
		if r.Chance(0.5) {
			fmt.Fprintf(&w, "  link: %s\n", c30Q(b.str("link")))
		}
		b.styleLines(&w, "  ", false, "")
		w.WriteString("}\n")
	case "code":
		code := strings.ReplaceAll(b.str("code"), "|", "/")
		lang := r.Pick([]string{"go", "js", "txt", "xml", "python", "sh"})
		fmt.Fprintf(&w, "%s: ||||%s\n%s\nfunc x() {}\n||||\n", c30Q(b.id()), lang, code)
		fmt.Fprintf(&w, "plain: %s {shape: code}\n", c30Q(b.str("code")))
	case "sequence":
		ids := c30UniqueIDs([]string{b.id(), b.id()})
		w.WriteString("shape: sequence_diagram\n")
		fmt.Fprintf(&w, "%s: %s\n%s: %s {shape: person}\n", c30Q(ids[0]), c30Q(b.str("label")), c30Q(ids[1]), c30Q(b.str("label")))
		fmt.Fprintf(&w, "%s -> %s: %s\n", c30Q(ids[0]), c30Q(ids[1]), c30Q(b.str("connlabel")))
		fmt.Fprintf(&w, "%s.%s: %s\n", c30Q(ids[0]), c30Q(b.id()), c30Q(b.str("label")))
		fmt.Fprintf(&w, "%s.%s -> %s: %s {class: %s}\n", c30Q(ids[1]), c30Q(b.id()), c30Q(ids[0]), c30Q(b.str("connlabel")), b.classValue())
		fmt.Fprintf(&w, "%s: {\n  %s -> %s: %s\n}\n", c30Q(b.str("id")), c30Q(ids[0]), c30Q(ids[1]), c30Q(b.str("connlabel")))
		fmt.Fprintf(&w, "%s.%s: %s {tooltip: %s}\n", c30Q(ids[0]), c30Q(b.id()), c30Q(b.str("label")), c30Q(b.str("tooltip")))
	case "grid":
		fmt.Fprintf(&w, "%s: %s {\n  grid-rows: 2\n", c30Q(b.id()), c30Q(b.str("label")))
		ids := c30UniqueIDs([]string{b.id(), b.id(), b.id()})
		for _, id := range ids {
			fmt.Fprintf(&w, "  %s: %s {class: %s}\n", c30Q(id), c30Q(b.str("label")), b.classValue())
		}
		w.WriteString("}\n")
	case "layers":
		name := b.str("board")
		name = strings.NewReplacer(".", "_").Replace(name)
		ids := c30UniqueIDs([]string{b.id(), b.id()})
		fmt.Fprintf(&w, "%s: %s {link: layers.%s}\n", c30Q(ids[0]), c30Q(b.str("label")), c30Q(name))
		fmt.Fprintf(&w, "layers: {\n  %s: {\n", c30Q(name))
		var in strings.Builder
		b.shape(&in, ids[1], r.Pick(c30Shapes))
		fmt.Fprintf(&in, "back: {link: _}\n")
		w.WriteString(in.String())
		w.WriteString("  }\n}\n")
	case "legend":
		fmt.Fprintf(&w, "vars: {\n  d2-legend: %s {\n", c30Q(b.str("legendlabel")))
		fmt.Fprintf(&w, "    a: %s {shape: %s}\n", c30Q(b.str("legendlabel")), r.Pick([]string{"rectangle", "cylinder", "person", "c4-person"}))
		fmt.Fprintf(&w, "    b: {label: %s; style.fill: %s}\n", c30Q(b.str("legendlabel")), c30Q(b.colour("colour")))
		fmt.Fprintf(&w, "    a -> b: %s {style.stroke: %s}\n", c30Q(b.str("legendlabel")), c30Q(b.colour("colour")))
		w.WriteString("  }\n}\n")
		ids := c30UniqueIDs([]string{b.id(), b.id()})
		b.shape(&w, ids[0], "rectangle")
		b.shape(&w, ids[1], r.Pick(c30Shapes))
		b.conn(&w, ids[0], ids[1])
	case "root":
		pat := r.Pick([]string{"dots", "lines", "paper", "grain", "dots", "lines", "paper", "grain", "none"})
		b.doc.RootPatternNone = pat == "none"
		fmt.Fprintf(&w, "style: {fill: %s; stroke: %s; stroke-width: %d; fill-pattern: %s; double-border: %v}\n",
			c30Q(b.colour("colour")), c30Q(b.colour("colour")), r.Intn(6), pat, r.Bool())
		fmt.Fprintf(&w, "title: %s {near: top-center; shape: text; style.font-size: 28}\n", c30Q(b.str("mdlabel")))
		ids := c30UniqueIDs([]string{b.id(), b.id()})
		b.shape(&w, ids[0], r.Pick(c30Shapes))
		b.shape(&w, ids[1], "image")
		b.conn(&w, ids[0], ids[1])
	case "classes":
		cn := b.str("classname-key")
		fmt.Fprintf(&w, "classes: {\n  %s: {\n    label: %s\n    style.fill: %s\n    tooltip: %s\n  }\n}\n", c30Q(cn), c30Q(b.str("label")), c30Q(b.colour("colour")), c30Q(b.str("tooltip")))
		ids := c30UniqueIDs([]string{b.id(), b.id()})
		fmt.Fprintf(&w, "%s.class: %s\n%s.class: %s\n", c30Q(ids[0]), c30Q(cn), c30Q(ids[1]), c30Q(cn))
		fmt.Fprintf(&w, "%s -> %s: {class: %s}\n", c30Q(ids[0]), c30Q(ids[1]), c30Q(cn))
	case "tooltipnear":
		ids := c30UniqueIDs([]string{b.id(), b.id()})
		for _, id := range ids {
			fmt.Fprintf(&w, "%s: %s {\n  tooltip: %s\n  tooltip.near: %s\n}\n", c30Q(id), c30Q(b.str("label")), c30Q(b.str("tooltip-positioned")),
				r.Pick([]string{"top-center", "bottom-left", "center-right", "top-right"}))
		}
	}
	b.doc.Template = template
	b.doc.Src = w.String()
}

// ---- known-finding signatures: narrow decidable predicates on the INPUT ----------------------------

// c30AttrBreaks: written between double quotes as an attribute value without escaping, does v change the
// element (not exactly one <a> with the single attribute b) or make it ill-formed?
func c30AttrBreaks(v string) bool {
	d := xml.NewDecoder(strings.NewReader(`<a b="` + v + `"/>`))
	d.Strict = true
	n := 0
	for {
		t, err := d.Token()
		if err == io.EOF {
			break
		}
		if err != nil {
			return true
		}
		switch t := t.(type) {
		case xml.StartElement:
			n++
			if t.Name.Local != "a" || len(t.Attr) != 1 || t.Attr[0].Name.Local != "b" {
				return true
			}
		case xml.CharData, xml.Comment, xml.ProcInst, xml.Directive:
			return true
		}
	}
	return n != 1
}

// c30HasNonXMLChar: a rune outside the Char production of XML 1.0 (C0 controls other than TAB/LF/CR, U+FFFE,
// U+FFFF; Go decodes invalid UTF-8 to U+FFFD, which is a Char).
func c30HasNonXMLChar(s string) bool {
	for _, r := range s {
		if !(r == 0x9 || r == 0xA || r == 0xD || (r >= 0x20 && r <= 0xD7FF) || (r >= 0xE000 && r <= 0xFFFD) || (r >= 0x10000 && r <= 0x10FFFF)) {
			return true
		}
	}
	return false
}

// c30TextBreaks: written as element content without escaping, is v anything but character data?
func c30TextBreaks(v string) bool {
	d := xml.NewDecoder(strings.NewReader(`<a>` + v + `</a>`))
	d.Strict = true
	depth := 0
	for {
		t, err := d.Token()
		if err == io.EOF {
			break
		}
		if err != nil {
			return true
		}
		switch t.(type) {
		case xml.StartElement:
			depth++
			if depth > 1 {
				return true
			}
		case xml.Comment, xml.ProcInst, xml.Directive:
			return true
		}
	}
	return false
}

// c30ShapeID: the id d2 gives a root-level object with this key (the key as the formatter prints it).
func c30ShapeID(key string) string {
	return d2format.Format(d2ast.RawString(key, true))
}

func c30GradientStopKF(col string) bool {
	if !color.IsGradient(col) {
		return false
	}
	g, err := color.ParseGradient(col)
	if err != nil {
		return false
	}
	for _, st := range g.ColorStops {
		if c30AttrBreaks(st.Color) || c30AttrBreaks(st.Position) {
			return true
		}
	}
	return false
}

func (d *c30Doc) computeKF() {
	d.KF = map[string]bool{}
	for _, f := range d.Fields {
		switch f.Kind {
		case "colour":
			if c30GradientStopKF(f.Val) {
				d.KF["C30-gradient-stop-unescaped"] = true
			}
		case "classname", "classname-key":
			if c30AttrBreaks(f.Val) {
				d.KF["C30-class-attribute-unescaped"] = true
			}
		case "constraint":
			if c30TextBreaks(f.Val) {
				d.KF["C30-sql-constraint-unescaped"] = true
			}
		case "code", "legendlabel":
			if c30HasNonXMLChar(f.Val) {
				d.KF["C30-nonxml-char-in-code-or-legend"] = true
			}
		}
	}
	if d.RootPatternNone {
		d.KF["C30-root-fill-pattern-none"] = true
	}
	if d.CurrentColor {
		d.KF["C30-currentcolor-render-error"] = true
	}
	if d.ClipPathRawID {
		d.KF["C30-clip-path-raw-id"] = true
	}
	if d.ImageNoIcon {
		d.KF["C30-image-without-icon-panic"] = true
	}
}

func c30GenDoc(r *Rng, idx int) *c30Doc {
	doc := &c30Doc{}
	b := &c30Builder{r: r, doc: doc}
	switch r.Intn(4) {
	case 0:
		b.pHost = 0.9
	case 1:
		b.pHost = 0.5
	default:
		b.pHost = 0.25
	}
	// half of the cases keep class names and colours benign, so that failures elsewhere are never hidden
	// behind the two recorded findings
	if r.Bool() {
		b.only = map[string]bool{}
		for _, k := range []string{"id", "label", "tooltip", "link", "icon", "connlabel", "arrowlabel", "field", "fieldtype", "column",
			"constraint", "code", "board", "legendlabel", "tooltip-positioned", "mdlabel"} {
			b.only[k] = true
		}
	}
	b.build(c30Templates[r.Intn(len(c30Templates))])
	o := &doc.Opts
	o.Sketch = r.Chance(0.25)
	o.Theme = []int64{0, 0, 1, 3, 4, 5, 6, 7, 8, 100, 101, 102, 103, 104, 105, 200, 201, 300, 301, 302, 303}[r.Intn(21)]
	o.Dark = -1
	if r.Chance(0.3) {
		o.Dark = []int64{200, 201}[r.Intn(2)]
	}
	o.Pad = []int64{0, 100, 100, 7, 333}[r.Intn(5)]
	if r.Chance(0.3) {
		o.Scale = []float64{0.5, 1, 2.25}[r.Intn(3)]
	}
	o.Center = r.Chance(0.3)
	o.NoXML = r.Chance(0.2)
	o.Appendix = r.Chance(0.35)
	doc.computeKF()
	return doc
}

func c30DocCase(doc *c30Doc, class string) Case {
	res := c30RunDoc(doc)
	var sents []string
	for _, f := range doc.Fields {
		sents = append(sents, coqRunes(f.Sent))
	}
	var en, an []string
	for _, x := range res.Elems {
		en = append(en, coqRunes(x))
	}
	for _, x := range res.Attrs {
		an = append(an, coqRunes(x))
	}
	c := Case{Class: class}
	c.Coq = fmt.Sprintf("CDoc %s %s %s %s %s", coqBool(res.Compiled), coqBool(res.WF), coqList(en), coqList(an), coqList(sents))
	c.Input = map[string]any{"template": doc.Template, "d2": doc.Src, "opts": doc.Opts, "user_strings": doc.Fields}
	c.Impl = res
	c.Nontrivial = res.Compiled && doc.Hostile > 0 && res.Reflected > 0
	c.Key = doc.Src + fmt.Sprint(doc.Opts)
	for k := range doc.KF {
		c.KF = append(c.KF, k)
	}
	sort.Strings(c.KF)
	if res.Fail != "" {
		c.ImplFail = append(c.ImplFail, res.Fail)
	}
	return c
}
