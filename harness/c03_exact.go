package main

// Exactness of the C03 known-finding signatures.  A signature says which inputs are known to misbehave; this
// file says HOW: the difference between the first and the second formatting pass (or the re-parse errors)
// must be exactly the recorded misbehaviour, hunk by hunk.  An input of a known class that misbehaves in any
// other way keeps no tag and is reported as a violation.
//
//   exact (every hunk / error must have the recorded shape):
//     C03-block-string-blank-line, C03-block-comment-blank-line   white-space-only lines that GROW by the block's indentation
//     C03-array-range-end          one line "[a; b]" re-laid on several lines, nothing but white space and ';' changes
//     C03-one-line-file            one line "a; b" split at its top-level "; "
//     C03-import-absolute-path     "@/" becomes "@//"
//     C03-key-trailing-dash        "-:" becomes "-::" (or the re-parse fails at that key)
//     C03-inline-comment-merge     an inline comment moves to its own line, nothing else changes
//     C03-board-block-layout       sub-cases b, e: one blank line before a board block appears / a leading blank line disappears
//     C03-block-string-mixed-quote, C03-unquoted-leading-quote-char   the recorded parse error
//   broad (any difference is accepted when one of these matches; documented blind spots):
//     C03-board-block-layout sub-cases a, B, c, d, f; C03-raw-text-not-reparsable, C03-escaped-trailing-space,
//     C03-escape-after-substitution

import (
	"strings"
)

type c03Hunk struct {
	ai   int // index of the first line of a in f1
	a, b []string
}

// c03DiffLines: hunks of a line diff (longest common subsequence) between two texts
func c03DiffLines(f1, f2 string) []c03Hunk {
	A, B := strings.Split(f1, "\n"), strings.Split(f2, "\n")
	n, m := len(A), len(B)
	if n > 1500 || m > 1500 {
		return []c03Hunk{{ai: 0, a: A, b: B}}
	}
	L := make([][]int32, n+1)
	for i := range L {
		L[i] = make([]int32, m+1)
	}
	for i := n - 1; i >= 0; i-- {
		for j := m - 1; j >= 0; j-- {
			if A[i] == B[j] {
				L[i][j] = L[i+1][j+1] + 1
			} else if L[i+1][j] >= L[i][j+1] {
				L[i][j] = L[i+1][j]
			} else {
				L[i][j] = L[i][j+1]
			}
		}
	}
	var hunks []c03Hunk
	var cur *c03Hunk
	i, j := 0, 0
	flush := func() {
		if cur != nil {
			hunks = append(hunks, *cur)
			cur = nil
		}
	}
	for i < n || j < m {
		if i < n && j < m && A[i] == B[j] {
			flush()
			i++
			j++
			continue
		}
		if cur == nil {
			cur = &c03Hunk{ai: i}
		}
		if j >= m || (i < n && L[i+1][j] >= L[i][j+1]) {
			cur.a = append(cur.a, A[i])
			i++
		} else {
			cur.b = append(cur.b, B[j])
			j++
		}
	}
	flush()
	return hunks
}

func c03Blank(l string) bool { return strings.TrimSpace(l) == "" }

func c03AllBlank(ls []string) bool {
	for _, l := range ls {
		if !c03Blank(l) {
			return false
		}
	}
	return true
}

func c03Strip(ls []string, cut string) string {
	return strings.Map(func(r rune) rune {
		if strings.ContainsRune(cut, r) {
			return -1
		}
		return r
	}, strings.Join(ls, "\n"))
}

func c03Leading(l string) int {
	n := 0
	for n < len(l) && l[n] == ' ' {
		n++
	}
	return n
}

// indentation with which the lines of the block that contains line ai of f1 are written: the leading
// spaces of the block's closing line (+2 for a block string, whose content is indented once more)
func c03BlockIndent(lines []string, ai int, comment bool) int {
	for k := ai; k < len(lines); k++ {
		t := strings.TrimSpace(lines[k])
		if comment && t == `"""` {
			return c03Leading(lines[k])
		}
		if !comment && t != "" && strings.HasSuffix(t, "|") && !strings.Contains(t, ": |") && !strings.HasPrefix(t, "|") {
			return c03Leading(lines[k]) + 2
		}
		if !comment && (t == "|" || (strings.HasSuffix(t, "|") && len(t) <= 4 && !strings.ContainsAny(t, ":"))) {
			return c03Leading(lines[k]) + 2
		}
	}
	return -1
}

var c03BoardPrefix = []string{"layers", "scenarios", "steps"}

func c03BoardLine(l string) bool {
	t := strings.TrimSpace(l)
	for _, p := range c03BoardPrefix {
		if strings.HasPrefix(t, p) {
			return true
		}
	}
	return false
}

var c03BroadIDs = map[string]bool{
	"C03-raw-text-not-reparsable": true, "C03-escaped-trailing-space": true, "C03-escape-after-substitution": true,
}

var c03ErrorOf = map[string][]string{
	"C03-block-string-mixed-quote":    {"block string must be terminated with", "maps must be terminated with }"},
	"C03-unquoted-leading-quote-char": {"must be terminated with"},
	"C03-key-trailing-dash":           {"unexpected text after", "missing value after colon", "map value without key", "maps must be terminated"},
}

// c03Confirm: the candidates whose recorded misbehaviour accounts for what was observed; nil when some part of
// the observed misbehaviour is not accounted for.
func c03Confirm(cands []string, x c03Run) []string {
	has := map[string]bool{}
	for _, c := range cands {
		has[c] = true
	}
	boardCases := ""
	if has["C03-board-block-layout"] {
		boardCases = c03BoardCases(x.m)
	}
	for _, c := range cands {
		if c03BroadIDs[c] {
			return cands
		}
	}
	if strings.ContainsAny(boardCases, "aBcdf") {
		return cands
	}
	used := map[string]bool{}
	if x.nerr1 > 0 {
		for _, msg := range c03ParseErrs(x.f1) {
			ok := false
			for id, subs := range c03ErrorOf {
				if !has[id] {
					continue
				}
				for _, sub := range subs {
					if strings.Contains(msg, sub) {
						ok = true
						used[id] = true
					}
				}
			}
			if !ok {
				return nil
			}
		}
		return keysOf(used)
	}
	lines1 := strings.Split(x.f1, "\n")
	for _, h := range c03DiffLines(x.f1, x.f2) {
		id := ""
		switch {
		case (has["C03-block-string-blank-line"] || has["C03-block-comment-blank-line"]) && c03GrownBlank(h, lines1, has):
			if has["C03-block-string-blank-line"] {
				id = "C03-block-string-blank-line"
			} else {
				id = "C03-block-comment-blank-line"
			}
		case has["C03-one-line-file"] && len(h.a) == 1 && len(h.b) >= 2 && !c03Blank(h.a[0]) && c03JoinNonBlank(h.b, "; ") == h.a[0]:
			id = "C03-one-line-file"
		case has["C03-array-range-end"] && len(h.a) == 1 && len(h.b) >= 3 && strings.Contains(h.a[0], "[") &&
			strings.HasPrefix(strings.TrimSpace(h.b[len(h.b)-1]), "]") && c03Strip(h.a, " \n;\t") == c03Strip(h.b, " \n;\t"):
			id = "C03-array-range-end"
		case has["C03-import-absolute-path"] && len(h.a) == len(h.b) && c03EachPair(h, func(a, b string) bool { return strings.Replace(a, "@/", "@//", 1) == b }):
			id = "C03-import-absolute-path"
		case has["C03-key-trailing-dash"] && len(h.a) == len(h.b) && c03EachPair(h, func(a, b string) bool { return strings.Replace(a, "-:", "-::", 1) == b }):
			id = "C03-key-trailing-dash"
		case has["C03-inline-comment-merge"] && len(h.a) >= 1 && strings.Contains(strings.Join(h.a, "\n"), "#") && c03Strip(h.a, " \n\t") == c03Strip(h.b, " \n\t"):
			id = "C03-inline-comment-merge"
		case has["C03-board-block-layout"] && c03BoardBlankHunk(h, lines1):
			id = "C03-board-block-layout"
		}
		if id == "" {
			return nil
		}
		used[id] = true
	}
	return keysOf(used)
}

func keysOf(m map[string]bool) []string {
	var out []string
	for k := range m {
		out = append(out, k)
	}
	sortStrings(out)
	return out
}

func c03EachPair(h c03Hunk, f func(a, b string) bool) bool {
	for i := range h.a {
		if !f(h.a[i], h.b[i]) {
			return false
		}
	}
	return len(h.a) > 0
}

func c03JoinNonBlank(ls []string, sep string) string {
	var xs []string
	for _, l := range ls {
		if !c03Blank(l) {
			xs = append(xs, l)
		}
	}
	return strings.Join(xs, sep)
}

// white-space-only lines, each longer in the second pass by exactly the indentation of its block
func c03GrownBlank(h c03Hunk, lines1 []string, has map[string]bool) bool {
	if len(h.a) != len(h.b) || len(h.a) == 0 {
		return false
	}
	for i := range h.a {
		a, b := h.a[i], h.b[i]
		if !c03Blank(a) || !c03Blank(b) || len(b) <= len(a) {
			return false
		}
		k := len(b) - len(a)
		okS := has["C03-block-string-blank-line"] && k == c03BlockIndent(lines1, h.ai+i, false)
		okC := has["C03-block-comment-blank-line"] && k == c03BlockIndent(lines1, h.ai+i, true)
		if !(okS || okC) {
			return false
		}
		if b != strings.Repeat(" ", k)+a {
			return false
		}
	}
	return true
}

// sub-cases b and e of the board finding: a blank line appears directly before a board block, or the blank
// line at the very beginning of the file disappears
func c03BoardBlankHunk(h c03Hunk, lines1 []string) bool {
	if len(h.a) == 0 && len(h.b) == 1 && h.b[0] == "" {
		return h.ai < len(lines1) && c03BoardLine(lines1[h.ai])
	}
	if len(h.b) == 0 && len(h.a) >= 1 && c03AllBlank(h.a) {
		return h.ai == 0 || (h.ai > 0 && strings.HasSuffix(strings.TrimSpace(lines1[h.ai-1]), "{"))
	}
	return false
}
