package main

import (
	"fmt"
	"math/big"
	"strings"
	"unicode"

	"oss.terrastruct.com/d2/d2ast"
	"oss.terrastruct.com/d2/d2compiler"
	"oss.terrastruct.com/d2/d2format"
	"oss.terrastruct.com/d2/d2oracle"
	"oss.terrastruct.com/d2/d2parser"
)

func init() {
	register(&Prop{ID: "C05", Module: "V.C05.Check", Gen: c05Gen, Quick: 1600, Thorough: 30000, Shard: 250})
}

var c05Specials = []rune{'#', ';', '\n', '\\', '{', '}', '[', ']', '\'', '"', '|', ':', '.', '-', '<', '>', '*', '&', '(', ')', '@', '$', ' ', '\t', '-', '-'}
var c05Words = []string{"null", "NULL", "Null", "true", "True", "tRue", "false", "FALSE", "suspend", "Suspend", "unsuspend", "UNSUSPEND",
	"shape", "Shape", "label", "Label", "LABEL", "style", "Style", "near", "Near", "icon", "width", "Link", "linK", "ſuspend", "falſe", "lİnk",
	"class", "Classes", "vars", "layers", "Steps", "opacity", "Opacity", "fill", "3D", "3d", "top", "Left",
	"1", "-1", "1.5", "1e3", "1/2", "0x10", ".5", "1_000", "+1", "Inf", "NaN", "a", "ab", "x y", "héllo", "日本", "😀", "a-b", "a--b", "a->b", "-", "--", "a-", "-a", "...@x", "@x", "_"}
var c05Spaces = []rune{' ', '\t', '\r', '\v', '\f', 0x85, 0xA0, 0x1680, 0x2000, 0x200A, 0x2028, 0x2029, 0x202F, 0x205F, 0x3000, 0x200B, 0xFEFF}

func c05RandStr(r *Rng) (string, string) {
	switch r.Intn(10) {
	case 0:
		return r.Pick(c05Words), "word"
	case 1: // word with one mutation
		w := []rune(r.Pick(c05Words))
		if len(w) > 0 {
			i := r.Intn(len(w))
			switch r.Intn(4) {
			case 0:
				w[i] = unicode.ToUpper(w[i])
			case 1:
				w = append(w[:i], append([]rune{c05Specials[r.Intn(len(c05Specials))]}, w[i:]...)...)
			case 2:
				w = append(w, c05Spaces[r.Intn(len(c05Spaces))])
			default:
				w = append([]rune{c05Spaces[r.Intn(len(c05Spaces))]}, w...)
			}
		}
		return string(w), "word-mutated"
	case 2, 3, 4: // specials-heavy short strings
		n := r.Range(1, 6)
		var b []rune
		for i := 0; i < n; i++ {
			if r.Chance(0.6) {
				b = append(b, c05Specials[r.Intn(len(c05Specials))])
			} else {
				b = append(b, rune("abxyzAZ09_"[r.Intn(10)]))
			}
		}
		return string(b), "specials"
	case 5: // unicode
		n := r.Range(1, 5)
		var b []rune
		pool := []rune{'é', 'ß', 'İ', 'ı', 'K', 'ſ', '日', '😀', 0x10FFFF, 0x7F, 0x01, 0xFFFD, 'a', '-', '"', '\''}
		for i := 0; i < n; i++ {
			b = append(b, pool[r.Intn(len(pool))])
		}
		return string(b), "unicode"
	case 6: // whitespace at the ends / inside
		core, _ := c05RandStr(r.Fork())
		sp := string(c05Spaces[r.Intn(len(c05Spaces))])
		switch r.Intn(3) {
		case 0:
			return sp + core, "space"
		case 1:
			return core + sp, "space"
		default:
			return core + sp + core, "space"
		}
	case 7: // dashes
		n := r.Range(1, 6)
		var b []rune
		for i := 0; i < n; i++ {
			b = append(b, []rune{'-', '-', 'a', '>', '*', ' ', 'b', '.'}[r.Intn(8)])
		}
		return string(b), "dashes"
	case 8: // numbers-like
		n := r.Range(1, 5)
		var b []rune
		for i := 0; i < n; i++ {
			b = append(b, []rune("0123456789.-+e/_x")[r.Intn(17)])
		}
		return string(b), "numeric"
	default:
		n := r.Range(0, 12)
		var b []rune
		for i := 0; i < n; i++ {
			b = append(b, rune(r.Range(32, 126)))
		}
		return string(b), "ascii"
	}
}

func c05StrList(xs []string) string {
	var ys []string
	for _, x := range xs {
		ys = append(ys, coqRunes(x))
	}
	return coqList(ys)
}

func c05KeyPath(k *d2ast.KeyPath) []string {
	var out []string
	for _, sb := range k.Path {
		out = append(out, sb.Unbox().ScalarString())
	}
	return out
}

func c05ParseKey(text string) (path []string, ok bool, fail string) {
	defer func() {
		if e := recover(); e != nil {
			fail = fmt.Sprintf("ParseKey panic on %q: %v", text, e)
		}
	}()
	k, err := d2parser.ParseKey(text)
	if err != nil {
		return nil, false, ""
	}
	return c05KeyPath(k), true, ""
}

func c05IVal(v d2ast.Value) (coq string, desc string) {
	switch v := v.(type) {
	case *d2ast.Null:
		return "INull", "null"
	case *d2ast.Suspension:
		return "(ISusp " + coqBool(v.Value) + ")", "suspension"
	case *d2ast.Boolean:
		return "(IBool " + coqBool(v.Value) + ")", "boolean"
	case *d2ast.Number:
		return "(INum " + coqRunes(v.Raw) + ")", "number:" + v.Raw
	case *d2ast.UnquotedString:
		if len(v.Value) != 1 || v.Value[0].String == nil {
			return "IOther", "unquoted-with-substitution"
		}
		return "(IStr 0 " + coqRunes(v.ScalarString()) + ")", "unquoted:" + v.ScalarString()
	case *d2ast.DoubleQuotedString:
		for _, b := range v.Value {
			if b.Substitution != nil {
				return "IOther", "dq-with-substitution"
			}
		}
		return "(IStr 1 " + coqRunes(v.ScalarString()) + ")", "double:" + v.ScalarString()
	case *d2ast.SingleQuotedString:
		return "(IStr 2 " + coqRunes(v.ScalarString()) + ")", "single:" + v.ScalarString()
	case *d2ast.BlockString:
		return "(IStr 3 " + coqRunes(v.ScalarString()) + ")", "block"
	default:
		return "IOther", fmt.Sprintf("%T", v)
	}
}

func c05ParseValue(text string) (coq, desc, fail string) {
	defer func() {
		if e := recover(); e != nil {
			fail = fmt.Sprintf("ParseValue panic on %q: %v", text, e)
			coq, desc = "IErr", "panic"
		}
	}()
	v, err := d2parser.ParseValue(text)
	if err != nil {
		return "IErr", "error", ""
	}
	c, d := c05IVal(v)
	return c, d, ""
}

func c05IsNum(s string) bool {
	_, ok := big.NewRat(0, 1).SetString(s)
	return ok
}

// signature of the recorded known findings (narrow predicates on the INPUT string)
func c05KeyKF(s string) []string {
	if _, ok := d2ast.RawString(s, true).(*d2ast.UnquotedString); !ok {
		return nil
	}
	var kf []string
	low := strings.ToLower(s)
	if _, ok := d2ast.ReservedKeywords[low]; ok && low != s {
		kf = append(kf, "C05-reserved-keyword-case-key")
	}
	return kf
}

func c05ValKF(s string) []string {
	if s == "true" || s == "false" {
		return []string{"C05-bool-literal"}
	}
	return nil
}

func c05Gen(r *Rng, tier string, n int) []Case {
	var out []Case
	seen := map[string]bool{}
	addKey := func(s, class string) {
		if seen["k"+s] {
			return
		}
		seen["k"+s] = true
		c := Case{Class: "key/" + class, Key: "k:" + s, Nontrivial: true}
		func() {
			defer func() {
				if e := recover(); e != nil {
					c.ImplFail = append(c.ImplFail, fmt.Sprintf("panic: %v", e))
				}
			}()
			node := d2ast.RawString(s, true)
			_, unq := node.(*d2ast.UnquotedString)
			c.Nontrivial = !unq || strings.ToLower(s) != s || len(c05KeyKF(s)) > 0
			sb := d2ast.MakeValueBox(node).StringBox()
			printed := d2format.Format(&d2ast.KeyPath{Path: []*d2ast.StringBox{sb}})
			path, ok, fail := c05ParseKey(printed)
			if fail != "" {
				c.ImplFail = append(c.ImplFail, fail)
			}
			fullOK := false
			if m, err := d2parser.Parse("", strings.NewReader(printed+": 1\n"), nil); err == nil && len(m.Nodes) == 1 && m.Nodes[0].MapKey != nil &&
				m.Nodes[0].MapKey.Key != nil && len(m.Nodes[0].MapKey.Edges) == 0 {
				p := c05KeyPath(m.Nodes[0].MapKey.Key)
				fullOK = len(p) == 1 && p[0] == s
			}
			c.Coq = fmt.Sprintf("CKey %s %s %s %s", coqRunes(s), coqRunes(printed), coqOpt(ok, c05StrList(path)), coqBool(fullOK))
			c.Input = map[string]any{"string": s, "as": "key"}
			c.Impl = map[string]any{"printed": printed, "parsed": path, "parsed_ok": ok, "in_map_ok": fullOK}
			c.KF = c05KeyKF(s)
		}()
		if c.Coq == "" {
			c.Coq = fmt.Sprintf("CKey %s [] None false", coqRunes(s))
		}
		out = append(out, c)
	}
	addVal := func(s, class string) {
		if seen["v"+s] {
			return
		}
		seen["v"+s] = true
		c := Case{Class: "value/" + class, Key: "v:" + s, Nontrivial: true}
		func() {
			defer func() {
				if e := recover(); e != nil {
					c.ImplFail = append(c.ImplFail, fmt.Sprintf("panic: %v", e))
				}
			}()
			node := d2ast.RawString(s, false)
			_, unq := node.(*d2ast.UnquotedString)
			c.Nontrivial = !unq || strings.ToLower(s) != s || c05IsNum(s)
			printed := d2format.Format(node)
			pv, desc, fail := c05ParseValue(printed)
			if fail != "" {
				c.ImplFail = append(c.ImplFail, fail)
			}
			fullOK := false
			if m, err := d2parser.Parse("", strings.NewReader("x: "+printed+"\n"), nil); err == nil && len(m.Nodes) == 1 && m.Nodes[0].MapKey != nil {
				mk := m.Nodes[0].MapKey
				var v d2ast.Value
				if mk.Primary.Unbox() != nil {
					v = mk.Primary.Unbox()
				} else {
					v = mk.Value.Unbox()
				}
				switch v := v.(type) {
				case *d2ast.UnquotedString, *d2ast.DoubleQuotedString, *d2ast.SingleQuotedString:
					fullOK = v.(d2ast.String).ScalarString() == s
				case *d2ast.Number:
					fullOK = v.Raw == s
				}
			}
			// the editing API's call chain: Set(x, label := s) then recompile
			oracleOK := true
			if s != "" {
				g, _, err := d2compiler.Compile("", strings.NewReader("x"), nil)
				if err == nil {
					val := s
					g2, err := d2oracle.Set(g, nil, "x", nil, &val)
					if err != nil {
						oracleOK = false
					} else if len(g2.Root.ChildrenArray) != 1 || g2.Root.ChildrenArray[0].Label.Value != s {
						oracleOK = false
					}
				}
			}
			c.Coq = fmt.Sprintf("CVal %s %s %s %s %s %s", coqRunes(s), coqRunes(printed), pv, coqBool(c05IsNum(s)), coqBool(fullOK), coqBool(oracleOK))
			c.Input = map[string]any{"string": s, "as": "value"}
			c.Impl = map[string]any{"printed": printed, "parsed": desc, "in_map_ok": fullOK, "oracle_set_label_ok": oracleOK}
			c.KF = c05ValKF(s)
		}()
		if c.Coq == "" {
			c.Coq = fmt.Sprintf("CVal %s [] IErr false false false", coqRunes(s))
		}
		out = append(out, c)
	}
	addParse := func(text, class string) {
		if seen["p"+text] {
			return
		}
		seen["p"+text] = true
		path, ok, fail := c05ParseKey(text)
		c := Case{Class: "parsekey/" + class, Key: "pk:" + text, Nontrivial: len(text) >= 2}
		if fail != "" {
			c.ImplFail = append(c.ImplFail, fail)
		}
		c.Coq = fmt.Sprintf("CParseKey %s %s", coqRunes(text), coqOpt(ok, c05StrList(path)))
		c.Input = map[string]any{"text": text, "entry": "ParseKey"}
		c.Impl = map[string]any{"path": path, "ok": ok}
		out = append(out, c)
		pv, desc, fail2 := c05ParseValue(text)
		c2 := Case{Class: "parsevalue/" + class, Key: "pv:" + text, Nontrivial: len(text) >= 2}
		if fail2 != "" {
			c2.ImplFail = append(c2.ImplFail, fail2)
		}
		isnum := strings.HasPrefix(desc, "number:")
		c2.Coq = fmt.Sprintf("CParseVal %s %s %s", coqRunes(text), pv, coqBool(isnum))
		c2.Input = map[string]any{"text": text, "entry": "ParseValue"}
		c2.Impl = map[string]any{"value": desc}
		out = append(out, c2)
	}

	// corpus
	for _, w := range c05Words {
		addKey(w, "corpus")
		addVal(w, "corpus")
	}
	for _, w := range []string{"", " ", "a b", "a\nb", "a\"b", "a'b", "a\"'b", "a\"\n'b", "$x", "${x}", "a$b\"", "\\", "a\\", "a\\\"'", "'", "\"", "|", "a|b", "|a", "&a", "a&b", "a:b", "a.b", "x\\n", "a#b", "a;b", "a{b", "[", "]", "(a)", "a(b -> c)[0]", "*", "a*b", "**", "-a-", "a -", "a-\n", "a-#"} {
		addKey(w, "corpus")
		addVal(w, "corpus")
		addParse(w, "corpus")
	}
	// exhaustive short strings over a hostile alphabet in the thorough tier
	if tier == "thorough" {
		alpha := []rune{'a', 'N', '-', '.', ':', '"', '\'', '\\', '$', ' ', '\n', '#', '|', '*', '&', '>', '@', '{', ';', '('}
		var rec func(prefix []rune, d int)
		rec = func(prefix []rune, d int) {
			if len(prefix) > 0 {
				addKey(string(prefix), "exhaustive")
				addVal(string(prefix), "exhaustive")
			}
			if d == 0 {
				return
			}
			for _, a := range alpha {
				rec(append(append([]rune{}, prefix...), a), d-1)
			}
		}
		rec(nil, 3)
	}
	for len(out) < n {
		s, class := c05RandStr(r)
		switch r.Intn(5) {
		case 0, 1:
			addKey(s, class)
		case 2, 3:
			addVal(s, class)
		default:
			// arbitrary text through the parser entry points (malformed stream): wrap / join random strings
			t, _ := c05RandStr(r)
			text := s
			switch r.Intn(4) {
			case 0:
				text = s + "." + t
			case 1:
				text = "\"" + s + "\"" + t
			case 2:
				text = "'" + s + "'." + t
			}
			addParse(text, class)
		}
	}
	return out
}
