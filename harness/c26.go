package main

// C26 — The layout-plugin wire format round-trips graphs exactly.
//
// For every generated diagram the REAL pipeline is run (d2compiler.Compile, ApplyTheme, SetDimensions,
// d2layouts.LayoutNested with the bundled engine) and the REAL d2graph.SerializeGraph /
// DeserializeGraph / CompareSerializedGraph are applied to
//   pre       the whole graph before layout,
//   wire-in   every graph LayoutNested hands to the core layout (exactly what a plugin binary receives),
//   wire-out  the same graph after the core layout (exactly what a plugin binary sends back),
//   post      the whole graph after layout,
// plus hand-made graphs that violate the theorem's hypotheses (duplicate AbsIDs …) to tie the model's
// idToObj behaviour to the code.  The END-TO-END clause renders the diagram twice: with in-process
// layout and with the layout done by a child process over the real plugin protocol
// (d2plugin.ListPlugins/FindPlugin -> execPlugin.Layout -> `d2plugin-c26dagre layout` -> d2plugin.Serve ->
// layout() -> bundled engine), the child being this very binary started under another name.

import (
	"context"
	"crypto/sha256"
	"encoding/json"
	"fmt"
	"io/fs"
	"math"
	"math/big"
	"net/url"
	"os"
	"path/filepath"
	"reflect"
	"sort"
	"strings"
	"sync"
	"testing/fstest"
	"time"

	"oss.terrastruct.com/d2/d2graph"
	"oss.terrastruct.com/d2/d2layouts"
	"oss.terrastruct.com/d2/d2layouts/d2dagrelayout"
	"oss.terrastruct.com/d2/d2layouts/d2elklayout"
	"oss.terrastruct.com/d2/d2layouts/d2sequence"
	"oss.terrastruct.com/d2/d2lib"
	"oss.terrastruct.com/d2/d2plugin"
	"oss.terrastruct.com/d2/d2renderers/d2svg"
	"oss.terrastruct.com/d2/lib/log"
	"oss.terrastruct.com/d2/lib/textmeasure"
	"oss.terrastruct.com/util-go/go2"
	"oss.terrastruct.com/util-go/xmain"
)

func init() {
	c26ChildMode()
	register(&Prop{ID: "C26", Module: "V.C26.Check", Gen: c26Gen, Quick: 14, Thorough: 240, Shard: 20})
}

// ---------------------------------------------------------------- plugin child mode

// c26Plugin is a bundled engine under another name: ListPlugins drops binaries whose name equals a
// bundled plugin's, so the child must not call itself "dagre".
type c26Plugin struct {
	d2plugin.Plugin
	name string
}

func (w c26Plugin) Info(ctx context.Context) (*d2plugin.PluginInfo, error) {
	i, err := w.Plugin.Info(ctx)
	if err != nil {
		return nil, err
	}
	cp := *i
	cp.Name = w.name
	return &cp, nil
}

// c26Router is c26Plugin plus the routes_edges feature: RouteEdges applies the default router (the
// one d2lib uses when the engine has none) to the edges of g that the caller named.
type c26Router struct{ c26Plugin }

func (w c26Router) Info(ctx context.Context) (*d2plugin.PluginInfo, error) {
	i, err := w.c26Plugin.Info(ctx)
	if err != nil {
		return nil, err
	}
	i.Features = append(append([]d2plugin.PluginFeature{}, i.Features...), d2plugin.ROUTES_EDGES)
	return i, nil
}

func (w c26Router) RouteEdges(ctx context.Context, g *d2graph.Graph, es []*d2graph.Edge) error {
	ok := func(e *d2graph.Edge) bool { return e.Src != nil && e.Dst != nil }
	var mine []*d2graph.Edge
	for _, e := range es {
		if !ok(e) {
			continue
		}
		for _, ge := range g.Edges {
			if ok(ge) && ge.AbsID() == e.AbsID() {
				mine = append(mine, ge)
				break
			}
		}
	}
	return d2layouts.DefaultRouter(ctx, g, mine)
}

func c26ChildMode() {
	if len(os.Args) == 0 {
		return
	}
	switch filepath.Base(os.Args[0]) {
	case "d2plugin-c26dagre":
		xmain.Main(d2plugin.Serve(c26Plugin{&d2plugin.DagrePlugin, "c26dagre"}))
		os.Exit(0)
	case "d2plugin-c26dagrer":
		xmain.Main(d2plugin.Serve(c26Router{c26Plugin{&d2plugin.DagrePlugin, "c26dagrer"}}))
		os.Exit(0)
	case "d2plugin-c26elk":
		xmain.Main(d2plugin.Serve(c26Plugin{&d2plugin.ELKPlugin, "c26elk"}))
		os.Exit(0)
	}
}

var c26Plugins struct {
	once sync.Once
	ps   []d2plugin.Plugin
	err  error
	dir  string
}

// c26ExecPlugins registers this binary as d2plugin-c26dagre / d2plugin-c26elk in a private PATH
// directory and lets the real d2plugin.ListPlugins discover them (it runs `<bin> info`).
func c26ExecPlugins(ctx context.Context) ([]d2plugin.Plugin, error) {
	c26Plugins.once.Do(func() {
		exe, err := os.Executable()
		if err != nil {
			c26Plugins.err = err
			return
		}
		dir, err := os.MkdirTemp("", "c26plug")
		if err != nil {
			c26Plugins.err = err
			return
		}
		c26Plugins.dir = dir
		for _, n := range []string{"d2plugin-c26dagre", "d2plugin-c26dagrer", "d2plugin-c26elk"} {
			if err := os.Symlink(exe, filepath.Join(dir, n)); err != nil {
				c26Plugins.err = err
				return
			}
		}
		old := os.Getenv("PATH")
		os.Setenv("PATH", dir)
		c26Plugins.ps, c26Plugins.err = d2plugin.ListPlugins(ctx)
		os.Setenv("PATH", old)
	})
	return c26Plugins.ps, c26Plugins.err
}

func c26Cleanup() {
	if c26Plugins.dir != "" {
		os.RemoveAll(c26Plugins.dir)
	}
}

// ---------------------------------------------------------------- canonical projection (independent of encoding/json)

type c26Proj struct {
	b    strings.Builder
	geom []uint64
}

var c26URLType = reflect.TypeOf(url.URL{})

// c26Walk writes a canonical rendering of every exported field that is part of the wire format
// (fields tagged `json:"-"` are pointers into the AST / the object graph and are not attributes).
// Geometry (Object.Box, Edge.Route, Edge.LabelPercentage) goes to p.geom as IEEE-754 bit patterns.
func (p *c26Proj) walk(v reflect.Value, top bool) {
	switch v.Kind() {
	case reflect.Ptr:
		if v.IsNil() {
			p.b.WriteString("nil")
			return
		}
		p.b.WriteString("&")
		p.walk(v.Elem(), false)
	case reflect.Interface:
		if v.IsNil() {
			p.b.WriteString("nil")
			return
		}
		p.walkIface(v.Elem())
	case reflect.Struct:
		if v.Type() == c26URLType {
			u := v.Interface().(url.URL)
			fmt.Fprintf(&p.b, "url(%q)", u.String())
			return
		}
		t := v.Type()
		p.b.WriteString(t.Name() + "{")
		for i := 0; i < t.NumField(); i++ {
			f := t.Field(i)
			if f.PkgPath != "" || strings.HasPrefix(f.Tag.Get("json"), "-") {
				continue
			}
			if top && (f.Name == "Box" || f.Name == "Route" || f.Name == "LabelPercentage") {
				p.geometry(v.Field(i))
				continue
			}
			p.b.WriteString(f.Name + ":")
			p.walk(v.Field(i), false)
			p.b.WriteString(";")
		}
		p.b.WriteString("}")
	case reflect.Slice, reflect.Array:
		p.b.WriteString("[")
		for i := 0; i < v.Len(); i++ {
			p.walk(v.Index(i), false)
			p.b.WriteString(",")
		}
		p.b.WriteString("]")
	case reflect.Map:
		keys := v.MapKeys()
		sort.Slice(keys, func(i, j int) bool { return fmt.Sprint(keys[i]) < fmt.Sprint(keys[j]) })
		p.b.WriteString("map[")
		for _, k := range keys {
			fmt.Fprintf(&p.b, "%q=", fmt.Sprint(k))
			p.walk(v.MapIndex(k), false)
			p.b.WriteString(",")
		}
		p.b.WriteString("]")
	case reflect.String:
		fmt.Fprintf(&p.b, "%q", v.String())
	case reflect.Bool:
		fmt.Fprintf(&p.b, "%v", v.Bool())
	case reflect.Int, reflect.Int8, reflect.Int16, reflect.Int32, reflect.Int64:
		fmt.Fprintf(&p.b, "%d", v.Int())
	case reflect.Uint, reflect.Uint8, reflect.Uint16, reflect.Uint32, reflect.Uint64:
		fmt.Fprintf(&p.b, "%d", v.Uint())
	case reflect.Float32, reflect.Float64:
		fmt.Fprintf(&p.b, "f%016x", math.Float64bits(v.Float()))
	default:
		fmt.Fprintf(&p.b, "?%s", v.Kind())
	}
}

// values inside interface{} (Graph.Data): JSON turns every number into float64, so numbers are
// compared by value
func (p *c26Proj) walkIface(v reflect.Value) {
	switch v.Kind() {
	case reflect.Int, reflect.Int8, reflect.Int16, reflect.Int32, reflect.Int64:
		fmt.Fprintf(&p.b, "n%v", float64(v.Int()))
	case reflect.Uint, reflect.Uint8, reflect.Uint16, reflect.Uint32, reflect.Uint64:
		fmt.Fprintf(&p.b, "n%v", float64(v.Uint()))
	case reflect.Float32, reflect.Float64:
		fmt.Fprintf(&p.b, "n%v", v.Float())
	default:
		p.walk(v, false)
	}
}

func (p *c26Proj) geometry(v reflect.Value) {
	switch v.Kind() {
	case reflect.Ptr:
		if v.IsNil() {
			p.geom = append(p.geom, 0)
			return
		}
		p.geom = append(p.geom, 1)
		p.geometry(v.Elem())
	case reflect.Struct:
		for i := 0; i < v.NumField(); i++ {
			if v.Type().Field(i).PkgPath == "" {
				p.geometry(v.Field(i))
			}
		}
	case reflect.Slice:
		p.geom = append(p.geom, uint64(v.Len()))
		for i := 0; i < v.Len(); i++ {
			p.geometry(v.Index(i))
		}
	case reflect.Float64:
		p.geom = append(p.geom, math.Float64bits(v.Float()))
	default:
		p.geom = append(p.geom, 0xBAD)
	}
}

type c26Pay struct {
	Geom   []uint64
	Digest *big.Int
	Text   string
}

func c26PayOf(x any, extra string) c26Pay {
	p := &c26Proj{}
	v := reflect.ValueOf(x)
	if v.Kind() == reflect.Ptr {
		v = v.Elem()
	}
	p.walk(v, true)
	p.b.WriteString(extra)
	s := p.b.String()
	h := sha256.Sum256([]byte(s))
	return c26Pay{Geom: p.geom, Digest: new(big.Int).SetBytes(h[:16]), Text: s}
}

func (p c26Pay) coq() string {
	xs := make([]string, len(p.Geom))
	for i, g := range p.Geom {
		xs[i] = fmt.Sprintf("%d", g)
	}
	return "(" + coqList(xs) + ", " + p.Digest.String() + ")"
}

func (p c26Pay) equal(q c26Pay) bool {
	if p.Text != q.Text || len(p.Geom) != len(q.Geom) {
		return false
	}
	for i := range p.Geom {
		if p.Geom[i] != q.Geom[i] {
			return false
		}
	}
	return true
}

// ---------------------------------------------------------------- heap view of a graph

// c26R is a pointer as the model sees it: nil, the root, g.Objects[I], or an object outside the graph
// (S = its AbsID()).
type c26R struct {
	K int // 0 nil, 1 root, 2 object I, 3 external
	I int
	S string
}

func (r c26R) coq() string {
	switch r.K {
	case 1:
		return "RRoot"
	case 2:
		return fmt.Sprintf("(RObj %d)", r.I)
	case 3:
		return "(RExt " + coqBytes(r.S) + ")"
	}
	return "(RExt [0])" // a nil entry where a pointer is required (e.g. inside ChildrenArray): no object has the ID "\x00"
}

func (r c26R) opt() string {
	if r.K == 0 {
		return "None"
	}
	return "(Some " + r.coq() + ")"
}

type c26Obj struct {
	ID       string
	Parent   c26R
	Children []c26R
	Pay      c26Pay
	AbsID    string
}

type c26Edge struct {
	Src, Dst           c26R
	SrcArrow, DstArrow bool
	Index              int
	Pay                c26Pay
}

type c26Heap struct {
	Root      c26Obj
	Objs      []c26Obj
	Edges     []c26Edge
	RootLevel int
	External  int // distinct pointers to objects that are neither the root nor in Objects
	Lifeline  int // … of which d2sequence lifeline ends
	Aliased   bool
}

func c26HeapOf(g *d2graph.Graph) *c26Heap {
	h := &c26Heap{RootLevel: g.RootLevel}
	idx := map[*d2graph.Object]c26R{}
	if g.Root != nil {
		idx[g.Root] = c26R{K: 1}
	}
	for i, o := range g.Objects {
		if _, dup := idx[o]; dup {
			h.Aliased = true
			continue
		}
		idx[o] = c26R{K: 2, I: i}
	}
	ext := map[*d2graph.Object]bool{}
	ref := func(o *d2graph.Object) c26R {
		if o == nil {
			return c26R{}
		}
		if r, ok := idx[o]; ok {
			return r
		}
		if !ext[o] {
			ext[o] = true
			h.External++
			if d2sequence.IsLifelineEnd(o) {
				h.Lifeline++
			}
		}
		return c26R{K: 3, S: o.AbsID()}
	}
	mk := func(o *d2graph.Object, extra string) c26Obj {
		co := c26Obj{ID: o.ID, Parent: ref(o.Parent), Pay: c26PayOf(o, extra), AbsID: o.AbsID()}
		for _, c := range o.ChildrenArray {
			co.Children = append(co.Children, ref(c))
		}
		return co
	}
	// Graph.Data travels next to the root
	dp := &c26Proj{}
	dp.walk(reflect.ValueOf(g.Data), false)
	h.Root = mk(g.Root, "|data:"+dp.b.String())
	for _, o := range g.Objects {
		h.Objs = append(h.Objs, mk(o, ""))
	}
	for _, e := range g.Edges {
		h.Edges = append(h.Edges, c26Edge{Src: ref(e.Src), Dst: ref(e.Dst), SrcArrow: e.SrcArrow, DstArrow: e.DstArrow,
			Index: e.Index, Pay: c26PayOf(e, "")})
	}
	return h
}

func (o c26Obj) coq() string {
	cs := make([]string, len(o.Children))
	for i, c := range o.Children {
		cs[i] = c.coq()
	}
	return fmt.Sprintf("(mkObj %s %s %s %s)", coqBytes(o.ID), o.Parent.opt(), coqList(cs), o.Pay.coq())
}

func (h *c26Heap) coq() string {
	os := make([]string, len(h.Objs))
	for i, o := range h.Objs {
		os[i] = o.coq()
	}
	es := make([]string, len(h.Edges))
	for i, e := range h.Edges {
		idx := e.Index
		if idx < 0 {
			idx = 0
		}
		es[i] = fmt.Sprintf("(mkEdge %s %s %s %s %d %s)", e.Src.opt(), e.Dst.opt(), coqBool(e.SrcArrow), coqBool(e.DstArrow), idx, e.Pay.coq())
	}
	return fmt.Sprintf("(mkGraph %s %s %s %s)", h.Root.coq(), coqList(os), coqList(es), coqZ(int64(h.RootLevel)))
}

func (h *c26Heap) absids() string {
	xs := []string{coqBytes(h.Root.AbsID)}
	for _, o := range h.Objs {
		xs = append(xs, coqBytes(o.AbsID))
	}
	return coqList(xs)
}

// ---------------------------------------------------------------- structural part of the bytes on the wire

func c26WireCoq(b []byte) (string, bool) {
	var sg struct {
		Root      map[string]any   `json:"root"`
		Edges     []map[string]any `json:"edges"`
		Objects   []map[string]any `json:"objects"`
		RootLevel int              `json:"rootLevel"`
	}
	if err := json.Unmarshal(b, &sg); err != nil {
		return "", false
	}
	ok := true
	str := func(x any) string {
		s, isS := x.(string)
		if !isS {
			ok = false
		}
		return s
	}
	so := func(m map[string]any) string {
		var cs []string
		if ca, has := m["ChildrenArray"]; has && ca != nil {
			l, isL := ca.([]any)
			if !isL {
				ok = false
			}
			for _, c := range l {
				cs = append(cs, coqBytes(str(c)))
			}
		}
		return fmt.Sprintf("(mkSO %s %s %s tt)", coqBytes(str(m["AbsID"])), coqList(cs), coqBytes(str(m["id"])))
	}
	end := func(x any, has bool) string {
		if !has || x == nil {
			return "None"
		}
		return "(Some " + coqBytes(str(x)) + ")"
	}
	boolOf := func(x any) bool { b, _ := x.(bool); return b }
	var os, es []string
	for _, m := range sg.Objects {
		os = append(os, so(m))
	}
	for _, m := range sg.Edges {
		s, hs := m["Src"]
		d, hd := m["Dst"]
		idx, _ := m["index"].(float64)
		if idx < 0 {
			idx = 0
		}
		es = append(es, fmt.Sprintf("(mkSE %s %s %s %s %d tt)", end(s, hs), end(d, hd), coqBool(boolOf(m["src_arrow"])), coqBool(boolOf(m["dst_arrow"])), int(idx)))
	}
	if sg.Root == nil {
		return "", false
	}
	return fmt.Sprintf("(mkSG %s %s %s %s)", so(sg.Root), coqList(os), coqList(es), coqZ(int64(sg.RootLevel))), ok
}

// ---------------------------------------------------------------- one serde case

type c26Meta struct {
	Class    string
	Input    string
	Stage    string
	Synth    bool
	SVG      [2]string // hex digests, "" = not rendered
	SVGErr   string
	KF       []string
	ExtraErr []string
}

// H_json_roundtrip evaluated on its own: d2graph.Convert (Marshal+Unmarshal) of every object / edge /
// Data gives back the same projection
func c26JSONHyp(g *d2graph.Graph) (ok bool, detail string) {
	ok = true
	chk := func(what string, a, b any) {
		pa, pb := c26PayOf(a, ""), c26PayOf(b, "")
		if !pa.equal(pb) && ok {
			ok = false
			detail = what + ": " + c26FirstDiff(pa.Text, pb.Text)
		}
	}
	objs := append([]*d2graph.Object{g.Root}, g.Objects...)
	for _, o := range objs {
		var o2 d2graph.Object
		if err := d2graph.Convert(o, &o2); err != nil {
			return false, "Convert: " + err.Error()
		}
		chk("object "+o.AbsID(), o, &o2)
	}
	for _, e := range g.Edges {
		var e2 d2graph.Edge
		if err := d2graph.Convert(e, &e2); err != nil {
			return false, "Convert: " + err.Error()
		}
		chk("edge", e, &e2)
	}
	if g.Data != nil {
		var d2 map[string]interface{}
		if err := d2graph.Convert(g.Data, &d2); err != nil {
			return false, "Convert: " + err.Error()
		}
		pa, pb := &c26Proj{}, &c26Proj{}
		pa.walk(reflect.ValueOf(g.Data), false)
		pb.walk(reflect.ValueOf(d2), false)
		if pa.b.String() != pb.b.String() && ok {
			ok = false
			detail = "data: " + c26FirstDiff(pa.b.String(), pb.b.String())
		}
	}
	return ok, detail
}

func c26FirstDiff(a, b string) string {
	i := 0
	for i < len(a) && i < len(b) && a[i] == b[i] {
		i++
	}
	lo := i - 60
	if lo < 0 {
		lo = 0
	}
	cut := func(s string) string {
		hi := i + 60
		if hi > len(s) {
			hi = len(s)
		}
		if lo > len(s) {
			return ""
		}
		return s[lo:hi]
	}
	return fmt.Sprintf("before …%s… after …%s…", cut(a), cut(b))
}

// a trivially passing case (used when the pipeline rejects the diagram before any graph exists)
const c26Dummy = "Case (mkGraph (mkObj [] None [] ([],0)) [] [] 0%Z) [[]] None (Some (mkGraph (mkObj [] None [] ([],0)) [] [] 0%Z)) [[]] true false true None"

const c26KFLifeline = "C26-lifeline-end-dropped"
const c26KFUserinfo = "C26-icon-url-userinfo"
const c26KFRootLabel = "C26-root-label-mapkey"

// signature of the second known finding: an icon URL with a userinfo part (user[:password]@host)
func c26HasUserinfo(g *d2graph.Graph) bool {
	for _, o := range append([]*d2graph.Object{g.Root}, g.Objects...) {
		if o != nil && o.Icon != nil && o.Icon.User != nil {
			return true
		}
	}
	for _, e := range g.Edges {
		if e.Icon != nil && e.Icon.User != nil {
			return true
		}
	}
	return false
}

func c26SerdeCase(g *d2graph.Graph, m c26Meta) (cs Case) {
	cs.Class = m.Class + "/" + m.Stage
	cs.KF = m.KF
	in := map[string]any{"d2": m.Input, "stage": m.Stage}
	impl := map[string]any{}
	cs.Input, cs.Impl = in, impl
	defer func() {
		if e := recover(); e != nil {
			cs.ImplFail = append(cs.ImplFail, fmt.Sprintf("harness panic: %v", e))
			if cs.Coq == "" {
				cs.Coq = c26Dummy
			}
		}
	}()
	h := c26HeapOf(g)
	impl["objects"], impl["edges"], impl["external_pointers"] = len(h.Objs), len(h.Edges), h.External
	if h.Lifeline > 0 && h.Lifeline == h.External {
		// signature of the known finding: an edge of the graph handed to SerializeGraph ends in a
		// d2sequence lifeline-end object (not in g.Objects)
		cs.KF = append(cs.KF, c26KFLifeline)
		impl["lifeline_ends"] = h.Lifeline
	}
	if c26HasUserinfo(g) {
		cs.KF = append(cs.KF, c26KFUserinfo)
	}
	hyp, hypDetail := c26JSONHyp(g)
	if !hyp {
		impl["json_roundtrip"] = hypDetail
	}

	var wire string = "None"
	var g2coq string = "None"
	abs2 := "[]"
	cmpOK := false
	b, err := d2graph.SerializeGraph(g)
	if err != nil {
		cs.ImplFail = append(cs.ImplFail, "SerializeGraph: "+err.Error())
	} else {
		if w, ok := c26WireCoq(b); ok {
			wire = "(Some " + w + ")"
		} else {
			cs.ImplFail = append(cs.ImplFail, "wire bytes not parsable as the documented format")
		}
		impl["wire_bytes"] = len(b)
		var g2 d2graph.Graph
		derr := func() (err error) {
			defer func() {
				if e := recover(); e != nil {
					err = fmt.Errorf("panic: %v", e)
				}
			}()
			return d2graph.DeserializeGraph(b, &g2)
		}()
		if derr != nil {
			impl["deserialize_error"] = derr.Error()
		} else {
			h2 := c26HeapOf(&g2)
			g2coq = "(Some " + h2.coq() + ")"
			abs2 = h2.absids()
			cerr := func() (err error) {
				defer func() {
					if e := recover(); e != nil {
						err = fmt.Errorf("panic: %v", e)
					}
				}()
				return d2graph.CompareSerializedGraph(g, &g2)
			}()
			cmpOK = cerr == nil
			if cerr != nil {
				impl["compare"] = cerr.Error()
			}
			// readable first difference (the verdict is Coq's)
			var diffs []string
			if len(h.Objs) == len(h2.Objs) {
				all1 := append([]c26Obj{h.Root}, h.Objs...)
				all2 := append([]c26Obj{h2.Root}, h2.Objs...)
				for i := range all1 {
					if !all1[i].Pay.equal(all2[i].Pay) && len(diffs) < 3 {
						diffs = append(diffs, fmt.Sprintf("object %q: %s", all1[i].AbsID, c26FirstDiff(all1[i].Pay.Text, all2[i].Pay.Text)))
					}
				}
			}
			if len(h.Edges) == len(h2.Edges) {
				for i := range h.Edges {
					if !h.Edges[i].Pay.equal(h2.Edges[i].Pay) && len(diffs) < 3 {
						diffs = append(diffs, fmt.Sprintf("edge %d: %s", i, c26FirstDiff(h.Edges[i].Pay.Text, h2.Edges[i].Pay.Text)))
					}
				}
			}
			if len(diffs) > 0 {
				impl["payload_diff"] = diffs
			}
		}
	}
	svg := "None"
	if m.SVG[0] != "" || m.SVG[1] != "" || m.SVGErr != "" {
		a, _ := new(big.Int).SetString(m.SVG[0], 16)
		bb, _ := new(big.Int).SetString(m.SVG[1], 16)
		if a == nil {
			a = big.NewInt(0)
		}
		if bb == nil {
			bb = big.NewInt(1)
		}
		svg = fmt.Sprintf("(Some (%s, %s))", a.String(), bb.String())
		impl["svg_inprocess"], impl["svg_plugin"] = m.SVG[0], m.SVG[1]
		if m.SVGErr != "" {
			impl["svg_error"] = m.SVGErr
		}
	}
	cs.ImplFail = append(cs.ImplFail, m.ExtraErr...)
	cs.Coq = fmt.Sprintf("Case %s %s %s %s %s %s %s %s %s", h.coq(), h.absids(), wire, g2coq, abs2,
		coqBool(hyp), coqBool(!m.Synth), coqBool(cmpOK), svg)
	cs.Nontrivial = len(h.Objs) >= 2 && (len(h.Edges) >= 1 || c26HasNesting(h))
	hh := sha256.Sum256([]byte(cs.Coq))
	cs.Key = fmt.Sprintf("%x", hh[:8])
	return cs
}

func c26HasNesting(h *c26Heap) bool {
	for _, o := range h.Objs {
		if len(o.Children) > 0 {
			return true
		}
	}
	return false
}

// ---------------------------------------------------------------- running the real pipeline

func c26Engine(name string) d2graph.LayoutGraph {
	if name == "elk" {
		return d2elklayout.DefaultLayout
	}
	return d2dagrelayout.DefaultLayout
}

func c26Ctx() (context.Context, context.CancelFunc) {
	ctx := log.WithDefault(context.Background())
	return context.WithTimeout(ctx, 5*time.Minute)
}

// c26Render compiles, lays out (with the given core layout) and renders.
// c26FS is the file set of a diagram with imports (nil when there are none); the diagram itself is index.d2
func c26FS(files map[string]string) fs.FS {
	if len(files) == 0 {
		return nil
	}
	m := fstest.MapFS{}
	for n, t := range files {
		m[n] = &fstest.MapFile{Data: []byte(t)}
	}
	return m
}

func c26Render(ctx context.Context, text string, files map[string]string, engine string, theme int64, layout func(string) (d2graph.LayoutGraph, error), router func(string) (d2graph.RouteEdges, error)) (svg []byte, g *d2graph.Graph, err error) {
	defer func() {
		if e := recover(); e != nil {
			err = fmt.Errorf("panic: %v", e)
		}
	}()
	ruler, err := textmeasure.NewRuler()
	if err != nil {
		return nil, nil, err
	}
	ro := &d2svg.RenderOpts{ThemeID: &theme}
	d, g, err := d2lib.Compile(ctx, text, &d2lib.CompileOptions{Ruler: ruler, Layout: go2.Pointer(engine), LayoutResolver: layout, RouterResolver: router,
		FS: c26FS(files), InputPath: c26InputPath(files)}, ro)
	if err != nil {
		return nil, nil, err
	}
	svg, err = d2svg.Render(d, ro)
	return svg, g, err
}

func c26InputPath(files map[string]string) string {
	if len(files) == 0 {
		return ""
	}
	return "index.d2"
}

func c26Hex(b []byte) string {
	h := sha256.Sum256(b)
	return fmt.Sprintf("%x", h[:16])
}
