package main

// C19: signatures of the known-finding classes, EXACT about the recorded defect.
//
// A case carries a known-finding id only when EVERY violation the harness sees in it (final diagram and every
// graph returned by the engine; for Nest cases: the failed hypothesis) is explained by a recorded defect:
//   * per violation: the shapes involved must be the ones the defect acts on (the grid whose own width/height is
//     set / that is person-shaped and one of its cells, sticking out along an axis that is set; two constant nears
//     on the same constant; the ELK container with the outside label and one of its children, sticking out along
//     the margin axis by at most the margin; the container end of a container<->descendant edge; for dagre's
//     cross-rank spacing: a shape of a dagre run in which adjustCrossRankSpacing acts at all, sticking out of its
//     container across the rank direction only), and
//   * for the two grid defects a CONTROL layout of the same script with only the trigger removed (width/height of
//     the grid container cleared / shape person replaced) must not show a cell outside that grid any more.
// One unexplained violation removes all ids from the case: it is then reported as a violation.  The predicates
// read the compiled input attributes, the engine name and the label / icon positions of the laid-out graph (fixed
// by the input before any geometry is computed); the geometry is only used to decide WHICH shapes a violation
// involves and along which axis.

import (
	"math"
	"sort"
	"strings"

	"oss.terrastruct.com/d2/d2compiler"
	"oss.terrastruct.com/d2/d2graph"
	"oss.terrastruct.com/d2/d2layouts"
	"oss.terrastruct.com/d2/d2layouts/d2dagrelayout"
	"oss.terrastruct.com/d2/d2layouts/d2elklayout"
	"oss.terrastruct.com/d2/lib/label"
)

const (
	c19KFGridExplicit = "C19-grid-explicit-size"
	c19KFGridPerson   = "C19-grid-person-shape"
	c19KFNearsSame    = "C19-nears-same-constant"
	c19KFElkMargin    = "C19-elk-container-outside-label"
	c19KFDagreAncEdge = "C19-dagre-container-descendant-edge"
	c19KFDagreSpacing = "C19-dagre-cross-rank-spacing"
)

func c19Compile(script string) *d2graph.Graph {
	g, _, err := d2compiler.Compile("", strings.NewReader(script), nil)
	if err != nil {
		return nil
	}
	return g
}

// c19InSeq: o lives inside a sequence diagram (its layout is not the engine's)
func c19InSeq(o *d2graph.Object) bool {
	for p := o.Parent; p != nil; p = p.Parent {
		if p.IsSequenceDiagram() {
			return true
		}
	}
	return false
}

func c19IsExplicitGrid(o *d2graph.Object) bool {
	return o != nil && o.IsGridDiagram() && (o.WidthAttr != nil || o.HeightAttr != nil)
}

func c19IsPersonGrid(o *d2graph.Object) bool {
	return o != nil && o.IsGridDiagram() && strings.EqualFold(o.Shape.Value, "person")
}

// c19ConstNearKey: the constant of a top-level constant near, "" otherwise.
func c19ConstNearKey(gf *d2graph.Graph, o *d2graph.Object) string {
	if o == nil || o.Parent != gf.Root || o.NearKey == nil || !o.IsConstantNear() {
		return ""
	}
	return d2graph.Key(o.NearKey)[0]
}

// c19AncestorEnd: o is the container end of an edge that joins a container with one of its own descendants.
func c19AncestorEnd(gf *d2graph.Graph, o *d2graph.Object) bool {
	for _, e := range gf.Edges {
		if e.Src == e.Dst || e.Src == nil || e.Dst == nil {
			continue
		}
		if e.Src == o && e.Dst.IsDescendantOf(o) {
			return true
		}
		if e.Dst == o && e.Src.IsDescendantOf(o) {
			return true
		}
	}
	return false
}

// c19DagreRun: the dagre run that lays o out.  LayoutNested runs the engine once for the main graph and once for
// every constant near and every grid cell that is a plain container (each as its own graph whose root carries the
// container's attributes, so its own `direction`).  key = AbsID of the top object of the run ("" = main graph);
// ok = false: o is not placed by the engine (inside a sequence diagram, or a grid cell that is a leaf / special).
func c19DagreRun(gf *d2graph.Graph, o *d2graph.Object) (key, dir string, ok bool) {
	if o == nil || o.Parent == nil || c19InSeq(o) {
		return "", "", false
	}
	ownRun := func(p *d2graph.Object) bool {
		isCell := p.Parent != nil && p.Parent.IsGridDiagram()
		isNear := p.Parent == gf.Root && p.NearKey != nil && p.IsConstantNear()
		return isCell || isNear
	}
	if ownRun(o) {
		if o.IsGridDiagram() || o.IsSequenceDiagram() || (len(o.ChildrenArray) == 0 && o.Parent.IsGridDiagram()) {
			return "", "", false // placed by d2grid / d2near, its contents by d2grid / d2sequence
		}
		return o.AbsID(), o.Direction.Value, true
	}
	for p := o.Parent; p != nil && p != gf.Root; p = p.Parent {
		if ownRun(p) {
			if p.IsGridDiagram() || p.IsSequenceDiagram() {
				return "", "", false
			}
			return p.AbsID(), p.Direction.Value, true
		}
	}
	return "", gf.Root.Direction.Value, true
}

// c19CrossSpacing: Object.Spacing() -- a function of the label / icon positions, label size, icon, 3d / multiple, all
// fixed before the layout -- has a non-zero component ACROSS the rank direction dir (left/right for up/down,
// top/bottom for left/right): d2dagrelayout.adjustCrossRankSpacing then calls shiftReachableDown for the object.
func c19CrossSpacing(o *d2graph.Object, dir string) bool {
	if o.IsGridDiagram() { // skipped by adjustCrossRankSpacing
		return false
	}
	margin, padding := o.Spacing()
	if dir == "left" || dir == "right" {
		return margin.Top != 0 || margin.Bottom != 0 || padding.Top != 0 || padding.Bottom != 0
	}
	return margin.Left != 0 || margin.Right != 0 || padding.Left != 0 || padding.Right != 0
}

// c19RunHasCrossSpacing: adjustCrossRankSpacing is not a no-op in the dagre run that lays o out.
func c19RunHasCrossSpacing(gf *d2graph.Graph, o *d2graph.Object) (has bool, dir string) {
	key, dir, ok := c19DagreRun(gf, o)
	if !ok {
		return false, ""
	}
	for _, x := range gf.Objects {
		if k, _, okx := c19DagreRun(gf, x); okx && k == key && c19CrossSpacing(x, dir) {
			return true, dir
		}
	}
	return false, dir
}

// c19Explain: the known-finding id that explains violation v of `shapes` (objects of the laid-out graph gf), or "".
func c19Explain(v c19Viol, shapes []c19Shape, gf *d2graph.Graph, engine string) string {
	const tol = 1.0
	a, b := shapes[v.A], shapes[v.B]
	if a.Obj == nil || b.Obj == nil {
		return ""
	}
	if v.Kind == "contain" { // a = child, b = its container
		ex := math.Max(b.X-a.X, a.X+a.W-(b.X+b.W))
		ey := math.Max(b.Y-a.Y, a.Y+a.H-(b.Y+b.H))
		p := b.Obj
		if c19IsExplicitGrid(p) && a.Obj.Parent == p {
			// the grid keeps the explicit size along the axes that are set; the cells start at the padding and can
			// only stick out on the right / bottom of such an axis
			okX := ex <= tol || (p.WidthAttr != nil && a.X >= b.X-tol)
			okY := ey <= tol || (p.HeightAttr != nil && a.Y >= b.Y-tol)
			if okX && okY {
				return c19KFGridExplicit
			}
		}
		if c19IsPersonGrid(p) && a.Obj.Parent == p && !c19IsExplicitGrid(p) {
			return c19KFGridPerson
		}
		if engine == "elk" && len(p.ChildrenArray) > 0 && !p.IsGridDiagram() && !p.IsSequenceDiagram() && !c19InSeq(p) {
			// ELK: the margin of the outside label / icon is taken away from the container after the layout
			m, _ := p.SpacingOpt(label.PADDING, label.PADDING, false)
			okX := ex <= tol || (m.Left+m.Right > 0 && ex <= math.Max(m.Left, m.Right)+tol)
			okY := ey <= tol || (m.Top+m.Bottom > 0 && ey <= math.Max(m.Top, m.Bottom)+tol)
			outside := (p.HasLabel() && p.LabelPosition != nil && label.FromString(*p.LabelPosition).IsOutside()) ||
				(p.HasIcon() && p.IconPosition != nil && label.FromString(*p.IconPosition).IsOutside())
			if outside && okX && okY {
				return c19KFElkMargin
			}
		}
		if engine == "dagre" {
			if c19AncestorEnd(gf, p) || c19AncestorEnd(gf, a.Obj) {
				return c19KFDagreAncEdge
			}
			// adjustCrossRankSpacing only moves / grows shapes across the rank direction: the child must stick out on
			// that axis only, in a run in which adjustCrossRankSpacing acts at all
			if has, dir := c19RunHasCrossSpacing(gf, a.Obj); has && !p.IsGridDiagram() {
				horizontal := dir == "left" || dir == "right"
				if (horizontal && ex <= tol) || (!horizontal && ey <= tol) {
					return c19KFDagreSpacing
				}
			}
		}
		return ""
	}
	// overlap of two siblings
	if ka, kb := c19ConstNearKey(gf, a.Obj), c19ConstNearKey(gf, b.Obj); ka != "" && ka == kb {
		return c19KFNearsSame
	}
	if engine == "dagre" {
		if c19AncestorEnd(gf, a.Obj) || c19AncestorEnd(gf, b.Obj) {
			return c19KFDagreAncEdge
		}
		if has, _ := c19RunHasCrossSpacing(gf, a.Obj); has && (a.Obj.Parent == nil || !a.Obj.Parent.IsGridDiagram()) {
			return c19KFDagreSpacing
		}
	}
	return ""
}

// ---- control layouts: the same script with only the trigger of a grid defect removed ----

func c19ClearExplicitGrids(g *d2graph.Graph) {
	for _, o := range g.Objects {
		if o.IsGridDiagram() {
			o.WidthAttr, o.HeightAttr = nil, nil
		}
	}
}

func c19UnpersonGrids(g *d2graph.Graph) {
	for _, o := range g.Objects {
		if c19IsPersonGrid(o) {
			o.Shape.Value = "rectangle"
		}
	}
}

// c19ControlBadGrids lays the script out like d2lib.Compile does (compiler, SetDimensions with the real ruler,
// LayoutNested) after `mutate` changed the compiled graph, and returns the AbsIDs of the grid diagrams that still
// have a cell outside their box (float boxes, 1 px).  ok = false: the control could not be laid out.
func c19ControlBadGrids(script, engine string, mutate func(*d2graph.Graph)) (bad map[string]bool, ok bool) {
	defer func() {
		if e := recover(); e != nil {
			ok = false
		}
	}()
	g := c19Compile(script)
	if g == nil || c19Ruler == nil {
		return nil, false
	}
	mutate(g)
	if err := g.SetDimensions(nil, c19Ruler, nil, nil); err != nil {
		return nil, false
	}
	core := d2dagrelayout.DefaultLayout
	if engine == "elk" {
		core = d2elklayout.DefaultLayout
	}
	if err := d2layouts.LayoutNested(c19Ctx(), g, d2layouts.NestedGraphInfo(g.Root), core, d2layouts.DefaultRouter); err != nil {
		return nil, false
	}
	shapes := c19GraphShapes(g)
	bad = map[string]bool{}
	for _, v := range c19Check(shapes, 1) {
		if v.Kind == "contain" && shapes[v.B].Obj.IsGridDiagram() {
			bad[shapes[v.B].ID] = true
		}
	}
	return bad, true
}

// c19KFFor: the known-finding ids of a Pipe case, given all its violations; nil as soon as one is unexplained.
func c19KFFor(script, engine string, gf *d2graph.Graph, groups [][]c19Shape) (ids []string, unexplained []string) {
	has := map[string]bool{}
	grids := map[string]map[string]bool{} // defect id -> grids it is blamed for
	for _, shapes := range groups {
		for _, v := range c19Check(shapes, 1) {
			id := c19Explain(v, shapes, gf, engine)
			if id == "" {
				unexplained = append(unexplained, v.Kind+" "+shapes[v.A].ID+" / "+shapes[v.B].ID)
				continue
			}
			has[id] = true
			if id == c19KFGridExplicit || id == c19KFGridPerson {
				if grids[id] == nil {
					grids[id] = map[string]bool{}
				}
				grids[id][shapes[v.B].ID] = true
			}
		}
	}
	for id, blamed := range grids {
		mutate := c19ClearExplicitGrids
		if id == c19KFGridPerson {
			mutate = c19UnpersonGrids
		}
		bad, ok := c19ControlBadGrids(script, engine, mutate)
		for gid := range blamed {
			if !ok || bad[gid] {
				unexplained = append(unexplained, "control layout without the trigger of "+id+" still has a cell outside "+gid)
			}
		}
	}
	if len(unexplained) > 0 {
		sort.Strings(unexplained)
		return nil, unexplained
	}
	for id := range has {
		ids = append(ids, id)
	}
	sort.Strings(ids)
	return ids, nil
}

// c19Candidates: which defect classes the INPUT could trigger at all (used by the measurement mode and for the
// generator distribution report; never used to suppress anything).
func c19Candidates(g *d2graph.Graph, gf *d2graph.Graph, engine string) (ids []string) {
	if g == nil {
		return nil
	}
	has := map[string]bool{}
	nearKeys := map[string]int{}
	for _, o := range g.Objects {
		if len(o.ChildrenArray) > 0 && c19IsExplicitGrid(o) {
			has[c19KFGridExplicit] = true
		}
		if len(o.ChildrenArray) > 0 && c19IsPersonGrid(o) {
			has[c19KFGridPerson] = true
		}
		if o.Parent == g.Root && o.NearKey != nil && o.IsConstantNear() {
			nearKeys[d2graph.Key(o.NearKey)[0]]++
		}
	}
	for _, n := range nearKeys {
		if n > 1 {
			has[c19KFNearsSame] = true
		}
	}
	if gf != nil {
		for _, o := range gf.Objects {
			if engine == "elk" && len(o.ChildrenArray) > 0 && !o.IsGridDiagram() && !o.IsSequenceDiagram() && !c19InSeq(o) {
				if (o.HasLabel() && o.LabelPosition != nil && label.FromString(*o.LabelPosition).IsOutside()) ||
					(o.HasIcon() && o.IconPosition != nil && label.FromString(*o.IconPosition).IsOutside()) {
					has[c19KFElkMargin] = true
				}
			}
			if engine == "dagre" {
				if h, _ := c19RunHasCrossSpacing(gf, o); h {
					has[c19KFDagreSpacing] = true
				}
			}
		}
	}
	if engine == "dagre" {
		for _, e := range g.Edges {
			if e.Src != e.Dst && (e.Src.IsDescendantOf(e.Dst) || e.Dst.IsDescendantOf(e.Src)) {
				has[c19KFDagreAncEdge] = true
			}
		}
	}
	for _, id := range []string{c19KFGridExplicit, c19KFGridPerson, c19KFNearsSame, c19KFElkMargin, c19KFDagreAncEdge, c19KFDagreSpacing} {
		if has[id] {
			ids = append(ids, id)
		}
	}
	return ids
}
