package main

// C19: signatures of the known-finding classes.  Every predicate is a decidable property of the INPUT: it is
// evaluated on the graph d2compiler.Compile returns for the script (before any layout) plus the engine name.

import (
	"strings"

	"oss.terrastruct.com/d2/d2compiler"
	"oss.terrastruct.com/d2/d2graph"
)

const (
	c19KFGridExplicit = "C19-grid-explicit-size"
	c19KFGridPerson   = "C19-grid-person-shape"
	c19KFNearsSame    = "C19-nears-same-constant"
	c19KFElkMargin    = "C19-elk-container-outside-label"
	c19KFDagreAncEdge = "C19-dagre-container-descendant-edge"
	c19KFDagreSpacing = "C19-dagre-cross-rank-spacing"
)

func c19IsOutsidePos(s *d2graph.Scalar) bool {
	return s != nil && strings.HasPrefix(strings.ToLower(s.Value), "outside-")
}

func c19Compile(script string) *d2graph.Graph {
	g, _, err := d2compiler.Compile("", strings.NewReader(script), nil)
	if err != nil {
		return nil
	}
	return g
}

// c19InSpecial: o lives inside a sequence diagram (its layout is not the engine's)
func c19InSeq(o *d2graph.Object) bool {
	for p := o.Parent; p != nil; p = p.Parent {
		if p.IsSequenceDiagram() {
			return true
		}
	}
	return false
}

func c19KF(g *d2graph.Graph, gf *d2graph.Graph, engine string) (ids []string) {
	if g == nil {
		return nil
	}
	has := map[string]bool{}
	nearKeys := map[string]int{}
	for _, o := range g.Objects {
		if o.IsGridDiagram() && len(o.ChildrenArray) > 0 {
			if o.WidthAttr != nil || o.HeightAttr != nil {
				has[c19KFGridExplicit] = true
			}
			if strings.EqualFold(o.Shape.Value, "person") {
				has[c19KFGridPerson] = true
			}
		}
		if o.Parent == g.Root && o.NearKey != nil && o.IsConstantNear() {
			nearKeys[d2graph.Key(o.NearKey)[0]]++
		}
		if engine == "elk" && len(o.ChildrenArray) > 0 && !o.IsGridDiagram() && !o.IsSequenceDiagram() && !c19InSeq(o) {
			if (o.Label.Value != "" && c19IsOutsidePos(o.Attributes.LabelPosition)) ||
				(o.Icon != nil && c19IsOutsidePos(o.Attributes.IconPosition)) {
				has[c19KFElkMargin] = true
			}
		}
	}
	if engine == "elk" && gf != nil {
		// ELK's positionLabelsIcons moves a container label that is larger than the (explicit) width/height to
		// OUTSIDE_TOP_CENTER: read the position ELK was given from the laid-out graph
		for _, o := range gf.Objects {
			if len(o.ChildrenArray) > 0 && !o.IsGridDiagram() && !o.IsSequenceDiagram() && !c19InSeq(o) &&
				o.Label.Value != "" && o.LabelPosition != nil && strings.HasPrefix(*o.LabelPosition, "OUTSIDE_") &&
				(o.WidthAttr != nil || o.HeightAttr != nil) {
				has[c19KFElkMargin] = true
			}
		}
	}
	if engine == "dagre" {
		for _, e := range g.Edges {
			if e.Src != e.Dst && (e.Src.IsDescendantOf(e.Dst) || e.Dst.IsDescendantOf(e.Src)) {
				has[c19KFDagreAncEdge] = true
			}
		}
		if gf != nil {
			for _, o := range gf.Objects {
				if c19DagreCrossSpacing(gf, o) {
					has[c19KFDagreSpacing] = true
				}
			}
		}
	}
	for _, n := range nearKeys {
		if n > 1 {
			has[c19KFNearsSame] = true
		}
	}
	for _, id := range []string{c19KFGridExplicit, c19KFGridPerson, c19KFNearsSame, c19KFElkMargin, c19KFDagreAncEdge, c19KFDagreSpacing} {
		if has[id] {
			ids = append(ids, id)
		}
	}
	return ids
}

// c19DagreCrossSpacing: o is laid out by dagre as a NESTED node of its run (its parent is a container of the same
// dagre graph) and Object.Spacing() -- a function of the label / icon positions, label size, icon, 3d / multiple,
// all fixed before the layout -- has a non-zero component across the rank direction of that run (left/right for
// direction up/down, top/bottom for left/right): adjustCrossRankSpacing then calls shiftReachableDown for it.
func c19DagreCrossSpacing(gf *d2graph.Graph, o *d2graph.Object) bool {
	if o.Parent == nil || o.Parent == gf.Root || o.Parent.IsGridDiagram() || o.IsGridDiagram() {
		return false
	}
	dir := gf.Root.Direction.Value
	for p := o.Parent; p != nil && p != gf.Root; p = p.Parent {
		if p.IsSequenceDiagram() {
			return false
		}
		isCell := p.Parent != nil && p.Parent.IsGridDiagram()
		isNear := p.Parent == gf.Root && p.NearKey != nil && p.IsConstantNear()
		if isCell || isNear {
			dir = p.Direction.Value // the container is laid out as its own graph with its own attributes on the root
			break
		}
	}
	margin, padding := o.Spacing()
	if dir == "left" || dir == "right" {
		return margin.Top != 0 || margin.Bottom != 0 || padding.Top != 0 || padding.Bottom != 0
	}
	return margin.Left != 0 || margin.Right != 0 || padding.Left != 0 || padding.Right != 0
}
