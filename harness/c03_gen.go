package main

// Grammar-directed generator of D2 programs over the full language, shared by C03 and C04.
// All randomness comes from the *Rng passed in.

import (
	"os"
	"path/filepath"
	"regexp"
	"sort"
	"strings"
)

type c03G struct {
	r *Rng
	// compilable biases towards programs d2compiler accepts (valid keyword values, declared vars ...)
	compilable bool
	// odd enables unusual whitespace / separators / escapes
	odd     bool
	vars    []string
	classes []string
	objs    []string
	edges   [][2]string
}

var c03Plain = []string{"a", "b", "c", "d", "x", "y", "z", "n1", "my box", "a-b", "k8s", "Z_1", "日本", "héllo", "A", "q", "w", "users", "db", "api"}
var c03DQ = []string{`"a.b"`, `"x: y"`, `"a\"b"`, `"tab\tx"`, `"#1"`, `"a -> b"`, `"c d"`, `"semi;colon"`, `"{br}"`, `"back\\slash"`, `"new\nline"`, `"Shape"`, `"*"`, `"q'uote"`, `"(p)"`, `"[0]"`, `"a&b"`, `"é😀"`}
var c03SQ = []string{`'a''b'`, `'x.y'`, `'#c'`, `'a: b'`, `'d"q'`, `'\n'`, `'$v'`, `'{m}'`, `'a -> b'`}
var c03Esc = []string{`a\:b`, `a\.b`, `\#x`, `a\ b`, `x\-\-y`, `a\\b`, `a\;b`, `\{b\}`, `a\"b`, `a\'b`, `p\|q`, `a\&b`, `a\*b`, `\@x`, `a\<b`, `\(x\)`, `a\tb`}
var c03KwCase = []string{"Shape", "LABEL", "Style", "Near", "ICON", "Width", "Link", "Class", "Classes", "Vars", "Opacity", "Fill", "3D", "Direction", "Tooltip", "Constraint", "Source-Arrowhead", "Label", "Top", "Left", "Grid-Rows", "Font-Size"}
var c03OddKeys = []string{"Layers", "SCENARIOS", "Steps", "\"layers\"", "a-", "-a", "a - b", "a  b", "1", "1.5", "null", "_", "true", "a--", "a|b", "it's", `say"hi`, "a$b", "a@b", "a!", "!a", "a)", "a(b", "x*", "a\t b", "ａ", "e\u0301", "\u00a0nb", "a\u3000b"}

var c03Shapes = []string{"rectangle", "square", "circle", "oval", "diamond", "cylinder", "hexagon", "cloud", "person", "page", "parallelogram", "document", "queue", "package", "step", "callout", "stored_data", "text", "code", "class", "sql_table", "image", "sequence_diagram", "hierarchy", "c4-person"}
var c03Colors = []string{"red", "blue", "\"#ff0000\"", "\"#abc\"", "green", "transparent", "honeydew", "\"linear-gradient(#f69d3c, #3f87a6)\"", "N1", "B3", "AA4"}
var c03Nears = []string{"top-left", "top-center", "top-right", "center-left", "center-right", "bottom-left", "bottom-center", "bottom-right"}
var c03Arrowheads = []string{"triangle", "arrow", "diamond", "circle", "box", "cf-one", "cf-many", "cf-one-required", "cf-many-required", "cross", "none"}
var c03Texts = []string{"hello world", "Circle", "Label", "a\\#b", "x \\; y", "100%", "a: b", "https://example.com/a?b=c&d=1", "a | b", "it's", "say \"hi\"", "a -> b", "x]", "日本語 テキスト", "NULL", "True", "suspend", "Shape", "label", "-", "--", "->", "a--b", "$", "x\\$y", "50", "1.5e3", "0x1F", "1/3", "-7", "+3", ".5", "1_000", "e", "Inf", "a*b", "*", "(x)", "a.b.c", "x & y", "<tag>", "tab\\there", "q\\\\r", "trail\\ ", "\\ lead", "a\\nb", "wide　space", "mid  dle", "@notimport \\@", "!", "?", "a,b", "C:\\\\dir", "\\u00e9", "x\\{y\\}", "#", "\\#hash", "a\\[0\\]"}
var c03BlockTags = []string{"md", "", "latex", "tex", "go", "js", "markdown", "python", "d2", "txt"}
var c03BlockBodies = []string{"# Title", "hello", "a | b", "x || y", "`code` here", "\\frac{a}{b}", "const x = a || b | c", "line1\nline2", "  indented\n    more\n  back", "|", "end|", "|start", "a |` b", "a `| b", "x ||| y", "{ not: a map }", "# h\n\n- item\n- item2", "tab\there", "trailing space ", "\u3000ideographic indent\n\u3000second", "\u00a0nbsp indent\n  mixed", "é multi\n  é byte", "", " ", "'quote' \"dq\"", "a \\ b", "$var ${x}", "line\n\n\nmany blanks"}

func (g *c03G) pick(xs []string) string { return xs[g.r.Intn(len(xs))] }

func (g *c03G) seg() string {
	n := g.r.Intn(100)
	switch {
	case n < 55:
		return g.pick(c03Plain)
	case n < 66:
		return g.pick(c03DQ)
	case n < 74:
		return g.pick(c03SQ)
	case n < 82:
		return g.pick(c03Esc)
	case n < 90:
		if g.compilable && g.r.Chance(0.7) {
			return g.pick(c03Plain)
		}
		return g.pick(c03KwCase)
	default:
		if g.compilable && g.r.Chance(0.6) {
			return g.pick(c03Plain)
		}
		return g.pick(c03OddKeys)
	}
}

func (g *c03G) objPath() string {
	n := 1
	if g.r.Chance(0.3) {
		n = 2
	}
	if g.r.Chance(0.08) {
		n = 3
	}
	var segs []string
	for i := 0; i < n; i++ {
		segs = append(segs, g.seg())
	}
	dot := "."
	if g.odd && g.r.Chance(0.1) {
		dot = g.pick([]string{" . ", ". ", " ."})
	}
	p := strings.Join(segs, dot)
	if len(g.objs) < 40 {
		g.objs = append(g.objs, p)
	}
	return p
}

func (g *c03G) knownObj() string {
	if len(g.objs) > 0 && g.r.Chance(0.7) {
		return g.objs[g.r.Intn(len(g.objs))]
	}
	return g.objPath()
}

func (g *c03G) kw(s string) string {
	// a reserved keyword, sometimes in another letter case
	if g.r.Chance(0.15) {
		switch g.r.Intn(3) {
		case 0:
			return strings.ToUpper(s)
		case 1:
			return strings.ToUpper(s[:1]) + s[1:]
		default:
			b := []byte(s)
			i := g.r.Intn(len(b))
			b[i] = strings.ToUpper(string(b[i]))[0]
			return string(b)
		}
	}
	return s
}

func (g *c03G) text() string {
	if g.compilable && g.r.Chance(0.5) {
		return g.pick([]string{"hello world", "Circle", "Label", "my label", "100%", "x y z", "Shape", "日本語", "it's", "a: b"})
	}
	return g.pick(c03Texts)
}

func (g *c03G) blockString() string {
	tag := g.pick(c03BlockTags)
	body := g.pick(c03BlockBodies)
	// choose a quote that is legal for the body most of the time
	q := ""
	switch {
	case strings.Contains(body, "|||"):
		q = g.pick([]string{"`", "'", "|||"})
	case strings.Contains(body, "||"):
		q = g.pick([]string{"||", "`", "|'"})
	case strings.Contains(body, "|"):
		q = g.pick([]string{"|", "`", "||", "'"})
	default:
		q = g.pick([]string{"", "", "", "|", "`", "||", "'", "$", "%"})
	}
	if strings.Contains(body, "|"+q) || strings.Contains(body, q+"|") {
		q += "`"
	}
	open := "|" + q + tag
	cl := q + "|"
	if rq := []rune(q); len(rq) > 1 && g.r.Chance(0.7) {
		// what parseBlockString really accepts as terminator: last rune, then the quote minus its first byte(s)
		cl = string(rq[len(rq)-1]) + q[len(string(rq[len(rq)-1])):] + "|"
	}
	if strings.Contains(body, "\n") || g.r.Chance(0.3) {
		ind := g.pick([]string{"  ", "    ", "\t", " ", "", "  "})
		lines := strings.Split(body, "\n")
		for i := range lines {
			if lines[i] != "" {
				lines[i] = ind + lines[i]
			}
		}
		return open + "\n" + strings.Join(lines, "\n") + "\n" + cl
	}
	sp := " "
	if g.odd && g.r.Chance(0.2) {
		sp = g.pick([]string{"  ", " \t", "   "})
	}
	return open + sp + body + sp + cl
}

func (g *c03G) subst() string {
	if len(g.vars) > 0 && (g.compilable || g.r.Chance(0.8)) {
		return "${" + g.vars[g.r.Intn(len(g.vars))] + "}"
	}
	return "${" + g.pick([]string{"x", "a.b", "colors.primary", "v"}) + "}"
}

func (g *c03G) array(depth int) string {
	n := g.r.Intn(4)
	var els []string
	for i := 0; i < n; i++ {
		switch g.r.Intn(10) {
		case 0:
			els = append(els, g.pick(c03DQ))
		case 1:
			els = append(els, g.subst())
		case 2:
			if depth < 2 {
				els = append(els, g.array(depth+1))
			} else {
				els = append(els, "q")
			}
		case 3:
			els = append(els, "..."+g.subst())
		case 4:
			els = append(els, g.pick([]string{"1", "null", "true", "12345", "abcd", "ab"}))
		default:
			els = append(els, g.pick([]string{"a", "b", "primary_key", "foreign_key", "unique", "c1", "c2", "longer name", "x"}))
		}
	}
	switch g.r.Intn(5) {
	case 0:
		return "[\n  " + strings.Join(els, "\n  ") + "\n]"
	case 1:
		return "[" + strings.Join(els, ";") + "]"
	case 2:
		if len(els) > 0 && g.r.Bool() {
			return "[" + strings.Join(els, "; ") + " # c\n]"
		}
		return "[ " + strings.Join(els, " ; ") + " ]"
	default:
		return "[" + strings.Join(els, "; ") + "]"
	}
}

// scalar returns a value text (no map)
func (g *c03G) scalar() string {
	n := g.r.Intn(100)
	switch {
	case n < 40:
		return g.text()
	case n < 48:
		return g.pick(c03DQ)
	case n < 53:
		return g.pick(c03SQ)
	case n < 60:
		return g.pick([]string{"1", "42", "3.14", "-5", "1e3", "0x10", "1/2", "007", "1_0"})
	case n < 65:
		return g.pick([]string{"null", "true", "false", "Null", "TRUE", "False", "NULL"})
	case n < 78:
		return g.blockString()
	case n < 86:
		switch g.r.Intn(4) {
		case 0:
			return g.subst()
		case 1:
			return "pre " + g.subst() + " post"
		case 2:
			return `"q ` + g.subst() + ` q"`
		default:
			return g.subst() + g.subst()
		}
	case n < 90:
		return g.array(0)
	default:
		return g.text()
	}
}

type c03W struct {
	b   strings.Builder
	ind string
}

func (g *c03G) colon() string {
	if g.odd && g.r.Chance(0.15) {
		return g.pick([]string{":", " : ", ":  ", " :", ":\t"})
	}
	return ": "
}

// styleDecl returns one "style.xxx: v" style declaration (relative to an object or edge)
func (g *c03G) styleDecl(edge bool) string {
	var k, v string
	switch g.r.Intn(12) {
	case 0:
		k, v = "opacity", g.pick([]string{"0.4", "1", "0", "0.55"})
	case 1:
		k, v = "stroke", g.pick(c03Colors)
	case 2:
		k, v = "stroke-width", g.pick([]string{"1", "4", "15"})
	case 3:
		k, v = "stroke-dash", g.pick([]string{"0", "3", "10"})
	case 4:
		k, v = "font-size", g.pick([]string{"8", "14", "28"})
	case 5:
		k, v = "font-color", g.pick(c03Colors)
	case 6:
		k, v = "bold", g.pick([]string{"true", "false"})
	case 7:
		k, v = "italic", g.pick([]string{"true", "false"})
	case 8:
		k, v = "animated", g.pick([]string{"true", "false"})
	case 9:
		if edge {
			k, v = "underline", "true"
		} else {
			k, v = "fill", g.pick(c03Colors)
		}
	case 10:
		if edge {
			k, v = "font-color", "red"
		} else {
			k, v = g.pick([]string{"shadow", "multiple", "3d", "double-border"}), g.pick([]string{"true", "false"})
		}
	default:
		if edge {
			k, v = "stroke", "blue"
		} else {
			k, v = "border-radius", g.pick([]string{"0", "5", "20"})
		}
	}
	if !g.compilable && g.r.Chance(0.1) {
		v = g.text()
	}
	return g.kw("style") + "." + g.kw(k) + g.colon() + v
}

// attrDecl returns one reserved-keyword declaration for an object
func (g *c03G) attrDecl() string {
	switch g.r.Intn(16) {
	case 0, 1:
		return g.kw("shape") + g.colon() + g.pick(c03Shapes)
	case 2:
		return g.kw("label") + g.colon() + g.scalarNoArr()
	case 3:
		return g.styleDecl(false)
	case 4:
		return g.kw("near") + g.colon() + g.pick(c03Nears)
	case 5:
		return g.kw("width") + g.colon() + g.pick([]string{"100", "55", "300"})
	case 6:
		return g.kw("height") + g.colon() + g.pick([]string{"100", "70"})
	case 7:
		return g.kw("icon") + g.colon() + "https://icons.terrastruct.com/essentials/time.svg"
	case 8:
		return g.kw("tooltip") + g.colon() + g.text()
	case 9:
		return g.kw("link") + g.colon() + g.pick([]string{"https://example.com", "layers.l1", "https://a.b/c?d=e#f"})
	case 10:
		if len(g.classes) > 0 {
			if g.r.Chance(0.3) {
				return g.kw("class") + g.colon() + "[" + strings.Join(g.classes, "; ") + "]"
			}
			return g.kw("class") + g.colon() + g.classes[g.r.Intn(len(g.classes))]
		}
		return g.kw("direction") + g.colon() + g.pick([]string{"up", "down", "left", "right"})
	case 11:
		return g.kw("direction") + g.colon() + g.pick([]string{"up", "down", "left", "right"})
	case 12:
		return g.kw("grid-rows") + g.colon() + g.pick([]string{"1", "2", "3"})
	case 13:
		return g.kw("label") + "." + g.kw("near") + g.colon() + g.pick(c03Nears)
	case 14:
		return g.kw("style") + g.colon() + "{" + g.kw("fill") + g.colon() + g.pick(c03Colors) + "; " + g.kw("opacity") + g.colon() + "0.5}"
	default:
		return g.kw("constraint") + g.colon() + g.pick([]string{"primary_key", "[primary_key; unique]", "foreign_key"})
	}
}

func (g *c03G) scalarNoArr() string {
	for i := 0; i < 5; i++ {
		s := g.scalar()
		if !strings.HasPrefix(s, "[") {
			return s
		}
	}
	return "x"
}

func (g *c03G) arrow() string {
	return g.pick([]string{"->", "->", "->", "<-", "<->", "--", "-->", "<--", "---", "<-->"})
}

func (g *c03G) edgeDecl() string {
	n := 2
	if g.r.Chance(0.25) {
		n = 3 + g.r.Intn(2)
	}
	var b strings.Builder
	prev := g.knownObj()
	b.WriteString(prev)
	for i := 1; i < n; i++ {
		sp1, sp2 := " ", " "
		if g.odd && g.r.Chance(0.15) {
			sp1 = g.pick([]string{"", "  ", " \\\n  "})
			sp2 = g.pick([]string{"", "  "})
		}
		cur := g.knownObj()
		b.WriteString(sp1 + g.arrow() + sp2 + cur)
		if len(g.edges) < 20 {
			g.edges = append(g.edges, [2]string{prev, cur})
		}
		prev = cur
	}
	return b.String()
}

func (g *c03G) edgeRef() string {
	var e [2]string
	if len(g.edges) > 0 {
		e = g.edges[g.r.Intn(len(g.edges))]
	} else {
		e = [2]string{"a", "b"}
	}
	idx := g.pick([]string{"[0]", "[0]", "[1]", "[*]", "", "[ 0 ]"})
	s := "(" + e[0] + " -> " + e[1] + ")" + idx
	if g.r.Chance(0.15) {
		s = g.seg() + "." + s
	}
	return s
}

func (g *c03G) edgeMapBody() string {
	var ds []string
	n := 1 + g.r.Intn(3)
	for i := 0; i < n; i++ {
		switch g.r.Intn(5) {
		case 0:
			ds = append(ds, g.kw("source-arrowhead")+g.colon()+g.pick([]string{"1", "*", "{shape: diamond}", "{shape: " + g.pick(c03Arrowheads) + "; style.filled: true}"}))
		case 1:
			ds = append(ds, g.kw("target-arrowhead")+g.colon()+"{"+g.kw("shape")+": "+g.pick(c03Arrowheads)+"}")
		case 2:
			ds = append(ds, g.kw("label")+g.colon()+g.text())
		default:
			ds = append(ds, g.styleDecl(true))
		}
	}
	return strings.Join(ds, "; ")
}

func (g *c03G) comment() string {
	return "# " + g.pick([]string{"comment", "TODO: x", "a: b", "{", "\"\"\"", "", " two  spaces", "日本", "#nested # hash", "x -> y"})
}

func (g *c03G) blockComment() string {
	if g.r.Bool() {
		return "\"\"\" " + g.pick([]string{"one line", "x: y", "# not"}) + " \"\"\""
	}
	return "\"\"\"\n" + g.pick([]string{"multi\nline", "  indented\n\n  blank above", "x -> y\n}"}) + "\n\"\"\""
}

func (g *c03G) boardBlock(depth int) string {
	kind := g.pick([]string{"layers", "scenarios", "steps"})
	if g.r.Chance(0.15) {
		kind = g.kw(kind)
	}
	nb := 1 + g.r.Intn(2)
	var bs []string
	for i := 0; i < nb; i++ {
		name := g.pick([]string{"l1", "s1", "one", "two", "b", "x", "\"board 2\""})
		body := g.mapBody(depth+2, 1+g.r.Intn(3), false)
		bs = append(bs, name+": "+body)
	}
	if g.r.Chance(0.3) {
		return kind + ": {" + strings.Join(bs, "; ") + "}"
	}
	ind := strings.Repeat("  ", depth+1)
	return kind + ": {\n" + ind + strings.Join(bs, "\n"+ind) + "\n" + strings.Repeat("  ", depth) + "}"
}

// decl returns one declaration (may span lines) for a map at the given depth
func (g *c03G) decl(depth int, inBoardable bool) string {
	n := g.r.Intn(100)
	switch {
	case n < 14:
		return g.objPath()
	case n < 26:
		return g.objPath() + g.colon() + g.scalarNoArr()
	case n < 36:
		if depth < 3 {
			p := g.objPath()
			prim := ""
			if g.r.Chance(0.35) {
				prim = g.pick([]string{"Label", "\"q\"", "'s'", "text here", "1", "null", "|md x|"}) + " "
			}
			return p + g.colon() + prim + g.mapBody(depth, g.r.Intn(4), g.r.Chance(0.3))
		}
		return g.objPath()
	case n < 48:
		e := g.edgeDecl()
		switch g.r.Intn(4) {
		case 0:
			return e + g.colon() + g.scalarNoArr()
		case 1:
			return e + g.colon() + "{" + g.edgeMapBody() + "}"
		case 2:
			return e + g.colon() + g.text() + " {\n" + strings.Repeat("  ", depth+1) + g.edgeMapBody() + "\n" + strings.Repeat("  ", depth) + "}"
		}
		return e
	case n < 54:
		r := g.edgeRef()
		switch g.r.Intn(3) {
		case 0:
			return r + "." + g.styleDecl(true)
		case 1:
			return r + g.colon() + g.text()
		}
		return r + g.colon() + "{" + g.edgeMapBody() + "}"
	case n < 66:
		o := ""
		if g.r.Chance(0.6) {
			o = g.knownObj() + "."
		}
		return o + g.attrDecl()
	case n < 71:
		return g.comment()
	case n < 73:
		return g.blockComment()
	case n < 78: // globs
		gl := g.pick([]string{"*", "**", "***", "a*", "*.*", "x.*", "*b"})
		switch g.r.Intn(4) {
		case 0:
			return gl + "." + g.attrDecl()
		case 1:
			return gl + ": {" + g.pick([]string{"&shape: circle", "!&shape: circle", "&label: a", "&connected: true", "&leaf: true", "&level: 1"}) + "; " + g.styleDecl(false) + "}"
		case 2:
			return "(* -> *)[*]." + g.styleDecl(true)
		default:
			return gl + " -> " + g.pick([]string{"*", "y", "**"})
		}
	case n < 82: // vars / substitutions / spreads
		switch g.r.Intn(4) {
		case 0:
			return g.objPath() + g.colon() + g.subst()
		case 1:
			return "..." + g.subst()
		case 2:
			return g.objPath() + g.colon() + "{..." + g.subst() + "}"
		default:
			return g.objPath() + g.colon() + g.subst() + " " + g.text()
		}
	case n < 86: // imports
		f := g.pick([]string{"x", "x.d2", "sub/y", "./x", "sub/../x", "\"sub/y\"", "x.obj", "\"x\".obj"})
		switch g.r.Intn(3) {
		case 0:
			return "...@" + f
		case 1:
			return g.objPath() + g.colon() + "@" + f
		default:
			return g.objPath() + g.colon() + "{...@" + f + "}"
		}
	case n < 90:
		if inBoardable && depth < 2 && (depth > 0 || len(g.objs) > 2) {
			return g.boardBlock(depth)
		}
		return g.objPath()
	case n < 93:
		return g.objPath() + g.colon() + g.array(0)
	case n < 96:
		return g.objPath() + g.colon() + g.pick([]string{"null", "Null", "NULL"})
	default:
		return g.pick([]string{"a -> b: {\n  source-arrowhead: 1\n  target-arrowhead: *\n}", "t: {\n  shape: sql_table\n  id: int {constraint: primary_key}\n  name: varchar\n}", "s: {\n  shape: sequence_diagram\n  alice -> bob: hi\n  bob -> alice: yo\n}", "c: {\n  shape: class\n  +field: int\n  -method(a): void\n}", "g: {\n  grid-rows: 2\n  a; b; c; d\n}", "x: |md\n  # heading\n  text\n|", "a.b.c.d", "a: {b: {c: {d}}}", "x; y; z", "a: 1; b: 2"})
	}
}

// mapBody returns "{...}" with n declarations, on one line when oneLine
func (g *c03G) mapBody(depth, n int, oneLine bool) string {
	var ds []string
	for i := 0; i < n; i++ {
		d := g.decl(depth+1, true)
		if oneLine && (strings.Contains(d, "\n") || strings.HasPrefix(d, "#")) {
			d = g.objPath()
		}
		ds = append(ds, d)
	}
	if oneLine {
		sep := "; "
		if g.odd && g.r.Chance(0.3) {
			sep = g.pick([]string{";", " ; ", ";  ", "; ;"})
		}
		return "{" + strings.Join(ds, sep) + "}"
	}
	ind := strings.Repeat("  ", depth+1)
	if g.odd && g.r.Chance(0.2) {
		ind = g.pick([]string{"\t", " ", "      ", ""})
	}
	var b strings.Builder
	b.WriteString("{\n")
	for _, d := range ds {
		if g.r.Chance(0.12) {
			b.WriteString("\n")
		}
		if g.r.Chance(0.04) {
			b.WriteString("\n\n")
		}
		b.WriteString(ind + strings.ReplaceAll(d, "\n", "\n"+ind))
		if g.r.Chance(0.08) {
			b.WriteString(" " + g.comment())
		}
		if g.odd && g.r.Chance(0.1) {
			b.WriteString(g.pick([]string{" ", ";", "  ", "\t"}))
		}
		b.WriteString("\n")
	}
	b.WriteString(strings.Repeat("  ", depth) + "}")
	return b.String()
}

// program generates one D2 program.
func c03Program(r *Rng, compilable bool) string {
	g := &c03G{r: r, compilable: compilable, odd: !compilable && r.Chance(0.5) || r.Chance(0.15)}
	var parts []string
	if r.Chance(0.3) { // vars block
		var vs []string
		for _, v := range []string{"v", "colors", "x", "name"} {
			if r.Chance(0.6) {
				switch v {
				case "colors":
					vs = append(vs, "colors: {primary: red; second: \"#00f\"}")
					g.vars = append(g.vars, "colors.primary", "colors.second")
				default:
					vs = append(vs, v+": "+g.pick([]string{"1", "hello", "\"q s\"", "circle", "im a var"}))
					g.vars = append(g.vars, v)
				}
			}
		}
		if r.Chance(0.35) {
			var cs []string
			for _, c := range []string{"theme-id: " + g.pick([]string{"0", "1", "3", "200", "300"}), "sketch: " + g.pick([]string{"true", "false"}), "layout-engine: " + g.pick([]string{"dagre", "elk"}), "pad: " + g.pick([]string{"0", "50"}), "center: true", "dark-theme-id: 200", "theme-overrides: {B1: \"#ff0000\"}"} {
				if r.Chance(0.35) {
					cs = append(cs, c)
				}
			}
			vs = append(vs, "d2-config: {"+strings.Join(cs, "; ")+"}")
		}
		if r.Bool() {
			parts = append(parts, g.kw("vars")+": {\n  "+strings.Join(vs, "\n  ")+"\n}")
		} else {
			parts = append(parts, g.kw("vars")+": {"+strings.Join(vs, "; ")+"}")
		}
	}
	if r.Chance(0.25) {
		parts = append(parts, g.kw("classes")+": {\n  c1: {"+g.styleDecl(false)+"}\n  c2: {\n    "+g.attrDecl()+"\n    "+g.kw("label")+": CL\n  }\n}")
		g.classes = []string{"c1", "c2"}
	}
	boardsFirst := r.Chance(0.05)
	if boardsFirst && r.Chance(0.7) {
		parts = append(parts, g.boardBlock(0))
	}
	n := 1 + r.Intn(8)
	for i := 0; i < n; i++ {
		parts = append(parts, g.decl(0, true))
	}
	if r.Chance(0.2) {
		parts = append(parts, g.boardBlock(0))
	}
	if r.Chance(0.1) {
		parts = append(parts, g.decl(0, false))
	}
	if r.Chance(0.15) {
		// shuffle a little
		i, j := r.Intn(len(parts)), r.Intn(len(parts))
		parts[i], parts[j] = parts[j], parts[i]
	}
	var b strings.Builder
	if g.odd && r.Chance(0.15) {
		b.WriteString(g.pick([]string{"\n", "\n\n", "  ", "\t\n"}))
	}
	for i, p := range parts {
		b.WriteString(p)
		if i == len(parts)-1 {
			break
		}
		switch {
		case r.Chance(0.15):
			b.WriteString("\n\n")
		case r.Chance(0.04):
			b.WriteString("\n\n\n")
		case r.Chance(0.06) && !strings.Contains(p, "\n") && !strings.HasPrefix(p, "#"):
			b.WriteString(g.pick([]string{"; ", ";", " ;  ", ";;"}))
		case g.odd && r.Chance(0.05):
			b.WriteString(" \n\t")
		default:
			b.WriteString("\n")
		}
	}
	switch r.Intn(6) {
	case 0:
	case 1:
		b.WriteString("\n\n")
	case 2:
		if g.odd {
			b.WriteString("  ")
		} else {
			b.WriteString("\n")
		}
	default:
		b.WriteString("\n")
	}
	return b.String()
}

// c03Mutate applies a few token-level mutations (delete / duplicate / swap / insert a special).
func c03Mutate(r *Rng, s string) string {
	toks := regexp.MustCompile(`\s+|[A-Za-z0-9_]+|.`).FindAllString(s, -1)
	if len(toks) == 0 {
		return s
	}
	k := 1 + r.Intn(3)
	for ; k > 0; k-- {
		i := r.Intn(len(toks))
		switch r.Intn(5) {
		case 0:
			toks = append(toks[:i], toks[i+1:]...)
		case 1:
			toks = append(toks[:i+1], toks[i:]...)
		case 2:
			j := r.Intn(len(toks))
			toks[i], toks[j] = toks[j], toks[i]
		case 3:
			sp := []string{";", "\n", " ", "\\", "{", "}", ":", ".", "#", "|", "\"", "'", "-", ">", "*", "&", "(", ")", "[", "]", "$", "@", "\\\n", "\t", "\r\n"}
			toks = append(toks[:i], append([]string{sp[r.Intn(len(sp))]}, toks[i:]...)...)
		default:
			toks[i] = strings.ToUpper(toks[i])
		}
		if len(toks) == 0 {
			break
		}
	}
	return strings.Join(toks, "")
}

// ---- corpus from the repository ----

var c03CorpusCache []string

var c03Backtick = regexp.MustCompile("(?s)`([^`]*)`")

// c03Corpus returns every .d2 file under the repository's test and docs directories, the files of the
// txtar archives, and every back-quoted Go string of the formatter/parser/compiler/oracle/e2e tests
// (most of them are D2 scripts; those that do not parse are skipped by the callers).
func c03Corpus() []string {
	if c03CorpusCache != nil {
		return c03CorpusCache
	}
	root := repoRoot()
	seen := map[string]bool{}
	var out []string
	add := func(s string) {
		if len(s) == 0 || len(s) > 6000 || seen[s] {
			return
		}
		seen[s] = true
		out = append(out, s)
	}
	var files []string
	for _, d := range []string{"e2etests", "testdata", "docs", "d2format", "d2parser", "d2compiler", "d2oracle", "d2ir", "d2chaos", "d2cli", "d2lsp", "d2js"} {
		filepath.Walk(filepath.Join(root, d), func(p string, info os.FileInfo, err error) error {
			if err != nil || info.IsDir() {
				return nil
			}
			if strings.HasSuffix(p, ".d2") || strings.HasSuffix(p, "_test.go") || strings.HasSuffix(p, "txtar.txt") {
				files = append(files, p)
			}
			return nil
		})
	}
	sort.Strings(files)
	for _, f := range files {
		data, err := os.ReadFile(f)
		if err != nil {
			continue
		}
		s := string(data)
		switch {
		case strings.HasSuffix(f, ".d2"):
			add(s)
		case strings.HasSuffix(f, ".txt"):
			for _, part := range regexp.MustCompile(`(?m)^-- .* --$`).Split(s, -1) {
				add(strings.TrimLeft(part, "\n"))
			}
		default:
			for _, m := range c03Backtick.FindAllStringSubmatch(s, -1) {
				if strings.ContainsAny(m[1], ":->{") || !strings.Contains(m[1], " ") {
					add(m[1])
				}
			}
		}
	}
	c03CorpusCache = out
	return out
}
