package main

// C23 — sequence diagrams keep actor and message order.
//
// For every generated script the harness
//   (A) compiles it with the real compiler and measures it with the real text ruler
//       (d2compiler.Compile + Graph.SetDimensions) and snapshots what the layout reads
//       (sizes, label dimensions, line numbers, the actor / span / note / group structure);
//   (B) runs the real pipeline d2lib.Compile (compiler -> SetDimensions -> LayoutNested ->
//       d2sequence.Layout) on the same text and reads the laid-out boxes and routes (float64,
//       passed to Coq as exact dyadic rationals);
//   (C) runs the real slices.SortFunc with the layout's comparator keys on the object / edge
//       order the compiler produced (oracle hypotheses of the order theorem).
// Coq evaluates the model on (A), compares with (B) and evaluates the property clauses on (B).

import (
	"cmp"
	"context"
	"fmt"
	"hash/fnv"
	"io"
	"log/slog"
	"math"
	"math/big"
	"slices"
	"sort"
	"strings"

	"oss.terrastruct.com/d2/d2compiler"
	"oss.terrastruct.com/d2/d2graph"
	"oss.terrastruct.com/d2/d2layouts/d2dagrelayout"
	"oss.terrastruct.com/d2/d2layouts/d2sequence"
	"oss.terrastruct.com/d2/d2lib"
	"oss.terrastruct.com/d2/d2target"
	"oss.terrastruct.com/d2/lib/log"
	"oss.terrastruct.com/d2/lib/textmeasure"
)

func init() {
	register(&Prop{ID: "C23", Module: "V.C23.Check", Gen: c23Gen, Quick: 120, Thorough: 3000, Shard: 9})
}

var c23Ruler *textmeasure.Ruler

func c23Ctx() context.Context {
	return log.With(context.Background(), slog.New(slog.NewTextHandler(io.Discard, nil)))
}

// ---------------------------------------------------------------- Coq printers

func c23Q(f float64) string {
	if math.IsNaN(f) || math.IsInf(f, 0) {
		panic("c23: non-finite coordinate")
	}
	r := new(big.Rat).SetFloat64(f)
	n, d := r.Num(), r.Denom()
	if n.Sign() < 0 {
		return fmt.Sprintf("(q (%s) %s)", n.String(), d.String())
	}
	return fmt.Sprintf("(q %s %s)", n.String(), d.String())
}

func c23Box(o *d2graph.Object) string {
	return fmt.Sprintf("(mkBox %s %s %s %s)", c23Q(o.TopLeft.X), c23Q(o.TopLeft.Y), c23Q(o.Width), c23Q(o.Height))
}

func c23Nats(xs []int) string {
	var s []string
	for _, x := range xs {
		s = append(s, coqNat(x))
	}
	return coqList(s)
}

// ---------------------------------------------------------------- replicated (unexported) keys

func c23ObjLine(o *d2graph.Object) int {
	min := int(math.MaxInt32)
	for _, ref := range o.References {
		if ref.MapKey == nil {
			continue
		}
		if ref.Key.HasGlob() {
			continue
		}
		if l := ref.MapKey.Range.Start.Line; l < min {
			min = l
		}
	}
	return min
}

func c23EdgeLine(e *d2graph.Edge) int {
	min := int(math.MaxInt32)
	for _, ref := range e.References {
		if ref.MapKey == nil {
			continue
		}
		if ref.Edge.Src.HasGlob() || ref.Edge.Dst.HasGlob() {
			continue
		}
		if l := ref.MapKey.Range.Start.Line; l < min {
			min = l
		}
	}
	return min
}

// first mention in the text (byte offset of the key path element / of the edge)
func c23ObjPos(o *d2graph.Object) int {
	min := math.MaxInt32
	for _, ref := range o.References {
		if ref.Key == nil || ref.KeyPathIndex >= len(ref.Key.Path) {
			continue
		}
		if b := ref.Key.Path[ref.KeyPathIndex].Unbox().GetRange().Start.Byte; b < min {
			min = b
		}
	}
	return min
}

func c23EdgePos(e *d2graph.Edge) int {
	min := math.MaxInt32
	for _, ref := range e.References {
		if ref.Edge == nil {
			continue
		}
		if b := ref.Edge.Range.Start.Byte; b < min {
			min = b
		}
	}
	return min
}

// ---------------------------------------------------------------- snapshot of the layout's input

type c23Snap struct {
	actors, notes, spans, groups            []*d2graph.Object
	msgs                                    []*d2graph.Edge
	coqInput                                string
	objsIn, objsOut, msgsIn, msgsOut        string
	nActors, nMsgs, nSpans, nNotes, nGroups int
	maxSameLine                             int
}

func c23Snapshot(g *d2graph.Graph) *c23Snap {
	root := g.Root
	s := &c23Snap{}

	// text positions
	objs := append([]*d2graph.Object{}, root.ChildrenArray...)
	byPos := append([]*d2graph.Object{}, objs...)
	sort.SliceStable(byPos, func(i, j int) bool { return c23ObjPos(byPos[i]) < c23ObjPos(byPos[j]) })
	objID := map[*d2graph.Object]int{}
	for i, o := range byPos {
		objID[o] = i
	}
	edges := append([]*d2graph.Edge{}, g.Edges...)
	eByPos := append([]*d2graph.Edge{}, edges...)
	sort.SliceStable(eByPos, func(i, j int) bool { return c23EdgePos(eByPos[i]) < c23EdgePos(eByPos[j]) })
	edgeID := map[*d2graph.Edge]int{}
	for i, e := range eByPos {
		edgeID[e] = i
	}

	// the two real sorts, on copies, with the layout's keys
	sortedObjs := append([]*d2graph.Object{}, objs...)
	slices.SortFunc(sortedObjs, func(a, b *d2graph.Object) int { return cmp.Compare(c23ObjLine(a), c23ObjLine(b)) })
	sortedEdges := append([]*d2graph.Edge{}, edges...)
	slices.SortFunc(sortedEdges, func(a, b *d2graph.Edge) int { return cmp.Compare(c23EdgeLine(a), c23EdgeLine(b)) })

	// classification as in newSequenceDiagram
	for _, obj := range sortedObjs {
		if obj.IsSequenceDiagramGroup() {
			queue := []*d2graph.Object{obj}
			for len(queue) > 0 {
				curr := queue[0]
				s.groups = append(s.groups, curr)
				queue = queue[1:]
				queue = append(queue, curr.ChildrenArray...)
			}
		} else {
			s.actors = append(s.actors, obj)
		}
	}
	rank := map[*d2graph.Object]int{}
	noteIdx := map[*d2graph.Object]int{}
	spanIdx := map[*d2graph.Object]int{}
	for r, a := range s.actors {
		rank[a] = r
		queue := append([]*d2graph.Object{}, a.ChildrenArray...)
		for len(queue) > 0 {
			child := queue[0]
			queue = queue[1:]
			if child.IsSequenceDiagramNote() {
				noteIdx[child] = len(s.notes)
				s.notes = append(s.notes, child)
			} else {
				spanIdx[child] = len(s.spans)
				s.spans = append(s.spans, child)
			}
			rank[child] = r
			queue = append(queue, child.ChildrenArray...)
		}
	}
	groupIdx := map[*d2graph.Object]int{}
	for i, gr := range s.groups {
		groupIdx[gr] = i
	}
	s.msgs = sortedEdges

	var as, ns, ms, ss, gs []string
	for _, a := range s.actors {
		scale := false
		switch strings.ToLower(a.Shape.Value) {
		case d2target.ShapePerson, d2target.ShapeOval, d2target.ShapeSquare, d2target.ShapeCircle:
			scale = true
		}
		as = append(as, fmt.Sprintf("mkActor %s %s %s %s %s %s", c23Q(a.Width), c23Q(a.Height), coqBool(scale),
			coqBool(a.HasOutsideBottomLabel()), coqBool(a.HasLabel()), coqZ(int64(a.LabelDimensions.Height))))
	}
	for _, n := range s.notes {
		ns = append(ns, fmt.Sprintf("mkNote %s %s %s %s", coqNat(rank[n]), c23Q(n.Width), c23Q(n.Height), coqZ(int64(c23ObjLine(n)))))
	}
	spanOpt := func(o *d2graph.Object) string {
		if o.Parent == root {
			return "None"
		}
		if i, ok := spanIdx[o]; ok {
			return "(Some " + coqNat(i) + ")"
		}
		panic("c23: message endpoint is neither an actor nor a span: " + o.AbsID())
	}
	for _, m := range s.msgs {
		ms = append(ms, fmt.Sprintf("mkMsg %s %s %s %s %s %s %s %s", coqNat(rank[m.Src]), coqNat(rank[m.Dst]), coqBool(m.Src == m.Dst),
			spanOpt(m.Src), spanOpt(m.Dst), coqZ(int64(m.LabelDimensions.Width)), coqZ(int64(m.LabelDimensions.Height)), coqZ(int64(c23EdgeLine(m)))))
	}
	for _, sp := range s.spans {
		var cs, cn []int
		for _, ch := range sp.ChildrenArray {
			if i, ok := spanIdx[ch]; ok {
				cs = append(cs, i)
			} else if i, ok := noteIdx[ch]; ok {
				cn = append(cn, i)
			}
		}
		ss = append(ss, fmt.Sprintf("mkSpan %s %s %s %s", coqNat(rank[sp]), coqZ(int64(sp.Level())-int64(root.Level())-2), c23Nats(cs), c23Nats(cn)))
	}
	for _, gr := range s.groups {
		var gm, gn, gc []int
		for i, m := range s.msgs {
			if m.ContainedBy(gr) {
				gm = append(gm, i)
			}
		}
		for i, n := range s.notes {
			in := false
			for _, ref := range n.References {
				if ref.Key.HasGlob() {
					continue
				}
				for curr := ref.ScopeObj; curr != nil; curr = curr.Parent {
					if curr == gr {
						in = true
						break
					}
				}
				if in {
					break
				}
			}
			if in {
				gn = append(gn, i)
			}
		}
		for _, ch := range gr.ChildrenArray {
			if i, ok := groupIdx[ch]; ok {
				gc = append(gc, i)
			}
		}
		gs = append(gs, fmt.Sprintf("mkGroup %s %s %s %s %s %s", coqZ(int64(gr.Level())), c23Nats(gm), c23Nats(gn), c23Nats(gc),
			coqBool(gr.HasLabel()), coqZ(int64(gr.LabelDimensions.Height))))
	}
	rootlh := 0
	if root.HasLabel() {
		rootlh = root.LabelDimensions.Height
	}
	s.coqInput = fmt.Sprintf("(mkInput %s\n    %s\n    %s\n    %s\n    %s\n    %s)", coqZ(int64(rootlh)),
		coqList(as), coqList(ns), coqList(ms), coqList(ss), coqList(gs))

	// sort oracle observations
	var oi, oo, mi, mo []string
	for _, o := range objs {
		oi = append(oi, coqTuple(coqZ(int64(c23ObjLine(o))), coqNat(objID[o]), coqBool(!o.IsSequenceDiagramGroup())))
	}
	for _, o := range sortedObjs {
		oo = append(oo, coqNat(objID[o]))
	}
	lineCount := map[int]int{}
	for _, e := range edges {
		l := c23EdgeLine(e)
		mi = append(mi, coqTuple(coqZ(int64(l)), coqNat(edgeID[e])))
		lineCount[l]++
		if lineCount[l] > s.maxSameLine {
			s.maxSameLine = lineCount[l]
		}
	}
	for _, e := range sortedEdges {
		mo = append(mo, coqNat(edgeID[e]))
	}
	s.objsIn, s.objsOut, s.msgsIn, s.msgsOut = coqList(oi), coqList(oo), coqList(mi), coqList(mo)
	s.nActors, s.nMsgs, s.nSpans, s.nNotes, s.nGroups = len(s.actors), len(s.msgs), len(s.spans), len(s.notes), len(s.groups)
	return s
}

// ---------------------------------------------------------------- the implementation's geometry

func c23Geom(s *c23Snap, g *d2graph.Graph) (string, error) {
	byID := map[string]*d2graph.Object{}
	for _, o := range g.Objects {
		byID[o.AbsID()] = o
	}
	edgeByID := map[string]*d2graph.Edge{}
	lifeline := map[string]*d2graph.Edge{}
	for _, e := range g.Edges {
		if d2sequence.IsLifelineEnd(e.Dst) {
			lifeline[e.Src.AbsID()] = e
			continue
		}
		edgeByID[e.AbsID()] = e
	}
	find := func(o *d2graph.Object) (*d2graph.Object, error) {
		x := byID[o.AbsID()]
		if x == nil || x.Box == nil || x.TopLeft == nil {
			return nil, fmt.Errorf("object %s has no box after layout", o.AbsID())
		}
		return x, nil
	}
	boxes := func(os []*d2graph.Object, opt bool) (string, error) {
		var xs []string
		for _, o := range os {
			x, err := find(o)
			if err != nil {
				return "", err
			}
			finite := !(math.IsInf(x.TopLeft.X, 0) || math.IsInf(x.TopLeft.Y, 0) || math.IsInf(x.Width, 0) || math.IsInf(x.Height, 0) ||
				math.IsNaN(x.TopLeft.X) || math.IsNaN(x.TopLeft.Y) || math.IsNaN(x.Width) || math.IsNaN(x.Height))
			if opt {
				if finite {
					xs = append(xs, "Some ("+c23Box(x)+")")
				} else {
					xs = append(xs, "None")
				}
			} else {
				if !finite {
					return "", fmt.Errorf("object %s has a non-finite box", o.AbsID())
				}
				xs = append(xs, c23Box(x))
			}
		}
		return coqList(xs), nil
	}
	ab, err := boxes(s.actors, false)
	if err != nil {
		return "", err
	}
	nb, err := boxes(s.notes, false)
	if err != nil {
		return "", err
	}
	sb, err := boxes(s.spans, false)
	if err != nil {
		return "", err
	}
	gb, err := boxes(s.groups, true)
	if err != nil {
		return "", err
	}
	var rs, ls []string
	for _, m := range s.msgs {
		e := edgeByID[m.AbsID()]
		if e == nil {
			return "", fmt.Errorf("message %s missing after layout", m.AbsID())
		}
		var ps []string
		for _, p := range e.Route {
			ps = append(ps, fmt.Sprintf("P %s %s", c23Q(p.X), c23Q(p.Y)))
		}
		rs = append(rs, coqList(ps))
	}
	for _, a := range s.actors {
		e := lifeline[a.AbsID()]
		if e == nil || len(e.Route) != 2 {
			return "", fmt.Errorf("actor %s has no lifeline", a.AbsID())
		}
		ls = append(ls, fmt.Sprintf("(P %s %s, P %s %s)", c23Q(e.Route[0].X), c23Q(e.Route[0].Y), c23Q(e.Route[1].X), c23Q(e.Route[1].Y)))
	}
	return fmt.Sprintf("(mkGeom %s\n    %s\n    %s\n    %s\n    %s\n    %s)", ab, nb, coqList(rs), sb, gb, coqList(ls)), nil
}

// ---------------------------------------------------------------- running one script

type c23Exp struct{ src, dst, label string }

type c23Script struct {
	text  string
	class string
	exp   []c23Exp // messages in the order they were written
	kf    []string
}

const c23Empty = "Case (mkInput 0%Z [] [] [] [] []) (mkGeom [] [] [] [] [] []) [] [] [] []"

func c23Run(sc c23Script) (cs Case) {
	h := fnv.New64a()
	h.Write([]byte(sc.text))
	cs = Case{Class: sc.class, Key: fmt.Sprintf("%x", h.Sum64()), KF: sc.kf, Coq: c23Empty}
	cs.Input = map[string]any{"script": sc.text}
	defer func() {
		if e := recover(); e != nil {
			cs.ImplFail = append(cs.ImplFail, fmt.Sprintf("panic: %v", e))
			cs.Coq = c23Empty
		}
	}()
	if c23Ruler == nil {
		r, err := textmeasure.NewRuler()
		if err != nil {
			panic(err)
		}
		c23Ruler = r
	}
	ctx := c23Ctx()

	// (A) what the layout reads
	gA, _, err := d2compiler.Compile("", strings.NewReader(sc.text), nil)
	if err != nil {
		cs.ImplFail = append(cs.ImplFail, "compile error: "+err.Error())
		return cs
	}
	if err := gA.SetDimensions(nil, c23Ruler, nil, nil); err != nil {
		cs.ImplFail = append(cs.ImplFail, "SetDimensions: "+err.Error())
		return cs
	}
	snap := c23Snapshot(gA)

	// the generator's own record of the text order must agree with the positions read from the graph
	if sc.exp != nil {
		byPos := append([]*d2graph.Edge{}, gA.Edges...)
		sort.SliceStable(byPos, func(i, j int) bool { return c23EdgePos(byPos[i]) < c23EdgePos(byPos[j]) })
		if len(byPos) != len(sc.exp) {
			panic(fmt.Sprintf("harness: wrote %d messages, compiler produced %d edges\n%s", len(sc.exp), len(byPos), sc.text))
		}
		for i, e := range byPos {
			if e.Src.AbsID() != sc.exp[i].src || e.Dst.AbsID() != sc.exp[i].dst || e.Label.Value != sc.exp[i].label {
				panic(fmt.Sprintf("harness: message %d is %s -> %s %q, expected %s -> %s %q\n%s", i, e.Src.AbsID(), e.Dst.AbsID(), e.Label.Value,
					sc.exp[i].src, sc.exp[i].dst, sc.exp[i].label, sc.text))
			}
		}
	}

	// (B) the real pipeline
	lr := func(engine string) (d2graph.LayoutGraph, error) { return d2dagrelayout.DefaultLayout, nil }
	_, gB, err := d2lib.Compile(ctx, sc.text, &d2lib.CompileOptions{Ruler: c23Ruler, LayoutResolver: lr}, nil)
	if err != nil {
		cs.ImplFail = append(cs.ImplFail, "d2lib.Compile: "+err.Error())
		return cs
	}
	geom, err := c23Geom(snap, gB)
	if err != nil {
		cs.ImplFail = append(cs.ImplFail, err.Error())
		return cs
	}
	cs.Coq = fmt.Sprintf("Case %s\n  %s\n  %s %s\n  %s %s", snap.coqInput, geom, snap.objsIn, snap.objsOut, snap.msgsIn, snap.msgsOut)
	cs.Nontrivial = snap.nActors >= 2 && snap.nMsgs >= 1
	cs.Impl = map[string]any{"actors": snap.nActors, "messages": snap.nMsgs, "spans": snap.nSpans, "notes": snap.nNotes,
		"groups": snap.nGroups, "max_messages_on_one_line": snap.maxSameLine}
	return cs
}

// ---------------------------------------------------------------- generator

var c23Names = []string{"alice", "bob", "carol", "dave", "erin", "frank", "grace", "heidi"}
var c23Words = []string{"ok", "ping", "request", "a much longer message label", "x", "authenticate the user please",
	"yes", "no", "a label that is wide enough to push the actors apart by a lot, really a lot", "commit", "ack\\nnack", "1\\n2\\n3"}

type c23B struct {
	r       *Rng
	actors  []string
	lines   []string
	exp     []c23Exp
	spans   map[string][]string // actor -> span paths (relative, e.g. "s1", "s1.t1")
	nNote   int
	nGroup  int
	nMsg    int
	maxMsg  int
	perLine int // statements per line (1 = one per line)
}

func (b *c23B) endpoint(actor string) string {
	if b.r.Chance(0.3) {
		sp := b.spans[actor]
		if len(sp) > 0 && b.r.Chance(0.6) {
			return actor + "." + sp[b.r.Intn(len(sp))]
		}
		var p string
		if len(sp) > 0 && b.r.Chance(0.4) {
			p = sp[b.r.Intn(len(sp))] + fmt.Sprintf(".t%d", len(sp))
		} else {
			p = fmt.Sprintf("s%d", len(sp))
		}
		if strings.Count(p, ".") > 2 {
			p = fmt.Sprintf("s%d", len(sp))
		}
		b.spans[actor] = append(sp, p)
		return actor + "." + p
	}
	return actor
}

func (b *c23B) label() string {
	switch b.r.Intn(5) {
	case 0:
		return ""
	case 1:
		return fmt.Sprintf("m%d", b.nMsg)
	default:
		return c23Words[b.r.Intn(len(c23Words))]
	}
}

func c23Unescape(l string) string { return strings.ReplaceAll(l, "\\n", "\n") }

// one message statement (possibly a chain); returns the text
func (b *c23B) message() string {
	n := len(b.actors)
	a := b.actors[b.r.Intn(n)]
	arrows := []string{"->", "->", "->", "<-", "<->", "--"}
	hops := 1
	if b.r.Chance(0.2) {
		hops = b.r.Range(2, 5)
	}
	src := b.endpoint(a)
	text := src
	var pend []c23Exp
	for h := 0; h < hops && b.nMsg < b.maxMsg; h++ {
		var d string
		switch {
		case b.r.Chance(0.12):
			d = a // self or sibling / descendant
		default:
			d = b.actors[b.r.Intn(n)]
		}
		dst := b.endpoint(d)
		text += " " + arrows[b.r.Intn(len(arrows))] + " " + dst
		pend = append(pend, c23Exp{src: src, dst: dst})
		src, a = dst, d
		b.nMsg++
	}
	l := b.label()
	if l != "" {
		text += ": " + l
	}
	for i := range pend {
		pend[i].label = c23Unescape(l)
	}
	b.exp = append(b.exp, pend...)
	return text
}

func (b *c23B) note() string {
	a := b.actors[b.r.Intn(len(b.actors))]
	b.nNote++
	txt := []string{"remember", "a note", "this is a considerably longer note text to widen the gap", "n"}[b.r.Intn(4)]
	path := a
	if sp := b.spans[a]; len(sp) > 0 && b.r.Chance(0.3) {
		path = a + "." + sp[b.r.Intn(len(sp))]
	}
	return fmt.Sprintf("%s.\"%s %d\"", path, txt, b.nNote)
}

// statements of one scope; depth > 0 inside a group
func (b *c23B) block(indent string, depth int, budget int) {
	var cur []string
	flush := func() {
		if len(cur) > 0 {
			b.lines = append(b.lines, indent+strings.Join(cur, "; "))
			cur = nil
		}
	}
	for k := 0; k < budget && b.nMsg < b.maxMsg; k++ {
		x := b.r.Intn(100)
		switch {
		case x < 12 && depth < 3 && b.nGroup < 6:
			flush()
			b.nGroup++
			name := fmt.Sprintf("g%d", b.nGroup)
			head := name + ": {"
			switch b.r.Intn(4) {
			case 0:
				head = name + ": \"Phase " + fmt.Sprint(b.nGroup) + " of the protocol\" {"
			case 1:
				head = name + ": \"two\\nlines\" {"
			}
			if b.r.Chance(0.25) {
				// one-line group
				var inner []string
				for j := 0; j < b.r.Range(1, 4) && b.nMsg < b.maxMsg; j++ {
					inner = append(inner, b.message())
				}
				if len(inner) == 0 {
					b.nGroup--
					continue
				}
				b.lines = append(b.lines, indent+head+" "+strings.Join(inner, "; ")+" }")
			} else {
				b.lines = append(b.lines, indent+head)
				before := b.nMsg
				b.lines = append(b.lines, indent+"  "+b.message())
				b.block(indent+"  ", depth+1, b.r.Range(0, 4))
				_ = before
				b.lines = append(b.lines, indent+"}")
			}
		case x < 24:
			cur = append(cur, b.note())
		default:
			cur = append(cur, b.message())
		}
		if len(cur) >= b.perLine {
			flush()
		}
	}
	flush()
}

func c23ActorDecl(r *Rng, name string) string {
	shapes := []string{"", "", "", "person", "oval", "square", "circle", "cylinder", "queue", "image", "diamond", "hexagon", "cloud"}
	sh := shapes[r.Intn(len(shapes))]
	var attrs []string
	if sh != "" {
		attrs = append(attrs, "shape: "+sh)
	}
	if sh == "image" {
		attrs = append(attrs, "icon: https://icons.terrastruct.com/essentials/004-picture.svg")
	}
	if r.Chance(0.25) {
		attrs = append(attrs, fmt.Sprintf("width: %d", []int{10, 37, 63, 99, 100, 101, 151, 250, 401}[r.Intn(9)]))
	}
	if r.Chance(0.15) && sh != "square" && sh != "circle" {
		attrs = append(attrs, fmt.Sprintf("height: %d", []int{20, 66, 77, 130}[r.Intn(4)]))
	}
	lbl := ""
	switch r.Intn(6) {
	case 0:
		lbl = " \"" + strings.ToUpper(name[:1]) + name[1:] + " the " + name + "\""
	case 1:
		lbl = " \"a very long actor label to make the box wide " + name + "\""
	case 2:
		lbl = " \"two\\nlines\""
	}
	if len(attrs) == 0 {
		if lbl == "" {
			return name
		}
		return name + ":" + lbl
	}
	return name + ":" + lbl + " {" + strings.Join(attrs, "; ") + "}"
}

func c23Random(r *Rng, class string) c23Script {
	b := &c23B{r: r, spans: map[string][]string{}, perLine: 1}
	na := r.Range(1, 8)
	b.maxMsg = r.Range(0, 30)
	if class == "sameline" {
		b.perLine = r.Range(3, 20)
		b.maxMsg = r.Range(13, 30)
		if na < 2 {
			na = 2
		}
	}
	b.actors = append([]string{}, c23Names[:na]...)
	// shuffle the declaration order of the names
	for i := na - 1; i > 0; i-- {
		j := r.Intn(i + 1)
		b.actors[i], b.actors[j] = b.actors[j], b.actors[i]
	}
	b.lines = append(b.lines, "shape: sequence_diagram")
	switch {
	case class == "sameline" || r.Chance(0.2):
		// several declarations on one line
		var ds []string
		for _, a := range b.actors {
			ds = append(ds, c23ActorDecl(r, a))
		}
		per := r.Range(2, 8)
		for i := 0; i < len(ds); i += per {
			j := i + per
			if j > len(ds) {
				j = len(ds)
			}
			b.lines = append(b.lines, strings.Join(ds[i:j], "; "))
		}
	default:
		for _, a := range b.actors {
			b.lines = append(b.lines, c23ActorDecl(r, a))
		}
	}
	b.block("", 0, 40)
	return c23Script{text: strings.Join(b.lines, "\n") + "\n", class: class, exp: b.exp}
}

func c23Chain(n int, names []string, label bool) (string, []c23Exp) {
	var parts []string
	var exp []c23Exp
	for i := 0; i <= n; i++ {
		parts = append(parts, names[i%len(names)])
		if i > 0 {
			exp = append(exp, c23Exp{src: names[(i-1)%len(names)], dst: names[i%len(names)]})
		}
	}
	t := strings.Join(parts, " -> ")
	if label {
		t += ": hop"
		for i := range exp {
			exp[i].label = "hop"
		}
	}
	return t, exp
}

func c23Corpus() []c23Script {
	var out []c23Script
	add := func(class, text string, kf ...string) {
		out = append(out, c23Script{text: text, class: class, kf: kf})
	}
	hdr := "shape: sequence_diagram\n"
	add("corpus", hdr+"alice\n")
	add("corpus", hdr+"alice -> bob\n")
	add("corpus", hdr+"alice -> alice: self\nalice -> alice\n")
	// > 12 messages on ONE line (beyond the insertion-sort cutoff of pdqsort), as a chain and as a list
	for _, n := range []int{13, 16, 24, 30} {
		t, exp := c23Chain(n, c23Names[:5], true)
		out = append(out, c23Script{text: hdr + t + "\n", class: "corpus-chain", exp: exp})
		var ps []string
		var ex []c23Exp
		for i := 0; i < n; i++ {
			s, d := c23Names[i%4], c23Names[(i*3+1)%4]
			ps = append(ps, fmt.Sprintf("%s -> %s: m%d", s, d, i))
			ex = append(ex, c23Exp{s, d, fmt.Sprintf("m%d", i)})
		}
		out = append(out, c23Script{text: hdr + "alice; bob; carol; dave\n" + strings.Join(ps, "; ") + "\n", class: "corpus-chain", exp: ex})
	}
	// same-line messages mixed with other lines and with groups, > 12 in total
	add("corpus-chain", hdr+"a; b; c; d\na -> b: m0; b -> c: m1\ng0: { c -> d: m2; d -> a: m3 }\na -> c: m4\ng1: { g2: { a -> b -> c -> d: m5 }; d -> a: m8 }\na -> b: m9; b -> a: m10; a -> d: m11; d -> c: m12; c -> a: m13; a -> b: m14\n")
	// 8 actors declared by one chain, then 6 groups (14 top-level objects)
	{
		t, _ := c23Chain(7, c23Names, false)
		s := hdr + t + "\n"
		for i := 0; i < 6; i++ {
			s += fmt.Sprintf("p%d: { %s -> %s: step %d }\n", i, c23Names[i], c23Names[(i+3)%8], i)
		}
		add("corpus-chain", s)
	}
	add("corpus", hdr+"alice; bob; carol\nalice.s1 -> bob.s1: open\nbob.s1 -> carol: work\nalice.s1.t -> alice.s1: nested\nbob.s1 -> alice.s1: done\nalice.s1 -> alice.s2: sibling\n")
	add("corpus", hdr+"alice; bob\nalice -> bob: one\nalice.\"a note\"\nbob -> alice: two\nbob.\"another\\nnote\"\nbob.\"third\"\nalice -> bob\n")
	add("corpus", hdr+"alice; bob; carol\ng1: \"outer label\" {\n  alice -> bob: in outer\n  g2: \"inner\" {\n    bob -> carol: in inner\n    bob.\"note in inner\"\n  }\n  carol -> alice\n}\nalice -> carol: after\n")
	add("corpus", hdr+"alice: {shape: person}\nbob: \"Bob\\nthe builder\" {shape: person; width: 40}\ncarol: {shape: image; icon: https://icons.terrastruct.com/essentials/004-picture.svg}\ndave: {shape: oval; width: 30; height: 20}\nalice -> dave: hello\ndave -> bob\n")
	// a label spread over three gaps with odd actor widths: Round() sees x.5 up to float noise
	add("corpus", hdr+"alice: {width: 101}\nbob: {width: 103}\ncarol: {width: 105}\ndave: {width: 107}\nalice -> dave: a label that is five hundred units wide or thereabouts, give or take a few\nalice -> carol: a label that is also quite wide but over two gaps\n")
	add("corpus", hdr+"carol: {width: 400}\nalice: {width: 10}\ncarol -> alice\n")
	// genuine defect: nil LabelPosition
	add("corpus-icon-near", hdr+"alice: {shape: person; icon: https://icons.terrastruct.com/essentials/004-picture.svg; icon.near: top-left}\nbob\nalice -> bob\n", "C23-icon-near-nil-label-position")
	add("corpus-icon-near", hdr+"alice: {shape: image; icon: https://icons.terrastruct.com/essentials/004-picture.svg; icon.near: top-center}\n", "C23-icon-near-nil-label-position")
	// near misses of the defect
	add("corpus", hdr+"alice: {icon: https://icons.terrastruct.com/essentials/004-picture.svg; icon.near: top-left}\nbob\nalice -> bob\n")
	add("corpus", hdr+"alice: {shape: person; icon: https://icons.terrastruct.com/essentials/004-picture.svg}\nbob\nalice -> bob\n")
	return out
}

func c23Gen(r *Rng, tier string, n int) []Case {
	var out []Case
	for _, sc := range c23Corpus() {
		out = append(out, c23Run(sc))
	}
	for len(out) < n {
		class := "random"
		if r.Chance(0.25) {
			class = "sameline"
		}
		out = append(out, c23Run(c23Random(r.Fork(), class)))
	}
	return out
}
