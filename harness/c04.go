package main

// C04 — formatting preserves the diagram's meaning.
// For every generated / repository program that compiles: compile(text) against compile(Format(Parse(text))),
// canonical projection of every board (recursively) split into clauses that Coq compares one by one.

import (
	"encoding/json"
	"fmt"
	"os"
	"sort"
	"strings"
	"testing/fstest"

	"oss.terrastruct.com/d2/d2ast"
	"oss.terrastruct.com/d2/d2compiler"
	"oss.terrastruct.com/d2/d2graph"
	"oss.terrastruct.com/d2/d2target"
)

func init() {
	register(&Prop{ID: "C04", Module: "V.C04.Check", Gen: c04Gen, Quick: 2000, Thorough: 40000, Shard: 150})
}

var c04FS = fstest.MapFS{
	"x.d2":     &fstest.MapFile{Data: []byte("obj: {shape: circle}\nimp_a -> imp_b: from x\nShape: hexagon\n")},
	"y.d2":     &fstest.MapFile{Data: []byte("yy: {style.fill: red}\n")},
	"sub/y.d2": &fstest.MapFile{Data: []byte("suby: sub {\n  inner\n}\nstyle.opacity: 0.5\n")},
}

func c04Compile(text string) (g *d2graph.Graph, cfg *d2target.Config, err error, fail string) {
	defer func() {
		if e := recover(); e != nil {
			fail = fmt.Sprintf("Compile panic: %v", e)
			g, cfg, err = nil, nil, fmt.Errorf("panic")
		}
	}()
	if c04ClassCycleRisk(text) {
		// a class that refers to a class (classes: {c: {class: c}}) sends d2compiler.compileMap into unbounded
		// recursion: fatal stack overflow that cannot be recovered (reported for C07); never compiled here
		return nil, nil, fmt.Errorf("skipped"), ""
	}
	if tf := os.Getenv("C04_TRACE"); tf != "" {
		os.WriteFile(tf, []byte(text), 0o644)
	}
	g, cfg, err = d2compiler.Compile("index.d2", strings.NewReader(text), &d2compiler.CompileOptions{FS: c04FS})
	return g, cfg, err, ""
}

func c04ClassCycleRisk(text string) bool {
	m, _, fail := c03Parse(text)
	if fail != "" || m == nil {
		return false
	}
	risk := false
	d2ast.Walk(m, func(n d2ast.Node) bool {
		k, ok := n.(*d2ast.Key)
		if !ok || k.Key == nil || len(k.Key.Path) == 0 || k.Key.Path[0].Unbox() == nil {
			return true
		}
		inClasses := false
		for _, sb := range k.Key.Path {
			if sb.Unbox() != nil && strings.EqualFold(sb.Unbox().ScalarString(), "classes") {
				inClasses = true
			}
			// a glob that sets `class` also reaches the class definitions themselves
			if us, isU := sb.Unbox().(*d2ast.UnquotedString); isU && us != nil && len(us.Pattern) > 0 {
				inClasses = true
			}
		}
		if inClasses {
			d2ast.Walk(k, func(n2 d2ast.Node) bool {
				if k2, ok := n2.(*d2ast.Key); ok && k2.Key != nil {
					for _, sb := range k2.Key.Path {
						if sb.Unbox() != nil && strings.EqualFold(sb.Unbox().ScalarString(), "class") {
							risk = true
						}
					}
				}
				if _, ok := n2.(*d2ast.Import); ok {
					risk = true
				}
				if _, ok := n2.(*d2ast.Substitution); ok {
					risk = true
				}
				return !risk
			})
		}
		return !risk
	})
	return risk
}

type c04Proj struct {
	clause map[int]*strings.Builder
	boards map[string]string // board path -> full projection of that board alone
	lines  map[int][]string
	blines map[string][]string
}

var c04Codes = []int{10, 11, 12, 13, 14, 15, 16, 20, 21, 22, 23, 24, 30}

func c04JSON(v any) string {
	b, err := json.Marshal(v)
	if err != nil {
		return "!" + err.Error()
	}
	return string(b)
}

func c04Near(k *d2ast.KeyPath) string {
	if k == nil {
		return ""
	}
	var s []string
	for _, p := range k.Path {
		s = append(s, p.Unbox().ScalarString())
	}
	return strings.Join(s, "\x1f")
}

// attributes other than label, shape and style, as canonical JSON
func c04Attrs(a d2graph.Attributes) string {
	a.Label = d2graph.Scalar{}
	a.Shape = d2graph.Scalar{}
	a.Style = d2graph.Style{}
	near := c04Near(a.NearKey)
	a.NearKey = nil
	return c04JSON(a) + "|near=" + near
}

func (p *c04Proj) add(code int, board string, format string, args ...any) {
	line := board + "|" + fmt.Sprintf(format, args...) + "\n"
	p.lines[code] = append(p.lines[code], line)
	p.blines[board] = append(p.blines[board], fmt.Sprintf("%d:", code)+line)
}

// finish sorts the lines of every clause (the order of objects in Graph.Objects depends on source positions,
// also across imported files; the property is about the set of objects and connections)
func (p *c04Proj) finish() {
	for c, ls := range p.lines {
		sort.Strings(ls)
		p.clause[c].WriteString(strings.Join(ls, ""))
	}
	for b, ls := range p.blines {
		sort.Strings(ls)
		p.boards[b] = strings.Join(ls, "")
	}
}

func (p *c04Proj) board(g *d2graph.Graph, path, kind string) {
	p.add(10, path, "%s|folder=%v", kind, g.IsFolderOnly)
	for _, o := range g.Objects {
		id := o.AbsID()
		parent := ""
		if o.Parent != nil {
			parent = o.Parent.AbsID()
		}
		p.add(11, path, "%s", id)
		p.add(12, path, "%s|parent=%s|idval=%s", id, parent, o.IDVal)
		p.add(13, path, "%s|label=%q", id, o.Label.Value)
		p.add(14, path, "%s|shape=%q", id, o.Shape.Value)
		extra := ""
		if o.SQLTable != nil {
			extra += "|sql=" + c04JSON(o.SQLTable)
		}
		if o.Class != nil {
			extra += "|class=" + c04JSON(o.Class)
		}
		p.add(15, path, "%s|%s%s", id, c04Attrs(o.Attributes), extra)
		p.add(16, path, "%s|%s|icon=%s", id, c04JSON(o.Style), c04JSON(o.IconStyle))
	}
	for i, e := range g.Edges {
		src, dst := "", ""
		if e.Src != nil {
			src = e.Src.AbsID()
		}
		if e.Dst != nil {
			dst = e.Dst.AbsID()
		}
		_ = i
		eid := fmt.Sprintf("(%s -> %s)[%d]", src, dst, e.Index)
		p.add(20, path, "%s|%s", src, dst)
		p.add(21, path, "%s|src_arrow=%v|dst_arrow=%v", eid, e.SrcArrow, e.DstArrow)
		p.add(22, path, "%s|%s|index=%d", src, dst, e.Index)
		p.add(23, path, "%s|label=%q", eid, e.Label.Value)
		ah := ""
		if e.SrcArrowhead != nil {
			ah += "|srcah=" + fmt.Sprintf("%q", e.SrcArrowhead.Label.Value) + e.SrcArrowhead.Shape.Value + c04JSON(e.SrcArrowhead.Style) + c04Attrs(*e.SrcArrowhead)
		}
		if e.DstArrowhead != nil {
			ah += "|dstah=" + fmt.Sprintf("%q", e.DstArrowhead.Label.Value) + e.DstArrowhead.Shape.Value + c04JSON(e.DstArrowhead.Style) + c04Attrs(*e.DstArrowhead)
		}
		p.add(24, path, "%s|%s|%s|shape=%q%s", eid, c04Attrs(e.Attributes), c04JSON(e.Style), e.Shape.Value, ah)
	}
	if g.Root != nil {
		p.add(15, path, "<root>|%s|label=%q", c04Attrs(g.Root.Attributes), g.Root.Label.Value)
		p.add(16, path, "<root>|%s", c04JSON(g.Root.Style))
	}
	for _, l := range g.Layers {
		p.board(l, path+"/layers/"+l.Name, "layer")
	}
	for _, l := range g.Scenarios {
		p.board(l, path+"/scenarios/"+l.Name, "scenario")
	}
	for _, l := range g.Steps {
		p.board(l, path+"/steps/"+l.Name, "step")
	}
}

func c04Project(g *d2graph.Graph, cfg *d2target.Config) *c04Proj {
	p := &c04Proj{clause: map[int]*strings.Builder{}, boards: map[string]string{}, lines: map[int][]string{}, blines: map[string][]string{}}
	for _, c := range c04Codes {
		p.clause[c] = &strings.Builder{}
	}
	p.board(g, "root", "root")
	p.finish()
	p.clause[30].WriteString(c04JSON(cfg))
	return p
}

// c04Window: what Coq compares for one clause: both projections entirely when short, else the same window of
// both around the first difference (their last 64 runes when they are equal).
func c04Window(a, b string) (string, string) {
	ra, rb := []rune(a), []rune(b)
	if len(ra) <= 96 && len(rb) <= 96 {
		return a, b
	}
	i := 0
	for i < len(ra) && i < len(rb) && ra[i] == rb[i] {
		i++
	}
	if i == len(ra) && i == len(rb) {
		return string(ra[len(ra)-64:]), string(rb[len(rb)-64:])
	}
	lo := i - 24
	if lo < 0 {
		lo = 0
	}
	cut := func(r []rune) string {
		hi := lo + 120
		if hi > len(r) {
			hi = len(r)
		}
		if lo > len(r) {
			return ""
		}
		return string(r[lo:hi])
	}
	return cut(ra), cut(rb)
}

type c04Result struct {
	compiled bool
	ok2      bool
	err2     string
	diff     []int    // clause codes that differ
	dboards  []string // boards whose projection differs (or exists on one side only)
	coq      string
	fails    []string
	f1       string
	detail   map[string]string
}

func c04Run(text string) c04Result {
	var res c04Result
	g1, cfg1, err, fail := c04Compile(text)
	if fail != "" || err != nil || g1 == nil {
		return res
	}
	m, nerr, pfail := c03Parse(text)
	if pfail != "" || nerr > 0 {
		return res
	}
	res.compiled = true
	p1 := c04Project(g1, cfg1)
	f1, ffail := c03Format(m)
	res.f1 = f1
	if ffail != "" {
		res.fails = append(res.fails, ffail)
	}
	g2, cfg2, err2, fail2 := c04Compile(f1)
	if fail2 != "" {
		res.fails = append(res.fails, fail2+" (formatted text)")
	}
	res.detail = map[string]string{}
	var clauses []string
	if err2 != nil || g2 == nil {
		res.ok2 = false
		if err2 != nil {
			res.err2 = err2.Error()
		}
	} else {
		res.ok2 = true
		p2 := c04Project(g2, cfg2)
		for _, c := range c04Codes {
			a, b := p1.clause[c].String(), p2.clause[c].String()
			if a != b {
				res.diff = append(res.diff, c)
				wa, wb := c03Window(a, b)
				res.detail[fmt.Sprintf("clause%d", c)] = c03Trunc(wa, 300) + "  <<>>  " + c03Trunc(wb, 300)
			}
			wa, wb := c04Window(a, b)
			clauses = append(clauses, fmt.Sprintf("(%d, %s, %s)", c, coqRunes(wa), coqRunes(wb)))
		}
		seen := map[string]bool{}
		for b, s := range p1.boards {
			seen[b] = true
			if p2.boards[b] != s {
				res.dboards = append(res.dboards, b)
			}
		}
		for b := range p2.boards {
			if !seen[b] {
				res.dboards = append(res.dboards, b)
			}
		}
		sort.Strings(res.dboards)
	}
	res.coq = fmt.Sprintf("CCompile %s %s", coqBool(res.ok2), coqList(clauses))
	return res
}

func c04Case(text, class string) (Case, bool) {
	res := c04Run(text)
	if !res.compiled {
		return Case{}, false
	}
	c := Case{Class: "c04/" + class, Key: "c:" + text, Coq: res.coq, ImplFail: res.fails}
	c.Input = map[string]any{"text": c03Trunc(text, 700)}
	st := "ok"
	if !res.ok2 {
		st = "formatted-does-not-compile"
	} else if len(res.diff) > 0 {
		st = "meaning-changed"
	}
	c.Impl = map[string]any{"f1": c03Trunc(res.f1, 700), "status": st, "error": c03Trunc(res.err2, 300), "clauses": res.diff, "boards": res.dboards, "detail": res.detail}
	c.Nontrivial = res.f1 != text
	c.KF = c04Signatures(text, res)
	return c, true
}

var c04Corpus = []string{
	"x\nscenarios: {s: {z}}\ny\n", "x\nsteps: {1: {z}; 2: {w}}\ny\n", "x\nlayers: {s: {z}}\ny\n", "x\ny\nscenarios: {s: {z}}\n",
	"layers: {a: {p; scenarios: {s: {q}}; r}}\n", "x: Label\n", "x.Shape: Circle\n", "X.SHAPE: circle\nx.Label: hi\n", "a.Style.Fill: red\n",
	"a -> b: l\n(a -> b)[0].style.opacity: 0.4\n", "a -> b\na -> b\n(a -> b)[1]: second\n", "a <-> b -- c <- d\n", "a: {b -> c}\na.(b -> c)[0]: x\n",
	"vars: {v: 1}\na: ${v}\n", "vars: {d2-config: {theme-id: 3; sketch: true}}\na\n", "...@x\n", "a: @x\n", "a: {...@sub/y}\n", "*.shape: circle\na; b\n",
	"a; b; c\n*.style.fill: red\n", "a: {&shape: circle; style.fill: red}\n", "classes: {c: {style.fill: red}}\na.class: c\n", "a: |md # hi |\n", "a: |md\n  # hi\n  text\n|\n",
	"a- : b\n", "x: a\\ \ny: b\n", "a; \"\"\" c \"\"\"\nb\n", "a.near: top-center\n", "a.width: 100\n", "t: {shape: sql_table; id: int {constraint: primary_key}}\n",
	"a: null\n", "a\na: null\n", "a -> b\n(a -> b)[0]: null\n", "direction: right\na -> b\n", "a.icon: https://icons.terrastruct.com/essentials/time.svg\n", "a.link: https://example.com\na.tooltip: tip\n",
	"x: {grid-rows: 2; a; b; c}\n", "s: {shape: sequence_diagram; a -> b: hi}\n", "a.label: \"q\\\"uote\"\n", "\"a.b\".c: 'd''e'\n", "a: \"x\\ny\"\n",
}

func c04Gen(r *Rng, tier string, n int) []Case {
	var out []Case
	seen := map[string]bool{}
	add := func(text, class string) bool {
		if seen[text] {
			return false
		}
		seen[text] = true
		c, ok := c04Case(text, class)
		if ok {
			out = append(out, c)
		}
		return ok
	}
	addBoard := func(items []c04Item, rr *Rng, class string) {
		if c, ok := c04BoardCase(items, rr, class); ok && !seen[c.Key] {
			seen[c.Key] = true
			out = append(out, c)
		}
	}
	addBoard([]c04Item{{decl: 1}, {own: []int{3}}, {decl: 2}}, nil, "corpus")
	addBoard([]c04Item{{decl: 1}, {decl: 2}, {own: []int{3}}}, nil, "corpus")
	addBoard([]c04Item{{own: []int{1}}, {decl: 2}, {own: []int{3, 4}}, {decl: 5}}, nil, "corpus")
	addBoard([]c04Item{{own: []int{1}}, {own: []int{2}}}, nil, "corpus")
	for i := 0; i < 60; i++ {
		addBoard(c04RandItems(r), r, "generated")
	}
	for _, t := range c04Corpus {
		add(t, "corpus")
	}
	for _, t := range c03SearchCorpus {
		add(t, "corpus")
	}
	for _, t := range c03FragCorpus {
		add(t, "corpus")
	}
	var small []string
	for _, t := range c03Corpus() {
		if tier == "thorough" || len(t) <= 1200 {
			small = append(small, t)
		}
	}
	stride := 1
	if tier != "thorough" && len(small) > 700 {
		stride = (len(small) + 699) / 700
	}
	for i := r.Intn(stride); i < len(small); i += stride {
		add(small[i], "repo")
	}
	budget := n - len(out)
	if budget < 500 {
		budget = 500
	}
	nGen := budget * 70 / 100
	for i, tries := 0, 0; i < nGen && tries < nGen*8; tries++ {
		var t string
		if tries%5 == 4 {
			t = c03FragText(r)
		} else {
			t = c03Program(r, true)
		}
		if add(t, "generated") {
			i++
		}
	}
	corpus := c03Corpus()
	for i, tries := 0, 0; i < budget-nGen && tries < budget*10; tries++ {
		var base string
		if r.Bool() && len(corpus) > 0 {
			base = corpus[r.Intn(len(corpus))]
			if len(base) > 1200 {
				continue
			}
		} else {
			base = c03Program(r, true)
		}
		if add(c03Mutate(r, base), "mutated") {
			i++
		}
	}
	return out
}
