package main

// C01 — inputs that disturb the parser's mutable state (p.depth, p.inEdgeGroup, the lookahead / readahead
// buffers, p.ioerr) before constructs whose handling depends on that state, and the check that no state leaks
// from one file-level node to the next.
//
// A single structural oddity (one stray `}`, one unterminated opener) leaves the state fields either untouched
// or restored by the defers of the function that hit it.  A defect in that bookkeeping only shows when
//   (a) the state is disturbed (often more than once: depth is a counter), and
//   (b) something later READS the state: getIndent() in a block string with text on its opening line (depth),
//       `)` inside an unquoted key (inEdgeGroup), peekn()/replay near the end of input (buffers, ioerr).
// c01GenCombo builds such inputs: 1-4 disturbers, then 1-3 state readers, optionally nested in maps / arrays.

import (
	"bytes"
	"fmt"
	"strings"

	"oss.terrastruct.com/d2/d2ast"
	"oss.terrastruct.com/d2/d2parser"
)

// closers and other junk that is complete at file level (the parser reports it and goes on)
var c01Closers = []string{"}", "}}", "}}}", "} }", "}\n}", "};}", "]", "]]", ")", "))", "}]", "})", "]}", "}}]", ";", ";;}", "} ;", "}}}}}"}

// constructs that are complete in themselves but move the state up and down
var c01Closed = []string{"a: {b: {c}}", "a: [b; [c; {d: e}]]", "(a -> b)[0].c: d", "(a -> b)", "x: |md t|", "x: |md\n  t\n|", "\"\"\" c \"\"\"", "a: b {c: d}",
	"k: [|md q|; {z: |md w|}]", "a: {b: |`md x `|}", "(p -> q): {r: [s]}", "a: [", "a: {", "(a -> b", "(a -> b)[", "x -> (y", "a.(b", "a: @", "...${", "k: |md"}

// openers that the parser abandons at the end of their line
var c01LineComplete = []string{"(a -> b", "(a", "(a -> ", "(a -> b)[", "(a -> b) [0", "(a -> b)[0].", "x -> (y", "a.(b", "a: @", "...${", "x: ${a", "(a -> b) c", "((a -> b)", "(a -> \"b\""}

// disturbers that leave something open (only used inside combos, not as the A of the state check)
var c01Openers = []string{"a: {", "a: [", "a: {b: [", "(", "((a", "(a ->", "(a -> b)[", "x: |md", "x: |`md a", "\"\"\"", "\"", "'", "${", "x: ${a", "..", "...", "...$", "...@", "\\", "a: b \\", "-", "a -", "a: [{", "a: {[", "&", "!&", "a.", "a: -"}

// constructs whose result depends on parser state
var c01Readers = []string{
	"x: |md hello|", "x: |md hello\n  world\n|", "x: |md hello |", "x: |`md a | b `|", "x: ||go if a || b {} ||", "x: |md\n  text\n|", "|md k|: v", "x: |md a|\ny: |md b|",
	"a: {\n  b: |md text\n  more|\n}", "a: {b: {c: |md deep|}}", "a: [|md t|; {k: |md u v|}]", "k: [x; [y; |md z|]]", "a: b {c: |md d|}", "(a -> b)[0]: {l: |md e|}",
	"\"\"\" text \"\"\"", "\"\"\"\nblock\n  comment\n\"\"\"", "a: {\n  \"\"\" in map \"\"\"\n}",
	"(a -> b)c)[0]: d)", "a)b: c)", "(a) -> b)", "(x -> y(z)): w", "(x -> y): {z: q)}", "a) -> b(", "(a -> b)[1].c)d: e",
	"x: [a; b]", "x: {y: {z}}", "...${x}", "...@x", "x: @y", "x: ${a.b}", "a -> b -> c: {d}", "x: y\\\n  z", "a\\\n  b: c",
}

func c01Pick(r *Rng, xs []string) string { return xs[r.Intn(len(xs))] }

// c01GenCombo: >= 2 structural oddities in front of (and between) state readers.
func c01GenCombo(r *Rng) string {
	var b strings.Builder
	sep := func() string { return []string{"\n", "\n", "\n", "\n\n", ";", "; ", " ", ""}[r.Intn(8)] }
	wrap := r.Intn(5) // 0,1: file level; 2: inside a map; 3: inside an array value; 4: inside nested maps
	switch wrap {
	case 2:
		b.WriteString("m: {\n")
	case 3:
		b.WriteString("m: [\n")
	case 4:
		b.WriteString("m: {n: {\n")
	}
	nd := r.Range(1, 4)
	for i := 0; i < nd; i++ {
		switch r.Intn(6) {
		case 0, 1, 2:
			b.WriteString(c01Pick(r, c01Closers))
		case 3:
			b.WriteString(c01Pick(r, c01Closed))
		default:
			b.WriteString(c01Pick(r, c01Openers))
		}
		b.WriteString(sep())
	}
	b.WriteString("\n")
	nr := r.Range(1, 3)
	for i := 0; i < nr; i++ {
		b.WriteString(c01Pick(r, c01Readers))
		if r.Chance(0.3) {
			b.WriteString(sep() + c01Pick(r, c01Closers))
		}
		b.WriteString([]string{"\n", "\n", ";", "\n\n"}[r.Intn(4)])
	}
	switch r.Intn(8) {
	case 0:
		b.WriteString("}")
	case 1:
		b.WriteString("]}")
	case 2:
		b.WriteString("}}\n" + c01Pick(r, c01Readers))
	}
	s := b.String()
	if r.Chance(0.15) { // end of input inside a token: look-ahead at EOF
		s = strings.TrimRight(s, "\n") + c01Pick(r, []string{"..", "...", "\"\"", "\"", ".", "-", "\\", "...$", " |", "|md", "${"})
	}
	return s
}

// c01Disturb inserts runs of stray closers (and sometimes an opener) at line starts of a program.
func c01Disturb(r *Rng, s string) string {
	lines := strings.Split(s, "\n")
	n := r.Range(1, 3)
	for k := 0; k < n; k++ {
		i := 0
		if r.Chance(0.6) {
			i = r.Intn(len(lines) + 1)
		}
		ins := c01Pick(r, c01Closers)
		if r.Chance(0.2) {
			ins = c01Pick(r, c01Openers)
		}
		lines = append(lines[:i], append([]string{ins}, lines[i:]...)...)
	}
	return strings.Join(lines, "\n")
}

// ---------------------------------------------------------------- canonical rendering (no ranges)

func c01Canon(b *strings.Builder, n d2ast.Node) {
	if n == nil {
		b.WriteString("nil")
		return
	}
	b.WriteString("(")
	switch n := n.(type) {
	case *d2ast.Map:
		b.WriteString("map")
	case *d2ast.Array:
		b.WriteString("array")
	case *d2ast.KeyPath:
		b.WriteString("path")
	case *d2ast.Key:
		fmt.Fprintf(b, "key amp=%v namp=%v k=%v e=%d i=%v ek=%v p=%v v=%v", n.Ampersand, n.NotAmpersand, n.Key != nil, len(n.Edges),
			n.EdgeIndex != nil, n.EdgeKey != nil, n.Primary.Unbox() != nil, n.Value.Unbox() != nil)
	case *d2ast.Edge:
		fmt.Fprintf(b, "edge %q %q", n.SrcArrow, n.DstArrow)
	case *d2ast.EdgeIndex:
		if n.Int != nil {
			fmt.Fprintf(b, "idx %d", *n.Int)
		} else {
			fmt.Fprintf(b, "idx glob=%v", n.Glob)
		}
	case *d2ast.Comment:
		fmt.Fprintf(b, "comment %q", n.Value)
	case *d2ast.BlockComment:
		fmt.Fprintf(b, "blockcomment %q", n.Value)
	case *d2ast.Null:
		b.WriteString("null")
	case *d2ast.Boolean:
		fmt.Fprintf(b, "bool %v", n.Value)
	case *d2ast.Suspension:
		fmt.Fprintf(b, "suspension %v", n.Value)
	case *d2ast.Number:
		fmt.Fprintf(b, "number %q", n.Raw)
	case *d2ast.UnquotedString:
		fmt.Fprintf(b, "unq %q pat=%q", n.ScalarString(), n.Pattern)
	case *d2ast.DoubleQuotedString:
		fmt.Fprintf(b, "dq %q", n.ScalarString())
	case *d2ast.SingleQuotedString:
		fmt.Fprintf(b, "sq %q", n.Value)
	case *d2ast.BlockString:
		fmt.Fprintf(b, "block q=%q tag=%q %q", n.Quote, n.Tag, n.Value)
	case *d2ast.Substitution:
		fmt.Fprintf(b, "subst spread=%v", n.Spread)
	case *d2ast.Import:
		fmt.Fprintf(b, "import spread=%v pre=%q", n.Spread, n.Pre)
	default:
		b.WriteString(n.Type())
	}
	for _, c := range n.Children() {
		b.WriteString(" ")
		c01Canon(b, c)
	}
	b.WriteString(")")
}

type c01Parsed struct {
	nodes     []d2ast.MapNodeBox
	nerr      int
	openAtEOF bool
	fail      string
}

func c01ParseNodes(in string) c01Parsed {
	var res c01Parsed
	var m *d2ast.Map
	var err error
	res.fail = c01Guard(len(in), func() { m, err = d2parser.Parse("", bytes.NewReader([]byte(in)), nil) })
	if res.fail != "" {
		return res
	}
	if m == nil {
		res.fail = "nil map"
		return res
	}
	res.nodes = m.Nodes
	if pe, ok := err.(*d2parser.ParseError); ok {
		res.nerr = len(pe.Errors)
		for _, e := range pe.Errors {
			if e.Range.End.Byte >= len(in) {
				res.openAtEOF = true // something was still open when the input ended
			}
		}
	}
	return res
}

func c01CanonNodes(ns []d2ast.MapNodeBox, nerr int) string {
	var b strings.Builder
	for _, n := range ns {
		c01Canon(&b, n.Unbox())
	}
	fmt.Fprintf(&b, " errors=%d", nerr)
	return b.String()
}

// c01StateCase: Parse(A ++ B) behind the nodes of A must be Parse(B).  a is complete in itself and ends with a
// blank line.
func c01StateCase(a, b string, class string) Case {
	desc := map[string]any{"entry": "Parse", "state_check": true, "a": a, "b": b}
	pa, pb, pab := c01ParseNodes(a), c01ParseNodes(b), c01ParseNodes(a+b)
	var fails []string
	for _, x := range []struct {
		name string
		p    c01Parsed
	}{{"A", pa}, {"B", pb}, {"A+B", pab}} {
		if x.p.fail != "" {
			fails = append(fails, "Parse("+x.name+"): "+x.p.fail)
		}
	}
	if len(fails) > 0 {
		return Case{Coq: "(CSearch 0 0 true false true [])", Input: desc, Class: class, ImplFail: fails}
	}
	if pa.openAtEOF {
		// A left a construct open (an error reaches its end): B is then swallowed by it, nothing to compare;
		// the three parses above still count for termination / no panic
		return Case{Coq: "(CSearch 0 0 true false true [])", Input: desc, Class: class + "-open", Key: "S|" + a + "|" + b}
	}
	tail := "fewer nodes than A alone"
	if len(pab.nodes) >= len(pa.nodes) {
		tail = c01CanonNodes(pab.nodes[len(pa.nodes):], pab.nerr-pa.nerr)
	}
	alone := c01CanonNodes(pb.nodes, pb.nerr)
	return Case{Coq: fmt.Sprintf("(CState %s %s)", coqRunes(tail), coqRunes(alone)), Input: desc,
		Impl: map[string]any{"tail": tail, "alone": alone}, Class: class, Nontrivial: len(pb.nodes) > 0, Key: "S|" + a + "|" + b}
}

// c01GenStateA: a text that is complete at file level: stray closers and closed constructs, blank line at the end.
func c01GenStateA(r *Rng) string {
	var b strings.Builder
	n := r.Range(1, 3)
	for i := 0; i < n; i++ {
		switch x := r.Intn(10); {
		case x < 6:
			b.WriteString(c01Pick(r, c01Closers))
			b.WriteString([]string{"\n", "\n", ";", " "}[r.Intn(4)])
		case x < 8:
			b.WriteString(c01Pick(r, c01Closed[:11])) // the closed ones only
			b.WriteString([]string{"\n", "\n", "\n\n", ";\n"}[r.Intn(4)])
		default:
			// left open, but the parser gives up on it at the end of the line (edge groups, edge indexes,
			// substitutions, imports): p.inEdgeGroup and the look-ahead buffers must be back to normal
			b.WriteString(c01Pick(r, c01LineComplete) + "\n")
		}
	}
	b.WriteString("\n\n")
	return b.String()
}
