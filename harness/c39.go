package main

import "fmt"

// C39: Rename and Move relocate objects without losing anything (spec: coq/C38/Spec.v spec_rename / spec_move).

func init() {
	register(&Prop{ID: "C39", Module: "V.C39.Check", Gen: c39Gen, Quick: 900, Thorough: 12000, Shard: 300})
}

func c39KF(pg *c38PGraph, op *c38Op, text string) []string {
	return c38KFMap(pg, op, map[string]string{
		"rename-wrong-scope":                "C39-rename-unique-name-wrong-scope",
		"move-into-own-descendant":          "C39-move-into-own-descendant",
		"move-dotted-ref":                   "C39-move-dotted-key-loses-primary",
		"hoist-undetected-child":            "C39-hoist-conflict-not-detected-for-flat-field-child",
		"move-dest-referenced-inside":       "C39-move-destination-referenced-from-inside",
		"move-prefixed-underscore-edge-ref": "C39-move-prefixed-underscore-edge-reference",
		"move-mid-edge-key":                 "C39-move-object-in-middle-of-edge-key",
	})
}

func c39Gen(r *Rng, tier string, n int) []Case {
	kinds := []string{"rename", "move", "move", "move"}
	out := c38Scripted(kinds, c39KF)
	for _, t := range c38Corpus {
		for k := 0; k < 3; k++ {
			out = append(out, c38History(r.Fork(), t, 6, kinds, "corpus", c39KF)...)
		}
	}
	for len(out) < n {
		rich := r.Intn(3)
		text := c38GenDiagram(r, rich)
		out = append(out, c38History(r.Fork(), text, r.Range(1, 20), kinds, fmt.Sprintf("rich%d", rich), c39KF)...)
	}
	return out
}
