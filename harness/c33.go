package main

import (
	"fmt"
	"regexp"
	"strconv"
	"strings"

	"oss.terrastruct.com/d2/d2renderers/d2animate"
	"oss.terrastruct.com/d2/d2renderers/d2fonts"
	"oss.terrastruct.com/d2/d2renderers/d2svg"
	"oss.terrastruct.com/d2/d2target"
)

func init() {
	register(&Prop{ID: "C33", Module: "V.C33.Check", Gen: c33Gen, Quick: 44, Thorough: 400, Shard: 4})
}

var c33KF = regexp.MustCompile(`@keyframes d2Transition-\S+-(\d+) \{([^@]*?)\n\}`)
var c33Pct = regexp.MustCompile(`([0-9.+-]+(?:e[+-]?\d+)?|NaN|[+-]?Inf)%`)
var c33Anim = regexp.MustCompile(`animation: d2Transition-\S+-(\d+) (\d+)ms infinite`)

// micro-percent from a %f string ("12.345678")
func c33Micro(s string) (int64, bool) {
	f, err := strconv.ParseFloat(s, 64)
	if err != nil || f != f {
		return 0, false
	}
	neg := strings.HasPrefix(s, "-")
	s = strings.TrimLeft(s, "+-")
	parts := strings.SplitN(s, ".", 2)
	ip, err := strconv.ParseInt(parts[0], 10, 64)
	if err != nil {
		return 0, false
	}
	frac := "000000"
	if len(parts) == 2 {
		frac = (parts[1] + "000000")[:6]
	}
	fp, err := strconv.ParseInt(frac, 10, 64)
	if err != nil {
		return 0, false
	}
	v := ip*1000000 + fp
	if neg {
		v = -v
	}
	return v, true
}

func c33Run(n, T int) (boards [][]int64, total int64, fail string) {
	defer func() {
		if e := recover(); e != nil {
			fail = fmt.Sprintf("panic: %v", e)
		}
	}()
	diagram := d2target.NewDiagram()
	ff, mf := d2fonts.SourceSansPro, d2fonts.SourceCodePro
	diagram.FontFamily, diagram.MonoFontFamily = &ff, &mf
	svgs := make([][]byte, n)
	for i := range svgs {
		svgs[i] = []byte(fmt.Sprintf(`<svg><g class="b%d"></g></svg>`, i))
	}
	pad := int64(0)
	opts := d2svg.RenderOpts{Pad: &pad}
	out, err := d2animate.Wrap(diagram, svgs, opts, T)
	if err != nil {
		return nil, 0, "Wrap error: " + err.Error()
	}
	s := string(out)
	boards = make([][]int64, n)
	for _, m := range c33KF.FindAllStringSubmatch(s, -1) {
		idx, _ := strconv.Atoi(m[1])
		if idx < 0 || idx >= n {
			return nil, 0, "keyframe index out of range"
		}
		var vals []int64
		pcts := c33Pct.FindAllStringSubmatch(m[2], -1)
		// the literal "0%" opens the first rule and (three-range form) "100%" closes the last
		for k, p := range pcts {
			if k == 0 {
				continue
			}
			if len(pcts) == 6 && k == 5 {
				continue
			}
			v, ok := c33Micro(p[1])
			if !ok {
				return nil, 0, "unparsable percentage " + p[1]
			}
			vals = append(vals, v)
		}
		boards[idx] = vals
	}
	total = -1
	for _, m := range c33Anim.FindAllStringSubmatch(s, -1) {
		t, _ := strconv.ParseInt(m[2], 10, 64)
		if total != -1 && total != t {
			return boards, -2, ""
		}
		total = t
	}
	return boards, total, ""
}

func c33Gen(r *Rng, tier string, n int) []Case {
	var out []Case
	type nt struct{ n, T int }
	var list []nt
	// corpus: the boundary where ceil(percentageEnd) reaches 100 for a non-last board
	for _, c := range []nt{{1, 1}, {1, 1000}, {2, 1}, {2, 2}, {3, 1000}, {100, 1000}, {101, 1000}, {101, 101}, {101, 100}, {102, 51}, {130, 7}, {150, 1500}, {200, 2}} {
		list = append(list, c)
	}
	Ts := []int{1, 2, 3, 10, 100, 1000, 1500, 1000000}
	for len(list) < n {
		var c nt
		switch r.Intn(8) {
		case 0, 1:
			c = nt{r.Range(1, 12), Ts[r.Intn(len(Ts))]}
		case 2:
			c = nt{r.Range(95, 110), r.Range(1, 2000)}
		case 3:
			c = nt{r.Range(1, 160), r.Range(1, 3000)}
		case 4, 5:
			c = nt{r.Range(1, 30), r.Range(1, 3000)}
		default:
			c = nt{r.Range(1, 40), r.Range(1, 100000)}
		}
		list = append(list, c)
	}
	for i, c := range list {
		boards, total, fail := c33Run(c.n, c.T)
		class := "random"
		if i < 13 {
			class = "corpus"
		}
		if c.n > 100 {
			class += "-over100"
		}
		cs := Case{Class: class, Nontrivial: c.n >= 2, Key: fmt.Sprintf("%d/%d", c.n, c.T)}
		if fail != "" {
			cs.ImplFail = []string{fail}
		}
		var bl []string
		for _, b := range boards {
			var xs []string
			for _, v := range b {
				xs = append(xs, coqZ(v))
			}
			bl = append(bl, coqList(xs))
		}
		cs.Coq = fmt.Sprintf("Case %s %s %s %s", coqZ(int64(c.n)), coqZ(int64(c.T)), coqZ(total), coqList(bl))
		cs.Input = map[string]any{"boards": c.n, "interval_ms": c.T}
		if len(boards) > 0 {
			cs.Impl = map[string]any{"total_ms": total, "first_board_micro_pct": boards[0], "last_board_micro_pct": boards[len(boards)-1]}
		}
		out = append(out, cs)
	}
	return out
}
