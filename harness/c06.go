package main

// C06 — object and connection IDs are valid, unambiguous key paths.  Programs from the C09 generator
// (biased to hostile names) are compiled with the real d2compiler.Compile; for every object and
// connection of every board the real d2parser.ParseKey / ParseMapKey is run on ID / AbsID / edge AbsID
// and the results are handed to Coq together with the structural snapshot of the board.

import (
	"fmt"
	"strings"

	"oss.terrastruct.com/d2/d2ast"
	"oss.terrastruct.com/d2/d2parser"
)

func init() {
	register(&Prop{ID: "C06", Module: "V.C06.Check", Gen: c06Gen, Quick: 600, Thorough: 15000, Shard: 40})
}

func c06OptStrs(ok bool, xs []string) string {
	if !ok {
		return "None"
	}
	return "(Some " + c05StrList(xs) + ")"
}

type c06Edge struct {
	ok          bool
	key, s, d   []string
	sa, da      bool
	idx         int
	fail, descr string
}

func c06ParseEdge(text string) (res c06Edge) {
	defer func() {
		if e := recover(); e != nil {
			res = c06Edge{fail: fmt.Sprintf("ParseMapKey panic on %q: %v", text, e)}
		}
	}()
	k, err := d2parser.ParseMapKey(text)
	if err != nil || k == nil || len(k.Edges) != 1 || k.EdgeIndex == nil || k.EdgeIndex.Int == nil || k.EdgeKey != nil ||
		k.Edges[0].Src == nil || k.Edges[0].Dst == nil {
		res.descr = fmt.Sprintf("not a single indexed edge key (err=%v)", err)
		return
	}
	res.ok = true
	if k.Key != nil {
		res.key = c05KeyPath(k.Key)
	}
	res.s = c05KeyPath(k.Edges[0].Src)
	res.d = c05KeyPath(k.Edges[0].Dst)
	res.sa = k.Edges[0].SrcArrow == "<"
	res.da = k.Edges[0].DstArrow == ">"
	res.idx = *k.EdgeIndex.Int
	return
}

func c06BoardCases(p c09Prog, b *c09Board, input map[string]any) []Case {
	var oi, ei []string
	var fails []string
	var impl []string
	hazard := false
	nontriv := false
	for _, k := range b.Objs {
		o := b.Store[k].ptr
		abs := o.AbsID()
		ip, iok, f1 := c05ParseKey(o.ID)
		ap, aok, f2 := c05ParseKey(abs)
		for _, f := range []string{f1, f2} {
			if f != "" {
				fails = append(fails, f)
			}
		}
		oi = append(oi, fmt.Sprintf("(OInfo %s %s %s)", coqRunes(abs), c06OptStrs(iok, ip), c06OptStrs(aok, ap)))
		name := b.Store[k].Name
		if len(c05KeyKF(name)) > 0 {
			hazard = true
		}
		if o.ID != name || strings.ToLower(name) != name || strings.Contains(abs, ".") {
			nontriv = true
		}
		if len(impl) < 12 {
			impl = append(impl, fmt.Sprintf("name=%q id=%s absid=%s parsed=%q", name, o.ID, abs, ap))
		}
	}
	for i, e := range b.g.Edges {
		_ = i
		abs := e.AbsID()
		pe := c06ParseEdge(abs)
		if pe.fail != "" {
			fails = append(fails, pe.fail)
		}
		parsed := "None"
		if pe.ok {
			parsed = fmt.Sprintf("(Some (%s, %s, %s, %s, %s, %d%%nat))", c05StrList(pe.key), c05StrList(pe.s), c05StrList(pe.d), coqBool(pe.sa), coqBool(pe.da), pe.idx)
		}
		ei = append(ei, fmt.Sprintf("(EInfo %s %s)", coqRunes(abs), parsed))
		nontriv = true
		if len(impl) < 16 {
			impl = append(impl, fmt.Sprintf("edge absid=%s parsed_ok=%v", abs, pe.ok))
		}
	}
	body := fmt.Sprintf("%s\n    %s %s\n    %s\n    %s", b.coqStore(), c09NatList(b.Objs), b.coqEdges(), coqList(oi), coqList(ei))
	c1 := Case{Class: p.Class + "/ids", Input: input, Impl: map[string]any{"board": b.Path, "ids": impl}, Key: "ids:" + b.Path + ":" + p.Text,
		Nontrivial: nontriv, ImplFail: fails}
	c1.Coq = "CIds " + body
	c2 := Case{Class: p.Class + "/parse-back", Input: input, Impl: map[string]any{"board": b.Path, "ids": impl}, Key: "parse:" + b.Path + ":" + p.Text,
		Nontrivial: nontriv}
	c2.Coq = "CParse " + body
	if hazard {
		c2.KF = append(c2.KF, "C05-reserved-keyword-case-key")
	}
	if c09RootTableEdge(b) {
		c2.KF = append(c2.KF, "C09-root-table-edge")
	}
	return []Case{c1, c2}
}

func c06Cases(p c09Prog) []Case {
	res := c09Exec(p)
	input := map[string]any{"d2": p.Text}
	if len(p.Files) > 0 {
		input["imports"] = p.Files
	}
	if res.Err != "" || len(res.Boards) == 0 {
		// a panic inside Compile is C09's business (reported there); C06 is about the boards that exist
		c := Case{Class: p.Class + "/no-graph", Input: input, Impl: map[string]any{"error": res.Err, "panic": res.Fail}, Key: p.Text}
		c.Coq = "CIds [] [] [] [] []"
		return []Case{c}
	}
	var out []Case
	for i, b := range res.Boards {
		if i >= 4 {
			break
		}
		if len(b.Objs) == 0 && len(b.Edges) == 0 {
			continue
		}
		out = append(out, c06BoardCases(p, b, input)...)
	}
	if len(out) == 0 {
		c := Case{Class: p.Class + "/empty", Input: input, Key: p.Text}
		c.Coq = "CIds [] [] [] [] []"
		out = append(out, c)
	}
	return out
}

// programs made of one hostile name path and a connection: `n1.n2.n3 -> n1.n4`
func c06NameProgram(r *Rng) c09Prog {
	var b strings.Builder
	n := r.Range(1, 3)
	for i := 0; i < n; i++ {
		k := r.Range(1, 3)
		var parts []string
		for j := 0; j < k; j++ {
			parts = append(parts, c09RandName(r, 0.9).Src)
		}
		switch r.Intn(3) {
		case 0:
			fmt.Fprintf(&b, "%s\n", strings.Join(parts, "."))
		case 1:
			fmt.Fprintf(&b, "%s %s %s\n", strings.Join(parts, "."), r.Pick(c09Arrows), c09RandName(r, 0.9).Src)
		default:
			fmt.Fprintf(&b, "%s: {\n  %s %s %s\n}\n", strings.Join(parts, "."), c09RandName(r, 0.9).Src, r.Pick(c09Arrows), c09RandName(r, 0.9).Src)
		}
	}
	return c09Prog{Text: b.String(), Core: true, Class: "names"}
}

var c06Corpus = []c09Prog{
	{Text: "\"a.b\".c -> a.b.c\n"},
	{Text: "\"Shape\".x; \"label\" -> \"3D\"\n"},
	{Text: "\"a -> b\" -> \"(a -> b)[0]\"\n\"a -> b\" -> \"(a -> b)[0]\"\n"},
	{Text: "x: {\"a\\\"b\" -> 'c''d'; \"\" -> \" \"}\n"},
	{Text: "İ.a; i.b; I.c; ı.d\n"},
	{Text: "K -> k; K.x -> ſ.s\n"},
	{Text: "A.b -> a.B\na.b <- A.B\nA.B -- a.b\na.b -> A.B\n"},
	{Text: "\"null\"; \"NULL\".\"true\"; \"_\" -> \"*\"\n"},
	{Text: "a.b.c -> a.b.d\na.b -> a.x.y\nx: {a.b -> a.c; _.a -> a}\n"},
	{Text: "\"a\\nb\".\"c\\\\\" -> \"#\"\n"},
	{Text: "t: {shape: sql_table; \"a.b\": int}\nt.\"a.b\" -> u.\"x y\"\n"},
	{Text: "x -> y\nlayers: {\"l.1\": {\"p.q\" -> r.\"s.t\"}}\n"},
	{Text: "shape: sql_table\nid: int\nid -> name\n"},
}

func c06Gen(r *Rng, tier string, n int) []Case {
	var out []Case
	for _, p := range c06Corpus {
		p.Class = "corpus"
		out = append(out, c06Cases(p)...)
	}
	for _, p := range c09Corpus {
		p.Class = "corpus09"
		out = append(out, c06Cases(p)...)
	}
	seen := map[string]bool{}
	for len(out) < n {
		var p c09Prog
		switch r.Intn(10) {
		case 0, 1, 2, 3:
			p = c06NameProgram(r.Fork())
		case 4, 5:
			p = c09GenProgram(r.Fork(), false, 0.7)
		case 6:
			p = c09GenProgram(r.Fork(), false, 0.2)
		case 7, 8:
			p = c09GenProgram(r.Fork(), true, 0.5)
		default:
			p = c09GenProgram(r.Fork(), true, 0.15)
		}
		if seen[p.Text] {
			continue
		}
		seen[p.Text] = true
		out = append(out, c06Cases(p)...)
	}
	_ = d2ast.ReservedKeywords
	return out
}
