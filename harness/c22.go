package main

// C22 — grid cells follow declaration order, align, keep gaps, never overlap, lie inside the grid.
//
// Two kinds of cases, one grid diagram per case:
//
//   direct    a grid script (grid-rows / grid-columns / gaps in any combination and order, 1..30 cells) is
//             compiled by d2compiler; the harness gives every cell an arbitrary (dyadic) size, prepares the
//             root like LayoutNested does and calls the public d2grid.Layout.
//   pipeline  random diagrams with root-level and nested grids (leaf cells with labels, shapes, explicit
//             sizes, icons, label/icon positions, 3d/multiple; containers and grids as cells; edges) go
//             through d2compiler.Compile -> Graph.SetDimensions(real ruler) -> d2layouts.LayoutNested with
//             dagre as core layout; every grid container of the result is one case.  The size a cell had
//             before its grid was laid out is captured after SetDimensions (leaves) or by a wrapper around
//             the core layout (container cells).

import (
	"context"
	"fmt"
	"io"
	"log/slog"
	"math"
	"math/big"
	"sort"
	"strconv"
	"strings"
	"time"

	"oss.terrastruct.com/d2/d2compiler"
	"oss.terrastruct.com/d2/d2graph"
	"oss.terrastruct.com/d2/d2layouts"
	"oss.terrastruct.com/d2/d2layouts/d2dagrelayout"
	"oss.terrastruct.com/d2/d2layouts/d2grid"
	"oss.terrastruct.com/d2/lib/geo"
	"oss.terrastruct.com/d2/lib/label"
	d2log "oss.terrastruct.com/d2/lib/log"
	"oss.terrastruct.com/d2/lib/textmeasure"
)

func init() {
	register(&Prop{ID: "C22", Module: "V.C22.Check", Gen: c22Gen, Quick: 360, Thorough: 3000, Shard: 45})
}

// exact rational of a float64: (qz n) or (qd m e) = m / 2^e
func c22Q(f float64) string {
	if math.IsNaN(f) || math.IsInf(f, 0) {
		return "(qz 0%Z)"
	}
	if f == math.Trunc(f) && math.Abs(f) < 1e15 {
		return "(qz " + coqZ(int64(f)) + ")"
	}
	r := new(big.Rat).SetFloat64(f)
	e := r.Denom().BitLen() - 1
	if r.Num().Sign() < 0 {
		return fmt.Sprintf("(qd (%s)%%Z %d)", r.Num().String(), e)
	}
	return fmt.Sprintf("(qd %s%%Z %d)", r.Num().String(), e)
}

func c22Ctx() context.Context {
	return d2log.With(context.Background(), slog.New(slog.NewTextHandler(io.Discard, nil)))
}

var c22Ruler *textmeasure.Ruler

type c22Size struct{ w, h float64 }

func c22Atoi(s *d2graph.Scalar) int {
	if s == nil {
		return 0
	}
	v, _ := strconv.Atoi(s.Value)
	return v
}

func c22OptZ(s *d2graph.Scalar) string {
	if s == nil {
		return "None"
	}
	v, err := strconv.Atoi(s.Value)
	if err != nil {
		return "None"
	}
	return "(Some " + coqZ(int64(v)) + ")"
}

func c22IsOutside(p *string) bool {
	return p != nil && label.FromString(*p).IsOutside()
}

// a cell around which sizeForOutsideLabels adds no margin
func c22Plain(o *d2graph.Object) bool {
	if o.HasLabel() && c22IsOutside(o.LabelPosition) {
		return false
	}
	if o.HasIcon() && c22IsOutside(o.IconPosition) {
		return false
	}
	dx, dy := o.GetModifierElementAdjustments()
	if dx != 0 || dy != 0 {
		return false
	}
	m := o.GetMargin()
	return m.Left == 0 && m.Right == 0 && m.Top == 0 && m.Bottom == 0
}

// c22GridCase projects one laid-out grid container to a Coq case.
func c22GridCase(grid *d2graph.Object, sizeBefore func(*d2graph.Object) (c22Size, bool)) (coq string, impl map[string]any, nPlain int, fail string) {
	rows0, cols0 := c22Atoi(grid.GridRows), c22Atoi(grid.GridColumns)
	rowsFirst := false
	if grid.GridRows != nil && grid.GridColumns != nil && grid.GridRows.MapKey != nil && grid.GridColumns.MapKey != nil {
		rowsFirst = grid.GridRows.MapKey.Range.Before(grid.GridColumns.MapKey.Range)
	}
	var cells []string
	var readable [][]float64
	for _, o := range grid.ChildrenArray {
		if o.Box == nil || o.TopLeft == nil || math.IsNaN(o.TopLeft.X+o.TopLeft.Y+o.Width+o.Height) || math.IsInf(o.TopLeft.X+o.TopLeft.Y+o.Width+o.Height, 0) {
			fail = "cell without finite box: " + o.AbsID()
			continue
		}
		in := "None"
		if s, ok := sizeBefore(o); ok {
			in = fmt.Sprintf("(Some (%s, %s))", c22Q(s.w), c22Q(s.h))
		}
		plain := c22Plain(o)
		if plain {
			nPlain++
		}
		cells = append(cells, fmt.Sprintf("mkcell %s (mkbox %s %s %s %s) %s", in, c22Q(o.TopLeft.X), c22Q(o.TopLeft.Y), c22Q(o.Width), c22Q(o.Height), coqBool(plain)))
		readable = append(readable, []float64{o.TopLeft.X, o.TopLeft.Y, o.Width, o.Height})
	}
	cont := "None"
	var cbox []float64
	if grid.Box != nil && grid.TopLeft != nil {
		cont = fmt.Sprintf("(Some (mkbox %s %s %s %s))", c22Q(grid.TopLeft.X), c22Q(grid.TopLeft.Y), c22Q(grid.Width), c22Q(grid.Height))
		cbox = []float64{grid.TopLeft.X, grid.TopLeft.Y, grid.Width, grid.Height}
	}
	coq = fmt.Sprintf("Case %s %s %s %s %s %s %s %s", coqNat(rows0), coqNat(cols0), coqBool(rowsFirst),
		c22OptZ(grid.GridGap), c22OptZ(grid.VerticalGap), c22OptZ(grid.HorizontalGap), coqList(cells), cont)
	impl = map[string]any{"grid": grid.AbsID(), "rows": rows0, "columns": cols0, "rows_first": rowsFirst, "cells_xywh": readable, "container_xywh": cbox}
	return
}

// c22Timed runs f and gives up after 60 s (a hanging partition search must not take the whole run down).
func c22Timed(f func()) (timedOut bool) {
	done := make(chan struct{})
	go func() {
		defer close(done)
		f()
	}()
	select {
	case <-done:
		return false
	case <-time.After(60 * time.Second):
		return true
	}
}

// ---- d2grid.GenLayout (exported): rows from cut indices ----

func c22GenLayoutCase(r *Rng) (cs Case) {
	cs = Case{Class: "genlayout"}
	n := r.Range(1, 30)
	nc := r.Intn(7)
	cuts := make([]int, nc)
	for i := range cuts {
		cuts[i] = r.Intn(n)
	}
	switch r.Intn(3) {
	case 0: // as the search produces them: strictly increasing
		sort.Ints(cuts)
		var u []int
		for i, c := range cuts {
			if i == 0 || c != cuts[i-1] {
				u = append(u, c)
			}
		}
		cuts = u
	case 1:
		sort.Ints(cuts) // repeated cuts -> empty rows
	}
	objs := make([]*d2graph.Object, n)
	idx := map[*d2graph.Object]int{}
	for i := range objs {
		objs[i] = &d2graph.Object{ID: fmt.Sprint(i)}
		idx[objs[i]] = i
	}
	var rows [][]int
	defer func() {
		if e := recover(); e != nil {
			cs.ImplFail = append(cs.ImplFail, fmt.Sprintf("panic: %v", e))
		}
		var cz, rz []string
		for _, c := range cuts {
			cz = append(cz, coqNat(c))
		}
		for _, row := range rows {
			var xs []string
			for _, i := range row {
				xs = append(xs, coqNat(i))
			}
			rz = append(rz, coqList(xs))
		}
		cs.Coq = fmt.Sprintf("CGen %s %s %s", coqNat(n), coqList(cz), coqList(rz))
		cs.Input = map[string]any{"objects": n, "cuts": cuts}
		cs.Impl = map[string]any{"rows": rows}
		cs.Nontrivial = len(cuts) > 0
		cs.Key = cs.Coq
	}()
	for _, row := range d2grid.GenLayout(objs, cuts) {
		var xs []int
		for _, o := range row {
			xs = append(xs, idx[o])
		}
		rows = append(rows, xs)
	}
	return
}

// ---- direct: d2grid.Layout on a compiled grid whose cells get sizes chosen by the harness ----

type c22Config struct {
	rows, cols int
	rowsFirst  bool
	gap, vgap, hgap int // -1 = absent
}

func (c c22Config) lines(ind string) string {
	var b strings.Builder
	rowsLine, colsLine := "", ""
	if c.rows > 0 {
		rowsLine = fmt.Sprintf("%sgrid-rows: %d\n", ind, c.rows)
	}
	if c.cols > 0 {
		colsLine = fmt.Sprintf("%sgrid-columns: %d\n", ind, c.cols)
	}
	if c.rowsFirst {
		b.WriteString(rowsLine + colsLine)
	} else {
		b.WriteString(colsLine + rowsLine)
	}
	if c.gap >= 0 {
		fmt.Fprintf(&b, "%sgrid-gap: %d\n", ind, c.gap)
	}
	if c.vgap >= 0 {
		fmt.Fprintf(&b, "%svertical-gap: %d\n", ind, c.vgap)
	}
	if c.hgap >= 0 {
		fmt.Fprintf(&b, "%shorizontal-gap: %d\n", ind, c.hgap)
	}
	return b.String()
}

var c22GapVals = []int{0, 1, 7, 40, 100, 333, 5000, 100000}

func c22RandConfig(r *Rng, maxDim int) c22Config {
	c := c22Config{gap: -1, vgap: -1, hgap: -1, rowsFirst: r.Bool()}
	switch r.Intn(4) {
	case 0:
		c.rows = r.Range(1, maxDim)
	case 1:
		c.cols = r.Range(1, maxDim)
	default:
		c.rows, c.cols = r.Range(1, maxDim), r.Range(1, maxDim)
	}
	if r.Chance(0.5) {
		if r.Chance(0.6) {
			c.gap = c22GapVals[r.Intn(len(c22GapVals))]
		}
		if r.Chance(0.4) {
			c.vgap = c22GapVals[r.Intn(len(c22GapVals))]
		}
		if r.Chance(0.4) {
			c.hgap = c22GapVals[r.Intn(len(c22GapVals))]
		}
	}
	return c
}

func c22RandSize(r *Rng, allowZero bool) float64 {
	switch r.Intn(10) {
	case 0:
		if allowZero {
			return 0
		}
		return 1
	case 1:
		return float64(r.Range(1, 400)) / 4
	case 2:
		return float64(r.Range(1000, 100000))
	case 3:
		return float64(r.Range(1, 100000)) / 1024
	default:
		return float64(r.Range(1, 600))
	}
}

func c22Direct(r *Rng, cfg c22Config, n int, class string) (cs Case) {
	cs = Case{Class: class}
	var b strings.Builder
	b.WriteString(cfg.lines(""))
	for i := 0; i < n; i++ {
		fmt.Fprintf(&b, "c%d\n", i)
	}
	script := b.String()
	cs.Input = map[string]any{"script": script}
	defer func() {
		if e := recover(); e != nil {
			cs.ImplFail = append(cs.ImplFail, fmt.Sprintf("panic: %v", e))
			if cs.Coq == "" {
				cs.Coq = "Case 0%nat 0%nat false None None None [] None"
			}
		}
	}()
	g, _, err := d2compiler.Compile("", strings.NewReader(script), nil)
	if err != nil {
		cs.ImplFail = []string{"compile error: " + err.Error()}
		cs.Coq = "Case 0%nat 0%nat false None None None [] None"
		return
	}
	evenly := cfg.rows > 0 && cfg.cols > 0
	// layoutDynamic's partition is read off the output by the change of the cross coordinate: keep rows
	// (columns) distinguishable when the cross gap is 0
	vg, hg := 40, 40
	if cfg.gap >= 0 {
		vg, hg = cfg.gap, cfg.gap
	}
	if cfg.vgap >= 0 {
		vg = cfg.vgap
	}
	if cfg.hgap >= 0 {
		hg = cfg.hgap
	}
	// Also no zero size ALONG the groups for layoutDynamic: SetDimensions never produces one, and fastLayout
	// takes "rowSize == 0" for "row is empty" (a zero-width cell then yields an empty last row: near miss,
	// see findings/near_misses in meta.json).
	zeroW, zeroH := true, true
	if !evenly {
		if cfg.cols == 0 { // row-directed: rows told apart by y
			zeroW = false
			if vg == 0 {
				zeroH = false
			}
		} else {
			zeroH = false
			if hg == 0 {
				zeroW = false
			}
		}
	}
	uniform := r.Chance(0.15)
	uw, uh := c22RandSize(r, false), c22RandSize(r, false)
	sizes := map[*d2graph.Object]c22Size{}
	var in [][]float64
	for _, o := range g.Root.ChildrenArray {
		w, h := c22RandSize(r, zeroW), c22RandSize(r, zeroH)
		if uniform {
			w, h = uw, uh
		}
		o.Box = geo.NewBox(geo.NewPoint(0, 0), w, h)
		sizes[o] = c22Size{w, h}
		in = append(in, []float64{w, h})
	}
	g.Root.Box = &geo.Box{} // as LayoutNested does
	cs.Input = map[string]any{"script": script, "cell_sizes": in}
	var lerr error
	var lpanic any
	if c22Timed(func() {
		defer func() { lpanic = recover() }()
		lerr = d2grid.Layout(c22Ctx(), g)
	}) {
		cs.ImplFail = []string{"d2grid.Layout did not return within 60 s"}
		cs.Coq = "Case 0%nat 0%nat false None None None [] None"
		cs.Input = map[string]any{"script": script, "cell_sizes": in}
		return
	}
	if lpanic != nil {
		panic(lpanic)
	}
	if lerr != nil {
		cs.ImplFail = append(cs.ImplFail, "d2grid.Layout error: "+lerr.Error())
	}
	coq, impl, _, fail := c22GridCase(g.Root, func(o *d2graph.Object) (c22Size, bool) { s, ok := sizes[o]; return s, ok })
	if fail != "" {
		cs.ImplFail = append(cs.ImplFail, fail)
	}
	cs.Coq = coq
	cs.Input = map[string]any{"script": script, "cell_sizes": in}
	cs.Impl = impl
	cs.Nontrivial = n >= 2
	cs.Key = coq
	return
}

// ---- pipeline ----

var c22Words = []string{"a", "db", "Load balancer", "x", "A rather long label for a small cell", "π", "two\\nlines", "W", "cache", ""}
var c22Shapes = []string{"rectangle", "square", "circle", "oval", "diamond", "hexagon", "cloud", "person", "cylinder", "queue", "package", "step", "callout", "stored_data", "page", "parallelogram", "document", "text", "image", "code"}
var c22LabelNears = []string{"top-left", "top-center", "top-right", "center-left", "center-center", "center-right", "bottom-left", "bottom-center", "bottom-right",
	"outside-top-left", "outside-top-center", "outside-top-right", "outside-left-top", "outside-left-center", "outside-left-bottom",
	"outside-right-top", "outside-right-center", "outside-right-bottom", "outside-bottom-left", "outside-bottom-center", "outside-bottom-right",
	"border-top-left", "border-top-center", "border-right-center", "border-bottom-right"}

const c22Icon = "https://icons.terrastruct.com/essentials/004-picture.svg"

func c22Leaf(r *Rng, b *strings.Builder, ind string, fancy bool) {
	if r.Chance(0.7) {
		fmt.Fprintf(b, "%slabel: \"%s\"\n", ind, r.Pick(c22Words))
	}
	shape := ""
	if r.Chance(0.35) {
		shape = r.Pick(c22Shapes)
		fmt.Fprintf(b, "%sshape: %s\n", ind, shape)
		if shape == "image" {
			fmt.Fprintf(b, "%sicon: %s\n", ind, c22Icon)
		}
	} else if fancy && r.Chance(0.15) {
		fmt.Fprintf(b, "%sicon: %s\n", ind, c22Icon)
		if r.Chance(0.5) {
			fmt.Fprintf(b, "%sicon.near: %s\n", ind, r.Pick(c22LabelNears))
		}
	}
	if fancy && r.Chance(0.2) {
		fmt.Fprintf(b, "%slabel.near: %s\n", ind, r.Pick(c22LabelNears))
	}
	if fancy && shape == "" && r.Chance(0.08) {
		fmt.Fprintf(b, "%sstyle.%s: true\n", ind, r.Pick([]string{"3d", "multiple"}))
	}
	if shape != "circle" && shape != "square" {
		if r.Chance(0.3) {
			fmt.Fprintf(b, "%swidth: %d\n", ind, []int{1, 20, 77, 150, 400, 1000}[r.Intn(6)])
		}
		if r.Chance(0.3) {
			fmt.Fprintf(b, "%sheight: %d\n", ind, []int{1, 15, 60, 222, 700}[r.Intn(5)])
		}
	}
}

// c22GridBody writes config + cells of one grid; fancy=false keeps every cell plain (inside labels only)
func c22GridBody(r *Rng, b *strings.Builder, ind string, depth int, fancy bool, n int) {
	cfg := c22RandConfig(r, 5)
	if cfg.gap > 5000 {
		cfg.gap = 5000
	}
	b.WriteString(cfg.lines(ind))
	for i := 0; i < n; i++ {
		kind := r.Intn(20)
		fmt.Fprintf(b, "%sc%d: {\n", ind, i)
		switch {
		case fancy && kind < 3: // container cell
			if r.Bool() {
				fmt.Fprintf(b, "%s  label: \"\"\n", ind)
			}
			k := r.Range(1, 3)
			for j := 0; j < k; j++ {
				fmt.Fprintf(b, "%s  k%d: {\n", ind, j)
				c22Leaf(r, b, ind+"    ", false)
				fmt.Fprintf(b, "%s  }\n", ind)
			}
			if k > 1 && r.Bool() {
				fmt.Fprintf(b, "%s  k0 -> k1\n", ind)
			}
		case fancy && kind == 3 && depth < 2: // nested grid
			if r.Bool() {
				fmt.Fprintf(b, "%s  label: \"\"\n", ind)
			}
			c22GridBody(r, b, ind+"  ", depth+1, r.Bool(), r.Range(1, 6))
		default:
			c22Leaf(r, b, ind+"  ", fancy)
		}
		fmt.Fprintf(b, "%s}\n", ind)
	}
	if fancy && n > 1 && r.Chance(0.25) {
		fmt.Fprintf(b, "%sc%d -> c%d\n", ind, r.Intn(n), r.Intn(n))
	}
}

func c22Script(r *Rng) (string, string) {
	var b strings.Builder
	fancy := r.Chance(0.55)
	n := r.Range(0, 12)
	if r.Chance(0.1) {
		n = r.Range(20, 30)
	}
	class := "pipeline-plain"
	if fancy {
		class = "pipeline-fancy"
	}
	if r.Bool() {
		c22GridBody(r, &b, "", 0, fancy, n)
		return b.String(), class + "-root"
	}
	b.WriteString("before -> G\n")
	if r.Bool() {
		fmt.Fprintf(&b, "direction: %s\n", r.Pick([]string{"right", "down", "left", "up"}))
	}
	b.WriteString("G: {\n")
	if r.Chance(0.4) {
		fmt.Fprintf(&b, "  label: \"%s\"\n", r.Pick(c22Words))
		if r.Chance(0.5) {
			fmt.Fprintf(&b, "  label.near: %s\n", r.Pick(c22LabelNears))
		}
	}
	if r.Chance(0.15) {
		fmt.Fprintf(&b, "  icon: %s\n", c22Icon)
	}
	c22GridBody(r, &b, "  ", 0, fancy, n)
	b.WriteString("}\nG -> after\n")
	if r.Chance(0.3) {
		b.WriteString("H: {\n")
		c22GridBody(r, &b, "  ", 1, false, r.Range(1, 6))
		b.WriteString("}\nafter -> H\n")
	}
	return b.String(), class + "-nested"
}

func c22Corpus() []string {
	return []string{
		// the examples of the d2 documentation shapes: rows only, columns only, both in both orders
		"grid-rows: 2\na; b; c; d; e\n",
		"grid-columns: 2\na; b; c; d; e\n",
		"grid-rows: 2\ngrid-columns: 3\na; b; c; d; e; f; g\n",
		"grid-columns: 3\ngrid-rows: 2\na; b; c; d; e; f; g\n",
		"grid-rows: 3\ngrid-columns: 3\na; b\n",
		"grid-rows: 1\nonly\n",
		"grid-rows: 5\na; b\n",
		"grid-columns: 4\ngrid-gap: 0\na; b; c; d; e; f; g; h; i\n",
		"grid-rows: 2\nvertical-gap: 100000\nhorizontal-gap: 0\na; b; c; d\n",
		"grid-rows: 2\ngrid-gap: 10\nhorizontal-gap: 300\na: {width: 400}; b; c: {height: 300}; d; e\n",
		// containers and grids as cells, edges between cells
		"grid-rows: 2\na: {x -> y}; b; c: {grid-columns: 2; p; q; r}; d\na -> d\n",
		"G: {\n  grid-columns: 2\n  grid-rows: 2\n  a; b: {label: \"\"; k1; k2}; c; d; e\n}\nx -> G\n",
		// outside labels / icons / 3d around cells
		"grid-columns: 1\nx: \"a fairly long label here\" {label.near: outside-top-left; width: 50}\ny: {width: 160}\n",
		"grid-rows: 2\ngrid-columns: 2\na: {label.near: outside-left-center}; b: {style.3d: true}; c: {style.multiple: true}; d: {shape: person}\n",
		"grid-rows: 1\na: {icon: " + c22Icon + "; icon.near: outside-top-left}; b: {shape: image; icon: " + c22Icon + "}; c\n",
		// thirty cells
		"grid-columns: 6\n" + strings.Repeat("", 0) + c22Cells(30),
		"grid-rows: 4\n" + c22Cells(30),
		"grid-rows: 5\ngrid-columns: 5\n" + c22Cells(30),
		// empty grid
		"G: {grid-rows: 2}\nx -> G\n",
	}
}

func c22Cells(n int) string {
	var b strings.Builder
	for i := 0; i < n; i++ {
		fmt.Fprintf(&b, "cell%d: %s\n", i, strings.Repeat("w", 1+(i*7)%13))
	}
	return b.String()
}

// c22Pipeline runs compiler + SetDimensions + LayoutNested and returns one case per grid container.
func c22Pipeline(script, class string) (out []Case) {
	base := Case{Class: class, Input: map[string]any{"script": script}}
	failCase := func(msg string) []Case {
		c := base
		c.ImplFail = []string{msg}
		c.Coq = "Case 0%nat 0%nat false None None None [] None"
		return []Case{c}
	}
	var g *d2graph.Graph
	before := map[*d2graph.Object]c22Size{}
	captured := map[*d2graph.Object]bool{}
	var fail string
	if c22Timed(func() {
		defer func() {
			if e := recover(); e != nil {
				fail = fmt.Sprintf("panic: %v", e)
			}
		}()
		var err error
		g, _, err = d2compiler.Compile("", strings.NewReader(script), nil)
		if err != nil {
			fail = "compile error: " + err.Error()
			return
		}
		if c22Ruler == nil {
			c22Ruler, err = textmeasure.NewRuler()
			if err != nil {
				fail = "ruler: " + err.Error()
				return
			}
		}
		if len(g.Objects) == 0 {
			return
		}
		if err = g.SetDimensions(nil, c22Ruler, nil, nil); err != nil {
			fail = "SetDimensions: " + err.Error()
			return
		}
		for _, o := range g.Objects {
			before[o] = c22Size{o.Width, o.Height}
			captured[o] = len(o.ChildrenArray) == 0
		}
		core := func(ctx context.Context, g2 *d2graph.Graph) error {
			err := d2dagrelayout.DefaultLayout(ctx, g2)
			for _, o := range g2.Objects {
				if o.Box != nil {
					before[o] = c22Size{o.Width, o.Height}
					captured[o] = true
				}
			}
			return err
		}
		if err = d2layouts.LayoutNested(c22Ctx(), g, d2layouts.NestedGraphInfo(g.Root), core, d2layouts.DefaultRouter); err != nil {
			fail = "LayoutNested: " + err.Error()
		}
	}) {
		return failCase("layout did not return within 60 s")
	}
	if fail != "" {
		if strings.HasPrefix(fail, "compile error") {
			return nil // not an input of the layout
		}
		return failCase(fail)
	}
	sizeBefore := func(o *d2graph.Object) (c22Size, bool) {
		if o.IsGridDiagram() || o.IsSequenceDiagram() || !captured[o] {
			return c22Size{}, false
		}
		s, ok := before[o]
		return s, ok
	}
	grids := []*d2graph.Object{}
	if g.Root.IsGridDiagram() {
		grids = append(grids, g.Root)
	}
	for _, o := range g.Objects {
		if o.IsGridDiagram() {
			grids = append(grids, o)
		}
	}
	for _, grid := range grids {
		if len(grid.ChildrenArray) == 0 {
			continue
		}
		coq, impl, nPlain, f := c22GridCase(grid, sizeBefore)
		c := base
		c.Coq, c.Impl = coq, impl
		if f != "" {
			c.ImplFail = []string{f}
		}
		c.Nontrivial = len(grid.ChildrenArray) >= 2
		c.Key = coq
		if nPlain < len(grid.ChildrenArray) {
			c.Class += "/margins"
		}
		out = append(out, c)
	}
	if len(out) == 0 {
		c := base
		c.Coq = "Case 0%nat 0%nat false None None None [] None"
		c.Impl = map[string]any{"grids": 0}
		out = append(out, c)
	}
	return out
}

func c22Gen(r *Rng, tier string, n int) []Case {
	var out []Case
	for _, s := range c22Corpus() {
		out = append(out, c22Pipeline(s, "corpus")...)
	}
	// direct corpus: every rows/columns mode with 1, 2, 7, 30 cells, zero and huge gaps
	for _, cfg := range []c22Config{
		{rows: 1, gap: -1, vgap: -1, hgap: -1}, {cols: 1, gap: -1, vgap: -1, hgap: -1},
		{rows: 3, gap: 0, vgap: -1, hgap: -1}, {cols: 3, gap: -1, vgap: 0, hgap: 100000},
		{rows: 2, cols: 3, rowsFirst: true, gap: -1, vgap: -1, hgap: -1}, {rows: 2, cols: 3, rowsFirst: false, gap: 0, vgap: -1, hgap: -1},
		{rows: 6, cols: 6, rowsFirst: true, gap: 5000, vgap: 1, hgap: -1}, {rows: 4, gap: -1, vgap: -1, hgap: 7},
	} {
		for _, k := range []int{1, 2, 7, 30} {
			out = append(out, c22Direct(r.Fork(), cfg, k, "direct-corpus"))
		}
	}
	// overflowing rows+columns grids in both directions: more cells than rows*columns, every remainder
	for _, d := range [][2]int{{3, 2}, {2, 3}, {4, 2}, {2, 4}, {5, 3}, {3, 5}, {2, 1}, {1, 2}, {6, 1}} {
		for _, rowsFirst := range []bool{true, false} {
			cap0 := d[0] * d[1]
			for k := cap0 + 1; k <= cap0+d[0]+d[1] && k <= 30; k++ {
				if (k+d[0]+d[1])%2 == 0 && cap0 > 4 { // every second count for the larger ones
					continue
				}
				out = append(out, c22Direct(r.Fork(), c22Config{rows: d[0], cols: d[1], rowsFirst: rowsFirst, gap: -1, vgap: -1, hgap: -1}, k, "direct-overflow"))
			}
		}
	}
	for i := 0; i < n/12; i++ {
		out = append(out, c22GenLayoutCase(r.Fork()))
	}
	nDirect := (n - len(out)) / 2
	for i := 0; i < nDirect; i++ {
		cfg := c22RandConfig(r, 6)
		k := r.Range(1, 12)
		if r.Chance(0.15) {
			k = r.Range(13, 30)
		}
		out = append(out, c22Direct(r.Fork(), cfg, k, "direct"))
	}
	for tries := 0; len(out) < n && tries < 20*n; tries++ {
		s, cl := c22Script(r.Fork())
		out = append(out, c22Pipeline(s, cl)...)
	}
	return out
}
