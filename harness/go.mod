module verifharness

go 1.25

toolchain go1.25.0

require (
	golang.org/x/image v0.20.0
	oss.terrastruct.com/d2 v0.0.0
)

require (
	github.com/PuerkitoBio/goquery v1.10.0 // indirect
	github.com/alecthomas/chroma/v2 v2.14.0 // indirect
	github.com/andybalholm/cascadia v1.3.2 // indirect
	github.com/dlclark/regexp2 v1.11.4 // indirect
	github.com/dop251/goja v0.0.0-20240927123429-241b342198c2 // indirect
	github.com/go-sourcemap/sourcemap v2.1.4+incompatible // indirect
	github.com/golang/freetype v0.0.0-20170609003504-e2365dfdc4a0 // indirect
	github.com/google/pprof v0.0.0-20240927180334-d43a67379298 // indirect
	github.com/lucasb-eyer/go-colorful v1.2.0 // indirect
	github.com/mazznoer/csscolorparser v0.1.5 // indirect
	github.com/rivo/uniseg v0.4.7 // indirect
	github.com/yuin/goldmark v1.7.4 // indirect
	golang.org/x/exp v0.0.0-20240909161429-701f63a606c0 // indirect
	golang.org/x/net v0.35.0 // indirect
	golang.org/x/sys v0.30.0 // indirect
	golang.org/x/term v0.29.0 // indirect
	golang.org/x/text v0.22.0 // indirect
	golang.org/x/xerrors v0.0.0-20240903120638-7835f813f4da // indirect
	oss.terrastruct.com/util-go v0.0.0-20250213174338-243d8661088a // indirect
)

replace oss.terrastruct.com/d2 => /repo
