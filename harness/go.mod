module verifharness

go 1.25

toolchain go1.25.0

require (
	golang.org/x/image v0.20.0
	github.com/coder/websocket v1.8.12
	oss.terrastruct.com/d2 v0.0.0
	oss.terrastruct.com/util-go v0.0.0-20250213174338-243d8661088a
)

require (
	github.com/PuerkitoBio/goquery v1.10.0 // indirect
	github.com/alecthomas/chroma/v2 v2.14.0 // indirect
	github.com/andybalholm/brotli v1.2.0 // indirect
	github.com/andybalholm/cascadia v1.3.2 // indirect
	github.com/deckarep/golang-set/v2 v2.7.0 // indirect
	github.com/dlclark/regexp2 v1.11.4 // indirect
	github.com/dop251/goja v0.0.0-20240927123429-241b342198c2 // indirect
	github.com/dsoprea/go-exif/v3 v3.0.1 // indirect
	github.com/dsoprea/go-logging v0.0.0-20200710184922-b02d349568dd // indirect
	github.com/dsoprea/go-png-image-structure/v2 v2.0.0-20210512210324-29b889a6093d // indirect
	github.com/dsoprea/go-utility/v2 v2.0.0-20221003172846-a3e1774ef349 // indirect
	github.com/ericpauley/go-quantize v0.0.0-20200331213906-ae555eb2afa4 // indirect
	github.com/fsnotify/fsnotify v1.7.1-0.20240403050945-7086bea086b7 // indirect
	github.com/go-errors/errors v1.5.1 // indirect
	github.com/go-jose/go-jose/v3 v3.0.4 // indirect
	github.com/go-sourcemap/sourcemap v2.1.4+incompatible // indirect
	github.com/go-stack/stack v1.8.1 // indirect
	github.com/golang/freetype v0.0.0-20170609003504-e2365dfdc4a0 // indirect
	github.com/golang/geo v0.0.0-20230421003525-6adc56603217 // indirect
	github.com/google/pprof v0.0.0-20240927180334-d43a67379298 // indirect
	github.com/jung-kurt/gofpdf v1.16.2 // indirect
	github.com/lucasb-eyer/go-colorful v1.2.0 // indirect
	github.com/mazznoer/csscolorparser v0.1.5 // indirect
	github.com/pkg/browser v0.0.0-20240102092130-5ac0b6a4141c // indirect
	github.com/playwright-community/playwright-go v0.5200.0 // indirect
	github.com/rivo/uniseg v0.4.7 // indirect
	github.com/spf13/pflag v1.0.5 // indirect
	github.com/yuin/goldmark v1.7.4 // indirect
	go.uber.org/multierr v1.11.0 // indirect
	golang.org/x/exp v0.0.0-20240909161429-701f63a606c0 // indirect
	golang.org/x/net v0.35.0 // indirect
	golang.org/x/sync v0.11.0 // indirect
	golang.org/x/sys v0.30.0 // indirect
	golang.org/x/term v0.29.0 // indirect
	golang.org/x/text v0.22.0 // indirect
	golang.org/x/xerrors v0.0.0-20240903120638-7835f813f4da // indirect
	gopkg.in/yaml.v2 v2.4.0 // indirect
)

replace oss.terrastruct.com/d2 => /repo
