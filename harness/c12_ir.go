package main

// C12 part 2, correspondence of the Coq IR model (coq/C12/GlobModel.v) with d2ir.Compile on the core fragment:
// one scope, explicit keys `a.b.style.fill: v`, single-level field globs `pre.p1.p2.suffix: v`.

import (
	"sort"
	"strings"

	"oss.terrastruct.com/d2/d2ir"
	"oss.terrastruct.com/d2/d2parser"
)

type c12MStmt struct {
	Glob bool
	Pre  []string // explicit names (key path for an explicit key)
	Pats []string // glob: pattern elements
	Suf  []string // glob: reserved suffix
	Val  string   // "" = no value (explicit key only)
}

func (s c12MStmt) text() string {
	var els []string
	els = append(els, s.Pre...)
	els = append(els, s.Pats...)
	els = append(els, s.Suf...)
	t := strings.Join(els, ".")
	if s.Val != "" {
		t += ": " + s.Val
	}
	return t
}

func c12CoqPath(p []string) string {
	var xs []string
	for _, n := range p {
		xs = append(xs, coqBytes(n))
	}
	return coqList(xs)
}

func (s c12MStmt) coq() string {
	if !s.Glob {
		return "SKey " + c12CoqPath(s.Pre) + " " + coqOpt(s.Val != "", coqBytes(s.Val))
	}
	var ps []string
	for _, p := range s.Pats {
		ps = append(ps, c12CoqPat(c12PatternOf(p)))
	}
	return "SGlob (G " + c12CoqPath(s.Pre) + " " + coqList(ps) + " " + c12CoqPath(s.Suf) + " " + coqBytes(s.Val) + ")"
}

type c12FProj struct {
	Path []string
	Prim *string
}

func c12IRProj(m *d2ir.Map, par []string, out *[]c12FProj) {
	for _, f := range m.Fields {
		if f.Name == nil {
			continue
		}
		p := append(append([]string(nil), par...), f.Name.ScalarString())
		fp := c12FProj{Path: p}
		if f.Primary_ != nil {
			v := f.Primary_.Value.ScalarString()
			fp.Prim = &v
		}
		*out = append(*out, fp)
		if f.Map() != nil {
			c12IRProj(f.Map(), p, out)
		}
	}
}

func c12CompileIR(src string) (fs []c12FProj, ok bool, msg string) {
	defer func() {
		if r := recover(); r != nil {
			ok = false
			msg = "panic"
		}
	}()
	ast, err := d2parser.Parse("x.d2", strings.NewReader(src), nil)
	if err != nil {
		return nil, false, err.Error()
	}
	m, _, err := d2ir.Compile(ast, nil)
	if err != nil {
		return nil, false, err.Error()
	}
	c12IRProj(m, nil, &fs)
	return fs, true, ""
}

var c12Sufs = [][]string{{"style", "fill"}, {"style", "fill"}, {"style", "stroke"}, {"style", "opacity"}, {"label"}, {"shape"}, {"style", "font-size"}}

func c12GenIR(r *Rng, n int) []Case {
	var out []Case
	nameSets := [][]string{
		{"a", "b", "c", "ab", "abc"},
		{"ab", "xb", "abc", "b", "Ab"},
		{"a", "A", "b", "ba", "aba"},
		{"x", "y", "xy"},
	}
	corpus := [][]c12MStmt{
		{{Glob: true, Pats: []string{"*"}, Suf: []string{"style", "fill"}, Val: "red"}, {Pre: []string{"a", "style", "fill"}, Val: "blue"}, {Pre: []string{"b"}}, {Pre: []string{"a", "b"}}},
		{{Pre: []string{"a", "style", "fill"}, Val: "blue"}, {Glob: true, Pats: []string{"*"}, Suf: []string{"style", "fill"}, Val: "red"}},
		{{Glob: true, Pats: []string{"*"}, Suf: []string{"style", "fill"}, Val: "red"}, {Pre: []string{"a"}}, {Glob: true, Pats: []string{"*"}, Suf: []string{"style", "fill"}, Val: "yellow"}, {Glob: true, Pats: []string{"*"}, Suf: []string{"style", "fill"}, Val: "red"}},
		{{Glob: true, Pre: []string{"x"}, Pats: []string{"*"}, Suf: []string{"shape"}, Val: "circle"}, {Glob: true, Pats: []string{"*"}, Suf: []string{"label"}, Val: "L"}, {Pre: []string{"X", "a"}}, {Pre: []string{"y", "b", "c"}}},
		{{Glob: true, Pats: []string{"*", "*"}, Suf: []string{"style", "fill"}, Val: "red"}, {Glob: true, Pats: []string{"a*"}, Suf: []string{"style", "fill"}, Val: "green"}, {Pre: []string{"a", "b", "c"}}, {Pre: []string{"ab", "c"}}},
		{{Pre: []string{"ab"}}, {Pre: []string{"abc"}}, {Pre: []string{"xb"}}, {Glob: true, Pats: []string{"*b"}, Suf: []string{"style", "fill"}, Val: "red"}},
	}
	mk := func(prog []c12MStmt, names []string, class string) {
		var lines []string
		var cs []string
		var pats []string
		dup := false
		seen := map[string]bool{}
		for _, s := range prog {
			lines = append(lines, s.text())
			cs = append(cs, s.coq())
			if s.Glob {
				pats = append(pats, s.Pats...)
				if seen[s.text()] {
					dup = true
				}
				seen[s.text()] = true
			}
		}
		src := strings.Join(lines, "\n") + "\n"
		fs, ok, msg := c12CompileIR(src)
		var rows []string
		for _, f := range fs {
			rows = append(rows, coqTuple(c12CoqPath(f.Path), coqOpt(f.Prim != nil, coqBytes(c12Deref(f.Prim)))))
		}
		c := Case{Class: class, Nontrivial: len(pats) > 0, Key: "i:" + src}
		c.Coq = "CIR " + coqList(cs) + " " + coqOpt(ok, coqList(rows))
		c.Input = map[string]any{"program": src}
		c.Impl = map[string]any{"fields": fs, "error": msg}
		tags := map[string]bool{}
		if dup {
			tags["C12-duplicate-glob-ignored"] = true
		}
		for _, p := range pats {
			for _, nm := range names {
				for _, t := range c12MatchKF(nm, c12PatternOf(p)) {
					tags[t] = true
				}
			}
		}
		for t := range tags {
			c.KF = append(c.KF, t)
		}
		sort.Strings(c.KF)
		out = append(out, c)
	}
	for _, p := range corpus {
		mk(p, []string{"a", "b", "c", "ab", "abc", "xb", "x", "y"}, "ir-corpus")
	}
	for i := 0; i < n; i++ {
		names := nameSets[r.Intn(len(nameSets))]
		g := &c12Gen2{r: r, names: names}
		var prog []c12MStmt
		for k := 2 + r.Intn(8); k > 0; k-- {
			if r.Chance(0.4) {
				s := c12MStmt{Glob: true, Suf: c12Sufs[r.Intn(len(c12Sufs))], Val: r.Pick([]string{"red", "blue", "green", "v1", "v2"})}
				if r.Chance(0.3) {
					s.Pre = append(s.Pre, r.Pick(names))
				}
				s.Pats = append(s.Pats, g.pattern())
				if r.Chance(0.25) {
					s.Pats = append(s.Pats, g.pattern())
				}
				// an occasional repetition of an earlier glob (known finding)
				if r.Chance(0.04) && len(prog) > 0 {
					for _, q := range prog {
						if q.Glob {
							s = q
						}
					}
				}
				prog = append(prog, s)
			} else {
				s := c12MStmt{}
				for m := 1 + r.Intn(3); m > 0; m-- {
					s.Pre = append(s.Pre, r.Pick(names))
				}
				if r.Chance(0.5) {
					s.Pre = append(s.Pre, c12Sufs[r.Intn(len(c12Sufs))]...)
					s.Val = r.Pick([]string{"red", "blue", "w1", "w2"})
				}
				prog = append(prog, s)
			}
		}
		mk(prog, names, "ir-random")
	}
	return out
}

func c12Deref(s *string) string {
	if s == nil {
		return ""
	}
	return *s
}
