(* C02 — position threading of the parser for a FRAGMENT of the language (definitions only).

   Fragment = inputs of d2parser.Parse on which [parse_fragment] answers [Some _]: a file map whose nodes are
   map keys  `seg(.seg)*`  or  `seg(.seg)* : scalar`  separated by newlines / `;`, where a segment or scalar is
   an unquoted, double-quoted or single-quoted string (value keywords null/true/... and numbers have the range
   of their unquoted string), including: unicode spaces, escapes, unterminated quotes and the two errors they
   report, `\` at end of input, stray `}` in the file map, trailing text after a key ("unexpected text after
   ..."), a missing value directly at end of line / input.
   Outside (the model answers None): comments, block strings / block comments, maps, arrays, edges, edge groups,
   `&` filters, imports, substitutions (`$` in values), keys beginning with `.` or `..`, `@` keys, escaped
   newlines in unquoted strings, a value position that holds only a delimiter (`a: ;`), segments > 518 bytes.

   The Go code computes every position incrementally: p.pos is advanced rune by rune (Position.Advance), a
   string's Start is p.pos.Subtract(the quote), replay(r) subtracts r again, an unquoted string ends at lastNonSpace,
   error ends are p.pos or p.readerPos (= end of input once EOF was hit).  The model does exactly that on the
   [pos] component.  Every position additionally carries a GHOST rune index (first component of [ipos]) that Go
   does not have; it is what the theorems use to say "this is the position of boundary k of the input".
   The scanners are the C05 scanners (V.C05.Model.scan_unq / scan_dq / scan_sq) extended by positions; Proofs.v
   shows that erasing positions gives back the C05 functions. *)
From Coq Require Import List NArith ZArith Bool.
Import ListNotations.
Require Import V.C05.Model V.C02.Pos.
Open Scope N_scope.

Definition ipos := (nat * pos)%type.
Definition irange := (ipos * ipos)%type.
Definition cursor := (nat * pos * str)%type.      (* ghost index, p.pos, unread input *)

(* p.Subtract(r) for a rune that is not a newline (all uses in the fragment: a constant delimiter, or the
   non-space rune just read that replay() pushes back) *)
Definition sub1 (u16 : bool) (p : pos) (r : N) : pos :=
  mkpos (line p) (col p - width u16 r) (byte p - width u16 r).

Definition back (u16 : bool) (i : ipos) (r : N) : ipos := (pred (fst i), sub1 u16 (snd i) r).

(* p.readerPos after the reader hit EOF: the position of the end of the input *)
Definition eof_ip (u16 : bool) (k : nat) (p : pos) (l : str) : ipos :=
  ((k + length l)%nat, advance_string u16 p l).

(* peekNotSpace followed by commit of the spaces (the found rune is left unread) *)
Fixpoint skip_sp_p (u16 : bool) (l : str) (k : nat) (p : pos) (nl : bool) : bool * cursor :=
  match l with
  | [] => (nl, (k, p, []))
  | r :: tl => if is_space r then skip_sp_p u16 tl (S k) (advance u16 p r) (nl || (r =? cNL)) else (nl, (k, p, l))
  end.

Definition ures := option (str * ipos * cursor * list irange).

(* parseUnquotedString's loop; lns = lastNonSpace *)
Fixpoint scan_unq_p (u16 inKey : bool) (l : str) (k : nat) (p : pos) (lns : ipos) (acc : str) {struct l} : ures :=
  let ordinary (r : N) (tl : str) (k : nat) (p : pos) (lns : ipos) (acc : str)
               (cont : str -> nat -> pos -> ipos -> str -> ures) : ures :=
      let k1 := S k in
      let p1 := advance u16 p r in
      let lns1 := if is_space r then lns else (k1, p1) in
      if negb inKey && (r =? cDOLLAR) then None
      else if r =? cBSL then
        match tl with
        | [] => Some (acc, lns1, (k1, p1, []), [(back u16 (k1, p1) cBSL, eof_ip u16 k1 p1 [])])
        | r2 :: tl2 =>
            if r2 =? cNL then None
            else cont tl2 (S k1) (advance u16 p1 r2) lns1 (acc ++ [decode_escape r2])
        end
      else cont tl k1 p1 lns1 (acc ++ [r]) in
  match l with
  | [] => Some (acc, lns, (k, p, []), [])
  | r :: tl =>
      if is_top_delim r then Some (acc, lns, (k, p, l), [])
      else if inKey && is_key_delim r then Some (acc, lns, (k, p, l), [])
      else if inKey && (r =? cDASH) then
        match tl with
        | [] => Some (acc, lns, (k, p, l), [])
        | r2 :: tl2 =>
            if is_top_delim r2 then Some (acc ++ [r], lns, (S k, advance u16 p r, tl), [])
            else if (r2 =? cDASH) || (r2 =? cGT) || (r2 =? cSTAR) then Some (acc, lns, (k, p, l), [])
            else ordinary r2 tl2 (S k) (advance u16 p r) lns (acc ++ [r])
                          (fun t k p lns a => scan_unq_p u16 inKey t k p lns a)
        end
      else ordinary r tl k p lns acc (fun t k p lns a => scan_unq_p u16 inKey t k p lns a)
  end.

Definition qres := option (str * cursor * list irange).

(* parseDoubleQuotedString after the opening quote; start = the string's Range.Start *)
Fixpoint scan_dq_p (u16 inKey : bool) (start : ipos) (l : str) (k : nat) (p : pos) (acc : str) {struct l} : qres :=
  match l with
  | [] => Some (acc, (k, p, []), [(start, eof_ip u16 k p [])])
  | r :: tl =>
      if r =? cNL then Some (acc, (k, p, l), [(start, (k, p))])
      else if negb inKey && (r =? cDOLLAR) then None
      else
        let k1 := S k in
        let p1 := advance u16 p r in
        if r =? cDQ then Some (acc, (k1, p1, tl), [])
        else if r =? cBSL then
          match tl with
          | [] => Some (acc, (k1, p1, []),
                        [(back u16 (k1, p1) cBSL, eof_ip u16 k1 p1 []); (start, eof_ip u16 k1 p1 [])])
          | r2 :: tl2 =>
              if r2 =? cNL then scan_dq_p u16 inKey start tl2 (S k1) (advance u16 p1 r2) acc
              else scan_dq_p u16 inKey start tl2 (S k1) (advance u16 p1 r2) (acc ++ [decode_escape r2])
          end
        else scan_dq_p u16 inKey start tl k1 p1 (acc ++ [r])
  end.

(* parseSingleQuotedString after the opening quote *)
Fixpoint scan_sq_p (u16 : bool) (start : ipos) (l : str) (k : nat) (p : pos) (acc : str) {struct l} : qres :=
  match l with
  | [] => Some (acc, (k, p, []), [(start, eof_ip u16 k p [])])
  | r :: tl =>
      if r =? cNL then Some (acc, (k, p, l), [(start, (k, p))])
      else
        let k1 := S k in
        let p1 := advance u16 p r in
        if r =? cSQ then
          match tl with
          | r2 :: tl2 => if r2 =? cSQ then scan_sq_p u16 start tl2 (S k1) (advance u16 p1 r2) (acc ++ [cSQ])
                         else Some (acc, (k1, p1, tl), [])
          | [] => Some (acc, (k1, p1, []), [])
          end
        else if r =? cBSL then
          match tl with
          | [] => scan_sq_p u16 start tl k1 p1 acc
          | r2 :: tl2 => if r2 =? cNL then scan_sq_p u16 start tl2 (S k1) (advance u16 p1 r2) acc
                         else scan_sq_p u16 start tl k1 p1 (acc ++ [r])
          end
        else scan_sq_p u16 start tl k1 p1 (acc ++ [r])
  end.

(* a string node: kind (3 unquoted, 4 double quoted, 5 single quoted), Range.Start, Range.End, value *)
Definition snode := (N * ipos * ipos * str)%type.

(* parseString: Some (None, ..) = no string *)
Definition parse_string_p (u16 inKey : bool) (c : cursor) : option (option snode * cursor * list irange) :=
  let '(k, p, l) := c in
  let '(nl, (k1, p1, l1)) := skip_sp_p u16 l k p false in
  match l1 with
  | [] => Some (None, c, [])
  | r :: tl =>
      if nl then Some (None, c, [])
      else
        let k2 := S k1 in
        let p2 := advance u16 p1 r in                     (* commit *)
        if r =? cDQ then
          let start := back u16 (k2, p2) cDQ in
          match scan_dq_p u16 inKey start tl k2 p2 [] with
          | None => None
          | Some (v, (k3, p3, l3), es) => Some (Some (4, start, (k3, p3), v), (k3, p3, l3), es)
          end
        else if r =? cSQ then
          let start := back u16 (k2, p2) cSQ in
          match scan_sq_p u16 start tl k2 p2 [] with
          | None => None
          | Some (v, (k3, p3, l3), es) => Some (Some (5, start, (k3, p3), v), (k3, p3, l3), es)
          end
        else if r =? cPIPE then None
        else
          let start := back u16 (k2, p2) r in              (* replay(r) *)
          match scan_unq_p u16 inKey l1 (fst start) (snd start) start [] with
          | None => None
          | Some (v, lns, c3, es) =>
              match trim_right v with
              | [] => Some (None, c3, es)
              | t => Some (Some (3, start, lns, t), c3, es)
              end
          end
  end.

(* parseKey: the segments of the key path *)
Fixpoint parse_key_p (u16 : bool) (fuel : nat) (c : cursor) (segs : list snode) (es : list irange)
  : option (list snode * cursor * list irange) :=
  match fuel with
  | O => None
  | S fuel' =>
      let '(k, p, l) := c in
      let '(nl, (_, _, l1)) := skip_sp_p u16 l k p false in
      match l1 with
      | [] => Some (segs, c, es)
      | r :: _ =>
          if nl || (r =? cLP) then Some (segs, c, es)
          else if r =? cDOT then None
          else
            match parse_string_p u16 true c with
            | None => None
            | Some (None, c2, es2) => Some (segs, c2, es ++ es2)
            | Some (Some (kind, s, e, v), c2, es2) =>
                if (kind =? 3) && match v with x :: _ => x =? cAT | [] => false end then None
                else if (518 <? units false v)%Z then None
                else
                  let segs' := segs ++ [(kind, s, e, v)] in
                  let '(k2, p2, l2) := c2 in
                  let '(nl2, (k3, p3, l3)) := skip_sp_p u16 l2 k2 p2 false in
                  match l3 with
                  | [] => Some (segs', c2, es ++ es2)
                  | r2 :: tl3 =>
                      if nl2 || negb (r2 =? cDOT) then Some (segs', c2, es ++ es2)
                      else parse_key_p u16 fuel' (S k3, advance u16 p3 r2, tl3) segs' (es ++ es2)
                  end
            end
      end
  end.

(* nodes as the harness lists them: kind, parent index, Range.Start, Range.End *)
Definition gnode := (N * nat * ipos * ipos)%type.

Definition seg_nodes (parent : nat) (segs : list snode) : list gnode :=
  map (fun '(kind, s, e, _) => (kind, parent, s, e)) segs.

Definition last_end (segs : list snode) (d : ipos) : ipos :=
  match last segs (0, d, d, []) with (_, _, e, _) => e end.
Definition first_start (segs : list snode) (d : ipos) : ipos :=
  match segs with (_, s, _, _) :: _ => s | [] => d end.

(* parseValue for the scalar fragment, after the ':' has been committed.  Result: the value node (if any),
   the cursor, errors *)
Definition parse_value_p (u16 : bool) (c : cursor) : option (option snode * cursor * list irange) :=
  let '(k, p, l) := c in
  let '(nl, (k1, p1, l1)) := skip_sp_p u16 l k p false in
  match l1 with
  | [] => Some (None, c, [])
  | r :: tl =>
      if nl then Some (None, c, [])
      else if (r =? cLB) || (r =? cLC) || (r =? cAT) then None
      else if match l1 with a :: b :: c :: d :: _ => (a =? cDOT) && (b =? cDOT) && (c =? cDOT) && (d =? cAT)
                          | _ => false end then None       (* "...@": import spread error *)
      else
        (* commit; replay(r) *)
        let c1 := (k1, sub1 u16 (advance u16 p1 r) r, l1) in
        match parse_string_p u16 false c1 with
        | None => None
        | Some (None, _, _) => None
        | Some (Some n, c2, es) => Some (Some n, c2, es)
        end
  end.

(* the nodes of one map key as the harness lists them: Key, KeyPath, its segments, the value *)
Definition key_group (base : nat) (start : ipos) (segs : list snode) (fin : ipos) (val : list gnode) : list gnode :=
  (1, O, start, fin) :: (2, base, first_start segs start, last_end segs start) :: seg_nodes (S base) segs ++ val.

Definition finish_key (base : nat) (start : ipos) (segs : list snode) (es : list irange)
           (c3 : cursor) (val : list gnode) (es3 : list irange) : option (list gnode * cursor * list irange) :=
  Some (key_group base start segs (fst c3) val, c3, es ++ es3).

(* parseMapKeyValue after the key path: c2 = cursor behind the key path *)
Definition parse_key_value_p (u16 : bool) (base : nat) (start : ipos) (segs : list snode) (es : list irange) (c2 : cursor)
  : option (list gnode * cursor * list irange) :=
  let '(k2, p2, l2) := c2 in
  let '(nl, (k3, p3, l3)) := skip_sp_p u16 l2 k2 p2 false in
  match l3 with
  | [] => finish_key base start segs es c2 [] []
  | r3 :: tl3 =>
      if nl then finish_key base start segs es c2 [] []
      else if (r3 =? cLP) || (r3 =? cLT) || (r3 =? cGT) || (r3 =? cDASH) || (r3 =? cLC) then None
      else if negb (r3 =? cCOLON) then finish_key base start segs es c2 [] []
      else
        let c4 : cursor := (S k3, advance u16 p3 r3, tl3) in       (* commit ':' *)
        match parse_value_p u16 c4 with
        | None => None
        | Some (None, c5, es5) =>
            finish_key base start segs es c5 [] (es5 ++ [(back u16 (fst c5) cCOLON, fst c5)])
        | Some (Some (kind, s, e, _), c5, es5) =>
            let '(k5, p5, l5) := c5 in
            let '(nl5, (_, _, l6)) := skip_sp_p u16 l5 k5 p5 false in
            if negb nl5 && match l6 with r6 :: _ => r6 =? cLC | [] => false end then None
            else finish_key base start segs es c5 [(kind, base, s, e)] es5
        end
  end.

(* parseMapKey (+ parseMapKeyValue) entered with the cursor on the key's first rune.
   base = index the Key node gets in the node list *)
Definition parse_map_key_p (u16 : bool) (base : nat) (c : cursor) : option (list gnode * cursor * list irange) :=
  let '(k, p, l) := c in
  match l with
  | [] => None
  | r :: tl =>
      if (r =? cAMP) || (r =? cLP) || (r =? cDOT)
         || ((r =? 33) && match tl with r2 :: _ => r2 =? cAMP | [] => false end)
      then None
      else
        match parse_key_p u16 (S (length l)) c [] [] with
        | None => None
        | Some ([], _, _) => None
        | Some (segs, c2, es) => parse_key_value_p u16 base (k, p) segs es c2
        end
  end.

(* the loop after a map node: every rune up to the end of the line / `;` / `}` / `#` is committed *)
Fixpoint junk_p (u16 : bool) (l : str) (k : nat) (p : pos) (committed : cursor) : cursor :=
  match l with
  | [] => committed
  | r :: tl =>
      if is_space r then (if r =? cNL then committed else junk_p u16 tl (S k) (advance u16 p r) committed)
      else if (r =? cSEMI) || (r =? cRC) || (r =? cHASH) then committed
      else junk_p u16 tl (S k) (advance u16 p r) (S k, advance u16 p r, tl)
  end.

(* parseMap(isFileMap = true): nodes after the root, errors, final cursor *)
Fixpoint parse_file_p (u16 : bool) (fuel : nat) (c : cursor) (nodes : list gnode) (es : list irange)
  : option (list gnode * ipos * list irange) :=
  match fuel with
  | O => None
  | S fuel' =>
      let '(k, p, l) := c in
      let '(_, (k1, p1, l1)) := skip_sp_p u16 l k p false in          (* readNotSpace *)
      match l1 with
      | [] => Some (nodes, (k1, p1), es)
      | r :: tl =>
          let k2 := S k1 in
          let p2 := advance u16 p1 r in
          if r =? cSEMI then parse_file_p u16 fuel' (k2, p2, tl) nodes es
          else if r =? cRC then parse_file_p u16 fuel' (k2, p2, tl) nodes (es ++ [(back u16 (k2, p2) cRC, (k2, p2))])
          else if r =? cHASH then None
          else if (r =? cDQ) && match tl with a :: b :: _ => (a =? cDQ) && (b =? cDQ) | _ => false end then None
          else
            (* replay(r); parseMapKey *)
            let c2 : cursor := (k1, sub1 u16 p2 r, l1) in
            match parse_map_key_p u16 (S (length nodes)) c2 with
            | None => None
            | Some (ns, (k3, p3, l3), es3) =>
                let '(k4, p4, l4) := junk_p u16 l3 k3 p3 (k3, p3, l3) in
                let es4 := if pos_eqb p3 p4 then [] else [((k3, p3), (k4, p4))] in
                parse_file_p u16 fuel' (k4, p4, l4) (nodes ++ ns) (es ++ es3 ++ es4)
            end
      end
  end.

Definition parse_fragment_g (u16 : bool) (rs : str) : option (list gnode * list irange) :=
  match parse_file_p u16 (S (length rs)) (O, origin, rs) [] [] with
  | None => None
  | Some (ns, e, es) => Some ((0, O, (O, origin), e) :: ns, es)
  end.

Definition fnode := (N * N * pos * pos)%type.

Definition erase_node (g : gnode) : fnode := let '(kd, par, s, e) := g in (kd, N.of_nat par, snd s, snd e).
Definition erase_range (r : irange) : pos * pos := (snd (fst r), snd (snd r)).

Definition parse_fragment (u16 : bool) (rs : str) : option (list fnode * list (pos * pos)) :=
  match parse_fragment_g u16 rs with
  | None => None
  | Some (ns, es) => Some (map erase_node ns, map erase_range es)
  end.
