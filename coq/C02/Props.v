(* C02 — Source positions are exact in UTF-8 and UTF-16 modes.  Statements only. *)
From Coq Require Import List NArith ZArith.
Import ListNotations.
Require Import V.C05.Model V.C02.Pos V.C02.PosProofs V.C02.Utf8 V.C02.Model V.C02.Proofs V.C02.CheckProofs.
Require V.C02.Check.
Open Scope Z_scope.

(* ---- Position.Advance / Subtract / AdvanceString / Before: every rune list, both modes ---- *)

(* line = number of newlines, column = units after the last newline, offset = all units
   (units = UTF-8 bytes, or UTF-16 code units when u16 = true) *)
Theorem C02_advance_string_exact : forall u16 rs,
  advance_string u16 origin rs = mkpos (count_nl rs) (units u16 (after_last_nl rs)) (units u16 rs).
Proof. exact advance_string_exact. Qed.

Theorem C02_advance_string_from : forall u16 rs p,
  advance_string u16 p rs =
  mkpos (line p + count_nl rs) (if has_nl rs then units u16 (after_last_nl rs) else col p + units u16 rs)
        (byte p + units u16 rs).
Proof. exact advance_string_gen. Qed.

Theorem C02_subtract_advance : forall u16 p r, is_nl r = false -> subtract u16 (advance u16 p r) r = Some p.
Proof. exact subtract_advance. Qed.

Theorem C02_advance_subtract : forall u16 p q r, subtract u16 p r = Some q -> advance u16 q r = p.
Proof. exact advance_subtract. Qed.

(* Subtract panics exactly on a newline *)
Theorem C02_subtract_panics_iff : forall u16 p r, subtract u16 p r = None <-> r = 10%N.
Proof. exact subtract_panics_iff. Qed.

Theorem C02_astral_width : forall r, (65536 <= r <= 1114111)%N -> width false r = 4 /\ width true r = 2.
Proof. exact width_astral. Qed.

Theorem C02_advance_string_monotone : forall u16 rs p,
  Forall (fun r => scalar_rune r = true) rs -> pos_le p (advance_string u16 p rs).
Proof. exact advance_string_mono. Qed.

Theorem C02_boundaries_strictly_increase : forall u16 input k1 k2,
  Forall (fun r => scalar_rune r = true) input -> (k1 < k2 <= length input)%nat ->
  byte (pos_at u16 input k1) < byte (pos_at u16 input k2).
Proof. exact pos_at_strict. Qed.

Theorem C02_before_exact : forall u16 input k1 k2,
  Forall (fun r => scalar_rune r = true) input -> (k1 <= length input)%nat -> (k2 <= length input)%nat ->
  before (pos_at u16 input k1) (pos_at u16 input k2) = true <-> (k1 < k2)%nat.
Proof. exact before_exact. Qed.

(* ---- the parser's position threading, fragment of coq/C02/Model.v (see its header), ALL inputs ---- *)

(* every node and every error of the fragment parser carries a range that: consists of two consistent
   triples (each is advance_string of a prefix of the input), starts no later than it ends, lies inside
   the input; every node's range lies inside its parent's range *)
Theorem C02_ranges_wf_fragment : forall u16 rs ns es,
  Forall (fun r => scalar_rune r = true) rs ->
  parse_fragment u16 rs = Some (ns, es) ->
  (forall i kd par s e, nth_error ns i = Some (kd, par, s, e) ->
     range_exact u16 rs s e /\
     exists kd' par' s' e', nth_error ns (N.to_nat par) = Some (kd', par', s', e') /\ pos_le s' s /\ pos_le e e')
  /\ Forall (fun r => range_exact u16 rs (fst r) (snd r)) es.
Proof. exact ranges_wf_fragment. Qed.

(* the position-threading scanners are the C05 scanners plus positions *)
Theorem C02_scanners_extend_C05 : forall u16 inKey start l k p lns acc,
  unq_agrees (scan_unq_p u16 inKey l k p lns acc) (scan_unq inKey l acc)
  /\ q_agrees (scan_dq_p u16 inKey start l k p acc) (scan_dq inKey l acc)
  /\ q_agrees (scan_sq_p u16 start l k p acc) (scan_sq l acc).
Proof. exact scanners_extend_C05. Qed.

(* the model's Subtract is d2ast's Subtract wherever that does not panic *)
Theorem C02_sub1_is_subtract : forall u16 p r, is_nl r = false -> subtract u16 p r = Some (sub1 u16 p r).
Proof. exact sub1_subtract. Qed.

(* clause 13 of the executable checker is membership in the set of boundary positions *)
Theorem C02_check_consistent_iff : forall u16 rs p,
  V.C02.Check.consistent (V.C02.Check.table u16 origin (V.C02.Check.src_rw (V.C02.Check.SRunes rs))) p = true
  <-> exists k, (k <= length rs)%nat /\ p = pos_at u16 rs k.
Proof. exact consistent_iff. Qed.

(* ---- refutations (each replayed on the implementation; see findings.json) ---- *)

(* "the source text covered by a key segment's range parses back to that segment's value" fails in the
   faithful model: the key  a-  of  a-;b  gets the range of  a  (lastNonSpace is not updated for the dash) *)
Theorem C02_key_segment_reparses_refuted :
  exists rs kd s e v c es,
    parse_key_p false (S (length rs)) (O, origin, rs) [] [] = Some ([(kd, s, e, v)], c, es)
    /\ parse_key (firstn (fst e - fst s) (skipn (fst s) rs)) <> POk [v].
Proof. exact key_segment_reparses_refuted. Qed.

(* ill-formed UTF-8: Advance counts 3 bytes for a byte the reader consumed as U+FFFD *)
Theorem C02_invalid_utf8_offset_refuted :
  exists bs, byte (advance_string false origin (decode_runes bs)) <> Z.of_nat (length bs).
Proof. exact invalid_utf8_offset_refuted. Qed.

(* non-vacuity of the hypotheses of C02_ranges_wf_fragment: a two-line program is in the fragment *)
Example C02_ranges_wf_fragment_satisfiable :
  let rs := [97; 46; 34; 98; 32; 99; 34; 58; 32; 233; 10; 120]%N in     (* a."b c": é \n x *)
  Forall (fun r => scalar_rune r = true) rs /\ exists ns es, parse_fragment true rs = Some (ns, es) /\ length ns = 9%nat.
Proof. split; [repeat constructor | do 2 eexists; split; vm_compute; reflexivity]. Qed.

Print Assumptions C02_advance_string_exact.
Print Assumptions C02_advance_string_from.
Print Assumptions C02_subtract_advance.
Print Assumptions C02_advance_subtract.
Print Assumptions C02_subtract_panics_iff.
Print Assumptions C02_astral_width.
Print Assumptions C02_advance_string_monotone.
Print Assumptions C02_boundaries_strictly_increase.
Print Assumptions C02_before_exact.
Print Assumptions C02_ranges_wf_fragment.
Print Assumptions C02_scanners_extend_C05.
Print Assumptions C02_sub1_is_subtract.
Print Assumptions C02_check_consistent_iff.
Print Assumptions C02_key_segment_reparses_refuted.
Print Assumptions C02_invalid_utf8_offset_refuted.
