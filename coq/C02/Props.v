(* C02 — Source positions are exact in UTF-8 and UTF-16 modes.  Statements only. *)
From Coq Require Import List NArith ZArith.
Import ListNotations.
Require Import V.C02.Pos V.C02.PosProofs.
Open Scope Z_scope.

Theorem C02_advance_string_exact : forall u16 rs,
  advance_string u16 origin rs = mkpos (count_nl rs) (units u16 (after_last_nl rs)) (units u16 rs).
Proof. exact advance_string_exact. Qed.

Print Assumptions C02_advance_string_exact.
