(* C02 — executable checker.  Evaluated by vm_compute on cases written by harness/c02.go.
   Failure codes:
     1   model differs from implementation (Position.Advance/Subtract/Before; Go's UTF-8 decoding; C05's
         parse_key on a key segment's source slice; the fragment model's node/error ranges)
     10  a node or error range does not lie inside the input
     11  a range starts after it ends
     12  a node's range is not inside its parent's range
     13  line / column / offset of a reported position do not agree with each other, i.e. the triple is not
         the position of a rune boundary of the input computed by advance_string (UTF-8 bytes, or UTF-16 units)
     14  the source text covered by a key segment's range does not parse back to the segment's value *)
From Coq Require Import List NArith ZArith Bool.
Import ListNotations.
Require Import V.Lib.RunCases V.C05.Model V.C02.Pos V.C02.Utf8 V.C02.Model.
Require V.C05.Check.
Open Scope N_scope.

Definition P (l c b : N) : pos := mkpos (Z.of_N l) (Z.of_N c) (Z.of_N b).
Definition PZ (l c b : Z) : pos := mkpos l c b.

Inductive src :=
| SBytes (bs : list N)    (* the bytes handed to the parser; decoded here; offsets count consumed bytes *)
| SRunes (rs : list N).   (* the runes the parser's reader yields (UTF-16 input after transcoding; or the
                             U+FFFD-substituted text of ill-formed UTF-8 in the lenient twin of a case) *)

(* node kinds: 0 map, 1 key, 2 key path, 3 unquoted, 4 double quoted, 5 single quoted, 6 block string, 7 edge,
   8 edge index, 9 array, 10 comment, 11 block comment, 12 substitution, 13 import, 14 null, 15 boolean,
   16 number, 17 suspension *)
Inductive node :=
| Nd (kind parent : N) (s e : pos) (kf : bool)
| Seg (kind parent : N) (s e : pos) (kf : bool) (value slice : list N) (reparsed : option (list (list N))).
    (* key segment: value = ScalarString; slice = the source text the harness cut out with the range and
       gave to d2parser.ParseKey; reparsed = that call's key path (None = error).
       kf = the input matches a known-finding signature for this node's End (every array: C02-array-end;
       an unquoted string whose text ends in the way described by C02-unquoted-end) *)

Inductive case :=
| CAdv (u16 : bool) (p0 : pos) (rs : list N) (adv : pos) (sub : option pos) (bef : bool)
    (* adv = fold of Position.Advance over rs from p0; sub = adv.Subtract(last rs) (None = panic);
       bef = p0.Before(adv) *)
| CTree (u16 lenient : bool) (input : src) (go_runes : list N) (nodes : list node) (errs : list (pos * pos * bool)).
    (* errors: start, end, kf (the input matches C02-missing-value-start for this error);
       go_runes = []rune(string(bytes)) as Go decodes them; nodes in pre-order, parent = index of the parent
       (the root is its own parent); lenient = twin of a case that hits a known finding: the End of a node with
       kf = true is replaced by its parent's, such segments are not re-parsed, the Start of an error with
       kf = true is replaced by its End; everything else is checked as in the strict case *)

Definition nd_kind n := match n with Nd k _ _ _ _ => k | Seg k _ _ _ _ _ _ _ => k end.
Definition nd_parent n := match n with Nd _ p _ _ _ => p | Seg _ p _ _ _ _ _ _ => p end.
Definition nd_s n := match n with Nd _ _ s _ _ => s | Seg _ _ s _ _ _ _ _ => s end.
Definition nd_e n := match n with Nd _ _ _ e _ => e | Seg _ _ _ e _ _ _ _ => e end.
Definition nd_kf n := match n with Nd _ _ _ _ f => f | Seg _ _ _ _ f _ _ _ => f end.

(* ---- the positions of all rune boundaries, recomputed from the input ---- *)

Definition advance_w (p : pos) (r : N) (w : Z) : pos :=
  if is_nl r then mkpos (line p + 1) 0 (byte p + w) else mkpos (line p) (col p + w)%Z (byte p + w).

Fixpoint table (u16 : bool) (p : pos) (rw : list (N * Z)) : list pos :=
  match rw with
  | [] => [p]
  | (r, w) :: tl => p :: table u16 (advance_w p r (if u16 then rune_len16 r else w)) tl
  end.

Definition src_rw (i : src) : list (N * Z) :=
  match i with
  | SBytes bs => decode bs
  | SRunes rs => map (fun r => (r, rune_len8 r)) rs
  end.

Definition consistent (tbl : list pos) (p : pos) : bool := existsb (pos_eqb p) tbl.
Definition inside (total : Z) (p : pos) : bool := ((0 <=? byte p) && (byte p <=? total))%Z.

Fixpoint slice_of (runes : list N) (tbl : list pos) (s e : pos) : list N :=
  match runes, tbl with
  | r :: rs, q :: tl =>
      if ((byte s <=? byte q) && (byte q <? byte e))%Z then r :: slice_of rs tl s e else slice_of rs tl s e
  | _, _ => []
  end.

Fixpoint dedup (l : list N) : list N :=
  match l with
  | [] => []
  | x :: tl => if existsb (N.eqb x) tl then dedup tl else x :: dedup tl
  end.

(* effective end of node i: the End of a node under a known finding is not trusted in a lenient case; its
   parent's is used *)
Fixpoint eff_end (fuel : nat) (lenient : bool) (nodes : list node) (i : N) : pos :=
  match nth_error nodes (N.to_nat i) with
  | None => origin
  | Some n =>
      match fuel with
      | O => nd_e n
      | S f => if lenient && nd_kf n && negb (nd_parent n =? i)
               then eff_end f lenient nodes (nd_parent n) else nd_e n
      end
  end.

Definition check_node (lenient : bool) (runes : list N) (tbl : list pos) (total : Z) (nodes : list node)
           (i : N) (n : node) : list N :=
  let s := nd_s n in
  let e := eff_end (length nodes) lenient nodes i in
  let ps := match nth_error nodes (N.to_nat (nd_parent n)) with Some p => nd_s p | None => PZ (-1) (-1) (-1) end in
  let pe := eff_end (length nodes) lenient nodes (nd_parent n) in
  flag (inside total s && inside total e) 10
  ++ flag (pos_leb s e) 11
  ++ flag (pos_leb ps s && pos_leb e pe) 12
  ++ flag (consistent tbl s && consistent tbl e) 13
  ++ match n with
     | Nd _ _ _ _ _ => []
     | Seg _ _ _ _ kf value slice reparsed =>
         if lenient && kf then []
         else flag (str_eqb (slice_of runes tbl s e) slice) 14
              ++ flag (match reparsed with Some [v] => str_eqb v value | _ => false end) 14
              ++ flag (V.C05.Check.key_corr slice reparsed) 1
     end.

Fixpoint check_nodes (lenient : bool) (runes : list N) (tbl : list pos) (total : Z) (all : list node)
         (i : N) (l : list node) : list N :=
  match l with
  | [] => []
  | n :: tl => check_node lenient runes tbl total all i n ++ check_nodes lenient runes tbl total all (i + 1) tl
  end.

Definition check_err (lenient : bool) (tbl : list pos) (total : Z) (r : pos * pos * bool) : list N :=
  let '(s0, e, kf) := r in
  let s := if lenient && kf then e else s0 in
  flag (inside total s && inside total e) 10 ++ flag (pos_leb s e) 11
  ++ flag (consistent tbl s && consistent tbl e) 13.

(* the fragment model's (kind, parent, start, end) list and error ranges against the implementation's *)
(* null / boolean / number / suspension nodes carry the range of the unquoted string they were read from *)
Definition norm_kind (k : N) : N := if (14 <=? k) && (k <=? 17) then 3 else k.

Definition node_eqb (m : fnode) (n : node) : bool :=
  let '(k, p, s, e) := m in
  (k =? norm_kind (nd_kind n)) && (p =? nd_parent n) && pos_eqb s (nd_s n) && pos_eqb e (nd_e n).

Definition range_eqb (a b : pos * pos) : bool := pos_eqb (fst a) (fst b) && pos_eqb (snd a) (snd b).

Fixpoint list_eqb2 {A B} (eqb : A -> B -> bool) (l1 : list A) (l2 : list B) : bool :=
  match l1, l2 with
  | [], [] => true
  | x :: xs, y :: ys => eqb x y && list_eqb2 eqb xs ys
  | _, _ => false
  end.

Definition frag_corr (u16 : bool) (runes : list N) (nodes : list node) (errs : list (pos * pos * bool)) : bool :=
  match parse_fragment u16 runes with
  | None => true
  | Some (mn, me) => list_eqb2 node_eqb mn nodes && list_eqb2 range_eqb me (map fst errs)
  end.

Definition spec_pos (u16 : bool) (p0 : pos) (rs : list N) : pos :=
  mkpos (line p0 + count_nl rs)
        (if has_nl rs then units u16 (after_last_nl rs) else col p0 + units u16 rs)%Z
        (byte p0 + units u16 rs).

Definition check_case (c : case) : list N :=
  match c with
  | CAdv u16 p0 rs adv sub bef =>
      flag (pos_eqb (advance_string u16 p0 rs) adv) 1
      ++ flag (match rs with [] => true | _ => opt_eqb pos_eqb (subtract u16 adv (last rs 0)) sub end) 1
      ++ flag (Bool.eqb (before p0 adv) bef) 1
      ++ flag (pos_eqb adv (spec_pos u16 p0 rs)) 13
  | CTree u16 lenient input go_runes nodes errs =>
      let rw := src_rw input in
      let runes := map fst rw in
      let tbl := table u16 origin rw in
      let total := byte (last tbl origin) in
      dedup (flag (list_eqb N.eqb runes go_runes) 1
             ++ check_nodes lenient runes tbl total nodes 0 nodes
             ++ concat (map (check_err lenient tbl total) errs)
             ++ flag (frag_corr u16 runes nodes errs) 1)
  end.
