(* C02 — Go's UTF-8 decoding of arbitrary bytes (utf8.DecodeRune as used by bufio.Reader.ReadRune,
   strings.Reader.ReadRune and the range loop): every ill-formed byte yields U+FFFD and consumes ONE byte.
   [decode bs] returns the runes together with the number of bytes each one consumed. *)
From Coq Require Import List NArith ZArith Bool.
Import ListNotations.
Open Scope N_scope.

Definition cont (b : N) : bool := (128 <=? b) && (b <=? 191).

Definition rune_error : N := 65533.

Fixpoint decode (bs : list N) : list (N * Z) :=
  match bs with
  | [] => []
  | b0 :: tl =>
      if b0 <? 128 then (b0, 1%Z) :: decode tl
      else if (194 <=? b0) && (b0 <=? 223) then
        match tl with
        | b1 :: tl2 =>
            if cont b1 then ((b0 - 192) * 64 + (b1 - 128), 2%Z) :: decode tl2
            else (rune_error, 1%Z) :: decode tl
        | [] => (rune_error, 1%Z) :: decode tl
        end
      else if (224 <=? b0) && (b0 <=? 239) then
        match tl with
        | b1 :: b2 :: tl3 =>
            if ((if b0 =? 224 then 160 else 128) <=? b1) && (b1 <=? (if b0 =? 237 then 159 else 191)) && cont b2
            then ((b0 - 224) * 4096 + (b1 - 128) * 64 + (b2 - 128), 3%Z) :: decode tl3
            else (rune_error, 1%Z) :: decode tl
        | _ => (rune_error, 1%Z) :: decode tl
        end
      else if (240 <=? b0) && (b0 <=? 244) then
        match tl with
        | b1 :: b2 :: b3 :: tl4 =>
            if ((if b0 =? 240 then 144 else 128) <=? b1) && (b1 <=? (if b0 =? 244 then 143 else 191))
               && cont b2 && cont b3
            then ((b0 - 240) * 262144 + (b1 - 128) * 4096 + (b2 - 128) * 64 + (b3 - 128), 4%Z) :: decode tl4
            else (rune_error, 1%Z) :: decode tl
        | _ => (rune_error, 1%Z) :: decode tl
        end
      else (rune_error, 1%Z) :: decode tl
  end.

Definition decode_runes (bs : list N) : list N := map fst (decode bs).
