(* C02 — theorems about the Position model (all rune lists, both modes). *)
From Coq Require Import List NArith ZArith Bool Lia.
Import ListNotations.
Require Import V.C02.Pos.
Open Scope Z_scope.

Lemma pos_eta p : mkpos (line p) (col p) (byte p) = p.
Proof. destruct p; reflexivity. Qed.

Lemma pos_eqb_eq p q : pos_eqb p q = true <-> p = q.
Proof.
  destruct p, q; unfold pos_eqb; cbn. rewrite !andb_true_iff, !Z.eqb_eq.
  split; [intros [[? ?] ?]; subst; reflexivity | intros E; inversion E; auto].
Qed.

Lemma pos_leb_le p q : pos_leb p q = true <-> pos_le p q.
Proof.
  unfold pos_leb, pos_le. rewrite andb_true_iff, orb_true_iff, andb_true_iff.
  rewrite Z.leb_le, Z.ltb_lt, Z.eqb_eq, Z.leb_le. tauto.
Qed.

Lemma pos_le_refl p : pos_le p p.
Proof. unfold pos_le; lia. Qed.

Lemma pos_le_trans p q r : pos_le p q -> pos_le q r -> pos_le p r.
Proof. unfold pos_le; lia. Qed.

(* ---- widths ---- *)

Lemma rune_len16_pos r : 1 <= rune_len16 r <= 2.
Proof. unfold rune_len16; destruct (_ && _)%bool; lia. Qed.

Lemma rune_len8_scalar r : scalar_rune r = true -> 1 <= rune_len8 r <= 4.
Proof.
  unfold scalar_rune, rune_len8. intros H. apply andb_true_iff in H as [H1 H2].
  apply negb_true_iff in H2. rewrite H2, H1.
  repeat match goal with |- context [if ?b then _ else _] => destruct b end; lia.
Qed.

Lemma width_scalar u16 r : scalar_rune r = true -> 1 <= width u16 r <= 4.
Proof.
  destruct u16; cbn; intros H; [pose proof (rune_len16_pos r); lia | apply rune_len8_scalar; exact H].
Qed.

(* an astral rune is 4 bytes and 2 code units; a BMP scalar is 1 code unit *)
Lemma width_astral r : (65536 <= r <= 1114111)%N -> width false r = 4 /\ width true r = 2.
Proof.
  intros [H1 H2]. unfold width, rune_len8, rune_len16.
  assert (E1 : (r <=? 127)%N = false) by (apply N.leb_gt; lia).
  assert (E2 : (r <=? 2047)%N = false) by (apply N.leb_gt; lia).
  assert (E3 : (r <=? 57343)%N = false) by (apply N.leb_gt; lia).
  assert (E4 : (r <=? 65535)%N = false) by (apply N.leb_gt; lia).
  assert (E5 : (r <=? 1114111)%N = true) by (apply N.leb_le; lia).
  assert (E6 : (65536 <=? r)%N = true) by (apply N.leb_le; lia).
  rewrite E1, E2, E3, E4, E5, E6, andb_false_r. cbn. auto.
Qed.

(* ---- advance_string ---- *)

Lemma advance_string_app u16 a b p :
  advance_string u16 p (a ++ b) = advance_string u16 (advance_string u16 p a) b.
Proof. revert p; induction a as [|r a IH]; intros p; cbn; [reflexivity | apply IH]. Qed.

Lemma units_app u16 a b : units u16 (a ++ b) = units u16 a + units u16 b.
Proof. induction a as [|r a IH]; cbn; [reflexivity | rewrite IH; lia]. Qed.

Lemma count_nl_app a b : count_nl (a ++ b) = count_nl a + count_nl b.
Proof. induction a as [|r a IH]; cbn; [reflexivity | rewrite IH; lia]. Qed.

Lemma after_last_nl_none rs : has_nl rs = false -> after_last_nl rs = rs.
Proof.
  induction rs as [|r tl IH]; cbn; [reflexivity|].
  intros H. apply orb_false_iff in H as [H1 H2]. unfold has_nl. rewrite H2, H1. reflexivity.
Qed.

(* line = newlines seen, column = units after the last newline, offset = all units: from any start *)
Lemma advance_string_gen u16 rs : forall p,
  advance_string u16 p rs =
  mkpos (line p + count_nl rs)
        (if has_nl rs then units u16 (after_last_nl rs) else col p + units u16 rs)
        (byte p + units u16 rs).
Proof.
  induction rs as [|r tl IH]; intros p.
  - cbn. rewrite !Z.add_0_r. symmetry; apply pos_eta.
  - cbn [advance_string]. rewrite IH. unfold advance.
    cbn [has_nl existsb count_nl units after_last_nl]. fold (has_nl tl).
    destruct (is_nl r) eqn:E; cbn [line col byte orb].
    + destruct (has_nl tl) eqn:T; f_equal; lia.
    + destruct (has_nl tl) eqn:T; f_equal; lia.
Qed.

Theorem advance_string_exact u16 rs :
  advance_string u16 origin rs =
  mkpos (count_nl rs) (units u16 (after_last_nl rs)) (units u16 rs).
Proof.
  rewrite advance_string_gen. cbn [origin line col byte].
  destruct (has_nl rs) eqn:T; [reflexivity|].
  rewrite (after_last_nl_none rs T). reflexivity.
Qed.

(* ---- subtract ---- *)

Theorem subtract_advance u16 p r : is_nl r = false -> subtract u16 (advance u16 p r) r = Some p.
Proof.
  intros H. unfold subtract, advance. rewrite H. cbn [line col byte].
  rewrite !Z.add_simpl_r. f_equal. apply pos_eta.
Qed.

Theorem advance_subtract u16 p q r : subtract u16 p r = Some q -> advance u16 q r = p.
Proof.
  unfold subtract, advance. destruct (is_nl r); [discriminate|].
  intros E; inversion E; subst; clear E. cbn [line col byte].
  rewrite !Z.sub_add. apply pos_eta.
Qed.

Theorem subtract_newline_panics u16 p : subtract u16 p 10%N = None.
Proof. reflexivity. Qed.

Theorem subtract_panics_iff u16 p r : subtract u16 p r = None <-> r = 10%N.
Proof.
  unfold subtract, is_nl. destruct (N.eqb_spec r 10); split; intros; try reflexivity; try discriminate; congruence.
Qed.

(* two runes of the same width are interchangeable for Subtract (parseImport subtracts '$' after reading '@') *)
Lemma subtract_same_width u16 p r r' :
  is_nl r = false -> is_nl r' = false -> width u16 r = width u16 r' -> subtract u16 p r = subtract u16 p r'.
Proof. unfold subtract; intros -> -> ->; reflexivity. Qed.

(* ---- monotonicity ---- *)

Lemma advance_mono u16 p r : 0 < width u16 r ->
  pos_le p (advance u16 p r) /\ byte p < byte (advance u16 p r).
Proof. unfold advance, pos_le; destruct (is_nl r); cbn; lia. Qed.

Theorem advance_string_mono u16 rs : forall p,
  Forall (fun r => scalar_rune r = true) rs -> pos_le p (advance_string u16 p rs).
Proof.
  induction rs as [|r tl IH]; intros p H; cbn.
  - apply pos_le_refl.
  - inversion H; subst. eapply pos_le_trans; [|apply IH; assumption].
    apply advance_mono. pose proof (width_scalar u16 r H2); lia.
Qed.

Theorem advance_string_strict u16 rs : forall p,
  Forall (fun r => scalar_rune r = true) rs -> rs <> [] -> byte p < byte (advance_string u16 p rs).
Proof.
  induction rs as [|r tl IH]; intros p H N; [congruence|].
  inversion H; subst. cbn.
  assert (A : byte p < byte (advance u16 p r)) by (apply advance_mono; pose proof (width_scalar u16 r H2); lia).
  destruct tl as [|r2 tl2]; [exact A|].
  eapply Z.lt_trans; [exact A | apply IH; [assumption | discriminate]].
Qed.

(* ---- pos_at: positions of the rune boundaries of one input ---- *)

Lemma pos_at_0 u16 input : pos_at u16 input 0 = origin.
Proof. reflexivity. Qed.

Lemma firstn_split_le {A} (l : list A) k1 k2 : (k1 <= k2)%nat ->
  firstn k2 l = firstn k1 l ++ firstn (k2 - k1) (skipn k1 l).
Proof.
  revert l k2; induction k1 as [|k1 IH]; intros l k2 H.
  - cbn. rewrite Nat.sub_0_r. reflexivity.
  - destruct k2 as [|k2]; [lia|]. destruct l as [|x l]; [cbn; rewrite firstn_nil; reflexivity|].
    cbn. f_equal. apply IH. lia.
Qed.

Lemma Forall_firstn {A} (P : A -> Prop) l k : Forall P l -> Forall P (firstn k l).
Proof.
  revert k; induction l as [|x l IH]; intros k H; destruct k; cbn; auto.
  inversion H; subst. constructor; auto.
Qed.

Lemma Forall_skipn {A} (P : A -> Prop) l k : Forall P l -> Forall P (skipn k l).
Proof.
  revert k; induction l as [|x l IH]; intros k H; destruct k; cbn; auto.
  inversion H; subst. auto.
Qed.

Theorem pos_at_mono u16 input k1 k2 :
  Forall (fun r => scalar_rune r = true) input -> (k1 <= k2)%nat ->
  pos_le (pos_at u16 input k1) (pos_at u16 input k2).
Proof.
  intros H L. unfold pos_at. rewrite (firstn_split_le input k1 k2 L), advance_string_app.
  apply advance_string_mono. apply Forall_firstn, Forall_skipn, H.
Qed.

Theorem pos_at_strict u16 input k1 k2 :
  Forall (fun r => scalar_rune r = true) input -> (k1 < k2 <= length input)%nat ->
  byte (pos_at u16 input k1) < byte (pos_at u16 input k2).
Proof.
  intros H [L1 L2]. unfold pos_at. rewrite (firstn_split_le input k1 k2) by lia. rewrite advance_string_app.
  apply advance_string_strict; [apply Forall_firstn, Forall_skipn, H|].
  intros E. apply (f_equal (@length _)) in E. rewrite firstn_length, skipn_length in E. cbn in E. lia.
Qed.

(* the offset identifies the boundary: two boundaries of one input with the same offset are the same *)
Theorem pos_at_byte_inj u16 input k1 k2 :
  Forall (fun r => scalar_rune r = true) input -> (k1 <= length input)%nat -> (k2 <= length input)%nat ->
  byte (pos_at u16 input k1) = byte (pos_at u16 input k2) -> k1 = k2.
Proof.
  intros H L1 L2 E.
  destruct (Nat.lt_trichotomy k1 k2) as [C|[C|C]]; [|exact C|].
  - pose proof (pos_at_strict u16 input k1 k2 H). lia.
  - pose proof (pos_at_strict u16 input k2 k1 H). lia.
Qed.

Theorem pos_at_inside u16 input k :
  Forall (fun r => scalar_rune r = true) input ->
  0 <= byte (pos_at u16 input k) <= units u16 input.
Proof.
  intros H. split.
  - pose proof (pos_at_mono u16 input 0 k H ltac:(lia)) as [A _]. exact A.
  - destruct (Nat.le_gt_cases k (length input)) as [L|L].
    + pose proof (pos_at_mono u16 input k (length input) H L) as [A _].
      unfold pos_at at 2 in A. rewrite firstn_all, advance_string_exact in A. exact A.
    + unfold pos_at. rewrite firstn_all2 by lia. rewrite advance_string_exact. cbn. lia.
Qed.

(* Position.Before agrees with the order of boundaries *)
Theorem before_exact u16 input k1 k2 :
  Forall (fun r => scalar_rune r = true) input -> (k1 <= length input)%nat -> (k2 <= length input)%nat ->
  before (pos_at u16 input k1) (pos_at u16 input k2) = true <-> (k1 < k2)%nat.
Proof.
  intros H L1 L2. unfold before.
  pose proof (pos_at_inside u16 input k1 H) as [A1 _].
  pose proof (pos_at_inside u16 input k2 H) as [A2 _].
  destruct (Nat.lt_trichotomy k1 k2) as [C|[C|C]].
  - pose proof (pos_at_strict u16 input k1 k2 H ltac:(lia)) as S.
    replace (byte (pos_at u16 input k1) =? byte (pos_at u16 input k2)) with false by (symmetry; apply Z.eqb_neq; lia).
    replace (byte (pos_at u16 input k1) =? -1) with false by (symmetry; apply Z.eqb_neq; lia).
    replace (byte (pos_at u16 input k2) =? -1) with false by (symmetry; apply Z.eqb_neq; lia).
    cbn. rewrite Z.ltb_lt. tauto.
  - subst. rewrite Z.eqb_refl. cbn. rewrite Z.eqb_refl. cbn. rewrite Z.ltb_irrefl. split; [discriminate | lia].
  - pose proof (pos_at_strict u16 input k2 k1 H ltac:(lia)) as S.
    replace (byte (pos_at u16 input k1) =? byte (pos_at u16 input k2)) with false by (symmetry; apply Z.eqb_neq; lia).
    replace (byte (pos_at u16 input k1) =? -1) with false by (symmetry; apply Z.eqb_neq; lia).
    replace (byte (pos_at u16 input k2) =? -1) with false by (symmetry; apply Z.eqb_neq; lia).
    cbn. split; [intros B; apply Z.ltb_lt in B; lia | lia].
Qed.

Lemma pos_at_S u16 input k r :
  nth_error input k = Some r -> pos_at u16 input (S k) = advance u16 (pos_at u16 input k) r.
Proof.
  intros E. unfold pos_at.
  assert (F : firstn (S k) input = firstn k input ++ [r]).
  { revert k E; induction input as [|x l IH]; intros k E; destruct k; cbn in *; try discriminate.
    - inversion E; reflexivity.
    - f_equal. apply IH, E. }
  rewrite F, advance_string_app. reflexivity.
Qed.
