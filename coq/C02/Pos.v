(* C02 — d2ast.Position: Advance / Subtract / AdvanceString / Before, in both position modes.
   Definitions only (theorems in PosProofs.v).  Runes are N (Go's int32 restricted to >= 0; the harness
   exercises surrogate values and values above U+10FFFF as well, for which utf8.RuneLen is -1).
   Line / Column / Byte are Z exactly as Go's int: Subtract may take Column and Byte below 0. *)
From Coq Require Import List NArith ZArith Bool.
Import ListNotations.
Open Scope Z_scope.

Record pos := mkpos { line : Z; col : Z; byte : Z }.

Definition origin : pos := mkpos 0 0 0.

Definition pos_eqb (p q : pos) : bool :=
  (line p =? line q) && (col p =? col q) && (byte p =? byte q).

(* utf8.RuneLen *)
Definition rune_len8 (r : N) : Z :=
  if (r <=? 127)%N then 1
  else if (r <=? 2047)%N then 2
  else if ((55296 <=? r) && (r <=? 57343))%N then -1
  else if (r <=? 65535)%N then 3
  else if (r <=? 1114111)%N then 4
  else -1.

(* size := 1; r1, r2 := utf16.EncodeRune(r); if r1 != U+FFFD && r2 != U+FFFD { size = 2 }
   EncodeRune returns (U+FFFD, U+FFFD) unless 0x10000 <= r <= 0x10FFFF, and a surrogate pair
   (never U+FFFD) otherwise. *)
Definition rune_len16 (r : N) : Z :=
  if ((65536 <=? r) && (r <=? 1114111))%N then 2 else 1.

Definition width (u16 : bool) (r : N) : Z := if u16 then rune_len16 r else rune_len8 r.

Definition is_nl (r : N) : bool := (r =? 10)%N.

(* Position.Advance *)
Definition advance (u16 : bool) (p : pos) (r : N) : pos :=
  let s := width u16 r in
  if is_nl r then mkpos (line p + 1) 0 (byte p + s)
  else mkpos (line p) (col p + s) (byte p + s).

(* Position.Subtract: None = panic("d2ast: cannot subtract newline from Position") *)
Definition subtract (u16 : bool) (p : pos) (r : N) : option pos :=
  let s := width u16 r in
  if is_nl r then None
  else Some (mkpos (line p) (col p - s) (byte p - s)).

(* Position.AdvanceString (over the runes Go's range loop yields) *)
Fixpoint advance_string (u16 : bool) (p : pos) (rs : list N) : pos :=
  match rs with
  | [] => p
  | r :: tl => advance_string u16 (advance u16 p r) tl
  end.

(* Position.SubtractString *)
Fixpoint subtract_string (u16 : bool) (p : pos) (rs : list N) : option pos :=
  match rs with
  | [] => Some p
  | r :: tl => match subtract u16 p r with
               | Some q => subtract_string u16 q tl
               | None => None
               end
  end.

(* Position.Before *)
Definition before (p q : pos) : bool :=
  if negb (byte p =? byte q) && negb (byte p =? -1) && negb (byte q =? -1) then byte p <? byte q
  else if negb (line p =? line q) then line p <? line q
  else col p <? col q.

(* ---- specification side: what "exact" means ---- *)

Fixpoint units (u16 : bool) (rs : list N) : Z :=
  match rs with
  | [] => 0
  | r :: tl => width u16 r + units u16 tl
  end.

Fixpoint count_nl (rs : list N) : Z :=
  match rs with
  | [] => 0
  | r :: tl => (if is_nl r then 1 else 0) + count_nl tl
  end.

Definition has_nl (rs : list N) : bool := existsb is_nl rs.

(* the runes after the last newline (all of them when there is none) *)
Fixpoint after_last_nl (rs : list N) : list N :=
  match rs with
  | [] => []
  | r :: tl => if has_nl tl then after_last_nl tl else if is_nl r then tl else r :: tl
  end.

(* the position of rune boundary k of an input *)
Definition pos_at (u16 : bool) (input : list N) (k : nat) : pos :=
  advance_string u16 origin (firstn k input).

(* every rune that can come out of a reader: a Unicode scalar value *)
Definition scalar_rune (r : N) : bool :=
  ((r <=? 1114111) && negb ((55296 <=? r) && (r <=? 57343)))%N.

(* order used for "start no later than end" / nesting: by offset, and lexicographic on (line, column) *)
Definition pos_le (p q : pos) : Prop :=
  byte p <= byte q /\ (line p < line q \/ (line p = line q /\ col p <= col q)).

Definition pos_leb (p q : pos) : bool :=
  (byte p <=? byte q) && ((line p <? line q) || ((line p =? line q) && (col p <=? col q))).
