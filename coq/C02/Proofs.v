(* C02 — proofs about the fragment model (coq/C02/Model.v):
   (1) erasing positions from the position-threading scanners gives back the C05 scanners;
   (2) every position the model assigns is the position of the rune boundary given by its ghost index
       (= advance_string of the consumed prefix), ranges are ordered, inside the input, and nested. *)
From Coq Require Import List NArith ZArith Bool Lia Arith.
Import ListNotations.
Require Import V.C05.Model V.C02.Pos V.C02.PosProofs V.C02.Model.
Open Scope N_scope.

(* ------------------------------------------------------------------ (1) erasure to the C05 scanners *)

Lemma skip_sp_p_erase u16 : forall l k p nl,
  let '(nl', (_, _, l')) := skip_sp_p u16 l k p nl in skip_space l nl = (nl', l').
Proof.
  induction l as [|r tl IH]; intros k p nl; cbn; [reflexivity|].
  destruct (is_space r); [apply IH | reflexivity].
Qed.

Definition unq_agrees (x : ures) (y : pres (str * str)) : Prop :=
  match x with
  | None => y = PUns
  | Some (v, _, (_, _, rest), []) => y = POk (v, rest)
  | Some (_, _, _, _ :: _) => y = PErr
  end.

Lemma scan_unq_p_erase u16 inKey : forall n l, (length l <= n)%nat -> forall k p lns acc,
  unq_agrees (scan_unq_p u16 inKey l k p lns acc) (scan_unq inKey l acc).
Proof.
  induction n as [|n IH]; intros l Hl k p lns acc.
  - destruct l; [reflexivity | cbn in Hl; lia].
  - destruct l as [|r tl]; [reflexivity|].
    cbn [scan_unq_p scan_unq]. cbn in Hl.
    destruct (is_top_delim r); [reflexivity|].
    destruct (inKey && is_key_delim r); [reflexivity|].
    destruct (inKey && (r =? cDASH)).
    + destruct tl as [|r2 tl2]; [reflexivity|]. cbn in Hl.
      destruct (is_top_delim r2); [reflexivity|].
      destruct ((r2 =? cDASH) || (r2 =? cGT) || (r2 =? cSTAR)); [reflexivity|].
      destruct (negb inKey && (r2 =? cDOLLAR)); [reflexivity|].
      destruct (r2 =? cBSL).
      * destruct tl2 as [|r3 tl3]; [reflexivity|]. cbn in Hl.
        destruct (r3 =? cNL); [reflexivity|]. apply IH. lia.
      * apply IH. lia.
    + destruct (negb inKey && (r =? cDOLLAR)); [reflexivity|].
      destruct (r =? cBSL).
      * destruct tl as [|r2 tl2]; [reflexivity|]. cbn in Hl.
        destruct (r2 =? cNL); [reflexivity|]. apply IH. lia.
      * apply IH. lia.
Qed.

Definition q_agrees (x : qres) (y : pres (str * str)) : Prop :=
  match x with
  | None => y = PUns
  | Some (v, (_, _, rest), []) => y = POk (v, rest)
  | Some (_, _, _ :: _) => y = PErr
  end.

Lemma scan_dq_p_erase u16 inKey start : forall n l, (length l <= n)%nat -> forall k p acc,
  q_agrees (scan_dq_p u16 inKey start l k p acc) (scan_dq inKey l acc).
Proof.
  induction n as [|n IH]; intros l Hl k p acc.
  - destruct l; [reflexivity | cbn in Hl; lia].
  - destruct l as [|r tl]; [reflexivity|].
    cbn [scan_dq_p scan_dq]. cbn in Hl.
    destruct (r =? cNL); [reflexivity|].
    destruct (negb inKey && (r =? cDOLLAR)); [reflexivity|].
    destruct (r =? cDQ); [reflexivity|].
    destruct (r =? cBSL).
    + destruct tl as [|r2 tl2]; [reflexivity|]. cbn in Hl.
      destruct (r2 =? cNL); apply IH; lia.
    + apply IH. lia.
Qed.

Lemma scan_sq_p_erase u16 start : forall n l, (length l <= n)%nat -> forall k p acc,
  q_agrees (scan_sq_p u16 start l k p acc) (scan_sq l acc).
Proof.
  induction n as [|n IH]; intros l Hl k p acc.
  - destruct l; [reflexivity | cbn in Hl; lia].
  - destruct l as [|r tl]; [reflexivity|].
    cbn [scan_sq_p scan_sq]. cbn in Hl.
    destruct (r =? cNL); [reflexivity|].
    destruct (r =? cSQ).
    + destruct tl as [|r2 tl2]; [reflexivity|]. cbn in Hl.
      destruct (r2 =? cSQ); [apply IH; lia | reflexivity].
    + destruct (r =? cBSL).
      * destruct tl as [|r2 tl2]; [apply IH; cbn; lia|]. cbn in Hl.
        destruct (r2 =? cNL); apply IH; cbn; lia.
      * apply IH. lia.
Qed.

(* ------------------------------------------------------------------ (2) positions and ranges *)

Lemma not_space_not_nl r : is_space r = false -> is_nl r = false.
Proof.
  unfold is_nl. destruct (N.eqb_spec r 10) as [->|]; [cbn; discriminate | reflexivity].
Qed.

Lemma sub1_advance u16 p r : is_nl r = false -> sub1 u16 (advance u16 p r) r = p.
Proof.
  intros H. unfold sub1, advance. rewrite H. destruct p; cbn. f_equal; lia.
Qed.

(* sub1 is Position.Subtract wherever Subtract does not panic *)
Lemma sub1_subtract u16 p r : is_nl r = false -> subtract u16 p r = Some (sub1 u16 p r).
Proof. intros H. unfold subtract, sub1. rewrite H. reflexivity. Qed.

Lemma skipn_cons_nth {A} (l : list A) : forall k r tl,
  skipn k l = r :: tl -> nth_error l k = Some r /\ skipn (S k) l = tl /\ (k < length l)%nat.
Proof.
  induction l as [|x l IH]; intros k r tl E.
  - destruct k; discriminate.
  - destruct k as [|k].
    + cbn in E. inversion E; subst. cbn. repeat split. lia.
    + cbn in E. apply IH in E as (H1 & H2 & H3). cbn [nth_error length]. repeat split; auto. lia.
Qed.

Section Ranges.
Variable u16 : bool.
Variable rs : str.

Definition okp (i : ipos) : Prop := (fst i <= length rs)%nat /\ snd i = pos_at u16 rs (fst i).
Definition okc (c : cursor) : Prop := snd c = skipn (fst (fst c)) rs /\ okp (fst c).
Definition okr (r : irange) : Prop := okp (fst r) /\ okp (snd r) /\ (fst (fst r) <= fst (snd r))%nat.
Definition ck (c : cursor) : nat := fst (fst c).

Lemma okc_step k p r tl : okc (k, p, r :: tl) -> okc (S k, advance u16 p r, tl).
Proof.
  intros [E [L P]]. cbn in *. symmetry in E. apply skipn_cons_nth in E as (A & B & C).
  repeat split; [cbn; symmetry; exact B | cbn; lia |].
  cbn [fst snd]. rewrite (pos_at_S u16 rs k r A), P. reflexivity.
Qed.

Lemma okc_okp k p l : okc (k, p, l) -> okp (k, p).
Proof. intros [_ H]; exact H. Qed.

Lemma okc_lt k p r tl : okc (k, p, r :: tl) -> (k < length rs)%nat.
Proof. intros [E _]. cbn in E. symmetry in E. apply skipn_cons_nth in E. tauto. Qed.

Lemma back_step k p r tl c :
  okc (k, p, r :: tl) -> (r =? c) = true -> is_nl c = false -> back u16 (S k, advance u16 p r) c = (k, p).
Proof.
  intros _ E N. apply N.eqb_eq in E. subst c. unfold back. cbn. rewrite sub1_advance by exact N. reflexivity.
Qed.

Lemma okp_eof k p l : okc (k, p, l) -> okp (eof_ip u16 k p l) /\ fst (eof_ip u16 k p l) = length rs.
Proof.
  intros [E [L P]]. cbn in *. subst l p.
  assert (Len : (k + length (skipn k rs))%nat = length rs) by (rewrite skipn_length; lia).
  unfold eof_ip, okp. cbn. rewrite Len. repeat split; auto.
  unfold pos_at. rewrite <- advance_string_app, firstn_skipn, firstn_all. reflexivity.
Qed.

Lemma okp_eof_nil k p : okc (k, p, []) -> eof_ip u16 k p [] = (k, p).
Proof. intros _. unfold eof_ip. cbn. rewrite Nat.add_0_r. reflexivity. Qed.

Lemma skip_sp_p_ok : forall l k p nl nl' c',
  okc (k, p, l) -> skip_sp_p u16 l k p nl = (nl', c') ->
  okc c' /\ (k <= ck c')%nat /\ match snd c' with r :: _ => is_space r = false | [] => True end.
Proof.
  induction l as [|r tl IH]; intros k p nl nl' c' H E; cbn in E.
  - inversion E; subst. unfold ck; cbn. repeat split; auto; apply H.
  - destruct (is_space r) eqn:S.
    + apply IH in E; [|apply okc_step; exact H]. destruct E as (A & B & C).
      split; [exact A | split; [unfold ck in *; cbn in *; lia | exact C]].
    + inversion E; subst. unfold ck; cbn. repeat split; auto; apply H.
Qed.

Ltac leaf :=
  let E := fresh "E" in intros E; inversion E; subst; clear E.

Ltac splits := repeat match goal with |- _ /\ _ => split end.
Ltac fin :=
  unfold ck in *; cbn [fst snd] in *;
  first [assumption | lia | apply Forall_nil | (eapply okc_okp; eassumption) | idtac].
Ltac okr1 := constructor; [unfold okr; cbn [fst snd]; splits; fin |].

(* parseUnquotedString *)
Lemma scan_unq_p_ok inKey : forall n l, (length l <= n)%nat -> forall k p lns acc v lns' c' es,
  okc (k, p, l) -> okp lns -> (fst lns <= k)%nat ->
  scan_unq_p u16 inKey l k p lns acc = Some (v, lns', c', es) ->
  okc c' /\ (k <= ck c')%nat /\ okp lns' /\ (fst lns <= fst lns' <= ck c')%nat /\ Forall okr es.
Proof.
  induction n as [|n IH]; intros l Hl k p lns acc v lns' c' es HC HL HK.
  - destruct l; [|cbn in Hl; lia]. cbn. leaf. splits; fin.
  - destruct l as [|r tl]; [cbn; leaf; splits; fin|].
    cbn [scan_unq_p]. cbn in Hl.
    destruct (is_top_delim r); [leaf; splits; fin|].
    destruct (inKey && is_key_delim r); [leaf; splits; fin|].
    pose proof (okc_step _ _ _ _ HC) as HC1.
    destruct (inKey && (r =? cDASH)).
    + destruct tl as [|r2 tl2]; [leaf; splits; fin|]. cbn in Hl.
      destruct (is_top_delim r2); [leaf; splits; fin|].
      destruct ((r2 =? cDASH) || (r2 =? cGT) || (r2 =? cSTAR)); [leaf; splits; fin|].
      pose proof (okc_step _ _ _ _ HC1) as HC2.
      destruct (negb inKey && (r2 =? cDOLLAR)); [discriminate|].
      set (lns1 := if is_space r2 then lns else (S (S k), advance u16 (advance u16 p r) r2)).
      assert (L1 : okp lns1) by (unfold lns1; destruct (is_space r2); [exact HL | apply (okc_okp _ _ _ HC2)]).
      assert (L1' : (fst lns <= fst lns1 <= S (S k))%nat) by (unfold lns1; destruct (is_space r2); cbn; lia).
      destruct (r2 =? cBSL) eqn:B.
      * destruct tl2 as [|r3 tl3].
        { leaf. rewrite (back_step _ _ _ _ cBSL HC1 B eq_refl), (okp_eof_nil _ _ HC2).
          splits; fin. okr1. apply Forall_nil. }
        cbn in Hl. destruct (r3 =? cNL); [discriminate|].
        intros E. apply IH in E; [| lia | apply okc_step; exact HC2 | exact L1 | lia].
        destruct E as (A & B1 & C & D & F). splits; fin.
      * intros E. apply IH in E; [| lia | exact HC2 | exact L1 | lia].
        destruct E as (A & B1 & C & D & F). splits; fin.
    + destruct (negb inKey && (r =? cDOLLAR)); [discriminate|].
      set (lns1 := if is_space r then lns else (S k, advance u16 p r)).
      assert (L1 : okp lns1) by (unfold lns1; destruct (is_space r); [exact HL | apply (okc_okp _ _ _ HC1)]).
      assert (L1' : (fst lns <= fst lns1 <= S k)%nat) by (unfold lns1; destruct (is_space r); cbn; lia).
      destruct (r =? cBSL) eqn:B.
      * destruct tl as [|r2 tl2].
        { leaf. rewrite (back_step _ _ _ _ cBSL HC B eq_refl), (okp_eof_nil _ _ HC1).
          splits; fin. okr1. apply Forall_nil. }
        cbn in Hl. destruct (r2 =? cNL); [discriminate|].
        intros E. apply IH in E; [| lia | apply okc_step; exact HC1 | exact L1 | lia].
        destruct E as (A & B1 & C & D & F). splits; fin.
      * intros E. apply IH in E; [| lia | exact HC1 | exact L1 | lia].
        destruct E as (A & B1 & C & D & F). splits; fin.
Qed.

(* parseDoubleQuotedString *)
Lemma scan_dq_p_ok inKey start : forall n l, (length l <= n)%nat -> forall k p acc v c' es,
  okc (k, p, l) -> okp start -> (fst start <= k)%nat ->
  scan_dq_p u16 inKey start l k p acc = Some (v, c', es) ->
  okc c' /\ (k <= ck c')%nat /\ Forall okr es.
Proof.
  induction n as [|n IH]; intros l Hl k p acc v c' es HC HS HK.
  - destruct l; [|cbn in Hl; lia]. cbn. rewrite (okp_eof_nil _ _ HC). leaf. splits; fin. okr1. apply Forall_nil.
  - destruct l as [|r tl]; [cbn; rewrite (okp_eof_nil _ _ HC); leaf; splits; fin; okr1; apply Forall_nil|].
    cbn [scan_dq_p]. cbn in Hl.
    destruct (r =? cNL); [leaf; splits; fin; okr1; apply Forall_nil|].
    destruct (negb inKey && (r =? cDOLLAR)); [discriminate|].
    pose proof (okc_step _ _ _ _ HC) as HC1.
    destruct (r =? cDQ); [leaf; splits; fin|].
    destruct (r =? cBSL) eqn:B.
    + destruct tl as [|r2 tl2].
      { rewrite (back_step _ _ _ _ cBSL HC B eq_refl), (okp_eof_nil _ _ HC1). leaf. splits; fin.
        okr1. okr1. apply Forall_nil. }
      cbn in Hl. pose proof (okc_step _ _ _ _ HC1) as HC2.
      destruct (r2 =? cNL); intros E; (apply IH in E; [| lia | exact HC2 | exact HS | lia]);
        destruct E as (A & B1 & C); splits; fin.
    + intros E. apply IH in E; [| lia | exact HC1 | exact HS | lia]. destruct E as (A & B1 & C). splits; fin.
Qed.

(* parseSingleQuotedString *)
Lemma scan_sq_p_ok start : forall n l, (length l <= n)%nat -> forall k p acc v c' es,
  okc (k, p, l) -> okp start -> (fst start <= k)%nat ->
  scan_sq_p u16 start l k p acc = Some (v, c', es) ->
  okc c' /\ (k <= ck c')%nat /\ Forall okr es.
Proof.
  induction n as [|n IH]; intros l Hl k p acc v c' es HC HS HK.
  - destruct l; [|cbn in Hl; lia]. cbn. rewrite (okp_eof_nil _ _ HC). leaf. splits; fin. okr1. apply Forall_nil.
  - destruct l as [|r tl]; [cbn; rewrite (okp_eof_nil _ _ HC); leaf; splits; fin; okr1; apply Forall_nil|].
    cbn [scan_sq_p]. cbn in Hl.
    destruct (r =? cNL); [leaf; splits; fin; okr1; apply Forall_nil|].
    pose proof (okc_step _ _ _ _ HC) as HC1.
    destruct (r =? cSQ).
    + destruct tl as [|r2 tl2]; [leaf; splits; fin|]. cbn in Hl.
      pose proof (okc_step _ _ _ _ HC1) as HC2.
      destruct (r2 =? cSQ); [|leaf; splits; fin].
      intros E. apply IH in E; [| lia | exact HC2 | exact HS | lia]. destruct E as (A & B1 & C). splits; fin.
    + destruct (r =? cBSL).
      * destruct tl as [|r2 tl2].
        { intros E. apply IH in E; [| cbn; lia | exact HC1 | exact HS | lia]. destruct E as (A & B1 & C). splits; fin. }
        cbn in Hl. pose proof (okc_step _ _ _ _ HC1) as HC2.
        destruct (r2 =? cNL); intros E.
        { apply IH in E; [| lia | exact HC2 | exact HS | lia]. destruct E as (A & B1 & C). splits; fin. }
        { apply IH in E; [| cbn; lia | exact HC1 | exact HS | lia]. destruct E as (A & B1 & C). splits; fin. }
      * intros E. apply IH in E; [| lia | exact HC1 | exact HS | lia]. destruct E as (A & B1 & C). splits; fin.
Qed.

Definition snode_ok (lo hi : nat) (on : option snode) : Prop :=
  match on with
  | Some (_, s, e, _) => okp s /\ okp e /\ (lo <= fst s <= fst e)%nat /\ (fst e <= hi)%nat
  | None => True
  end.

(* parseString *)
Lemma parse_string_p_ok inKey c on c' es :
  okc c -> parse_string_p u16 inKey c = Some (on, c', es) ->
  okc c' /\ (ck c <= ck c')%nat /\ Forall okr es /\ snode_ok (ck c) (ck c') on.
Proof.
  destruct c as [[k p] l]. intros HC. unfold parse_string_p.
  destruct (skip_sp_p u16 l k p false) as [nl [[k1 p1] l1]] eqn:SK.
  pose proof (skip_sp_p_ok _ _ _ _ _ _ HC SK) as (HC1 & K1 & NS). cbn in NS.
  destruct l1 as [|r tl]; [leaf; unfold snode_ok; splits; fin|].
  destruct nl; [leaf; unfold snode_ok; splits; fin|].
  pose proof (okc_step _ _ _ _ HC1) as HC2.
  pose proof (not_space_not_nl _ NS) as NNL.
  destruct (r =? cDQ) eqn:EDQ.
  { rewrite (back_step _ _ _ _ cDQ HC1 EDQ eq_refl).
    destruct (scan_dq_p u16 inKey (k1, p1) tl (S k1) (advance u16 p1 r) []) as [[[v [[k3 p3] l3]] es3]|] eqn:SC; [|discriminate].
    leaf. apply scan_dq_p_ok with (n := length tl) in SC; [| lia | exact HC2 | apply (okc_okp _ _ _ HC1) | cbn; lia].
    destruct SC as (A & B & C). unfold snode_ok. splits; fin. }
  destruct (r =? cSQ) eqn:ESQ.
  { rewrite (back_step _ _ _ _ cSQ HC1 ESQ eq_refl).
    destruct (scan_sq_p u16 (k1, p1) tl (S k1) (advance u16 p1 r) []) as [[[v [[k3 p3] l3]] es3]|] eqn:SC; [|discriminate].
    leaf. apply scan_sq_p_ok with (n := length tl) in SC; [| lia | exact HC2 | apply (okc_okp _ _ _ HC1) | cbn; lia].
    destruct SC as (A & B & C). unfold snode_ok. splits; fin. }
  destruct (r =? cPIPE); [discriminate|].
  rewrite (back_step _ _ _ _ r HC1 (N.eqb_refl r) NNL). cbn [fst snd].
  destruct (scan_unq_p u16 inKey (r :: tl) k1 p1 (k1, p1) []) as [[[[v lns] c3] es3]|] eqn:SC; [|discriminate].
  apply scan_unq_p_ok with (n := length (r :: tl)) in SC; [| lia | exact HC1 | apply (okc_okp _ _ _ HC1) | cbn; lia].
  destruct SC as (A & B & C & D & F).
  destruct (trim_right v); leaf; unfold snode_ok; splits; fin.
Qed.

(* the segments of a key path follow each other *)
Fixpoint chain (lo : nat) (segs : list snode) (hi : nat) : Prop :=
  match segs with
  | [] => (lo <= hi)%nat
  | (_, s, e, _) :: tl => okp s /\ okp e /\ (lo <= fst s <= fst e)%nat /\ chain (fst e) tl hi
  end.

Lemma chain_weaken : forall segs lo hi hi', chain lo segs hi -> (hi <= hi')%nat -> chain lo segs hi'.
Proof.
  induction segs as [|[[[kd s] e] v] tl IH]; cbn; intros lo hi hi' H L; [lia|].
  destruct H as (A & B & C & D). splits; auto; try lia; eapply IH; eauto.
Qed.

Lemma chain_snoc : forall segs lo mid hi kd s e v,
  chain lo segs mid -> okp s -> okp e -> (mid <= fst s <= fst e)%nat -> (fst e <= hi)%nat ->
  chain lo (segs ++ [(kd, s, e, v)]) hi.
Proof.
  induction segs as [|[[[kd0 s0] e0] v0] tl IH]; cbn; intros lo mid hi kd s e v H S E L1 L2.
  - splits; auto; lia.
  - destruct H as (A & B & C & D). splits; auto; try lia; eapply IH; eauto.
Qed.

Lemma chain_le : forall segs lo hi, chain lo segs hi -> (lo <= hi)%nat.
Proof.
  induction segs as [|[[[kd s] e] v] tl IH]; cbn; intros lo hi H; [lia|].
  destruct H as (A & B & C & D). apply IH in D. lia.
Qed.

(* parseKey *)
Lemma parse_key_p_ok : forall fuel c segs es lo segs' c' es',
  okc c -> chain lo segs (ck c) -> Forall okr es ->
  parse_key_p u16 fuel c segs es = Some (segs', c', es') ->
  okc c' /\ (ck c <= ck c')%nat /\ chain lo segs' (ck c') /\ Forall okr es'.
Proof.
  induction fuel as [|fuel IH]; intros c segs es lo segs' c' es' HC HCh HE; [discriminate|].
  destruct c as [[k p] l]. cbn [parse_key_p].
  destruct (skip_sp_p u16 l k p false) as [nl [[k1 p1] l1]] eqn:SK.
  destruct l1 as [|r tl1]; [leaf; splits; fin|].
  destruct (nl || (r =? cLP)); [leaf; splits; fin|].
  destruct (r =? cDOT); [discriminate|].
  destruct (parse_string_p u16 true (k, p, l)) as [[[on c2] es2]|] eqn:PS; [|discriminate].
  apply parse_string_p_ok in PS; [|exact HC]. destruct PS as (HC2 & K2 & E2 & ON).
  destruct on as [[[[kind s] e] v]|].
  2: { leaf. splits; fin. eapply chain_weaken; [exact HCh | fin]. apply Forall_app; split; assumption. }
  destruct ((kind =? 3) && match v with x :: _ => x =? cAT | [] => false end); [discriminate|].
  destruct (518 <? units false v)%Z; [discriminate|].
  destruct c2 as [[k2 p2] l2].
  destruct (skip_sp_p u16 l2 k2 p2 false) as [nl2 [[k3 p3] l3]] eqn:SK2.
  pose proof (skip_sp_p_ok _ _ _ _ _ _ HC2 SK2) as (HC3 & K3 & _).
  cbn in ON. destruct ON as (O1 & O2 & O3 & O4).
  assert (CH : chain lo (segs ++ [(kind, s, e, v)]) k2).
  { eapply chain_snoc; [exact HCh | exact O1 | exact O2 | fin | fin]. }
  assert (FE : Forall okr (es ++ es2)) by (apply Forall_app; split; assumption).
  destruct l3 as [|r2 tl3]; [leaf; splits; fin|].
  destruct (nl2 || negb (r2 =? cDOT)); [leaf; splits; fin|].
  intros E. apply IH with (lo := lo) in E;
    [| apply okc_step; exact HC3 | eapply chain_weaken; [exact CH | fin] | exact FE].
  destruct E as (A & B & C & D). splits; fin.
Qed.

(* parseValue (scalar fragment) *)
Lemma parse_value_p_ok c on c' es :
  okc c -> parse_value_p u16 c = Some (on, c', es) ->
  okc c' /\ (ck c <= ck c')%nat /\ Forall okr es /\ snode_ok (ck c) (ck c') on /\ (on = None -> c' = c /\ es = []).
Proof.
  destruct c as [[k p] l]. intros HC. unfold parse_value_p.
  destruct (skip_sp_p u16 l k p false) as [nl [[k1 p1] l1]] eqn:SK.
  pose proof (skip_sp_p_ok _ _ _ _ _ _ HC SK) as (HC1 & K1 & NS). cbn in NS.
  destruct l1 as [|r tl]; [leaf; unfold snode_ok; splits; fin; auto|].
  destruct nl; [leaf; unfold snode_ok; splits; fin; auto|].
  destruct ((r =? cLB) || (r =? cLC) || (r =? cAT)); [discriminate|].
  match goal with |- context [if ?b then None else _] => destruct b end; [discriminate|].
  rewrite (sub1_advance u16 p1 r (not_space_not_nl _ NS)).
  match goal with |- context [parse_string_p ?a ?b ?c] =>
    destruct (parse_string_p a b c) as [[[on2 c2] es2]|] eqn:PS; [|discriminate] end.
  destruct on2 as [n|]; [|discriminate]. leaf.
  apply parse_string_p_ok in PS; [|exact HC1]. destruct PS as (A & B & C & D).
  destruct n as [[[kd s] e] v]. cbn in D. destruct D as (D1 & D2 & D3 & D4).
  unfold snode_ok. splits; fin. discriminate.
Qed.

Lemma junk_p_ok : forall l k p c0,
  okc (k, p, l) -> okc c0 -> (ck c0 <= k)%nat ->
  okc (junk_p u16 l k p c0) /\ (ck c0 <= ck (junk_p u16 l k p c0))%nat.
Proof.
  induction l as [|r tl IH]; intros k p c0 HC H0 K; cbn [junk_p]; [split; [exact H0 | lia]|].
  pose proof (okc_step _ _ _ _ HC) as HC1.
  destruct (is_space r).
  - destruct (r =? cNL); [split; [exact H0 | lia]|]. apply IH; auto.
  - destruct ((r =? cSEMI) || (r =? cRC) || (r =? cHASH)); [split; [exact H0 | lia]|].
    destruct (IH (S k) (advance u16 p r) (S k, advance u16 p r, tl) HC1 HC1) as (A & B); [unfold ck; cbn; lia|].
    split; [exact A|]. unfold ck in *; cbn in *. lia.
Qed.

(* ---- the node list of one map key ---- *)

Lemma chain_bounds d : forall segs lo hi, chain lo segs hi -> segs <> [] ->
  okp (first_start segs d) /\ okp (last_end segs d) /\ (lo <= fst (first_start segs d))%nat /\
  (fst (first_start segs d) <= fst (last_end segs d))%nat /\ (fst (last_end segs d) <= hi)%nat.
Proof.
  induction segs as [|[[[kd s] e] v] tl IH]; intros lo hi H N; [congruence|].
  cbn [chain] in H. destruct H as (A & B & C & D).
  destruct tl as [|y tl'].
  - cbn in *. splits; auto; lia.
  - destruct (IH _ _ D ltac:(discriminate)) as (I1 & I2 & I3 & I4 & I5).
    unfold last_end in *. cbn [first_start]. simpl last in *. splits; auto; try lia.
Qed.

Lemma chain_mem d : forall segs lo hi t kd s e v, chain lo segs hi -> nth_error segs t = Some (kd, s, e, v) ->
  okp s /\ okp e /\ (lo <= fst s)%nat /\ (fst (first_start segs d) <= fst s)%nat /\ (fst s <= fst e)%nat /\
  (fst e <= fst (last_end segs d))%nat.
Proof.
  induction segs as [|[[[kd0 s0] e0] v0] tl IH]; intros lo hi t kd s e v H N; [destruct t; discriminate|].
  cbn [chain] in H. destruct H as (A & B & C & D).
  destruct t as [|t].
  - cbn in N. inversion N; subst. cbn [first_start]. splits; auto; try lia.
    destruct tl as [|y tl']; [cbn; lia|].
    destruct (chain_bounds d _ _ _ D ltac:(discriminate)) as (I1 & I2 & I3 & I4 & I5).
    unfold last_end in *. simpl last in *. lia.
  - cbn in N. destruct tl as [|y tl']; [destruct t; discriminate|].
    destruct (IH _ _ _ _ _ _ _ D N) as (I1 & I2 & I3 & I4 & I5 & I6).
    unfold last_end in *. cbn [first_start]. simpl last in *. splits; auto; lia.
Qed.

Definition gnode_ok (lo hi : nat) (g : gnode) : Prop :=
  let '(_, _, s, e) := g in okp s /\ okp e /\ (lo <= fst s <= fst e)%nat /\ (fst e <= hi)%nat.

(* the parent (index base + j' in the whole list, or the root 0) contains the node *)
Definition parent_ok (base : nat) (ns : list gnode) (g : gnode) : Prop :=
  let '(_, par, s, e) := g in
  par = O \/ exists j' g', par = (base + j')%nat /\ nth_error ns j' = Some g' /\
                           (fst (snd (fst g')) <= fst s)%nat /\ (fst e <= fst (snd g'))%nat.

Definition group_ok (base : nat) (ns : list gnode) (lo hi : nat) : Prop :=
  forall j g, nth_error ns j = Some g -> gnode_ok lo hi g /\ parent_ok base ns g.

Lemma nth_error_map' {A B} (f : A -> B) : forall l n, nth_error (map f l) n = option_map f (nth_error l n).
Proof. induction l as [|x l IH]; intros [|n]; cbn; auto. Qed.

Definition val_ok (base : nat) (start fin : ipos) (val : list gnode) : Prop :=
  val = [] \/ exists kd s e, val = [(kd, base, s, e)] /\ okp s /\ okp e /\
                             (fst start <= fst s <= fst e)%nat /\ (fst e <= fst fin)%nat.

Lemma key_group_ok base start fin segs val hi :
  okp start -> okp fin -> chain (fst start) segs hi -> (hi <= fst fin)%nat -> segs <> [] ->
  val_ok base start fin val ->
  group_ok base (key_group base start segs fin val) (fst start) (fst fin).
Proof.
  intros HS HF CH HI NE HV.
  destruct (chain_bounds start _ _ _ CH NE) as (B1 & B2 & B3 & B4 & B5).
  pose proof (chain_le _ _ _ CH) as LE.
  intros j g Hj. unfold key_group in Hj.
  destruct j as [|[|j]]; cbn [nth_error] in Hj.
  - inversion Hj; subst. split; [cbn; splits; auto; lia | left; reflexivity].
  - inversion Hj; subst. split; [cbn; splits; auto; lia|].
    right. exists O, (1, O, start, fin). cbn. splits; auto; lia.
  - destruct (Nat.lt_ge_cases j (length (seg_nodes (S base) segs))) as [L|L].
    + revert Hj. rewrite nth_error_app1 by exact L. unfold seg_nodes. rewrite nth_error_map'.
      match goal with |- context [option_map _ ?t] => destruct t as [[[[kd s] e] v]|] eqn:N end; cbn; [|discriminate].
      intros Hj. inversion Hj; subst.
      destruct (chain_mem start _ _ _ _ _ _ _ _ CH N) as (I1 & I2 & I3 & I4 & I5 & I6).
      split; [cbn; splits; auto; lia|].
      right. exists 1%nat, (2, base, first_start segs start, last_end segs start). cbn. splits; auto; lia.
    + rewrite nth_error_app2 in Hj by exact L.
      destruct HV as [->|(kd & s & e & -> & V1 & V2 & V3 & V4)]; [destruct (j - _)%nat; discriminate|].
      destruct (j - _)%nat as [|x]; [|destruct x; discriminate].
      cbn in Hj. inversion Hj; subst.
      split; [cbn; splits; auto; lia|].
      right. exists O, (1, O, start, fin). cbn. splits; auto; lia.
Qed.

(* parseMapKey *)
Lemma parse_map_key_p_ok base c ns c' es :
  okc c -> parse_map_key_p u16 base c = Some (ns, c', es) ->
  okc c' /\ (ck c <= ck c')%nat /\ Forall okr es /\ group_ok base ns (ck c) (ck c').
Proof.
  destruct c as [[k p] l]. intros HC. unfold parse_map_key_p.
  destruct l as [|r tl]; [discriminate|].
  match goal with |- context [if ?b then None else _] => destruct b end; [discriminate|].
  match goal with |- context [parse_key_p ?a ?b ?c ?d ?e] =>
    destruct (parse_key_p a b c d e) as [[[segs c2] es2]|] eqn:PK; [|discriminate] end.
  apply parse_key_p_ok with (lo := k) in PK; [| exact HC | cbn; unfold ck; cbn; lia | constructor].
  destruct PK as (HC2 & K2 & CH & E2).
  destruct segs as [|sg segs0]; [discriminate|].
  assert (NE : sg :: segs0 <> []) by discriminate. revert NE CH. generalize (sg :: segs0) as segs. intros segs NE CH.
  assert (FIN : forall c3 val es3, okc c3 -> (ck c2 <= ck c3)%nat -> Forall okr es3 -> val_ok base (k, p) (fst c3) val ->
                finish_key base (k, p) segs es2 c3 val es3 = Some (ns, c', es) ->
                okc c' /\ (ck (k, p, r :: tl) <= ck c')%nat /\ Forall okr es /\ group_ok base ns (ck (k, p, r :: tl)) (ck c')).
  { intros c3 val es3 H3 K3 E3 V3. unfold finish_key. leaf. splits; fin.
    - apply Forall_app; split; assumption.
    - destruct c' as [[k3 p3] l3]. apply (key_group_ok base (k, p) (k3, p3) segs val (fst (fst c2))); fin. }
  assert (VNIL : forall q, val_ok base (k, p) q []) by (intros; left; reflexivity).
  assert (ENIL : Forall okr (@nil irange)) by constructor.
  unfold parse_key_value_p. destruct c2 as [[k2 p2] l2].
  destruct (skip_sp_p u16 l2 k2 p2 false) as [nl [[k3 p3] l3]] eqn:SK.
  pose proof (skip_sp_p_ok _ _ _ _ _ _ HC2 SK) as (HC3 & K3 & _).
  destruct l3 as [|r3 tl3]; [apply FIN; auto|].
  destruct nl; [apply FIN; auto|].
  match goal with |- context [if ?b then None else _] => destruct b end; [discriminate|].
  destruct (r3 =? cCOLON) eqn:COL; cbn [negb]; [|apply FIN; auto].
  pose proof (okc_step _ _ _ _ HC3) as HC4.
  destruct (parse_value_p u16 (S k3, advance u16 p3 r3, tl3)) as [[[on c5] es5]|] eqn:PV; [|discriminate].
  apply parse_value_p_ok in PV; [|exact HC4]. destruct PV as (HC5 & K5 & E5 & ON & NN).
  destruct on as [[[[kind s] e] v]|].
  - destruct c5 as [[k5 p5] l5].
    destruct (skip_sp_p u16 l5 k5 p5 false) as [nl5 [[k6 p6] l6]] eqn:SK5.
    match goal with |- context [if ?b then None else _] => destruct b end; [discriminate|].
    cbn in ON. destruct ON as (O1 & O2 & O3 & O4).
    apply FIN; auto; fin.
    right. exists kind, s, e. splits; fin. reflexivity.
  - destruct (NN eq_refl) as [-> ->]. cbn [fst app].
    rewrite (back_step _ _ _ _ cCOLON HC3 COL eq_refl).
    apply FIN; auto; fin.
    okr1. constructor.
Qed.

(* ---- the file map ---- *)

Lemma gnode_ok_weaken lo hi lo' hi' g : gnode_ok lo hi g -> (lo' <= lo)%nat -> (hi <= hi')%nat -> gnode_ok lo' hi' g.
Proof. destruct g as [[[kd par] s] e]. cbn. intros (A & B & C & D) L1 L2. splits; auto; lia. Qed.

(* nodes = the node list without the root; index i of [nodes] is index 1 + i of the final list *)
Definition inv (nodes : list gnode) (hi : nat) : Prop :=
  forall i g, nth_error nodes i = Some g -> gnode_ok O hi g /\ parent_ok 1 nodes g.

Lemma inv_weaken nodes hi hi' : inv nodes hi -> (hi <= hi')%nat -> inv nodes hi'.
Proof.
  intros H L i g Hi. destruct (H i g Hi) as (A & B). split; [|exact B].
  eapply gnode_ok_weaken; [exact A | lia | exact L].
Qed.

Lemma inv_app nodes ns hi lo hi' :
  inv nodes hi -> group_ok (S (length nodes)) ns lo hi' -> (hi <= hi')%nat -> inv (nodes ++ ns) hi'.
Proof.
  intros HI HG L i g Hi.
  destruct (Nat.lt_ge_cases i (length nodes)) as [C|C].
  - rewrite nth_error_app1 in Hi by exact C. destruct (HI i g Hi) as (A & B).
    split; [eapply gnode_ok_weaken; [exact A | lia | exact L]|].
    destruct g as [[[kd par] s] e]. cbn in *. destruct B as [B|(j' & g' & B1 & B2 & B3 & B4)]; [left; exact B|].
    right. exists j', g'. splits; auto.
    rewrite nth_error_app1; [exact B2 | apply nth_error_Some; congruence].
  - rewrite nth_error_app2 in Hi by exact C. destruct (HG _ g Hi) as (A & B).
    split; [eapply gnode_ok_weaken; [exact A | lia | lia]|].
    destruct g as [[[kd par] s] e]. cbn in *. destruct B as [B|(j' & g' & B1 & B2 & B3 & B4)]; [left; exact B|].
    right. exists (length nodes + j')%nat, g'. splits; auto; try lia.
    rewrite nth_error_app2 by lia. replace (length nodes + j' - length nodes)%nat with j' by lia. exact B2.
Qed.

(* parseMap of the file *)
Lemma parse_file_p_ok : forall fuel c nodes es ns fin es',
  okc c -> inv nodes (ck c) -> Forall okr es ->
  parse_file_p u16 fuel c nodes es = Some (ns, fin, es') ->
  okp fin /\ inv ns (fst fin) /\ Forall okr es'.
Proof.
  induction fuel as [|fuel IH]; intros c nodes es ns fin es' HC HI HE; [discriminate|].
  destruct c as [[k p] l]. cbn [parse_file_p].
  destruct (skip_sp_p u16 l k p false) as [nl [[k1 p1] l1]] eqn:SK.
  pose proof (skip_sp_p_ok _ _ _ _ _ _ HC SK) as (HC1 & K1 & NS). cbn in NS.
  assert (HI1 : inv nodes k1) by (eapply inv_weaken; [exact HI | fin]).
  destruct l1 as [|r tl].
  { leaf. splits; [apply (okc_okp _ _ _ HC1) | exact HI1 | exact HE]. }
  pose proof (okc_step _ _ _ _ HC1) as HC2.
  assert (HI2 : inv nodes (S k1)) by (eapply inv_weaken; [exact HI1 | lia]).
  destruct (r =? cSEMI); [intros E; eapply IH in E; eauto|].
  destruct (r =? cRC) eqn:RC.
  { intros E. eapply IH in E; eauto. apply Forall_app; split; [exact HE|].
    rewrite (back_step _ _ _ _ cRC HC1 RC eq_refl). okr1. constructor. }
  destruct (r =? cHASH); [discriminate|].
  match goal with |- context [if ?b then None else _] => destruct b end; [discriminate|].
  rewrite (sub1_advance u16 p1 r (not_space_not_nl _ NS)).
  match goal with |- context [parse_map_key_p ?a ?b ?c] =>
    destruct (parse_map_key_p a b c) as [[[ns3 [[k3 p3] l3]] es3]|] eqn:PM; [|discriminate] end.
  apply parse_map_key_p_ok in PM; [|exact HC1]. destruct PM as (HC3 & K3 & E3 & G3).
  destruct (junk_p u16 l3 k3 p3 (k3, p3, l3)) as [[k4 p4] l4] eqn:J.
  destruct (junk_p_ok l3 k3 p3 (k3, p3, l3) HC3 HC3 ltac:(unfold ck; cbn; lia)) as (HC4 & K4). rewrite J in HC4, K4.
  intros E. eapply IH in E; eauto.
  - eapply inv_weaken; [eapply inv_app; [exact HI1 | exact G3 | fin] | fin].
  - apply Forall_app; split; [exact HE|]. apply Forall_app; split; [exact E3|].
    destruct (pos_eqb p3 p4); [constructor|]. okr1. constructor.
Qed.

Theorem ranges_wf_fragment_g ns es :
  parse_fragment_g u16 rs = Some (ns, es) ->
  (forall i kd par s e, nth_error ns i = Some (kd, par, s, e) ->
     okp s /\ okp e /\ (fst s <= fst e)%nat /\
     exists kd' par' s' e', nth_error ns par = Some (kd', par', s', e') /\
                            (fst s' <= fst s)%nat /\ (fst e <= fst e')%nat)
  /\ Forall okr es.
Proof.
  unfold parse_fragment_g.
  destruct (parse_file_p u16 (S (length rs)) (O, origin, rs) [] []) as [[[nodes fin] es0]|] eqn:PF; [|discriminate].
  leaf.
  assert (HC0 : okc (O, origin, rs)) by (unfold okc, okp; cbn; splits; auto; lia).
  apply parse_file_p_ok in PF; [| exact HC0 | intros i g Hi; destruct i; discriminate | constructor].
  destruct PF as (HF & HI & HE). split; [|exact HE].
  intros i kd par s e Hi. destruct i as [|i].
  - cbn in Hi. inversion Hi; subst. splits; [apply HC0 | exact HF | cbn; lia|].
    do 4 eexists. split; [cbn; reflexivity|]. cbn. lia.
  - cbn in Hi. destruct (HI i _ Hi) as (A & B). cbn in A, B. destruct A as (A1 & A2 & A3 & A4).
    splits; auto; try lia.
    destruct B as [->|(j' & [[[kd' par'] s'] e'] & B1 & B2 & B3 & B4)].
    + do 4 eexists. split; [cbn; reflexivity|]. cbn. lia.
    + subst par. exists kd', par', s', e'. cbn in *. splits; auto.
Qed.

End Ranges.

(* ------------------------------------------------------------------ (3) the statement on positions *)

Ltac splits := repeat match goal with |- _ /\ _ => split end.

(* what the property says about one reported range [s, e] of an input rs *)
Definition range_exact (u16 : bool) (rs : str) (s e : pos) : Prop :=
  (exists ks ke, (ks <= ke <= length rs)%nat /\ s = pos_at u16 rs ks /\ e = pos_at u16 rs ke)   (* consistent triples *)
  /\ pos_le s e                                                                              (* start <= end *)
  /\ (0 <= byte s)%Z /\ (byte e <= units u16 rs)%Z.                                           (* inside the input *)

Lemma okp_range_exact u16 rs s e :
  Forall (fun r => scalar_rune r = true) rs ->
  okp u16 rs s -> okp u16 rs e -> (fst s <= fst e)%nat -> range_exact u16 rs (snd s) (snd e).
Proof.
  intros HS [S1 S2] [E1 E2] L. unfold range_exact. rewrite S2, E2. splits.
  - exists (fst s), (fst e). splits; auto; lia.
  - apply pos_at_mono; assumption.
  - apply pos_at_inside; assumption.
  - apply pos_at_inside; assumption.
Qed.

Theorem ranges_wf_fragment u16 rs ns es :
  Forall (fun r => scalar_rune r = true) rs ->
  parse_fragment u16 rs = Some (ns, es) ->
  (forall i kd par s e, nth_error ns i = Some (kd, par, s, e) ->
     range_exact u16 rs s e /\
     exists kd' par' s' e', nth_error ns (N.to_nat par) = Some (kd', par', s', e') /\ pos_le s' s /\ pos_le e e')
  /\ Forall (fun r => range_exact u16 rs (fst r) (snd r)) es.
Proof.
  intros HS. unfold parse_fragment.
  destruct (parse_fragment_g u16 rs) as [[gs ges]|] eqn:PG; [|discriminate].
  intros E; inversion E; subst; clear E.
  destruct (ranges_wf_fragment_g u16 rs gs ges PG) as (HN & HE). split.
  - intros i kd par s e Hi. rewrite nth_error_map' in Hi.
    destruct (nth_error gs i) as [[[[kd0 par0] s0] e0]|] eqn:G; [|discriminate].
    cbn in Hi. inversion Hi; subst; clear Hi.
    destruct (HN _ _ _ _ _ G) as (A & B & C & (kd' & par' & s' & e' & P1 & P2 & P3)).
    split; [apply okp_range_exact; assumption|].
    exists kd', (N.of_nat par'), (snd s'), (snd e'). rewrite Nat2N.id, nth_error_map', P1. cbn.
    destruct (HN _ _ _ _ _ P1) as (A' & B' & _).
    destruct A as [_ A], B as [_ B], A' as [_ A'], B' as [_ B']. rewrite A, B, A', B'.
    splits; auto; apply pos_at_mono; assumption.
  - apply Forall_map. eapply Forall_impl; [|exact HE].
    intros [s e] (A & B & C). cbn in *. apply okp_range_exact; assumption.
Qed.




