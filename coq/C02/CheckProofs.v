(* C02 — the executable clauses of Check.v mean what the theorems talk about. *)
From Coq Require Import List NArith ZArith Bool Lia.
Import ListNotations.
Require Import V.C05.Model V.C02.Pos V.C02.PosProofs V.C02.Utf8.
Require V.C02.Check.
Open Scope N_scope.

Lemma advance_w_advance (u16 : bool) (p : pos) (r : N) :
  V.C02.Check.advance_w p r (if u16 then rune_len16 r else rune_len8 r) = advance u16 p r.
Proof. unfold V.C02.Check.advance_w, advance, width. destruct u16; reflexivity. Qed.

(* for a rune text, the table of Check.v is exactly the list of the positions of all rune boundaries *)
Lemma table_pos u16 : forall rs p,
  V.C02.Check.table u16 p (map (fun r => (r, rune_len8 r)) rs)
  = map (fun k => advance_string u16 p (firstn k rs)) (seq 0 (S (length rs))).
Proof.
  induction rs as [|r tl IH]; intros p; [reflexivity|].
  cbn [map V.C02.Check.table length]. rewrite advance_w_advance, IH.
  change (seq 0 (S (S (length tl)))) with (0%nat :: seq 1 (S (length tl))).
  cbn [map firstn advance_string]. f_equal.
  rewrite <- seq_shift, map_map. reflexivity.
Qed.

(* clause 13 of check_case ("the reported triple is consistent") = the triple is the position
   advance_string assigns to some rune boundary of the input *)
Theorem consistent_iff u16 rs p :
  V.C02.Check.consistent (V.C02.Check.table u16 origin (V.C02.Check.src_rw (V.C02.Check.SRunes rs))) p = true
  <-> exists k, (k <= length rs)%nat /\ p = pos_at u16 rs k.
Proof.
  unfold V.C02.Check.consistent, V.C02.Check.src_rw. rewrite table_pos, existsb_exists. split.
  - intros (q & I & E). apply pos_eqb_eq in E. subst q.
    apply in_map_iff in I as (k & E & I). apply in_seq in I. exists k. split; [lia | symmetry; exact E].
  - intros (k & L & E). exists p. split; [|apply pos_eqb_eq; reflexivity].
    apply in_map_iff. exists k. split; [symmetry; exact E | apply in_seq; lia].
Qed.

(* ill-formed UTF-8: the offset Go reports after reading everything differs from the number of bytes read *)
Theorem invalid_utf8_offset_refuted :
  exists bs, byte (advance_string false origin (decode_runes bs)) <> Z.of_nat (length bs).
Proof. exists [255]. vm_compute. discriminate. Qed.

(* ... while for the bytes actually consumed the decoder accounts for every byte *)
Lemma decode_consumes : forall n bs, (length bs <= n)%nat ->
  fold_right (fun x acc => (snd x + acc)%Z) 0%Z (decode bs) = Z.of_nat (length bs).
Proof.
  induction n as [|n IH]; intros bs L; [destruct bs; [reflexivity | cbn in L; lia]|].
  destruct bs as [|b0 tl]; [reflexivity|]. cbn [length] in L.
  assert (T : forall rest : list N, (length rest <= n)%nat ->
              forall r, fold_right (fun x acc => (snd x + acc)%Z) 0%Z ((r, 1%Z) :: decode rest) = (1 + Z.of_nat (length rest))%Z).
  { intros rest Lr r. cbn. rewrite IH by exact Lr. reflexivity. }
  cbn [decode].
  repeat match goal with
         | |- context [if ?b then _ else _] => destruct b
         | |- context [match ?l with [] => _ | _ :: _ => _ end] => destruct l; cbn [length] in *
         end;
    try (rewrite T by (cbn [length]; lia); cbn [length]; lia);
    cbn [fold_right snd]; rewrite IH by (cbn [length]; lia); cbn [length]; lia.
Qed.

Require Import V.C02.Model V.C02.Proofs.

Lemma scanners_extend_C05 : forall u16 inKey start l k p lns acc,
  unq_agrees (scan_unq_p u16 inKey l k p lns acc) (scan_unq inKey l acc)
  /\ q_agrees (scan_dq_p u16 inKey start l k p acc) (scan_dq inKey l acc)
  /\ q_agrees (scan_sq_p u16 start l k p acc) (scan_sq l acc).
Proof.
  intros. repeat split.
  - apply (scan_unq_p_erase u16 inKey (length l) l (le_n _)).
  - apply (scan_dq_p_erase u16 inKey start (length l) l (le_n _)).
  - apply (scan_sq_p_erase u16 start (length l) l (le_n _)).
Qed.

Lemma key_segment_reparses_refuted :
  exists rs kd s e v c es,
    parse_key_p false (S (length rs)) (O, origin, rs) [] [] = Some ([(kd, s, e, v)], c, es)
    /\ parse_key (firstn (fst e - fst s) (skipn (fst s) rs)) <> POk [v].
Proof.
  exists [97; 45; 59; 98]. do 6 eexists. split; [vm_compute; reflexivity | vm_compute; discriminate].
Qed.
