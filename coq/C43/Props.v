(* C43 — Playground URL encoding round-trips every script.  Statements only. *)
From Coq Require Import List NArith.
Import ListNotations.
Require Import V.C43.Model V.C43.Proofs.
Open Scope N_scope.

(* base64url layer: every byte string, any length *)
Theorem C43_b64url_roundtrip : forall bs, bytes bs -> b64dec (b64enc bs) = Some bs.
Proof. exact b64_roundtrip. Qed.

Theorem C43_b64url_alphabet : forall bs, bytes bs -> Forall (fun c => url_safe c = true) (b64enc bs).
Proof. exact b64_alphabet. Qed.

(* whole encoder/decoder, DEFLATE as an oracle with its two hypotheses *)
Theorem C43_urlenc_roundtrip :
  forall (deflate : list N -> list N) (inflate : list N -> option (list N * bool)),
    (forall s, bytes s -> bytes (deflate s)) ->
    (forall s, bytes s -> inflate (deflate s) = Some (s, true)) ->
    forall s, bytes s -> urlenc_decode inflate (urlenc_encode deflate s) = Some s.
Proof. exact urlenc_roundtrip. Qed.

Theorem C43_urlenc_alphabet :
  forall (deflate : list N -> list N),
    (forall s, bytes s -> bytes (deflate s)) ->
    forall s, bytes s -> Forall (fun c => url_safe c = true) (urlenc_encode deflate s).
Proof. exact urlenc_alphabet. Qed.

(* the hypothesis on Close is necessary: the error-swallowing branch returns "" *)
Theorem C43_close_error_branch_refutes_unconditional_roundtrip :
  exists (deflate : list N -> list N) (inflate : list N -> option (list N * bool)) s,
    urlenc_decode inflate (urlenc_encode deflate s) <> Some s.
Proof. exact urlenc_close_error_loses_script. Qed.

(* non-vacuity: the identity codec satisfies both hypotheses *)
Example C43_hyps_satisfiable :
  let deflate := fun s : list N => s in
  let inflate := fun d : list N => Some (d, true) in
  (forall s, bytes s -> bytes (deflate s)) /\ (forall s, bytes s -> inflate (deflate s) = Some (s, true)).
Proof. split; intros; auto. Qed.

Print Assumptions C43_b64url_roundtrip.
Print Assumptions C43_b64url_alphabet.
Print Assumptions C43_urlenc_roundtrip.
Print Assumptions C43_urlenc_alphabet.
Print Assumptions C43_close_error_branch_refutes_unconditional_roundtrip.
