(* Executable case checker for C43: evaluated by vm_compute on cases written by the harness. *)
From Coq Require Import List NArith Bool.
Import ListNotations.
Require Import V.Lib.RunCases V.C43.Model.
Open Scope N_scope.

Inductive case :=
| CEnc (s d enc : list N) (dec : option (list N)) (inflate_ok : bool)
    (* script bytes; DEFLATE output the harness obtained from compress/flate with urlenc's settings;
       urlenc.Encode s; urlenc.Decode of that; whether inflate(d) = s with a clean Close *)
| CDec (m : list N) (impl : option (list N)).
    (* arbitrary text through base64.URLEncoding.DecodeString *)

(* run-length notation used by the harness for big compressible scripts: pat repeated k times *)
Definition rep (pat : list N) (k : N) : list N := N.iter k (fun acc => pat ++ acc) [].

Definition check_case (c : case) : list N :=
  match c with
  | CEnc s d enc dec hyp =>
      flag (bytes_eqb (b64enc d) enc) 1
      ++ flag (opt_eqb bytes_eqb (b64dec enc) (Some d)) 1
      ++ flag hyp 2
      ++ flag (opt_eqb bytes_eqb dec (Some s)) 10
      ++ flag (forallb url_safe enc) 11
  | CDec m impl => flag (opt_eqb bytes_eqb (b64dec m) impl) 1
  end.
