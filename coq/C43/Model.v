(* C43 — playground URL encoding.
   Model of encoding/base64.URLEncoding (RFC 4648 section 5 alphabet, '=' padding, the
   non-strict decoder Go uses by default: CR/LF are skipped, trailing bits are ignored)
   and of lib/urlenc.Encode/Decode as their composition with DEFLATE, which enters as
   section variables (oracle).  Bytes are [N] values below 256. *)
From Coq Require Import List NArith Bool.
Import ListNotations.
Open Scope N_scope.

Definition is_byte (b : N) : bool := b <? 256.

(* index 0..63 -> character code *)
Definition alpha (i : N) : N :=
  if i <? 26 then 65 + i            (* A-Z *)
  else if i <? 52 then 97 + (i - 26) (* a-z *)
  else if i <? 62 then 48 + (i - 52) (* 0-9 *)
  else if i =? 62 then 45            (* '-' *)
  else 95.                           (* '_' *)

Definition unalpha (c : N) : option N :=
  if (65 <=? c) && (c <=? 90) then Some (c - 65)
  else if (97 <=? c) && (c <=? 122) then Some (c - 97 + 26)
  else if (48 <=? c) && (c <=? 57) then Some (c - 48 + 52)
  else if c =? 45 then Some 62
  else if c =? 95 then Some 63
  else None.

Definition pad : N := 61. (* '=' *)

Definition url_safe (c : N) : bool :=
  ((65 <=? c) && (c <=? 90)) || ((97 <=? c) && (c <=? 122)) || ((48 <=? c) && (c <=? 57))
  || (c =? 45) || (c =? 95) || (c =? 61).

Definition q4 (a b c : N) : list N :=
  let n := a * 65536 + b * 256 + c in
  [alpha (n / 262144); alpha ((n / 4096) mod 64); alpha ((n / 64) mod 64); alpha (n mod 64)].

Fixpoint b64enc (l : list N) : list N :=
  match l with
  | [] => []
  | [a] => let n := a * 65536 in
           [alpha (n / 262144); alpha ((n / 4096) mod 64); pad; pad]
  | [a; b] => let n := a * 65536 + b * 256 in
           [alpha (n / 262144); alpha ((n / 4096) mod 64); alpha ((n / 64) mod 64); pad]
  | a :: b :: c :: r => q4 a b c ++ b64enc r
  end.

Definition is_nl (c : N) : bool := (c =? 10) || (c =? 13).

(* decoder on input with CR/LF already removed *)
Fixpoint b64dec_core (l : list N) : option (list N) :=
  match l with
  | [] => Some []
  | c1 :: c2 :: c3 :: c4 :: r =>
      if c4 =? pad then
        match r with
        | [] =>
            if c3 =? pad then
              match unalpha c1, unalpha c2 with
              | Some i1, Some i2 => Some [(i1 * 64 + i2) / 16]
              | _, _ => None
              end
            else
              match unalpha c1, unalpha c2, unalpha c3 with
              | Some i1, Some i2, Some i3 =>
                  let n := (i1 * 4096 + i2 * 64 + i3) / 4 in
                  Some [n / 256; n mod 256]
              | _, _, _ => None
              end
        | _ => None
        end
      else
        match unalpha c1, unalpha c2, unalpha c3, unalpha c4 with
        | Some i1, Some i2, Some i3, Some i4 =>
            let n := i1 * 262144 + i2 * 4096 + i3 * 64 + i4 in
            match b64dec_core r with
            | Some t => Some (n / 65536 :: (n / 256) mod 256 :: n mod 256 :: t)
            | None => None
            end
        | _, _, _, _ => None
        end
  | _ => None
  end.

Definition b64dec (l : list N) : option (list N) :=
  b64dec_core (filter (fun c => negb (is_nl c)) l).

(* lib/urlenc: composition with the DEFLATE oracle. [inflate] returns None on a read error;
   the branch of Decode that swallows a Close error and returns "" is the [close_ok] flag. *)
Section Urlenc.
  Variable deflate : list N -> list N.
  Variable inflate : list N -> option (list N * bool). (* (bytes, close_ok) *)

  Definition urlenc_encode (s : list N) : list N := b64enc (deflate s).

  Definition urlenc_decode (e : list N) : option (list N) :=
    match b64dec e with
    | None => None
    | Some d =>
        match inflate d with
        | None => None
        | Some (bs, close_ok) => if close_ok then Some bs else Some []
        end
    end.
End Urlenc.
