From Coq Require Import List NArith Bool Lia ZArith.
From Coq Require Import ZifyN ZifyBool.
Import ListNotations.
Require Import V.C43.Model.
Open Scope N_scope.
Ltac Zify.zify_post_hook ::= Z.div_mod_to_equations.

(* ---- finite sweeps over the 64 alphabet indices ---- *)

Definition idx64 : list N := map N.of_nat (seq 0 64).

Lemma idx64_complete i : i < 64 -> In i idx64.
Proof.
  intro H. unfold idx64. apply in_map_iff. exists (N.to_nat i). split; [lia|].
  apply in_seq. lia.
Qed.

Definition alpha_ok (i : N) : bool :=
  match unalpha (alpha i) with Some j => j =? i | None => false end
  && negb (alpha i =? pad) && negb (is_nl (alpha i)) && url_safe (alpha i) && (alpha i <? 256).

Lemma alpha_ok_all : forallb alpha_ok idx64 = true.
Proof. vm_compute. reflexivity. Qed.

Lemma alpha_ok_i i : i < 64 -> alpha_ok i = true.
Proof. intro H. apply (proj1 (forallb_forall _ _) alpha_ok_all). apply idx64_complete, H. Qed.

Lemma unalpha_alpha i : i < 64 -> unalpha (alpha i) = Some i.
Proof.
  intro H. pose proof (alpha_ok_i i H) as E. unfold alpha_ok in E.
  repeat (apply andb_prop in E as [E ?]).
  destruct (unalpha (alpha i)) as [j|]; [|discriminate]. apply N.eqb_eq in E. congruence.
Qed.

Lemma alpha_not_pad i : i < 64 -> (alpha i =? pad) = false.
Proof.
  intro H. pose proof (alpha_ok_i i H) as E. unfold alpha_ok in E.
  repeat (apply andb_prop in E as [E ?]).
  match goal with K : negb (alpha i =? pad) = true |- _ => apply negb_true_iff in K; exact K end.
Qed.

Lemma alpha_not_nl i : i < 64 -> is_nl (alpha i) = false.
Proof.
  intro H. pose proof (alpha_ok_i i H) as E. unfold alpha_ok in E.
  repeat (apply andb_prop in E as [E ?]).
  match goal with K : negb (is_nl (alpha i)) = true |- _ => apply negb_true_iff in K; exact K end.
Qed.

Lemma alpha_url_safe i : i < 64 -> url_safe (alpha i) = true.
Proof.
  intro H. pose proof (alpha_ok_i i H) as E. unfold alpha_ok in E.
  repeat (apply andb_prop in E as [E ?]). assumption.
Qed.

Lemma pad_facts : is_nl pad = false /\ url_safe pad = true.
Proof. split; reflexivity. Qed.

(* ---- induction three bytes at a time ---- *)

Lemma list_ind3 {A} (P : list A -> Prop) :
  P [] -> (forall a, P [a]) -> (forall a b, P [a; b]) ->
  (forall a b c r, P r -> P (a :: b :: c :: r)) -> forall l, P l.
Proof.
  intros H0 H1 H2 H3.
  assert (K : forall l, P l /\ (forall a, P (a :: l)) /\ (forall a b, P (a :: b :: l))).
  { induction l as [|x xs [IH0 [IH1 IH2]]].
    - repeat split; auto.
    - repeat split; auto. }
  intro l; apply K.
Qed.

Definition bytes (l : list N) : Prop := Forall (fun b => b < 256) l.

(* ---- alphabet: every output character is URL safe and no CR/LF ---- *)

Lemma b64enc_chars l : bytes l ->
  Forall (fun c => url_safe c = true /\ is_nl c = false) (b64enc l).
Proof.
  induction l as [| a | a b | a b c r IH] using list_ind3; intro B.
  - constructor.
  - inversion B as [|? ? Ha _]; subst. cbn [b64enc].
    repeat constructor; try (apply alpha_url_safe; lia); try (apply alpha_not_nl; lia).
  - inversion B as [|? ? Ha B']; subst. inversion B' as [|? ? Hb _]; subst. cbn [b64enc].
    repeat constructor; try (apply alpha_url_safe; lia); try (apply alpha_not_nl; lia).
  - inversion B as [|? ? Ha B1]; subst. inversion B1 as [|? ? Hb B2]; subst.
    inversion B2 as [|? ? Hc B3]; subst.
    change (b64enc (a :: b :: c :: r)) with (q4 a b c ++ b64enc r).
    apply Forall_app; split; [|apply IH; assumption].
    unfold q4. repeat constructor; try (apply alpha_url_safe; lia); try (apply alpha_not_nl; lia).
Qed.

Lemma filter_id {A} (f : A -> bool) l : Forall (fun x => f x = true) l -> filter f l = l.
Proof. induction 1 as [|x xs Hx _ IH]; simpl; [reflexivity|]. rewrite Hx, IH. reflexivity. Qed.

(* ---- round trip ---- *)

Lemma b64dec_core_enc l : bytes l -> b64dec_core (b64enc l) = Some l.
Proof.
  induction l as [| a | a b | a b c r IH] using list_ind3; intro B.
  - reflexivity.
  - inversion B as [|? ? Ha _]; subst. cbn [b64enc b64dec_core].
    rewrite ?N.eqb_refl.
    rewrite !unalpha_alpha by lia. f_equal. f_equal. lia.
  - inversion B as [|? ? Ha B']; subst. inversion B' as [|? ? Hb _]; subst.
    cbn [b64enc b64dec_core]. rewrite ?N.eqb_refl.
    rewrite alpha_not_pad by lia.
    rewrite !unalpha_alpha by lia. f_equal.
    f_equal; [lia|]. f_equal. lia.
  - inversion B as [|? ? Ha B1]; subst. inversion B1 as [|? ? Hb B2]; subst.
    inversion B2 as [|? ? Hc B3]; subst.
    change (b64enc (a :: b :: c :: r)) with (q4 a b c ++ b64enc r).
    unfold q4. cbn [app b64dec_core].
    rewrite alpha_not_pad by lia.
    rewrite !unalpha_alpha by lia.
    rewrite (IH B3). f_equal.
    f_equal; [lia|]. f_equal; [lia|]. f_equal. lia.
Qed.

Lemma b64_roundtrip l : bytes l -> b64dec (b64enc l) = Some l.
Proof.
  intro B. unfold b64dec. rewrite filter_id; [apply b64dec_core_enc, B|].
  eapply Forall_impl; [|apply b64enc_chars, B]. intros c [_ H]. rewrite H. reflexivity.
Qed.

Lemma b64_alphabet l : bytes l -> Forall (fun c => url_safe c = true) (b64enc l).
Proof. intro B. eapply Forall_impl; [|apply b64enc_chars, B]. intros c [H _]. exact H. Qed.

(* ---- the composition with the DEFLATE oracle ---- *)

Section Urlenc.
  Variable deflate : list N -> list N.
  Variable inflate : list N -> option (list N * bool).
  Hypothesis H_deflate_bytes : forall s, bytes s -> bytes (deflate s).
  Hypothesis H_flate : forall s, bytes s -> inflate (deflate s) = Some (s, true).

  Lemma urlenc_roundtrip s : bytes s ->
    urlenc_decode inflate (urlenc_encode deflate s) = Some s.
  Proof.
    intro B. unfold urlenc_decode, urlenc_encode.
    rewrite b64_roundtrip by (apply H_deflate_bytes, B). rewrite H_flate by exact B. reflexivity.
  Qed.

  Lemma urlenc_alphabet s : bytes s ->
    Forall (fun c => url_safe c = true) (urlenc_encode deflate s).
  Proof. intro B. apply b64_alphabet, H_deflate_bytes, B. Qed.
End Urlenc.

(* The Close-error branch makes the round trip fail when the hypothesis on the oracle is dropped:
   Decode then returns the empty script without an error. *)
Lemma urlenc_close_error_loses_script :
  exists (deflate : list N -> list N) (inflate : list N -> option (list N * bool)) s,
    urlenc_decode inflate (urlenc_encode deflate s) <> Some s.
Proof.
  exists (fun s => s), (fun d => Some (d, false)), [120].
  vm_compute. discriminate.
Qed.
