From Coq Require Import ZArith QArith Qround List Bool Lia Lqa.
Import ListNotations.
Require Import V.C33.Model.
Open Scope Q_scope.

Lemma inv_total_pos total : (0 < total)%Z -> 0 < / inject_Z total.
Proof. intro H. apply Qinv_lt_0_compat. change 0 with (inject_Z 0). rewrite <- Zlt_Qlt. exact H. Qed.

Lemma pctq_le total a b : (0 < total)%Z -> (pctq total a <= pctq total b <-> a <= b).
Proof.
  intro H. unfold pctq, Qdiv.
  rewrite Qmult_le_r by reflexivity.
  rewrite Qmult_le_r by (apply inv_total_pos, H). reflexivity.
Qed.

Lemma pctq_total total : (0 < total)%Z -> pctq total (inject_Z total) == 100.
Proof.
  intro H. unfold pctq. field. intro E.
  assert (K : (total = 0)%Z). { unfold Qeq in E. simpl in E. lia. } lia.
Qed.

Lemma pctq_zero total : pctq total 0 == 0.
Proof. unfold pctq, Qdiv. ring. Qed.

Lemma pctq_le_100 total t : (0 < total)%Z -> (pctq total t <= 100 <-> t <= inject_Z total).
Proof.
  intro H. split; intro K.
  - apply (pctq_le total t (inject_Z total) H). rewrite pctq_total by exact H. exact K.
  - apply (pctq_le total t (inject_Z total) H) in K. rewrite pctq_total in K by exact H. exact K.
Qed.

Lemma pctq_ge_0 total t : (0 < total)%Z -> (0 <= pctq total t <-> 0 <= t).
Proof.
  intro H. split; intro K.
  - apply (pctq_le total 0 t H). rewrite pctq_zero. exact K.
  - apply (pctq_le total 0 t H) in K. rewrite pctq_zero in K. exact K.
Qed.

Lemma inj_le a b : (a <= b)%Z <-> inject_Z a <= inject_Z b.
Proof. rewrite Zle_Qle. reflexivity. Qed.
Lemma inj_le1 a b : (a <= b)%Z -> inject_Z a <= inject_Z b.
Proof. apply (proj1 (inj_le a b)). Qed.
Lemma inj_le2 a b : inject_Z a <= inject_Z b -> (a <= b)%Z.
Proof. apply (proj2 (inj_le a b)). Qed.

(* ------------------------------------------------------------------ *)
Section Boards.
  Variable last_test : Z -> Z -> Z -> bool.
  Variables n T : Z.
  Hypothesis HT : (0 < T)%Z.
  Hypothesis Hn : (0 < n)%Z.
  (* the two-range form is only ever chosen for the last board *)
  Hypothesis Hlast : forall i, (0 <= i < n)%Z -> last_test (i * T) T (n * T) = true -> i = (n - 1)%Z.

  Let total := (n * T)%Z.
  Lemma total_pos : (0 < total)%Z. Proof. unfold total. nia. Qed.

  Definition kfi (i : Z) := board_kf_with last_test n T i.

  (* time-domain characterisation of the two predicates *)
  Lemma opaque_iff i t : (0 <= i < n)%Z -> 0 <= t <= inject_Z total ->
    (opaque (kfi i) (pctq total t) = true <->
     inject_Z (i * T) <= t /\ (t <= inject_Z ((i + 1) * T - 1) \/ (i = (n - 1)%Z /\ last_test (i*T) T (n*T) = true))).
  Proof.
    intros Hi [Ht0 Ht1]. pose proof total_pos as Hp.
    unfold kfi, board_kf_with, make_keyframe_with. fold total.
    destruct (last_test (i * T) T total) eqn:L; unfold opaque; cbn [k_start k_stop];
      rewrite andb_true_iff, !Qle_bool_iff; unfold pct.
    - rewrite pctq_le by exact Hp. rewrite pctq_le_100 by exact Hp.
      pose proof (Hlast i Hi L) as E. split.
      + intros [A _]. split; [exact A|]. right. split; [exact E|reflexivity].
      + intros [A _]. split; assumption.
    - rewrite !pctq_le by exact Hp. unfold transition_ms.
      replace (i * T + T - 1)%Z with ((i + 1) * T - 1)%Z by ring. split.
      + intros [A B]. split; [exact A|left; exact B].
      + intros [A [B|[_ B]]]; [split; assumption|discriminate].
  Qed.

  Lemma transparent_iff i t : (0 <= i < n)%Z -> 0 <= t <= inject_Z total ->
    (transparent (kfi i) (pctq total t) = true <->
     (t <= inject_Z (i * T - 1) /\ (1 <= i)%Z)
     \/ (inject_Z ((i + 1) * T) <= t /\ last_test (i*T) T (n*T) = false)).
  Proof.
    intros Hi [Ht0 Ht1]. pose proof total_pos as Hp.
    unfold kfi, board_kf_with, make_keyframe_with. fold total. unfold transition_ms.
    assert (Hbefore : forall b : bool,
      (Qle_bool (pctq total t) (pct total (Z.max 0 (i * T - 1))) &&
       negb (Qle_bool (pct total (i * T)) (pct total (Z.max 0 (i * T - 1)))) || b) = true <->
      (t <= inject_Z (i * T - 1) /\ (1 <= i)%Z) \/ b = true).
    { intro b. rewrite orb_true_iff, andb_true_iff, negb_true_iff.
      rewrite Qle_bool_iff. unfold pct. rewrite pctq_le by exact Hp.
      destruct (Z.eq_dec i 0) as [E|E].
      - subst i. replace (Z.max 0 (0 * T - 1)) with 0%Z by lia. replace (0 * T)%Z with 0%Z by ring.
        split.
        + intros [[_ B]|B]; [|right; exact B].
          assert (Qle_bool (pctq total (inject_Z 0)) (pctq total (inject_Z 0)) = true) as K
            by (apply Qle_bool_iff; apply Qle_refl). congruence.
        + intros [[_ B]|B]; [lia|right; exact B].
      - assert (1 <= i)%Z by lia. assert (HiT : (1 <= i * T)%Z) by nia. rewrite Z.max_r by lia.
        assert (Qle_bool (pctq total (inject_Z (i * T))) (pctq total (inject_Z (i * T - 1))) = false) as K.
        { destruct (Qle_bool _ _) eqn:Q; [|reflexivity]. apply Qle_bool_iff in Q.
          apply pctq_le in Q; [|exact Hp]. apply inj_le2 in Q. lia. }
        rewrite K. tauto. }
    destruct (last_test (i * T) T total) eqn:L; unfold transparent; cbn [k_before k_start k_after].
    - rewrite Hbefore. split; [intros [A|A]; [left; exact A|discriminate]|intros [A|[_ A]]; [left; exact A|discriminate]].
    - rewrite Hbefore. rewrite Qle_bool_iff. unfold pct. rewrite pctq_le by exact Hp.
      replace (i * T + T)%Z with ((i + 1) * T)%Z by ring. tauto.
  Qed.

  (* percentages are sorted and inside [0,100] *)
  Lemma sorted i : (0 <= i < n)%Z -> kf_sorted (kfi i) = true.
  Proof.
    intro Hi. pose proof total_pos as Hp.
    unfold kfi, board_kf_with, make_keyframe_with. fold total. unfold transition_ms.
    assert (HiT0 : (0 <= i * T)%Z) by nia.
    assert (B0 : 0 <= pct total (Z.max 0 (i * T - 1))).
    { unfold pct. apply pctq_ge_0; [exact Hp|]. change 0 with (inject_Z 0). apply inj_le1. lia. }
    assert (B1 : pct total (Z.max 0 (i * T - 1)) <= pct total (i * T)).
    { unfold pct. apply pctq_le; [exact Hp|]. apply inj_le1. lia. }
    assert (B2 : pct total (i * T) <= pct total (i * T + T - 1)).
    { unfold pct. apply pctq_le; [exact Hp|]. apply inj_le1. nia. }
    assert (B3 : pct total (i * T + T - 1) <= pct total (i * T + T)).
    { unfold pct. apply pctq_le; [exact Hp|]. apply inj_le1. nia. }
    assert (B4 : pct total (i * T + T) <= 100).
    { unfold pct. apply pctq_le_100; [exact Hp|]. apply inj_le1. unfold total. nia. }
    assert (B5 : pct total (i * T) <= 100).
    { unfold pct. apply pctq_le_100; [exact Hp|]. apply inj_le1. unfold total. nia. }
    destruct (last_test (i * T) T total); unfold kf_sorted; cbn [k_before k_start k_stop k_after];
      rewrite !andb_true_iff, !Qle_bool_iff; repeat split; try assumption.
    apply Qle_refl.
  Qed.

  (* Exactly one board is fully visible outside the 1 ms transitions: during [kT, (k+1)T-1] board k
     has opacity 1 and every other board opacity 0. *)
  Lemma one_visible k i t : (0 <= k < n)%Z -> (0 <= i < n)%Z ->
    inject_Z (k * T) <= t <= inject_Z ((k + 1) * T - 1) ->
    let p := pctq total t in
    (i = k -> opaque (kfi i) p = true /\ transparent (kfi i) p = false) /\
    (i <> k -> opaque (kfi i) p = false /\ transparent (kfi i) p = true).
  Proof.
    intros Hk Hi [Ha Hb] p. subst p.
    assert (Ht : 0 <= t <= inject_Z total).
    { split.
      - eapply Qle_trans; [|exact Ha]. change 0 with (inject_Z 0). apply inj_le1. nia.
      - eapply Qle_trans; [exact Hb|]. apply inj_le1. unfold total. nia. }
    pose proof (opaque_iff i t Hi Ht) as HO. pose proof (transparent_iff i t Hi Ht) as HT'.
    split.
    - intro E. subst i. split.
      + apply HO. split; [exact Ha|left; exact Hb].
      + destruct (transparent (kfi k) (pctq total t)) eqn:X; [|reflexivity]. exfalso.
        destruct (proj1 HT' eq_refl) as [[A _]|[A _]].
        * assert (inject_Z (k * T) <= inject_Z (k * T - 1)) as K by (eapply Qle_trans; eassumption).
          apply inj_le2 in K. lia.
        * assert (inject_Z ((k + 1) * T) <= inject_Z ((k + 1) * T - 1)) as K by (eapply Qle_trans; eassumption).
          apply inj_le2 in K. lia.
    - intro NE. split.
      + destruct (opaque (kfi i) (pctq total t)) eqn:X; [|reflexivity]. exfalso.
        destruct (proj1 HO eq_refl) as [A [B|[B L]]].
        * assert (inject_Z (i * T) <= inject_Z ((k + 1) * T - 1)) as K1 by (eapply Qle_trans; eassumption).
          assert (inject_Z (k * T) <= inject_Z ((i + 1) * T - 1)) as K2 by (eapply Qle_trans; eassumption).
          apply inj_le2 in K1. apply inj_le2 in K2. nia.
        * assert (inject_Z (i * T) <= inject_Z ((k + 1) * T - 1)) as K1 by (eapply Qle_trans; eassumption).
          apply inj_le2 in K1. nia.
      + apply HT'. destruct (Z_lt_ge_dec i k) as [Lt|Ge].
        * right. split.
          -- eapply Qle_trans; [|exact Ha]. apply inj_le1. nia.
          -- destruct (last_test (i * T) T (n * T)) eqn:L; [|reflexivity].
             apply Hlast in L; [lia|exact Hi].
        * left. split; [|lia]. eapply Qle_trans; [exact Hb|]. apply inj_le1. nia.
  Qed.
End Boards.

(* ---- the repaired test satisfies the hypothesis for every n ---- *)
Lemma fixed_last_only n T i : (0 < T)%Z -> (0 <= i < n)%Z ->
  last_test_fixed (i * T) T (n * T) = true -> i = (n - 1)%Z.
Proof. intros HT Hi L. unfold last_test_fixed in L. apply Z.leb_le in L. nia. Qed.

(* ---- the ceil-based test of the pinned code satisfies it up to 100 boards only ---- *)
Lemma Qceiling_100 q : (Qceiling q = 100)%Z -> 99 < q.
Proof.
  intro E. destruct (Qlt_le_dec 99 q) as [H|H]; [exact H|]. exfalso.
  assert (Qceiling q <= Qceiling 99)%Z by (apply Qceiling_resp_le; exact H).
  change (Qceiling 99) with 99%Z in *. lia.
Qed.

Lemma ceil_last_only_le100 n T i : (0 < T)%Z -> (0 <= i < n)%Z -> (n <= 100)%Z ->
  last_test_ceil (i * T) T (n * T) = true -> i = (n - 1)%Z.
Proof.
  intros HT Hi Hn L. unfold last_test_ceil in L. apply Z.eqb_eq in L. apply Qceiling_100 in L.
  assert (Hp : (0 < n * T)%Z) by nia.
  (* 99 < pct <-> 99 * total < 100 * x *)
  unfold pct, pctq, transition_ms in L.
  assert (K : 99 * inject_Z (n * T) < 100 * inject_Z (i * T + T - 1)).
  { assert (P : 0 < inject_Z (n * T)) by (change 0 with (inject_Z 0); rewrite <- Zlt_Qlt; exact Hp).
    apply (Qmult_lt_r _ _ (inject_Z (n * T)) P) in L.
    setoid_replace (inject_Z (i * T + T - 1) / inject_Z (n * T) * 100 * inject_Z (n * T))
      with (100 * inject_Z (i * T + T - 1)) in L.
    - exact L.
    - field. intro E. unfold Qeq in E. simpl in E. lia. }
  change 99 with (inject_Z 99) in K. change 100 with (inject_Z 100) in K.
  rewrite <- !inject_Z_mult in K. rewrite <- Zlt_Qlt in K. nia.
Qed.

Lemma ceil_refuted_101 :
  last_test_ceil (99 * 1000) 1000 (101 * 1000) = true /\ 99%Z <> (101 - 1)%Z.
Proof. split; [vm_compute; reflexivity|lia]. Qed.

(* at t = 100*T + T/2 of a 101-board, T = 1000 animation the pinned formula shows boards 99 and 100 *)
Lemma ceil_two_visible_101 :
  let p := pctq (101 * 1000) (inject_Z 100500) in
  opaque (board_kf_with last_test_ceil 101 1000 99) p = true /\
  opaque (board_kf_with last_test_ceil 101 1000 100) p = true.
Proof. vm_compute. split; reflexivity. Qed.

(* ---- final statements (restated in Props.v) ---- *)
Lemma thm_sorted n T i : (0 < T)%Z -> (0 <= i < n)%Z -> kf_sorted (board_kf n T i) = true.
Proof. intros HT Hi. apply (sorted last_test_fixed n T HT); lia. Qed.

Lemma thm_one_visible n T k i (t : Q) : (0 < T)%Z -> (0 <= k < n)%Z -> (0 <= i < n)%Z ->
    inject_Z (k * T) <= t <= inject_Z ((k + 1) * T - 1) ->
    let p := pctq (n * T) t in
    (i = k -> opaque (board_kf n T i) p = true /\ transparent (board_kf n T i) p = false) /\
    (i <> k -> opaque (board_kf n T i) p = false /\ transparent (board_kf n T i) p = true).
Proof.
  intros HT Hk Hi Ht.
  apply (one_visible last_test_fixed n T HT); try assumption; try lia.
  intros j Hj. apply fixed_last_only; assumption.
Qed.

Lemma thm_ceil_le100 n T k i (t : Q) : (0 < T)%Z -> (n <= 100)%Z -> (0 <= k < n)%Z -> (0 <= i < n)%Z ->
    inject_Z (k * T) <= t <= inject_Z ((k + 1) * T - 1) ->
    let p := pctq (n * T) t in
    (i = k -> opaque (board_kf_with last_test_ceil n T i) p = true) /\
    (i <> k -> opaque (board_kf_with last_test_ceil n T i) p = false /\
               transparent (board_kf_with last_test_ceil n T i) p = true).
Proof.
  intros HT Hn Hk Hi Ht p.
  destruct (one_visible last_test_ceil n T HT) with (k := k) (i := i) (t := t) as [A B];
    try assumption; try lia.
  - intros j Hj. apply ceil_last_only_le100; assumption.
  - split; [intro E; apply A; exact E | exact B].
Qed.
