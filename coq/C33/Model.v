(* C33 — animated SVG keyframes.  Model of d2animate.makeKeyframe and of the loop in Wrap that calls
   it with delay = i*T, duration = T, total = n*T.  Percentages are exact rationals (the code computes
   them in float64 and prints them with %f; the correspondence compares at the printed precision). *)
From Coq Require Import ZArith QArith Qround List Bool.
Import ListNotations.
Open Scope Q_scope.

Definition pctq (total : Z) (t : Q) : Q := (t / inject_Z total) * 100.
Definition pct (total x : Z) : Q := pctq total (inject_Z x).

Record kf := { k_before : Q; k_start : Q; k_stop : Q; k_after : option Q }.
(* k_after = None: the two-range form, the board stays opaque until 100% *)

Definition transition_ms : Z := 1.

(* which boards get the two-range ("last board") form *)
Definition last_test_ceil (delay dur total : Z) : bool :=       (* pinned code: int(math.Ceil(percentageEnd)) == 100 *)
  (Qceiling (pct total (delay + dur - transition_ms)) =? 100)%Z.
Definition last_test_fixed (delay dur total : Z) : bool :=      (* repaired code: delay+duration >= total *)
  (total <=? delay + dur)%Z.

Definition make_keyframe_with (last_test : Z -> Z -> Z -> bool) (delay dur total : Z) : kf :=
  let before := pct total (Z.max 0 (delay - transition_ms)) in
  let start := pct total delay in
  let stop := pct total (delay + dur - transition_ms) in
  if last_test delay dur total
  then {| k_before := before; k_start := start; k_stop := 100; k_after := None |}
  else {| k_before := before; k_start := start; k_stop := stop;
          k_after := Some (pct total (delay + dur)) |}.

Definition make_keyframe := make_keyframe_with last_test_fixed.
Definition make_keyframe_ceil := make_keyframe_with last_test_ceil.

(* Wrap: board i of n with interval T *)
Definition board_kf_with lt (n T i : Z) : kf := make_keyframe_with lt (i * T) T (n * T).
Definition board_kf := board_kf_with last_test_fixed.

(* CSS semantics of the generated @keyframes at cycle position p (percent):
   opacity is 1 between start and stop, 0 up to `before` (when that keyframe is not shadowed by an
   equal-offset later one) and from `after` on, linear in between. *)
Definition opaque (k : kf) (p : Q) : bool := Qle_bool (k_start k) p && Qle_bool p (k_stop k).
Definition transparent (k : kf) (p : Q) : bool :=
  (Qle_bool p (k_before k) && negb (Qle_bool (k_start k) (k_before k)))
  || match k_after k with Some a => Qle_bool a p | None => false end.

Definition kf_sorted (k : kf) : bool :=
  Qle_bool 0 (k_before k) && Qle_bool (k_before k) (k_start k) && Qle_bool (k_start k) (k_stop k)
  && match k_after k with Some a => Qle_bool (k_stop k) a && Qle_bool a 100 | None => Qle_bool (k_stop k) 100 end.
