(* Executable checker for C33 cases.  The harness calls d2animate.Wrap with n boards and interval T,
   parses the @keyframes rules out of the result and passes, per board, the printed percentages in
   micro-percent (the code prints %f = 6 decimals). *)
From Coq Require Import ZArith QArith Qround List Bool.
Import ListNotations.
Require Import V.Lib.RunCases V.C33.Model.
Open Scope Q_scope.

(* n, T, total duration printed in the animation style, per board: [before;start;stop] or
   [before;start;stop;after] *)
Inductive case := Case (n T total : Z) (boards : list (list Z)).

Definition micro (z : Z) : Q := Qmake z 1000000.
Definition eps : Q := 2 # 1000000.

Definition kf_of_impl (l : list Z) : option kf :=
  match l with
  | [b; s; e] => Some {| k_before := micro b; k_start := micro s; k_stop := micro e; k_after := None |}
  | [b; s; e; a] => Some {| k_before := micro b; k_start := micro s; k_stop := micro e; k_after := Some (micro a) |}
  | _ => None
  end.

Definition close (a b : Q) : bool := Qle_bool (a - b) (1 # 1000000) && Qle_bool (b - a) (1 # 1000000).

Definition kf_close (m i : kf) : bool :=
  close (k_before m) (k_before i) && close (k_start m) (k_start i) && close (k_stop m) (k_stop i)
  && match k_after m, k_after i with
     | None, None => true
     | Some a, Some b => close a b
     | _, _ => false
     end.

(* tolerance versions of the visibility predicates, for values rounded to 6 decimals *)
Definition opaque_tol (k : kf) (p : Q) : bool :=
  Qle_bool (k_start k - eps) p && Qle_bool p (k_stop k + eps).
Definition transparent_tol (k : kf) (p : Q) : bool :=
  (Qle_bool p (k_before k + eps) && negb (Qle_bool (k_start k) (k_before k)))
  || match k_after k with Some a => Qle_bool (a - eps) p | None => false end.

Fixpoint zseq (start : Z) (len : nat) : list Z :=
  match len with O => [] | S l => start :: zseq (start + 1) l end.

Definition sample_times (T k : Z) : list Q :=
  [inject_Z (k * T); inject_Z (k * T) + (inject_Z (T - 1) / 2); inject_Z ((k + 1) * T - 1)].

Definition check_case (c : case) : list N :=
  match c with
  | Case n T total boards =>
      let idx := zseq 0 (length boards) in
      let impl := map kf_of_impl boards in
      let corr :=
        forallb (fun p => match snd p with
                          | Some k => kf_close (board_kf n T (fst p)) k
                          | None => false end) (combine idx impl) in
      let kfs := flat_map (fun o => match o with Some k => [k] | None => [] end) impl in
      let parsed := Nat.eqb (length kfs) (length boards) && (Z.of_nat (length boards) =? n)%Z in
      let sorted := forallb kf_sorted kfs in
      let ikfs := combine idx kfs in
      let vis :=
        forallb (fun k =>
          forallb (fun t =>
            let p := pctq (n * T) t in
            forallb (fun ik => if (fst ik =? k)%Z then opaque_tol (snd ik) p && negb (transparent (snd ik) p)
                               else transparent_tol (snd ik) p && negb (opaque (snd ik) p)) ikfs)
            (sample_times T k)) idx in
      flag corr 1 ++ flag parsed 13 ++ flag sorted 10 ++ flag vis 11 ++ flag (total =? n * T)%Z 12
  end.
