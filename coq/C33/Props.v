(* C33 — Animated SVGs show exactly one board at a time, in order.  Statements only. *)
From Coq Require Import ZArith QArith List Bool.
Require Import V.C33.Model V.C33.Proofs.
Open Scope Q_scope.

(* All keyframe percentages lie in [0,100] in increasing order: every n, T > 0, every board. *)
Theorem C33_keyframes_sorted_in_range :
  forall n T i, (0 < T)%Z -> (0 <= i < n)%Z -> kf_sorted (board_kf n T i) = true.
Proof. exact thm_sorted. Qed.

(* At every moment t of the cycle outside the 1 ms transitions, i.e. kT <= t <= (k+1)T - 1 for the
   k-th interval (t rational: "every moment"), board k has opacity 1 and every other board opacity 0.
   All board counts n, all intervals T > 0. *)
Theorem C33_exactly_one_visible :
  forall n T k i (t : Q), (0 < T)%Z -> (0 <= k < n)%Z -> (0 <= i < n)%Z ->
    inject_Z (k * T) <= t <= inject_Z ((k + 1) * T - 1) ->
    let p := pctq (n * T) t in
    (i = k -> opaque (board_kf n T i) p = true /\ transparent (board_kf n T i) p = false) /\
    (i <> k -> opaque (board_kf n T i) p = false /\ transparent (board_kf n T i) p = true).
Proof. exact thm_one_visible. Qed.

(* The formula of the pinned commit (two-range form chosen by ceil(percentageEnd) = 100) satisfies
   the same statement only up to 100 boards ... *)
Theorem C33_pinned_formula_ok_up_to_100_boards :
  forall n T k i (t : Q), (0 < T)%Z -> (n <= 100)%Z -> (0 <= k < n)%Z -> (0 <= i < n)%Z ->
    inject_Z (k * T) <= t <= inject_Z ((k + 1) * T - 1) ->
    let p := pctq (n * T) t in
    (i = k -> opaque (board_kf_with last_test_ceil n T i) p = true) /\
    (i <> k -> opaque (board_kf_with last_test_ceil n T i) p = false /\
               transparent (board_kf_with last_test_ceil n T i) p = true).
Proof. exact thm_ceil_le100. Qed.

(* ... and is refuted at 101 boards, T = 1000 ms: at t = 100.5 s boards 99 and 100 are both opaque. *)
Theorem C33_pinned_formula_refuted_101_boards :
  let p := pctq (101 * 1000) (inject_Z 100500) in
  opaque (board_kf_with last_test_ceil 101 1000 99) p = true /\
  opaque (board_kf_with last_test_ceil 101 1000 100) p = true.
Proof. exact ceil_two_visible_101. Qed.

(* non-vacuity *)
Example C33_hyps_satisfiable :
  (0 < 1000)%Z /\ (0 <= 1 < 3)%Z /\ inject_Z (1 * 1000) <= 1500 # 1 <= inject_Z ((1 + 1) * 1000 - 1).
Proof. repeat split; vm_compute; congruence. Qed.

Print Assumptions C33_keyframes_sorted_in_range.
Print Assumptions C33_exactly_one_visible.
Print Assumptions C33_pinned_formula_ok_up_to_100_boards.
Print Assumptions C33_pinned_formula_refuted_101_boards.
