(* C44 — proofs over all reachable states of the watch-server LTS (any number of changes and clients). *)
From Coq Require Import List NArith ZArith Bool Lia ZifyN ZifyNat ZifyBool.
Import ListNotations.
Require Import V.C44.Model.
Open Scope N_scope.

(* ------------------------------------------------------------------ client list lemmas *)

Definition ids (l : list client) : list cid := map c_id l.

Lemma find_client_Some c l x : find_client c l = Some x -> In x l /\ c_id x = c.
Proof.
  induction l as [|y r IH]; simpl; [discriminate|].
  destruct (c_id y =? c) eqn:E.
  - intros H; inversion H; subst. apply N.eqb_eq in E. auto.
  - intros H. destruct (IH H). auto.
Qed.

Lemma find_client_None c l : find_client c l = None -> forall x, In x l -> c_id x <> c.
Proof.
  induction l as [|y r IH]; simpl; [tauto|].
  destruct (c_id y =? c) eqn:E; [discriminate|].
  intros H x [->|Hx]; [apply N.eqb_neq; exact E | apply IH; assumption].
Qed.

Lemma find_client_In l x : NoDup (ids l) -> In x l -> find_client (c_id x) l = Some x.
Proof.
  induction l as [|y r IH]; simpl; [tauto|].
  intros ND [->|Hx].
  - rewrite N.eqb_refl. reflexivity.
  - inversion ND; subst. destruct (c_id y =? c_id x) eqn:E.
    + apply N.eqb_eq in E. exfalso. apply H1. rewrite E. apply in_map. exact Hx.
    + apply IH; assumption.
Qed.

Definition pres_id (f : client -> client) : Prop := forall x, c_id (f x) = c_id x.

Lemma ids_upd c f l : pres_id f -> ids (upd_client c f l) = ids l.
Proof.
  intros Hf. unfold ids, upd_client. rewrite map_map. apply map_ext.
  intros x. destruct (c_id x =? c); [apply Hf | reflexivity].
Qed.

Lemma length_upd c f l : length (upd_client c f l) = length l.
Proof. unfold upd_client. apply map_length. Qed.

(* what the elements of an updated list are *)
Lemma In_upd c f l x0 y :
  NoDup (ids l) -> find_client c l = Some x0 -> In y (upd_client c f l) ->
  y = f x0 \/ (In y l /\ c_id y <> c).
Proof.
  intros ND F Hy. unfold upd_client in Hy. apply in_map_iff in Hy as [x [E Hx]].
  destruct (c_id x =? c) eqn:Ec.
  - apply N.eqb_eq in Ec. left. subst y.
    pose proof (find_client_In l x ND Hx) as F'. rewrite Ec in F'. congruence.
  - right. subst y. split; [assumption | apply N.eqb_neq; assumption].
Qed.

Lemma Forall_upd (P Q : client -> Prop) c f l x0 :
  NoDup (ids l) -> find_client c l = Some x0 -> Forall P l ->
  Q (f x0) -> (forall y, In y l -> c_id y <> c -> P y -> Q y) ->
  Forall Q (upd_client c f l).
Proof.
  intros ND F HP H0 Hrest. apply Forall_forall. intros y Hy.
  destruct (In_upd c f l x0 y ND F Hy) as [->|[Hin Hne]]; [assumption|].
  apply Hrest; try assumption. rewrite Forall_forall in HP. apply HP; assumption.
Qed.

(* sums over the client list *)
Fixpoint csum (g : client -> nat) (l : list client) : nat :=
  match l with [] => 0%nat | x :: r => (g x + csum g r)%nat end.

Lemma csum_app g l1 l2 : csum g (l1 ++ l2) = (csum g l1 + csum g l2)%nat.
Proof. induction l1; simpl; lia. Qed.

Lemma csum_upd g c f l x0 :
  NoDup (ids l) -> find_client c l = Some x0 ->
  (csum g (upd_client c f l) + g x0 = csum g l + g (f x0))%nat.
Proof.
  induction l as [|y r IH]; simpl; [discriminate|].
  intros ND F. inversion ND; subst.
  destruct (c_id y =? c) eqn:E.
  - inversion F; subst y. apply N.eqb_eq in E.
    assert (upd_client c f r = r) as ->.
    { unfold upd_client. rewrite <- (map_id r) at 2. apply map_ext_in. intros z Hz.
      destruct (c_id z =? c) eqn:Ez; [|reflexivity].
      apply N.eqb_eq in Ez. exfalso. apply H1. rewrite E, <- Ez. apply in_map. exact Hz. }
    lia.
  - specialize (IH H2 F). lia.
Qed.

Lemma csum_zero g l : csum g l = 0%nat -> forall x, In x l -> g x = 0%nat.
Proof.
  induction l as [|y r IH]; simpl; [tauto|].
  intros H x [->|Hx]; [lia | apply IH; [lia|assumption]].
Qed.

Lemma csum_all_zero g l : (forall x, In x l -> g x = 0%nat) -> csum g l = 0%nat.
Proof.
  induction l as [|y r IH]; simpl; [reflexivity|].
  intros H. rewrite (H y (or_introl eq_refl)), IH; [reflexivity|]. intros; apply H; auto.
Qed.

(* ------------------------------------------------------------------ the invariant *)

Definition ple (a b : N * ver) : Prop := fst a <= fst b /\ snd a <= snd b.

(* e dominates the head of l *)
Definition le_hd (e : N * ver) (l : list (N * ver)) : Prop :=
  match l with [] => True | e' :: _ => ple e' e end.

(* newest first: compile index and version never increase towards older entries *)
Fixpoint wsorted (l : list (N * ver)) : Prop :=
  match l with [] => True | e :: r => le_hd e r /\ wsorted r end.

Fixpoint clog_ok (l : list (N * ver)) : Prop :=
  match l with
  | [] => True
  | e :: r => fst e = N.of_nat (length r) /\ (forall e', In e' r -> ple e' e) /\ clog_ok r
  end.

Definition res_ver (s : state) : ver := match res s with Some (_, v) => v | None => 0 end.

Definition pending (s : state) : Prop := dirty s = true \/ token s = true \/ comp s = Taken.

Definition comp_ok (s : state) : Prop :=
  match comp s with
  | Idle | Taken => res_ver s = last_read s
  | Compiling v => v = last_read s /\ 1 <= v
  | Storing k v => v = last_read s /\ res s = Some (k, v)
  end.

Record PInv (s : state) : Prop := {
  p_fv1 : 1 <= fv s;
  p_read_le : last_read s <= fv s;
  p_pending : last_read s < fv s -> pending s;
  p_res_hd : res s = hd_error (clog s);
  p_clog : clog_ok (clog s);
  p_clog_bound : forall e, In e (clog s) -> 1 <= snd e <= last_read s;
  p_comp : comp_ok s;
  p_closing : closing s = true -> cancelled s = true /\ close_called s = true;
  p_returned : returned s = true -> closing s = true
}.

Definition not_storing (cm : comp_state) : Prop := match cm with Storing _ _ => False | _ => True end.

Record CInv (cm : comp_state) (rs : option (N * ver)) (cl : list (N * ver)) (x : client) : Prop := {
  c_sorted : wsorted (c_written x);
  c_in_log : forall e, In e (c_written x) -> In e cl;
  c_held : forall k v, c_phase x = PHeld k v -> In (k, v) cl /\ le_hd (k, v) (c_written x);
  c_fresh : c_wake x = false -> not_storing cm ->
            match c_phase x with
            | PHeld k v => rs = Some (k, v)
            | PWait => hd_error (c_written x) = rs
            | _ => True
            end;
  c_wake_reg : c_wake x = true -> registered (c_phase x) = true
}.

Definition b2n (b : bool) : nat := if b then 1%nat else 0%nat.
Definition handlers (l : list client) : nat := csum (fun x => b2n (counted (c_phase x))) l.

Record Inv (s : state) : Prop := {
  i_p : PInv s;
  i_c : Forall (CInv (comp s) (res s) (clog s)) (clients s);
  i_nodup : NoDup (ids (clients s));
  i_wg : wg s = Z.of_nat (handlers (clients s));
  i_ret_wg : returned s = true -> wg s = 0%Z
}.

(* ------------------------------------------------------------------ step inversion *)

Ltac inv H := inversion H; subst; clear H.

Ltac step_cases H :=
  unfold step, on_client in H;
  repeat match type of H with
  | context [match find_client ?c ?l with _ => _ end] => let F := fresh "F" in destruct (find_client c l) eqn:F
  | context [match c_phase ?x with _ => _ end] => let P := fresh "P" in destruct (c_phase x) eqn:P
  | context [match comp ?s with _ => _ end] => let C := fresh "C" in destruct (comp s) eqn:C
  | context [match res ?s with _ => _ end] => let R := fresh "R" in destruct (res s) as [[? ?]|] eqn:R
  | context [if ?b then _ else _] => let B := fresh "B" in destruct b eqn:B
  end;
  try discriminate H; inv H.

Lemma clog_fst_bound l : clog_ok l -> forall e, In e l -> fst e <= N.of_nat (length l).
Proof.
  induction l as [|a r IH]; simpl; [tauto|].
  intros [H1 [H2 H3]] e [->|He].
  - lia.
  - specialize (IH H3 e He). lia.
Qed.

Lemma clog_hd_dominates l e0 : clog_ok l -> hd_error l = Some e0 -> forall e, In e l -> ple e e0.
Proof.
  destruct l as [|a r]; simpl; [discriminate|].
  intros [H1 [H2 H3]] E e [->|He]; inv E.
  - split; lia.
  - apply H2; assumption.
Qed.

(* ------------------------------------------------------------------ PInv is preserved *)

Lemma pinv_init : PInv init.
Proof.
  constructor; simpl; unfold pending, comp_ok, res_ver; simpl; try tauto; try lia; try discriminate.
Qed.

Lemma pinv_step s l s' : PInv s -> step s l = Some s' -> PInv s'.
Proof.
  intros [A1 A2 A3 A4 A5 A6 A7 A8 A9] H.
  unfold pending, comp_ok, res_ver in *.
  destruct l; step_cases H;
    (constructor; unfold pending, comp_ok, res_ver; simpl in *;
     try assumption; try (intros; discriminate); try lia; try tauto;
     try (rewrite ?R; assumption);
     try solve [intros Hlt; destruct (A3 Hlt) as [?|[?|?]]; try discriminate; auto];
     try solve [intros e He; specialize (A6 e He); lia]).
  - (* Store: clog_ok *)
    destruct A7 as [-> A7]. split; [reflexivity|]. split; [|assumption].
    intros e' He'. split; simpl.
    + apply clog_fst_bound; assumption.
    + specialize (A6 e' He'). lia.
  - (* Store: bound *)
    destruct A7 as [-> A7]. intros e [<-|He]; simpl; [lia | apply A6; assumption].
  - (* Signal comp_ok *) destruct A7 as [-> ->]. reflexivity.
Qed.


(* ------------------------------------------------------------------ client invariants are preserved *)

Lemma cinv_ctx cm cm' rs cl x :
  (not_storing cm' -> not_storing cm) -> CInv cm rs cl x -> CInv cm' rs cl x.
Proof. intros Hm [B1 B2 B3 B4 B5]. constructor; auto. intros Hw Hn. apply B4; auto. Qed.

Lemma cinv_store cm rs k v cl x :
  CInv cm rs cl x -> CInv (Storing k v) (Some (k, v)) ((k, v) :: cl) x.
Proof.
  intros [B1 B2 B3 B4 B5]. constructor; auto.
  - intros e He. right. auto.
  - intros k0 v0 Hp. destruct (B3 k0 v0 Hp). split; [right|]; auto.
  - intros _ [].
Qed.

Lemma cinv_signal cm rs cl x :
  CInv cm rs cl x -> CInv Idle rs cl (if registered (c_phase x) then set_wake true x else x).
Proof.
  intros [B1 B2 B3 B4 B5]. destruct (registered (c_phase x)) eqn:Rg.
  - constructor; simpl; auto. intros; discriminate.
  - constructor; auto.
    + intros Hw _. destruct (c_phase x); simpl in Rg; try discriminate; exact I.
    + rewrite Rg. exact B5.
Qed.

Lemma In_hd_error {A} (l : list A) e : hd_error l = Some e -> In e l.
Proof. destruct l; simpl; [discriminate|]. intros H; inversion H; auto. Qed.

Ltac client_step s HC ND :=
  match goal with F : find_client ?c (clients s) = Some ?x0 |- Forall _ (upd_client ?c ?f _) =>
    let Hx := fresh "Hx" in
    destruct (find_client_Some _ _ _ F) as [Hx _];
    pose proof (proj1 (Forall_forall _ _) HC x0 Hx) as [B1 B2 B3 B4 B5];
    eapply (Forall_upd _ _ c f (clients s) x0 ND F HC); [| intros; assumption];
    constructor; simpl; auto; try (intros; discriminate)
  end.

Lemma cinv_step s l s' :
  Inv s -> step s l = Some s' -> Forall (CInv (comp s') (res s') (clog s')) (clients s').
Proof.
  intros [HP HC ND HW HR] H.
  pose proof (p_res_hd s HP) as Hres. pose proof (p_clog s HP) as Hclog.
  destruct l; step_cases H; simpl; try assumption;
    try (rewrite <- R in HC); try (client_step s HC ND).
  - (* Attempt *)
    apply Forall_app. split; [assumption|]. constructor; [|constructor].
    constructor; simpl; auto; try tauto; intros; discriminate.
  - (* TakeToken *) eapply Forall_impl; [|exact HC]. intros x. apply cinv_ctx. auto.
  - (* ReadFile *) eapply Forall_impl; [|exact HC]. intros x. apply cinv_ctx. auto.
  - (* Store *) eapply Forall_impl; [|exact HC]. intros x. apply cinv_store.
  - (* Signal *)
    unfold signal_all. apply Forall_forall. intros y Hy. apply in_map_iff in Hy as [x [<- Hx]].
    apply cinv_signal with (cm := Storing k v). rewrite Forall_forall in HC. apply HC. exact Hx.
  - (* Admit: wake must be false *) rewrite P in B5. exact B5.
  - (* RejectH *) rewrite P in B5. exact B5.
  - (* Res101 *) rewrite P in B5. exact B5.
  - (* Res400 *) rewrite P in B5. exact B5.
  - (* Res503 *) rewrite P in B5. exact B5.
  - (* ClientRead, res = Some *)
    intros k v0 E. inv E. clear R. assert (R : hd_error (clog s) = Some (k, v0)) by (symmetry; exact Hres).
    split; [apply In_hd_error; exact R|].
    destruct (c_written c0) as [|e' r] eqn:W; simpl; [exact I|].
    apply (clog_hd_dominates (clog s) _ Hclog R). apply B2. left. reflexivity.
  - (* ClientRead, res = None: nothing was ever written to this client *)
    intros _ _. destruct (clog s) as [|a r]; [|discriminate].
    destruct (c_written c0) as [|e' r'] eqn:W; [symmetry; exact R|]. exfalso. apply (B2 e'). left. reflexivity.
  - (* ClientWrite: sorted *) split; [|assumption]. apply (B3 k v P).
  - (* ClientWrite: in log *) intros e [<-|He]; [apply (B3 k v P) | auto].
  - (* ClientWrite: fresh *) intros Hw Hn. symmetry. rewrite P in B4. apply (B4 Hw Hn).
Qed.


(* ------------------------------------------------------------------ ids, wait group *)

Lemma pres_set_phase p : pres_id (set_phase p). Proof. intros x; reflexivity. Qed.
Lemma pres_set_wake b : pres_id (set_wake b). Proof. intros x; reflexivity. Qed.

Lemma ids_signal l : ids (signal_all l) = ids l.
Proof.
  unfold ids, signal_all. rewrite map_map. apply map_ext. intros x.
  destruct (registered (c_phase x)); reflexivity.
Qed.

Lemma handlers_signal l : handlers (signal_all l) = handlers l.
Proof.
  unfold handlers, signal_all. induction l as [|x r IH]; simpl; [reflexivity|].
  rewrite IH. destruct (registered (c_phase x)); reflexivity.
Qed.

Lemma NoDup_snoc {A} (l : list A) a : NoDup l -> ~ In a l -> NoDup (l ++ [a]).
Proof.
  induction l as [|x r IH]; simpl; intros ND Hn.
  - constructor; [tauto | constructor].
  - inversion ND; subst. constructor.
    + rewrite in_app_iff. simpl. intros [H|[H|[]]]; [tauto | subst; tauto].
    + apply IH; [assumption | tauto].
Qed.

Lemma nodup_step s l s' : NoDup (ids (clients s)) -> step s l = Some s' -> NoDup (ids (clients s')).
Proof.
  intros ND H.
  destruct l; step_cases H; simpl; try assumption;
    try (rewrite ids_upd; [assumption | intros y; reflexivity]).
  - (* Attempt *)
    unfold ids. rewrite map_app. simpl. apply NoDup_snoc; [assumption|].
    intros Hin. apply in_map_iff in Hin as [x [E Hx]]. apply (find_client_None _ _ F x Hx E).
  - rewrite ids_signal. assumption.
Qed.

Lemma handlers_pos l x : In x l -> counted (c_phase x) = true -> (1 <= handlers l)%nat.
Proof.
  unfold handlers. induction l as [|y r IH]; simpl; [tauto|].
  intros [->|Hx] Hc; [rewrite Hc; simpl; lia | specialize (IH Hx Hc); lia].
Qed.

Ltac handlers_upd s ND :=
  match goal with F : find_client ?c (clients s) = Some ?x0 |- context [handlers (upd_client ?c ?f _)] =>
    let E := fresh "E" in
    pose proof (csum_upd (fun x => b2n (counted (c_phase x))) c f (clients s) x0 ND F) as E;
    fold (handlers (upd_client c f (clients s))) in E; fold (handlers (clients s)) in E;
    simpl in E
  end.

Lemma wg_step s l s' :
  NoDup (ids (clients s)) -> wg s = Z.of_nat (handlers (clients s)) -> step s l = Some s' ->
  wg s' = Z.of_nat (handlers (clients s')).
Proof.
  intros ND HW H.
  destruct l; step_cases H; simpl; try assumption;
    try (handlers_upd s ND; rewrite ?P in E; simpl in E; lia).
  - (* Attempt *) unfold handlers. rewrite csum_app. simpl. fold (handlers (clients s)). lia.
  - (* Signal *) rewrite handlers_signal. assumption.
Qed.

Lemma ret_wg_step s l s' :
  Inv s -> step s l = Some s' -> returned s' = true -> wg s' = 0%Z.
Proof.
  intros [HP HC ND HW HR] H.
  pose proof (p_returned s HP) as Hrc.
  destruct l; step_cases H; simpl; try assumption; intros Hr;
    try (specialize (Hrc Hr); congruence).
  - (* Res400 while returned: impossible, a counted handler exists *)
    specialize (HR Hr). destruct (find_client_Some _ _ _ F) as [Hx _].
    assert (1 <= handlers (clients s))%nat by (apply (handlers_pos _ c0 Hx); rewrite P; reflexivity). lia.
  - specialize (HR Hr). destruct (find_client_Some _ _ _ F) as [Hx _].
    assert (1 <= handlers (clients s))%nat by (apply (handlers_pos _ c0 Hx); rewrite P; reflexivity). lia.
  - specialize (HR Hr). destruct (find_client_Some _ _ _ F) as [Hx _].
    assert (1 <= handlers (clients s))%nat by (apply (handlers_pos _ c0 Hx); rewrite P; reflexivity). lia.
  - (* CloseReturn *) apply andb_prop in B as [_ B]. apply Z.eqb_eq in B. exact B.
Qed.

Lemma inv_init : Inv init.
Proof.
  constructor; simpl; [apply pinv_init | constructor | constructor | reflexivity | reflexivity].
Qed.

Lemma inv_step s l s' : Inv s -> step s l = Some s' -> Inv s'.
Proof.
  intros I H. constructor.
  - apply (pinv_step s l); [apply I | assumption].
  - apply (cinv_step s l); assumption.
  - apply (nodup_step s l); [apply I | assumption].
  - apply (wg_step s l); [apply I | apply I | assumption].
  - apply (ret_wg_step s l); assumption.
Qed.

Lemma inv_run s ls s' : Inv s -> run s ls = Some s' -> Inv s'.
Proof.
  revert s. induction ls as [|l r IH]; simpl; intros s I H.
  - inv H. assumption.
  - destruct (step s l) eqn:E; [|discriminate]. apply (IH s0); [apply (inv_step s l); assumption | assumption].
Qed.

Lemma inv_reachable s : reachable s -> Inv s.
Proof. intros [ls H]. apply (inv_run init ls); [apply inv_init | assumption]. Qed.

(* ------------------------------------------------------------------ C44: safety theorems *)

(* never lost: a content version newer than the last one a compile read leaves a request pending
   (timer armed, or token in the channel, or the compile loop holding the token before reading) *)
Lemma thm_inv_pending s : reachable s -> last_read s < fv s -> pending s.
Proof. intros R. apply (p_pending s (i_p s (inv_reachable s R))). Qed.

Lemma thm_last_read_le s : reachable s -> last_read s <= fv s.
Proof. intros R. apply (p_read_le s (i_p s (inv_reachable s R))). Qed.

(* what a client has been sent is ordered: newest first, compile index and version never go up towards
   older entries, i.e. in delivery order both never decrease *)
Lemma thm_client_monotone s x : reachable s -> In x (clients s) -> wsorted (c_written x).
Proof.
  intros R Hx. pose proof (i_c s (inv_reachable s R)) as HC. rewrite Forall_forall in HC.
  apply (c_sorted _ _ _ _ (HC x Hx)).
Qed.

(* the compile sequence, oldest first *)
Definition compile_seq (s : state) : list (N * ver) := rev (clog s).

Lemma clog_nth l : clog_ok l -> forall e, In e l -> nth_error (rev l) (N.to_nat (fst e)) = Some e.
Proof.
  induction l as [|a r IH]; simpl; [tauto|].
  intros [H1 [H2 H3]] e [->|He].
  - rewrite H1, Nnat.Nat2N.id. rewrite nth_error_app2; rewrite rev_length; [|lia].
    rewrite Nat.sub_diag. reflexivity.
  - specialize (IH H3 e He). rewrite nth_error_app1; [assumption|].
    apply nth_error_Some. congruence.
Qed.

Lemma thm_results_in_compile_order s x :
  reachable s -> In x (clients s) ->
  wsorted (c_written x) /\
  forall k v, In (k, v) (c_written x) -> nth_error (compile_seq s) (N.to_nat k) = Some (k, v).
Proof.
  intros R Hx. pose proof (inv_reachable s R) as I.
  pose proof (i_c s I) as HC. rewrite Forall_forall in HC. specialize (HC x Hx).
  split; [apply (c_sorted _ _ _ _ HC)|].
  intros k v He. apply (clog_nth (clog s) (p_clog s (i_p s I)) (k, v)).
  apply (c_in_log _ _ _ _ HC). exact He.
Qed.

(* compile results carry non-decreasing content versions, each at most the current file version *)
Lemma thm_compile_versions s :
  reachable s -> clog_ok (clog s) /\ forall e, In e (clog s) -> 1 <= snd e <= fv s.
Proof.
  intros R. pose proof (i_p s (inv_reachable s R)) as HP. split; [apply HP|].
  intros e He. pose proof (p_clog_bound s HP e He). pose proof (p_read_le s HP). lia.
Qed.

(* ------------------------------------------------------------------ C44: progress measure *)

Definition phase_pot (p : phase) : nat :=
  match p with
  | PPending => 7 | PAdmitted => 6 | PAccepted => 5 | PLoop => 3 | PHeld _ _ => 2 | PWait => 1
  | PRejected => 1 | PDone => 0
  end%nat.
Definition client_pot (x : client) : nat := (phase_pot (c_phase x) + (if c_wake x then 3 else 0))%nat.

Definition cycle (s : state) : nat := (3 * length (clients s) + 4)%nat.
Definition pipe_pot (s : state) : nat :=
  ((if dirty s then cycle s + 1 else 0) + (if token s then cycle s else 0)
   + match comp s with Idle => 0 | Taken => cycle s - 1 | Compiling _ => cycle s - 2 | Storing _ _ => cycle s - 3 end)%nat.
Definition close_pot (s : state) : nat :=
  ((if negb (closing s) && close_called s then 2 else 0)
   + (if closing s && negb (returned s) then 1 else 0))%nat.

Definition mu (s : state) : nat := (pipe_pot s + csum client_pot (clients s) + close_pot s)%nat.

Lemma pot_signal l : (csum client_pot (signal_all l) <= csum client_pot l + 3 * length l)%nat.
Proof.
  unfold signal_all. induction l as [|x r IH]; simpl; [lia|].
  destruct (registered (c_phase x)); unfold client_pot in *; simpl; destruct (c_wake x); lia.
Qed.

Lemma pot_upd_eq c f l x0 :
  NoDup (ids l) -> find_client c l = Some x0 ->
  (csum client_pot (upd_client c f l) + (phase_pot (c_phase x0) + (if c_wake x0 then 3 else 0))
   = csum client_pot l + (phase_pot (c_phase (f x0)) + (if c_wake (f x0) then 3 else 0)))%nat.
Proof. intros ND F. apply (csum_upd client_pot c f l x0 ND F). Qed.

Ltac pot_upd s ND :=
  match goal with F : find_client ?c (clients s) = Some ?x0 |- context [csum client_pot (upd_client ?c ?f _)] =>
    let E := fresh "E" in
    pose proof (pot_upd_eq c f (clients s) x0 ND F) as E; simpl in E
  end.

Lemma mu_clients_wg s l' w :
  length l' = length (clients s) -> (csum client_pot l' < csum client_pot (clients s))%nat ->
  (mu (with_clients_wg s l' w) < mu s)%nat.
Proof.
  intros HL HS. unfold mu, pipe_pot, close_pot, cycle. simpl. rewrite HL.
  destruct (dirty s), (token s), (comp s), (closing s), (close_called s), (returned s); simpl; lia.
Qed.

Lemma mu_clients s l' :
  length l' = length (clients s) -> (csum client_pot l' < csum client_pot (clients s))%nat ->
  (mu (with_clients s l') < mu s)%nat.
Proof. apply (mu_clients_wg s l' (wg s)). Qed.

Lemma thm_internal_step_decreases s l s' :
  reachable s -> step s l = Some s' -> external l = false -> (mu s' < mu s)%nat.
Proof.
  intros R H Hext. pose proof (i_nodup s (inv_reachable s R)) as ND.
  destruct l; try discriminate Hext; step_cases H;
    (* steps of one client: only its own potential changes *)
    try (apply mu_clients_wg; [apply length_upd|];
         pot_upd s ND; rewrite ?P in E; simpl in E; try (rewrite B in E); lia);
    unfold mu, pipe_pot, close_pot, cycle; simpl.
  (* compile loop and close: Signal's wake-ups are paid for by the compile cycle's budget *)
  all: try (pose proof (pot_signal (clients s)) as HS; unfold signal_all in *; rewrite map_length in * );
       rewrite ?B, ?C;
       destruct (dirty s), (token s), (comp s), (closing s), (close_called s), (returned s);
       simpl in *; try discriminate; lia.
Qed.



(* ------------------------------------------------------------------ C44: quiescence *)

Lemma enabled_complete s l s' :
  step s l = Some s' -> external l = false -> In l (internal_labels s).
Proof.
  intros H Hext. unfold internal_labels.
  destruct l; try discriminate Hext; simpl; try tauto;
    (do 7 right; apply in_flat_map;
     unfold step, on_client in H; destruct (find_client c (clients s)) as [x|] eqn:F; [|discriminate];
     destruct (find_client_Some _ _ _ F) as [Hx <-]; exists x; split; [assumption|]; simpl; tauto).
Qed.

Lemma quiescent_spec s : quiescent s = true ->
  forall l s', external l = false -> step s l = Some s' -> False.
Proof.
  unfold quiescent, enabled_internal. intros Q l s' Hext H.
  pose proof (enabled_complete s l s' H Hext) as Hin.
  assert (In l (filter (fun l => is_some (step s l)) (internal_labels s))) as Hf.
  { apply filter_In. split; [assumption|]. rewrite H. reflexivity. }
  destruct (filter _ _); [destruct Hf | discriminate].
Qed.

(* the converse, for completeness: a state where none of the server's steps can fire is quiescent *)
Lemma quiescent_intro s : (forall l, external l = false -> step s l = None) -> quiescent s = true.
Proof.
  intros Hn. unfold quiescent, enabled_internal.
  destruct (filter _ _) as [|l r] eqn:E; [reflexivity|].
  assert (In l (l :: r)) as Hin by (left; reflexivity). rewrite <- E in Hin.
  apply filter_In in Hin as [Hin Hs].
  assert (external l = false) as Hext.
  { unfold internal_labels in Hin. apply in_app_or in Hin as [Hin|Hin].
    - simpl in Hin. repeat (destruct Hin as [<-|Hin]; [reflexivity|]). destruct Hin.
    - apply in_flat_map in Hin as [x [_ Hl]]. simpl in Hl.
      repeat (destruct Hl as [<-|Hl]; [reflexivity|]). destruct Hl. }
  rewrite (Hn l Hext) in Hs. discriminate.
Qed.

Ltac stuck Q lbl := exfalso; eapply (Q lbl); [reflexivity | unfold step, on_client].

Lemma quiescent_pipeline s :
  quiescent s = true -> dirty s = false /\ token s = false /\ comp s = Idle.
Proof.
  intros Q0. pose proof (quiescent_spec s Q0) as Q.
  assert (dirty s = false) as D.
  { destruct (dirty s) eqn:D; [|reflexivity]. stuck Q Request. rewrite D. reflexivity. }
  assert (comp s = Idle) as C.
  { destruct (comp s) eqn:C; [reflexivity| | |].
    - stuck Q ReadFile. rewrite C. reflexivity.
    - stuck Q Store. rewrite C. reflexivity.
    - stuck Q Signal. rewrite C. reflexivity. }
  assert (token s = false) as T.
  { destruct (token s) eqn:T; [|reflexivity]. stuck Q TakeToken. rewrite C, T. reflexivity. }
  auto.
Qed.

(* once the server has nothing left to do (and is not shutting down): the last compile read the latest
   content, its result is the stored one, and every connected client has been sent exactly that result
   and is blocked waiting for the next one *)
Lemma thm_quiescent_delivered s :
  reachable s -> quiescent s = true -> cancelled s = false ->
  last_read s = fv s /\
  exists k, res s = Some (k, fv s) /\
    forall x, In x (clients s) -> live_conn x = true ->
      c_phase x = PWait /\ c_wake x = false /\ last_written x = Some (k, fv s).
Proof.
  intros R Q0 NC. pose proof (inv_reachable s R) as I. pose proof (i_p s I) as HP.
  pose proof (quiescent_spec s Q0) as Q.
  destruct (quiescent_pipeline s Q0) as [D [T C]].
  assert (last_read s = fv s) as LR.
  { pose proof (p_read_le s HP). destruct (N.eq_dec (last_read s) (fv s)) as [E|NE]; [assumption|].
    assert (last_read s < fv s) as Hlt by lia.
    destruct (p_pending s HP Hlt) as [Hp|[Hp|Hp]]; congruence. }
  split; [assumption|].
  pose proof (p_comp s HP) as CO. unfold comp_ok in CO. rewrite C in CO. unfold res_ver in CO.
  pose proof (p_fv1 s HP) as F1.
  destruct (res s) as [[k v]|] eqn:RS; [|lia].
  exists k. assert (v = fv s) as -> by lia. split; [reflexivity|].
  intros x Hx Live. unfold live_conn in Live.
  apply andb_prop in Live as [Live Hcnt]. apply andb_prop in Live as [Hconn Hbad].
  apply negb_true_iff in Hbad.
  pose proof (find_client_In _ x (i_nodup s I) Hx) as F.
  pose proof (i_c s I) as HC. rewrite Forall_forall in HC. specialize (HC x Hx).
  destruct (c_phase x) eqn:P; simpl in Hcnt; try discriminate.
  - stuck Q (Res101 (c_id x)). rewrite F, P, Hbad. reflexivity.
  - stuck Q (Register (c_id x)). rewrite F, P. reflexivity.
  - stuck Q (ClientRead (c_id x)). rewrite F, P, RS. reflexivity.
  - stuck Q (ClientWrite (c_id x)). rewrite F, P, Hconn. reflexivity.
  - destruct (c_wake x) eqn:W.
    + stuck Q (ClientWake (c_id x)). rewrite F, P, W. reflexivity.
    + split; [reflexivity|]. split; [reflexivity|].
      pose proof (c_fresh _ _ _ _ HC W) as Fr. rewrite C, P, RS in Fr. apply Fr. exact Logic.I.
Qed.

Lemma thm_quiescent_iff s :
  quiescent s = true <-> (forall l, external l = false -> step s l = None).
Proof.
  split.
  - intros Q l Hext. destruct (step s l) eqn:E; [|reflexivity]. exfalso. exact (quiescent_spec s Q l s0 Hext E).
  - apply quiescent_intro.
Qed.

(* ------------------------------------------------------------------ C44: quiescence is reached *)

Lemma internal_labels_not_external s l : In l (internal_labels s) -> external l = false.
Proof.
  unfold internal_labels. intros Hin. apply in_app_or in Hin as [Hin|Hin].
  - simpl in Hin. repeat (destruct Hin as [<-|Hin]; [reflexivity|]). destruct Hin.
  - apply in_flat_map in Hin as [x [_ Hl]]. simpl in Hl.
    repeat (destruct Hl as [<-|Hl]; [reflexivity|]). destruct Hl.
Qed.

Lemma reachable_step s l s' : reachable s -> step s l = Some s' -> reachable s'.
Proof.
  intros [ls H] St. exists (ls ++ [l]).
  revert H. generalize init. induction ls as [|a r IH]; simpl; intros s0 H.
  - inversion H; subst. rewrite St. reflexivity.
  - destruct (step s0 a) as [s1|]; [|discriminate]. apply IH. exact H.
Qed.

Lemma run_snoc s ls l s1 s2 : run s ls = Some s1 -> step s1 l = Some s2 -> run s (ls ++ [l]) = Some s2.
Proof.
  revert s. induction ls as [|a r IH]; simpl; intros s H St.
  - inversion H; subst. rewrite St. reflexivity.
  - destruct (step s a) as [s0|]; [|discriminate]. apply IH; assumption.
Qed.

Lemma reaches_quiescence_bounded n : forall s,
  reachable s -> (mu s <= n)%nat ->
  exists ls s', Forall (fun l => external l = false) ls /\ run s ls = Some s' /\ quiescent s' = true.
Proof.
  induction n as [|n IH]; intros s R Hn.
  - destruct (quiescent s) eqn:Q; [exists [], s; auto|]. exfalso.
    unfold quiescent, enabled_internal in Q.
    destruct (filter _ _) as [|l r] eqn:E; [discriminate|].
    assert (In l (l :: r)) as Hin by (left; reflexivity). rewrite <- E in Hin.
    apply filter_In in Hin as [Hin Hs]. destruct (step s l) as [s1|] eqn:St; [|discriminate].
    pose proof (thm_internal_step_decreases s l s1 R St (internal_labels_not_external s l Hin)). lia.
  - destruct (quiescent s) eqn:Q; [exists [], s; auto|].
    unfold quiescent, enabled_internal in Q.
    destruct (filter _ _) as [|l r] eqn:E; [discriminate|].
    assert (In l (l :: r)) as Hin by (left; reflexivity). rewrite <- E in Hin.
    apply filter_In in Hin as [Hin Hs]. destruct (step s l) as [s1|] eqn:St; [|discriminate].
    pose proof (internal_labels_not_external s l Hin) as Hext.
    pose proof (thm_internal_step_decreases s l s1 R St Hext) as Hd.
    destruct (IH s1 (reachable_step s l s1 R St)) as [ls [s' [F [Hr Hq]]]]; [lia|].
    exists (l :: ls), s'. split; [constructor; assumption|]. split; [|exact Hq].
    simpl. rewrite St. exact Hr.
Qed.

(* from every reachable state the server's own steps lead to a quiescent state (and by
   thm_internal_step_decreases every sequence of own steps is finite: at most mu s of them) *)
Lemma thm_reaches_quiescence s :
  reachable s ->
  exists ls s', Forall (fun l => external l = false) ls /\ run s ls = Some s' /\ quiescent s' = true.
Proof. intros R. apply (reaches_quiescence_bounded (mu s) s R). lia. Qed.

Lemma own_steps_bounded ls : forall s s',
  reachable s -> Forall (fun l => external l = false) ls -> run s ls = Some s' ->
  (length ls + mu s' <= mu s)%nat.
Proof.
  induction ls as [|l r IH]; simpl; intros s s' R F H.
  - inversion H; subst. lia.
  - destruct (step s l) as [s1|] eqn:St; [|discriminate]. inversion F; subst.
    pose proof (thm_internal_step_decreases s l s1 R St H2).
    pose proof (IH s1 s' (reachable_step s l s1 R St) H3 H). lia.
Qed.
