(* C44 — clause 11 (final delivery of the latest version after quiescence) on every history of the model
   and on every history the checker accepts: the liveness clause in the form Check.v evaluates it. *)
From Coq Require Import List NArith ZArith Bool Lia ZifyN ZifyNat ZifyBool.
Import ListNotations.
Require Import V.Lib.RunCases V.C44.Model V.C44.Accept V.C44.Check V.C44.Proofs V.C44.History.
Open Scope N_scope.

(* ---- a relation between the state reached and the history observed so far ---- *)

Definition good101 (s : state) (x : client) : Prop :=
  c_bad x = false /\
  match c_phase x with
  | PAccepted | PLoop | PHeld _ _ | PWait => True
  | PDone => cancelled s = true \/ c_conn x = false
  | _ => False
  end.

Record Rel (s : state) (os : list obs) : Prop := {
  r_latest : latest_version os = fv s;
  r_101 : forall c, In c (client_ids os) -> exists x, find_client c (clients s) = Some x /\ good101 s x;
  r_conn : forall c x, find_client c (clients s) = Some x -> c_conn x = false -> disconnected c os = true;
  r_called : close_called s = true -> shutting_down os = true;
  r_cancelled : cancelled s = true -> shutting_down os = true
}.

Lemma latest_app a b :
  latest_version (a ++ b) = fold_left (fun acc o => match o with OChange v => v | _ => acc end) b (latest_version a).
Proof. unfold latest_version. apply fold_left_app. Qed.

Lemma disconnected_app c a b : disconnected c (a ++ b) = disconnected c a || disconnected c b.
Proof. unfold disconnected. apply existsb_app. Qed.

Lemma shutting_app a b : shutting_down (a ++ b) = shutting_down a || shutting_down b.
Proof. unfold shutting_down. apply existsb_app. Qed.

Lemma rel_init : Rel init [].
Proof.
  constructor; simpl; try reflexivity; try discriminate; try tauto.
Qed.

Ltac find_simpl_in H :=
  repeat first
  [ rewrite find_upd in H by (intros ?; reflexivity)
  | rewrite find_snoc in H
  | rewrite find_signal in H ].

(* steps that touch neither the client list nor the flags: the relation is carried over *)
Lemma rel_same s s' os o :
  Rel s os -> fv s' = fv s -> clients s' = clients s -> cancelled s' = cancelled s ->
  close_called s' = close_called s ->
  client_ids o = [] -> latest_version (os ++ o) = latest_version os ->
  Rel s' (os ++ o).
Proof.
  intros [A1 A2 A3 A4 A5] Hfv Hcl Hcan Hcc Hid Hlat. constructor.
  - rewrite Hlat, Hfv. exact A1.
  - intros c Hc. rewrite client_ids_app, Hid, app_nil_r in Hc. destruct (A2 c Hc) as [x [F G]].
    exists x. rewrite Hcl. split; [exact F|]. unfold good101 in *. rewrite Hcan. exact G.
  - intros c x F Hn. rewrite Hcl in F. rewrite disconnected_app, (A3 c x F Hn). reflexivity.
  - rewrite Hcc. intros H. rewrite shutting_app, (A4 H). reflexivity.
  - rewrite Hcan. intros H. rewrite shutting_app, (A5 H). reflexivity.
Qed.

Lemma good101_mono_flags s s' x :
  (cancelled s = true -> cancelled s' = true) -> good101 s x -> good101 s' x.
Proof.
  intros Hc [G1 G2]. split; [exact G1|]. destruct (c_phase x); auto. destruct G2; auto.
Qed.

(* a step of one client: the client list is updated at c by f, nothing else the relation looks at changes *)
Lemma rel_upd s os c f x0 o w :
  Rel s os -> find_client c (clients s) = Some x0 ->
  (forall y, c_id (f y) = c_id y) -> (forall y, c_conn (f y) = c_conn y) ->
  (good101 s x0 -> good101 s (f x0)) ->
  (forall c', In c' (client_ids o) -> c' = c /\ good101 s (f x0)) ->
  latest_version (os ++ o) = latest_version os ->
  Rel (with_clients_wg s (upd_client c f (clients s)) w) (os ++ o).
Proof.
  intros [A1 A2 A3 A4 A5] F Hid Hconn Hgood Hnew Hlat.
  destruct (find_client_Some _ _ _ F) as [_ Ex0].
  constructor; simpl.
  - rewrite Hlat. exact A1.
  - intros c' Hc. rewrite client_ids_app in Hc. apply in_app_or in Hc as [Hc|Hc].
    + destruct (A2 c' Hc) as [x [Fx G]]. rewrite find_upd by exact Hid. rewrite Fx.
      eexists. split; [reflexivity|].
      destruct (c_id x =? c) eqn:E; [|exact G]. apply N.eqb_eq in E.
      destruct (find_client_Some _ _ _ Fx) as [_ Ex]. assert (c' = c) as -> by congruence.
      assert (x = x0) as -> by congruence. apply Hgood. exact G.
    + destruct (Hnew c' Hc) as [-> G]. rewrite find_upd by exact Hid. rewrite F, Ex0, N.eqb_refl.
      eexists. split; [reflexivity | exact G].
  - intros c' y Fy Hn. rewrite find_upd in Fy by exact Hid. rewrite disconnected_app.
    destruct (find_client c' (clients s)) as [x|] eqn:Fx; [|discriminate]. inversion Fy as [Ey]. clear Fy.
    rewrite <- Ey in Hn.
    assert (c_conn x = false) as Hx by (destruct (c_id x =? c); [rewrite Hconn in Hn|]; exact Hn).
    rewrite (A3 c' x Fx Hx). reflexivity.
  - intros Hcc. rewrite shutting_app, (A4 Hcc). reflexivity.
  - intros Hcc. rewrite shutting_app, (A5 Hcc). reflexivity.
Qed.

Definition client_label (l : label) (c : cid) : Prop :=
  l = Admit c \/ l = RejectH c \/ l = Res101 c \/ l = Res400 c \/ l = Res503 c \/ l = Register c \/
  l = ClientRead c \/ l = ClientWrite c \/ l = ClientWake c \/ l = ClientExit c.

Lemma rel_client_step s l s' os c :
  Inv s -> Rel s os -> step s l = Some s' -> client_label l c -> Rel s' (os ++ obs_of s l).
Proof.
  intros I R H CL. unfold client_label in CL.
  repeat (destruct CL as [->|CL]); try subst l; unfold obs_of, held_version; step_cases H;
    (eapply rel_upd; [exact R | exact F | intros ?; reflexivity | intros ?; reflexivity | | | ]);
    unfold good101; simpl; rewrite ?P;
    try (intros [_ []]; fail);
    try (intros ? []; fail);
    try (rewrite app_nil_r; reflexivity);
    try (rewrite latest_app; reflexivity);
    try tauto.
  - (* Res101: the new websocket client *)
    intros c' [<-|[]]. split; [reflexivity|]. split; [exact B | exact Logic.I].
  - (* ClientExit from PHeld *)
    intros [G _]. split; [exact G|]. apply orb_prop in B as [B|B]; [left; exact B | right].
    apply negb_true_iff in B. exact B.
  - (* ClientExit from PWait *)
    intros [G _]. split; [exact G|]. apply orb_prop in B as [B|B]; [left; exact B | right].
    apply negb_true_iff in B. exact B.
Qed.

(* one step *)
Lemma rel_step s l s' os :
  Inv s -> Rel s os -> step s l = Some s' -> Rel s' (os ++ obs_of s l).
Proof.
  intros I R H. pose proof R as [A1 A2 A3 A4 A5].
  destruct l; unfold obs_of, held_version.
  - (* Change *)
    step_cases H. constructor; simpl.
    + rewrite latest_app. simpl. try rewrite A1. reflexivity.
    + intros c Hc. rewrite client_ids_app in Hc. simpl in Hc. rewrite app_nil_r in Hc. exact (A2 c Hc).
    + intros c x F Hn. rewrite disconnected_app, (A3 c x F Hn). reflexivity.
    + intros Hcc. rewrite shutting_app, (A4 Hcc). reflexivity.
    + intros Hcc. rewrite shutting_app, (A5 Hcc). reflexivity.
  - (* ExtRequest *) step_cases H. apply (rel_same s _ os []); auto; rewrite app_nil_r; auto.
  - (* Attempt *)
    step_cases H. constructor; simpl.
    + rewrite latest_app. simpl. exact A1.
    + intros c0 Hc. rewrite client_ids_app in Hc. simpl in Hc. rewrite app_nil_r in Hc.
      destruct (A2 c0 Hc) as [x [Fx G]]. exists x. rewrite find_snoc, Fx. split; [reflexivity | exact G].
    + intros c0 x Fx Hn. rewrite find_snoc in Fx. rewrite disconnected_app.
      destruct (find_client c0 (clients s)) as [y|] eqn:Fy.
      * inversion Fx; subst. rewrite (A3 c0 x Fy Hn). reflexivity.
      * simpl in Fx. destruct (c =? c0); [inversion Fx; subst; simpl in Hn; discriminate Hn | discriminate Fx].
    + intros Hcc. rewrite shutting_app, (A4 Hcc). reflexivity.
    + intros Hcc. rewrite shutting_app, (A5 Hcc). reflexivity.
  - (* Disconnect *)
    step_cases H. constructor; simpl.
    + rewrite latest_app. simpl. exact A1.
    + intros c1 Hc. rewrite client_ids_app in Hc. simpl in Hc. rewrite app_nil_r in Hc.
      destruct (A2 c1 Hc) as [x [Fx G]]. rewrite find_upd by (intros ?; reflexivity). rewrite Fx.
      eexists. split; [reflexivity|].
      destruct (c_id x =? c); [|exact G]. destruct G as [G1 G2]. split; [exact G1|]. simpl.
      destruct (c_phase x); auto.
    + intros c1 x Fx Hn. rewrite find_upd in Fx by (intros ?; reflexivity). rewrite disconnected_app. simpl.
      destruct (find_client c1 (clients s)) as [y|] eqn:Fy; [|discriminate]. inversion Fx; subst. clear Fx.
      destruct (c_id y =? c) eqn:E.
      * apply N.eqb_eq in E. destruct (find_client_Some _ _ _ Fy) as [_ Ey].
        assert (c = c1) as -> by congruence. rewrite N.eqb_refl. simpl. apply orb_true_r.
      * rewrite (A3 c1 y Fy Hn). reflexivity.
    + intros Hcc. rewrite shutting_app, (A4 Hcc). reflexivity.
    + intros Hcc. rewrite shutting_app, (A5 Hcc). reflexivity.
  - (* CloseCall *)
    step_cases H. constructor; simpl.
    + rewrite latest_app. simpl. exact A1.
    + intros c Hc. rewrite client_ids_app in Hc. simpl in Hc. rewrite app_nil_r in Hc. exact (A2 c Hc).
    + intros c x F Hn. rewrite disconnected_app, (A3 c x F Hn). reflexivity.
    + intros _. rewrite shutting_app. simpl. apply orb_true_r.
    + intros Hcc. rewrite shutting_app, (A5 Hcc). reflexivity.
  - (* Cancel *)
    step_cases H. constructor; simpl.
    + rewrite latest_app. simpl. exact A1.
    + intros c Hc. rewrite client_ids_app in Hc. simpl in Hc. rewrite app_nil_r in Hc.
      destruct (A2 c Hc) as [x [F G]]. exists x. split; [exact F|].
      apply (good101_mono_flags s); [reflexivity | exact G].
    + intros c x F Hn. rewrite disconnected_app, (A3 c x F Hn). reflexivity.
    + intros _. rewrite shutting_app. simpl. apply orb_true_r.
    + intros _. rewrite shutting_app. simpl. apply orb_true_r.
  - (* Request *) step_cases H. apply (rel_same s _ os []); auto; rewrite app_nil_r; auto.
  - (* TakeToken *) step_cases H. apply (rel_same s _ os []); auto; rewrite app_nil_r; auto.
  - (* ReadFile *) step_cases H. apply (rel_same s _ os []); auto; rewrite app_nil_r; auto.
  - (* Store *) step_cases H. apply (rel_same s _ os []); auto; rewrite app_nil_r; auto.
  - (* Signal *)
    step_cases H. constructor; simpl.
    + rewrite latest_app. simpl. exact A1.
    + intros c Hc. rewrite client_ids_app in Hc. simpl in Hc. rewrite app_nil_r in Hc.
      destruct (A2 c Hc) as [x [F G]]. rewrite find_signal, F. eexists. split; [reflexivity|].
      destruct (registered (c_phase x)); exact G.
    + intros c x F Hn. rewrite find_signal in F. rewrite disconnected_app.
      destruct (find_client c (clients s)) as [y|] eqn:Fy; [|discriminate]. inversion F; subst.
      assert (c_conn y = false) as Hy by (destruct (registered (c_phase y)); exact Hn).
      rewrite (A3 c y Fy Hy). reflexivity.
    + intros Hcc. rewrite shutting_app, (A4 Hcc). reflexivity.
    + intros Hcc. rewrite shutting_app, (A5 Hcc). reflexivity.
  - (* Admit *) apply (rel_client_step s (Admit c) s' os c I R H); unfold client_label; tauto.
  - apply (rel_client_step s (RejectH c) s' os c I R H); unfold client_label; tauto.
  - apply (rel_client_step s (Res101 c) s' os c I R H); unfold client_label; tauto.
  - apply (rel_client_step s (Res400 c) s' os c I R H); unfold client_label; tauto.
  - apply (rel_client_step s (Res503 c) s' os c I R H); unfold client_label; tauto.
  - apply (rel_client_step s (Register c) s' os c I R H); unfold client_label; tauto.
  - apply (rel_client_step s (ClientRead c) s' os c I R H); unfold client_label; tauto.
  - apply (rel_client_step s (ClientWrite c) s' os c I R H); unfold client_label; tauto.
  - apply (rel_client_step s (ClientWake c) s' os c I R H); unfold client_label; tauto.
  - apply (rel_client_step s (ClientExit c) s' os c I R H); unfold client_label; tauto.
  - (* CloseBegin *)
    step_cases H. rewrite app_nil_r. apply andb_prop in B as [B1 B2]. constructor; simpl; auto.
    + intros c Hc. destruct (A2 c Hc) as [x [F G]]. exists x. split; [exact F|].
      apply (good101_mono_flags s); [reflexivity | exact G].
  - (* CloseReturn *)
    step_cases H. constructor; simpl.
    + rewrite latest_app. simpl. exact A1.
    + intros c Hc. rewrite client_ids_app in Hc. simpl in Hc. rewrite app_nil_r in Hc. exact (A2 c Hc).
    + intros c x F Hn. rewrite disconnected_app, (A3 c x F Hn). reflexivity.
    + intros Hcc. rewrite shutting_app, (A4 Hcc). reflexivity.
    + intros Hcc. rewrite shutting_app, (A5 Hcc). reflexivity.
Qed.

Lemma rel_project ls : forall s pre s' os,
  Inv s -> Rel s pre -> project s ls = Some (s', os) -> Rel s' (pre ++ os).
Proof.
  induction ls as [|l r IH]; simpl; intros s pre s' os I R H.
  - inversion H; subst. rewrite app_nil_r. exact R.
  - destruct (step s l) as [s1|] eqn:St; [|discriminate].
    destruct (project s1 r) as [[sf o2]|] eqn:E; [|discriminate]. inversion H; subst.
    rewrite app_assoc. apply (IH s1 (pre ++ obs_of s l) s' o2).
    + apply (inv_step s l); assumption.
    + apply rel_step; assumption.
    + exact E.
Qed.

Lemma last_opt_versions x : last_opt (versions x) = option_map snd (hd_error (c_written x)).
Proof.
  unfold last_opt, versions. rewrite rev_involutive. destruct (c_written x); reflexivity.
Qed.

Definition delivered_list (os : list obs) : bool :=
  forallb (fun c => disconnected c os
                    || opt_eqb N.eqb (last_opt (recvs c os)) (Some (latest_version os)))
          (client_ids os).

(* clause 11 on every history of the model that ends in a quiescent state without a shutdown *)
Lemma model_history_delivered ls s os :
  project init ls = Some (s, os) -> quiescent s = true -> shutting_down os = false ->
  delivered_list os = true.
Proof.
  intros P Q NS.
  assert (reachable s) as R by (exists ls; apply (project_run _ _ _ _ P)).
  pose proof (inv_reachable s R) as I.
  pose proof (rel_project ls init [] s os inv_init rel_init P) as [A1 A2 A3 A4 A5]. simpl in *.
  assert (cancelled s = false) as NC.
  { destruct (cancelled s) eqn:C; [|reflexivity]. rewrite (A5 eq_refl) in NS. discriminate. }
  destruct (thm_quiescent_delivered s R Q NC) as [_ [k [_ HD]]].
  unfold delivered_list. apply forallb_forall. intros c Hc.
  destruct (A2 c Hc) as [x [F [Gb Gp]]].
  destruct (disconnected c os) eqn:D; [reflexivity|]. simpl.
  assert (c_conn x = true) as Hconn.
  { destruct (c_conn x) eqn:Cn; [reflexivity|]. rewrite (A3 c x F Cn) in D. discriminate. }
  destruct (find_client_Some _ _ _ F) as [Hx _].
  assert (live_conn x = true) as Live.
  { unfold live_conn. rewrite Hconn, Gb. simpl.
    destruct (c_phase x); simpl; try reflexivity; try (destruct Gp; fail).
    destruct Gp; congruence. }
  destruct (HD x Hx Live) as [_ [_ LW]].
  pose proof (project_recvs init ls s os c P) as E. unfold versions_c in E. simpl in E. rewrite F in E.
  rewrite <- E, last_opt_versions. unfold last_written in LW. rewrite LW. simpl.
  rewrite A1. apply N.eqb_refl.
Qed.

(* ---- on the raw history the checker is given ---- *)
Lemma disconnected_norm c h : disconnected c (flat_map norm_obs h) = disconnected c h.
Proof.
  induction h as [|o r IH]; simpl; [reflexivity|]. rewrite disconnected_app, IH.
  destruct o; simpl; rewrite ?orb_false_r; try reflexivity.
  destruct ((code =? 101) || (code =? 503)); reflexivity.
Qed.

Lemma shutting_norm h : shutting_down (flat_map norm_obs h) = shutting_down h.
Proof.
  induction h as [|o r IH]; simpl; [reflexivity|]. rewrite shutting_app, IH.
  destruct o; simpl; rewrite ?orb_false_r; try reflexivity.
  destruct ((code =? 101) || (code =? 503)); reflexivity.
Qed.

Lemma latest_norm_from h : forall cur,
  fold_left (fun acc o => match o with OChange v => v | _ => acc end) (flat_map norm_obs h) cur =
  fold_left (fun acc o => match o with OChange v => v | _ => acc end) h cur.
Proof.
  induction h as [|o r IH]; simpl; intros cur; [reflexivity|]. rewrite fold_left_app, IH.
  destruct o; simpl; try reflexivity. destruct ((code =? 101) || (code =? 503)); reflexivity.
Qed.

Lemma latest_norm h : latest_version (flat_map norm_obs h) = latest_version h.
Proof. apply latest_norm_from. Qed.

Lemma delivered_list_norm h : delivered_list (flat_map norm_obs h) = delivered_list h.
Proof.
  unfold delivered_list. rewrite client_ids_norm, latest_norm.
  induction (client_ids h) as [|c r IH]; simpl; [reflexivity|].
  rewrite disconnected_norm, recvs_norm, IH. reflexivity.
Qed.
