(* C44 — Watch mode always delivers the latest result to every client.  Statements only.
   Model: coq/C44/Model.v (LTS transcribed from d2cli/watch.go).  [reachable s] = some list of labels
   leads from [init] to s; nothing bounds the number of changes, requests, clients or disconnects. *)
From Coq Require Import List NArith ZArith Bool.
Import ListNotations.
Require Import V.C44.Model V.C44.Accept V.C44.Check V.C44.Proofs V.C44.History V.C44.Delivered V.C44.Shape.
Open Scope N_scope.

(* Compile requests are coalesced but never lost: whenever the file content is newer than what the last
   compile read, a request is pending — the burst timer is armed (watchLoop will call requestCompile), or
   the token sits in compileCh, or the compile loop holds the token and has not read the file yet. *)
Theorem C44_inv_pending :
  forall s, reachable s -> last_read s < fv s ->
    dirty s = true \/ token s = true \/ comp s = Taken.
Proof. exact thm_inv_pending. Qed.

(* Each client's deliveries (newest first) never increase towards the past, in compile index and in content
   version: never an older result after a newer one. *)
Theorem C44_client_monotone :
  forall s x, reachable s -> In x (clients s) -> wsorted (c_written x).
Proof. exact thm_client_monotone. Qed.

(* Results are received in compile order: every delivered (k, v) is the k-th entry of the sequence of
   compile results, and the delivered indices are ordered as above. *)
Theorem C44_client_results_in_compile_order :
  forall s x, reachable s -> In x (clients s) ->
    wsorted (c_written x) /\
    forall k v, In (k, v) (c_written x) -> nth_error (compile_seq s) (N.to_nat k) = Some (k, v).
Proof. exact thm_results_in_compile_order. Qed.

(* Compile results are themselves ordered by content version and never ahead of the file. *)
Theorem C44_compile_versions :
  forall s, reachable s -> clog_ok (clog s) /\ forall e, In e (clog s) -> 1 <= snd e <= fv s.
Proof. exact thm_compile_versions. Qed.

(* Liveness without temporal logic, part 1: every step the server takes on its own strictly decreases a
   natural-number measure, so after the last change/connect/disconnect only finitely many steps follow. *)
Theorem C44_internal_step_decreases :
  forall s l s', reachable s -> step s l = Some s' -> external l = false -> (mu s' < mu s)%nat.
Proof. exact thm_internal_step_decreases. Qed.

(* part 2: when none of the server's steps is enabled any more (and it is not shutting down), the last
   compile read the latest content, its result is the stored one, and every connected client has received
   exactly that result as its last message. *)
Theorem C44_quiescent_delivered :
  forall s, reachable s -> quiescent s = true -> cancelled s = false ->
    last_read s = fv s /\
    exists k, res s = Some (k, fv s) /\
      forall x, In x (clients s) -> live_conn x = true ->
        c_phase x = PWait /\ c_wake x = false /\ last_written x = Some (k, fv s).
Proof. exact thm_quiescent_delivered. Qed.

(* [quiescent] really means "no step of the server is enabled". *)
Theorem C44_quiescent_iff :
  forall s, quiescent s = true <-> (forall l, external l = false -> step s l = None).
Proof. exact thm_quiescent_iff. Qed.

(* The very predicates Check.v evaluates on the implementation's history hold on every history of the
   model (observable projection of any run): clause 10 (monotone delivery) and clause 12 (only genuine,
   already written versions are delivered). *)
Theorem C44_model_histories_monotone :
  forall ls s os, project init ls = Some (s, os) -> monotone_b os = true.
Proof. exact model_history_monotone. Qed.

Theorem C44_model_histories_genuine :
  forall ls s os, project init ls = Some (s, os) -> genuine_from 1 os = true.
Proof. exact model_history_genuine. Qed.

(* part 3: from every reachable state the server's own steps do lead to such a state, and every sequence of
   own steps is finite (at most mu s of them): once the environment stops, every fair run gets there. *)
Theorem C44_reaches_quiescence :
  forall s, reachable s ->
    exists ls s', Forall (fun l => external l = false) ls /\ run s ls = Some s' /\ quiescent s' = true.
Proof. exact thm_reaches_quiescence. Qed.

Theorem C44_own_steps_bounded :
  forall ls s s', reachable s -> Forall (fun l => external l = false) ls -> run s ls = Some s' ->
    (length ls + mu s' <= mu s)%nat.
Proof. exact own_steps_bounded. Qed.

(* A history that passes the checker's trace-inclusion test (witness re-executed by [validate]) is a
   history of the model, so it satisfies clauses 10 and 12, and it leads to a reachable model state in which
   every client has received exactly what the history records (from where the three parts above apply). *)
Theorem C44_accepted_history_safe :
  forall h w, validate h w = true -> monotone_b h = true /\ genuine_from 1 h = true.
Proof. exact accepted_history_safe. Qed.

Theorem C44_accepted_history_reachable :
  forall h w, validate h w = true ->
    exists s, reachable s /\ (forall c, versions_c s c = recvs c h).
Proof. exact accepted_history_reachable. Qed.

(* Clause 11 (the liveness clause as Check.v evaluates it): on every history of the model that ends in a
   quiescent state without shutdown, every client that was upgraded and has not been disconnected by the
   harness has the latest written version as its last reception ... *)
Theorem C44_model_histories_delivered :
  forall ls s os, project init ls = Some (s, os) -> quiescent s = true -> shutting_down os = false ->
    delivered_list os = true.
Proof. exact model_history_delivered. Qed.

(* The shape of the current watch.go (regenerated into coq/Gen/WatchShape.v on every run) is the one the
   model transcribes: channel capacities 1 with non-blocking sends, result stored before the clients are
   signalled, signalling under the clients mutex, result re-read after every wake-up. *)
Theorem C44_code_shape_as_modelled : shape_c44.
Proof. exact watch_shape_c44. Qed.

(* non-vacuity: a run with two changes (the second while the first compile is in flight), one client,
   ending quiescent and not shutting down, with the client holding version 3 *)
Definition example_run : list label :=
  [Attempt 1 false; Admit 1; Res101 1; Register 1; ClientRead 1;
   TakeToken; Change; ReadFile; Change; Request; Store; Signal; ClientWake 1; ClientRead 1; ClientWrite 1;
   TakeToken; ReadFile; Store; Signal; ClientWake 1; ClientRead 1; ClientWrite 1].

Example C44_quiescent_satisfiable :
  exists s, run init example_run = Some s /\ quiescent s = true /\ cancelled s = false /\ fv s = 3 /\
            exists x, find_client 1 (clients s) = Some x /\ live_conn x = true /\ versions x = [2; 3].
Proof. eexists. split; [vm_compute; reflexivity|]. vm_compute. repeat split. eexists. repeat split. Qed.

Example C44_pending_satisfiable :
  exists s, run init [TakeToken; ReadFile; Change] = Some s /\ last_read s < fv s.
Proof. eexists. split; [vm_compute; reflexivity|]. vm_compute. reflexivity. Qed.

Example C44_step_satisfiable :
  exists s', step init TakeToken = Some s' /\ external TakeToken = false.
Proof. eexists. split; reflexivity. Qed.

Example C44_project_satisfiable :
  exists s os, project init example_run = Some (s, os) /\
    os = [OAttempt 1 false; ORes 1 101; OChange 2; OChange 3; OSignal 1; ORecv 1 2; OSignal 1; ORecv 1 3].
Proof. eexists. eexists. split; vm_compute; reflexivity. Qed.

Example C44_delivered_satisfiable :
  exists s os, project init example_run = Some (s, os) /\ quiescent s = true /\ shutting_down os = false.
Proof. eexists. eexists. split; [vm_compute; reflexivity|]. vm_compute. split; reflexivity. Qed.

Example C44_validate_satisfiable :
  let h := [OAttempt 1 false; ORes 1 101; OChange 2; OSignal 1; ORecv 1 2; OQuiesce] in
  match accept 1000 h with Accepted w => validate h w = true | _ => False end.
Proof. vm_compute. reflexivity. Qed.

Print Assumptions C44_inv_pending.
Print Assumptions C44_client_monotone.
Print Assumptions C44_client_results_in_compile_order.
Print Assumptions C44_compile_versions.
Print Assumptions C44_internal_step_decreases.
Print Assumptions C44_quiescent_delivered.
Print Assumptions C44_quiescent_iff.
Print Assumptions C44_model_histories_monotone.
Print Assumptions C44_model_histories_genuine.
Print Assumptions C44_accepted_history_safe.
Print Assumptions C44_accepted_history_reachable.
Print Assumptions C44_reaches_quiescence.
Print Assumptions C44_own_steps_bounded.
Print Assumptions C44_model_histories_delivered.
Print Assumptions C44_code_shape_as_modelled.
