(* Executable checker for C44 cases: one case = the history of one session with the real watcher. *)
From Coq Require Import List NArith ZArith Bool.
Import ListNotations.
Require Import V.Lib.RunCases V.C44.Model.
Require Export V.C44.Accept.
Open Scope N_scope.

Inductive case := Case (h : list obs).

(* ---- the property's safety clauses, evaluated on the implementation's own history ---- *)

(* versions client c received, oldest first *)
Definition recvs (c : N) (h : list obs) : list N :=
  flat_map (fun o => match o with ORecv d v => if d =? c then [v] else [] | _ => [] end) h.

Fixpoint nondecreasing (l : list N) : bool :=
  match l with
  | a :: ((b :: _) as r) => (a <=? b) && nondecreasing r
  | _ => true
  end.

Definition client_ids (h : list obs) : list N :=
  flat_map (fun o => match o with ORes c code => if code =? 101 then [c] else [] | _ => [] end) h.

Definition disconnected (c : N) (h : list obs) : bool :=
  existsb (fun o => match o with ODisconnect d => d =? c | _ => false end) h.

Definition latest_version (h : list obs) : N :=
  fold_left (fun acc o => match o with OChange v => v | _ => acc end) h 1.

Definition last_opt (l : list N) : option N := hd_error (rev l).

(* 10: no client receives an older result after a newer one *)
Definition monotone_b (h : list obs) : bool :=
  forallb (fun c => nondecreasing (recvs c h)) (client_ids h).

(* 12: every received result is a compile of a version that had been written by then (never 0 / future) *)
Fixpoint genuine_from (cur : N) (h : list obs) : bool :=
  match h with
  | [] => true
  | OChange v :: r => genuine_from v r
  | ORecv _ v :: r => (1 <=? v) && (v <=? cur) && genuine_from cur r
  | _ :: r => genuine_from cur r
  end.

(* 11: when the session ends quiescent, every client still connected holds the latest version *)
Definition delivered_b (h : list obs) : bool :=
  if ends_quiescent h then
    forallb (fun c => disconnected c h
                      || opt_eqb N.eqb (last_opt (recvs c h)) (Some (latest_version h)))
            (client_ids h)
  else true.

Definition shutting_down (h : list obs) : bool :=
  existsb (fun o => match o with OCloseCall | OCancel => true | _ => false end) h.

Definition check_with (fuel : nat) (c : case) : list N :=
  match c with
  | Case h =>
      (match accept fuel h with
       | Accepted w => flag (validate h w) 1
       | Rejected _ => [1]
       | OutOfFuel => [3]
       end)
      ++ flag (monotone_b h) 10
      ++ flag (delivered_b h || shutting_down h) 11
      ++ flag (genuine_from 1 h) 12
  end.

(* the search budget is passed as an argument so that type checking never unfolds it *)
Definition check_case (c : case) : list N := check_with (N.to_nat 300000) c.
