(* Trace inclusion, executable: is an observed history (what the harness did to the real watcher and what
   its websocket clients received) the observable projection of some run of the model?

   On-the-fly subset construction: a set of model configurations, closed under the steps the harness cannot
   see, advanced by each observed event.  Every configuration carries the label list that produced it, so
   the answer comes with a witness run, and [validate] re-executes that witness with [Model.run] and
   re-projects it: the search itself is not trusted (Proofs.accept_valid). *)
From Coq Require Import List NArith ZArith Bool FMapPositive.
Import ListNotations.
Require Import V.C44.Model.
Open Scope N_scope.

Inductive obs :=
| OChange (v : N)             (* the harness overwrote the input file with version v *)
| OAttempt (c : N) (bad : bool) (* the harness sent GET /watch for client c *)
| ORes (c : N) (code : N)     (* HTTP status of the answer: 101, 503, other *)
| ORecv (c : N) (v : N)       (* client c received a compile result whose SVG shows version v (0 = none) *)
| ODisconnect (c : N)
| OCloseCall | OCancel
| OCloseReturn (handlers : N) (* close()/Run returned; client-handler goroutines alive at that moment *)
| OQuiesce                    (* the harness stopped acting and recording; says nothing about the server's state:
                                 clause 11 of Check.v is evaluated on the receptions recorded so far *)
| OSignal (n : N)             (* the watcher logged "broadcasting update to n clients" (printed by broadcast
                                 under wsclientsMu, after storing w.res, before the signalling loop) *)
| OPoll.                      (* 10 s of the session have passed: watchLoop's poll ticker may request a compile *)

(* ---- decidable equality of states ---- *)
Definition pair_eqb (a b : N * N) : bool := (fst a =? fst b) && (snd a =? snd b).
Fixpoint plist_eqb (a b : list (N * N)) : bool :=
  match a, b with
  | [], [] => true
  | x :: r, y :: t => pair_eqb x y && plist_eqb r t
  | _, _ => false
  end.
Definition comp_eqb (a b : comp_state) : bool :=
  match a, b with
  | Idle, Idle | Taken, Taken => true
  | Compiling v, Compiling w => v =? w
  | Storing k v, Storing j w => (k =? j) && (v =? w)
  | _, _ => false
  end.
Definition phase_eqb (a b : phase) : bool :=
  match a, b with
  | PPending, PPending | PRejected, PRejected | PAdmitted, PAdmitted | PAccepted, PAccepted
  | PLoop, PLoop | PWait, PWait | PDone, PDone => true
  | PHeld k v, PHeld j w => (k =? j) && (v =? w)
  | _, _ => false
  end.
Definition client_eqb (a b : client) : bool :=
  (c_id a =? c_id b) && Bool.eqb (c_bad a) (c_bad b) && phase_eqb (c_phase a) (c_phase b)
  && Bool.eqb (c_wake a) (c_wake b) && Bool.eqb (c_conn a) (c_conn b)
  && plist_eqb (c_written a) (c_written b).
Fixpoint clist_eqb (a b : list client) : bool :=
  match a, b with
  | [], [] => true
  | x :: r, y :: t => client_eqb x y && clist_eqb r t
  | _, _ => false
  end.
Definition ores_eqb (a b : option (N * N)) : bool :=
  match a, b with
  | None, None => true
  | Some x, Some y => pair_eqb x y
  | _, _ => false
  end.
Definition state_eqb (a b : state) : bool :=
  (fv a =? fv b) && Bool.eqb (dirty a) (dirty b) && Bool.eqb (token a) (token b)
  && comp_eqb (comp a) (comp b) && (last_read a =? last_read b) && ores_eqb (res a) (res b)
  && Bool.eqb (close_called a) (close_called b) && Bool.eqb (closing a) (closing b)
  && Bool.eqb (cancelled a) (cancelled b) && Bool.eqb (returned a) (returned b)
  && (wg a =? wg b)%Z && clist_eqb (clients a) (clients b) && plist_eqb (clog a) (clog b).

(* Equality up to the ghost components (compile indices, clog, written lists): no step's enabledness and
   no observable depends on them, so one representative per class is enough for the search. *)
Definition comp_abs_eqb (a b : comp_state) : bool :=
  match a, b with
  | Idle, Idle | Taken, Taken => true
  | Compiling v, Compiling w => v =? w
  | Storing _ v, Storing _ w => v =? w
  | _, _ => false
  end.
Definition phase_abs_eqb (a b : phase) : bool :=
  match a, b with
  | PPending, PPending | PRejected, PRejected | PAdmitted, PAdmitted | PAccepted, PAccepted
  | PLoop, PLoop | PWait, PWait | PDone, PDone => true
  | PHeld _ v, PHeld _ w => v =? w
  | _, _ => false
  end.
Definition client_abs_eqb (a b : client) : bool :=
  (c_id a =? c_id b) && Bool.eqb (c_bad a) (c_bad b) && phase_abs_eqb (c_phase a) (c_phase b)
  && Bool.eqb (c_wake a) (c_wake b) && Bool.eqb (c_conn a) (c_conn b).
Fixpoint clist_abs_eqb (a b : list client) : bool :=
  match a, b with
  | [], [] => true
  | x :: r, y :: t => client_abs_eqb x y && clist_abs_eqb r t
  | _, _ => false
  end.
Definition ores_abs_eqb (a b : option (N * N)) : bool :=
  match a, b with
  | None, None => true
  | Some x, Some y => snd x =? snd y
  | _, _ => false
  end.
Definition state_abs_eqb (a b : state) : bool :=
  (fv a =? fv b) && Bool.eqb (dirty a) (dirty b) && Bool.eqb (token a) (token b)
  && comp_abs_eqb (comp a) (comp b) && (last_read a =? last_read b) && ores_abs_eqb (res a) (res b)
  && Bool.eqb (close_called a) (close_called b) && Bool.eqb (closing a) (closing b)
  && Bool.eqb (cancelled a) (cancelled b) && Bool.eqb (returned a) (returned b)
  && (wg a =? wg b)%Z && clist_abs_eqb (clients a) (clients b).

(* ---- hidden steps ---- *)
Definition hidden_client_labels (x : client) : list label :=
  let c := c_id x in
  [Admit c; RejectH c; Register c; ClientRead c; ClientWake c; ClientExit c].

Definition hidden_labels (s : state) : list label :=
  [Request; TakeToken; ReadFile; Store; CloseBegin]
  ++ flat_map hidden_client_labels (clients s).

(* state, labels that led to it from init (newest first), poll requests still allowed *)
Definition cfg := (state * list label * nat)%type.
Definition st (x : cfg) : state := fst (fst x).
Definition tr (x : cfg) : list label := snd (fst x).
Definition polls (x : cfg) : nat := snd x.

(* Search key: the configuration up to its ghost components (compile indices, clog, written lists, the
   label list), as a self-delimiting bit string packed into a positive.  No step's enabledness and no
   observable depends on the ghost parts, so one representative per key is enough for the search.
   (The search is not trusted: its answer is a witness run that [validate] re-executes.) *)
Definition push (b : bool) (acc : positive) : positive := if b then xI acc else xO acc.
Fixpoint enc_p (p : positive) (acc : positive) : positive :=
  match p with
  | xH => push false acc
  | xO q => enc_p q (push false (push true acc))
  | xI q => enc_p q (push true (push true acc))
  end.
Definition enc_N (n : N) (acc : positive) : positive :=
  match n with N0 => push false acc | Npos p => enc_p p (push true acc) end.
Definition enc_comp (c : comp_state) (acc : positive) : positive :=
  match c with
  | Idle => enc_N 0 acc
  | Taken => enc_N 1 acc
  | Compiling v => enc_N v (enc_N 2 acc)
  | Storing _ v => enc_N v (enc_N 3 acc)
  end.
Definition enc_phase (p : phase) (acc : positive) : positive :=
  match p with
  | PPending => enc_N 0 acc | PRejected => enc_N 1 acc | PAdmitted => enc_N 2 acc
  | PAccepted => enc_N 3 acc | PLoop => enc_N 4 acc | PWait => enc_N 5 acc | PDone => enc_N 6 acc
  | PHeld _ v => enc_N v (enc_N 7 acc)
  end.
Definition enc_client (x : client) (acc : positive) : positive :=
  push (c_conn x) (push (c_wake x) (enc_phase (c_phase x) (push (c_bad x) (enc_N (c_id x) (push true acc))))).
Definition enc_state (s : state) (acc : positive) : positive :=
  let a := enc_N (fv s) acc in
  let a := push (dirty s) a in
  let a := push (token s) a in
  let a := enc_comp (comp s) a in
  let a := enc_N (last_read s) a in
  let a := match res s with None => push false a | Some kv => enc_N (snd kv) (push true a) end in
  let a := push (close_called s) (push (closing s) (push (cancelled s) (push (returned s) a))) in
  let a := enc_N (Z.abs_N (wg s)) (push (wg s <? 0)%Z a) in
  push false (fold_left (fun a x => enc_client x a) (clients s) a).
Definition key (x : cfg) : positive := enc_state (st x) (enc_N (N.of_nat (polls x)) xH).

Definition seen_set := PositiveMap.t unit.

Fixpoint add_new (cands : list cfg) (seen : seen_set) (acc : list cfg) : seen_set * list cfg :=
  (* returns (seen', newly added) *)
  match cands with
  | [] => (seen, rev acc)
  | x :: r => let k := key x in
              if PositiveMap.mem k seen then add_new r seen acc
              else add_new r (PositiveMap.add k tt seen) (x :: acc)
  end.

Definition succs (x : cfg) (ls : list label) : list cfg :=
  flat_map (fun l => match step (st x) l with Some s' => [(s', l :: tr x, polls x)] | None => [] end) ls.

Definition hidden_succs (x : cfg) : list cfg :=
  succs x (hidden_labels (st x))
  ++ match polls x with
     | S p => match step (st x) ExtRequest with
              | Some s' => [(s', ExtRequest :: tr x, p)]
              | None => []
              end
     | O => []
     end.

(* worklist: [todo] still to expand, [done] expanded; every configuration ever queued has its key in [seen] *)
Fixpoint closure (fuel : nat) (todo done : list cfg) (seen : seen_set) : option (list cfg) :=
  match todo with
  | [] => Some done
  | x :: rest =>
      match fuel with
      | O => None
      | S f =>
          let '(seen', new) := add_new (hidden_succs x) seen [] in
          closure f (new ++ rest) (x :: done) seen'
      end
  end.

Definition close_set (fuel : nat) (l : list cfg) : option (list cfg) :=
  let '(seen, new) := add_new l (PositiveMap.empty unit) [] in closure fuel new [] seen.

(* ---- observed steps ---- *)
Definition held_version (s : state) (c : cid) : option ver :=
  match find_client c (clients s) with
  | Some x => match c_phase x with PHeld _ v => Some v | _ => None end
  | None => None
  end.

Definition count_registered (s : state) : N :=
  N.of_nat (length (filter (fun x => registered (c_phase x)) (clients s))).

Definition obs_step (o : obs) (x : cfg) : list cfg :=
  let s := st x in
  let via l := succs x [l] in
  match o with
  | OChange v => filter (fun y => fv (st y) =? v) (via Change)
  | OAttempt c bad => via (Attempt c bad)
  | ORes c code =>
      if code =? 101 then via (Res101 c) else if code =? 503 then via (Res503 c) else via (Res400 c)
  | ORecv c v =>
      match held_version s c with
      | Some w => if w =? v then via (ClientWrite c) else []
      | None => []
      end
  | ODisconnect c => via (Disconnect c)
  | OCloseCall => via CloseCall
  | OCancel => via Cancel
  | OCloseReturn _ => via CloseReturn
  | OQuiesce => [x]
  | OSignal n => if count_registered s =? n then via Signal else []
  | OPoll => [(st x, tr x, S (polls x))]
  end.

(* result: Some (inl cfgs) all consumed; position of the first event nobody can explain otherwise *)
Inductive verdict :=
| Accepted (witness : cfg)
| Rejected (position : nat)
| OutOfFuel.

Fixpoint accept_from (fuel : nat) (pos : nat) (set : list cfg) (h : list obs) : verdict :=
  match h with
  | [] => match set with x :: _ => Accepted x | [] => Rejected pos end
  | o :: r =>
      match close_set fuel (flat_map (obs_step o) set) with
      | None => OutOfFuel
      | Some [] => Rejected pos
      | Some set' => accept_from fuel (S pos) set' r
      end
  end.

Definition accept (fuel : nat) (h : list obs) : verdict :=
  match close_set fuel [(init, [], O)] with
  | None => OutOfFuel
  | Some set => accept_from fuel 0 set h
  end.

(* ---- the observable projection of a run (independent of the search) ---- *)
Definition obs_of (s : state) (l : label) : list obs :=
  match l with
  | Change => [OChange (fv s + 1)]
  | Attempt c bad => [OAttempt c bad]
  | Res101 c => [ORes c 101]
  | Res503 c => [ORes c 503]
  | Res400 c => [ORes c 400]
  | ClientWrite c => match held_version s c with Some v => [ORecv c v] | None => [] end
  | Disconnect c => [ODisconnect c]
  | CloseCall => [OCloseCall]
  | Cancel => [OCancel]
  | CloseReturn => [OCloseReturn 0]
  | Signal => [OSignal (count_registered s)]
  | _ => []
  end.

Fixpoint project (s : state) (ls : list label) : option (state * list obs) :=
  match ls with
  | [] => Some (s, [])
  | l :: r =>
      match step s l with
      | Some s' => match project s' r with
                   | Some (sf, os) => Some (sf, obs_of s l ++ os)
                   | None => None
                   end
      | None => None
      end
  end.

(* what is compared: status codes other than 101/503 are one class; OQuiesce and the handler count of
   OCloseReturn are claims ABOUT the state, checked separately *)
Definition norm_obs (o : obs) : list obs :=
  match o with
  | ORes c code => if (code =? 101) || (code =? 503) then [o] else [ORes c 400]
  | OCloseReturn _ => [OCloseReturn 0]
  | OQuiesce | OPoll => []
  | _ => [o]
  end.

Definition obs_eqb (a b : obs) : bool :=
  match a, b with
  | OChange v, OChange w => v =? w
  | OAttempt c x, OAttempt d y => (c =? d) && Bool.eqb x y
  | ORes c x, ORes d y => (c =? d) && (x =? y)
  | ORecv c x, ORecv d y => (c =? d) && (x =? y)
  | ODisconnect c, ODisconnect d => c =? d
  | OCloseCall, OCloseCall | OCancel, OCancel | OQuiesce, OQuiesce => true
  | OCloseReturn x, OCloseReturn y => x =? y
  | OSignal x, OSignal y => x =? y
  | OPoll, OPoll => true
  | _, _ => false
  end.
Fixpoint olist_eqb (a b : list obs) : bool :=
  match a, b with
  | [], [] => true
  | x :: r, y :: t => obs_eqb x y && olist_eqb r t
  | _, _ => false
  end.

Definition ends_quiescent (h : list obs) : bool :=
  match rev h with OQuiesce :: _ => true | _ => false end.

(* the witness really is a run of the model with the observed projection *)
Definition validate (h : list obs) (w : cfg) : bool :=
  match project init (rev (tr w)) with
  | Some (sf, os) =>
      olist_eqb os (flat_map norm_obs h)
      && state_eqb sf (st w)
      && Nat.leb (length (filter (fun l => match l with ExtRequest => true | _ => false end) (tr w)))
                 (length (filter (fun o => match o with OPoll => true | _ => false end) h))
  | None => false
  end.
