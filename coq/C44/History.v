(* C44 — the safety clauses that Check.v evaluates on the implementation's history hold for every history
   of the model (every observable projection of every run), and therefore for every history the trace
   acceptor validates. *)
From Coq Require Import List NArith ZArith Bool Lia ZifyN ZifyNat ZifyBool.
Import ListNotations.
Require Import V.Lib.RunCases V.C44.Model V.C44.Accept V.C44.Check V.C44.Proofs.
Open Scope N_scope.

(* ---- lookups in updated client lists ---- *)

Lemma find_upd c' c f l : pres_id f ->
  find_client c' (upd_client c f l) =
  match find_client c' l with Some x => Some (if c_id x =? c then f x else x) | None => None end.
Proof.
  intros Hf. induction l as [|y r IH]; simpl; [reflexivity|].
  destruct (c_id y =? c) eqn:E.
  - rewrite Hf. destruct (c_id y =? c'); [rewrite E; reflexivity | exact IH].
  - destruct (c_id y =? c'); [rewrite E; reflexivity | exact IH].
Qed.

Lemma find_snoc c l n :
  find_client c (l ++ [n]) =
  match find_client c l with Some x => Some x | None => if c_id n =? c then Some n else None end.
Proof.
  induction l as [|y r IH]; simpl; [reflexivity|]. destruct (c_id y =? c); [reflexivity | exact IH].
Qed.

Lemma find_signal c l :
  find_client c (signal_all l) =
  match find_client c l with
  | Some x => Some (if registered (c_phase x) then set_wake true x else x)
  | None => None
  end.
Proof.
  unfold signal_all. induction l as [|y r IH]; simpl; [reflexivity|].
  assert (c_id (if registered (c_phase y) then set_wake true y else y) = c_id y) as ->
    by (destruct (registered (c_phase y)); reflexivity).
  destruct (c_id y =? c); [reflexivity | exact IH].
Qed.

(* ---- what client c has received, read off the state ---- *)

Definition versions_c (s : state) (c : cid) : list ver :=
  match find_client c (clients s) with Some x => versions x | None => [] end.

Lemma recvs_app c a b : recvs c (a ++ b) = recvs c a ++ recvs c b.
Proof. unfold recvs. apply flat_map_app. Qed.

Ltac find_simpl :=
  repeat match goal with
  | |- context [find_client _ (upd_client _ _ _)] => rewrite find_upd by (intros ?; reflexivity)
  | |- context [find_client _ (_ ++ [_])] => rewrite find_snoc
  | |- context [find_client _ (signal_all _)] => rewrite find_signal
  end.

Lemma step_recvs s l s' c :
  step s l = Some s' -> versions_c s' c = versions_c s c ++ recvs c (obs_of s l).
Proof.
  intros H. unfold versions_c.
  destruct l; unfold obs_of, held_version;
    step_cases H; simpl; find_simpl; rewrite ?app_nil_r; try reflexivity;
    try (destruct (find_client c (clients s)) as [y|] eqn:Fc; [|reflexivity];
         destruct (c_id y =? _); reflexivity).
  - (* Attempt *)
    destruct (find_client c (clients s)); [reflexivity|]. simpl. destruct (c0 =? c); reflexivity.
  - (* Signal *)
    destruct (find_client c (clients s)) as [y|]; [|reflexivity]. destruct (registered (c_phase y)); reflexivity.
  - (* ClientWrite *)
    destruct (find_client c (clients s)) as [y|] eqn:Fc.
    + destruct (c_id y =? c0) eqn:E.
      * apply N.eqb_eq in E. destruct (find_client_Some _ _ _ Fc) as [_ Ey].
        assert (c0 = c) as -> by congruence. rewrite N.eqb_refl.
        assert (y = c1) as -> by congruence. unfold versions. simpl. reflexivity.
      * destruct (c0 =? c) eqn:E2; [|rewrite app_nil_r; reflexivity].
        apply N.eqb_eq in E2. subst c0. destruct (find_client_Some _ _ _ Fc) as [_ Ey].
        apply N.eqb_neq in E. congruence.
    + destruct (c0 =? c) eqn:E2; [|reflexivity]. apply N.eqb_eq in E2. subst c0. congruence.
Qed.

Lemma project_run s ls s' os : project s ls = Some (s', os) -> run s ls = Some s'.
Proof.
  revert s os. induction ls as [|l r IH]; simpl; intros s os H.
  - inversion H. reflexivity.
  - destruct (step s l) as [s1|]; [|discriminate].
    destruct (project s1 r) as [[sf o2]|] eqn:E; [|discriminate]. inversion H; subst.
    apply (IH s1 o2). exact E.
Qed.

Lemma project_recvs s ls s' os c :
  project s ls = Some (s', os) -> versions_c s' c = versions_c s c ++ recvs c os.
Proof.
  revert s os. induction ls as [|l r IH]; simpl; intros s os H.
  - inversion H; subst. simpl. rewrite app_nil_r. reflexivity.
  - destruct (step s l) as [s1|] eqn:St; [|discriminate].
    destruct (project s1 r) as [[sf o2]|] eqn:E; [|discriminate]. inversion H; subst.
    rewrite (IH s1 o2 E), (step_recvs s l s1 c St), recvs_app, app_assoc. reflexivity.
Qed.

(* ---- wsorted (newest first) gives nondecreasing (oldest first) ---- *)

Lemma nondecreasing_snoc l a :
  nondecreasing l = true -> (forall y, hd_error (rev l) = Some y -> y <= a) ->
  nondecreasing (l ++ [a]) = true.
Proof.
  induction l as [|x r IH]; simpl; [reflexivity|].
  intros Hn Hl. destruct r as [|y r'].
  - simpl. rewrite andb_true_r. apply N.leb_le. apply Hl. reflexivity.
  - simpl in *. apply andb_prop in Hn as [H1 H2]. rewrite H1. simpl. apply IH; [exact H2|].
    intros z Hz. apply Hl.
    destruct (rev r' ++ [y]) as [|q t] eqn:E; [destruct (rev r'); discriminate|].
    simpl in *. exact Hz.
Qed.

Lemma wsorted_nondecreasing l : wsorted l -> nondecreasing (rev (map snd l)) = true.
Proof.
  induction l as [|e r IH]; simpl; [reflexivity|].
  intros [H1 H2]. apply nondecreasing_snoc; [apply IH; exact H2|].
  intros y Hy. rewrite rev_involutive in Hy. destruct r as [|e' r']; simpl in *; [discriminate|].
  inversion Hy; subst. destruct H1. assumption.
Qed.

(* ---- clause 10 on every model history ---- *)

Lemma model_history_monotone ls s os :
  project init ls = Some (s, os) -> monotone_b os = true.
Proof.
  intros H. unfold monotone_b. apply forallb_forall. intros c _.
  pose proof (project_recvs init ls s os c H) as E. unfold versions_c in E. simpl in E.
  rewrite <- E.
  assert (reachable s) as R by (exists ls; apply (project_run _ _ _ _ H)).
  destruct (find_client c (clients s)) as [x|] eqn:F; [|reflexivity].
  destruct (find_client_Some _ _ _ F) as [Hx _].
  unfold versions. apply wsorted_nondecreasing. apply (thm_client_monotone s x R Hx).
Qed.

(* ---- clause 12 on every model history ---- *)

Lemma genuine_app cur a b :
  genuine_from cur (a ++ b) = genuine_from cur a && genuine_from (fold_left (fun acc o => match o with OChange v => v | _ => acc end) a cur) b.
Proof.
  revert cur. induction a as [|o r IH]; simpl; intros cur; [reflexivity|].
  destruct o; simpl; rewrite ?IH; try reflexivity. rewrite andb_assoc. reflexivity.
Qed.

Lemma step_genuine s l s' :
  Inv s -> step s l = Some s' ->
  genuine_from (fv s) (obs_of s l) = true /\
  fold_left (fun acc o => match o with OChange v => v | _ => acc end) (obs_of s l) (fv s) = fv s'.
Proof.
  intros I H. pose proof (i_p s I) as HP.
  destruct l; unfold obs_of, held_version; step_cases H; simpl; try (split; reflexivity).
  (* ClientWrite *)
  split; [|reflexivity].
  destruct (find_client_Some _ _ _ F) as [Hx _].
  pose proof (i_c s I) as HC. rewrite Forall_forall in HC. specialize (HC c0 Hx).
  destruct (c_held _ _ _ _ HC k v P) as [Hin _].
  pose proof (p_clog_bound s HP (k, v) Hin) as Hb. pose proof (p_read_le s HP). simpl in Hb.
  rewrite andb_true_r. apply andb_true_intro. split; apply N.leb_le; lia.
Qed.

Lemma project_genuine s ls s' os :
  Inv s -> project s ls = Some (s', os) -> genuine_from (fv s) os = true.
Proof.
  revert s os. induction ls as [|l r IH]; simpl; intros s os I H.
  - inversion H. reflexivity.
  - destruct (step s l) as [s1|] eqn:St; [|discriminate].
    destruct (project s1 r) as [[sf o2]|] eqn:E; [|discriminate]. inversion H; subst.
    destruct (step_genuine s l s1 I St) as [G1 G2].
    rewrite genuine_app, G1, G2. simpl. apply (IH s1 o2); [apply (inv_step s l); assumption | exact E].
Qed.

Lemma model_history_genuine ls s os : project init ls = Some (s, os) -> genuine_from 1 os = true.
Proof. intros H. apply (project_genuine init ls s os inv_init H). Qed.

(* ---- from the acceptor's validated witness to the clauses on the raw history ---- *)

Lemma obs_eqb_eq a b : obs_eqb a b = true -> a = b.
Proof.
  destruct a, b; simpl; try discriminate; intros H;
    repeat match goal with
    | H : _ && _ = true |- _ => apply andb_prop in H as [? ?]
    | H : (_ =? _) = true |- _ => apply N.eqb_eq in H; subst
    | H : Bool.eqb _ _ = true |- _ => apply Bool.eqb_prop in H; subst
    end; reflexivity.
Qed.

Lemma olist_eqb_eq a b : olist_eqb a b = true -> a = b.
Proof.
  revert b. induction a as [|x r IH]; destruct b as [|y t]; simpl; try discriminate; [reflexivity|].
  intros H. apply andb_prop in H as [H1 H2]. apply obs_eqb_eq in H1. apply IH in H2. congruence.
Qed.

Lemma recvs_norm c h : recvs c (flat_map norm_obs h) = recvs c h.
Proof.
  induction h as [|o r IH]; simpl; [reflexivity|]. rewrite recvs_app, IH.
  destruct o; simpl; rewrite ?app_nil_r; try reflexivity.
  destruct ((code =? 101) || (code =? 503)); reflexivity.
Qed.

Lemma client_ids_app a b : client_ids (a ++ b) = client_ids a ++ client_ids b.
Proof. unfold client_ids. apply flat_map_app. Qed.

Lemma client_ids_norm h : client_ids (flat_map norm_obs h) = client_ids h.
Proof.
  induction h as [|o r IH]; simpl; [reflexivity|]. rewrite client_ids_app, IH.
  destruct o; simpl; try reflexivity.
  destruct (code =? 101) eqn:E; simpl; [rewrite E; reflexivity|].
  destruct (code =? 503); simpl; [rewrite E|]; reflexivity.
Qed.

Lemma monotone_norm h : monotone_b (flat_map norm_obs h) = monotone_b h.
Proof.
  unfold monotone_b. rewrite client_ids_norm.
  induction (client_ids h) as [|c r IH]; simpl; [reflexivity|]. rewrite recvs_norm, IH. reflexivity.
Qed.

Lemma genuine_norm h : forall cur, genuine_from cur (flat_map norm_obs h) = genuine_from cur h.
Proof.
  induction h as [|o r IH]; simpl; intros cur; [reflexivity|].
  rewrite genuine_app.
  destruct o; simpl; try (destruct ((code =? 101) || (code =? 503))); simpl;
    rewrite ?IH, ?andb_true_r; reflexivity.
Qed.

Lemma validate_run h w :
  validate h w = true ->
  exists ls s, project init ls = Some (s, flat_map norm_obs h).
Proof.
  unfold validate. destruct (project init (rev (tr w))) as [[sf os]|] eqn:E; [|discriminate].
  intros H. apply andb_prop in H as [H H3]. apply andb_prop in H as [H1 H2].
  apply olist_eqb_eq in H1. subst os. exists (rev (tr w)), sf. exact E.
Qed.

(* A history accepted by the checker (code 1 absent) is a history of the model, hence satisfies clauses
   10 and 12: the run-time evaluation of these clauses can only fail together with code 1. *)
Lemma accepted_history_safe h w :
  validate h w = true -> monotone_b h = true /\ genuine_from 1 h = true.
Proof.
  intros V. destruct (validate_run h w V) as [ls [s P]]. split.
  - rewrite <- monotone_norm. apply (model_history_monotone ls s _ P).
  - rewrite <- genuine_norm. apply (model_history_genuine ls s _ P).
Qed.

(* ... and it ends in a reachable state of the model in which every client has received exactly what the
   history says it received; from there thm_reaches_quiescence and thm_quiescent_delivered apply: the
   server's own steps lead to a state where every connected client holds the latest result. *)
Lemma accepted_history_reachable h w :
  validate h w = true ->
  exists s, reachable s /\ (forall c, versions_c s c = recvs c h).
Proof.
  intros V. destruct (validate_run h w V) as [ls [s P]]. exists s.
  split; [exists ls; apply (project_run _ _ _ _ P)|].
  intros c. pose proof (project_recvs init ls s _ c P) as E. unfold versions_c in E at 2. simpl in E.
  rewrite E. apply recvs_norm.
Qed.
