(* The structural facts about d2cli/watch.go that the hand-written LTS (Model.v) transcribes, re-read from
   the CURRENT source on every run (coq/Gen/WatchShape.v, written by `d2h gen` with go/ast), must be exactly
   these.  A code change that alters one of them breaks this proof: the model then no longer describes the
   code, whether or not a test schedule can hit the window the change opens. *)
From Coq Require Import NArith Bool.
Require Import V.Gen.WatchShape.
Open Scope N_scope.

(* what the compile/deliver part of the model (C44) relies on *)
Definition shape_c44 : Prop :=
  compileCh_cap = 1                         (* token : bool — one pending request is remembered *)
  /\ request_nonblocking = true             (* Request never blocks, coalesces when the token is set *)
  /\ resultsCh_cap = 1                      (* c_wake : bool — one pending wake-up per client is remembered *)
  /\ signal_nonblocking = true              (* Signal never blocks on a busy client *)
  /\ broadcast_store_before_signal = true   (* Store precedes Signal *)
  /\ broadcast_store_under_resMu = true
  /\ broadcast_signal_under_clientsMu = true (* Signal is atomic w.r.t. Register / ClientExit *)
  /\ writeloop_reads_each_round = true      (* ClientWake leads to ClientRead: res is re-read after every wake-up *)
  /\ handler_registers_before_writeloop = true. (* Register precedes the first ClientRead *)

(* what the admission/shutdown part (C45) relies on *)
Definition shape_c45 : Prop :=
  admit_test_and_add_in_one_section = true  (* Admit / RejectH: closing test and Add(1) in one critical section *)
  /\ add_before_accept = true               (* PAdmitted (counted) before the upgrade *)
  /\ accept_failure_calls_done = true       (* Res400 decrements *)
  /\ handler_defers_done_first = true       (* ClientExit decrements last *)
  /\ close_sets_closing_under_clientsMu = true (* CloseBegin is atomic w.r.t. Admit *)
  /\ close_cancels_after_closing = true
  /\ close_waits_last = true.               (* CloseReturn requires wg = 0 *)

Lemma watch_shape_c44 : shape_c44.
Proof. unfold shape_c44. repeat split; reflexivity. Qed.

Lemma watch_shape_c45 : shape_c45.
Proof. unfold shape_c45. repeat split; reflexivity. Qed.
