(* C44 / C45 — the watch server of d2cli/watch.go as a labelled transition system.

   Transcribed from: requestCompile, watchLoop (only its calls of requestCompile), compileLoop,
   broadcast, handleWatch, wsclient.writeLoop, getRes, close.  Shared by coq/C45.

   State components and the Go state they stand for
     fv          version of the input file's content (the harness writes a version number into it)
     dirty       a file-system event has been seen by watchLoop and eatBurstTimer is armed
                 (watchLoop WILL call requestCompile)
     token       len(w.compileCh) = 1                      (capacity-1 channel, non-blocking send)
     comp        where compileLoop is: waiting on compileCh | token taken, file not read yet |
                 file read at version v (compile/layout/render running) | w.res stored, clients
                 not signalled yet (between resMu.Unlock and the loop over w.wsclients)
     last_read   version seen by the latest ms.ReadPath(inputPath) of compile()   (0 = never)
     res         w.res : None = nil, Some (k, v) = result of the k-th compile, of content version v
     clog        every stored result, newest first (ghost: "compile order")
     clients     one record per upgrade request ever made on /watch (never removed; ghost history)
     close_called, closing, cancelled, returned   close() has been entered / w.closing / w.ctx is
                 cancelled / close() has returned
     wg          counter of w.wsclientsWG (Z: a Done without Add would make it negative = panic)

   Nothing is bounded: any number of changes, requests, clients, disconnects. *)
From Coq Require Import List NArith ZArith Bool.
Import ListNotations.
Open Scope N_scope.

Definition ver := N.
Definition cid := N.

Inductive comp_state :=
| Idle                    (* select { case <-w.compileCh ... } *)
| Taken                   (* token received, compile() has not read the file yet *)
| Compiling (v : ver)     (* compile() read content version v *)
| Storing (k : N) (v : ver). (* broadcast: w.res = result k stored; signalling loop not yet run *)

Inductive phase :=
| PPending                (* request sent by the peer, handleWatch not yet past the closing test *)
| PRejected               (* handleWatch saw closing = true; 503 not yet written *)
| PAdmitted               (* wsclientsWG.Add(1) done under wsclientsMu; websocket.Accept running *)
| PAccepted               (* Accept succeeded (101 sent); handler goroutine started, not registered *)
| PLoop                   (* registered in w.wsclients; at the top of writeLoop (before getRes) *)
| PHeld (k : N) (v : ver) (* getRes returned result k (non-nil); cl.write not yet done *)
| PWait                   (* at the select on cl.resultsCh / ctx.Done *)
| PDone.                  (* handler finished: deregistered, wsclientsWG.Done() called;
                             or rejected / failed request fully answered *)

Record client := mkClient {
  c_id : cid;
  c_bad : bool;             (* the peer's upgrade request is malformed: websocket.Accept fails *)
  c_phase : phase;
  c_wake : bool;            (* len(cl.resultsCh) = 1 *)
  c_conn : bool;            (* the peer has not closed its end *)
  c_written : list (N * ver)  (* results delivered to the peer, newest first *)
}.

Record state := mkState {
  fv : ver;
  dirty : bool;
  token : bool;
  comp : comp_state;
  last_read : ver;
  res : option (N * ver);
  clog : list (N * ver);
  clients : list client;
  close_called : bool;
  closing : bool;
  cancelled : bool;
  returned : bool;
  wg : Z
}.

Inductive label :=
(* environment *)
| Change                  (* the file content changes (fsnotify will report it) *)
| ExtRequest              (* requestCompile from the 10 s poll or from handleRoot *)
| Attempt (c : cid) (bad : bool)  (* a peer sends GET /watch (bad: without a valid upgrade) *)
| Disconnect (c : cid)    (* the peer closes its connection *)
| CloseCall               (* w.close() is entered *)
| Cancel                  (* the context given to Run is cancelled (signal): loops end, run() calls close *)
(* the server's own steps *)
| Request                 (* eatBurstTimer fires: requestCompile *)
| TakeToken | ReadFile | Store | Signal       (* compileLoop; Store+Signal = broadcast *)
| Admit (c : cid) | RejectH (c : cid)           (* handleWatch under wsclientsMu *)
| Res101 (c : cid) | Res400 (c : cid) | Res503 (c : cid)
| Register (c : cid)
| ClientRead (c : cid) | ClientWrite (c : cid) | ClientWake (c : cid) | ClientExit (c : cid)
| CloseBegin | CloseReturn.

Definition init : state :=
  {| fv := 1; dirty := false; token := true (* watchLoop's first requestCompile *);
     comp := Idle; last_read := 0; res := None; clog := []; clients := [];
     close_called := false; closing := false; cancelled := false; returned := false; wg := 0%Z |}.

(* ---- clients ---- *)

Fixpoint find_client (c : cid) (l : list client) : option client :=
  match l with
  | [] => None
  | x :: r => if c_id x =? c then Some x else find_client c r
  end.

Definition upd_client (c : cid) (f : client -> client) (l : list client) : list client :=
  map (fun x => if c_id x =? c then f x else x) l.

Definition set_phase (p : phase) (x : client) : client :=
  mkClient (c_id x) (c_bad x) p (c_wake x) (c_conn x) (c_written x).
Definition set_wake (b : bool) (x : client) : client :=
  mkClient (c_id x) (c_bad x) (c_phase x) b (c_conn x) (c_written x).

(* in w.wsclients *)
Definition registered (p : phase) : bool :=
  match p with PLoop | PHeld _ _ | PWait => true | _ => false end.
(* counted by wsclientsWG: between Add(1) and Done() *)
Definition counted (p : phase) : bool :=
  match p with PAdmitted | PAccepted | PLoop | PHeld _ _ | PWait => true | _ => false end.

Definition signal_all (l : list client) : list client :=
  map (fun x => if registered (c_phase x) then set_wake true x else x) l.

Definition with_clients (s : state) (l : list client) : state :=
  mkState (fv s) (dirty s) (token s) (comp s) (last_read s) (res s) (clog s) l
          (close_called s) (closing s) (cancelled s) (returned s) (wg s).
Definition with_clients_wg (s : state) (l : list client) (w : Z) : state :=
  mkState (fv s) (dirty s) (token s) (comp s) (last_read s) (res s) (clog s) l
          (close_called s) (closing s) (cancelled s) (returned s) w.
Definition with_pipe (s : state) (d t : bool) (cs : comp_state) : state :=
  mkState (fv s) d t cs (last_read s) (res s) (clog s) (clients s)
          (close_called s) (closing s) (cancelled s) (returned s) (wg s).

(* a step of client c that needs it to be in a given situation *)
Definition on_client (s : state) (c : cid) (k : client -> option state) : option state :=
  match find_client c (clients s) with
  | Some x => k x
  | None => None
  end.

Definition step (s : state) (l : label) : option state :=
  match l with
  | Change =>
      Some (mkState (fv s + 1) true (token s) (comp s) (last_read s) (res s) (clog s) (clients s)
                    (close_called s) (closing s) (cancelled s) (returned s) (wg s))
  | ExtRequest => Some (with_pipe s (dirty s) true (comp s))
  | Request => if dirty s then Some (with_pipe s false true (comp s)) else None
  | TakeToken =>
      match comp s with
      | Idle => if token s then Some (with_pipe s (dirty s) false Taken) else None
      | _ => None
      end
  | ReadFile =>
      match comp s with
      | Taken =>
          Some (mkState (fv s) (dirty s) (token s) (Compiling (fv s)) (fv s) (res s) (clog s) (clients s)
                        (close_called s) (closing s) (cancelled s) (returned s) (wg s))
      | _ => None
      end
  | Store =>
      match comp s with
      | Compiling v =>
          let k := N.of_nat (length (clog s)) in
          Some (mkState (fv s) (dirty s) (token s) (Storing k v) (last_read s) (Some (k, v))
                        ((k, v) :: clog s) (clients s)
                        (close_called s) (closing s) (cancelled s) (returned s) (wg s))
      | _ => None
      end
  | Signal =>
      match comp s with
      | Storing _ _ =>
          Some (mkState (fv s) (dirty s) (token s) Idle (last_read s) (res s) (clog s)
                        (signal_all (clients s))
                        (close_called s) (closing s) (cancelled s) (returned s) (wg s))
      | _ => None
      end
  | Attempt c bad =>
      match find_client c (clients s) with
      | None => Some (with_clients s (clients s ++ [mkClient c bad PPending false true []]))
      | Some _ => None
      end
  | Admit c =>
      on_client s c (fun x =>
        match c_phase x with
        | PPending =>
            if closing s then None
            else Some (with_clients_wg s (upd_client c (set_phase PAdmitted) (clients s)) (wg s + 1)%Z)
        | _ => None
        end)
  | RejectH c =>
      on_client s c (fun x =>
        match c_phase x with
        | PPending =>
            if closing s then Some (with_clients s (upd_client c (set_phase PRejected) (clients s)))
            else None
        | _ => None
        end)
  | Res503 c =>
      on_client s c (fun x =>
        match c_phase x with
        | PRejected => Some (with_clients s (upd_client c (set_phase PDone) (clients s)))
        | _ => None
        end)
  | Res101 c =>
      on_client s c (fun x =>
        match c_phase x with
        | PAdmitted =>
            if c_bad x then None
            else Some (with_clients s (upd_client c (set_phase PAccepted) (clients s)))
        | _ => None
        end)
  | Res400 c =>     (* websocket.Accept failed: w.wsclientsWG.Done(); return err *)
      on_client s c (fun x =>
        match c_phase x with
        | PAdmitted =>
            if c_bad x
            then Some (with_clients_wg s (upd_client c (set_phase PDone) (clients s)) (wg s - 1)%Z)
            else None
        | _ => None
        end)
  | Register c =>
      on_client s c (fun x =>
        match c_phase x with
        | PAccepted => Some (with_clients s (upd_client c (set_phase PLoop) (clients s)))
        | _ => None
        end)
  | ClientRead c =>   (* res := cl.w.getRes(); if res != nil {...} *)
      on_client s c (fun x =>
        match c_phase x with
        | PLoop =>
            match res s with
            | Some (k, v) => Some (with_clients s (upd_client c (set_phase (PHeld k v)) (clients s)))
            | None => Some (with_clients s (upd_client c (set_phase PWait) (clients s)))
            end
        | _ => None
        end)
  | ClientWrite c =>  (* cl.write succeeded and the peer is there to receive it *)
      on_client s c (fun x =>
        match c_phase x with
        | PHeld k v =>
            if c_conn x
            then Some (with_clients s (upd_client c (fun y =>
                         mkClient (c_id y) (c_bad y) PWait (c_wake y) (c_conn y) ((k, v) :: c_written y))
                         (clients s)))
            else None
        | _ => None
        end)
  | ClientWake c =>   (* case <-cl.resultsCh: *)
      on_client s c (fun x =>
        match c_phase x with
        | PWait =>
            if c_wake x
            then Some (with_clients s (upd_client c (fun y => set_wake false (set_phase PLoop y)) (clients s)))
            else None
        | _ => None
        end)
  | ClientExit c =>   (* write error or ctx.Done: deferred delete, cancel, c.Close, wsclientsWG.Done *)
      on_client s c (fun x =>
        if cancelled s || negb (c_conn x) then
          match c_phase x with
          | PHeld _ _ | PWait =>
              Some (with_clients_wg s (upd_client c (fun y => set_wake false (set_phase PDone y)) (clients s))
                                    (wg s - 1)%Z)
          | _ => None
          end
        else None)
  | Disconnect c =>
      on_client s c (fun x =>
        if c_conn x
        then Some (with_clients s (upd_client c (fun y =>
                     mkClient (c_id y) (c_bad y) (c_phase y) (c_wake y) false (c_written y)) (clients s)))
        else None)
  | CloseCall =>
      Some (mkState (fv s) (dirty s) (token s) (comp s) (last_read s) (res s) (clog s) (clients s)
                    true (closing s) (cancelled s) (returned s) (wg s))
  | Cancel =>
      Some (mkState (fv s) (dirty s) (token s) (comp s) (last_read s) (res s) (clog s) (clients s)
                    true (closing s) true (returned s) (wg s))
  | CloseBegin =>     (* w.closing = true under wsclientsMu; w.cancel() *)
      if close_called s && negb (closing s)
      then Some (mkState (fv s) (dirty s) (token s) (comp s) (last_read s) (res s) (clog s) (clients s)
                         true true true (returned s) (wg s))
      else None
  | CloseReturn =>    (* w.wsclientsWG.Wait() returns *)
      if closing s && negb (returned s) && (wg s =? 0)%Z
      then Some (mkState (fv s) (dirty s) (token s) (comp s) (last_read s) (res s) (clog s) (clients s)
                         (close_called s) (closing s) (cancelled s) true (wg s))
      else None
  end.

Fixpoint run (s : state) (ls : list label) : option state :=
  match ls with
  | [] => Some s
  | l :: r => match step s l with Some s' => run s' r | None => None end
  end.

Definition reachable (s : state) : Prop := exists ls, run init ls = Some s.

(* steps the environment takes; everything else is the server's own ("internal") *)
Definition external (l : label) : bool :=
  match l with
  | Change | ExtRequest | Attempt _ _ | Disconnect _ | CloseCall | Cancel => true
  | _ => false
  end.

(* ---- which of the server's steps are enabled in s (finite list, covers every internal label
        that can fire: see Proofs.enabled_complete) ---- *)
Definition client_labels (x : client) : list label :=
  let c := c_id x in
  [Admit c; RejectH c; Res101 c; Res400 c; Res503 c; Register c;
   ClientRead c; ClientWrite c; ClientWake c; ClientExit c].

Definition internal_labels (s : state) : list label :=
  [Request; TakeToken; ReadFile; Store; Signal; CloseBegin; CloseReturn]
  ++ flat_map client_labels (clients s).

Definition is_some {A} (o : option A) : bool := match o with Some _ => true | None => false end.

Definition enabled_internal (s : state) : list label :=
  filter (fun l => is_some (step s l)) (internal_labels s).

Definition quiescent (s : state) : bool :=
  match enabled_internal s with [] => true | _ => false end.

(* ---- observables of one client ---- *)
Definition live_conn (x : client) : bool :=     (* a connected browser client *)
  c_conn x && negb (c_bad x) && counted (c_phase x).

Definition last_written (x : client) : option (N * ver) := hd_error (c_written x).

(* versions of a written list, oldest first *)
Definition versions (x : client) : list ver := rev (map snd (c_written x)).
