(* C06 — absolute IDs are injective up to case, connection IDs identify one connection.
   1. A dot-joined path of printed IDs splits back into the IDs at its top-level dots (quote-aware
      lexer split_top), and the lexer commutes with any rune map that preserves the four characters
      it looks at (dot, double quote, single quote, backslash): so equal lower-cased absolute IDs have equal lower-cased ID arrays.
   2. In a well-formed graph (C09) equal lower-cased ID arrays lead to the same object (walk down from
      the root through the Children maps).
   3. Connect's index invariant (no two connections agree on end points, arrows and index) is preserved
      by every operation. *)
From Coq Require Import List NArith Bool Arith Lia.
Import ListNotations.
Require Import V.Lib.RunCases.
Require Import V.Gen.C05Tables V.C05.Model V.C05.Proofs V.C05.Roundtrip.
Require Import V.C09.Graph V.C09.Proofs V.C09.Lower.
Require Import V.C06.Model V.C06.ParsePath.

(* ------------------------------------------------------------------ 1. splitting *)

Open Scope N_scope.

(* a rune that the lexer does not look at in unquoted text *)
Definition plain3 (r : N) : bool := negb ((r =? cDOT) || (r =? cDQ) || (r =? cSQ)).

Lemma split_plain s : forall cur rest, forallb plain3 s = true ->
  split_top QU cur (s ++ rest) = split_top QU (cur ++ s) rest.
Proof.
  induction s as [|r tl IH]; intros cur rest H.
  - rewrite app_nil_r. reflexivity.
  - simpl in H. apply andb_prop in H as [H1 H2]. unfold plain3 in H1.
    apply negb_true_iff in H1. apply orb_false_elim in H1 as [H1 Hc]. apply orb_false_elim in H1 as [Ha Hb].
    cbn [app split_top]. rewrite Ha, Hb, Hc. rewrite IH by exact H2. rewrite app_assoc1. reflexivity.
Qed.

Lemma split_dq s : forall cur rest,
  split_top QD cur (escape_dq true s ++ cDQ :: rest) = split_top QU (cur ++ escape_dq true s ++ [cDQ]) rest.
Proof.
  induction s as [|r tl IH]; intros cur rest.
  - reflexivity.
  - cbn [escape_dq]. cbn [negb andb].
    destruct ((r =? cDQ) || (r =? cBSL)) eqn:E1.
    + change ((cBSL :: r :: escape_dq true tl) ++ cDQ :: rest) with (cBSL :: r :: (escape_dq true tl ++ cDQ :: rest)).
      cbn [split_top]. change (cBSL =? cBSL) with true. cbn iota.
      rewrite IH. f_equal. rewrite <- !app_assoc. reflexivity.
    + apply orb_false_elim in E1 as [Ea Eb].
      destruct (r =? cNL) eqn:E2.
      * change ((cBSL :: 110 :: escape_dq true tl) ++ cDQ :: rest) with (cBSL :: 110 :: (escape_dq true tl ++ cDQ :: rest)).
        cbn [split_top]. change (cBSL =? cBSL) with true. cbn iota.
        rewrite IH. f_equal. rewrite <- !app_assoc. reflexivity.
      * change ((r :: escape_dq true tl) ++ cDQ :: rest) with (r :: (escape_dq true tl ++ cDQ :: rest)).
        cbn [split_top]. rewrite Eb, Ea. rewrite IH. f_equal. rewrite <- !app_assoc. reflexivity.
Qed.

Lemma split_sq s : forall cur rest,
  split_top QS cur (escape_sq s ++ cSQ :: rest) = split_top QU (cur ++ escape_sq s ++ [cSQ]) rest.
Proof.
  induction s as [|r tl IH]; intros cur rest.
  - reflexivity.
  - cbn [escape_sq]. destruct (r =? cSQ) eqn:E1.
    + apply N.eqb_eq in E1. subst r.
      change ((cSQ :: cSQ :: escape_sq tl) ++ cSQ :: rest) with (cSQ :: cSQ :: (escape_sq tl ++ cSQ :: rest)).
      cbn [split_top]. change (cSQ =? cSQ) with true. change (cSQ =? cDOT) with false. change (cSQ =? cDQ) with false.
      cbn iota. rewrite IH. f_equal. rewrite <- !app_assoc. reflexivity.
    + destruct (r =? cNL) eqn:E2.
      * change ((cBSL :: 110 :: escape_sq tl) ++ cSQ :: rest) with (cBSL :: 110 :: (escape_sq tl ++ cSQ :: rest)).
        cbn [split_top]. change (cBSL =? cSQ) with false. change (110 =? cSQ) with false. cbn iota.
        rewrite IH. f_equal. rewrite <- !app_assoc. reflexivity.
      * change ((r :: escape_sq tl) ++ cSQ :: rest) with (r :: (escape_sq tl ++ cSQ :: rest)).
        cbn [split_top]. rewrite E1. rewrite IH. f_equal. rewrite <- !app_assoc. reflexivity.
Qed.

Lemma key_nq_plain s : key_needs_quote s = false -> forallb plain3 s = true.
Proof.
  induction s as [|r tl IH]; intro H; [reflexivity|].
  cbn [key_needs_quote] in H. cbn [forallb].
  destruct ((r =? cDASH) && match tl with r2 :: _ => negb (r2 =? cDASH) | [] => false end) eqn:E.
  - apply andb_prop in E as [Ea _]. apply N.eqb_eq in Ea. subst r. rewrite IH by exact H. reflexivity.
  - destruct (mem r key_specials) eqn:M; [discriminate H|]. rewrite IH by exact H.
    unfold plain3.
    assert ((r =? cDOT) = false) as -> by kneq M cDOT.
    assert ((r =? cDQ) = false) as -> by kneq M cDQ.
    assert ((r =? cSQ) = false) as -> by kneq M cSQ. reflexivity.
Qed.

Lemma lower_a_plain r : plain3 r = true -> plain3 (lower_a r) = true.
Proof.
  unfold lower_a, plain3. intro H.
  destruct ((65 <=? r) && (r <=? 90)) eqn:E1.
  - apply andb_prop in E1 as [A B]. apply N.leb_le in A, B.
    assert ((r + 32 =? cDOT) = false) as -> by (apply N.eqb_neq; unfold cDOT; lia).
    assert ((r + 32 =? cDQ) = false) as -> by (apply N.eqb_neq; unfold cDQ; lia).
    assert ((r + 32 =? cSQ) = false) as -> by (apply N.eqb_neq; unfold cSQ; lia). reflexivity.
  - destruct (r =? 304); [reflexivity|]. destruct (r =? 8490); [reflexivity|exact H].
Qed.

Lemma lower_str_plain s : forallb plain3 s = true -> forallb plain3 (lower_str s) = true.
Proof.
  induction s as [|r tl IH]; intro H; [reflexivity|].
  simpl in *. apply andb_prop in H as [H1 H2]. rewrite lower_a_plain by exact H1. apply IH, H2.
Qed.

(* a printed ID, whatever the name, is consumed as one segment *)
Lemma split_id s cur rest :
  split_top QU cur (obj_id s ++ rest) = split_top QU (cur ++ obj_id s) rest.
Proof.
  unfold obj_id, print_raw.
  assert (DQ : split_top QU cur (print_str FDq true s ++ rest) = split_top QU (cur ++ print_str FDq true s) rest).
  { cbn [print_str].
    change ((cDQ :: escape_dq true s ++ [cDQ]) ++ rest) with (cDQ :: ((escape_dq true s ++ [cDQ]) ++ rest)).
    rewrite app_assoc1. cbn [split_top]. change (cDQ =? cDOT) with false. change (cDQ =? cDQ) with true. cbn iota.
    rewrite split_dq. f_equal. rewrite <- !app_assoc. reflexivity. }
  assert (SQ : forall v, split_top QU cur ((cSQ :: escape_sq v ++ [cSQ]) ++ rest)
                         = split_top QU (cur ++ cSQ :: escape_sq v ++ [cSQ]) rest).
  { intro v.
    change ((cSQ :: escape_sq v ++ [cSQ]) ++ rest) with (cSQ :: ((escape_sq v ++ [cSQ]) ++ rest)).
    rewrite app_assoc1. cbn [split_top]. change (cSQ =? cDOT) with false. change (cSQ =? cDQ) with false.
    change (cSQ =? cSQ) with true. cbn iota.
    rewrite split_sq. f_equal. rewrite <- !app_assoc. reflexivity. }
  destruct s as [|r tl]; [exact DQ|].
  remember (r :: tl) as s eqn:Es.
  assert (RF : raw_form s true =
    if equal_fold s w_null && negb (Model.str_eqb s w_null) then FDq
    else if key_needs_quote s then (if negb (mem cDQ s) then FDq else if mem cNL s then FDq else FSq)
    else if has_surrounding_ws s then FDq else FUnq).
  { subst s. reflexivity. }
  rewrite RF. clear RF.
  destruct (equal_fold s w_null && negb (Model.str_eqb s w_null)); [exact DQ|].
  destruct (key_needs_quote s) eqn:E1.
  { destruct (negb (mem cDQ s)); [exact DQ|]. destruct (mem cNL s); [exact DQ|]. apply SQ. }
  destruct (has_surrounding_ws s); [exact DQ|].
  cbn [print_str].
  destruct (equal_fold s w_null) eqn:E3.
  - (* 'null' *)
    assert (Esc : escape_unq true s = cSQ :: escape_sq w_null ++ [cSQ]).
    { subst s. unfold escape_unq. rewrite E3. reflexivity. }
    rewrite Esc.
    assert (LK : lower_kw true (cSQ :: escape_sq w_null ++ [cSQ]) = cSQ :: escape_sq w_null ++ [cSQ]) by (vm_compute; reflexivity).
    rewrite LK. apply SQ.
  - assert (Esc : escape_unq true s = s).
    { subst s. unfold escape_unq. rewrite E3. apply escape_unq_go_key_id. exact E1. }
    rewrite Esc. apply split_plain.
    unfold lower_kw. destruct (true && is_reserved (lower_str s)).
    + apply lower_str_plain, key_nq_plain, E1.
    + apply key_nq_plain, E1.
Qed.

Lemma split_join names : names <> [] ->
  split_top QU [] (join_dots (map obj_id names)) = map obj_id names.
Proof.
  induction names as [|n rest IH]; intro H; [congruence|].
  destruct rest as [|n2 rest2].
  - cbn [map join_dots]. rewrite <- (app_nil_r (obj_id n)) at 1. rewrite split_id. reflexivity.
  - change (join_dots (map obj_id (n :: n2 :: rest2)))
      with (obj_id n ++ cDOT :: join_dots (map obj_id (n2 :: rest2))).
    rewrite split_id. cbn [app split_top]. change (cDOT =? cDOT) with true. cbn iota.
    rewrite IH by discriminate. reflexivity.
Qed.

(* rune maps that leave the lexer's four characters alone (strings.ToLower does: Lower_ok below) *)
Definition class_pres (lr : N -> N) : Prop :=
  forall r, (lr r =? cDOT) = (r =? cDOT) /\ (lr r =? cDQ) = (r =? cDQ) /\
            (lr r =? cSQ) = (r =? cSQ) /\ (lr r =? cBSL) = (r =? cBSL).

Lemma split_map lr : class_pres lr -> forall l st cur,
  split_top st (map lr cur) (map lr l) = map (map lr) (split_top st cur l).
Proof.
  intro CP. induction l as [|r tl IH]; intros st cur; [reflexivity|].
  destruct (CP r) as [A [B [C D]]].
  assert (SN : map lr cur ++ [lr r] = map lr (cur ++ [r])) by (rewrite map_app; reflexivity).
  destruct st; cbn [map split_top].
  - rewrite A, B, C.
    destruct (r =? cDOT).
    + cbn [map]. f_equal. apply (IH QU []).
    + destruct (r =? cDQ); [rewrite SN; apply IH|]. destruct (r =? cSQ); rewrite SN; apply IH.
  - rewrite D, B. destruct (r =? cBSL); [rewrite SN; apply IH|]. destruct (r =? cDQ); rewrite SN; apply IH.
  - rewrite SN. apply IH.
  - rewrite C. destruct (r =? cSQ); rewrite SN; apply IH.
Qed.

(* equal lower-cased joined paths have equal lower-cased ID arrays *)
Lemma joined_lower_inj lr names1 names2 : class_pres lr -> names1 <> [] -> names2 <> [] ->
  map lr (join_dots (map obj_id names1)) = map lr (join_dots (map obj_id names2)) ->
  map (map lr) (map obj_id names1) = map (map lr) (map obj_id names2).
Proof.
  intros CP H1 H2 E.
  rewrite <- (split_join names1 H1), <- (split_join names2 H2).
  rewrite <- !(split_map lr CP _ QU []). cbn [map]. rewrite E. reflexivity.
Qed.

(* strings.ToLower preserves the four characters: checked on the regenerated table *)
Definition entry_ok (e : N * N * N * N) : bool :=
  match e with (lo, hi, stride, dst) =>
    forallb (fun c => ((c <? lo) || (hi <? c)) && ((c <? dst) || (dst + (hi - lo) <? c)))
            [cDOT; cDQ; cSQ; cBSL]
  end.

Lemma lookup_pres t : forallb entry_ok t = true ->
  forall r c, In c [cDOT; cDQ; cSQ; cBSL] -> (lower_lookup r t =? c) = (r =? c).
Proof.
  induction t as [|[[[lo hi] stride] dst] tl IH]; intros H r c Hc; [reflexivity|].
  cbn [forallb] in H. apply andb_prop in H as [H1 H2].
  cbn [lower_lookup].
  unfold entry_ok in H1. pose proof (proj1 (forallb_forall _ _) H1 c Hc) as K.
  apply andb_prop in K as [Ka Kb].
  destruct ((lo <=? r) && (r <=? hi) && ((r - lo) mod stride =? 0)) eqn:E.
  - apply andb_prop in E as [E _]. apply andb_prop in E as [Ea Eb]. apply N.leb_le in Ea, Eb.
    assert ((r =? c) = false) as ->.
    { apply N.eqb_neq. apply orb_prop in Ka as [K|K]; apply N.ltb_lt in K; lia. }
    apply N.eqb_neq. apply orb_prop in Kb as [K|K]; apply N.ltb_lt in K; lia.
  - apply IH; assumption.
Qed.

Lemma lower_table_ok : forallb entry_ok Gen.C09Tables.lower_ranges = true.
Proof. vm_compute. reflexivity. Qed.

Lemma to_lower_class_pres : class_pres to_lower_rune.
Proof.
  intro r. unfold to_lower_rune.
  destruct (r <? 65) eqn:E; [repeat split; reflexivity|].
  repeat split; apply (lookup_pres _ lower_table_ok); simpl; tauto.
Qed.

Close Scope N_scope.

(* ------------------------------------------------------------------ 2. walking down the tree *)

(* k is reached from the root through objects with these IDs / these names *)
Inductive ipath (g : graph) : nat -> list (list N) -> list (list N) -> Prop :=
| ip_root : ipath g 0 [] []
| ip_step k o p ids names :
    g_st g k = Some o -> o_parent o = Some p -> ipath g p ids names ->
    ipath g k (ids ++ [o_id o]) (names ++ [o_name o]).

Section Tree.
Variable fmt : str -> str.
Variable lower : str -> str.
Notation WF := (WF lower).

Lemma ipath_exists g : WF g -> forall n k, node g k -> walk g n k = Some 0 ->
  exists ids names, ipath g k ids names /\ length ids = n.
Proof.
  intro W. induction n as [|n IH]; simpl; intros k Nk H.
  - inversion H; subst. exists [], []. split; [constructor|reflexivity].
  - destruct (parent g k) as [p|] eqn:P; [|discriminate].
    unfold parent in P. destruct (g_st g k) as [o|] eqn:Ho; [|discriminate].
    assert (Np : node g p).
    { destruct Nk as [E|L].
      - subst k. destruct (wf_rootobj _ _ W) as [_ [r [H1 [H2 _]]]]. rewrite H1 in Ho. inversion Ho; subst. congruence.
      - destruct (wf_parent _ _ W k L) as [o' [p' [po [H1 [_ [H3 [H4 _]]]]]]].
        rewrite H1 in Ho. inversion Ho; subst. rewrite H3 in P. inversion P; subst. exact H4. }
    destruct (IH p Np H) as [ids [names [IP Len]]].
    exists (ids ++ [o_id o]), (names ++ [o_name o]). split; [econstructor; eassumption|].
    rewrite app_length. simpl. lia.
Qed.

Lemma ipath_node_parent g : WF g -> forall k o p, node g k -> g_st g k = Some o -> o_parent o = Some p ->
  listed g k /\ node g p.
Proof.
  intros W k o p Nk Ho Hp. destruct Nk as [E|L].
  - subst k. destruct (wf_rootobj _ _ W) as [_ [r [H1 [H2 _]]]]. rewrite H1 in Ho. inversion Ho; subst. congruence.
  - split; [exact L|]. destruct (wf_parent _ _ W k L) as [o' [p' [po [H1 [_ [H3 [H4 _]]]]]]].
    rewrite H1 in Ho. inversion Ho; subst. rewrite H3 in Hp. inversion Hp; subst. exact H4.
Qed.

(* two nodes whose ID arrays agree after lower-casing are the same object *)
Lemma ipath_inj g : WF g -> forall k1 ids1 names1, ipath g k1 ids1 names1 -> node g k1 ->
  forall k2 ids2 names2, ipath g k2 ids2 names2 -> node g k2 ->
  map lower ids1 = map lower ids2 -> k1 = k2.
Proof.
  intros W k1 ids1 names1 IP1. induction IP1 as [|k1 o1 p1 ids1 names1 Ho1 Hp1 IP1 IH]; intros N1 k2 ids2 names2 IP2 N2 E.
  - destruct IP2 as [|k2 o2 p2 ids2 names2 Ho2 Hp2 IP2]; [reflexivity|].
    rewrite map_app in E. simpl in E. symmetry in E. apply app_eq_nil in E as [_ E]. discriminate.
  - destruct IP2 as [|k2 o2 p2 ids2 names2 Ho2 Hp2 IP2].
    + rewrite map_app in E. simpl in E. apply app_eq_nil in E as [_ E]. discriminate.
    + rewrite !map_app in E. simpl in E. apply app_inj_tail in E as [E1 E2].
      destruct (ipath_node_parent g W k1 o1 p1 N1 Ho1 Hp1) as [L1 Np1].
      destruct (ipath_node_parent g W k2 o2 p2 N2 Ho2 Hp2) as [L2 Np2].
      assert (p1 = p2) by (eapply IH; eassumption). subst p2.
      destruct (wf_parent _ _ W k1 L1) as [o1' [q1 [po1 [A1 [_ [A3 [_ [A5 [_ A7]]]]]]]]].
      destruct (wf_parent _ _ W k2 L2) as [o2' [q2 [po2 [B1 [_ [B3 [_ [B5 [_ B7]]]]]]]]].
      rewrite A1 in Ho1. inversion Ho1; subst o1'. rewrite B1 in Ho2. inversion Ho2; subst o2'.
      rewrite A3 in Hp1. inversion Hp1; subst q1. rewrite B3 in Hp2. inversion Hp2; subst q2.
      rewrite A5 in B5. inversion B5; subst po2.
      rewrite E2 in A7. rewrite A7 in B7. inversion B7. reflexivity.
Qed.

Lemma ipath_fun g : forall k ids names, ipath g k ids names -> parent g 0 = None ->
  forall ids' names', ipath g k ids' names' -> ids = ids' /\ names = names'.
Proof.
  intros k ids names IP R0. induction IP as [|k o p ids names Ho Hp IP IH]; intros ids' names' IP'.
  - inversion IP' as [|k' o' p' i' n' Ho' Hp' IP'']; subst; [split; reflexivity|].
    unfold parent in R0. rewrite Ho' in R0. congruence.
  - inversion IP' as [E1 E2 E3|k' o' p' i' n' Ho' Hp' IP'' E1 E2 E3]; subst.
    + unfold parent in R0. rewrite Ho in R0. congruence.
    + rewrite Ho in Ho'. inversion Ho'; subst o'. rewrite Hp in Hp'. inversion Hp'; subst p'.
      destruct (IH _ _ IP'') as [A B]. subst. split; reflexivity.
Qed.

(* the executable AbsIDArray / name path compute the path once the fuel covers the depth *)
Lemma abs_ids_f_ipath g : forall k ids names, ipath g k ids names -> parent g 0 = None ->
  forall fuel, length ids < fuel -> abs_ids_f g fuel k = ids /\ names_f g fuel k = names.
Proof.
  intros k ids names IP R0. induction IP as [|k o p ids names Ho Hp IP IH]; intros fuel Hf.
  - destruct fuel as [|f]; [lia|]. simpl. unfold parent in R0.
    destruct (g_st g 0) as [r|]; [rewrite R0|]; split; reflexivity.
  - destruct fuel as [|f]; [lia|]. rewrite app_length in Hf. simpl in Hf.
    simpl. rewrite Ho, Hp. destruct (IH f) as [A B]; [lia|]. rewrite A, B. split; reflexivity.
Qed.

End Tree.


(* the boolean form of the index invariant evaluated on the implementation's boards *)
Lemma ekey_eqb_eq a b : ekey_eqb a b = true <-> ekey a = ekey b.
Proof.
  unfold ekey_eqb, ekey. rewrite !andb_true_iff, !Nat.eqb_eq, !eqb_true_iff. split.
  - intros [[[[A B] C] D] E]. congruence.
  - intro H. inversion H. repeat split; assumption.
Qed.

Lemma edges_distinct_iff l : edges_distinct_b l = true <-> NoDup (map ekey l).
Proof.
  induction l as [|e tl IH]; simpl.
  - split; intro; [constructor|reflexivity].
  - rewrite andb_true_iff, negb_true_iff, IH. split.
    + intros [H1 H2]. constructor; [|exact H2]. intro Hin. apply in_map_iff in Hin as [e' [K He']].
      assert (existsb (ekey_eqb e) tl = true) as X.
      { apply existsb_exists. exists e'. split; [exact He'|]. apply ekey_eqb_eq. symmetry. exact K. }
      congruence.
    + intro H. inversion H as [|? ? H1 H2]; subst. split; [|exact H2].
      destruct (existsb (ekey_eqb e) tl) eqn:X; [|reflexivity].
      apply existsb_exists in X as [e' [He' K]]. apply ekey_eqb_eq in K.
      exfalso. apply H1. apply in_map_iff. exists e'. split; [symmetry; exact K|exact He'].
Qed.

(* ------------------------------------------------------------------ 3. names and indices along operations *)

Section Ops.
Variable lr : N -> N.
Let fmt : str -> str := obj_id.
Let lower : str -> str := map lr.
Notation WF := (WF lower).

(* every object below the root carries the printed form of its name; the root's ID is empty *)
Definition Named (g : graph) : Prop :=
  (exists r, g_st g 0 = Some r /\ o_id r = []) /\
  (forall k o, k <> 0 -> g_st g k = Some o -> o_id o = obj_id (o_name o)).

Lemma named_init : Named init.
Proof.
  split; [exists root_obj; split; reflexivity|].
  intros k o Hk H. simpl in H. destruct k; [congruence|discriminate].
Qed.

Lemma named_new_object g p name : Rep g -> Named g -> Named (fst (new_object fmt lower g p name)).
Proof.
  intros [R1 [R2 [R3 R4]]] [[r [Hr Ir]] Hn]. unfold new_object.
  destruct (g_st g p) as [po|] eqn:Hp; [|split; [exists r; split; assumption|exact Hn]].
  destruct (memb p (g_tabs g)); [split; [exists r; split; assumption|exact Hn]|].
  cbn [fst]. split.
  - cbn [g_st]. unfold upd. destruct (0 =? p) eqn:E0.
    + apply Nat.eqb_eq in E0. subst p. rewrite Hr in Hp. inversion Hp; subst po.
      eexists. split; [reflexivity|exact Ir].
    + destruct (0 =? g_next g) eqn:E1; [apply Nat.eqb_eq in E1; lia|]. exists r. split; assumption.
  - intros k o Hk H. cbn [g_st] in H. unfold upd in H.
    destruct (k =? p) eqn:E0.
    + apply Nat.eqb_eq in E0. subst k. inversion H; subst o. cbn [o_id o_name]. apply (Hn p po Hk Hp).
    + destruct (k =? g_next g) eqn:E1.
      * inversion H; subst o. reflexivity.
      * apply (Hn k o Hk H).
Qed.

Lemma named_ensure_child : forall path g p, Rep g -> WF g -> node g p -> Named g ->
  Named (fst (ensure_child fmt lower g p path)).
Proof.
  induction path as [|n rest IH]; intros g p R W Np Nm; [exact Nm|].
  destruct (node_st lower g p W Np) as [po [Hp _]].
  cbn [ensure_child]. rewrite Hp.
  destruct (lookup (lower (fmt n)) (o_cmap po)) as [c|] eqn:Lk.
  - assert (Lc : listed g c).
    { apply lookup_in in Lk. destruct (wf_children _ _ W p po Np Hp) as [C1 C2]. apply C1. eapply C2, Lk. }
    apply IH; try assumption. right. exact Lc.
  - destruct (in_dec Nat.eq_dec p (g_tabs g)) as [Tp|Tp].
    + rewrite (new_object_table fmt lower g p n Tp). apply IH; assumption.
    + pose proof (new_object_inv fmt lower g p n R W Np) as NI.
      assert (Hfree : forall po0, g_st g p = Some po0 -> lookup (lower (fmt n)) (o_cmap po0) = None).
      { intros po0 H0. rewrite Hp in H0. inversion H0; subst. exact Lk. }
      specialize (NI Hfree Tp). cbn zeta in NI.
      pose proof (named_new_object g p n R Nm) as Nm1.
      destruct (new_object fmt lower g p n) as [g1 c]. cbn [fst snd] in *.
      destruct NI as [R1 [W1 [Lc _]]].
      apply IH; try assumption. right. exact Lc.
Qed.

Lemma named_ensure_child_edge : forall path g p, Rep g -> WF g -> node g p -> Named g ->
  Named (fst (ensure_child_edge fmt lower g p path)).
Proof.
  induction path as [|n rest IH]; intros g p R W Np Nm; [exact Nm|].
  cbn [ensure_child_edge]. destruct (memb p (g_tabs g)); [exact Nm|].
  pose proof (ensure_child_inv fmt lower [n] g p R W Np) as I1. cbn zeta in I1.
  pose proof (named_ensure_child [n] g p R W Np Nm) as Nm1.
  destruct (ensure_child fmt lower g p [n]) as [g1 c]. cbn [fst snd] in *.
  destruct I1 as [R1 [W1 [N1 _]]]. apply IH; assumption.
Qed.

Lemma named_make_table g k : Named g -> Named (make_table g k).
Proof.
  intros [[r [Hr Ir]] Hn]. unfold make_table.
  destruct (g_st g k) as [o|] eqn:Ho; [|split; [exists r; split; assumption|exact Hn]].
  match goal with |- Named (if ?c then _ else _) => destruct c end; [|split; [exists r; split; assumption|exact Hn]].
  split.
  - cbn [g_st]. unfold upd. destruct (0 =? k) eqn:E.
    + apply Nat.eqb_eq in E. subst k. rewrite Hr in Ho. inversion Ho; subst o. eexists. split; [reflexivity|exact Ir].
    + exists r. split; assumption.
  - intros x ox Hx H. cbn [g_st] in H. unfold upd in H. destruct (x =? k) eqn:E.
    + apply Nat.eqb_eq in E. subst x. inversion H; subst ox. cbn [o_id o_name]. apply (Hn k o Hx Ho).
    + apply (Hn x ox Hx H).
Qed.

(* Connect's index invariant: no two connections agree on end points, arrows and index, and every index is
   below the number of connections of its class *)
Definition class_count (e : edge) (l : list edge) : nat :=
  length (filter (same_class (e_src e) (e_dst e) (e_sa e) (e_da e)) l).

Definition EdgeInv (g : graph) : Prop :=
  NoDup (map ekey (g_edges g)) /\ (forall e, In e (g_edges g) -> e_idx e < class_count e (g_edges g)).

Lemma same_class_refl e : same_class (e_src e) (e_dst e) (e_sa e) (e_da e) e = true.
Proof. unfold same_class. rewrite !Nat.eqb_refl, !eqb_reflx. reflexivity. Qed.

Lemma same_class_refl_mk s d sa da n : same_class s d sa da (mkEdge s d sa da n) = true.
Proof. unfold same_class. simpl. rewrite !Nat.eqb_refl, !eqb_reflx. reflexivity. Qed.

Lemma edgeinv_add g s d sa da :
  EdgeInv g ->
  let e := mkEdge s d sa da (length (filter (same_class s d sa da) (g_edges g))) in
  NoDup (map ekey (g_edges g ++ [e])) /\ (forall e', In e' (g_edges g ++ [e]) -> e_idx e' < class_count e' (g_edges g ++ [e])).
Proof.
  intros [ND B] e. subst e. split.
  - rewrite map_app. cbn [map].
    set (n := length (filter (same_class s d sa da) (g_edges g))).
    assert (NI : ~ In (ekey (mkEdge s d sa da n)) (map ekey (g_edges g))).
    { intro H. apply in_map_iff in H as [e' [K He']]. unfold ekey in K. cbn in K.
      inversion K as [[K1 K2 K3 K4 K5]].
      pose proof (B e' He') as L. unfold class_count in L. rewrite K1, K2, K3, K4 in L. fold n in L. lia. }
    clear B. induction (map ekey (g_edges g)) as [|x tl IH]; simpl.
    + constructor; [intros []|constructor].
    + inversion ND; subst. constructor.
      * rewrite in_app_iff. intros [H|[H|[]]]; [contradiction|]. apply NI. left. symmetry. exact H.
      * apply IH; [assumption|]. intro H. apply NI. right. exact H.
  - intros e' H. unfold class_count. rewrite filter_app, app_length.
    apply in_app_or in H as [H|[H|[]]].
    + pose proof (B e' H). unfold class_count in *. lia.
    + subst e'. cbn [filter e_src e_dst e_sa e_da e_idx]. rewrite same_class_refl_mk. simpl. lia.
Qed.

Lemma edgeinv_init : EdgeInv init.
Proof. split; [constructor|intros e []]. Qed.

Lemma edgeinv_same_edges g g' : g_edges g' = g_edges g -> EdgeInv g -> EdgeInv g'.
Proof. unfold EdgeInv. intros E H. rewrite E. exact H. Qed.

(* all invariants along every operation sequence that does not turn the root into a class / sql_table *)
Definition Inv (g : graph) : Prop := Rep g /\ WF g /\ Named g /\ EdgeInv g /\ ~ In 0 (g_tabs g).

Lemma inv_ensure_child g p path : Inv g -> node g p ->
  let g' := fst (ensure_child fmt lower g p path) in
  let r := snd (ensure_child fmt lower g p path) in
  Inv g' /\ node g' r /\ (path <> [] -> listed g' r \/ (r = p /\ In p (g_tabs g))).
Proof.
  intros [R [W [Nm [EI T0]]]] Np.
  pose proof (ensure_child_inv fmt lower path g p R W Np) as I. cbn zeta in I.
  destruct I as [R' [W' [N' [L' [M' [E' T']]]]]]. cbn zeta.
  split; [|split; assumption].
  split; [exact R'|split; [exact W'|split; [|split]]].
  - apply named_ensure_child; assumption.
  - eapply edgeinv_same_edges; eassumption.
  - rewrite T'. exact T0.
Qed.

Lemma inv_connect g p src dst sa da : Inv g -> node g p -> src <> [] -> dst <> [] ->
  Inv (connect fmt lower g p src dst sa da).
Proof.
  intros [R [W [Nm [EI T0]]]] Np Hs Hd.
  assert (Hp : listed g p \/ ~ In p (g_tabs g)) by (destruct Np as [E|L]; [right; subst p; exact T0|left; exact L]).
  destruct (connect_inv fmt lower g p src dst sa da R W Np Hp Hs Hd) as [R' [W' T']].
  split; [exact R'|split; [exact W'|]].
  unfold connect in *.
  pose proof (ensure_child_edge_inv fmt lower src g p R W Np) as I1. cbn zeta in I1.
  pose proof (named_ensure_child_edge src g p R W Np Nm) as Nm1.
  destruct (ensure_child_edge fmt lower g p src) as [g1 s]. cbn [fst snd] in *.
  destruct I1 as [R1 [W1 [_ [_ [M1 [E1 T1]]]]]].
  assert (Np1 : node g1 p) by (destruct Np as [E|L]; [left; exact E|right; apply M1, L]).
  pose proof (ensure_child_edge_inv fmt lower dst g1 p R1 W1 Np1) as I2. cbn zeta in I2.
  pose proof (named_ensure_child_edge dst g1 p R1 W1 Np1 Nm1) as Nm2.
  destruct (ensure_child_edge fmt lower g1 p dst) as [g2 d]. cbn [fst snd] in *.
  destruct I2 as [_ [_ [_ [_ [_ [E2 T2]]]]]].
  assert (EI2 : EdgeInv g2) by (apply (edgeinv_same_edges g g2); [rewrite E2; exact E1|exact EI]).
  destruct (edgeinv_add g2 s d sa da EI2) as [A B].
  split; [exact Nm2|split; [split; assumption|]].
  cbn [g_tabs]. rewrite T2, T1. exact T0.
Qed.

Lemma inv_apply_op g o : Inv g -> o <> OpTable [] -> Inv (apply_op fmt lower g o).
Proof.
  intros I Ho. destruct o as [scope path|scope src dst sa da|scope]; cbn [apply_op].
  - destruct (inv_ensure_child g 0 scope I (or_introl eq_refl)) as [I1 [N1 _]].
    destruct (ensure_child fmt lower g 0 scope) as [g1 s]. cbn [fst snd] in *.
    apply (inv_ensure_child g1 s path I1 N1).
  - destruct src as [|s0 src]; [exact I|]. destruct dst as [|d0 dst]; [exact I|].
    destruct (inv_ensure_child g 0 scope I (or_introl eq_refl)) as [I1 [N1 _]].
    destruct (ensure_child fmt lower g 0 scope) as [g1 s]. cbn [fst snd] in *.
    apply inv_connect; try assumption; discriminate.
  - destruct (inv_ensure_child g 0 scope I (or_introl eq_refl)) as [I1 [N1 L1]].
    destruct (ensure_child fmt lower g 0 scope) as [g1 s]. cbn [fst snd] in *.
    destruct I1 as [R1 [W1 [Nm1 [EI1 T1]]]].
    destruct (make_table_inv lower g1 s R1 W1 N1) as [R2 [W2 [T2 E2]]].
    split; [exact R2|split; [exact W2|split; [apply named_make_table, Nm1|split]]].
    + eapply edgeinv_same_edges; eassumption.
    + intro H. destruct (T2 0 H) as [E|H0]; [|contradiction].
      destruct scope as [|n rest]; [congruence|].
      destruct L1 as [L|[_ T]]; [discriminate| |destruct I as [_ [_ [_ [_ T0]]]]; contradiction].
      subst s. destruct (wf_rootobj _ _ W1) as [N0 _]. contradiction.
Qed.

Lemma inv_ops ops : forall g, Inv g -> Forall (fun o => o <> OpTable []) ops ->
  Inv (fold_left (apply_op fmt lower) ops g).
Proof.
  induction ops as [|o ops IH]; intros g I F; simpl; [exact I|].
  inversion F; subst. apply IH; [apply inv_apply_op; assumption|assumption].
Qed.

Lemma inv_run ops : Forall (fun o => o <> OpTable []) ops -> Inv (run_ops fmt lower ops).
Proof.
  intro F. apply inv_ops; [|exact F].
  split; [apply rep_init|split; [apply wf_init|split; [apply named_init|split; [apply edgeinv_init|intros []]]]].
Qed.

(* ------------------------------------------------------------------ the theorems *)

Lemma root_parent_none g : WF g -> parent g 0 = None.
Proof. intro W. destruct (wf_rootobj _ _ W) as [_ [r [H1 [H2 _]]]]. unfold parent. rewrite H1. exact H2. Qed.

(* the executable functions agree with the path relation on listed objects *)
Lemma abs_ids_spec g k : WF g -> listed g k ->
  exists ids names, ipath g k ids names /\ abs_ids g k = ids /\ name_path g k = names /\ ids <> [].
Proof.
  intros W L. destruct (wf_reach _ _ W k L) as [n Hn].
  destruct (ipath_exists lower g W n k (or_intror L) Hn) as [ids [names [IP Len]]].
  pose proof (depth_bound lower g n k W L Hn) as DB.
  assert (Ne : ids <> []).
  { intro E. rewrite E in Len. simpl in Len. rewrite <- Len in Hn. simpl in Hn. inversion Hn as [Hk].
    rewrite Hk in L. destruct (wf_rootobj _ _ W) as [N0 _]. contradiction. }
  destruct (abs_ids_f_ipath g k ids names IP (root_parent_none g W) (S (length (g_objs g)))) as [A B]; [lia|].
  exists ids, names. split; [exact IP|split; [exact A|split; [exact B|exact Ne]]].
Qed.

Lemma ipath_named g : Named g -> WF g -> forall k ids names, ipath g k ids names -> ids = map obj_id names.
Proof.
  intros [_ Hn] W k ids names IP. induction IP as [|k o p ids names Ho Hp IP IH]; [reflexivity|].
  rewrite map_app. simpl. rewrite IH. f_equal. f_equal.
  apply (Hn k o); [|exact Ho]. intro E. subst k.
  destruct (wf_rootobj _ _ W) as [_ [r [H1 [H2 _]]]]. rewrite H1 in Ho. inversion Ho; subst. congruence.
Qed.

Lemma absid_parses_back g k : WF g -> Named g -> listed g k ->
  Forall (fun n => key_hazard n = false) (name_path g k) ->
  parse_key (abs_id g k) = POk (name_path g k).
Proof.
  intros W Nm L Hz.
  destruct (abs_ids_spec g k W L) as [ids [names [IP [A [B Ne]]]]].
  pose proof (ipath_named g Nm W k ids names IP) as Nn.
  unfold abs_id. rewrite A, Nn. rewrite B in Hz |- *.
  apply path_parses_back; [|exact Hz]. intro E. apply Ne. rewrite Nn, E. reflexivity.
Qed.

Lemma absid_injective g k1 k2 : class_pres lr -> WF g -> Named g -> listed g k1 -> listed g k2 ->
  map lr (abs_id g k1) = map lr (abs_id g k2) -> k1 = k2.
Proof.
  intros CP W Nm L1 L2 E.
  destruct (abs_ids_spec g k1 W L1) as [ids1 [names1 [IP1 [A1 [_ Ne1]]]]].
  destruct (abs_ids_spec g k2 W L2) as [ids2 [names2 [IP2 [A2 [_ Ne2]]]]].
  unfold abs_id in E. rewrite A1, A2 in E.
  pose proof (ipath_named g Nm W k1 ids1 names1 IP1) as N1.
  pose proof (ipath_named g Nm W k2 ids2 names2 IP2) as N2.
  assert (names1 <> []) by (intro X; subst names1; apply Ne1; rewrite N1; reflexivity).
  assert (names2 <> []) by (intro X; subst names2; apply Ne2; rewrite N2; reflexivity).
  rewrite N1, N2 in E.
  pose proof (joined_lower_inj lr names1 names2 CP H H0 E) as E'.
  rewrite <- N1, <- N2 in E'.
  eapply (ipath_inj lower g W k1 ids1 names1 IP1 (or_intror L1) k2 ids2 names2 IP2 (or_intror L2)). exact E'.
Qed.

(* the ID array alone (no text) already determines the object, up to case *)
Lemma abs_ids_injective g k1 k2 : WF g -> listed g k1 -> listed g k2 ->
  map lower (abs_ids g k1) = map lower (abs_ids g k2) -> k1 = k2.
Proof.
  intros W L1 L2 E.
  destruct (abs_ids_spec g k1 W L1) as [ids1 [names1 [IP1 [A1 _]]]].
  destruct (abs_ids_spec g k2 W L2) as [ids2 [names2 [IP2 [A2 _]]]].
  rewrite A1, A2 in E.
  eapply (ipath_inj lower g W k1 ids1 names1 IP1 (or_intror L1) k2 ids2 names2 IP2 (or_intror L2)). exact E.
Qed.

Lemma edge_id_unique g i j e1 e2 : WF g -> NoDup (map ekey (g_edges g)) ->
  nth_error (g_edges g) i = Some e1 -> nth_error (g_edges g) j = Some e2 ->
  map lower (abs_ids g (e_src e1)) = map lower (abs_ids g (e_src e2)) ->
  map lower (abs_ids g (e_dst e1)) = map lower (abs_ids g (e_dst e2)) ->
  e_sa e1 = e_sa e2 -> e_da e1 = e_da e2 -> e_idx e1 = e_idx e2 -> i = j.
Proof.
  intros W ND H1 H2 Es Ed Ea Eb Ei.
  assert (In1 : In e1 (g_edges g)) by (eapply nth_error_In; exact H1).
  assert (In2 : In e2 (g_edges g)) by (eapply nth_error_In; exact H2).
  destruct (wf_edges _ _ W e1 In1) as [S1 D1]. destruct (wf_edges _ _ W e2 In2) as [S2 D2].
  assert (e_src e1 = e_src e2) by (apply (abs_ids_injective g); assumption).
  assert (e_dst e1 = e_dst e2) by (apply (abs_ids_injective g); assumption).
  assert (K : ekey e1 = ekey e2) by (unfold ekey; congruence).
  assert (Li : i < length (map ekey (g_edges g))).
  { rewrite map_length. apply nth_error_Some. congruence. }
  apply (proj1 (NoDup_nth_error (map ekey (g_edges g))) ND i j Li).
  rewrite !nth_error_map, H1, H2. simpl. f_equal. exact K.
Qed.

End Ops.
