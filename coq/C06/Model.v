(* C06 — object and connection IDs are valid, unambiguous D2 key paths.
   Model of the ID functions of d2graph on top of the C09 graph model and the C05 printer/parser model:
     obj_id name      Object.ID as computed by newObject = d2format.Format(KeyPath{RawString(name,true)})
     abs_ids g k      Object.AbsIDArray()
     abs_id g k       Object.AbsID()  (the IDs from below the root down to the object, joined by ".")
     edge_id g e      Edge.AbsID()    (common container prefix, "(src arrow dst)[index]")
   strings.ToLower is V.C09.Lower.to_lower; strings.EqualFold is modelled through the canonical
   representative of a rune's unicode.SimpleFold orbit (table regenerated from the Go toolchain). *)
From Coq Require Import List NArith Bool Arith.
Import ListNotations.
Require Import V.Gen.C06Tables.
Require Import V.C05.Model V.C09.Graph V.C09.Lower.

Definition obj_id (name : list N) : list N := print_raw true name.

Fixpoint join_dots (ids : list (list N)) : list N :=
  match ids with
  | [] => []
  | x :: tl => match tl with [] => x | _ => x ++ cDOT :: join_dots tl end
  end.

(* AbsIDArray: nil for the root, parent's array ++ [ID] otherwise *)
Fixpoint abs_ids_f (g : graph) (fuel : nat) (k : nat) : list (list N) :=
  match fuel with
  | O => []
  | S f => match g_st g k with
           | None => []
           | Some o => match o_parent o with
                       | None => []
                       | Some p => abs_ids_f g f p ++ [o_id o]
                       end
           end
  end.

Definition abs_ids (g : graph) (k : nat) : list (list N) := abs_ids_f g (S (length (g_objs g))) k.
Definition abs_id (g : graph) (k : nat) : list N := join_dots (abs_ids g k).

(* the names along the same chain *)
Fixpoint names_f (g : graph) (fuel : nat) (k : nat) : list (list N) :=
  match fuel with
  | O => []
  | S f => match g_st g k with
           | None => []
           | Some o => match o_parent o with
                       | None => []
                       | Some p => names_f g f p ++ [o_name o]
                       end
           end
  end.
Definition name_path (g : graph) (k : nat) : list (list N) := names_f g (S (length (g_objs g))) k.

(* ------------------------------------------------------------------ strings.EqualFold *)

Open Scope N_scope.

Definition fold_canon (r : N) : N := if r <? 65 then r else lower_lookup r fold_ranges.
Definition equal_fold_full (a b : list N) : bool := Graph.str_eqb (map fold_canon a) (map fold_canon b).

(* ------------------------------------------------------------------ Edge.AbsID *)

Fixpoint common_prefix (s d : list (list N)) : list (list N) * list (list N) * list (list N) :=
  match s, d with
  | x :: (_ :: _) as s', y :: (_ :: _) as d' =>
      if equal_fold_full x y
      then let '(c, s2, d2) := common_prefix s' d' in (x :: c, s2, d2)
      else ([], s, d)
  | _, _ => ([], s, d)
  end.

Definition arrow_string (sa da : bool) : list N :=
  match sa, da with
  | true, true => [cLT; cDASH; cGT]
  | true, false => [cLT; cDASH]
  | false, true => [cDASH; cGT]
  | false, false => [cDASH; cDASH]
  end.

(* decimal digits of a natural number (strconv / %d) *)
Fixpoint digits_pos (fuel : nat) (n : N) (acc : list N) : list N :=
  match fuel with
  | O => acc
  | S f => if n <? 10 then (48 + n) :: acc else digits_pos f (n / 10) ((48 + n mod 10) :: acc)
  end.
Definition decimal (n : nat) : list N := digits_pos 40 (N.of_nat n) [].

Definition edge_id (g : graph) (e : edge) : list N :=
  let '(c, s, d) := common_prefix (abs_ids g (e_src e)) (abs_ids g (e_dst e)) in
  (match c with [] => [] | _ => join_dots c ++ [cDOT] end)
  ++ [cLP] ++ join_dots s ++ [cSP] ++ arrow_string (e_sa e) (e_da e) ++ [cSP] ++ join_dots d
  ++ [41; cLB] ++ decimal (e_idx e) ++ [cRB].

(* the structured connection ID the theorem is about: end points' ID arrays, arrows, index *)
Definition edge_sid (g : graph) (e : edge) : list (list N) * list (list N) * bool * bool * nat :=
  (abs_ids g (e_src e), abs_ids g (e_dst e), e_sa e, e_da e, e_idx e).

Close Scope N_scope.

(* ------------------------------------------------------------------ splitting an ID path at its top-level dots *)

(* lexer states: unquoted text / inside "..." / after a backslash inside "..." / inside '...' *)
Inductive qstate := QU | QD | QDE | QS.

Fixpoint split_top (st : qstate) (cur : list N) (l : list N) : list (list N) :=
  match l with
  | [] => [cur]
  | r :: tl =>
      match st with
      | QU => if N.eqb r cDOT then cur :: split_top QU [] tl
              else if N.eqb r cDQ then split_top QD (cur ++ [r]) tl
              else if N.eqb r cSQ then split_top QS (cur ++ [r]) tl
              else split_top QU (cur ++ [r]) tl
      | QD => if N.eqb r cBSL then split_top QDE (cur ++ [r]) tl
              else if N.eqb r cDQ then split_top QU (cur ++ [r]) tl
              else split_top QD (cur ++ [r]) tl
      | QDE => split_top QD (cur ++ [r]) tl
      | QS => if N.eqb r cSQ then split_top QU (cur ++ [r]) tl else split_top QS (cur ++ [r]) tl
      end
  end.

(* the index invariant of Connect / initIndex, in a form that does not depend on the listing order *)
Definition ekey (e : edge) : nat * nat * bool * bool * nat := (e_src e, e_dst e, e_sa e, e_da e, e_idx e).

Definition ekey_eqb (a b : edge) : bool :=
  (e_src a =? e_src b) && (e_dst a =? e_dst b) && Bool.eqb (e_sa a) (e_sa b) && Bool.eqb (e_da a) (e_da b)
  && (e_idx a =? e_idx b).

Fixpoint edges_distinct_b (l : list edge) : bool :=
  match l with
  | [] => true
  | e :: tl => negb (existsb (ekey_eqb e) tl) && edges_distinct_b tl
  end.
