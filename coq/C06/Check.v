(* Executable checker for C06 cases. *)
From Coq Require Import List NArith Bool Arith.
Import ListNotations.
Require Import V.Lib.RunCases V.C05.Model V.C09.Lower.
Require Export V.C09.Graph.
Require Import V.C06.Model.
Open Scope nat_scope.

(* what the implementation returned for one listed object: Object.AbsID(), ParseKey(ID), ParseKey(AbsID) *)
Inductive oinfo := OInfo (absid : list N) (id_parsed absid_parsed : option (list (list N))).

(* ... and for one connection: Edge.AbsID(), and ParseMapKey of it projected to
   (key path, source path, destination path, source arrow, destination arrow, index) *)
Inductive einfo :=
| EInfo (absid : list N)
        (parsed : option (list (list N) * list (list N) * list (list N) * bool * bool * nat)).

(* one compiled board: the C09 snapshot (o_name = scalar string of the name segment of the object's first
   reference, or IDVal when it has none) plus the ID observations, aligned with objs / edges *)
Inductive case :=
| CIds (store : list obj) (objs : list nat) (edges : list edge) (oi : list oinfo) (ei : list einfo)
    (* structure: model text vs implementation text, collisions, index invariant *)
| CParse (store : list obj) (objs : list nat) (edges : list edge) (oi : list oinfo) (ei : list einfo).
    (* the IDs parse back to the name paths *)

Definition strs_eqb : list (list N) -> list (list N) -> bool := list_eqb Graph.str_eqb.

(* model ParseKey vs implementation ParseKey; PUns = outside the model: not compared *)
Definition key_corr (text : list N) (parsed : option (list (list N))) : bool :=
  match parse_key text with
  | PUns => true
  | PErr => match parsed with None => true | _ => false end
  | POk p => match parsed with Some q => strs_eqb p q | None => false end
  end.

Fixpoint strs_nodup (l : list (list N)) : bool :=
  match l with
  | [] => true
  | x :: tl => negb (existsb (Graph.str_eqb x) tl) && strs_nodup tl
  end.

Definition o_absid (i : oinfo) : list N := match i with OInfo a _ _ => a end.
Definition e_absid (i : einfo) : list N := match i with EInfo a _ => a end.

Definition obj_at (g : graph) (k : nat) : obj :=
  match g_st g k with Some o => o | None => root_obj end.

Definition check_case (c : case) : list N :=
  match c with
  | CIds store objs edges oi ei =>
      let g := snapshot store objs edges [] in
      flag ((length objs =? length oi) && (length edges =? length ei)) 1
      (* the model's ID, absolute ID and connection ID texts are the implementation's *)
      ++ flag (forallb (fun k => Graph.str_eqb (obj_id (o_name (obj_at g k))) (o_id (obj_at g k))) objs) 1
      ++ flag (forallb (fun ki => Graph.str_eqb (abs_id g (fst ki)) (o_absid (snd ki))) (combine objs oi)) 1
      ++ flag (forallb (fun ei => Graph.str_eqb (edge_id g (fst ei)) (e_absid (snd ei))) (combine edges ei)) 1
      (* the model parser agrees with ParseKey on the IDs *)
      ++ flag (forallb (fun ki => match snd ki with OInfo a ip ap =>
                                    key_corr (o_id (obj_at g (fst ki))) ip && key_corr a ap end) (combine objs oi)) 1
      (* distinct objects: distinct absolute IDs ignoring case, with ToLower (d2graph's Children keys) ... *)
      ++ flag (strs_nodup (map (fun i => to_lower (o_absid i)) oi)) 12
      (* ... and with EqualFold (d2graph.FindEdges, Edge.AbsID) *)
      ++ flag (strs_nodup (map (fun i => map fold_canon (o_absid i)) oi)) 13
      (* a connection ID names one connection *)
      ++ flag (strs_nodup (map e_absid ei)) 14
      ++ flag (edges_distinct_b edges) 16
  | CParse store objs edges oi ei =>
      let g := snapshot store objs edges [] in
      flag ((length objs =? length oi) && (length edges =? length ei)) 1
      ++ flag (forallb (fun ki => match snd ki with OInfo _ ip _ =>
                 match ip with Some [n] => Graph.str_eqb n (o_name (obj_at g (fst ki))) | _ => false end end)
               (combine objs oi)) 10
      ++ flag (forallb (fun ki => match snd ki with OInfo _ _ ap =>
                 match ap with Some p => strs_eqb p (name_path g (fst ki)) | None => false end end)
               (combine objs oi)) 11
      ++ flag (forallb (fun ee => match snd ee with EInfo _ p =>
                 match p with
                 | Some (c, s, d, sa, da, idx) =>
                     strs_eqb (c ++ s) (name_path g (e_src (fst ee))) && strs_eqb (c ++ d) (name_path g (e_dst (fst ee)))
                     && Bool.eqb sa (e_sa (fst ee)) && Bool.eqb da (e_da (fst ee)) && (idx =? e_idx (fst ee))
                 | None => false
                 end end) (combine edges ei)) 15
  end.
