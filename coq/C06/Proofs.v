(* C06 — proofs live in ParsePath.v (a joined path of printed segments parses back) and Inject.v
   (case-insensitive injectivity of absolute IDs, index invariant); this file re-exports them. *)
Require Export V.C06.ParsePath V.C06.Inject.
