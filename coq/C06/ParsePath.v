(* C06 — a dot-joined path of printed key segments parses back to the names.
   Extends the single-segment lemmas of V.C05 (scan_unq_key, parse_key_single, key_roundtrip) from
   "the segment is followed by the end of input" to "the segment is followed by '.' and more text",
   then runs parse_key_loop over the whole path. *)
From Coq Require Import List NArith Bool Lia.
Import ListNotations.
Require Import V.Gen.C05Tables V.C05.Model V.C05.Proofs V.C05.Roundtrip.
Require Import V.C06.Model.
Open Scope N_scope.

(* what may follow a segment: nothing, or a dot *)
Definition okrest (rest : str) : Prop := match rest with [] => True | c :: _ => c = cDOT end.

Lemma scan_unq_key_rest s : forall acc rest, key_needs_quote s = false -> okrest rest ->
  scan_unq true (s ++ rest) acc = POk (acc ++ s, rest).
Proof.
  induction s as [|r tl IH]; intros acc rest H OK.
  - rewrite app_nil_r. destruct rest as [|c rest']; [reflexivity|].
    simpl in OK. subst c. reflexivity.
  - cbn [key_needs_quote] in H.
    destruct ((r =? cDASH) && match tl with r2 :: _ => negb (r2 =? cDASH) | [] => false end) eqn:E.
    + apply andb_prop in E as [Ea Eb]. apply N.eqb_eq in Ea. subst r.
      destruct tl as [|r2 tl2]; [discriminate Eb|]. apply negb_true_iff in Eb.
      assert (M2 : mem r2 key_specials = false).
      { cbn [key_needs_quote] in H. rewrite Eb in H. cbn [andb] in H.
        destruct (mem r2 key_specials); [discriminate H|reflexivity]. }
      assert (T2 : is_top_delim r2 = false).
      { unfold is_top_delim.
        assert ((r2 =? cNL) = false) as -> by kneq M2 cNL. assert ((r2 =? cSEMI) = false) as -> by kneq M2 cSEMI.
        assert ((r2 =? cHASH) = false) as -> by kneq M2 cHASH. assert ((r2 =? cLC) = false) as -> by kneq M2 cLC.
        assert ((r2 =? cRC) = false) as -> by kneq M2 cRC. assert ((r2 =? cLB) = false) as -> by kneq M2 cLB.
        assert ((r2 =? cRB) = false) as -> by kneq M2 cRB. reflexivity. }
      assert (G2 : (r2 =? cGT) = false) by kneq M2 cGT.
      assert (S2 : (r2 =? cSTAR) = false) by kneq M2 cSTAR.
      assert (B2 : (r2 =? cBSL) = false) by kneq M2 cBSL.
      change ((cDASH :: r2 :: tl2) ++ rest) with (cDASH :: r2 :: (tl2 ++ rest)).
      cbn [scan_unq]. change (is_top_delim cDASH) with false. change (is_key_delim cDASH) with false.
      change (cDASH =? cDASH) with true. cbn [andb].
      rewrite T2, Eb, G2, S2, B2. cbn [orb negb andb].
      rewrite <- (scan_unq_key_plain r2 (tl2 ++ rest) (acc ++ [cDASH]) M2).
      change (r2 :: tl2 ++ rest) with ((r2 :: tl2) ++ rest).
      rewrite IH by assumption. rewrite app_assoc1. reflexivity.
    + destruct (mem r key_specials) eqn:M; [discriminate H|].
      change ((r :: tl) ++ rest) with (r :: (tl ++ rest)).
      rewrite scan_unq_key_plain by exact M. rewrite IH by assumption. rewrite app_assoc1. reflexivity.
Qed.

Definition at_check (f : sform) (v : str) : bool :=
  match f, v with SUnq, c :: _ => c =? cAT | _, _ => false end.

(* the three printed forms, followed by an admissible rest *)
Lemma parse_string_dq s rest :
  parse_string true ((cDQ :: escape_dq true s ++ [cDQ]) ++ rest) = POk (Some (SDq, s), rest).
Proof.
  change ((cDQ :: escape_dq true s ++ [cDQ]) ++ rest) with (cDQ :: ((escape_dq true s ++ [cDQ]) ++ rest)).
  rewrite app_assoc1.
  cbn [parse_string]. change (cDQ =? cDQ) with true. cbn iota.
  rewrite (scan_dq_escape true s [] rest). reflexivity.
Qed.

Lemma parse_string_sq s rest : mem cNL s = false -> okrest rest ->
  parse_string true ((cSQ :: escape_sq s ++ [cSQ]) ++ rest) = POk (Some (SSq, s), rest).
Proof.
  intros H OK.
  change ((cSQ :: escape_sq s ++ [cSQ]) ++ rest) with (cSQ :: ((escape_sq s ++ [cSQ]) ++ rest)).
  rewrite app_assoc1.
  cbn [parse_string]. change (cSQ =? cDQ) with false. change (cSQ =? cSQ) with true. cbn iota.
  rewrite (scan_sq_escape s [] rest H); [reflexivity|].
  destruct rest as [|c rest']; [exact I|]. simpl in OK. subst c. reflexivity.
Qed.

Lemma parse_string_unq r tl rest :
  key_needs_quote (r :: tl) = false -> has_surrounding_ws (r :: tl) = false -> okrest rest ->
  parse_string true ((r :: tl) ++ rest) = POk (Some (SUnq, r :: tl), rest)
  /\ is_space r = false /\ (r =? cLP) = false /\ (r =? cDOT) = false /\ (r =? cAT) = false.
Proof.
  intros Hq Hws OK. destruct (surrounding_ws_false r tl Hws) as [Hsp Hlast].
  assert (F : (r =? cLP) = false /\ (r =? cDOT) = false /\ (r =? cDQ) = false /\ (r =? cSQ) = false
              /\ (r =? cPIPE) = false /\ (r =? cAT) = false).
  { destruct (key_first r tl Hq) as [E|M].
    - subst r. repeat split; reflexivity.
    - repeat split; [kneq M cLP|kneq M cDOT|kneq M cDQ|kneq M cSQ|kneq M cPIPE|kneq M cAT]. }
  destruct F as [F1 [F2 [F3 [F4 [F5 F6]]]]].
  split; [|repeat split; assumption].
  change ((r :: tl) ++ rest) with (r :: (tl ++ rest)).
  unfold parse_string. rewrite F3, F4, F5.
  change (r :: tl ++ rest) with ((r :: tl) ++ rest).
  rewrite (scan_unq_key_rest (r :: tl) [] rest Hq OK). cbn [app].
  rewrite (trim_right_id (r :: tl)); [reflexivity|discriminate|exact Hlast].
Qed.

(* one printed segment (no hazard) in front of an admissible rest *)
Lemma parse_string_printed s rest : key_hazard s = false -> okrest rest ->
  exists f hd tl,
    print_raw true s = hd :: tl /\ is_space hd = false /\ (hd =? cLP) = false /\ (hd =? cDOT) = false /\
    parse_string true (print_raw true s ++ rest) = POk (Some (f, s), rest) /\ at_check f s = false.
Proof.
  intros Hz OK.
  destruct s as [|r tl].
  { exists SDq, cDQ, [cDQ]. repeat split; reflexivity. }
  unfold key_hazard in Hz. unfold print_raw.
  remember (r :: tl) as s eqn:Es.
  assert (RF : raw_form s true =
    if equal_fold s w_null && negb (str_eqb s w_null) then FDq
    else if key_needs_quote s then (if negb (mem cDQ s) then FDq else if mem cNL s then FDq else FSq)
    else if has_surrounding_ws s then FDq else FUnq).
  { subst s. reflexivity. }
  rewrite RF in *. clear RF.
  assert (DQ : exists f hd tl0,
    print_str FDq true s = hd :: tl0 /\ is_space hd = false /\ (hd =? cLP) = false /\ (hd =? cDOT) = false /\
    parse_string true (print_str FDq true s ++ rest) = POk (Some (f, s), rest) /\ at_check f s = false).
  { exists SDq, cDQ, (escape_dq true s ++ [cDQ]). repeat split; try reflexivity. apply parse_string_dq. }
  destruct (equal_fold s w_null && negb (str_eqb s w_null)) eqn:E0; [exact DQ|].
  destruct (key_needs_quote s) eqn:E1.
  { destruct (negb (mem cDQ s)); [exact DQ|].
    destruct (mem cNL s) eqn:E2; [exact DQ|].
    exists SSq, cSQ, (escape_sq s ++ [cSQ]). repeat split; try reflexivity.
    apply parse_string_sq; assumption. }
  destruct (has_surrounding_ws s) eqn:E2; [exact DQ|].
  (* unquoted *)
  cbn [print_str].
  destruct (equal_fold s w_null) eqn:E3.
  - (* exactly null: written 'null' *)
    cbn [andb] in E0. apply negb_false_iff in E0. apply Proofs.str_eqb_eq in E0.
    rewrite E0.
    exists SSq, cSQ, (w_null ++ [cSQ]). repeat split; try reflexivity.
    change (lower_kw true (escape_unq true w_null)) with (cSQ :: escape_sq w_null ++ [cSQ]).
    apply parse_string_sq; [reflexivity|exact OK].
  - assert (Esc : escape_unq true s = s).
    { subst s. unfold escape_unq. rewrite E3. apply escape_unq_go_key_id. exact E1. }
    rewrite Esc.
    assert (LK : lower_kw true s = s).
    { unfold lower_kw. cbn [andb]. destruct (is_reserved (lower_str s)) eqn:E4; [|reflexivity].
      cbn [andb] in Hz. apply negb_false_iff in Hz. apply Proofs.str_eqb_eq in Hz. exact Hz. }
    rewrite LK. subst s.
    destruct (parse_string_unq r tl rest E1 E2 OK) as [P [A [B [C D]]]].
    exists SUnq, r, tl. repeat split; assumption.
Qed.

(* one iteration of parseKey's loop *)
Lemma loop_step fuel r tl acc f v rest :
  is_space r = false -> (r =? cLP) = false -> (r =? cDOT) = false ->
  parse_string true (r :: tl) = POk (Some (f, v), rest) -> at_check f v = false ->
  parse_key_loop (S fuel) (r :: tl) acc =
    match snd (skip_space rest false) with
    | [] => match acc ++ [v] with [] => PErr | _ => POk (acc ++ [v]) end
    | r2 :: tl2 =>
        if fst (skip_space rest false) || negb (r2 =? cDOT)
        then match acc ++ [v] with [] => PErr | _ => POk (acc ++ [v]) end
        else parse_key_loop fuel tl2 (acc ++ [v])
    end.
Proof.
  intros Hsp Hlp Hdot Hps Hat.
  cbn [parse_key_loop]. rewrite (skip_space_nonspace r tl Hsp). cbn beta iota.
  rewrite Hlp, Hdot. cbn [orb]. rewrite Hps. unfold at_check in Hat. rewrite Hat.
  destruct (skip_space rest false) as [nl2 l2]. reflexivity.
Qed.

Lemma snoc_not_nil {A} (l : list A) x : l ++ [x] <> [].
Proof. destruct l; discriminate. Qed.

Lemma parse_path names : forall fuel acc,
  names <> [] -> Forall (fun n => key_hazard n = false) names -> (length names <= fuel)%nat ->
  parse_key_loop fuel (join_dots (map obj_id names)) acc = POk (acc ++ names).
Proof.
  induction names as [|n rest IH]; intros fuel acc Hne Hall Hf; [congruence|].
  inversion Hall as [|? ? Hn Hrest]; subst.
  destruct fuel as [|fuel]; [simpl in Hf; lia|].
  destruct rest as [|n2 rest2].
  - (* last segment *)
    cbn [map join_dots].
    destruct (parse_string_printed n [] Hn I) as [f [hd [tl [P [A [B [C [D E]]]]]]]].
    rewrite app_nil_r in D. unfold obj_id. rewrite P in *.
    rewrite (loop_step fuel hd tl acc f n [] A B C D E). cbn [skip_space snd].
    destruct (acc ++ [n]) eqn:Ea; [exfalso; eapply snoc_not_nil; exact Ea|reflexivity].
  - (* segment followed by a dot *)
    change (join_dots (map obj_id (n :: n2 :: rest2)))
      with (obj_id n ++ cDOT :: join_dots (map obj_id (n2 :: rest2))).
    set (J := join_dots (map obj_id (n2 :: rest2))).
    destruct (parse_string_printed n (cDOT :: J) Hn eq_refl) as [f [hd [tl [P [A [B [C [D E]]]]]]]].
    unfold obj_id. rewrite P in *. change ((hd :: tl) ++ cDOT :: J) with (hd :: (tl ++ cDOT :: J)) in *.
    rewrite (loop_step fuel hd (tl ++ cDOT :: J) acc f n (cDOT :: J) A B C D E).
    change (skip_space (cDOT :: J) false) with (false, cDOT :: J). cbn [fst snd].
    change (cDOT =? cDOT) with true. cbn [negb orb].
    unfold J. rewrite IH; [|discriminate|exact Hrest|simpl in *; lia].
    rewrite app_assoc1. reflexivity.
Qed.

Lemma obj_id_nonempty n : obj_id n <> [].
Proof.
  unfold obj_id, print_raw. destruct (raw_form n true); cbn [print_str]; try discriminate.
  unfold lower_kw. destruct n as [|r tl]; [vm_compute; discriminate|].
  assert (E : escape_unq true (r :: tl) <> []).
  { unfold escape_unq. destruct (equal_fold (r :: tl) w_null); [discriminate|].
    cbn [escape_unq_go].
    repeat match goal with |- context [if ?c then _ else _] => destruct c end; discriminate. }
  destruct (true && is_reserved (lower_str (escape_unq true (r :: tl)))); [|exact E].
  unfold lower_str. intro H. apply map_eq_nil in H. contradiction.
Qed.

Lemma join_length names : (length names <= S (length (join_dots (map obj_id names))))%nat.
Proof.
  induction names as [|n rest IH]; [simpl; lia|].
  destruct rest as [|n2 rest2].
  - simpl. lia.
  - change (join_dots (map obj_id (n :: n2 :: rest2)))
      with (obj_id n ++ cDOT :: join_dots (map obj_id (n2 :: rest2))).
    set (J := join_dots (map obj_id (n2 :: rest2))) in *.
    rewrite app_length. change (length (cDOT :: J)) with (S (length J)).
    change (length (n :: n2 :: rest2)) with (S (length (n2 :: rest2))). lia.
Qed.

(* the absolute ID of a name path parses back to the name path *)
Lemma path_parses_back names :
  names <> [] -> Forall (fun n => key_hazard n = false) names ->
  parse_key (join_dots (map obj_id names)) = POk names.
Proof.
  intros Hne Hall. unfold parse_key.
  apply (parse_path names _ [] Hne Hall). apply join_length.
Qed.

Lemma id_parses_back name : key_hazard name = false -> parse_key (obj_id name) = POk [name].
Proof. exact (key_roundtrip name). Qed.
