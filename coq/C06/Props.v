(* C06 — Object and connection IDs are valid, unambiguous D2 key paths.  Statements only.
   obj_id = Object.ID as newObject computes it (C05's print_raw true); abs_id / abs_ids = Object.AbsID /
   AbsIDArray on the C09 graph model; parse_key = d2parser.ParseKey (C05 model); lr stands for the rune
   map of strings.ToLower.  name_path g k = the names of the objects from below the root down to k. *)
From Coq Require Import List NArith Bool Arith.
Import ListNotations.
Require Import V.C05.Model V.C05.Roundtrip V.C09.Graph V.C09.Proofs V.C09.Lower.
Require Import V.C06.Model V.C06.ParsePath V.C06.Inject.

(* every name, any runes, any length: the object's ID parses back to the name (outside the C05 hazard:
   unquoted case variants of reserved keywords, recorded finding C05-reserved-keyword-case-key) *)
Theorem C06_id_parses_back :
  forall name, key_hazard name = false -> parse_key (obj_id name) = POk [name].
Proof. exact id_parses_back. Qed.

(* every non-empty path of names: the dot-joined IDs parse back to the path *)
Theorem C06_path_parses_back :
  forall names, names <> [] -> Forall (fun n => key_hazard n = false) names ->
    parse_key (join_dots (map obj_id names)) = POk names.
Proof. exact path_parses_back. Qed.

(* in every well-formed graph whose objects carry the printed form of their names, the absolute ID of an
   object parses back to its name path *)
Theorem C06_absid_parses_back :
  forall (lr : N -> N) g k, WF (map lr) g -> Named g -> listed g k ->
    Forall (fun n => key_hazard n = false) (name_path g k) ->
    parse_key (abs_id g k) = POk (name_path g k).
Proof. exact absid_parses_back. Qed.

(* distinct objects have distinct absolute IDs, ignoring case (for any rune map that leaves dot, the two quote characters and backslash alone) *)
Theorem C06_absid_injective :
  forall (lr : N -> N) g k1 k2, class_pres lr -> WF (map lr) g -> Named g -> listed g k1 -> listed g k2 ->
    map lr (abs_id g k1) = map lr (abs_id g k2) -> k1 = k2.
Proof. exact absid_injective. Qed.

(* ... in particular for strings.ToLower as regenerated from the Go toolchain *)
Theorem C06_absid_injective_tolower :
  forall g k1 k2, WF to_lower g -> Named g -> listed g k1 -> listed g k2 ->
    to_lower (abs_id g k1) = to_lower (abs_id g k2) -> k1 = k2.
Proof. exact (fun g k1 k2 => absid_injective to_lower_rune g k1 k2 to_lower_class_pres). Qed.

(* a connection is identified by its end points' ID arrays (up to case), its arrows and its index *)
Theorem C06_edge_id_unique :
  forall (lr : N -> N) g i j e1 e2, WF (map lr) g -> NoDup (map ekey (g_edges g)) ->
    nth_error (g_edges g) i = Some e1 -> nth_error (g_edges g) j = Some e2 ->
    map (map lr) (abs_ids g (e_src e1)) = map (map lr) (abs_ids g (e_src e2)) ->
    map (map lr) (abs_ids g (e_dst e1)) = map (map lr) (abs_ids g (e_dst e2)) ->
    e_sa e1 = e_sa e2 -> e_da e1 = e_da e2 -> e_idx e1 = e_idx e2 -> i = j.
Proof. exact edge_id_unique. Qed.

(* the hypotheses hold for every graph built by any number of EnsureChild / Connect / compileClass|SQLTable
   steps (C09's guard: the root of the board is not itself made a class / sql_table) *)
Theorem C06_reachable_graphs :
  forall (lr : N -> N) (ops : list op), Forall (fun o => o <> OpTable []) ops ->
    let g := run_ops obj_id (map lr) ops in
    WF (map lr) g /\ Named g /\ NoDup (map ekey (g_edges g)).
Proof.
  intros lr ops F. destruct (inv_run lr ops F) as [_ [W [Nm [[ND _] _]]]]. cbn zeta. split; [exact W|split; [exact Nm|exact ND]].
Qed.

Theorem C06_edges_distinct_b_reflects :
  forall l, edges_distinct_b l = true <-> NoDup (map ekey l).
Proof. exact edges_distinct_iff. Qed.

(* the guard is necessary (C05): the quoted name Shape gets the ID shape *)
Theorem C06_id_parses_back_refuted_for_keyword_case :
  key_hazard s_Shape = true /\ parse_key (obj_id s_Shape) <> POk [s_Shape].
Proof. exact key_hazard_refutes. Qed.

(* non-vacuity *)
Example C06_hyps_satisfiable :
  Forall (fun n => key_hazard n = false) [[97%N; 46%N; 98%N]; [34%N]; [110%N;117%N;108%N;108%N]; [304%N]]
  /\ class_pres to_lower_rune
  /\ (let g := run_ops obj_id to_lower [OpConnect [] [[97%N]; [66%N]] [[97%N]; [98%N]; [99%N]] false true] in
      WF to_lower g /\ Named g /\ listed g 2 /\ NoDup (map ekey (g_edges g))).
Proof.
  split; [repeat constructor|]. split; [exact to_lower_class_pres|].
  destruct (inv_run to_lower_rune [OpConnect [] [[97%N]; [66%N]] [[97%N]; [98%N]; [99%N]] false true]) as [_ [W [Nm [[ND _] _]]]];
    [repeat constructor; discriminate|].
  cbn zeta. split; [exact W|split; [exact Nm|split; [|exact ND]]]. vm_compute. right. left. reflexivity.
Qed.

Print Assumptions C06_id_parses_back.
Print Assumptions C06_path_parses_back.
Print Assumptions C06_absid_parses_back.
Print Assumptions C06_absid_injective.
Print Assumptions C06_absid_injective_tolower.
Print Assumptions C06_edge_id_unique.
Print Assumptions C06_reachable_graphs.
Print Assumptions C06_edges_distinct_b_reflects.
Print Assumptions C06_id_parses_back_refuted_for_keyword_case.
