(* C30 — rendered SVG is well-formed XML and user strings cannot inject markup.  Statements only.
   Strings are lists of runes.  decode_text / tokenize are the small XML reader of Model.v (character data
   with references; start, empty-element and end tags with quoted attributes); a string for which
   tokenize answers None is not well-formed in that fragment. *)
From Coq Require Import List NArith Bool.
Import ListNotations.
Require Import V.Gen.C30Tables V.C30.Model V.C30.Proofs V.C30.RenderProofs V.C30.ColorProofs.
Open Scope N_scope.

(* (a) lib/svg.EscapeText = encoding/xml.EscapeText: for EVERY rune string the output contains no quote,
   apostrophe or angle bracket and only XML characters, ... *)
Theorem C30_escape_text_safe :
  forall s, Forall (fun c => c <> 34 /\ c <> 39 /\ c <> 60 /\ c <> 62 /\ in_char_range c = true) (escape_text s).
Proof. exact escape_text_safe_all. Qed.

(* ... an XML reader sees it as pure character data (every ampersand opens a well-formed reference) and reads
   back the input, with the runes XML cannot carry replaced by U+FFFD; it may stand in a double-quoted value *)
Theorem C30_escape_text_roundtrip :
  forall s, decode_text (escape_text s) = Some (map sanitize s) /\ val_ok (escape_text s) = true.
Proof. exact escape_text_roundtrip_both. Qed.

Theorem C30_escape_text_identity_on_xml_chars :
  forall s, forallb in_char_range s = true -> decode_text (escape_text s) = Some s.
Proof. exact escape_text_identity. Qed.

(* html.EscapeString (icons, legend labels): markup-safe for every string, but it keeps characters XML forbids *)
Theorem C30_escape_html_markup_safe :
  forall s, forallb (fun c => negb (c =? 34) && negb (c =? 39) && negb (c =? 60) && negb (c =? 62)) (escape_html s) = true.
Proof. exact escape_html_alphabet. Qed.

Theorem C30_escape_html_roundtrip_on_xml_chars :
  forall s, forallb in_char_range s = true -> decode_text (escape_html s) = Some s.
Proof. exact escape_html_decodes. Qed.

Theorem C30_escape_html_wellformed_refuted : exists s, decode_text (escape_html s) = None.
Proof. exact escape_html_control_refuted. Qed.

(* (b) ThemableElement.Render.  el_safe_b: legal tag name and every value about to be written may stand between
   double quotes; raw_consistent: el.Attributes is the printed form of the attribute list raw.
   Then the output is exactly ONE element and its attributes are exactly the expected (name, value) list:
   no user-supplied field can add an attribute or an element. *)
Theorem C30_render_single_element :
  forall (gid : str -> str) el raw pad,
    el_safe_b gid el raw = true -> raw_consistent el raw pad = true ->
    e_content el = [] -> pattern_on el = false ->
    tokenize (render gid el) = Some [TEmpty (e_tag el) (expected_attrs gid el raw)].
Proof. exact render_single_element. Qed.

(* with a fill pattern: exactly two sibling elements *)
Theorem C30_render_pattern_pair :
  forall (gid : str -> str) el raw pad,
    el_safe_b gid el raw = true -> el_safe_b gid (pattern_el el) raw = true ->
    raw_consistent el raw pad = true -> pattern_on el = true ->
    tokenize (render gid el)
    = Some [TEmpty (e_tag el) (expected_attrs gid el raw);
            TEmpty (e_tag el) (expected_attrs gid (pattern_el el) raw)].
Proof. exact render_pattern_pair. Qed.

(* content = an escaped user string (how labels, tooltips' <title> and table cells are written): start tag,
   one run of character data that decodes to the string, end tag — for every string *)
Theorem C30_render_text_element :
  forall (gid : str -> str) el raw pad s,
    el_safe_b gid el raw = true -> raw_consistent el raw pad = true ->
    s <> [] -> e_content el = escape_text s ->
    tokenize (render gid el)
    = Some [TOpen (e_tag el) (expected_attrs gid el raw); TText (escape_text s); TClose (e_tag el)]
    /\ decode_text (escape_text s) = Some (map sanitize s).
Proof. exact render_text_element. Qed.

(* the premise follows from field-wise safety (each string field safe, numbers printed safely, theme colours
   safe, gradient ids safe): "attr_safe fields -> one well-formed element with the expected attributes" *)
Theorem C30_fields_safe_sufficient :
  forall (gid : str -> str), (forall s, val_ok (gid s) = true) ->
    forall el raw, fields_safe el raw = true -> el_safe_b gid el raw = true.
Proof. exact fields_safe_sufficient. Qed.

(* the attribute names Render can emit are a fixed set plus the names inside the raw chunk *)
Theorem C30_render_attribute_names_fixed :
  forall (gid : str -> str) el raw,
    incl (map fst (expected_attrs gid el raw))
         ([k_href] ++ num_names ++ [k_dash; k_d; k_mask; k_points; k_transform; k_xmlns; k_stroke; k_fill; k_bg;
                                     k_color; k_class; k_style; k_clip] ++ map fst raw).
Proof. exact expected_attr_names. Qed.

(* (c) colours.  Every colour ValidColor accepts is written into fill= / stroke= as a safe value
   (named colours from the regenerated table, hex, or url('#grad-...')).  gid = UniqueGradientID. *)
Theorem C30_valid_color_attr_safe :
  forall (gid : str -> str) (css_ok : str -> bool), (forall s, val_ok (gid s) = true) ->
    forall c, valid_color gid css_ok c = true -> val_ok (emitted_color gid c) = true.
Proof. exact valid_color_attr_safe. Qed.

Theorem C30_regex_sources_unchanged :
  color_hex_regex_src = expected_hex_regex_src /\ gradient_regex_src = expected_gradient_regex_src.
Proof. exact regex_sources_unchanged. Qed.

(* Full statement (DESIGN): ValidColor c -> the gradient definition written for c is well-formed and consists
   of exactly the gradient element and its stop elements.  REFUTED on the faithful model of the pinned code:
   a colour stop's position is never validated. *)
Theorem C30_gradient_svg_safe_refuted :
  forall css_ok : str -> bool, css_ok w_red = true -> css_ok w_blue = true ->
    valid_color w_gid css_ok w_witness = true /\ is_gradient w_witness = true
    /\ exists g, parse_gradient w_gid w_witness = Some g
                 /\ tokenize (gradient_to_svg w_pct (fun _ => None) g) = None
                 /\ contains w_script (gradient_to_svg w_pct (fun _ => None) g) = true.
Proof. exact gradient_svg_safe_refuted. Qed.

(* pinned code, guarded: if the colour parser only accepts safe stop colours (H_css, an oracle hypothesis the
   harness evaluates on every stop colour — and finds false) and every stop position is safe, the definition is
   exactly the expected elements *)
Theorem C30_gradient_svg_safe_guarded :
  forall (pct : nat -> nat -> str) (deg : str -> option (str * str)),
    (forall s a b, deg s = Some (a, b) -> val_ok a = true /\ val_ok b = true) ->
    (forall i n, val_ok (pct i n) = true) ->
    forall (gid : str -> str) (css_ok : str -> bool) c g,
      (forall s, val_ok (gid s) = true) ->
      (forall s, css_ok s = true -> val_ok s = true) ->
      valid_color gid css_ok c = true -> is_gradient c = true -> parse_gradient gid c = Some g ->
      forallb (fun s => val_ok (st_pos s)) (g_stops g) = true ->
      tokenize (gradient_to_svg pct deg g) = Some (gradient_tokens pct deg id_esc g)
      /\ balanced (gradient_tokens pct deg id_esc g) [] = true.
Proof. exact gradient_svg_safe_guarded. Qed.

(* repaired code (coq/C30/fix.patch escapes id, offset and stop-color at the sink): EVERY gradient record —
   any type, direction, stop colours and positions, with no assumption on the colour parser — is written as
   exactly the gradient element with its stop elements, each with exactly offset and stop-color *)
Theorem C30_gradient_svg_safe_fixed :
  forall (pct : nat -> nat -> str) (deg : str -> option (str * str)),
    (forall s a b, deg s = Some (a, b) -> val_ok a = true /\ val_ok b = true) ->
    forall g,
      tokenize (gradient_to_svg_fixed pct deg g) = Some (gradient_tokens pct deg escape_text g)
      /\ balanced (gradient_tokens pct deg escape_text g) [] = true.
Proof. exact gradient_svg_safe_fixed. Qed.

(* non-vacuity of the hypotheses *)
Example C30_render_hyps_satisfiable :
  let el := {| e_tag := k_fill; e_href := []; e_nums := [Some [49]; None]; e_dash := []; e_d := k_d; e_mask := [];
               e_points := []; e_transform := []; e_xmlns := []; e_fill := [78; 49]; e_stroke := p_linear ++ w_red ++ [41];
               e_bg := []; e_color := []; e_class := escape_text w_script; e_style := []; e_attributes := [];
               e_content := []; e_clip := []; e_pattern := []; e_theme := Some [([78; 49], w_red)] |} in
  fields_safe el [] = true /\ raw_consistent el [] false = true /\ pattern_on el = false
  /\ (forall s, val_ok (w_gid s) = true).
Proof. cbv zeta. repeat split; intros; vm_compute; reflexivity. Qed.

Example C30_gradient_hyps_satisfiable :
  (forall s a b, (fun _ : str => Some (p50, p100)) s = Some (a, b) -> val_ok a = true /\ val_ok b = true)
  /\ (forall i n, val_ok (w_pct i n) = true)
  /\ (forall s, (fun c => str_eqb c w_red || str_eqb c w_blue) s = true -> val_ok s = true).
Proof.
  split; [|split].
  - intros s a b H. inversion H; subst. split; reflexivity.
  - intros i n. reflexivity.
  - intros s H. apply orb_prop in H as [H|H]; apply str_eqb_eq in H; subst; reflexivity.
Qed.

Print Assumptions C30_escape_text_safe.
Print Assumptions C30_escape_text_roundtrip.
Print Assumptions C30_escape_text_identity_on_xml_chars.
Print Assumptions C30_escape_html_markup_safe.
Print Assumptions C30_escape_html_roundtrip_on_xml_chars.
Print Assumptions C30_escape_html_wellformed_refuted.
Print Assumptions C30_render_single_element.
Print Assumptions C30_render_pattern_pair.
Print Assumptions C30_render_text_element.
Print Assumptions C30_fields_safe_sufficient.
Print Assumptions C30_render_attribute_names_fixed.
Print Assumptions C30_valid_color_attr_safe.
Print Assumptions C30_regex_sources_unchanged.
Print Assumptions C30_gradient_svg_safe_refuted.
Print Assumptions C30_gradient_svg_safe_guarded.
Print Assumptions C30_gradient_svg_safe_fixed.
