(* C30 — rendered SVG is well-formed XML and user strings cannot inject markup.
   Executable models (definitions only) of
     (a) the escapers d2svg uses: encoding/xml.EscapeText (through lib/svg.EscapeText) and
         html.EscapeString, on strings as lists of runes (what utf8.DecodeRune / range yield; an invalid
         byte is U+FFFD of width 1 and both escapers map it to U+FFFD at rune level);
     (b) a small XML lexer (character data with references, start / empty-element / end tags with
         quoted attributes) used to STATE well-formedness, and d2themes.ThemableElement.Render as the
         string builder it is;
     (c) lib/color: IsGradient, ParseGradient, splitParams, parseColorStops, ValidColor, IsThemeColor,
         LinearGradientToSVG / RadialGradientToSVG / GradientToSVG (pinned code) and the repaired variant
         that escapes at the sink.
   Tables (named colours, theme colour codes, regexp sources, fill patterns) come from V.Gen.C30Tables,
   regenerated from the linked packages on every run.
   Un-modelled components are explicit function arguments (oracles): csscolorparser.Parse (css_ok),
   sha1 (gid), float formatting (pct, deg). *)
From Coq Require Import List NArith Bool String Ascii.
Import ListNotations.
Require Import V.Lib.RunCases V.Gen.C30Tables.
Open Scope N_scope.

Definition str := list N.
Definition str_eqb : str -> str -> bool := bytes_eqb.

Fixpoint lit (s : string) : str :=
  match s with EmptyString => [] | String a r => N_of_ascii a :: lit r end.

Definition mem (r : N) (l : list N) : bool := existsb (N.eqb r) l.
Definition nonempty_s (s : str) : bool := match s with [] => false | _ => true end.

(* ------------------------------------------------------------------------------------------------ *)
(* (a) escapers                                                                                     *)

(* encoding/xml isInCharacterRange = the Char production of XML 1.0 *)
Definition in_char_range (r : N) : bool :=
  (r =? 9) || (r =? 10) || (r =? 13) || ((32 <=? r) && (r <=? 55295))
  || ((57344 <=? r) && (r <=? 65533)) || ((65536 <=? r) && (r <=? 1114111)).

Definition sanitize (r : N) : N := if in_char_range r then r else 65533.

Definition e_quot : str := Eval vm_compute in lit "&#34;".
Definition e_apos : str := Eval vm_compute in lit "&#39;".
Definition e_amp  : str := Eval vm_compute in lit "&amp;".
Definition e_lt   : str := Eval vm_compute in lit "&lt;".
Definition e_gt   : str := Eval vm_compute in lit "&gt;".
Definition e_tab  : str := Eval vm_compute in lit "&#x9;".
Definition e_nl   : str := Eval vm_compute in lit "&#xA;".
Definition e_cr   : str := Eval vm_compute in lit "&#xD;".

(* encoding/xml escapeText(w, s, escapeNewline = true), one rune *)
Definition xml_esc (r : N) : str :=
  if r =? 34 then e_quot else if r =? 39 then e_apos else if r =? 38 then e_amp
  else if r =? 60 then e_lt else if r =? 62 then e_gt else if r =? 9 then e_tab
  else if r =? 10 then e_nl else if r =? 13 then e_cr
  else if in_char_range r then [r] else [65533].

Definition escape_text (s : str) : str := flat_map xml_esc s.

(* html.EscapeString: ampersand, apostrophe, less-than, greater-than and double quote only; everything else is copied *)
Definition html_esc (r : N) : str :=
  if r =? 38 then e_amp else if r =? 39 then e_apos else if r =? 60 then e_lt
  else if r =? 62 then e_gt else if r =? 34 then e_quot else [r].

Definition escape_html (s : str) : str := flat_map html_esc s.

(* ------------------------------------------------------------------------------------------------ *)
(* (b1) what an XML processor makes of character data / an attribute value: references are resolved, *)
(*      '<' and a malformed or unknown reference and a non-Char are errors                           *)

Definition is_digit (c : N) : bool := (48 <=? c) && (c <=? 57).
Definition is_upper (c : N) : bool := (65 <=? c) && (c <=? 90).
Definition is_lower (c : N) : bool := (97 <=? c) && (c <=? 122).
Definition is_alpha (c : N) : bool := is_upper c || is_lower c.

Definition hexval (c : N) : option N :=
  if is_digit c then Some (c - 48)
  else if (65 <=? c) && (c <=? 70) then Some (c - 55)
  else if (97 <=? c) && (c <=? 102) then Some (c - 87) else None.

Fixpoint num_of (base : N) (ds : str) (acc : N) : option N :=
  match ds with
  | [] => Some acc
  | d :: r => match hexval d with
              | Some v => if v <? base then num_of base r (acc * base + v) else None
              | None => None
              end
  end.

Definition char_ref (base : N) (ds : str) : option N :=
  match ds with
  | [] => None
  | _ => match num_of base ds 0 with
         | Some v => if in_char_range v then Some v else None
         | None => None
         end
  end.

Definition n_lt : str := Eval vm_compute in lit "lt".
Definition n_gt : str := Eval vm_compute in lit "gt".
Definition n_amp : str := Eval vm_compute in lit "amp".
Definition n_quot : str := Eval vm_compute in lit "quot".
Definition n_apos : str := Eval vm_compute in lit "apos".

(* the text between '&' and ';' *)
Definition resolve (name : str) : option N :=
  match name with
  | 35 :: 120 :: ds => char_ref 16 ds
  | 35 :: ds => char_ref 10 ds
  | _ => if str_eqb name n_lt then Some 60 else if str_eqb name n_gt then Some 62
         else if str_eqb name n_amp then Some 38 else if str_eqb name n_quot then Some 34
         else if str_eqb name n_apos then Some 39 else None
  end.

Inductive rst := RT | RR (acc : str).   (* in text / inside a reference (characters so far, reversed) *)

Definition ref_char (c : N) : bool := is_alpha c || is_digit c || (c =? 35).

Fixpoint dec (s : str) (st : rst) : option str :=
  match s with
  | [] => match st with RT => Some [] | RR _ => None end
  | c :: r =>
      match st with
      | RT => if c =? 38 then dec r (RR [])
              else if c =? 60 then None
              else if in_char_range c then option_map (cons c) (dec r RT) else None
      | RR acc => if c =? 59 then
                    match resolve (rev acc) with
                    | Some v => option_map (cons v) (dec r RT)
                    | None => None
                    end
                  else if ref_char c then dec r (RR (c :: acc)) else None
      end
  end.

(* decode_text s = Some t: s is well-formed character data (no markup) and denotes the text t *)
Definition decode_text (s : str) : option str := dec s RT.
Definition text_ok (s : str) : bool := match dec s RT with Some _ => true | None => false end.

(* a value that may stand between double quotes in a tag *)
Definition val_ok (v : str) : bool := text_ok v && negb (mem 34 v).

(* ------------------------------------------------------------------------------------------------ *)
(* (b2) tag lexer                                                                                   *)

Inductive token :=
| TOpen (n : str) (al : list (str * str))
| TEmpty (n : str) (al : list (str * str))
| TClose (n : str)
| TText (s : str).

Inductive lst :=
| STxt (acc : str) | SLt | SName (acc : str) | SGap (sp : bool) | SAttr (acc : str)
| SQuote | SVal (q : N) (acc : str) | SSlash | SClose (acc : str).

Definition is_ws (c : N) : bool := (c =? 32) || (c =? 9) || (c =? 10) || (c =? 13).
Definition name_start (c : N) : bool := is_alpha c || (c =? 95) || (c =? 58).
Definition name_char (c : N) : bool := name_start c || is_digit c || (c =? 45) || (c =? 46).

Definition xml_name (n : str) : bool :=
  match n with c :: r => name_start c && forallb name_char r | [] => false end.

Definition flush (acc : str) (out : list token) : option (list token) :=
  match acc with
  | [] => Some out
  | _ => if text_ok (rev acc) then Some (TText (rev acc) :: out) else None
  end.

(* registers: nm = name of the tag being read, al = its attributes so far (reversed),
   cur = name of the attribute whose value is being read, out = tokens so far (reversed) *)
Fixpoint tok (s : str) (st : lst) (nm : str) (al : list (str * str)) (cur : str) (out : list token)
  : option (list token) :=
  match s with
  | [] => match st with STxt acc => option_map (@rev token) (flush acc out) | _ => None end
  | c :: r =>
      match st with
      | STxt acc =>
          if c =? 60 then match flush acc out with
                          | Some out' => tok r SLt [] [] [] out'
                          | None => None
                          end
          else tok r (STxt (c :: acc)) [] [] [] out
      | SLt =>
          if c =? 47 then tok r (SClose []) [] [] [] out
          else if name_start c then tok r (SName [c]) [] [] [] out else None
      | SName acc =>
          if name_char c then tok r (SName (c :: acc)) [] [] [] out
          else if is_ws c then tok r (SGap true) (rev acc) [] [] out
          else if c =? 47 then tok r SSlash (rev acc) [] [] out
          else if c =? 62 then tok r (STxt []) [] [] [] (TOpen (rev acc) [] :: out)
          else None
      | SGap sp =>
          if is_ws c then tok r (SGap true) nm al [] out
          else if c =? 47 then tok r SSlash nm al [] out
          else if c =? 62 then tok r (STxt []) [] [] [] (TOpen nm (rev al) :: out)
          else if name_start c && sp then tok r (SAttr [c]) nm al [] out else None
      | SAttr acc =>
          if name_char c then tok r (SAttr (c :: acc)) nm al [] out
          else if c =? 61 then tok r SQuote nm al (rev acc) out else None
      | SQuote =>
          if (c =? 34) || (c =? 39) then tok r (SVal c []) nm al cur out else None
      | SVal q acc =>
          if c =? q then (if text_ok (rev acc) then tok r (SGap false) nm ((cur, rev acc) :: al) [] out else None)
          else tok r (SVal q (c :: acc)) nm al cur out
      | SSlash =>
          if c =? 62 then tok r (STxt []) [] [] [] (TEmpty nm (rev al) :: out) else None
      | SClose acc =>
          if name_char c then tok r (SClose (c :: acc)) [] [] [] out
          else if c =? 62 then (if xml_name (rev acc) then tok r (STxt []) [] [] [] (TClose (rev acc) :: out) else None)
          else None
      end
  end.

Definition tokenize (s : str) : option (list token) := tok s (STxt []) [] [] [] [].

Fixpoint balanced (ts : list token) (stack : list str) : bool :=
  match ts with
  | [] => match stack with [] => true | _ => false end
  | TOpen n _ :: r => balanced r (n :: stack)
  | TClose n :: r => match stack with m :: st' => str_eqb n m && balanced r st' | [] => false end
  | _ :: r => balanced r stack
  end.

Definition well_formed (s : str) : bool :=
  match tokenize s with Some ts => balanced ts [] | None => false end.

(* attribute printing as every emitter in d2 does it:  ` name="value"` *)
Definition attr_text (p : str * str) : str := 32 :: fst p ++ 61 :: 34 :: snd p ++ [34].
Definition attrs_text (al : list (str * str)) : str := flat_map attr_text al.
Definition attr_ok (p : str * str) : bool := xml_name (fst p) && val_ok (snd p).

(* token equality, for the executable checks *)
Definition pair_eqb (a b : str * str) : bool := str_eqb (fst a) (fst b) && str_eqb (snd a) (snd b).
Definition token_eqb (a b : token) : bool :=
  match a, b with
  | TOpen n x, TOpen m y => str_eqb n m && list_eqb pair_eqb x y
  | TEmpty n x, TEmpty m y => str_eqb n m && list_eqb pair_eqb x y
  | TClose n, TClose m => str_eqb n m
  | TText s, TText t => str_eqb s t
  | _, _ => false
  end.

(* ------------------------------------------------------------------------------------------------ *)
(* (b3) d2themes.ThemableElement.Render                                                             *)

(* color.IsThemeColor: ^(N[1-7]|B[1-6]|AA[245]|AB[45])$ — the regenerated enumeration of what it accepts *)
Definition is_theme_color (s : str) : bool := existsb (str_eqb s) theme_codes.

Fixpoint lookup (k : str) (l : list (str * str)) : str :=
  match l with [] => [] | (a, b) :: r => if str_eqb k a then b else lookup k r end.

Record elem := {
  e_tag : str;
  e_href : str;
  e_nums : list (option str);  (* x x1 x2 y y1 y2 width height r rx ry cx cy: the text fmt "%f" printed, None = unset *)
  e_dash : str; e_d : str; e_mask : str; e_points : str; e_transform : str; e_xmlns : str;
  e_fill : str; e_stroke : str; e_bg : str; e_color : str;
  e_class : str; e_style : str; e_attributes : str; e_content : str; e_clip : str; e_pattern : str;
  e_theme : option (list (str * str))   (* inline theme: colour code -> colour, None = no inlining *)
}.

Definition num_names : list str := Eval vm_compute in
  map lit ["x"; "x1"; "x2"; "y"; "y1"; "y2"; "width"; "height"; "r"; "rx"; "ry"; "cx"; "cy"]%string.

Definition k_href := Eval vm_compute in lit "href".
Definition k_dash := Eval vm_compute in lit "stroke-dasharray".
Definition k_d := Eval vm_compute in lit "d".
Definition k_mask := Eval vm_compute in lit "mask".
Definition k_points := Eval vm_compute in lit "points".
Definition k_transform := Eval vm_compute in lit "transform".
Definition k_xmlns := Eval vm_compute in lit "xmlns".
Definition k_stroke := Eval vm_compute in lit "stroke".
Definition k_fill := Eval vm_compute in lit "fill".
Definition k_bg := Eval vm_compute in lit "background-color".
Definition k_color := Eval vm_compute in lit "color".
Definition k_class := Eval vm_compute in lit "class".
Definition k_style := Eval vm_compute in lit "style".
Definition k_clip := Eval vm_compute in lit "clip-path".
Definition s_url_open := Eval vm_compute in lit "url(#".
Definition s_urlq_open := Eval vm_compute in lit "url('#".
Definition s_urlq_close := Eval vm_compute in lit "')".
Definition s_overlay := Eval vm_compute in lit "-overlay".
Definition s_none := Eval vm_compute in lit "none".
Definition s_selfclose := Eval vm_compute in lit " />".

Definition ne (k v : str) : list (str * str) := if nonempty_s v then [(k, v)] else [].

Definition num_attrs (names : list str) (vals : list (option str)) : list (str * str) :=
  flat_map (fun p => match snd p with Some v => [(fst p, v)] | None => [] end) (combine names vals).

(* color.IsGradient: ^(linear|radial)-gradient\((.+)\)$  ('.' does not match a newline) *)
Definition p_linear := Eval vm_compute in lit "linear-gradient(".
Definition p_radial := Eval vm_compute in lit "radial-gradient(".

Fixpoint strip_prefix (p s : str) : option str :=
  match p, s with
  | [], _ => Some s
  | a :: p', b :: s' => if a =? b then strip_prefix p' s' else None
  | _ :: _, [] => None
  end.

Fixpoint split_last (s : str) : option (str * N) :=
  match s with
  | [] => None
  | [c] => Some ([], c)
  | c :: r => match split_last r with Some (m, l) => Some (c :: m, l) | None => None end
  end.

(* Some (true = linear, text between the parentheses) when s = "<kind>-gradient(" ++ mid ++ ")" with no newline in mid *)
Definition grad_body (s : str) : option (bool * str) :=
  let body (lin : bool) (r : str) :=
    match split_last r with
    | Some (mid, 41) => if mem 10 mid then None else Some (lin, mid)
    | _ => None
    end in
  match strip_prefix p_linear s with
  | Some r => body true r
  | None => match strip_prefix p_radial s with Some r => body false r | None => None end
  end.

Definition is_gradient (s : str) : bool :=
  match grad_body s with Some (_, mid) => nonempty_s mid | None => false end.

Section Render.
  (* color.UniqueGradientID: "grad-" ++ hex(sha1(css)) *)
  Variable gid : str -> str.

  (* one of stroke / fill / background-color / color: (text added to class, attribute emitted) *)
  Definition color_part (k : str) (grad : bool) (th : option (list (str * str))) (v : str)
    : str * list (str * str) :=
    if is_theme_color v then
      (32 :: k ++ 45 :: v, match th with Some t => [(k, lookup v t)] | None => [] end)
    else if nonempty_s v then
      ([], [(k, if grad && is_gradient v then s_urlq_open ++ gid v ++ s_urlq_close else v)])
    else ([], []).

  Definition pre_attrs (el : elem) : list (str * str) :=
    let cs := color_part k_stroke true (e_theme el) (e_stroke el) in
    let cf := color_part k_fill true (e_theme el) (e_fill el) in
    let cb := color_part k_bg false (e_theme el) (e_bg el) in
    let cc := color_part k_color false (e_theme el) (e_color el) in
    ne k_href (e_href el) ++ num_attrs num_names (e_nums el)
    ++ ne k_dash (e_dash el) ++ ne k_d (e_d el) ++ ne k_mask (e_mask el) ++ ne k_points (e_points el)
    ++ ne k_transform (e_transform el) ++ ne k_xmlns (e_xmlns el)
    ++ snd cs ++ snd cf ++ snd cb ++ snd cc
    ++ ne k_class (e_class el ++ fst cs ++ fst cf ++ fst cb ++ fst cc)
    ++ ne k_style (e_style el).

  Definition raw_attrs (el : elem) : str :=
    if nonempty_s (e_attributes el) then 32 :: e_attributes el else [].

  Definition post_attrs (el : elem) : list (str * str) :=
    if nonempty_s (e_clip el) then [(k_clip, s_url_open ++ e_clip el ++ [41])] else [].

  Definition head (el : elem) : str :=
    60 :: e_tag el ++ attrs_text (pre_attrs el) ++ raw_attrs el ++ attrs_text (post_attrs el).

  (* one element, without the fill-pattern overlay *)
  Definition render1 (el : elem) : str :=
    if nonempty_s (e_content el)
    then head el ++ 62 :: e_content el ++ 60 :: 47 :: e_tag el ++ [62]
    else head el ++ s_selfclose.

  Definition pattern_on (el : elem) : bool :=
    negb (nonempty_s (e_content el)) && nonempty_s (e_pattern el) && negb (str_eqb (e_pattern el) s_none).

  (* patternEl := el.Copy(); Fill, Stroke, BackgroundColor, Color = ""; ClassName = pattern-overlay; FillPattern = "" *)
  Definition pattern_el (el : elem) : elem :=
    {| e_tag := e_tag el; e_href := e_href el; e_nums := e_nums el; e_dash := e_dash el; e_d := e_d el;
       e_mask := e_mask el; e_points := e_points el; e_transform := e_transform el; e_xmlns := e_xmlns el;
       e_fill := []; e_stroke := []; e_bg := []; e_color := [];
       e_class := e_pattern el ++ s_overlay; e_style := e_style el; e_attributes := e_attributes el;
       e_content := e_content el; e_clip := e_clip el; e_pattern := []; e_theme := e_theme el |}.

  Definition render (el : elem) : str :=
    render1 el ++ (if pattern_on el then render1 (pattern_el el) else []).

  (* what the emitted tag must look like to a parser: pre ++ (the raw Attributes chunk, parsed) ++ post *)
  Definition expected_attrs (el : elem) (raw : list (str * str)) : list (str * str) :=
    pre_attrs el ++ raw ++ post_attrs el.

  (* the premise of Render: a legal tag name and every value it is about to write may stand between
     double quotes (decidable; the same predicate the checker evaluates) *)
  Definition el_safe_b (el : elem) (raw : list (str * str)) : bool :=
    xml_name (e_tag el) && forallb attr_ok (expected_attrs el raw).
End Render.

(* the raw Attributes chunk is what printing [raw] gives (without the leading blank), optionally followed by
   one blank (d2svg builds it from marker-start/marker-end/mask pieces that end in a blank) *)
Definition padtxt (pad : bool) : str := if pad then [32] else [].
Definition raw_consistent (el : elem) (raw : list (str * str)) (pad : bool) : bool :=
  match e_attributes el with
  | [] => match raw with [] => negb pad | _ => false end
  | a => str_eqb (32 :: a) (attrs_text raw ++ padtxt pad)
  end.

(* field-wise premise (what a caller of Render has to guarantee): every string field may stand between
   double quotes, the numbers were printed safely, the raw chunk consists of safe attributes *)
Definition theme_ok (th : option (list (str * str))) : bool :=
  match th with Some t => forallb (fun p => val_ok (snd p)) t | None => true end.
Definition opt_val_ok (o : option str) : bool := match o with Some v => val_ok v | None => true end.
Definition fields_safe (el : elem) (raw : list (str * str)) : bool :=
  xml_name (e_tag el) && val_ok (e_href el) && forallb opt_val_ok (e_nums el)
  && val_ok (e_dash el) && val_ok (e_d el) && val_ok (e_mask el) && val_ok (e_points el)
  && val_ok (e_transform el) && val_ok (e_xmlns el)
  && val_ok (e_fill el) && val_ok (e_stroke el) && val_ok (e_bg el) && val_ok (e_color el)
  && val_ok (e_class el) && val_ok (e_style el) && forallb attr_ok raw && val_ok (e_clip el)
  && theme_ok (e_theme el).

(* ------------------------------------------------------------------------------------------------ *)
(* (c) lib/color                                                                                    *)

(* unicode.IsSpace *)
Definition is_space (r : N) : bool :=
  ((9 <=? r) && (r <=? 13)) || (r =? 32) || (r =? 133) || (r =? 160) || (r =? 5760)
  || ((8192 <=? r) && (r <=? 8202)) || (r =? 8232) || (r =? 8233) || (r =? 8239) || (r =? 8287)
  || (r =? 12288).

Fixpoint trim_left (s : str) : str :=
  match s with c :: r => if is_space c then trim_left r else s | [] => [] end.
Definition trim_space (s : str) : str := rev (trim_left (rev (trim_left s))).

(* strings.Fields *)
Fixpoint fields_go (s : str) (cur : str) (out : list str) : list str :=
  match s with
  | [] => rev (match cur with [] => out | _ => rev cur :: out end)
  | c :: r => if is_space c
              then fields_go r [] (match cur with [] => out | _ => rev cur :: out end)
              else fields_go r (c :: cur) out
  end.
Definition fields (s : str) : list str := fields_go s [] [].

Definition has_prefix (p s : str) : bool := match strip_prefix p s with Some _ => true | None => false end.
Definition has_suffix (p s : str) : bool := has_prefix (rev p) (rev s).
Definition trim_suffix (p s : str) : str :=
  match strip_prefix (rev p) (rev s) with Some r => rev r | None => s end.

(* unicode.ToLower as far as it decides membership in an all-ASCII-lower-case table: A-Z, and the two
   non-ASCII runes whose lower case is ASCII (U+0130 -> i, U+212A KELVIN SIGN -> k); every other rune is
   left alone here (its true image is never an ASCII letter). *)
Definition lower_a (r : N) : N :=
  if is_upper r then r + 32 else if r =? 304 then 105 else if r =? 8490 then 107 else r.

(* ColorHexRegex ^#(([0-9a-fA-F]{2}){3}|([0-9a-fA-F]){3})$ *)
Definition is_hex (c : N) : bool := match hexval c with Some _ => true | None => false end.
Definition hex_color (s : str) : bool :=
  match s with
  | 35 :: r => (Nat.eqb (List.length r) 6 || Nat.eqb (List.length r) 3) && forallb is_hex r
  | _ => false
  end.

Definition expected_hex_regex_src : str := Eval vm_compute in lit "^#(([0-9a-fA-F]{2}){3}|([0-9a-fA-F]){3})$".
Definition expected_gradient_regex_src : str := Eval vm_compute in lit "^(linear|radial)-gradient\((.+)\)$".

Record stop := { st_color : str; st_pos : str }.
Record gradient := { g_type : str; g_dir : str; g_stops : list stop; g_id : str }.

(* splitParams *)
Fixpoint split_go (s : str) (nest : nat) (buf : str) (parts : list str) : list str :=
  match s with
  | [] => rev (match buf with [] => parts | _ => rev buf :: parts end)
  | c :: r =>
      if c =? 44 then
        match nest with
        | O => split_go r nest [] (rev buf :: parts)
        | _ => split_go r nest (c :: buf) parts
        end
      else if c =? 40 then split_go r (S nest) (c :: buf) parts
      else if c =? 41 then split_go r (pred nest) (c :: buf) parts
      else split_go r nest (c :: buf) parts
  end.
Definition split_params (s : str) : list str := split_go s O [] [].

(* parseColorStops *)
Definition parse_stops (ps : list str) : list stop :=
  flat_map (fun p => match fields (trim_space p) with
                     | [c] => [{| st_color := c; st_pos := [] |}]
                     | [c; q] => [{| st_color := c; st_pos := q |}]
                     | _ => []
                     end) ps.

Definition s_linear := Eval vm_compute in lit "linear".
Definition s_radial := Eval vm_compute in lit "radial".
Definition s_deg := Eval vm_compute in lit "deg".
Definition s_to := Eval vm_compute in lit "to ".
Definition s_circle := Eval vm_compute in lit "circle".
Definition s_ellipse := Eval vm_compute in lit "ellipse".

(* ColorStopPositionRegex of the repaired code: ^[+-]?([0-9]+\.?[0-9]*|\.[0-9]+)%?$ *)
Fixpoint span_digits (s : str) : str * str :=
  match s with
  | c :: r => if is_digit c then let '(d, t) := span_digits r in (c :: d, t) else ([], s)
  | [] => ([], [])
  end.
Definition stop_position_ok (p : str) : bool :=
  let p1 := match p with c :: r => if (c =? 43) || (c =? 45) then r else p | [] => [] end in
  let p2 := match split_last p1 with Some (m, 37) => m | _ => p1 end in
  let '(d1, rest) := span_digits p2 in
  match d1, rest with
  | _ :: _, [] => true
  | _ :: _, 46 :: d2 => forallb is_digit d2
  | [], 46 :: d2 => nonempty_s d2 && forallb is_digit d2
  | _, _ => false
  end.

Section Color.
  Variable gid : str -> str.          (* color.UniqueGradientID *)
  Variable css_ok : str -> bool.      (* csscolorparser.Parse returned no error *)

  (* ParseGradient; None = error *)
  Definition parse_gradient (css0 : str) : option gradient :=
    let css := trim_space css0 in
    match grad_body css with
    | None => None
    | Some (lin, params) =>
        match split_params params with
        | [] => None
        | p0 :: rest =>
            let first := trim_space p0 in
            let ty := if lin then s_linear else s_radial in
            if (lin && (has_suffix s_deg first || has_prefix s_to first))
               || (negb lin && (str_eqb first s_circle || str_eqb first s_ellipse))
            then match rest with
                 | [] => None
                 | _ => Some {| g_type := ty; g_dir := first; g_stops := parse_stops rest; g_id := gid css |}
                 end
            else Some {| g_type := ty; g_dir := []; g_stops := parse_stops (p0 :: rest); g_id := gid css |}
        end
    end.

  (* ValidColor *)
  Definition valid_color (c : str) : bool :=
    if is_gradient c then
      match parse_gradient c with
      | None => false
      | Some g => forallb (fun s => css_ok (st_color s)) (g_stops g)
      end
    else existsb (str_eqb (map lower_a c)) named_colors || hex_color c.

  (* ValidColor of the repaired code (coq/C30/fix.patch): a stop position must be a number or a percentage *)
  Definition valid_color_fixed (c : str) : bool :=
    if is_gradient c then
      match parse_gradient c with
      | None => false
      | Some g => forallb (fun s => css_ok (st_color s)
                                    && (negb (nonempty_s (st_pos s)) || stop_position_ok (st_pos s))) (g_stops g)
      end
    else existsb (str_eqb (map lower_a c)) named_colors || hex_color c.

  (* what ThemableElement.Render writes into fill="..." / stroke="..." for a colour that is not a theme code *)
  Definition emitted_color (c : str) : str :=
    if is_gradient c then s_urlq_open ++ gid c ++ s_urlq_close else c.
End Color.

(* --- gradient definitions ---------------------------------------------------------------------- *)

Definition k_id := Eval vm_compute in lit "id".
Definition k_x1 := Eval vm_compute in lit "x1".
Definition k_y1 := Eval vm_compute in lit "y1".
Definition k_x2 := Eval vm_compute in lit "x2".
Definition k_y2 := Eval vm_compute in lit "y2".
Definition k_offset := Eval vm_compute in lit "offset".
Definition k_stop_color := Eval vm_compute in lit "stop-color".
Definition n_stop := Eval vm_compute in lit "stop".
Definition n_lingrad := Eval vm_compute in lit "linearGradient".
Definition n_radgrad := Eval vm_compute in lit "radialGradient".
Definition p0 := Eval vm_compute in lit "0%".
Definition p50 := Eval vm_compute in lit "50%".
Definition p100 := Eval vm_compute in lit "100%".
Definition p50_00 := Eval vm_compute in lit "50.00%".
Definition w_left := Eval vm_compute in lit "left".
Definition w_right := Eval vm_compute in lit "right".
Definition w_top := Eval vm_compute in lit "top".
Definition w_bottom := Eval vm_compute in lit "bottom".

Section GradientSVG.
  (* fmt.Sprintf("%.2f%%", float64(i)/float64(total-1)*100) *)
  Variable pct : nat -> nat -> str.
  (* for the text before "deg": Some (x2, y2) as printed with %.2f%% when strconv.ParseFloat accepts it *)
  Variable deg : str -> option (str * str).

  (* the loop over the words after "to": state (xs, xe, ys, ye) *)
  Fixpoint dir_words (ws : list str) (st : str * str * str * str) : str * str * str * str :=
    match ws with
    | [] => st
    | w :: r =>
        let '(xs, xe, ys, ye) := st in
        dir_words r
          (if str_eqb w w_left then (p100, p0, ys, ye)
           else if str_eqb w w_right then (p0, p100, ys, ye)
           else if str_eqb w w_top then (xs, xe, p100, p0)
           else if str_eqb w w_bottom then (xs, xe, p0, p100)
           else st)
    end.

  (* parseLinearGradientDirection: (x1, y1, x2, y2) *)
  Definition parse_dir (direction0 : str) : str * str * str * str :=
    let direction := trim_space direction0 in
    match strip_prefix s_to direction with
    | Some d =>
        let '(xs, xe, ys, ye) := dir_words (fields (trim_space d)) (p50, p50, p50, p50) in
        (xs, ys, xe, ye)
    | None =>
        if has_suffix s_deg direction then
          match deg (trim_space (trim_suffix s_deg direction)) with
          | Some (x2, y2) => (p50_00, p50_00, x2, y2)
          | None => (p0, p0, p0, p100)
          end
        else (p0, p0, p0, p100)
    end.

  Definition offset_of (total i : nat) (s : stop) : str :=
    match st_pos s with [] => pct i total | p => p end.

  Fixpoint stops_text (esc : str -> str) (total i : nat) (ss : list stop) : str :=
    match ss with
    | [] => []
    | s :: r =>
        60 :: n_stop ++ attrs_text [(k_offset, esc (offset_of total i s)); (k_stop_color, esc (st_color s))]
        ++ s_selfclose ++ 10 :: stops_text esc total (S i) r
    end.

  Fixpoint stops_tokens (esc : str -> str) (total i : nat) (ss : list stop) : list token :=
    match ss with
    | [] => []
    | s :: r =>
        TText [10] :: TEmpty n_stop [(k_offset, esc (offset_of total i s)); (k_stop_color, esc (st_color s))]
        :: stops_tokens esc total (S i) r
    end.

  Definition lin_attrs (esc : str -> str) (g : gradient) : list (str * str) :=
    let '(x1, y1, x2, y2) := parse_dir (g_dir g) in
    [(k_id, esc (g_id g)); (k_x1, x1); (k_y1, y1); (k_x2, x2); (k_y2, y2)].

  (* LinearGradientToSVG / RadialGradientToSVG / GradientToSVG.  esc = identity is the pinned code,
     esc = escape_text is the repaired code (coq/C30/fix.patch). *)
  Definition gradient_svg (esc : str -> str) (g : gradient) : str :=
    let n := List.length (g_stops g) in
    if str_eqb (g_type g) s_linear then
      60 :: n_lingrad ++ attrs_text (lin_attrs esc g) ++ 62 :: 10 :: stops_text esc n O (g_stops g)
      ++ 60 :: 47 :: n_lingrad ++ [62]
    else if str_eqb (g_type g) s_radial then
      60 :: n_radgrad ++ attrs_text [(k_id, esc (g_id g))] ++ 62 :: 10 :: stops_text esc n O (g_stops g)
      ++ 60 :: 47 :: n_radgrad ++ [62]
    else [].

  Definition gradient_tokens (esc : str -> str) (g : gradient) : list token :=
    let n := List.length (g_stops g) in
    if str_eqb (g_type g) s_linear then
      TOpen n_lingrad (lin_attrs esc g) :: stops_tokens esc n O (g_stops g) ++ [TText [10]; TClose n_lingrad]
    else if str_eqb (g_type g) s_radial then
      TOpen n_radgrad [(k_id, esc (g_id g))] :: stops_tokens esc n O (g_stops g) ++ [TText [10]; TClose n_radgrad]
    else [].

  Definition id_esc (s : str) : str := s.
  Definition gradient_to_svg := gradient_svg id_esc.               (* pinned code *)
  Definition gradient_to_svg_fixed := gradient_svg escape_text.    (* repaired code *)
End GradientSVG.

(* every value a gradient definition writes (through esc) may stand between double quotes *)
Fixpoint stops_ok (pct : nat -> nat -> str) (esc : str -> str) (total i : nat) (ss : list stop) : bool :=
  match ss with
  | [] => true
  | s :: r => val_ok (esc (offset_of pct total i s)) && val_ok (esc (st_color s)) && stops_ok pct esc total (S i) r
  end.

Definition gradient_ok (pct : nat -> nat -> str) (deg : str -> option (str * str)) (esc : str -> str) (g : gradient) : bool :=
  forallb attr_ok (lin_attrs deg esc g) && stops_ok pct esc (List.length (g_stops g)) O (g_stops g).

(* ------------------------------------------------------------------------------------------------ *)
(* (d) whole-document observables: no element or attribute name contains a sentinel that the harness
       planted in a user string *)
Fixpoint contains (sub s : str) : bool :=
  has_prefix sub s || match s with [] => false | _ :: r => contains sub r end.

Definition names_clean (names sentinels : list str) : bool :=
  forallb (fun n => forallb (fun z => negb (contains z n)) sentinels) names.
