(* C30 — proofs, part 2: ThemableElement.Render. *)
From Coq Require Import List NArith Bool Lia.
Import ListNotations.
Require Import V.Lib.RunCases V.Gen.C30Tables V.C30.Model V.C30.Proofs.
Open Scope N_scope.

Arguments N.eqb : simpl never.
Arguments N.leb : simpl never.
Arguments name_char : simpl never.
Arguments name_start : simpl never.
Arguments is_ws : simpl never.
Arguments in_char_range : simpl never.
Arguments text_ok : simpl never.
Arguments val_ok : simpl never.
Arguments xml_name : simpl never.
Arguments attr_ok : simpl never.

Lemma tag_selfclose1 n l rest out :
  xml_name n = true -> forallb attr_ok l = true ->
  tok (n ++ attrs_text l ++ s_selfclose ++ rest) SLt [] [] [] out
  = tok rest (STxt []) [] [] [] (TEmpty n l :: out).
Proof.
  intros Hn Hl. pose proof (tag_selfclose n l false [] rest out Hn Hl eq_refl) as T.
  rewrite app_nil_r in T. exact T.
Qed.

Lemma tag_open1 n l rest out :
  xml_name n = true -> forallb attr_ok l = true ->
  tok (n ++ attrs_text l ++ 62 :: rest) SLt [] [] [] out
  = tok rest (STxt []) [] [] [] (TOpen n l :: out).
Proof.
  intros Hn Hl. pose proof (tag_open n l false [] rest out Hn Hl eq_refl) as T.
  rewrite app_nil_r in T. exact T.
Qed.

Lemma close_after_lt n rest out :
  xml_name n = true ->
  tok (47 :: n ++ 62 :: rest) SLt [] [] [] out = tok rest (STxt []) [] [] [] (TClose n :: out).
Proof. intro Hn. rewrite <- (close_tag_notext n rest out Hn). reflexivity. Qed.

Lemma esc_ok_no_lt s : forallb esc_char_ok s = true -> mem 60 s = false.
Proof.
  induction s as [|c s IH]; intro H; [reflexivity|].
  rewrite forallb_cons in H. apply andb_prop in H as [Hc Hs]. rewrite mem_cons, IH by assumption.
  destruct (N.eqb_spec 60 c) as [E|E]; [|reflexivity].
  subst c. vm_compute in Hc. discriminate.
Qed.

Section RenderProofs.
  Variable gid : str -> str.

  Lemma raw_consistent_spec el raw pad :
    raw_consistent el raw pad = true -> raw_attrs el = attrs_text raw ++ padtxt pad.
  Proof.
    unfold raw_consistent, raw_attrs. destruct (e_attributes el) as [|a r].
    - destruct raw; [|discriminate]. destruct pad; [discriminate|]. reflexivity.
    - intro H. apply str_eqb_eq in H. exact H.
  Qed.

  Lemma head_eq el raw pad :
    raw_consistent el raw pad = true ->
    head gid el = 60 :: e_tag el ++ attrs_text (pre_attrs gid el ++ raw) ++ padtxt pad ++ attrs_text (post_attrs el).
  Proof.
    intro H. unfold head. rewrite (raw_consistent_spec el raw pad H), attrs_text_app.
    rewrite <- !app_assoc. reflexivity.
  Qed.

  Lemma el_safe_split el raw :
    el_safe_b gid el raw = true ->
    xml_name (e_tag el) = true /\ forallb attr_ok (pre_attrs gid el ++ raw) = true
    /\ forallb attr_ok (post_attrs el) = true.
  Proof.
    unfold el_safe_b, expected_attrs. intro H. apply andb_prop in H as [Hn Ha].
    rewrite !forallb_app in Ha. apply andb_prop in Ha as [H1 H23]. apply andb_prop in H23 as [H2 H3].
    rewrite forallb_app, H1, H2. auto.
  Qed.

  (* small-step form: lexing the text of one element without content consumes exactly that text and
     emits exactly one empty-element token with the expected attributes *)
  Lemma render1_selfclose el raw pad rest out :
    el_safe_b gid el raw = true -> raw_consistent el raw pad = true -> e_content el = [] ->
    tok (render1 gid el ++ rest) (STxt []) [] [] [] out
    = tok rest (STxt []) [] [] [] (TEmpty (e_tag el) (expected_attrs gid el raw) :: out).
  Proof.
    intros Hs Hr Hc. destruct (el_safe_split el raw Hs) as (Hn & H1 & H2).
    unfold render1. rewrite Hc. cbn [nonempty_s]. rewrite (head_eq el raw pad Hr).
    change s_selfclose with [32; 47; 62].
    replace (((60 :: e_tag el ++ attrs_text (pre_attrs gid el ++ raw) ++ padtxt pad ++ attrs_text (post_attrs el))
             ++ [32; 47; 62]) ++ rest)
      with (60 :: (e_tag el ++ attrs_text (pre_attrs gid el ++ raw) ++ padtxt pad ++ attrs_text (post_attrs el)
                   ++ 32 :: 47 :: 62 :: rest)).
    2:{ cbn [app]. rewrite <- !app_assoc. reflexivity. }
    rewrite open_lt, tag_selfclose by assumption.
    unfold expected_attrs. rewrite <- app_assoc. reflexivity.
  Qed.

  Lemma render1_open el raw pad rest out :
    el_safe_b gid el raw = true -> raw_consistent el raw pad = true -> e_content el <> [] ->
    tok (render1 gid el ++ rest) (STxt []) [] [] [] out
    = tok (e_content el ++ 60 :: 47 :: e_tag el ++ 62 :: rest) (STxt []) [] [] []
          (TOpen (e_tag el) (expected_attrs gid el raw) :: out).
  Proof.
    intros Hs Hr Hc. destruct (el_safe_split el raw Hs) as (Hn & H1 & H2).
    unfold render1. destruct (e_content el) as [|c0 cs] eqn:E; [contradiction|]. cbn [nonempty_s].
    rewrite (head_eq el raw pad Hr).
    replace (((60 :: e_tag el ++ attrs_text (pre_attrs gid el ++ raw) ++ padtxt pad ++ attrs_text (post_attrs el))
              ++ 62 :: (c0 :: cs) ++ 60 :: 47 :: e_tag el ++ [62]) ++ rest)
      with (60 :: (e_tag el ++ attrs_text (pre_attrs gid el ++ raw) ++ padtxt pad ++ attrs_text (post_attrs el)
                   ++ 62 :: ((c0 :: cs) ++ 60 :: 47 :: e_tag el ++ 62 :: rest))).
    2:{ cbn [app]. rewrite <- !app_assoc. cbn [app]. rewrite <- !app_assoc. cbn [app].
        rewrite <- !app_assoc. reflexivity. }
    rewrite open_lt, tag_open by assumption.
    unfold expected_attrs. rewrite <- app_assoc. reflexivity.
  Qed.

  Lemma tok_end out : tok [] (STxt []) [] [] [] out = Some (rev out).
  Proof. reflexivity. Qed.

  Theorem render_single_element el raw pad :
    el_safe_b gid el raw = true -> raw_consistent el raw pad = true ->
    e_content el = [] -> pattern_on el = false ->
    tokenize (render gid el) = Some [TEmpty (e_tag el) (expected_attrs gid el raw)].
  Proof.
    intros Hs Hr Hc Hp. unfold tokenize, render. rewrite Hp.
    rewrite (render1_selfclose el raw pad [] [] Hs Hr Hc). reflexivity.
  Qed.

  Lemma pattern_on_content el : pattern_on el = true -> e_content el = [].
  Proof.
    unfold pattern_on. destruct (e_content el); [reflexivity|]. discriminate.
  Qed.

  Theorem render_pattern_pair el raw pad :
    el_safe_b gid el raw = true -> el_safe_b gid (pattern_el el) raw = true ->
    raw_consistent el raw pad = true -> pattern_on el = true ->
    tokenize (render gid el)
    = Some [TEmpty (e_tag el) (expected_attrs gid el raw);
            TEmpty (e_tag el) (expected_attrs gid (pattern_el el) raw)].
  Proof.
    intros Hs Hs2 Hr Hp. pose proof (pattern_on_content el Hp) as Hc.
    unfold tokenize, render. rewrite Hp.
    rewrite (render1_selfclose el raw pad _ [] Hs Hr Hc).
    rewrite <- (app_nil_r (render1 gid (pattern_el el))).
    rewrite (render1_selfclose (pattern_el el) raw pad [] _ Hs2 Hr Hc). reflexivity.
  Qed.

  (* an element whose content is an escaped user string: exactly start tag, character data, end tag; the
     character data decodes to the (sanitised) string *)
  Theorem render_text_element el raw pad s :
    el_safe_b gid el raw = true -> raw_consistent el raw pad = true ->
    s <> [] -> e_content el = escape_text s ->
    tokenize (render gid el)
    = Some [TOpen (e_tag el) (expected_attrs gid el raw); TText (escape_text s); TClose (e_tag el)]
    /\ decode_text (escape_text s) = Some (map sanitize s).
  Proof.
    intros Hs Hr Hne Hc. split; [|apply escape_text_decodes].
    destruct (el_safe_split el raw Hs) as (Hn & _ & _).
    assert (Hcne : e_content el <> []).
    { rewrite Hc. destruct s; [contradiction|]. apply escape_text_nonempty. }
    assert (Hp : pattern_on el = false).
    { unfold pattern_on. destruct (e_content el); [contradiction|]. reflexivity. }
    unfold tokenize, render. rewrite Hp.
    rewrite (render1_open el raw pad [] [] Hs Hr Hcne). rewrite Hc.
    pose proof (escape_text_val_ok s) as V. unfold val_ok in V. apply andb_prop in V as [V _].
    rewrite close_tag; try assumption.
    - reflexivity.
    - rewrite <- Hc. exact Hcne.
    - apply esc_ok_no_lt, escape_text_alphabet.
  Qed.

  (* ---- the field-wise premise is sufficient ---- *)

  Hypothesis H_gid : forall s, val_ok (gid s) = true.

  Lemma ne_ok k v : xml_name k = true -> val_ok v = true -> forallb attr_ok (ne k v) = true.
  Proof.
    intros Hk Hv. unfold ne. destruct (nonempty_s v); [|reflexivity].
    cbn [forallb]. unfold attr_ok. cbn [fst snd]. rewrite Hk, Hv. reflexivity.
  Qed.

  Lemma num_attrs_ok : forall names vals,
    forallb xml_name names = true -> forallb opt_val_ok vals = true ->
    forallb attr_ok (num_attrs names vals) = true.
  Proof.
    unfold num_attrs.
    induction names as [|k names IH]; intros vals Hn Hv; [reflexivity|].
    destruct vals as [|o vals]; [reflexivity|].
    rewrite forallb_cons in Hn. rewrite forallb_cons in Hv.
    apply andb_prop in Hn as [Hk Hn]. apply andb_prop in Hv as [Ho Hv].
    cbn [combine flat_map fst snd]. rewrite forallb_app, (IH vals Hn Hv), andb_true_r.
    destruct o as [v|]; [|reflexivity].
    cbn [forallb]. unfold attr_ok. cbn [fst snd]. cbn [opt_val_ok] in Ho. rewrite Hk, Ho. reflexivity.
  Qed.

  Lemma theme_codes_ok : forallb val_ok theme_codes = true.
  Proof. vm_compute. reflexivity. Qed.

  Lemma theme_color_val_ok v : is_theme_color v = true -> val_ok v = true.
  Proof.
    unfold is_theme_color. intro H. apply existsb_exists in H as (x & Hin & E).
    apply str_eqb_eq in E. subst x.
    pose proof theme_codes_ok as T. rewrite forallb_forall in T. apply T; assumption.
  Qed.

  Lemma lookup_ok v t : forallb (fun p => val_ok (snd p)) t = true -> val_ok (lookup v t) = true.
  Proof.
    induction t as [|[a b] t IH]; intro H; [reflexivity|].
    rewrite forallb_cons in H. apply andb_prop in H as [Hb Ht]. cbn [lookup].
    destruct (str_eqb v a); [exact Hb | apply IH; exact Ht].
  Qed.

  Lemma val_ok_cons_plain c s : plain c = true -> val_ok s = true -> val_ok (c :: s) = true.
  Proof.
    intros Hc Hs. change (c :: s) with ([c] ++ s). apply val_ok_app; [|exact Hs].
    apply plain_val_ok. cbn [forallb]. rewrite Hc. reflexivity.
  Qed.

  Lemma color_part_ok k grad th v :
    xml_name k = true -> val_ok k = true -> val_ok v = true -> theme_ok th = true ->
    val_ok (fst (color_part gid k grad th v)) = true
    /\ forallb attr_ok (snd (color_part gid k grad th v)) = true.
  Proof.
    intros Hk Hkv Hv Ht. unfold color_part.
    destruct (is_theme_color v) eqn:T.
    - cbn [fst snd]. split.
      + apply val_ok_cons_plain; [reflexivity|]. apply val_ok_app; [exact Hkv|].
        apply val_ok_cons_plain; [reflexivity|exact Hv].
      + destruct th as [t|]; [|reflexivity]. cbn [forallb]. unfold attr_ok. cbn [fst snd].
        rewrite Hk, (lookup_ok v t Ht). reflexivity.
    - destruct (nonempty_s v); cbn [fst snd]; split; try reflexivity.
      cbn [forallb]. unfold attr_ok. cbn [fst snd]. rewrite Hk.
      destruct (grad && is_gradient v).
      + rewrite val_ok_app; [reflexivity|reflexivity|].
        apply val_ok_app; [apply H_gid|reflexivity].
      + rewrite Hv. reflexivity.
  Qed.

  Lemma num_names_ok : forallb xml_name num_names = true.
  Proof. vm_compute. reflexivity. Qed.

  Theorem fields_safe_sufficient el raw :
    fields_safe el raw = true -> el_safe_b gid el raw = true.
  Proof.
    unfold fields_safe. intro H.
    repeat match type of H with (_ && _ = true) => let X := fresh "F" in apply andb_prop in H as [H X] end.
    unfold el_safe_b, expected_attrs. rewrite H. cbn [andb].
    destruct (color_part_ok k_stroke true (e_theme el) (e_stroke el) eq_refl eq_refl F6 F) as [Cs1 Cs2].
    destruct (color_part_ok k_fill true (e_theme el) (e_fill el) eq_refl eq_refl F7 F) as [Cf1 Cf2].
    destruct (color_part_ok k_bg false (e_theme el) (e_bg el) eq_refl eq_refl F5 F) as [Cb1 Cb2].
    destruct (color_part_ok k_color false (e_theme el) (e_color el) eq_refl eq_refl F4 F) as [Cc1 Cc2].
    rewrite !forallb_app. unfold pre_attrs. rewrite !forallb_app.
    rewrite Cs2, Cf2, Cb2, Cc2, F1.
    rewrite (ne_ok k_href _ eq_refl F15), (num_attrs_ok _ _ num_names_ok F14).
    rewrite (ne_ok k_dash _ eq_refl F13), (ne_ok k_d _ eq_refl F12), (ne_ok k_mask _ eq_refl F11),
            (ne_ok k_points _ eq_refl F10), (ne_ok k_transform _ eq_refl F9), (ne_ok k_xmlns _ eq_refl F8),
            (ne_ok k_style _ eq_refl F2).
    rewrite (ne_ok k_class).
    2: reflexivity.
    2:{ repeat apply val_ok_app; assumption. }
    cbn [andb]. unfold post_attrs. destruct (nonempty_s (e_clip el)); [|reflexivity].
    cbn [forallb]. unfold attr_ok. cbn [fst snd].
    rewrite val_ok_app; [reflexivity|reflexivity|]. apply val_ok_app; [exact F0|reflexivity].
  Qed.
End RenderProofs.

(* ---- attribute names are a fixed set ---- *)

Definition fixed_names : list str :=
  [k_href] ++ num_names ++ [k_dash; k_d; k_mask; k_points; k_transform; k_xmlns; k_stroke; k_fill; k_bg;
                             k_color; k_class; k_style; k_clip].

Lemma ne_names k v : incl (map fst (ne k v)) [k].
Proof. unfold ne. destruct (nonempty_s v); [apply incl_refl|apply incl_nil_l]. Qed.

Lemma num_attrs_names : forall names vals, incl (map fst (num_attrs names vals)) names.
Proof.
  unfold num_attrs. induction names as [|k names IH]; intro vals; [apply incl_nil_l|].
  destruct vals as [|o vals]; [apply incl_nil_l|].
  cbn [combine flat_map fst snd]. rewrite map_app. apply incl_app.
  - destruct o; [|apply incl_nil_l]. cbn [map fst]. intros x [<-|[]]. left; reflexivity.
  - apply incl_tl, IH.
Qed.

Lemma color_part_names gid k grad th v : incl (map fst (snd (color_part gid k grad th v))) [k].
Proof.
  unfold color_part. destruct (is_theme_color v).
  - destruct th; cbn [snd map fst]; [apply incl_refl|apply incl_nil_l].
  - destruct (nonempty_s v); cbn [snd map fst]; [apply incl_refl|apply incl_nil_l].
Qed.

Lemma single_in_fixed k : In k fixed_names -> forall l, incl l [k] -> incl l fixed_names.
Proof. intros Hk l H x Hx. specialize (H x Hx). destruct H as [<-|[]]. exact Hk. Qed.

Ltac in_fixed := unfold fixed_names; rewrite ?in_app_iff; cbn [In]; auto 40.

Lemma expected_attr_names (gid : str -> str) el raw :
  incl (map fst (expected_attrs gid el raw))
       ([k_href] ++ num_names ++ [k_dash; k_d; k_mask; k_points; k_transform; k_xmlns; k_stroke; k_fill; k_bg;
                                   k_color; k_class; k_style; k_clip] ++ map fst raw).
Proof.
  replace ([k_href] ++ num_names ++ [k_dash; k_d; k_mask; k_points; k_transform; k_xmlns; k_stroke; k_fill; k_bg;
                                     k_color; k_class; k_style; k_clip] ++ map fst raw)
    with (fixed_names ++ map fst raw) by (unfold fixed_names; rewrite <- !app_assoc; reflexivity).
  unfold expected_attrs. rewrite !map_app. apply incl_app; [apply incl_appl|apply incl_app; [apply incl_appr, incl_refl|apply incl_appl]].
  - unfold pre_attrs. rewrite !map_app.
    repeat apply incl_app;
      try (eapply single_in_fixed; [|apply ne_names]; in_fixed);
      try (eapply single_in_fixed; [|apply color_part_names]; in_fixed).
    eapply incl_tran; [apply num_attrs_names|]. unfold fixed_names. apply incl_appr, incl_appl, incl_refl.
  - unfold post_attrs. destruct (nonempty_s (e_clip el)); [|apply incl_nil_l].
    cbn [map fst]. eapply single_in_fixed; [|apply incl_refl]. in_fixed.
Qed.

Lemma escape_text_roundtrip_both s :
  decode_text (escape_text s) = Some (map sanitize s) /\ val_ok (escape_text s) = true.
Proof. split; [apply escape_text_decodes | apply escape_text_val_ok]. Qed.

Lemma escape_text_identity s :
  forallb in_char_range s = true -> decode_text (escape_text s) = Some s.
Proof.
  intro H. rewrite escape_text_decodes. f_equal.
  induction s as [|c s IH]; [reflexivity|]. rewrite forallb_cons in H. apply andb_prop in H as [Hc Hs].
  cbn [map]. unfold sanitize at 1. rewrite Hc, (IH Hs). reflexivity.
Qed.
