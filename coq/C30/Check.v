(* Executable case checker for C30: evaluated by vm_compute on cases written by harness/c30.go.
   Codes: 1 model differs from the implementation; 2 oracle hypothesis H_css false (csscolorparser accepted a
   stop colour that is not safe inside a double-quoted attribute); 3 a formatting / hashing oracle returned
   text outside its alphabet, or the witness for the raw Attributes chunk is inconsistent;
   10 escaper output is not character data that decodes to the (sanitised) input; 11 a Render output does not
   lex to exactly the expected element(s); 12 a colour accepted by ValidColor is emitted unsafely;
   13 the gradient definition emitted for an accepted colour does not lex to exactly the expected elements;
   20 a rendered document is not well-formed XML; 21 an element name carries a sentinel planted in a user
   string; 22 an attribute name carries one. *)
From Coq Require Import List NArith Bool.
Import ListNotations.
Require Export V.Lib.RunCases V.C30.Model.
Open Scope N_scope.

Inductive case :=
| CEscX (s out : str)      (* lib/svg.EscapeText *)
| CEscH (s out : str)      (* html.EscapeString *)
| CRender (el : elem) (raw : list (str * str)) (pad : bool) (gids : list (str * str)) (out : str)
    (* ThemableElement.Render; raw/pad: the structured form of el.Attributes the harness printed it from;
       gids: UniqueGradientID of fill / stroke *)
| CParse (s : str) (id : str) (res : option gradient)                    (* color.ParseGradient *)
| CGrad (g : gradient) (pcts : list str) (degv : option (str * str)) (out : str)   (* color.GradientToSVG on any record *)
| CColor (c : str) (css : list (str * bool)) (id : str) (valid isgrad istheme : bool)
         (pcts : list str) (degv : option (str * str)) (svg : str)
    (* ValidColor / IsGradient / IsThemeColor; css: csscolorparser verdict per stop colour; svg: what
       defineGradients writes for it (GradientToSVG (ParseGradient c)) when it is an accepted gradient *)
| CDoc (compiled wf : bool) (elems attrs sentinels : list str).

Definition stop_eqb (a b : stop) : bool := str_eqb (st_color a) (st_color b) && str_eqb (st_pos a) (st_pos b).
Definition gradient_eqb (a b : gradient) : bool :=
  str_eqb (g_type a) (g_type b) && str_eqb (g_dir a) (g_dir b) && list_eqb stop_eqb (g_stops a) (g_stops b)
  && str_eqb (g_id a) (g_id b).

Fixpoint lookup_b (k : str) (l : list (str * bool)) : bool :=
  match l with [] => false | (a, b) :: r => if str_eqb k a then b else lookup_b k r end.

Definition tokens_eqb (a : option (list token)) (b : list token) : bool :=
  match a with Some x => list_eqb token_eqb x b | None => false end.

(* alphabet of the float / hash oracles *)
Definition num_char (c : N) : bool :=
  is_digit c || is_alpha c || (c =? 46) || (c =? 45) || (c =? 43) || (c =? 37).
Definition num_text (s : str) : bool := forallb num_char s.

Definition nums_ok (l : list (option str)) : bool :=
  forallb (fun o => match o with Some v => num_text v | None => true end) l.

Definition expected_tokens (gid : str -> str) (el : elem) (raw : list (str * str)) : option (list token) :=
  let al := expected_attrs gid el raw in
  match e_content el with
  | [] => Some (TEmpty (e_tag el) al ::
                (if pattern_on el then [TEmpty (e_tag el) (expected_attrs gid (pattern_el el) raw)] else []))
  | c => match tokenize c with
         | Some tc => Some (TOpen (e_tag el) al :: tc ++ [TClose (e_tag el)])
         | None => None
         end
  end.

Definition check_case (c : case) : list N :=
  match c with
  | CEscX s out =>
      flag (str_eqb (escape_text s) out) 1
      ++ flag (opt_eqb str_eqb (decode_text out) (Some (map sanitize s))) 10
      ++ flag (negb (mem 34 out) && negb (mem 39 out) && negb (mem 60 out) && negb (mem 62 out)) 10
  | CEscH s out =>
      flag (str_eqb (escape_html s) out) 1
      ++ flag (negb (mem 34 out) && negb (mem 39 out) && negb (mem 60 out) && negb (mem 62 out)) 10
      ++ flag (if forallb in_char_range s then opt_eqb str_eqb (decode_text out) (Some s) else true) 10
  | CRender el raw pad gids out =>
      let gid := fun s => lookup s gids in
      flag (str_eqb (render gid el) out) 1
      ++ flag (nums_ok (e_nums el)) 3
      ++ flag (raw_consistent el raw pad) 3
      ++ flag (if el_safe_b gid el raw && (negb (pattern_on el) || el_safe_b gid (pattern_el el) raw)
               then match expected_tokens gid el raw with
                    | Some ts => tokens_eqb (tokenize out) ts
                    | None => true
                    end
               else true) 11
  | CParse s id res =>
      flag (opt_eqb gradient_eqb (parse_gradient (fun _ => id) s) res) 1
  | CGrad g pcts degv out =>
      let pct := fun i _ => nth i pcts [] in
      flag (str_eqb (gradient_to_svg pct (fun _ => degv) g) out
            || str_eqb (gradient_to_svg_fixed pct (fun _ => degv) g) out) 1
      ++ flag (forallb num_text pcts && match degv with Some (a, b) => num_text a && num_text b | None => true end) 3
  | CColor c css id valid isgrad istheme pcts degv svg =>
      let gid := fun _ : str => id in
      let css_ok := fun s => lookup_b s css in
      let pct := fun i _ => nth i pcts [] in
      let deg := fun _ : str => degv in
      flag (Bool.eqb (valid_color gid css_ok c) valid || Bool.eqb (valid_color_fixed gid css_ok c) valid) 1
      ++ flag (Bool.eqb (is_gradient c) isgrad) 1
      ++ flag (Bool.eqb (is_theme_color c) istheme) 1
      ++ (if valid && isgrad then
            match parse_gradient gid c with
            | Some g =>
                (* the emitter is either the pinned one or the repaired one of fix.patch *)
                let pinned := str_eqb (gradient_to_svg pct deg g) svg in
                let fixed := str_eqb (gradient_to_svg_fixed pct deg g) svg in
                flag (pinned || fixed) 1
                ++ flag (negb pinned || forallb (fun s => implb (css_ok (st_color s)) (val_ok (st_color s))) (g_stops g)) 2
                ++ flag (forallb num_text pcts && num_text id
                         && match degv with Some (a, b) => num_text a && num_text b | None => true end) 3
                ++ flag (if pinned
                         then tokens_eqb (tokenize svg) (gradient_tokens pct deg id_esc g)
                              && gradient_ok pct deg id_esc g
                         else tokens_eqb (tokenize svg) (gradient_tokens pct deg escape_text g)) 13
            | None => [1]
            end
          else [])
      ++ flag (if valid then val_ok (emitted_color gid c) else true) 12
  | CDoc compiled wf elems attrs sentinels =>
      if compiled then
        flag wf 20 ++ flag (names_clean elems sentinels) 21 ++ flag (names_clean attrs sentinels) 22
      else []
  end.
