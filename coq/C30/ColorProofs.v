(* C30 — proofs, part 3: colour validation and gradient definitions. *)
From Coq Require Import List NArith Bool Lia.
Import ListNotations.
Require Import V.Lib.RunCases V.Gen.C30Tables V.C30.Model V.C30.Proofs V.C30.RenderProofs.
Open Scope N_scope.

Arguments N.eqb : simpl never.
Arguments N.leb : simpl never.
Arguments name_char : simpl never.
Arguments name_start : simpl never.
Arguments is_ws : simpl never.
Arguments in_char_range : simpl never.
Arguments text_ok : simpl never.
Arguments val_ok : simpl never.
Arguments xml_name : simpl never.
Arguments attr_ok : simpl never.

(* the hand models of the two exported regexps are models of exactly these sources *)
Lemma regex_sources_unchanged :
  color_hex_regex_src = expected_hex_regex_src /\ gradient_regex_src = expected_gradient_regex_src.
Proof. split; vm_compute; reflexivity. Qed.

(* ---- plain characters ---- *)

Lemma plain_of_range r : 35 <= r -> r <= 55295 -> r <> 38 -> r <> 60 -> plain r = true.
Proof.
  intros L U N38 N60. unfold plain, in_char_range.
  assert (E9 : (r =? 9) = false) by (apply N.eqb_neq; lia).
  assert (E10 : (r =? 10) = false) by (apply N.eqb_neq; lia).
  assert (E13 : (r =? 13) = false) by (apply N.eqb_neq; lia).
  assert (E32 : (32 <=? r) = true) by (apply N.leb_le; lia).
  assert (EU : (r <=? 55295) = true) by (apply N.leb_le; lia).
  assert (E34 : (r =? 34) = false) by (apply N.eqb_neq; lia).
  apply N.eqb_neq in N38, N60.
  rewrite E9, E10, E13, E32, EU, N38, N60, E34. reflexivity.
Qed.

Lemma lower_a_plain r : is_lower (lower_a r) = true -> plain r = true.
Proof.
  unfold lower_a. destruct (is_upper r) eqn:U.
  - intros _. unfold is_upper in U. apply andb_prop in U as [U1 U2].
    apply N.leb_le in U1, U2. apply plain_of_range; lia.
  - destruct (N.eqb_spec r 304) as [->|N304]; [intros _; reflexivity|].
    destruct (N.eqb_spec r 8490) as [->|N8490]; [intros _; reflexivity|].
    unfold is_lower. intro L. apply andb_prop in L as [L1 L2].
    apply N.leb_le in L1, L2. apply plain_of_range; lia.
Qed.

Lemma is_hex_plain c : is_hex c = true -> plain c = true.
Proof.
  unfold is_hex, hexval, is_digit. intro H.
  destruct ((48 <=? c) && (c <=? 57)) eqn:D.
  - apply andb_prop in D as [D1 D2]. apply N.leb_le in D1, D2. apply plain_of_range; lia.
  - destruct ((65 <=? c) && (c <=? 70)) eqn:A.
    + apply andb_prop in A as [A1 A2]. apply N.leb_le in A1, A2. apply plain_of_range; lia.
    + destruct ((97 <=? c) && (c <=? 102)) eqn:B; [|discriminate].
      apply andb_prop in B as [B1 B2]. apply N.leb_le in B1, B2. apply plain_of_range; lia.
Qed.

Lemma forallb_impl {A} (f g : A -> bool) l :
  (forall x, f x = true -> g x = true) -> forallb f l = true -> forallb g l = true.
Proof.
  intros I. induction l as [|x l IH]; [reflexivity|]. rewrite !forallb_cons. intro H.
  apply andb_prop in H as [Hx Hl]. rewrite (I x Hx), (IH Hl). reflexivity.
Qed.

Lemma forallb_map_comp {A B} (f : B -> bool) (g : A -> B) l :
  forallb f (map g l) = forallb (fun x => f (g x)) l.
Proof. induction l as [|x l IH]; [reflexivity|]. cbn [map forallb]. rewrite IH. reflexivity. Qed.

(* regenerated table: every named colour is spelled with ASCII lower-case letters only *)
Lemma named_colors_lower : forallb (forallb is_lower) named_colors = true.
Proof. vm_compute. reflexivity. Qed.

Lemma named_color_plain c :
  existsb (str_eqb (map lower_a c)) named_colors = true -> forallb plain c = true.
Proof.
  intro H. apply existsb_exists in H as (x & Hin & E). apply str_eqb_eq in E.
  pose proof named_colors_lower as T. rewrite forallb_forall in T. specialize (T x Hin).
  rewrite <- E, forallb_map_comp in T.
  revert T. apply forallb_impl. intros r. apply lower_a_plain.
Qed.

Lemma hex_color_plain c : hex_color c = true -> forallb plain c = true.
Proof.
  unfold hex_color. destruct c as [|h r]; [discriminate|].
  destruct (N.eqb_spec h 35) as [->|]; [|destruct h as [|p]; try discriminate; repeat (destruct p; try discriminate)].
  - intro H. apply andb_prop in H as [_ H]. rewrite forallb_cons.
    rewrite (forallb_impl is_hex plain r is_hex_plain H). reflexivity.
  - contradiction.
Qed.

Section ColorProofs.
  Variable gid : str -> str.
  Variable css_ok : str -> bool.
  Hypothesis H_gid : forall s, val_ok (gid s) = true.

  (* every colour ValidColor accepts is written into fill= / stroke= safely by ThemableElement.Render *)
  Theorem valid_color_attr_safe c :
    valid_color gid css_ok c = true -> val_ok (emitted_color gid c) = true.
  Proof.
    unfold valid_color, emitted_color. destruct (is_gradient c).
    - intros _. apply val_ok_app; [reflexivity|]. apply val_ok_app; [apply H_gid|reflexivity].
    - intro H. apply orb_prop in H as [H|H]; apply plain_val_ok.
      + apply named_color_plain; exact H.
      + apply hex_color_plain; exact H.
  Qed.

  Lemma valid_gradient_stops c :
    valid_color gid css_ok c = true -> is_gradient c = true ->
    exists g, parse_gradient gid c = Some g /\ forallb (fun s => css_ok (st_color s)) (g_stops g) = true.
  Proof.
    unfold valid_color. intros H G. rewrite G in H.
    destruct (parse_gradient gid c) as [g|]; [|discriminate]. exists g. auto.
  Qed.
End ColorProofs.

(* ---- gradient definitions ---- *)

Section GradientProofs.
  Variable pct : nat -> nat -> str.
  Variable deg : str -> option (str * str).

  Lemma lt_flush10 r out :
    tok (60 :: r) (STxt [10]) [] [] [] out = tok r SLt [] [] [] (TText [10] :: out).
  Proof. reflexivity. Qed.

  Lemma nl_text r out : tok (10 :: r) (STxt []) [] [] [] out = tok r (STxt [10]) [] [] [] out.
  Proof. reflexivity. Qed.

  Lemma stops_lex esc total : forall ss i rest out,
    stops_ok pct esc total i ss = true ->
    tok (stops_text pct esc total i ss ++ rest) (STxt [10]) [] [] [] out
    = tok rest (STxt [10]) [] [] [] (rev (stops_tokens pct esc total i ss) ++ out).
  Proof.
    induction ss as [|s ss IH]; intros i rest out H; [reflexivity|].
    cbn [stops_ok] in H. apply andb_prop in H as [H Hr]. apply andb_prop in H as [Ho Hc].
    cbn [stops_text stops_tokens].
    replace ((60 :: n_stop ++ attrs_text [(k_offset, esc (offset_of pct total i s)); (k_stop_color, esc (st_color s))]
              ++ s_selfclose ++ 10 :: stops_text pct esc total (S i) ss) ++ rest)
      with (60 :: (n_stop ++ attrs_text [(k_offset, esc (offset_of pct total i s)); (k_stop_color, esc (st_color s))]
                   ++ s_selfclose ++ 10 :: (stops_text pct esc total (S i) ss ++ rest))).
    2:{ cbn [app]. rewrite <- !app_assoc. cbn [app]. reflexivity. }
    rewrite lt_flush10, tag_selfclose1.
    - rewrite nl_text, IH by assumption. cbn [rev]. rewrite <- !app_assoc. reflexivity.
    - reflexivity.
    - cbn [forallb]. unfold attr_ok. cbn [fst snd]. rewrite Ho, Hc. reflexivity.
  Qed.

  Lemma gradient_frame esc n A ss total rest0 :
    xml_name n = true -> forallb attr_ok A = true -> stops_ok pct esc total O ss = true ->
    rest0 = [] ->
    tokenize (60 :: n ++ attrs_text A ++ 62 :: 10 :: stops_text pct esc total O ss ++ 60 :: 47 :: n ++ [62] ++ rest0)
    = Some (TOpen n A :: stops_tokens pct esc total O ss ++ [TText [10]; TClose n]).
  Proof.
    intros Hn HA Hs ->. unfold tokenize.
    rewrite open_lt, tag_open1, nl_text, stops_lex, lt_flush10 by assumption.
    change ([62] ++ []) with (62 :: @nil N).
    rewrite close_after_lt by assumption.
    rewrite tok_end. cbn [rev]. rewrite rev_app_distr, rev_involutive. cbn [rev app].
    rewrite <- !app_assoc. reflexivity.
  Qed.

  (* whenever every written value is safe, the definition lexes to exactly the expected elements:
     one gradient element whose children are the stop elements with exactly offset and stop-color *)
  Theorem gradient_lex esc g :
    gradient_ok pct deg esc g = true ->
    tokenize (gradient_svg pct deg esc g) = Some (gradient_tokens pct deg esc g).
  Proof.
    unfold gradient_ok, gradient_svg, gradient_tokens. intro H. apply andb_prop in H as [HA Hs].
    destruct (str_eqb (g_type g) s_linear).
    - pose proof (gradient_frame esc n_lingrad (lin_attrs deg esc g) (g_stops g) (List.length (g_stops g)) []
                                 eq_refl HA Hs eq_refl) as T.
      rewrite app_nil_r in T. exact T.
    - destruct (str_eqb (g_type g) s_radial); [|reflexivity].
      assert (HA' : forallb attr_ok [(k_id, esc (g_id g))] = true).
      { unfold lin_attrs in HA. destruct (parse_dir deg (g_dir g)) as [[[x1 y1] x2] y2].
        rewrite forallb_cons in HA. apply andb_prop in HA as [HA _]. cbn [forallb]. rewrite HA. reflexivity. }
      pose proof (gradient_frame esc n_radgrad [(k_id, esc (g_id g))] (g_stops g) (List.length (g_stops g)) []
                                 eq_refl HA' Hs eq_refl) as T.
      rewrite app_nil_r in T. exact T.
  Qed.

  Lemma balanced_stops esc total : forall ss i rest st,
    balanced (stops_tokens pct esc total i ss ++ rest) st = balanced rest st.
  Proof. induction ss as [|s ss IH]; intros i rest st; [reflexivity|]. cbn [stops_tokens app balanced]. apply IH. Qed.

  Theorem gradient_tokens_balanced esc g : balanced (gradient_tokens pct deg esc g) [] = true.
  Proof.
    unfold gradient_tokens.
    destruct (str_eqb (g_type g) s_linear).
    - cbn [balanced]. rewrite balanced_stops. reflexivity.
    - destruct (str_eqb (g_type g) s_radial); [|reflexivity].
      cbn [balanced]. rewrite balanced_stops. reflexivity.
  Qed.

  (* ---- direction ---- *)
  Hypothesis H_deg : forall s a b, deg s = Some (a, b) -> val_ok a = true /\ val_ok b = true.

  Definition quad_ok (q : str * str * str * str) : Prop :=
    let '(a, b, c, d) := q in val_ok a = true /\ val_ok b = true /\ val_ok c = true /\ val_ok d = true.

  Lemma dir_words_ok : forall ws st, quad_ok st -> quad_ok (dir_words ws st).
  Proof.
    induction ws as [|w ws IH]; intros st H; [exact H|].
    destruct st as [[[xs xe] ys] ye]. cbn [dir_words]. apply IH.
    destruct H as (A & B & C & D).
    destruct (str_eqb w w_left); [repeat split; try assumption; reflexivity|].
    destruct (str_eqb w w_right); [repeat split; try assumption; reflexivity|].
    destruct (str_eqb w w_top); [repeat split; try assumption; reflexivity|].
    destruct (str_eqb w w_bottom); [repeat split; try assumption; reflexivity|].
    repeat split; assumption.
  Qed.

  Lemma parse_dir_ok d : quad_ok (parse_dir deg d).
  Proof.
    unfold parse_dir.
    destruct (strip_prefix s_to (trim_space d)) as [d'|].
    - pose proof (dir_words_ok (fields (trim_space d')) (p50, p50, p50, p50)) as W.
      destruct (dir_words (fields (trim_space d')) (p50, p50, p50, p50)) as [[[xs xe] ys] ye].
      assert (Q : quad_ok (xs, xe, ys, ye)) by (apply W; repeat split; reflexivity).
      destruct Q as (A & B & C & D). repeat split; assumption.
    - destruct (has_suffix s_deg (trim_space d)); [|repeat split; reflexivity].
      destruct (deg (trim_space (trim_suffix s_deg (trim_space d)))) as [[x2 y2]|] eqn:E; [|repeat split; reflexivity].
      destruct (H_deg _ _ _ E) as [A B]. repeat split; try assumption; reflexivity.
  Qed.

  Lemma lin_attrs_ok esc g : val_ok (esc (g_id g)) = true -> forallb attr_ok (lin_attrs deg esc g) = true.
  Proof.
    intro Hid. unfold lin_attrs. pose proof (parse_dir_ok (g_dir g)) as Q.
    destruct (parse_dir deg (g_dir g)) as [[[x1 y1] x2] y2]. destruct Q as (A & B & C & D).
    cbn [forallb]. unfold attr_ok. cbn [fst snd]. rewrite Hid, A, B, C, D. reflexivity.
  Qed.

  (* ---- the repaired code: escaping at the sink makes every gradient record safe ---- *)
  Lemma stops_ok_fixed total : forall ss i, stops_ok pct escape_text total i ss = true.
  Proof.
    induction ss as [|s ss IH]; intro i; [reflexivity|].
    cbn [stops_ok]. rewrite !escape_text_val_ok, IH. reflexivity.
  Qed.

  Theorem gradient_svg_safe_fixed g :
    tokenize (gradient_to_svg_fixed pct deg g) = Some (gradient_tokens pct deg escape_text g)
    /\ balanced (gradient_tokens pct deg escape_text g) [] = true.
  Proof.
    split; [|apply gradient_tokens_balanced].
    apply gradient_lex. unfold gradient_ok.
    rewrite lin_attrs_ok by apply escape_text_val_ok. rewrite stops_ok_fixed. reflexivity.
  Qed.

  (* ---- the pinned code, guarded ---- *)
  Hypothesis H_pct : forall i n, val_ok (pct i n) = true.

  Lemma stops_ok_pinned total : forall ss i,
    forallb (fun s => val_ok (st_color s)) ss = true -> forallb (fun s => val_ok (st_pos s)) ss = true ->
    stops_ok pct id_esc total i ss = true.
  Proof.
    induction ss as [|s ss IH]; intros i Hc Hp; [reflexivity|].
    rewrite forallb_cons in Hc. rewrite forallb_cons in Hp.
    apply andb_prop in Hc as [Hc1 Hc2]. apply andb_prop in Hp as [Hp1 Hp2].
    cbn [stops_ok]. unfold id_esc at 1 2. rewrite Hc1, (IH (S i) Hc2 Hp2).
    unfold offset_of. destruct (st_pos s); [rewrite H_pct|rewrite Hp1]; reflexivity.
  Qed.

  Theorem gradient_svg_safe_guarded (gid : str -> str) (css_ok : str -> bool) c g :
    (forall s, val_ok (gid s) = true) ->
    (forall s, css_ok s = true -> val_ok s = true) ->
    valid_color gid css_ok c = true -> is_gradient c = true -> parse_gradient gid c = Some g ->
    forallb (fun s => val_ok (st_pos s)) (g_stops g) = true ->
    tokenize (gradient_to_svg pct deg g) = Some (gradient_tokens pct deg id_esc g)
    /\ balanced (gradient_tokens pct deg id_esc g) [] = true.
  Proof.
    intros Hgid Hcss Hv Hg Hp Hpos. split; [|apply gradient_tokens_balanced].
    destruct (valid_gradient_stops gid css_ok c Hv Hg) as (g' & Hp' & Hcs).
    rewrite Hp in Hp'. inversion Hp'; subst g'.
    apply gradient_lex. unfold gradient_ok.
    assert (Hid : val_ok (id_esc (g_id g)) = true).
    { unfold parse_gradient in Hp. destruct (grad_body (trim_space c)) as [[lin params]|]; [|discriminate].
      destruct (split_params params) as [|q0 rest]; [discriminate|].
      destruct ((lin && (has_suffix s_deg (trim_space q0) || has_prefix s_to (trim_space q0)))
                || (negb lin && (str_eqb (trim_space q0) s_circle || str_eqb (trim_space q0) s_ellipse))).
      - destruct rest; [discriminate|]. inversion Hp; subst g. apply Hgid.
      - inversion Hp; subst g. apply Hgid. }
    rewrite (lin_attrs_ok id_esc g Hid).
    rewrite stops_ok_pinned; [reflexivity| |exact Hpos].
    revert Hcs. apply forallb_impl. intros s. apply Hcss.
  Qed.
End GradientProofs.

(* ---- the unguarded statement is false on the faithful model ---- *)

Require Import Coq.Strings.String.
Definition w_red : str := Eval vm_compute in lit "red"%string.
Definition w_blue : str := Eval vm_compute in lit "blue"%string.
Definition w_witness : str := Eval vm_compute in
  lit "linear-gradient(red 10%""/><script>alert(1)</script><x, blue)"%string.
Definition w_script : str := Eval vm_compute in lit "<script>alert(1)</script>"%string.
Definition w_pct : nat -> nat -> str := fun _ _ => p100.
Definition w_gid_text : str := Eval vm_compute in lit "grad-0"%string.
Definition w_gid : str -> str := fun _ => w_gid_text.

Theorem gradient_svg_safe_refuted :
  forall css_ok : str -> bool, css_ok w_red = true -> css_ok w_blue = true ->
    valid_color w_gid css_ok w_witness = true /\ is_gradient w_witness = true
    /\ exists g, parse_gradient w_gid w_witness = Some g
                 /\ tokenize (gradient_to_svg w_pct (fun _ => None) g) = None
                 /\ contains w_script (gradient_to_svg w_pct (fun _ => None) g) = true.
Proof.
  intros css_ok Hr Hb.
  assert (P : exists g, parse_gradient w_gid w_witness = Some g) by (eexists; vm_compute; reflexivity).
  destruct P as [g P]. split; [|split; [vm_compute; reflexivity|exists g]].
  - unfold valid_color. replace (is_gradient w_witness) with true by (vm_compute; reflexivity).
    rewrite P. vm_compute in P. inversion P; subst g. cbn [g_stops forallb st_color].
    change [114; 101; 100] with w_red. change [98; 108; 117; 101] with w_blue. rewrite Hr, Hb. reflexivity.
  - split; [exact P|]. vm_compute in P. inversion P; subst g. split; vm_compute; reflexivity.
Qed.
