(* C30 — proofs, part 1: escapers, reference decoder, tag lexer. *)
From Coq Require Import List NArith Bool Lia.
Import ListNotations.
Require Import V.Lib.RunCases V.Gen.C30Tables V.C30.Model.
Open Scope N_scope.

(* keep comparisons on runes folded under simpl *)
Arguments N.eqb : simpl never.
Arguments N.leb : simpl never.
Arguments N.ltb : simpl never.
Arguments N.add : simpl never.
Arguments N.sub : simpl never.
Arguments N.mul : simpl never.
Arguments name_char : simpl never.
Arguments name_start : simpl never.
Arguments is_ws : simpl never.
Arguments in_char_range : simpl never.
Arguments text_ok : simpl never.
Arguments val_ok : simpl never.

Lemma str_eqb_eq a b : str_eqb a b = true <-> a = b.
Proof. apply bytes_eqb_eq. Qed.

Lemma str_eqb_refl a : str_eqb a a = true.
Proof. apply str_eqb_eq; reflexivity. Qed.

Ltac bdestr :=
  repeat match goal with
         | |- context [N.eqb ?a ?b] => destruct (N.eqb_spec a b)
         | |- context [N.leb ?a ?b] => destruct (N.leb_spec a b)
         | H : context [N.eqb ?a ?b] |- _ => destruct (N.eqb_spec a b)
         | H : context [N.leb ?a ?b] |- _ => destruct (N.leb_spec a b)
         end.

(* ---------------------------------------------------------------------------------------------- *)
(* reference decoder                                                                              *)

Lemma option_map_app_nil {A} (o : option (list A)) : option_map (app []) o = o.
Proof. destruct o; reflexivity. Qed.

Lemma dec_app : forall a st x b,
  dec a st = Some x -> dec (a ++ b) st = option_map (app x) (dec b RT).
Proof.
  induction a as [|c a IH]; intros st x b H.
  - destruct st; simpl in H; inversion H; subst. simpl. symmetry; apply option_map_app_nil.
  - simpl in H |- *. destruct st.
    + destruct (c =? 38). { apply IH; exact H. }
      destruct (c =? 60). { discriminate. }
      destruct (in_char_range c); [|discriminate].
      destruct (dec a RT) as [y|] eqn:E; simpl in H; inversion H; subst.
      rewrite (IH RT y b E). destruct (dec b RT); reflexivity.
    + destruct (c =? 59).
      * destruct (resolve (rev acc)); [|discriminate].
        destruct (dec a RT) as [y|] eqn:E; simpl in H; inversion H; subst.
        rewrite (IH RT y b E). destruct (dec b RT); reflexivity.
      * destruct (ref_char c); [|discriminate]. apply IH; exact H.
Qed.

Lemma text_ok_app a b : text_ok a = true -> text_ok b = true -> text_ok (a ++ b) = true.
Proof.
  unfold text_ok. destruct (dec a RT) as [y|] eqn:Ea; [|discriminate]. intros _.
  rewrite (dec_app a RT y b Ea). destruct (dec b RT); [reflexivity|discriminate].
Qed.

Lemma mem_app c a b : mem c (a ++ b) = mem c a || mem c b.
Proof. unfold mem. apply existsb_app. Qed.

Lemma val_ok_app a b : val_ok a = true -> val_ok b = true -> val_ok (a ++ b) = true.
Proof.
  unfold val_ok. intros Ha Hb. apply andb_prop in Ha as [Ha1 Ha2]. apply andb_prop in Hb as [Hb1 Hb2].
  rewrite text_ok_app by assumption. rewrite mem_app.
  apply negb_true_iff in Ha2. apply negb_true_iff in Hb2. rewrite Ha2, Hb2. reflexivity.
Qed.

(* characters that stand for themselves in character data and in a double-quoted value *)
Definition plain (c : N) : bool :=
  in_char_range c && negb (c =? 38) && negb (c =? 60) && negb (c =? 34).

Lemma dec_plain c r : plain c = true -> dec (c :: r) RT = option_map (cons c) (dec r RT).
Proof.
  unfold plain. intro H.
  apply andb_prop in H as [H H34]. apply andb_prop in H as [H H60]. apply andb_prop in H as [H H38].
  simpl. apply negb_true_iff in H38. apply negb_true_iff in H60. rewrite H38, H60, H. reflexivity.
Qed.

Lemma plain_text_ok s : forallb plain s = true -> dec s RT = Some s.
Proof.
  induction s as [|c s IH]; simpl; intro H; [reflexivity|].
  apply andb_prop in H as [Hc Hs]. change (dec (c :: s) RT = Some (c :: s)).
  rewrite dec_plain by assumption. rewrite IH by assumption. reflexivity.
Qed.

Lemma mem_cons x c s : mem x (c :: s) = (x =? c) || mem x s.
Proof. reflexivity. Qed.

Lemma forallb_cons {A} (f : A -> bool) c s : forallb f (c :: s) = f c && forallb f s.
Proof. reflexivity. Qed.

Lemma plain_not_quote s : forallb plain s = true -> mem 34 s = false.
Proof.
  induction s as [|c s IH]; intro H; [reflexivity|].
  rewrite forallb_cons in H. apply andb_prop in H as [Hc Hs]. rewrite mem_cons, IH by assumption.
  unfold plain in Hc. apply andb_prop in Hc as [Hc H34].
  apply negb_true_iff in H34. rewrite N.eqb_sym. rewrite H34. reflexivity.
Qed.

Lemma plain_val_ok s : forallb plain s = true -> val_ok s = true.
Proof.
  intro H. unfold val_ok, text_ok. rewrite plain_text_ok by assumption.
  rewrite plain_not_quote by assumption. reflexivity.
Qed.

(* ---------------------------------------------------------------------------------------------- *)
(* xml.EscapeText                                                                                 *)

Lemma xml_esc_dec r rest :
  dec (xml_esc r ++ rest) RT = option_map (cons (sanitize r)) (dec rest RT).
Proof.
  unfold xml_esc, sanitize.
  destruct (N.eqb_spec r 34) as [->|N34]; [reflexivity|].
  destruct (N.eqb_spec r 39) as [->|N39]; [reflexivity|].
  destruct (N.eqb_spec r 38) as [->|N38]; [reflexivity|].
  destruct (N.eqb_spec r 60) as [->|N60]; [reflexivity|].
  destruct (N.eqb_spec r 62) as [->|N62]; [reflexivity|].
  destruct (N.eqb_spec r 9) as [->|N9]; [reflexivity|].
  destruct (N.eqb_spec r 10) as [->|N10]; [reflexivity|].
  destruct (N.eqb_spec r 13) as [->|N13]; [reflexivity|].
  destruct (in_char_range r) eqn:E.
  - simpl. apply N.eqb_neq in N38, N60. rewrite N38, N60, E. reflexivity.
  - reflexivity.
Qed.

Lemma escape_text_cons r s : escape_text (r :: s) = xml_esc r ++ escape_text s.
Proof. reflexivity. Qed.

Lemma escape_text_decodes s : decode_text (escape_text s) = Some (map sanitize s).
Proof.
  unfold decode_text. induction s as [|r s IH]; [reflexivity|].
  rewrite escape_text_cons, xml_esc_dec, IH. reflexivity.
Qed.

(* output alphabet: no quote, apostrophe, angle bracket, raw TAB/LF/CR; only XML characters *)
Definition esc_char_ok (c : N) : bool :=
  in_char_range c && negb (c =? 34) && negb (c =? 39) && negb (c =? 60) && negb (c =? 62)
  && negb (c =? 9) && negb (c =? 10) && negb (c =? 13).

Lemma xml_esc_alphabet r : forallb esc_char_ok (xml_esc r) = true.
Proof.
  unfold xml_esc.
  destruct (N.eqb_spec r 34); [reflexivity|]. destruct (N.eqb_spec r 39); [reflexivity|].
  destruct (N.eqb_spec r 38); [reflexivity|]. destruct (N.eqb_spec r 60); [reflexivity|].
  destruct (N.eqb_spec r 62); [reflexivity|]. destruct (N.eqb_spec r 9); [reflexivity|].
  destruct (N.eqb_spec r 10); [reflexivity|]. destruct (N.eqb_spec r 13); [reflexivity|].
  destruct (in_char_range r) eqn:E; [|reflexivity].
  simpl. unfold esc_char_ok. rewrite E.
  repeat match goal with H : r <> _ |- _ => apply N.eqb_neq in H; rewrite H; clear H end.
  reflexivity.
Qed.

Lemma escape_text_alphabet s : forallb esc_char_ok (escape_text s) = true.
Proof.
  induction s as [|r s IH]; [reflexivity|].
  rewrite escape_text_cons, forallb_app, xml_esc_alphabet, IH. reflexivity.
Qed.

Lemma esc_ok_no_quote s : forallb esc_char_ok s = true -> mem 34 s = false.
Proof.
  induction s as [|c s IH]; intro H; [reflexivity|].
  rewrite forallb_cons in H. apply andb_prop in H as [Hc Hs]. rewrite mem_cons, IH by assumption.
  destruct (N.eqb_spec 34 c) as [E|E]; [|reflexivity].
  subst c. vm_compute in Hc. discriminate.
Qed.

Lemma esc_char_ok_facts c : esc_char_ok c = true ->
  c <> 34 /\ c <> 39 /\ c <> 60 /\ c <> 62 /\ in_char_range c = true.
Proof.
  intro H. repeat split; try (intros ->; vm_compute in H; discriminate).
  unfold esc_char_ok in H. destruct (in_char_range c); [reflexivity|simpl in H; discriminate].
Qed.

Lemma escape_text_val_ok s : val_ok (escape_text s) = true.
Proof.
  unfold val_ok, text_ok. pose proof (escape_text_decodes s) as D. unfold decode_text in D. rewrite D.
  rewrite esc_ok_no_quote by apply escape_text_alphabet. reflexivity.
Qed.

Lemma escape_text_safe_all s :
  Forall (fun c => c <> 34 /\ c <> 39 /\ c <> 60 /\ c <> 62 /\ in_char_range c = true) (escape_text s).
Proof.
  apply Forall_forall. intros c Hin.
  pose proof (escape_text_alphabet s) as H. rewrite forallb_forall in H. specialize (H c Hin).
  apply esc_char_ok_facts; exact H.
Qed.

Lemma escape_text_nonempty r s : escape_text (r :: s) <> [].
Proof.
  rewrite escape_text_cons. unfold xml_esc.
  repeat match goal with |- context [if ?b then _ else _] => destruct b end; discriminate.
Qed.

(* html.EscapeString *)
Definition html_char_ok (c : N) : bool :=
  negb (c =? 34) && negb (c =? 39) && negb (c =? 60) && negb (c =? 62).

Lemma html_esc_alphabet r : forallb html_char_ok (html_esc r) = true.
Proof.
  unfold html_esc.
  destruct (N.eqb_spec r 38); [reflexivity|]. destruct (N.eqb_spec r 39); [reflexivity|].
  destruct (N.eqb_spec r 60); [reflexivity|]. destruct (N.eqb_spec r 62); [reflexivity|].
  destruct (N.eqb_spec r 34); [reflexivity|].
  simpl. unfold html_char_ok.
  repeat match goal with H : r <> _ |- _ => apply N.eqb_neq in H; rewrite H; clear H end.
  reflexivity.
Qed.

Lemma escape_html_alphabet s : forallb html_char_ok (escape_html s) = true.
Proof.
  induction s as [|r s IH]; [reflexivity|].
  change (escape_html (r :: s)) with (html_esc r ++ escape_html s).
  rewrite forallb_app, html_esc_alphabet, IH. reflexivity.
Qed.

Lemma html_esc_dec r rest :
  in_char_range r = true -> dec (html_esc r ++ rest) RT = option_map (cons r) (dec rest RT).
Proof.
  intro E. unfold html_esc.
  destruct (N.eqb_spec r 38) as [->|N38]; [reflexivity|].
  destruct (N.eqb_spec r 39) as [->|N39]; [reflexivity|].
  destruct (N.eqb_spec r 60) as [->|N60]; [reflexivity|].
  destruct (N.eqb_spec r 62) as [->|N62]; [reflexivity|].
  destruct (N.eqb_spec r 34) as [->|N34]; [reflexivity|].
  simpl. apply N.eqb_neq in N38, N60. rewrite N38, N60, E. reflexivity.
Qed.

Lemma escape_html_decodes s :
  forallb in_char_range s = true -> decode_text (escape_html s) = Some s.
Proof.
  unfold decode_text. induction s as [|r s IH]; simpl; intro H; [reflexivity|].
  apply andb_prop in H as [Hr Hs].
  change (dec (html_esc r ++ escape_html s) RT = Some (r :: s)).
  rewrite html_esc_dec by assumption. rewrite IH by assumption. reflexivity.
Qed.

Lemma escape_html_control_refuted : exists s, decode_text (escape_html s) = None.
Proof. exists [1]. reflexivity. Qed.

(* ---------------------------------------------------------------------------------------------- *)
(* tag lexer: scanning lemmas                                                                     *)

Lemma name_start_facts c : name_start c = true ->
  is_ws c = false /\ (c =? 47) = false /\ (c =? 62) = false /\ (c =? 60) = false /\ name_char c = true.
Proof.
  unfold name_start, name_char, name_start, is_ws, is_alpha, is_upper, is_lower, is_digit. intro H.
  repeat split; bdestr; simpl in *; try reflexivity; try discriminate; try lia.
Qed.

Lemma name_char_facts c : name_char c = true ->
  is_ws c = false /\ (c =? 47) = false /\ (c =? 62) = false /\ (c =? 61) = false.
Proof.
  unfold name_char, name_start, is_ws, is_alpha, is_upper, is_lower, is_digit. intro H.
  repeat split; bdestr; simpl in *; try reflexivity; try discriminate; try lia.
Qed.

Lemma rev_cons_app {A} (c : A) n acc : rev (c :: n) ++ acc = rev n ++ c :: acc.
Proof. simpl. rewrite <- app_assoc. reflexivity. Qed.

Lemma tok_name : forall n rest acc out,
  forallb name_char n = true ->
  tok (n ++ rest) (SName acc) [] [] [] out = tok rest (SName (rev n ++ acc)) [] [] [] out.
Proof.
  induction n as [|c n IH]; intros rest acc out H; [reflexivity|].
  simpl in H. apply andb_prop in H as [Hc Hn].
  rewrite rev_cons_app. rewrite <- IH by assumption. simpl. rewrite Hc. reflexivity.
Qed.

Lemma tok_attrname : forall n rest acc nm al out,
  forallb name_char n = true ->
  tok (n ++ rest) (SAttr acc) nm al [] out = tok rest (SAttr (rev n ++ acc)) nm al [] out.
Proof.
  induction n as [|c n IH]; intros rest acc nm al out H; [reflexivity|].
  simpl in H. apply andb_prop in H as [Hc Hn].
  rewrite rev_cons_app. rewrite <- IH by assumption. simpl. rewrite Hc. reflexivity.
Qed.

Lemma tok_closename : forall n rest acc out,
  forallb name_char n = true ->
  tok (n ++ rest) (SClose acc) [] [] [] out = tok rest (SClose (rev n ++ acc)) [] [] [] out.
Proof.
  induction n as [|c n IH]; intros rest acc out H; [reflexivity|].
  simpl in H. apply andb_prop in H as [Hc Hn].
  rewrite rev_cons_app. rewrite <- IH by assumption. simpl. rewrite Hc. reflexivity.
Qed.

Lemma tok_val : forall v rest q acc nm al cur out,
  mem q v = false ->
  tok (v ++ rest) (SVal q acc) nm al cur out = tok rest (SVal q (rev v ++ acc)) nm al cur out.
Proof.
  induction v as [|c v IH]; intros rest q acc nm al cur out H; [reflexivity|].
  rewrite mem_cons in H. apply orb_false_iff in H as [Hc Hv].
  rewrite rev_cons_app. rewrite <- IH by assumption. simpl.
  rewrite N.eqb_sym, Hc. reflexivity.
Qed.

Lemma tok_text : forall t rest acc out,
  mem 60 t = false ->
  tok (t ++ rest) (STxt acc) [] [] [] out = tok rest (STxt (rev t ++ acc)) [] [] [] out.
Proof.
  induction t as [|c t IH]; intros rest acc out H; [reflexivity|].
  rewrite mem_cons in H. apply orb_false_iff in H as [Hc Ht].
  rewrite rev_cons_app. rewrite <- IH by assumption. simpl.
  rewrite N.eqb_sym, Hc. reflexivity.
Qed.

(* one attribute *)
Lemma tok_attr : forall n v rest b nm al out,
  attr_ok (n, v) = true ->
  tok (attr_text (n, v) ++ rest) (SGap b) nm al [] out = tok rest (SGap false) nm ((n, v) :: al) [] out.
Proof.
  intros n v rest b nm al out H. unfold attr_ok in H. simpl in H.
  apply andb_prop in H as [Hn Hv]. unfold val_ok in Hv. apply andb_prop in Hv as [Hv1 Hv2].
  apply negb_true_iff in Hv2.
  destruct n as [|c n]; [discriminate|]. simpl in Hn. apply andb_prop in Hn as [Hc Hn].
  destruct (name_start_facts c Hc) as (W & S47 & S62 & _ & _).
  unfold attr_text. simpl fst. simpl snd.
  change ((32 :: (c :: n) ++ 61 :: 34 :: v ++ [34]) ++ rest)
    with (32 :: c :: (n ++ 61 :: 34 :: v ++ [34]) ++ rest).
  (* blank *)
  transitivity (tok (c :: (n ++ 61 :: 34 :: v ++ [34]) ++ rest) (SGap true) nm al [] out).
  { destruct b; reflexivity. }
  (* first name character *)
  transitivity (tok ((n ++ 61 :: 34 :: v ++ [34]) ++ rest) (SAttr [c]) nm al [] out).
  { simpl. rewrite W, S47, S62, Hc. reflexivity. }
  rewrite <- app_assoc. rewrite tok_attrname by assumption.
  (* = and the opening quote *)
  simpl app.
  transitivity (tok ((v ++ [34]) ++ rest) (SVal 34 []) nm al (rev (rev n ++ [c])) out).
  { reflexivity. }
  rewrite <- app_assoc. rewrite tok_val by assumption.
  rewrite rev_app_distr, rev_involutive. simpl rev. simpl app.
  (* closing quote *)
  rewrite app_nil_r.
  simpl. rewrite rev_involutive, Hv1. reflexivity.
Qed.

Definition gap_after (b : bool) (l : list (str * str)) : bool := match l with [] => b | _ => false end.

Lemma tok_attrs : forall l rest b nm al out,
  forallb attr_ok l = true ->
  tok (attrs_text l ++ rest) (SGap b) nm al [] out = tok rest (SGap (gap_after b l)) nm (rev l ++ al) [] out.
Proof.
  induction l as [|[n v] l IH]; intros rest b nm al out H; [reflexivity|].
  simpl in H. apply andb_prop in H as [Hp Hl].
  change (attrs_text ((n, v) :: l)) with (attr_text (n, v) ++ attrs_text l).
  rewrite <- app_assoc. rewrite tok_attr by assumption. rewrite IH by assumption.
  simpl rev. rewrite <- app_assoc. simpl. destruct l; reflexivity.
Qed.

Lemma attrs_text_app a b : attrs_text (a ++ b) = attrs_text a ++ attrs_text b.
Proof. unfold attrs_text. apply flat_map_app. Qed.

Lemma gap_selfclose b r nm al out :
  tok (32 :: 47 :: 62 :: r) (SGap b) nm al [] out = tok r (STxt []) [] [] [] (TEmpty nm (rev al) :: out).
Proof. destruct b; reflexivity. Qed.

Lemma gap_open b r nm al out :
  tok (62 :: r) (SGap b) nm al [] out = tok r (STxt []) [] [] [] (TOpen nm (rev al) :: out).
Proof. destruct b; reflexivity. Qed.

Lemma gap_pad b pad r nm al out :
  exists b', tok (padtxt pad ++ r) (SGap b) nm al [] out = tok r (SGap b') nm al [] out.
Proof. destruct pad; simpl; [exists true; destruct b; reflexivity | exists b; reflexivity]. Qed.

(* from the tag name into the attribute gap: the blank that ends the name may be looked at again *)
Lemma name_blank acc r out :
  tok (32 :: r) (SName acc) [] [] [] out = tok (32 :: r) (SGap true) (rev acc) [] [] out.
Proof. reflexivity. Qed.

Lemma starts_blank l1 pad l2 r :
  exists r', attrs_text l1 ++ padtxt pad ++ attrs_text l2 ++ 32 :: r = 32 :: r'.
Proof.
  destruct l1 as [|[n v] l1]; [|eexists; reflexivity].
  destruct pad; [eexists; reflexivity|].
  destruct l2 as [|[n v] l2]; eexists; reflexivity.
Qed.

(* after '<': name, two runs of attributes with an optional blank between them, then " />" *)
Lemma tag_selfclose : forall n l1 pad l2 rest out,
  xml_name n = true -> forallb attr_ok l1 = true -> forallb attr_ok l2 = true ->
  tok (n ++ attrs_text l1 ++ padtxt pad ++ attrs_text l2 ++ 32 :: 47 :: 62 :: rest) SLt [] [] [] out
  = tok rest (STxt []) [] [] [] (TEmpty n (l1 ++ l2) :: out).
Proof.
  intros n l1 pad l2 rest out Hn H1 H2.
  destruct n as [|c n]; [discriminate|]. simpl in Hn. apply andb_prop in Hn as [Hc Hn].
  destruct (name_start_facts c Hc) as (_ & S47 & _ & _ & _).
  transitivity (tok (n ++ attrs_text l1 ++ padtxt pad ++ attrs_text l2 ++ 32 :: 47 :: 62 :: rest)
                    (SName [c]) [] [] [] out).
  { simpl. rewrite S47, Hc. reflexivity. }
  rewrite tok_name by assumption.
  destruct (starts_blank l1 pad l2 (47 :: 62 :: rest)) as [r' E].
  rewrite E, name_blank, <- E.
  rewrite tok_attrs by assumption.
  destruct (gap_pad (gap_after true l1) pad (attrs_text l2 ++ 32 :: 47 :: 62 :: rest)
                    (rev (rev n ++ [c])) (rev l1 ++ []) out) as [b' Eb].
  rewrite Eb. rewrite tok_attrs by assumption. rewrite gap_selfclose.
  rewrite rev_app_distr, rev_involutive. simpl rev. simpl app.
  rewrite app_nil_r, rev_app_distr, !rev_involutive. reflexivity.
Qed.

Lemma tag_open : forall n l1 pad l2 rest out,
  xml_name n = true -> forallb attr_ok l1 = true -> forallb attr_ok l2 = true ->
  tok (n ++ attrs_text l1 ++ padtxt pad ++ attrs_text l2 ++ 62 :: rest) SLt [] [] [] out
  = tok rest (STxt []) [] [] [] (TOpen n (l1 ++ l2) :: out).
Proof.
  intros n l1 pad l2 rest out Hn H1 H2.
  destruct n as [|c n]; [discriminate|]. simpl in Hn. apply andb_prop in Hn as [Hc Hn].
  destruct (name_start_facts c Hc) as (_ & S47 & _ & _ & _).
  transitivity (tok (n ++ attrs_text l1 ++ padtxt pad ++ attrs_text l2 ++ 62 :: rest)
                    (SName [c]) [] [] [] out).
  { simpl. rewrite S47, Hc. reflexivity. }
  rewrite tok_name by assumption.
  assert (Hnm : rev (rev n ++ [c]) = c :: n) by (rewrite rev_app_distr, rev_involutive; reflexivity).
  destruct l1 as [|p1 l1].
  - destruct pad.
    + (* blank, then l2 *)
      simpl app at 1. change (padtxt true ++ attrs_text l2 ++ 62 :: rest) with (32 :: attrs_text l2 ++ 62 :: rest).
      rewrite name_blank.
      transitivity (tok (attrs_text l2 ++ 62 :: rest) (SGap true) (rev (rev n ++ [c])) [] [] out); [reflexivity|].
      rewrite tok_attrs by assumption. rewrite gap_open, Hnm, app_nil_r, rev_involutive. reflexivity.
    + simpl app at 1. simpl padtxt. simpl app at 1.
      destruct l2 as [|[n2 v2] l2].
      * simpl. rewrite Hnm. reflexivity.
      * assert (E : exists r', attrs_text ((n2, v2) :: l2) ++ 62 :: rest = 32 :: r') by (eexists; reflexivity).
        destruct E as [r' E]. rewrite E, name_blank, <- E.
        rewrite tok_attrs by assumption. rewrite gap_open, Hnm, app_nil_r, rev_involutive. reflexivity.
  - destruct p1 as [n1 v1].
    assert (E : exists r', attrs_text ((n1, v1) :: l1) ++ padtxt pad ++ attrs_text l2 ++ 62 :: rest = 32 :: r')
      by (eexists; reflexivity).
    destruct E as [r' E]. rewrite E, name_blank, <- E.
    rewrite tok_attrs by assumption.
    destruct (gap_pad (gap_after true ((n1, v1) :: l1)) pad (attrs_text l2 ++ 62 :: rest)
                      (rev (rev n ++ [c])) (rev ((n1, v1) :: l1) ++ []) out) as [b' Eb].
    rewrite Eb. rewrite tok_attrs by assumption. rewrite gap_open, Hnm.
    rewrite app_nil_r, rev_app_distr, !rev_involutive. reflexivity.
Qed.

Lemma close_gt acc r out :
  tok (62 :: r) (SClose acc) [] [] [] out
  = if xml_name (rev acc) then tok r (STxt []) [] [] [] (TClose (rev acc) :: out) else None.
Proof. reflexivity. Qed.

Lemma xml_name_chars n : xml_name n = true -> forallb name_char n = true.
Proof.
  destruct n as [|c n]; [discriminate|]. simpl. intro H. apply andb_prop in H as [Hc Hn].
  destruct (name_start_facts c Hc) as (_ & _ & _ & _ & NC). rewrite NC, Hn. reflexivity.
Qed.

(* an end tag, from character data *)
Lemma close_tag : forall n t rest out,
  xml_name n = true -> text_ok t = true -> t <> [] -> mem 60 t = false ->
  tok (t ++ 60 :: 47 :: n ++ 62 :: rest) (STxt []) [] [] [] out
  = tok rest (STxt []) [] [] [] (TClose n :: TText t :: out).
Proof.
  intros n t rest out Hn Ht Hne H60.
  rewrite tok_text by assumption. rewrite app_nil_r.
  assert (F : flush (rev t) out = Some (TText t :: out)).
  { unfold flush. destruct (rev t) eqn:E.
    - apply (f_equal (@rev N)) in E. rewrite rev_involutive in E. simpl in E. contradiction.
    - rewrite <- E, rev_involutive, Ht. reflexivity. }
  transitivity (tok (n ++ 62 :: rest) (SClose []) [] [] [] (TText t :: out)).
  { cbn [tok]. rewrite F. reflexivity. }
  rewrite tok_closename by (apply xml_name_chars; assumption).
  rewrite close_gt, app_nil_r, rev_involutive, Hn. reflexivity.
Qed.

Lemma close_tag_notext : forall n rest out,
  xml_name n = true ->
  tok (60 :: 47 :: n ++ 62 :: rest) (STxt []) [] [] [] out = tok rest (STxt []) [] [] [] (TClose n :: out).
Proof.
  intros n rest out Hn.
  transitivity (tok (n ++ 62 :: rest) (SClose []) [] [] [] out); [reflexivity|].
  rewrite tok_closename by (apply xml_name_chars; assumption).
  rewrite close_gt, app_nil_r, rev_involutive, Hn. reflexivity.
Qed.

Lemma open_lt r out : tok (60 :: r) (STxt []) [] [] [] out = tok r SLt [] [] [] out.
Proof. reflexivity. Qed.
