(* C42 — the executable model lives in Lsp.v (getBoardPathAtPosition, Position.Before, reference
   collection); this file only re-exports it under the conventional name. *)
Require Export V.C42.Lsp.
