(* C42 — editor support: board at a cursor position, reference ranges of a key.

   Model of
     d2ast.Position.Before                       (incl. the Byte = -1 convention)
     d2lsp.getBoardPathAtPosition                (pure recursion over the AST)
     the part of d2ir Map.ensureField / createEdge that attaches a FieldReference to every field on
     the path of a key (what d2lsp.GetRefRanges returns the ranges of)

   Strings are byte lists (the harness passes ScalarString() bytes); positions are (line, column, byte)
   as in d2ast.Position. *)
From Coq Require Import List NArith ZArith Bool.
Import ListNotations.

Definition str := list N.

Fixpoint str_eqb (a b : str) : bool :=
  match a, b with
  | [], [] => true
  | x :: xs, y :: ys => N.eqb x y && str_eqb xs ys
  | _, _ => false
  end.

Fixpoint path_eqb (a b : list str) : bool :=
  match a, b with
  | [], [] => true
  | x :: xs, y :: ys => str_eqb x y && path_eqb xs ys
  | _, _ => false
  end.

(* ---------------------------------------------------------------- positions and ranges *)

Record pos := mkPos { p_line : Z; p_col : Z; p_byte : Z }.

Open Scope Z_scope.

(* d2ast.Position.Before *)
Definition before (p q : pos) : bool :=
  if negb (p_byte p =? p_byte q) && negb (p_byte p =? -1) && negb (p_byte q =? -1)
  then p_byte p <? p_byte q
  else if negb (p_line p =? p_line q) then p_line p <? p_line q
  else p_col p <? p_col q.

(* r_file: index of the file the range lies in (only used by reference ranges) *)
Record range := mkRange { r_file : N; r_start : pos; r_end : pos }.

(* the closure `inRange` of getBoardPathAtPosition *)
Definition in_range (p : pos) (r : range) : bool :=
  negb (before p (r_start r)) && before p (r_end r).

(* ---------------------------------------------------------------- AST as seen by getBoardPathAtPosition *)

(* One entry per MapKey node of a d2ast.Map, in order:
     name  = Some (Key.Path[0].ScalarString())   if mk.Key != nil && len(mk.Key.Path) > 0
     vmap  = Some (the value map)                if mk.Value.Map != nil
   Other node kinds (comments, substitutions, imports) are skipped by the loop and are not passed. *)
Inductive amap := AMap (rng : range) (keys : list akey)
with akey := AKey (name : option str) (vmap : option amap).

Definition rng_of (m : amap) : range := match m with AMap r _ => r end.
Definition keys_of (m : amap) : list akey := match m with AMap _ ks => ks end.

Definition s_layers : str := [108;97;121;101;114;115]%N.
Definition s_scenarios : str := [115;99;101;110;97;114;105;111;115]%N.
Definition s_steps : str := [115;116;101;112;115]%N.

Definition is_board_kw (n : str) : bool :=
  str_eqb n s_layers || str_eqb n s_scenarios || str_eqb n s_steps.

(* does the loop body follow this key?  (len(currPath)%2 == 0 => the key must be a board keyword) *)
Definition follows (curr : list str) (n : str) : bool :=
  negb (Nat.even (length curr)) || is_board_kw n.

(* d2lsp.getBoardPathAtPosition; None = the Go nil slice *)
Fixpoint board_path (m : amap) (curr : list str) (p : pos) {struct m} : option (list str) :=
  match m with
  | AMap r keys =>
      if negb (in_range p r) then None
      else
        (fix go (ks : list akey) : option (list str) :=
           match ks with
           | [] => None
           | AKey None _ :: ks' => go ks'
           | AKey (Some _) None :: ks' => go ks'
           | AKey (Some n) (Some sub) :: ks' =>
               if negb (follows curr n) then go ks'
               else if in_range p (rng_of sub) then
                 let np := curr ++ [n] in
                 match board_path sub np p with
                 | Some d => Some d
                 | None => if Nat.odd (length np) then None else Some np
                 end
               else go ks'
           end) keys
  end.

(* what GetBoardAtPosition returns: pos.Byte is set to -1 first; nil is the root board *)
Definition set_byte (p : pos) : pos := mkPos (p_line p) (p_col p) (-1).

Definition board_at_position (t : amap) (p : pos) : list str :=
  match board_path t [] (set_byte p) with Some d => d | None => [] end.

(* ---------------------------------------------------------------- specification side *)

(* every block the recursion can enter, with the path it would carry: value maps of followed keys
   (odd length = a `layers`/`scenarios`/`steps` block, even length = a board block) *)
Fixpoint blocks (m : amap) (curr : list str) {struct m} : list (list str * range) :=
  match m with
  | AMap _ keys =>
      (fix go (ks : list akey) : list (list str * range) :=
         match ks with
         | [] => []
         | AKey (Some n) (Some sub) :: ks' =>
             if follows curr n
             then (curr ++ [n], rng_of sub) :: blocks sub (curr ++ [n]) ++ go ks'
             else go ks'
         | _ :: ks' => go ks'
         end) keys
  end.

Definition is_board_block (b : list str * range) : bool := Nat.even (length (fst b)).

(* lexicographic order on (line, column): what Before computes when one side has Byte = -1 *)
Definition lex_lt (p q : pos) : bool :=
  if negb (p_line p =? p_line q) then p_line p <? p_line q else p_col p <? p_col q.
Definition lex_le (p q : pos) : bool := negb (lex_lt q p).

Definition sub_maps (ks : list akey) : list amap :=
  flat_map (fun k => match k with AKey _ (Some s) => [s] | _ => [] end) ks.

Fixpoint ordered_disjoint (rs : list range) : bool :=
  match rs with
  | [] => true
  | r :: tl => forallb (fun r' => lex_le (r_end r) (r_start r')) tl && ordered_disjoint tl
  end.

(* range-nesting well-formedness (the one C02 checks for the parser): every value map lies inside
   the map that contains its key, and the value maps of one map follow each other without overlap *)
Fixpoint wf (m : amap) {struct m} : bool :=
  match m with
  | AMap r keys =>
      ordered_disjoint (map rng_of (sub_maps keys))
      && (fix go (ks : list akey) : bool :=
            match ks with
            | [] => true
            | AKey _ (Some sub) :: ks' =>
                lex_le (r_start r) (r_start (rng_of sub)) && lex_le (r_end (rng_of sub)) (r_end r)
                && wf sub && go ks'
            | _ :: ks' => go ks'
            end) keys
  end.

Fixpoint is_prefix (a b : list str) : bool :=
  match a, b with
  | [], _ => true
  | x :: xs, y :: ys => str_eqb x y && is_prefix xs ys
  | _, _ => false
  end.

(* the property predicate: `path` is the innermost board at p.
     path = []  : no board block contains p
     otherwise  : path is a board block containing p, every board block containing p is a prefix of it
                  (so it is the deepest), and every board-level prefix of it is a board block containing p *)
Definition containing (t : amap) (p : pos) : list (list str * range) :=
  filter (fun b => is_board_block b && in_range p (snd b)) (blocks t []).

(* the non-empty prefixes of even length (the boards on the way down) *)
Fixpoint board_prefixes (acc path : list str) : list (list str) :=
  match path with
  | k :: n :: tl => (acc ++ [k; n]) :: board_prefixes (acc ++ [k; n]) tl
  | _ => []
  end.

Definition innermost_b (t : amap) (p : pos) (path : list str) : bool :=
  let cs := containing t p in
  match path with
  | [] => match cs with [] => true | _ => false end
  | _ => existsb (fun b => path_eqb (fst b) path) cs
         && forallb (fun b => is_prefix (fst b) path) cs
         && forallb (fun q => existsb (fun b => path_eqb (fst b) q) cs) (board_prefixes [] path)
  end.

(* ---------------------------------------------------------------- reference ranges *)

(* Core fragment of a file as the IR compiler sees it: keys with a path of segments (value, range of
   the segment's string node) and an optional value map; edges with source and destination paths. *)
Definition seg := (str * range)%type.

Inductive kmap := KMap (decls : list kdecl)
with kdecl :=
| KKey (path : list seg) (sub : option kmap)
| KEdge (src dst : list seg).

(* ASCII simple folding (strings.EqualFold on the generated alphabet) *)
Definition fold_a (r : N) : N := if (N.leb 65 r && N.leb r 90)%bool then (r + 32)%N else r.
Definition fold_eqb (a b : str) : bool := str_eqb (map fold_a a) (map fold_a b).

Fixpoint fold_path_eqb (a b : list str) : bool :=
  match a, b with
  | [], [] => true
  | x :: xs, y :: ys => fold_eqb x y && fold_path_eqb xs ys
  | _, _ => false
  end.

(* ensureField walks the key path from the scope map and appends a reference (String = the segment)
   to every field on the way: the field reached after i segments is scope ++ first i names *)
Fixpoint seg_refs (scope : list str) (path : list seg) (target : list str) : list range :=
  match path with
  | [] => []
  | (v, r) :: tl =>
      let here := scope ++ [v] in
      (if fold_path_eqb here target then [r] else []) ++ seg_refs here tl target
  end.

Fixpoint collect (m : kmap) (scope : list str) (target : list str) {struct m} : list range :=
  match m with
  | KMap decls =>
      (fix go (ds : list kdecl) : list range :=
         match ds with
         | [] => []
         | KKey path sub :: ds' =>
             seg_refs scope path target
             ++ match sub with
                | Some s => collect s (scope ++ map fst path) target
                | None => []
                end
             ++ go ds'
         | KEdge src dst :: ds' =>
             seg_refs scope src target ++ seg_refs scope dst target ++ go ds'
         end) decls
  end.

(* all key segments of a file *)
Fixpoint segments (m : kmap) {struct m} : list seg :=
  match m with
  | KMap decls =>
      (fix go (ds : list kdecl) : list seg :=
         match ds with
         | [] => []
         | KKey path sub :: ds' =>
             path ++ match sub with Some s => segments s | None => [] end ++ go ds'
         | KEdge src dst :: ds' => src ++ dst ++ go ds'
         end) decls
  end.

(* declaration sites: the segment with range r, written in scope `scope`, names the field `abs` *)
Inductive seg_declares : list str -> list seg -> list str -> range -> Prop :=
| SD_here : forall scope v r tl, seg_declares scope ((v, r) :: tl) (scope ++ [v]) r
| SD_next : forall scope v r0 tl abs r,
    seg_declares (scope ++ [v]) tl abs r -> seg_declares scope ((v, r0) :: tl) abs r.

Inductive declares : kmap -> list str -> list str -> range -> Prop :=
| D_key : forall ds scope path sub abs r,
    In (KKey path sub) ds -> seg_declares scope path abs r -> declares (KMap ds) scope abs r
| D_sub : forall ds scope path s abs r,
    In (KKey path (Some s)) ds -> declares s (scope ++ map fst path) abs r ->
    declares (KMap ds) scope abs r
| D_src : forall ds scope src dst abs r,
    In (KEdge src dst) ds -> seg_declares scope src abs r -> declares (KMap ds) scope abs r
| D_dst : forall ds scope src dst abs r,
    In (KEdge src dst) ds -> seg_declares scope dst abs r -> declares (KMap ds) scope abs r.
