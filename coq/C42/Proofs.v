(* C42 — proofs about the model in Lsp.v *)
From Coq Require Import List NArith ZArith Bool Lia PeanoNat.
Import ListNotations.
Require Import V.C42.Lsp.
Open Scope Z_scope.

(* ---------------------------------------------------------------- strings *)

Lemma str_eqb_refl s : str_eqb s s = true.
Proof. induction s; simpl; auto. rewrite N.eqb_refl; auto. Qed.

Lemma str_eqb_eq a b : str_eqb a b = true <-> a = b.
Proof.
  revert b; induction a as [|x xs IH]; intros [|y ys]; simpl; split; intro H; try easy.
  - apply andb_prop in H as [H1 H2]. apply N.eqb_eq in H1. apply IH in H2. congruence.
  - inversion H; subst. rewrite N.eqb_refl. apply IH. reflexivity.
Qed.

Lemma path_eqb_eq a b : path_eqb a b = true <-> a = b.
Proof.
  revert b; induction a as [|x xs IH]; intros [|y ys]; simpl; split; intro H; try easy.
  - apply andb_prop in H as [H1 H2]. apply str_eqb_eq in H1. apply IH in H2. congruence.
  - inversion H; subst. rewrite str_eqb_refl. apply IH. reflexivity.
Qed.

Lemma is_prefix_app a b : is_prefix a (a ++ b) = true.
Proof. induction a; simpl; auto. rewrite str_eqb_refl; auto. Qed.

Lemma is_prefix_spec a b : is_prefix a b = true <-> exists c, b = a ++ c.
Proof.
  revert b; induction a as [|x xs IH]; intros b; simpl.
  - split; eauto.
  - destruct b as [|y ys]; split; intro H; try easy.
    + destruct H as [c Hc]. discriminate.
    + apply andb_prop in H as [H1 H2]. apply str_eqb_eq in H1. apply IH in H2 as [c Hc].
      exists c. simpl. congruence.
    + destruct H as [c Hc]. simpl in Hc. inversion Hc; subst. rewrite str_eqb_refl.
      apply IH. eauto.
Qed.

(* ---------------------------------------------------------------- order on positions *)

Definition plt (a b : pos) : Prop :=
  p_line a < p_line b \/ (p_line a = p_line b /\ p_col a < p_col b).
Definition ple (a b : pos) : Prop :=
  p_line a < p_line b \/ (p_line a = p_line b /\ p_col a <= p_col b).

Lemma lex_lt_spec a b : lex_lt a b = true <-> plt a b.
Proof.
  unfold lex_lt, plt. destruct (p_line a =? p_line b) eqn:E; simpl.
  - apply Z.eqb_eq in E. rewrite Z.ltb_lt. lia.
  - apply Z.eqb_neq in E. rewrite Z.ltb_lt. lia.
Qed.

Lemma lex_le_spec a b : lex_le a b = true <-> ple a b.
Proof.
  unfold lex_le. rewrite negb_true_iff. split; intro H.
  - destruct (lex_lt b a) eqn:E; try discriminate.
    assert (~ plt b a) by (intro K; apply lex_lt_spec in K; congruence).
    unfold plt, ple in *. lia.
  - destruct (lex_lt b a) eqn:E; auto. apply lex_lt_spec in E. unfold plt, ple in *. lia.
Qed.

Lemma before_l p q : p_byte p = -1 -> before p q = lex_lt p q.
Proof. intro H. unfold before, lex_lt. rewrite H. simpl. rewrite andb_false_r. reflexivity. Qed.

Lemma before_r p q : p_byte p = -1 -> before q p = lex_lt q p.
Proof. intro H. unfold before, lex_lt. rewrite H. simpl. rewrite andb_false_r. reflexivity. Qed.

Lemma in_range_spec p r :
  p_byte p = -1 -> (in_range p r = true <-> ple (r_start r) p /\ plt p (r_end r)).
Proof.
  intro H. unfold in_range. rewrite before_l, before_l by assumption.
  rewrite andb_true_iff. fold (lex_le (r_start r) p). rewrite lex_le_spec, lex_lt_spec. reflexivity.
Qed.

Lemma in_range_nest p r r' :
  p_byte p = -1 ->
  lex_le (r_start r) (r_start r') = true -> lex_le (r_end r') (r_end r) = true ->
  in_range p r' = true -> in_range p r = true.
Proof.
  intros H H1 H2 H3. apply lex_le_spec in H1, H2. apply in_range_spec in H3 as [A B]; auto.
  apply in_range_spec; auto. unfold ple, plt in *. lia.
Qed.

Lemma in_range_disjoint p r r' :
  p_byte p = -1 -> lex_le (r_end r) (r_start r') = true ->
  in_range p r = true -> in_range p r' = true -> False.
Proof.
  intros H H1 H2 H3. apply lex_le_spec in H1.
  apply in_range_spec in H2 as [A B]; auto. apply in_range_spec in H3 as [C D]; auto.
  unfold ple, plt in *. lia.
Qed.

(* ---------------------------------------------------------------- unfolding the nested fixpoints *)

Fixpoint bp_go (curr : list str) (p : pos) (ks : list akey) : option (list str) :=
  match ks with
  | [] => None
  | AKey None _ :: ks' => bp_go curr p ks'
  | AKey (Some _) None :: ks' => bp_go curr p ks'
  | AKey (Some n) (Some sub) :: ks' =>
      if negb (follows curr n) then bp_go curr p ks'
      else if in_range p (rng_of sub) then
        let np := curr ++ [n] in
        match board_path sub np p with
        | Some d => Some d
        | None => if Nat.odd (length np) then None else Some np
        end
      else bp_go curr p ks'
  end.

Lemma board_path_unfold r keys curr p :
  board_path (AMap r keys) curr p = if negb (in_range p r) then None else bp_go curr p keys.
Proof.
  simpl. destruct (negb (in_range p r)); auto.
  induction keys as [|k ks IH]; auto.
  destruct k as [[n|] [sub|]]; simpl; auto; rewrite IH; reflexivity.
Qed.

Fixpoint bl_go (curr : list str) (ks : list akey) : list (list str * range) :=
  match ks with
  | [] => []
  | AKey (Some n) (Some sub) :: ks' =>
      if follows curr n
      then (curr ++ [n], rng_of sub) :: blocks sub (curr ++ [n]) ++ bl_go curr ks'
      else bl_go curr ks'
  | _ :: ks' => bl_go curr ks'
  end.

Lemma blocks_unfold r keys curr : blocks (AMap r keys) curr = bl_go curr keys.
Proof.
  simpl. induction keys as [|k ks IH]; auto.
  destruct k as [[n|] [sub|]]; simpl; auto; rewrite IH; reflexivity.
Qed.

Fixpoint wf_go (r : range) (ks : list akey) : bool :=
  match ks with
  | [] => true
  | AKey _ (Some sub) :: ks' =>
      lex_le (r_start r) (r_start (rng_of sub)) && lex_le (r_end (rng_of sub)) (r_end r)
      && wf sub && wf_go r ks'
  | _ :: ks' => wf_go r ks'
  end.

Lemma wf_unfold r keys :
  wf (AMap r keys) = ordered_disjoint (map rng_of (sub_maps keys)) && wf_go r keys.
Proof.
  simpl. f_equal. induction keys as [|k ks IH]; auto.
  destruct k as [n [sub|]]; simpl; auto; rewrite IH; reflexivity.
Qed.

(* ---------------------------------------------------------------- induction principle *)

Section AmapInd.
  Variable P : amap -> Prop.
  Hypothesis Hstep : forall r keys, (forall s, In s (sub_maps keys) -> P s) -> P (AMap r keys).

  Fixpoint amap_ind' (m : amap) : P m :=
    match m with
    | AMap r keys =>
        Hstep r keys
          ((fix go (ks : list akey) : forall s, In s (sub_maps ks) -> P s :=
              match ks with
              | [] => fun s (F : In s []) => match F with end
              | AKey n None :: ks' => fun s H => go ks' s H
              | AKey n (Some sub) :: ks' =>
                  fun s (H : In s (sub :: sub_maps ks')) =>
                    match H with
                    | or_introl e => eq_ind sub P (amap_ind' sub) s e
                    | or_intror i => go ks' s i
                    end
              end) keys)
    end.
End AmapInd.

(* ---------------------------------------------------------------- nesting of descendant blocks *)

Lemma blocks_nested p : p_byte p = -1 ->
  forall m curr, wf m = true ->
  forall q rq, In (q, rq) (blocks m curr) -> in_range p rq = true -> in_range p (rng_of m) = true.
Proof.
  intro Hp. intro m. induction m as [r keys IH] using amap_ind'. intros curr Hwf q rq Hin Hr.
  rewrite blocks_unfold in Hin. rewrite wf_unfold in Hwf. apply andb_prop in Hwf as [_ Hwf].
  simpl. induction keys as [|k ks IHk]; simpl in Hin; try easy.
  assert (IH' : forall s, In s (sub_maps ks) ->
          forall curr, wf s = true -> forall q rq, In (q, rq) (blocks s curr) ->
          in_range p rq = true -> in_range p (rng_of s) = true).
  { intros s Hs. apply IH. destruct k as [n [sub|]]; simpl; auto. }
  destruct k as [[n|] [sub|]]; simpl in Hin, Hwf.
  - apply andb_prop in Hwf as [Hwf Hgo]. apply andb_prop in Hwf as [Hwf Hws].
    apply andb_prop in Hwf as [Hs He].
    destruct (follows curr n).
    + destruct Hin as [E | Hin].
      * inversion E; subst. eapply in_range_nest; eauto.
      * apply in_app_or in Hin as [Hin | Hin].
        -- eapply in_range_nest; eauto. eapply (IH sub); eauto. simpl; auto.
        -- apply IHk; auto.
    + apply IHk; auto.
  - apply IHk; auto.
  - apply andb_prop in Hwf as [Hwf Hgo]. apply IHk; auto.
  - apply IHk; auto.
Qed.

(* a block of a later sibling cannot contain p when an earlier sibling's range does *)
Lemma bl_go_in_sub p : p_byte p = -1 ->
  forall r curr ks, wf_go r ks = true ->
  forall q rq, In (q, rq) (bl_go curr ks) -> in_range p rq = true ->
  exists s, In s (sub_maps ks) /\ in_range p (rng_of s) = true.
Proof.
  intros Hp r curr ks. induction ks as [|k ks IH]; simpl; intros Hwf q rq Hin Hr; try easy.
  destruct k as [[n|] [sub|]]; simpl in *.
  - apply andb_prop in Hwf as [Hwf Hgo]. apply andb_prop in Hwf as [Hwf Hws].
    destruct (follows curr n).
    + destruct Hin as [E | Hin].
      * inversion E; subst. exists sub; auto.
      * apply in_app_or in Hin as [Hin | Hin].
        -- exists sub; split; auto. eapply blocks_nested; eauto.
        -- destruct (IH Hgo q rq Hin Hr) as [s [A B]]. exists s; auto.
    + destruct (IH Hgo q rq Hin Hr) as [s [A B]]. exists s; auto.
  - destruct (IH Hwf q rq Hin Hr) as [s [A B]]. exists s; auto.
  - apply andb_prop in Hwf as [Hwf Hgo]. destruct (IH Hgo q rq Hin Hr) as [s [A B]]. exists s; auto.
  - destruct (IH Hwf q rq Hin Hr) as [s [A B]]. exists s; auto.
Qed.

(* ---------------------------------------------------------------- the main invariant *)

Definition good (p : pos) (bs : list (list str * range)) (curr : list str) (res : option (list str)) : Prop :=
  match res with
  | Some d =>
      (exists suf, d = curr ++ suf)
      /\ Nat.even (length d) = true
      /\ (exists r, In (d, r) bs /\ in_range p r = true)
      /\ (forall q rq, In (q, rq) bs -> Nat.even (length q) = true -> in_range p rq = true ->
                       is_prefix q d = true)
      /\ (forall q rest, d = q ++ rest -> (length curr < length q)%nat -> Nat.even (length q) = true ->
                         exists rq, In (q, rq) bs /\ in_range p rq = true)
  | None => forall q rq, In (q, rq) bs -> Nat.even (length q) = true -> in_range p rq = false
  end.

Lemma app_eq_len {A} (a b c d : list A) : a ++ b = c ++ d -> length a = length c -> a = c /\ b = d.
Proof.
  revert c; induction a as [|x xs IH]; intros [|y ys] H L; simpl in *; try discriminate; auto.
  inversion H; subst. destruct (IH ys H2) as [-> ->]; auto.
Qed.

Lemma blocks_extend m : forall curr q rq, In (q, rq) (blocks m curr) -> exists suf, q = curr ++ suf /\ suf <> [].
Proof.
  induction m as [r keys IH] using amap_ind'. intros curr q rq Hin.
  rewrite blocks_unfold in Hin.
  induction keys as [|k ks IHk]; simpl in Hin; try easy.
  assert (IH' : forall s, In s (sub_maps ks) ->
          forall curr q rq, In (q, rq) (blocks s curr) -> exists suf, q = curr ++ suf /\ suf <> []).
  { intros s Hs. apply IH. destruct k as [n [sub|]]; simpl; auto. }
  destruct k as [[n|] [sub|]]; simpl in Hin; auto.
  destruct (follows curr n); auto.
  destruct Hin as [E | Hin].
  - inversion E; subst. exists [n]; split; auto. discriminate.
  - apply in_app_or in Hin as [Hin | Hin]; auto.
    destruct (IH sub (or_introl eq_refl) _ _ _ Hin) as [suf [-> _]].
    exists (n :: suf). rewrite <- app_assoc. split; auto. discriminate.
Qed.

Lemma main_inv p : p_byte p = -1 ->
  forall m curr, wf m = true -> good p (blocks m curr) curr (board_path m curr p).
Proof.
  intro Hp. intro m. induction m as [r keys IH] using amap_ind'. intros curr Hwf.
  rewrite board_path_unfold, blocks_unfold.
  pose proof Hwf as Hwf0.
  rewrite wf_unfold in Hwf. apply andb_prop in Hwf as [Hdis Hgo].
  destruct (in_range p r) eqn:Hr; simpl.
  2:{ (* p outside the map: nothing below contains it *)
      intros q rq Hin _. destruct (in_range p rq) eqn:E; auto.
      assert (in_range p (rng_of (AMap r keys)) = true).
      { eapply blocks_nested; eauto. rewrite blocks_unfold. eauto. }
      simpl in H. congruence. }
  clear Hr Hwf0.
  induction keys as [|k ks IHk]; simpl in *.
  - intros q rq [].
  - destruct k as [[n|] [sub|]]; simpl in *.
    + (* key with name and map *)
      apply andb_prop in Hdis as [Hd1 Hdis].
      apply andb_prop in Hgo as [Hgo1 Hgo]. apply andb_prop in Hgo1 as [Hgo1 Hws].
      apply andb_prop in Hgo1 as [Hs He].
      assert (IHks : good p (bl_go curr ks) curr (bp_go curr p ks)).
      { apply IHk; auto. }
      destruct (follows curr n) eqn:Hf; simpl; auto.
      assert (Hlater : forall q rq, In (q, rq) (bl_go curr ks) -> in_range p (rng_of sub) = true ->
                                    in_range p rq = false).
      { intros q rq Hin Hsub. destruct (in_range p rq) eqn:E; auto.
        destruct (bl_go_in_sub p Hp r curr ks Hgo q rq Hin E) as [s [Hs1 Hs2]].
        rewrite forallb_forall in Hd1.
        exfalso. eapply (in_range_disjoint p (rng_of sub) (rng_of s)); eauto.
        apply Hd1. apply in_map. auto. }
      destruct (in_range p (rng_of sub)) eqn:Hsub.
      * (* p inside this key's block *)
        specialize (IH sub (or_introl eq_refl) (curr ++ [n]) Hws).
        destruct (board_path sub (curr ++ [n]) p) as [d|] eqn:Hbp; simpl in IH.
        -- destruct IH as [[suf Hsuf] [Hev [[rd [Hind Hrd]] [Hpre Hchain]]]].
           simpl. repeat split.
           ++ exists ([n] ++ suf). rewrite app_assoc. auto.
           ++ auto.
           ++ exists rd; split; auto. right. apply in_or_app; auto.
           ++ intros q rq [E | Hin] Hq Hrq.
              ** inversion E; subst q rq. rewrite Hsuf. apply is_prefix_app.
              ** apply in_app_or in Hin as [Hin | Hin]; eauto.
                 rewrite (Hlater _ _ Hin eq_refl) in Hrq. discriminate.
           ++ intros q rest Hd Hlen Hq.
              destruct (Nat.eq_dec (length q) (length (curr ++ [n]))) as [El | Nl].
              ** assert (q = curr ++ [n]).
                 { rewrite Hsuf in Hd. symmetry in Hd. apply app_eq_len in Hd as [A _]; auto. }
                 subst q. exists (rng_of sub). split; auto.
              ** destruct (Hchain q rest Hd) as [rq [A B]]; auto.
                 { rewrite app_length in *. simpl in *. lia. }
                 exists rq; split; auto. right. apply in_or_app; auto.
        -- (* nothing deeper *)
           destruct (Nat.odd (length (curr ++ [n]))) eqn:Hodd; simpl.
           ++ intros q rq [E | Hin] Hq.
              ** inversion E; subst. rewrite <- Nat.negb_odd, Hodd in Hq. discriminate.
              ** apply in_app_or in Hin as [Hin | Hin]; eauto.
           ++ assert (Hev : Nat.even (length (curr ++ [n])) = true).
              { rewrite <- Nat.negb_odd, Hodd. reflexivity. }
              repeat split.
              ** exists [n]; auto.
              ** auto.
              ** exists (rng_of sub); split; auto.
              ** intros q rq [E | Hin] Hq Hrq.
                 --- inversion E; subst. rewrite <- (app_nil_r (curr ++ [n])) at 2. apply is_prefix_app.
                 --- apply in_app_or in Hin as [Hin | Hin].
                     +++ rewrite (IH _ _ Hin Hq) in Hrq. discriminate.
                     +++ rewrite (Hlater _ _ Hin eq_refl) in Hrq. discriminate.
              ** intros q rest Hd Hlen Hq.
                 assert (length q = length (curr ++ [n])).
                 { assert (length (curr ++ [n]) = length (q ++ rest)) by (rewrite Hd; auto).
                   rewrite !app_length in *. simpl in *. lia. }
                 assert (q = curr ++ [n]).
                 { rewrite <- (app_nil_r (curr ++ [n])) in Hd. symmetry in Hd.
                   apply app_eq_len in Hd as [A _]; auto. }
                 subst q. exists (rng_of sub); split; auto.
      * (* p not in this key's block: its blocks cannot contain p *)
        assert (Hnone : forall q rq, In (q, rq) ((curr ++ [n], rng_of sub) :: blocks sub (curr ++ [n])) ->
                                     in_range p rq = false).
        { intros q rq [E | Hin].
          - inversion E; subst; auto.
          - destruct (in_range p rq) eqn:E; auto.
            rewrite (blocks_nested p Hp sub _ Hws _ _ Hin E) in Hsub. discriminate. }
        destruct (bp_go curr p ks) as [d|]; simpl in *.
        -- destruct IHks as [Hsuf [Hev [[rd [Hind Hrd]] [Hpre Hchain]]]].
           repeat split; auto.
           ++ exists rd; split; auto. right. apply in_or_app; auto.
           ++ intros q rq Hin Hq Hrq.
              change (In (q, rq) (((curr ++ [n], rng_of sub) :: blocks sub (curr ++ [n])) ++ bl_go curr ks)) in Hin.
              apply in_app_or in Hin as [Hin | Hin]; eauto.
              rewrite (Hnone _ _ Hin) in Hrq. discriminate.
           ++ intros q rest Hd Hlen Hq. destruct (Hchain q rest Hd Hlen Hq) as [rq [A B]].
              exists rq; split; auto. right. apply in_or_app; auto.
        -- intros q rq Hin Hq.
           change (In (q, rq) (((curr ++ [n], rng_of sub) :: blocks sub (curr ++ [n])) ++ bl_go curr ks)) in Hin.
           apply in_app_or in Hin as [Hin | Hin]; eauto.
    + apply IHk; auto.
    + apply andb_prop in Hdis as [_ Hdis]. apply andb_prop in Hgo as [_ Hgo]. apply IHk; auto.
    + apply IHk; auto.
Qed.

(* ---------------------------------------------------------------- from the invariant to the predicate *)

Lemma board_prefixes_spec : forall path acc q,
  In q (board_prefixes acc path) ->
  exists mid rest, q = acc ++ mid /\ path = mid ++ rest /\ mid <> [] /\ Nat.even (length mid) = true.
Proof.
  fix IH 1. intros [|k [|n tl]] acc q Hin; simpl in Hin; try easy.
  destruct Hin as [E | Hin].
  - subst q. exists [k; n], tl. repeat split; auto. discriminate.
  - destruct (IH tl (acc ++ [k; n]) q Hin) as [mid [rest [A [B [C D]]]]].
    exists (k :: n :: mid), rest. subst. rewrite <- app_assoc. simpl. repeat split; auto. discriminate.
Qed.

Lemma innermost_b_cons t p d : d <> [] ->
  innermost_b t p d =
  (existsb (fun b => path_eqb (fst b) d) (containing t p)
   && forallb (fun b => is_prefix (fst b) d) (containing t p)
   && forallb (fun q => existsb (fun b => path_eqb (fst b) q) (containing t p)) (board_prefixes [] d)).
Proof. destruct d; [congruence | reflexivity]. Qed.

Lemma innermost_from_good t p :
  good p (blocks t []) [] (board_path t [] p) ->
  innermost_b t p (match board_path t [] p with Some d => d | None => [] end) = true.
Proof.
  intro G.
  destruct (board_path t [] p) as [d|]; simpl in G; [|unfold innermost_b, containing].
  - destruct G as [_ [Hev [[rd [Hind Hrd]] [Hpre Hchain]]]].
    destruct d as [|d0 dt].
    { (* impossible: blocks have non-empty paths *)
      destruct (blocks_extend t [] [] rd Hind) as [suf [E Hne]]. simpl in E. congruence. }
    assert (Hne : d0 :: dt <> []) by discriminate.
    generalize dependent (d0 :: dt). intros d Hev Hind Hpre Hchain Hne.
    rewrite innermost_b_cons by auto. unfold containing. rewrite !andb_true_iff. repeat split.
    + apply existsb_exists. exists (d, rd). split.
      * apply filter_In. split; auto. unfold is_board_block. simpl. rewrite Hev, Hrd. reflexivity.
      * simpl. apply path_eqb_eq. reflexivity.
    + apply forallb_forall. intros [q rq] Hin. apply filter_In in Hin as [Hin Hc].
      apply andb_prop in Hc as [Hc1 Hc2]. simpl. eapply Hpre; eauto.
    + apply forallb_forall. intros q Hq.
      destruct (board_prefixes_spec d [] q Hq) as [mid [rest [A [B [C D]]]]]. simpl in A. subst q.
      destruct (Hchain mid rest B) as [rq [E F]]; auto.
      { destruct mid; try congruence. simpl. lia. }
      apply existsb_exists. exists (mid, rq). split.
      * apply filter_In. split; auto. unfold is_board_block. simpl. rewrite D, F. reflexivity.
      * simpl. apply path_eqb_eq. reflexivity.
  - destruct (filter _ (blocks t [])) as [|[q rq] l] eqn:E; auto.
    assert (In (q, rq) (filter (fun b => is_board_block b && in_range p (snd b)) (blocks t []))).
    { rewrite E. left; auto. }
    apply filter_In in H as [Hin Hc]. apply andb_prop in Hc as [Hc1 Hc2].
    simpl in Hc2. rewrite (G q rq Hin Hc1) in Hc2. discriminate.
Qed.

Theorem board_at_position_innermost :
  forall t p, wf t = true -> innermost_b t (set_byte p) (board_at_position t p) = true.
Proof.
  intros t p Hwf. unfold board_at_position. apply innermost_from_good.
  apply main_inv; auto.
Qed.

(* Prop-level reading of the same statement *)
Theorem board_at_position_spec :
  forall t p, wf t = true ->
    let p' := set_byte p in
    let d := board_at_position t p in
    (d = [] -> forall q rq, In (q, rq) (blocks t []) -> Nat.even (length q) = true -> in_range p' rq = false)
    /\ (d <> [] ->
        Nat.even (length d) = true
        /\ (exists r, In (d, r) (blocks t []) /\ in_range p' r = true)
        /\ (forall q rq, In (q, rq) (blocks t []) -> Nat.even (length q) = true -> in_range p' rq = true ->
                         exists rest, d = q ++ rest)
        /\ (forall q rest, d = q ++ rest -> q <> [] -> Nat.even (length q) = true ->
                           exists rq, In (q, rq) (blocks t []) /\ in_range p' rq = true)).
Proof.
  intros t p Hwf p' d.
  pose proof (main_inv p' eq_refl t [] Hwf) as G.
  unfold d, board_at_position. fold p'.
  destruct (board_path t [] p') as [x|]; simpl in G.
  - destruct G as [_ [Hev [[rd [Hind Hrd]] [Hpre Hchain]]]]. split.
    + intro E. subst x. destruct (blocks_extend t [] [] rd Hind) as [suf [E Hne]]. simpl in E. congruence.
    + intros _. repeat split; eauto.
      * intros q rq A B C. apply is_prefix_spec. eauto.
      * intros q rest A B C. apply (Hchain q rest A); auto. destruct q; try congruence. simpl. lia.
  - split; auto. intro K. congruence.
Qed.

(* ---------------------------------------------------------------- reference ranges *)

Fixpoint co_go (scope target : list str) (ds : list kdecl) : list range :=
  match ds with
  | [] => []
  | KKey path sub :: ds' =>
      seg_refs scope path target
      ++ match sub with
         | Some s => collect s (scope ++ map fst path) target
         | None => []
         end
      ++ co_go scope target ds'
  | KEdge src dst :: ds' =>
      seg_refs scope src target ++ seg_refs scope dst target ++ co_go scope target ds'
  end.

Lemma collect_unfold ds scope target : collect (KMap ds) scope target = co_go scope target ds.
Proof.
  simpl. induction ds as [|d ds IH]; auto.
  destruct d as [path [s|] | src dst]; simpl; rewrite IH; reflexivity.
Qed.

Fixpoint sg_go (ds : list kdecl) : list seg :=
  match ds with
  | [] => []
  | KKey path sub :: ds' => path ++ match sub with Some s => segments s | None => [] end ++ sg_go ds'
  | KEdge src dst :: ds' => src ++ dst ++ sg_go ds'
  end.

Lemma segments_unfold ds : segments (KMap ds) = sg_go ds.
Proof.
  simpl. induction ds as [|d ds IH]; [reflexivity|].
  destruct d as [path [s|] | src dst]; simpl; rewrite IH; reflexivity.
Qed.

Definition kdecl_subs (d : kdecl) : list kmap :=
  match d with KKey _ (Some s) => [s] | _ => [] end.

Section KmapInd.
  Variable P : kmap -> Prop.
  Hypothesis Hstep : forall ds, (forall s, In s (flat_map kdecl_subs ds) -> P s) -> P (KMap ds).

  Fixpoint kmap_ind' (m : kmap) : P m :=
    match m with
    | KMap ds =>
        Hstep ds
          ((fix go (l : list kdecl) : forall s, In s (flat_map kdecl_subs l) -> P s :=
              match l with
              | [] => fun s (F : In s []) => match F with end
              | KKey _ (Some sub) :: l' =>
                  fun s (H : In s (sub :: flat_map kdecl_subs l')) =>
                    match H with
                    | or_introl e => eq_ind sub P (kmap_ind' sub) s e
                    | or_intror i => go l' s i
                    end
              | KKey _ None :: l' => fun s H => go l' s H
              | KEdge _ _ :: l' => fun s H => go l' s H
              end) ds)
    end.
End KmapInd.

Lemma fold_path_eqb_last a b :
  fold_path_eqb a b = true -> b <> [] -> fold_eqb (last a []) (last b []) = true.
Proof.
  revert b; induction a as [|x xs IH]; intros [|y ys] H Hne; simpl in *; try easy.
  apply andb_prop in H as [H1 H2].
  destruct xs as [|x' xs'], ys as [|y' ys']; simpl in *; try easy.
  apply (IH (y' :: ys')); auto. discriminate.
Qed.

Lemma last_app_single {A} (l : list A) x d : last (l ++ [x]) d = x.
Proof. induction l as [|a l IH]; simpl; auto. destruct (l ++ [x]) eqn:E; auto. destruct l; discriminate. Qed.

Lemma seg_refs_sound scope path target r :
  In r (seg_refs scope path target) ->
  exists v, In (v, r) path /\ fold_eqb v (last target []) = true /\ target <> [].
Proof.
  revert scope; induction path as [|[v r0] tl IH]; intros scope Hin; simpl in *; try easy.
  apply in_app_or in Hin as [Hin | Hin].
  - destruct (fold_path_eqb (scope ++ [v]) target) eqn:E; simpl in Hin; try easy.
    destruct Hin as [-> | []]. exists v. split; auto.
    assert (target <> []).
    { intro K; subst. destruct scope; simpl in E; discriminate. }
    split; auto. apply fold_path_eqb_last in E; auto. rewrite last_app_single in E. auto.
  - destruct (IH _ Hin) as [v' [A B]]. exists v'; split; auto.
Qed.

(* every returned range is the range of a key segment whose folded value equals the queried (last) segment *)
Theorem ref_ranges_name_key :
  forall m scope target r, In r (collect m scope target) ->
    exists v, In (v, r) (segments m) /\ fold_eqb v (last target []) = true /\ target <> [].
Proof.
  intro m. induction m as [ds IH] using kmap_ind'. intros scope target r Hin.
  rewrite collect_unfold in Hin. rewrite segments_unfold.
  induction ds as [|d ds IHd]; simpl in Hin; try easy.
  assert (IHd' : In r (co_go scope target ds) ->
                 exists v, In (v, r) (sg_go ds) /\ fold_eqb v (last target []) = true /\ target <> []).
  { apply IHd. intros s Hs. apply IH. simpl. apply in_or_app; auto. }
  clear IHd.
  destruct d as [path [s|] | src dst]; simpl in *.
  - apply in_app_or in Hin as [Hin | Hin].
    + destruct (seg_refs_sound _ _ _ _ Hin) as [v [A B]]. exists v; split; auto. apply in_or_app; auto.
    + apply in_app_or in Hin as [Hin | Hin].
      * destruct (IH s (or_introl eq_refl) _ _ _ Hin) as [v [A B]]. exists v; split; auto.
        apply in_or_app; right. apply in_or_app; auto.
      * destruct (IHd' Hin) as [v [A B]]. exists v; split; auto.
        apply in_or_app; right. apply in_or_app; auto.
  - apply in_app_or in Hin as [Hin | Hin].
    + destruct (seg_refs_sound _ _ _ _ Hin) as [v [A B]]. exists v; split; auto. apply in_or_app; auto.
    + destruct (IHd' Hin) as [v [A B]]. exists v; split; auto. apply in_or_app; auto.
  - apply in_app_or in Hin as [Hin | Hin].
    + destruct (seg_refs_sound _ _ _ _ Hin) as [v [A B]]. exists v; split; auto. apply in_or_app; auto.
    + apply in_app_or in Hin as [Hin | Hin].
      * destruct (seg_refs_sound _ _ _ _ Hin) as [v [A B]]. exists v; split; auto.
        apply in_or_app; right. apply in_or_app; auto.
      * destruct (IHd' Hin) as [v [A B]]. exists v; split; auto.
        apply in_or_app; right. apply in_or_app; auto.
Qed.

Lemma seg_refs_complete scope path abs r target :
  seg_declares scope path abs r -> fold_path_eqb abs target = true -> In r (seg_refs scope path target).
Proof.
  induction 1; intro E; simpl.
  - rewrite E. left; auto.
  - apply in_or_app; right. auto.
Qed.

Lemma co_go_in scope target ds d r :
  In d ds ->
  In r (match d with
        | KKey path sub => seg_refs scope path target
                           ++ match sub with Some s => collect s (scope ++ map fst path) target | None => [] end
        | KEdge src dst => seg_refs scope src target ++ seg_refs scope dst target
        end) ->
  In r (co_go scope target ds).
Proof.
  induction ds as [|d' ds IH]; simpl; [intros [] | intros [E | Hin] Hr].
  - subst d'. destruct d as [path sub | src dst].
    + apply in_app_or in Hr as [Hr | Hr]; apply in_or_app; auto.
      right. apply in_or_app; auto.
    + apply in_app_or in Hr as [Hr | Hr]; apply in_or_app; auto.
      right. apply in_or_app; auto.
  - specialize (IH Hin Hr). destruct d' as [path sub | src dst].
    + apply in_or_app; right. apply in_or_app; auto.
    + apply in_or_app; right. apply in_or_app; auto.
Qed.

(* every declaration site of the field (up to case folding of the path) is returned *)
Theorem all_declarations_returned_partial :
  forall m scope abs r target,
    declares m scope abs r -> fold_path_eqb abs target = true -> In r (collect m scope target).
Proof.
  intros m scope abs r target D. induction D; intro E; rewrite collect_unfold.
  - eapply co_go_in; eauto. simpl. apply in_or_app; left. eapply seg_refs_complete; eauto.
  - eapply co_go_in; eauto. simpl. apply in_or_app; right. auto.
  - eapply co_go_in; eauto. simpl. apply in_or_app; left. eapply seg_refs_complete; eauto.
  - eapply co_go_in; eauto. simpl. apply in_or_app; right. eapply seg_refs_complete; eauto.
Qed.
