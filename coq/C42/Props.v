(* C42 — editor support returns exact reference ranges and board positions.  Statements only. *)
From Coq Require Import List NArith ZArith Bool.
Import ListNotations.
Require Import V.C42.Lsp V.C42.Proofs.

(* The board reported for a cursor position is the innermost board whose block contains the position:
   for every AST whose map ranges nest (wf), and every position, the path returned by
   getBoardPathAtPosition satisfies the predicate innermost_b that Check.v also evaluates on the
   implementation's answers. *)
Theorem C42_board_at_position_innermost :
  forall t p, wf t = true -> innermost_b t (set_byte p) (board_at_position t p) = true.
Proof. exact board_at_position_innermost. Qed.

(* the same statement spelled out: nil means no board block contains the position; otherwise the path
   is a board block containing it, every board block containing the position is a prefix of it (it is
   the deepest one), and every board on the way down contains the position *)
Theorem C42_board_at_position_spec :
  forall t p, wf t = true ->
    let p' := set_byte p in
    let d := board_at_position t p in
    (d = [] -> forall q rq, In (q, rq) (blocks t []) -> Nat.even (length q) = true -> in_range p' rq = false)
    /\ (d <> [] ->
        Nat.even (length d) = true
        /\ (exists r, In (d, r) (blocks t []) /\ in_range p' r = true)
        /\ (forall q rq, In (q, rq) (blocks t []) -> Nat.even (length q) = true -> in_range p' rq = true ->
                         exists rest, d = q ++ rest)
        /\ (forall q rest, d = q ++ rest -> q <> [] -> Nat.even (length q) = true ->
                           exists rq, In (q, rq) (blocks t []) /\ in_range p' rq = true)).
Proof. exact board_at_position_spec. Qed.

(* every range collected for a key is the range of a key segment whose case-folded value equals the
   queried (last) segment *)
Theorem C42_ref_ranges_name_key :
  forall m scope target r, In r (collect m scope target) ->
    exists v, In (v, r) (segments m) /\ fold_eqb v (last target []) = true /\ target <> [].
Proof. exact ref_ranges_name_key. Qed.

(* core fragment (nested and dotted keys, edges; no globs, imports, boards, underscores, nulls):
   every declaration site of the key is returned.
   Full statement (not proved): the same for every construct of the language and for file sets with imports. *)
Theorem C42_all_declarations_returned_partial :
  forall m scope abs r target,
    declares m scope abs r -> fold_path_eqb abs target = true -> In r (collect m scope target).
Proof. exact all_declarations_returned_partial. Qed.

(* non-vacuity of the well-formedness hypothesis: a file with one layer block *)
Example C42_wf_satisfiable :
  let r a b c d := mkRange 0 (mkPos a b (-1)) (mkPos c d (-1)) in
  let t := AMap (r 0 0 3 0)%Z
             [AKey (Some s_layers) (Some (AMap (r 0 8 2 1)%Z
                [AKey (Some [120%N]) (Some (AMap (r 1 5 1 10)%Z []))]))] in
  wf t = true /\ board_at_position t (mkPos 1 7 0)%Z = [s_layers; [120%N]].
Proof. vm_compute. split; reflexivity. Qed.

Print Assumptions C42_board_at_position_innermost.
Print Assumptions C42_board_at_position_spec.
Print Assumptions C42_ref_ranges_name_key.
Print Assumptions C42_all_declarations_returned_partial.
