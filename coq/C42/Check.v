(* Executable case checker for C42.
   CBoard : one text (valid or broken).  t = the map tree of the real parser's AST (ranges, first key
            segment, value map); real = every value map with the board its content belongs to by the
            IR compiler's notion of a board (computed by the harness from the full key paths: unquoted
            keyword in any case, dotted keys), in pre-order;
            qs = every position of the text with what d2lsp.GetBoardAtPosition returned ([] = nil).
   CRefs  : the queries of d2lsp.GetRefRanges against one board of one file set.  m = the main file's keys
            (core fragment; only compared when core = true).  RQ = a field key: target = the key path,
            impl = returned ranges, named = for each returned range the source slice under it re-parsed by
            d2parser.ParseKey (Some segments / None), decls = declaration sites found by the harness' own
            AST walk.  EQ = the same for an edge key `src -> dst`; named = the slice re-parsed as an edge. *)
From Coq Require Import List NArith ZArith Bool.
Import ListNotations.
Require Import V.Lib.RunCases.
Require Export V.C42.Lsp.

Inductive refq :=
| RQ (target : list str) (impl : list range) (named : list (option (list str))) (decls : list range)
| EQ (qsrc qdst : list str) (impl : list range) (named : list (option (list str * list str))) (decls : list range).

Inductive case :=
| CBoard (t : amap) (real : list (list str * range)) (qs : list (pos * list str))
| CRefs (core : bool) (m : kmap) (qs : list refq).

Definition pos_eqb (a b : pos) : bool :=
  (p_line a =? p_line b)%Z && (p_col a =? p_col b)%Z && (p_byte a =? p_byte b)%Z.
Definition range_eqb (a b : range) : bool :=
  N.eqb (r_file a) (r_file b) && pos_eqb (r_start a) (r_start b) && pos_eqb (r_end a) (r_end b).

(* the innermost board by the compiler's notion of board blocks *)
(* real = every value map of the text in pre-order (parents before children) with the board its content
   belongs to; the innermost map containing p is the last one in that order *)
Definition ref_innermost (real : list (list str * range)) (p : pos) (path : list str) : bool :=
  let cs := filter (fun b => in_range p (snd b)) real in
  path_eqb (fst (last cs ([], mkRange 0 p p))) path.

(* compact constructors used by the harness (all numbers are N in the case files) *)
Definition ps (l c : N) : pos := mkPos (Z.of_N l) (Z.of_N c) (-1).
Definition rg (f sl sc sb el ec eb : N) : range :=
  mkRange f (mkPos (Z.of_N sl) (Z.of_N sc) (Z.of_N sb)) (mkPos (Z.of_N el) (Z.of_N ec) (Z.of_N eb)).

Definition check_board (t : amap) (real : list (list str * range)) (q : pos * list str) : list N :=
  let (p, path) := q in
  flag (path_eqb (board_at_position t p) path) 1
  ++ flag (innermost_b t (set_byte p) path) 13
  ++ flag (ref_innermost real (set_byte p) path) 12.

Definition dedup (l : list N) : list N := nodup N.eq_dec l.

Fixpoint is_suffix_fold (a b : list str) : bool :=
  (* a is a suffix of b, segment-wise case-folded *)
  fold_path_eqb a b || match b with [] => false | _ :: tl => is_suffix_fold a tl end.

Definition names_field (target : list str) (o : option (list str)) : bool :=
  match o with
  | Some [v] => fold_eqb v (last target [])
  | _ => false
  end.

Definition names_edge (qsrc qdst : list str) (o : option (list str * list str)) : bool :=
  match o with
  | Some (s, d) =>
      (is_suffix_fold s qsrc || is_suffix_fold qsrc s) && (is_suffix_fold d qdst || is_suffix_fold qdst d)
  | None => false
  end.

Definition check_refq (core : bool) (m : kmap) (q : refq) : list N :=
  match q with
  | RQ target impl named decls =>
      (if core then
         flag (list_eqb range_eqb (collect m [] target) impl) 1
         ++ flag (forallb (fun r => existsb (fun s => range_eqb (snd s) r && fold_eqb (fst s) (last target []))
                                            (segments m)) impl) 14
       else [])
      ++ flag (Nat.eqb (length named) (length impl) && forallb (names_field target) named) 10
      ++ flag (forallb (fun d => existsb (range_eqb d) impl) decls) 11
  | EQ qsrc qdst impl named decls =>
      flag (Nat.eqb (length named) (length impl) && forallb (names_edge qsrc qdst) named) 10
      ++ flag (forallb (fun d => existsb (range_eqb d) impl) decls) 11
  end.

Definition check_case (c : case) : list N :=
  match c with
  | CBoard t real qs =>
      dedup (flag (wf t) 2 ++ flat_map (check_board t real) qs)
  | CRefs core m qs => dedup (flat_map (check_refq core m) qs)
  end.
