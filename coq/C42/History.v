(* C42 — historical: getBoardPathAtPosition before d2 f9da14f23 compared the first key segment with the exact
   lower-case keyword text and ignored quoting (findings C42-board-keyword-quoted / -case, fixed). *)
From Coq Require Import List NArith ZArith Bool.
Import ListNotations.
Require Import V.C42.Lsp.

Definition follows_pinned (curr : list str) (n : str) (unq : bool) : bool :=
  negb (Nat.even (length curr)) || is_board_kw n.

Fixpoint board_path_pinned (m : amap) (curr : list str) (p : pos) {struct m} : option (list str) :=
  match m with
  | AMap r keys =>
      if negb (in_range p r) then None
      else
        (fix go (ks : list akey) : option (list str) :=
           match ks with
           | [] => None
           | AKey None _ _ :: ks' => go ks'
           | AKey (Some _) _ None :: ks' => go ks'
           | AKey (Some n) u (Some sub) :: ks' =>
               if negb (follows_pinned curr n u) then go ks'
               else if in_range p (rng_of sub) then
                 let np := curr ++ [n] in
                 match board_path_pinned sub np p with
                 | Some d => Some d
                 | None => if Nat.odd (length np) then None else Some np
                 end
               else go ks'
           end) keys
  end.

Definition rr (a b c d : Z) : range := mkRange 0 (mkPos a b (-1)) (mkPos c d (-1)).
Definition c_q : str := [113%N].
Definition c_s : str := [115%N].
Definition c_Scenarios : str := [83;99;101;110;97;114;105;111;115]%N.

(* x\n"layers": {\n  q: { w }\n}\n : an OBJECT named layers; cursor on w (line 2, column 7) *)
Definition quoted_tree : amap :=
  AMap (rr 0 0 4 0)
    [AKey (Some [120%N]) true None;
     AKey (Some s_layers) false (Some (AMap (rr 1 10 3 1)
        [AKey (Some c_q) true (Some (AMap (rr 2 5 2 10) [AKey (Some [119%N]) true None]))]))].

(* x\nScenarios: {\n  s: { v }\n}\n : a scenario for the compiler; cursor on v (line 2, column 7) *)
Definition case_tree : amap :=
  AMap (rr 0 0 4 0)
    [AKey (Some [120%N]) true None;
     AKey (Some c_Scenarios) true (Some (AMap (rr 1 11 3 1)
        [AKey (Some c_s) true (Some (AMap (rr 2 5 2 10) [AKey (Some [118%N]) true None]))]))].

Lemma board_keyword_pinned_wrong :
  board_path_pinned quoted_tree [] (mkPos 2 7 (-1)) = Some [s_layers; c_q]
  /\ board_path quoted_tree [] (mkPos 2 7 (-1)) = None
  /\ board_path_pinned case_tree [] (mkPos 2 7 (-1)) = None
  /\ board_path case_tree [] (mkPos 2 7 (-1)) = Some [c_Scenarios; c_s].
Proof. repeat split; vm_compute; reflexivity. Qed.
