(* Executable checker for C10 cases (C11's checker reuses the case type and the helpers).

   CRun p r          correspondence only: [run p] against the projection [r] of
                     d2compiler.Compile(print p)                                     -> code 1
   CStep p d rp r    property clauses of C10 evaluated DIRECTLY on the implementation's own outputs
                     rp (for p) and r (for p ++ [d]); d is a top-level declaration     -> codes >= 10
   CFold a b ef la   strings.EqualFold a b = ef and strings.ToLower a = la (ties [cf] and [lower]
                     to Go on the runes the generators use)                            -> code 1     *)
From Coq Require Import List NArith Bool Arith.
Import ListNotations.
Require Import V.Lib.RunCases.
Require Export V.C10.Core.

Inductive impl := IErr (c : N) | IBoard (b : board).

Inductive case :=
| CRun (p : program) (r : impl)
| CStep (p : program) (d : decl) (rp r : impl)
| CFold (a b : str) (ef : bool) (la : str).

(* ---- equality of projections ---- *)

Definition attrs_eqb (a b : attrs) : bool :=
  list_eqb (fun x y => kw_eqb (fst x) (fst y) && str_eqb (snd x) (snd y)) a b.

Definition gobj_eqb (a b : gobj) : bool :=
  path_eqb (gpath a) (gpath b) && str_eqb (glabel a) (glabel b) && str_eqb (gshape a) (gshape b)
  && attrs_eqb (gstyle a) (gstyle b).

Definition gedge_eqb (a b : gedge) : bool :=
  path_eqb (gsrc a) (gsrc b) && path_eqb (gdst a) (gdst b) && Bool.eqb (gsa a) (gsa b)
  && Bool.eqb (gda a) (gda b) && Nat.eqb (gidx a) (gidx b) && str_eqb (gelabel a) (gelabel b)
  && attrs_eqb (gestyle a) (gestyle b).

Definition subset {A} (eqb : A -> A -> bool) (l1 l2 : list A) : bool :=
  forallb (fun x => existsb (eqb x) l2) l1.
Definition same_set {A} (eqb : A -> A -> bool) (l1 l2 : list A) : bool :=
  Nat.eqb (length l1) (length l2) && subset eqb l1 l2 && subset eqb l2 l1.

(* Without ghosts the projection is compared exactly, in order.  With ghosts (objects without any
   reference) d2graph's SortObjectsByAST has no consistent order to sort by: compared as sets. *)
Definition board_corr (m i : board) : bool :=
  match gghosts m, gghosts i with
  | [], [] => list_eqb gobj_eqb (gobjs m) (gobjs i) && list_eqb gedge_eqb (gedges m) (gedges i)
  | _, _ => same_set gobj_eqb (gobjs m) (gobjs i) && same_set gobj_eqb (gghosts m) (gghosts i)
            && same_set gedge_eqb (gedges m) (gedges i)
  end.

Definition corr (p : program) (r : impl) : bool :=
  match run p, r with
  | RUnsup, _ => true
  | RErr c, IErr c' => (c =? c')%N
  | RBoard m, IBoard i => board_corr m i
  | _, _ => false
  end.

(* ---- C10 clauses on implementation output ---- *)

Definition all_objs (b : board) : list gobj := gobjs b ++ gghosts b.

Fixpoint uniq_keys (l : list path) : bool :=
  match l with
  | [] => true
  | k :: l' => negb (existsb (path_eqb k) l') && uniq_keys l'
  end.

(* 10: no two objects of the board have the same path up to letter case *)
Definition cl_merge (b : board) : bool := uniq_keys (map (fun o => fkey (gpath o)) (all_objs b)).

Definition touches (K : path) (e : gedge) : bool :=
  is_prefix K (fkey (gsrc e)) || is_prefix K (fkey (gdst e)).

Definition other_attrs_eq (k : kw) (o o' : gobj) : bool :=
  forallb (fun k' => kw_eqb k' k || opt_eqb str_eqb (gattr o k') (gattr o' k'))
          [KLabel; KShape; KFill; KStroke; KOpacity; KStrokeWidth; KFontColor].

(* frame for an attribute assignment on the object at K: every other object is unchanged, the object
   itself keeps its other attributes, the connections are unchanged *)
Definition cl_frame_attr (K : path) (k : kw) (bp b : board) : bool :=
  forallb (fun o =>
             if path_eqb (fkey (gpath o)) K
             then match gfind K (gobjs b) with
                  | Some o' => path_eqb (gpath o) (gpath o') && other_attrs_eq k o o'
                  | None => false
                  end
             else existsb (gobj_eqb o) (gobjs b)) (gobjs bp)
  && list_eqb gedge_eqb (gedges bp) (gedges b).

Definition is_null_obj (d : decl) : option path :=
  match d with DObj r PNull _ => top_target r | _ => None end.

Definition no_style (o : gobj) : bool := match gstyle o with [] => true | _ => false end.

Definition cstep (p : program) (d : decl) (rp r : impl) : list N :=
  match r with
  | IErr _ =>
      (* these declarations (no underscore, valid values) cannot fail when the prefix compiled *)
      match rp, d with
      | IBoard _, DAttr (O, _ :: _) _ (Some _) => [11]
      | IBoard _, DAttr (O, _ :: _) _ None => [13]
      | IBoard _, DObj (O, _ :: _) (PStr _) None => [14]
      | IBoard _, DObj (O, _ :: _) PNull _ => [15]
      | IBoard _, DEdge (O, _ :: _) (O, _ :: _) _ _ (Some _) PNull _ => [17]
      | _, _ => []
      end%N
  | IBoard b =>
      flag (cl_merge b) 10
      ++ match d with
         | DAttr rf k (Some v) =>
             match top_target rf with
             | Some D =>
                 let K := fkey D in
                 (* 11: the attribute has the value just assigned *)
                 flag (match gfind K (gobjs b) with
                       | Some o => opt_eqb str_eqb (gattr o k) (Some (norm k v))
                       | None => false end) 11
                 (* 12: frame *)
                 ++ match rp with IBoard bp => flag (cl_frame_attr K k bp b) 12 | _ => [] end
             | None => []
             end
         | DAttr rf k None =>
             match top_target rf with
             | Some D =>
                 let K := fkey D in
                 (* 13: the attribute is reset (label: to the primary / the name; shape: rectangle;
                    style: absent) and everything else is framed *)
                 flag (match gfind K (gobjs b) with
                       | Some o =>
                           match k with
                           | KLabel => true       (* value depends on the primary: see 12 with rp *)
                           | KShape => str_eqb (gshape o) rectangle
                           | _ => match aget k (gstyle o) with None => true | Some _ => false end
                           end
                       | None => false end) 13
                 ++ match rp with IBoard bp => flag (cl_frame_attr K k bp b) 12 | _ => [] end
             | None => []
             end
         | DObj rf (PStr v) None =>
             match top_target rf with
             | Some D =>
                 (* 14: the label is the value just assigned (primary) *)
                 flag (match gfind (fkey D) (gobjs b) with
                       | Some o => str_eqb (glabel o) v
                       | None => false end) 14
                 ++ match rp with IBoard bp => flag (cl_frame_attr (fkey D) KLabel bp b) 12 | _ => [] end
             | None => []
             end
         | DObj rf PNull _ =>
             match top_target rf with
             | Some D =>
                 let K := fkey D in
                 (* 15: no such object, none of its descendants, no connection through it *)
                 flag (forallb (fun o => negb (is_prefix K (fkey (gpath o)))) (all_objs b)
                       && forallb (fun e => negb (touches K e)) (gedges b)) 15
                 (* 16: everything else survives unchanged *)
                 ++ match rp with
                    | IBoard bp =>
                        flag (forallb (fun o => is_prefix K (fkey (gpath o)) || existsb (gobj_eqb o) (gobjs b)) (gobjs bp)
                              && forallb (fun e => touches K e || existsb (gedge_eqb e) (gedges b)) (gedges bp)) 16
                    | _ => []
                    end
             | None => []
             end
         | DEdge s t sa da (Some i) PNull _ =>
             (* 17: (s -> t)[i]: null removes exactly the connection numbered i *)
             match top_target s, top_target t, rp with
             | Some Ds, Some Dt, IBoard bp =>
                 let hit := fun e => gclass_eqb (fkey Ds) (fkey Dt) sa da e && Nat.eqb (gidx e) i in
                 let strip := fun e => mkGEdge (gsrc e) (gdst e) (gsa e) (gda e) 0 (gelabel e) (gestyle e) in
                 if existsb hit (gedges bp) then
                   flag (list_eqb gedge_eqb (map strip (filter (fun e => negb (hit e)) (gedges bp)))
                                            (map strip (gedges b))
                         && list_eqb gobj_eqb (gobjs bp) (gobjs b)) 17
                 else []     (* a missing index is C11's business *)
             | _, _, _ => []
             end
         | DEdgeAttr s t sa da i k None =>
             (* 18: (s -> t)[i].k: null resets that attribute of that connection only *)
             match top_target s, top_target t, rp with
             | Some Ds, Some Dt, IBoard bp =>
                 let hit := fun e => gclass_eqb (fkey Ds) (fkey Dt) sa da e && Nat.eqb (gidx e) i in
                 if existsb hit (gedges bp) then
                   flag (Nat.eqb (length (gedges bp)) (length (gedges b))
                         && forallb (fun e => if hit e then
                                                match k with KLabel | KShape => true
                                                | _ => match aget k (gestyle e) with None => true | _ => false end end
                                              else existsb (gedge_eqb e) (gedges bp)) (gedges b)) 18
                 else []
             | _, _, _ => []
             end
         | _ => []
         end
      (* 19: redeclaration after null is fresh: p ends in [x: null], d = [x] or [x: lbl] *)
      ++ match last p (DAttr (O, []) KLabel None), d with
         | DObj rf0 PNull _, DObj rf pv None =>
             match top_target rf0, top_target rf with
             | Some D0, Some D =>
                 if path_eqb (fkey D0) (fkey D) && negb (match pv with PNull => true | _ => false end) then
                   let K := fkey D in
                   flag (match gfind K (gobjs b) with
                         | Some o =>
                             str_eqb (last (gpath o) []) (last D [])   (* spelled as in the new declaration *)
                             && str_eqb (glabel o) (match pv with PStr v => v | _ => last D [] end)
                             && str_eqb (gshape o) rectangle && no_style o
                         | None => false end
                         && forallb (fun o => path_eqb (fkey (gpath o)) K || negb (is_prefix K (fkey (gpath o)))) (all_objs b)
                         && forallb (fun e => negb (touches K e)) (gedges b)) 19
                 else []
             | _, _ => []
             end
         | _, _ => []
         end
  end.

Definition check_fold (a b : str) (ef : bool) (la : str) : list N :=
  flag (Bool.eqb (str_eqb (fold_name a) (fold_name b)) ef) 1 ++ flag (str_eqb (lower_str a) la) 1.

Definition check_case (c : case) : list N :=
  match c with
  | CRun p r => flag (corr p r) 1
  | CStep p d rp r => cstep p d rp r
  | CFold a b ef la => check_fold a b ef la
  end.
