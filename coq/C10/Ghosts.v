(* C10 — underscore-free programs never re-create a deleted container: [ghosts st = []].
   Scope-indexed invariant over [exec] (the scopes of all enclosing bodies exist; objects are closed under
   parents; every recorded reference scope is an ancestor; every connection's endpoints exist and it is tight). *)
From Coq Require Import List NArith Bool Arith Lia.
Import ListNotations.
Require Import V.Lib.RunCases V.C10.Core V.C10.CoreLemmas V.C10.Proofs.

Definition closedK (os : list obj) : Prop :=
  forall o, In o os -> forall j, 1 <= j < length (okey o) -> has_key (firstn j (okey o)) os.

Definition scopes_in (os : list obj) : Prop :=
  forall o, In o os -> forall Sc, In Sc (oscopes o) -> is_prefix (fkey Sc) (okey o) = true.

Definition edge_ok (os : list obj) (e : edge) : Prop :=
  has_key (fkey (esrc e)) os /\ has_key (fkey (edst e)) os /\
  (forall Sc, In Sc (escopes e) -> is_prefix (fkey Sc) (fkey (esrc e)) = true) /\ tight_e e.

Definition scopes_exist (Sg : list path) (os : list obj) : Prop :=
  forall X, In X Sg -> X = [] \/ has_key (fkey X) os.

Definition J (Sg : list path) (st : state) : Prop :=
  closedK (objs st) /\ scopes_in (objs st) /\ Forall (edge_ok (objs st)) (edges st) /\ scopes_exist Sg (objs st).

(* objects are only added (or get a scope) *)
Definition grows (os os' : list obj) : Prop := forall K, has_key K os -> has_key K os'.

Lemma grows_ensure Sc D ns os : grows os (fst (ensure Sc D ns os)).
Proof. intros K H. eapply has_key_paths; [apply ensure_paths | exact H]. Qed.

Lemma edge_ok_grows os os' e : grows os os' -> edge_ok os e -> edge_ok os' e.
Proof. intros G [H1 [H2 [H3 H4]]]. split; [apply G; exact H1|]. split; [apply G; exact H2|]. split; assumption. Qed.

Lemma is_prefix_firstn j (k : path) : is_prefix (firstn j k) k = true.
Proof. apply is_prefix_spec. exists (skipn j k). symmetry. apply firstn_skipn. Qed.

Lemma upd_same_keys K f os K' : (forall o, opath (f o) = opath o) -> has_key K' (upd_obj K f os) <-> has_key K' os.
Proof.
  intro Hf. split.
  - intros [o [Ho Ko]]. unfold upd_obj in Ho. apply in_map_iff in Ho as [o0 [E Ho0]].
    exists o0. split; [exact Ho0|]. rewrite <- Ko. destruct (at_key K o0); subst o; [rewrite Hf|]; reflexivity.
  - apply has_key_upd. exact Hf.
Qed.

Lemma closedK_upd K f os : (forall o, opath (f o) = opath o) -> closedK os -> closedK (upd_obj K f os).
Proof.
  intros Hf H o Ho j Hj. unfold upd_obj in Ho. apply in_map_iff in Ho as [o0 [E Ho0]].
  assert (okey o = okey o0) as Ek by (unfold okey; destruct (at_key K o0); subst o; [rewrite Hf|]; reflexivity).
  rewrite Ek in *. apply upd_same_keys; [exact Hf|]. apply H; assumption.
Qed.

Lemma closedK_ensure Sc D ns os :
  closedK os -> (D = [] \/ has_key (fkey D) os) -> closedK (fst (ensure Sc D ns os)).
Proof.
  revert D os; induction ns as [|n ns IH]; intros D os Hc HD; simpl; [exact Hc|].
  destruct (find_obj (fkey (D ++ [n])) os) as [o|] eqn:E.
  - apply IH.
    + apply closedK_upd; [apply add_scope_path | exact Hc].
    + right. apply has_key_upd; [apply add_scope_path|]. apply find_obj_some in E as [Ho Ek]. exists o; auto.
  - apply IH.
    + intros o Ho j Hj. apply in_app_or in Ho as [Ho|[<-|[]]].
      * destruct (Hc o Ho j Hj) as [o' [Ho' Ko']]. exists o'. split; [apply in_or_app; left; exact Ho' | exact Ko'].
      * unfold okey in *. cbn [opath] in *. rewrite fkey_app in *. rewrite app_length in Hj. simpl in Hj.
        rewrite firstn_app. replace (j - length (fkey D)) with 0 by lia. simpl. rewrite app_nil_r.
        destruct HD as [->|[oD [HoD KD]]]; [simpl in Hj; lia|].
        destruct (Nat.eq_dec j (length (fkey D))) as [->|Nj].
        -- rewrite firstn_all. exists oD. split; [apply in_or_app; left; exact HoD | exact KD].
        -- assert (1 <= j < length (okey oD)) as Hj' by (unfold okey; rewrite KD; lia).
           destruct (Hc oD HoD j Hj') as [o' [Ho' Ko']]. exists o'. split; [apply in_or_app; left; exact Ho'|].
           rewrite Ko'. unfold okey. rewrite KD. reflexivity.
    + right. exists (mkObj (D ++ [n]) None [] [Sc]). split; [apply in_or_app; right; left; reflexivity | reflexivity].
Qed.

Lemma scopes_in_ensure Sc D ns os :
  scopes_in os -> is_prefix (fkey Sc) (fkey D) = true -> scopes_in (fst (ensure Sc D ns os)).
Proof.
  revert D os; induction ns as [|n ns IH]; intros D os Hs HD; simpl; [exact Hs|].
  assert (is_prefix (fkey Sc) (fkey (D ++ [n])) = true) as HDn.
  { rewrite fkey_app. eapply is_prefix_trans; [exact HD | apply is_prefix_app]. }
  destruct (find_obj (fkey (D ++ [n])) os) as [o|] eqn:E.
  - apply find_obj_some in E as [Ho Ek]. apply IH; [|rewrite Ek; exact HDn].
    intros x Hx S0 HS0. unfold upd_obj in Hx. apply in_map_iff in Hx as [x0 [Ex Hx0]].
    destruct (at_key (fkey (D ++ [n])) x0) eqn:A.
    + subst x. unfold add_scope in HS0. cbn [oscopes] in HS0. unfold okey. cbn [opath add_scope].
      apply at_key_true in A. apply in_app_or in HS0 as [HS0|[<-|[]]].
      * apply (Hs x0 Hx0 S0 HS0).
      * rewrite A. exact HDn.
    + subst x. apply (Hs x0 Hx0 S0 HS0).
  - apply IH; [|exact HDn].
    intros x Hx S0 HS0. apply in_app_or in Hx as [Hx|[<-|[]]].
    + apply (Hs x Hx S0 HS0).
    + cbn [oscopes] in HS0. destruct HS0 as [<-|[]]. unfold okey. cbn [opath]. exact HDn.
Qed.

(* ---- ghosts vanish under the invariant ---- *)

Lemma dedup_keys_all_seen seen l : (forall p, In p l -> In (fkey p) seen) -> dedup_keys seen l = [].
Proof.
  induction l as [|p l IH]; simpl; intro H; [reflexivity|].
  assert (existsb (path_eqb (fkey p)) seen = true) as E.
  { apply existsb_exists. exists (fkey p). split; [apply H; left; reflexivity | apply path_eqb_refl]. }
  rewrite E. apply IH. intros; apply H; right; assumption.
Qed.

Lemma has_key_in_keys K os : has_key K os -> In K (map (fun o => fkey (opath o)) os).
Proof. intros [o [Ho Ko]]. apply in_map_iff. exists o; auto. Qed.

Lemma prefixes_in p q : In q (prefixes p) -> exists j, 1 <= j <= length p /\ q = firstn j p.
Proof.
  unfold prefixes. intro H. apply in_map_iff in H as [j [E Hj]]. apply in_seq in Hj. exists j. split; [lia | auto].
Qed.

Lemma fkey_firstn j p : fkey (firstn j p) = firstn j (fkey p).
Proof. unfold fkey. symmetry. apply firstn_map. Qed.

(* a prefix (as keys) of an existing object's key exists *)
Lemma prefix_exists os o k :
  closedK os -> In o os -> is_prefix k (okey o) = true -> k <> [] -> has_key k os.
Proof.
  intros Hc Ho Hp Hne. apply is_prefix_spec in Hp as [r Er].
  destruct r as [|x r].
  - rewrite app_nil_r in Er. exists o. auto.
  - assert (k = firstn (length k) (okey o)) as Ek.
    { rewrite Er, firstn_app, Nat.sub_diag, firstn_all. simpl. rewrite app_nil_r. reflexivity. }
    rewrite Ek. apply Hc; [exact Ho|].
    assert (length (okey o) = length k + S (length r)) as L by (rewrite Er, app_length; reflexivity).
    destruct k; [contradiction|]. simpl in *. lia.
Qed.

Lemma J_no_ghosts Sg st : J Sg st -> ghosts st = [].
Proof.
  intros [Hc [Hs [He _]]]. unfold ghosts. apply dedup_keys_all_seen. intros p Hp.
  apply has_key_in_keys. unfold ghost_cands in Hp. apply in_app_or in Hp as [Hp|Hp].
  - apply in_flat_map in Hp as [o [Ho Hp]]. apply in_flat_map in Hp as [Sc [HSc Hp]].
    apply prefixes_in in Hp as [j [Hj ->]]. rewrite fkey_firstn.
    apply (prefix_exists _ o); [exact Hc | exact Ho | |].
    + eapply is_prefix_trans; [apply is_prefix_firstn | apply (Hs o Ho Sc HSc)].
    + intro X. apply (f_equal (@length _)) in X. rewrite firstn_length, fkey_length in X. simpl in X. lia.
  - apply in_flat_map in Hp as [e [Hin Hp]]. rewrite Forall_forall in He. destruct (He e Hin) as [[os [Hos Kos]] [[od [Hod Kod]] [Hsc _]]].
    apply in_app_or in Hp as [Hp|Hp]; [|apply in_app_or in Hp as [Hp|Hp]].
    + apply in_flat_map in Hp as [Sc [HSc Hp]]. apply prefixes_in in Hp as [j [Hj ->]]. rewrite fkey_firstn.
      apply (prefix_exists _ os); [exact Hc | exact Hos | |].
      * unfold okey. rewrite Kos. eapply is_prefix_trans; [apply is_prefix_firstn | apply (Hsc Sc HSc)].
      * intro X. apply (f_equal (@length _)) in X. rewrite firstn_length, fkey_length in X. simpl in X. lia.
    + apply prefixes_in in Hp as [j [Hj ->]]. rewrite fkey_firstn.
      apply (prefix_exists _ os); [exact Hc | exact Hos | unfold okey; rewrite Kos; apply is_prefix_firstn |].
      intro X. apply (f_equal (@length _)) in X. rewrite firstn_length, fkey_length in X. simpl in X. lia.
    + apply prefixes_in in Hp as [j [Hj ->]]. rewrite fkey_firstn.
      apply (prefix_exists _ od); [exact Hc | exact Hod | unfold okey; rewrite Kod; apply is_prefix_firstn |].
      intro X. apply (f_equal (@length _)) in X. rewrite firstn_length, fkey_length in X. simpl in X. lia.
Qed.

(* ================================================================ preservation *)

Lemma J_ensure Sg S ns st :
  In S Sg -> J Sg st -> J Sg (mkState (fst (ensure S S ns (objs st))) (edges st)).
Proof.
  intros HS [Hc [Hs [He Hx]]]. unfold J. cbn [objs edges].
  split; [apply closedK_ensure; [exact Hc | apply Hx; exact HS]|].
  split; [apply scopes_in_ensure; [exact Hs | apply is_prefix_refl]|].
  split.
  - eapply Forall_impl; [|exact He]. intros e. apply edge_ok_grows. apply grows_ensure.
  - intros X HX. destruct (Hx X HX) as [->|H]; [left; reflexivity | right; apply grows_ensure; exact H].
Qed.

Lemma J_upd Sg K f st :
  (forall o, opath (f o) = opath o) -> (forall o, oscopes (f o) = oscopes o) ->
  J Sg st -> J Sg (mkState (upd_obj K f (objs st)) (edges st)).
Proof.
  intros Hp Hsc [Hc [Hs [He Hx]]]. unfold J. cbn [objs edges].
  split; [apply closedK_upd; assumption|]. split.
  - intros o Ho Sc HSc. unfold upd_obj in Ho. apply in_map_iff in Ho as [o0 [E Ho0]].
    assert (okey o = okey o0 /\ oscopes o = oscopes o0) as [Ek Es].
    { unfold okey. destruct (at_key K o0); subst o; [rewrite Hp, Hsc|]; auto. }
    rewrite Ek. rewrite Es in HSc. apply (Hs o0 Ho0 Sc HSc).
  - split.
    + eapply Forall_impl; [|exact He]. intros e. apply edge_ok_grows. intros K' H. apply has_key_upd; assumption.
    + intros X HX. destruct (Hx X HX) as [->|H]; [left; reflexivity | right; apply has_key_upd; assumption].
Qed.

Lemma survives K os o : In o os -> is_prefix K (okey o) = false -> In o (filter (fun o => negb (is_prefix K (fkey (opath o)))) os).
Proof. intros Ho Hp. apply filter_In. split; [exact Ho|]. unfold okey in Hp. rewrite Hp. reflexivity. Qed.

Lemma has_key_survives K K' os :
  has_key K' os -> is_prefix K K' = false -> has_key K' (filter (fun o => negb (is_prefix K (fkey (opath o)))) os).
Proof.
  intros [o [Ho Ko]] Hp. exists o. split; [|exact Ko]. apply survives; [exact Ho|]. unfold okey. rewrite Ko. exact Hp.
Qed.

Lemma J_delete Sg K st :
  existsb (fun X => is_prefix K (fkey X)) Sg = false -> K <> [] -> J Sg st -> J Sg (delete_obj K st).
Proof.
  intros Hno HK [Hc [Hs [He Hx]]]. unfold J, delete_obj. cbn [objs edges]. split; [|split; [|split]].
  - intros o Ho j Hj. apply filter_In in Ho as [Ho Hf]. apply negb_true_iff in Hf.
    apply has_key_survives; [apply Hc; assumption|].
    destruct (is_prefix K (firstn j (okey o))) eqn:P; [|reflexivity].
    unfold okey in *. rewrite (is_prefix_trans _ _ _ P (is_prefix_firstn j _)) in Hf. discriminate.
  - intros o Ho Sc HSc. apply filter_In in Ho as [Ho _]. apply (Hs o Ho Sc HSc).
  - apply Forall_forall. intros e Hin. apply filter_In in Hin as [Hin Hf]. apply negb_true_iff in Hf.
    rewrite Forall_forall in He. destruct (He e Hin) as [H1 [H2 [H3 H4]]].
    rewrite dies_iff_touches in Hf by exact H4. unfold etouches in Hf. apply orb_false_iff in Hf as [F1 F2].
    split; [apply has_key_survives; assumption|]. split; [apply has_key_survives; assumption|]. split; assumption.
  - intros X HX. destruct (Hx X HX) as [->|H]; [left; reflexivity|]. right.
    apply has_key_survives; [exact H|].
    destruct (is_prefix K (fkey X)) eqn:P; [|reflexivity].
    assert (existsb (fun X => is_prefix K (fkey X)) Sg = true) as C by (apply existsb_exists; exists X; auto).
    congruence.
Qed.

Lemma J_enter Sg D st : has_key (fkey D) (objs st) -> J Sg st -> J (D :: Sg) st.
Proof.
  intros HD [Hc [Hs [He Hx]]]. repeat split; auto. intros X [<-|HX]; [right; exact HD | apply Hx; exact HX].
Qed.

Lemma J_leave Sg D st : J (D :: Sg) st -> J Sg st.
Proof. intros [Hc [Hs [He Hx]]]. repeat split; auto. intros X HX. apply Hx. right; exact HX. Qed.

(* ---- edges ---- *)

Definition nu_decl (d : decl) : bool :=
  match d with
  | DObj r _ _ => ups0 r
  | DAttr r _ _ => ups0 r
  | DEdge s t _ _ _ _ _ => ups0 s && ups0 t
  | DEdgeAttr s t _ _ _ _ _ => ups0 s && ups0 t
  end.
Definition no_ups (p : program) : bool := prog_ok nu_decl p.

Lemma remove_first_subset {A} (h : A -> bool) l x : In x (remove_first h l) -> In x l.
Proof.
  induction l as [|y l IH]; simpl; [auto|]. destruct (h y); [intro; right; assumption|].
  intros [->|H]; [left; reflexivity | right; apply IH; exact H].
Qed.

Lemma exec_edge_null_sub S s t sa da i st st' :
  exec_edge_null S s t sa da i st = Ok st' -> objs st' = objs st /\ forall e, In e (edges st') -> In e (edges st).
Proof.
  unfold exec_edge_null. destruct (snd s); [discriminate|]. destruct (snd t); [discriminate|].
  destruct (base_of S (Nat.max (fst s) (fst t))); [|intro H; inversion H; subst; auto].
  destruct (base_of S (fst s)); [|intro H; inversion H; subst; auto].
  destruct (base_of S (fst t)); [|intro H; inversion H; subst; auto].
  intro H; inversion H; subst. cbn [objs edges]. split; [reflexivity|]. intros e. apply remove_first_subset.
Qed.

Lemma J_edge_null Sg S s t sa da i st st' :
  J Sg st -> exec_edge_null S s t sa da i st = Ok st' -> J Sg st'.
Proof.
  intros [Hc [Hs [He Hx]]] Hex. apply exec_edge_null_sub in Hex as [Eo Hsub].
  unfold J. rewrite Eo. repeat split; auto.
  apply Forall_forall. intros e Hin. rewrite Forall_forall in He. apply He. apply Hsub. exact Hin.
Qed.

Lemma J_edge_ref Sg S s t sa da i p eb st st' :
  fst s = 0 -> fst t = 0 ->
  J Sg st -> exec_edge_ref S s t sa da i p eb st = Ok st' -> J Sg st'.
Proof.
  intros Us Ut [Hc [Hs [He Hx]]] Hex.
  apply exec_edge_ref_inv in Hex as [Bs [Bd [B1 [B2 [_ [_ [_ ->]]]]]]].
  rewrite Us, base_of_zero in B1. rewrite Ut, base_of_zero in B2. inversion B1; inversion B2; subst Bs Bd.
  unfold J. cbn [objs edges]. split; [exact Hc|]. split; [exact Hs|]. split; [|exact Hx].
  apply Forall_forall. intros e Hin. apply in_map_iff in Hin as [e0 [<- Hin0]].
  rewrite Forall_forall in He. destruct (He e0 Hin0) as [H1 [H2 [H3 H4]]].
  destruct (ref_hit (fkey (S ++ snd s)) (fkey (S ++ snd t)) sa da i e0) eqn:Hh; [|split; [exact H1|]; split; [exact H2|]; split; assumption].
  unfold edge_ok, eupdate. cbn [esrc edst escopes].
  split; [exact H1|]. split; [exact H2|]. split.
  - intros Sc HSc. apply in_app_or in HSc as [HSc|[<-|[]]]; [apply H3; exact HSc|].
    unfold ref_hit, eclass_eqb in Hh. repeat (apply andb_true_iff in Hh as [Hh ?]).
    apply path_eqb_eq in Hh. rewrite Hh, fkey_app. apply is_prefix_app.
  - destruct H4 as [T1 T2]. unfold tight_e, econt in *. cbn [esrc edst ebs ebd].
    split; [destruct (Nat.eqb (fst s) 0) | destruct (Nat.eqb (fst t) 0)]; lia.
Qed.

Lemma J_edge_new Sg S s t sa da p eb st st' :
  In S Sg -> fst s = 0 -> fst t = 0 ->
  J Sg st -> exec_edge_new S s t sa da p eb st = Ok st' -> J Sg st'.
Proof.
  intros HS Us Ut HJ Hex.
  apply exec_edge_new_inv in Hex as [Bs [Bd [os1 [Ds [os2 [Dd [B1 [B2 [N1 [N2 [E1 [E2 ->]]]]]]]]]]]].
  rewrite Us, base_of_zero in B1. rewrite Ut, base_of_zero in B2. inversion B1; inversion B2; subst Bs Bd.
  pose proof (J_ensure Sg S (snd s) st HS HJ) as J1. rewrite E1 in J1. cbn [fst] in J1.
  pose proof (J_ensure Sg S (snd t) (mkState os1 (edges st)) HS J1) as J2. cbn [objs edges] in J2. rewrite E2 in J2. cbn [fst] in J2.
  destruct J2 as [Hc [Hs [He Hx]]]. unfold J. cbn [objs edges]. repeat split; auto.
  apply Forall_app. split; [exact He|]. constructor; [|constructor].
  pose proof (ensure_key S S (snd s) (objs st)) as K1. rewrite E1 in K1. cbn [snd] in K1.
  pose proof (ensure_key S S (snd t) os1) as K2. rewrite E2 in K2. cbn [snd] in K2.
  unfold edge_ok. cbn [esrc edst escopes]. split; [|split; [|split]].
  - pose proof (ensure_target S S (snd s) (objs st) N1) as T. rewrite E1 in T. cbn [fst snd] in T.
    pose proof (grows_ensure S S (snd t) os1 _ T) as G. rewrite E2 in G. exact G.
  - pose proof (ensure_target S S (snd t) os1 N2) as T. rewrite E2 in T. exact T.
  - intros Sc [<-|[]]. rewrite K1. apply is_prefix_app.
  - apply tight_new with (ns1 := snd s) (ns2 := snd t); assumption.
Qed.

(* ================================================================ the scope-indexed induction *)

Lemma exec_list_J Os S ds :
  Forall (fun d => forall Os S st st', all_ok nu_decl d = true -> J (S :: Os) st -> exec Os S d st = Ok st' -> J (S :: Os) st') ds ->
  forall st st', forallb (all_ok nu_decl) ds = true -> J (S :: Os) st -> exec_list Os S ds st = Ok st' -> J (S :: Os) st'.
Proof.
  induction 1 as [|d ds Hd _ IH]; intros st st' Hok HJ Hex; simpl in *.
  - inversion Hex; subst; assumption.
  - apply andb_true_iff in Hok as [Hok1 Hok2].
    destruct (exec Os S d st) as [st1| |] eqn:E; try discriminate.
    eapply IH; [exact Hok2 | eapply Hd; [exact Hok1 | exact HJ | exact E] | exact Hex].
Qed.

Lemma exec_J : forall d Os S st st', all_ok nu_decl d = true -> J (S :: Os) st -> exec Os S d st = Ok st' -> J (S :: Os) st'.
Proof.
  induction d as [r p body IHb | r k v | s t sa da idx p eb | s t sa da i k v] using decl_ind';
    intros Os S st st' Hok HJ Hex.
  - destruct r as [ups ns]. simpl in Hok. apply andb_true_iff in Hok as [Hu Hok].
    unfold ups0 in Hu. cbn [fst] in Hu. apply Nat.eqb_eq in Hu. subst ups.
    rewrite exec_DObj in Hex. unfold exec_obj in Hex.
    destruct ns as [|n ns]; [discriminate|]. rewrite base_of_zero in Hex.
    pose proof (J_ensure (S :: Os) S (n :: ns) st (or_introl eq_refl) HJ) as J1.
    pose proof (ensure_target S S (n :: ns) (objs st)) as Tg.
    pose proof (ensure_key S S (n :: ns) (objs st)) as Kd.
    destruct (ensure S S (n :: ns) (objs st)) as [os1 D]. cbn [fst snd] in *.
    assert (has_key (fkey D) os1) as HD by (apply Tg; discriminate).
    assert (fkey D <> []) as Dne.
    { rewrite Kd. intro X. apply app_eq_nil in X as [_ X]. discriminate. }
    assert (forall st2, J (S :: Os) st2 -> has_key (fkey D) (objs st2) ->
              match body with None => Ok st2 | Some ds => exec_list (S :: Os) D ds st2 end = Ok st' -> J (S :: Os) st') as Hbody.
    { intros st2 J2 HD2 Hb. destruct body as [ds|].
      - apply (J_leave (S :: Os) D). eapply exec_list_J; [exact IHb | exact Hok | | exact Hb].
        apply J_enter; assumption.
      - inversion Hb; subst; assumption. }
    destruct p.
    + eapply Hbody; [exact J1 | exact HD | exact Hex].
    + destruct (existsb _ (S :: Os)) eqn:Ex; [discriminate|]. inversion Hex; subst.
      apply J_delete; [exact Ex | exact Dne | exact J1].
    + eapply Hbody; [| |exact Hex].
      * apply (J_upd (S :: Os) (fkey D) (set_prim s) (mkState os1 (edges st))); [reflexivity | reflexivity | exact J1].
      * cbn [objs]. apply has_key_upd; [apply set_prim_path | exact HD].
  - destruct r as [ups ns]. simpl in Hok. apply andb_true_iff in Hok as [Hu _].
    unfold ups0 in Hu. cbn [fst] in Hu. apply Nat.eqb_eq in Hu. subst ups.
    cbn [exec] in Hex. rewrite base_of_zero in Hex.
    pose proof (J_ensure (S :: Os) S ns st (or_introl eq_refl) HJ) as J1.
    destruct (ensure S S ns (objs st)) as [os1 D]. cbn [fst] in J1.
    destruct D; [discriminate|]. inversion Hex; subst.
    apply (J_upd (S :: Os) _ (set_attr k v) (mkState os1 (edges st))); [reflexivity | reflexivity | exact J1].
  - simpl in Hok. apply andb_true_iff in Hok as [Hok _]. apply andb_true_iff in Hok as [Us Ut].
    unfold ups0 in Us, Ut. apply Nat.eqb_eq in Us, Ut.
    destruct p; destruct idx as [i|]; cbn [exec] in Hex.
    + exact (J_edge_ref _ _ _ _ _ _ _ _ _ _ _ Us Ut HJ Hex).
    + exact (J_edge_new (S :: Os) S _ _ _ _ _ _ _ _ (in_eq S Os) Us Ut HJ Hex).
    + exact (J_edge_null _ _ _ _ _ _ _ _ _ HJ Hex).
    + exact (J_edge_null _ _ _ _ _ _ _ _ _ HJ Hex).
    + exact (J_edge_ref _ _ _ _ _ _ _ _ _ _ _ Us Ut HJ Hex).
    + exact (J_edge_new (S :: Os) S _ _ _ _ _ _ _ _ (in_eq S Os) Us Ut HJ Hex).
  - simpl in Hok. apply andb_true_iff in Hok as [Hok _]. apply andb_true_iff in Hok as [Us Ut].
    unfold ups0 in Us, Ut. apply Nat.eqb_eq in Us, Ut. cbn [exec] in Hex.
    destruct v.
    + exact (J_edge_ref _ _ _ _ _ _ _ _ _ _ _ Us Ut HJ Hex).
    + exact (J_edge_null _ _ _ _ _ _ _ _ _ HJ Hex).
Qed.

Theorem no_ups_no_ghosts p b : no_ups p = true -> run p = RBoard b -> gghosts b = [].
Proof.
  intros Hok H. apply run_board in H as [st [Hs ->]]. unfold to_board. cbn [gghosts].
  assert (J [[]] st) as HJ.
  { unfold run_state in Hs. eapply (exec_list_J [] [] p); [| exact Hok | | exact Hs].
    - apply Forall_forall. intros d _. apply exec_J.
    - unfold J. cbn [objs edges init]. split; [intros o []|]. split; [intros o []|]. split; [constructor|].
      intros X [<-|[]]. left; reflexivity. }
  rewrite (J_no_ghosts _ _ HJ). reflexivity.
Qed.

(* and their connections are tight, so null removes every attached connection *)
Theorem no_ups_tight p st : no_ups p = true -> run_state p = Ok st -> Forall tight_e (edges st).
Proof.
  intros Hok Hs.
  assert (J [[]] st) as HJ.
  { unfold run_state in Hs. eapply (exec_list_J [] [] p); [| exact Hok | | exact Hs].
    - apply Forall_forall. intros d _. apply exec_J.
    - unfold J. cbn [objs edges init]. split; [intros o []|]. split; [intros o []|]. split; [constructor|].
      intros X [<-|[]]. left; reflexivity. }
  destruct HJ as [_ [_ [He _]]]. eapply Forall_impl; [|exact He]. intros e [_ [_ [_ T]]]. exact T.
Qed.

(* full strength for underscore-free programs: after [ns: null] neither a declared nor a re-created object
   lies under ns, and no connection has ns on a path *)
Theorem null_removes_object_full p ns body b :
  ns <> [] -> no_ups (p ++ [DObj (0, ns) PNull body]) = true ->
  run (p ++ [DObj (0, ns) PNull body]) = RBoard b ->
  (forall o, In o (gobjs b ++ gghosts b) -> is_prefix (fkey ns) (fkey (gpath o)) = false) /\
  (forall e, In e (gedges b) ->
     is_prefix (fkey ns) (fkey (gsrc e)) = false /\ is_prefix (fkey ns) (fkey (gdst e)) = false).
Proof.
  intros Hne Hok H. split.
  - intros o Ho. rewrite (no_ups_no_ghosts _ _ Hok H), app_nil_r in Ho.
    eapply null_removes_object_regular; eauto.
  - pose proof H as H0. apply run_board in H0 as [st' [Hs' _]]. rewrite run_state_snoc in Hs'.
    destruct (run_state p) as [st| |] eqn:Hp; try discriminate.
    unfold no_ups, prog_ok in Hok. rewrite forallb_app in Hok. apply andb_true_iff in Hok as [Hokp _].
    eapply null_removes_object_edges; eauto. eapply no_ups_tight; eauto.
Qed.
