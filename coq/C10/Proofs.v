(* C10 — proofs.  Theorem statements are collected in Props.v. *)
From Coq Require Import List NArith Bool Arith Lia.
Import ListNotations.
Require Import V.Lib.RunCases V.C10.Core V.C10.CoreLemmas.

Definition okey (o : obj) : path := fkey (opath o).
Definition keys (st : state) : list path := map okey (objs st).

Lemma NoDup_snoc {A} (l : list A) x : NoDup l -> ~ In x l -> NoDup (l ++ [x]).
Proof.
  induction l as [|y l IH]; simpl; intros H N; [constructor; [intros []| constructor]|].
  inversion H; subst. constructor.
  - intro Hin. apply in_app_or in Hin as [Hin|[->|[]]]; [contradiction | apply N; left; reflexivity].
  - apply IH; [assumption | intro; apply N; right; assumption].
Qed.

Lemma NoDup_map_filter {A B} (f : A -> B) (g : A -> bool) l : NoDup (map f l) -> NoDup (map f (filter g l)).
Proof.
  induction l as [|x l IH]; simpl; intro H; [constructor|].
  inversion H; subst. destruct (g x); simpl; [|auto].
  constructor; [|auto]. intro Hin. apply H2. apply in_map_iff in Hin as [y [E Hy]].
  apply filter_In in Hy as [Hy _]. apply in_map_iff. exists y; auto.
Qed.

(* ---- top-level unfolding ---- *)

Lemma base_of_top : base_of [] 0 = Some [].
Proof. reflexivity. Qed.

Lemma base_of_zero S : base_of S 0 = Some S.
Proof. unfold base_of. simpl. rewrite Nat.sub_0_r, firstn_all. reflexivity. Qed.

Lemma ensure_top_key S ns os : fkey (snd (ensure S [] ns os)) = fkey ns.
Proof. rewrite ensure_key. reflexivity. Qed.

Lemma fkey_nil_inv p : fkey p = [] -> p = [].
Proof. destruct p; [reflexivity | discriminate]. Qed.

Lemma exec_attr_top ns k v st :
  ns <> [] ->
  exec [] [] (DAttr (0, ns) k v) st
  = Ok (mkState (upd_obj (fkey ns) (set_attr k v) (fst (ensure [] [] ns (objs st)))) (edges st)).
Proof.
  intro Hne. simpl. pose proof (ensure_top_key [] ns (objs st)) as Hk.
  destruct (ensure [] [] ns (objs st)) as [os1 D]. simpl in *.
  destruct D as [|x D]; [destruct ns; [contradiction | discriminate]|].
  rewrite Hk. reflexivity.
Qed.

Lemma exec_obj_top ns p body st :
  ns <> [] ->
  exec [] [] (DObj (0, ns) p body) st =
  let os1 := fst (ensure [] [] ns (objs st)) in
  let D := snd (ensure [] [] ns (objs st)) in
  match p with
  | PNull => Ok (delete_obj (fkey ns) (mkState os1 (edges st)))
  | _ =>
      let st2 := match p with
                 | PStr v => mkState (upd_obj (fkey ns) (set_prim v) os1) (edges st)
                 | _ => mkState os1 (edges st) end in
      match body with None => Ok st2 | Some ds => exec_list [[]] D ds st2 end
  end.
Proof.
  intro Hne. rewrite exec_DObj. unfold exec_obj.
  destruct ns as [|n ns]; [contradiction|]. rewrite base_of_top.
  pose proof (ensure_top_key [] (n :: ns) (objs st)) as Hk.
  destruct (ensure [] [] (n :: ns) (objs st)) as [os1 D]. simpl fst; simpl snd. simpl in Hk.
  rewrite Hk.
  destruct p; try reflexivity.
Qed.

(* ---- the board of a state ---- *)

Lemma gfind_map K os : gfind K (map gobj_of os) = option_map gobj_of (find_obj K os).
Proof.
  unfold gfind, find_obj. induction os as [|o os IH]; simpl; [reflexivity|].
  unfold at_key. simpl. destruct (path_eqb (fkey (opath o)) K); [reflexivity | exact IH].
Qed.

Lemma gattr_set_same k v o : gattr (gobj_of (set_attr k (Some v) o)) k = Some (norm k v).
Proof.
  destruct k; unfold gattr, gobj_of, set_attr; simpl opath; simpl oprim; simpl oattrs;
    cbn [glabel gshape gstyle]; unfold label_of;
    try (rewrite aget_style_of by (simpl; tauto)); rewrite aget_aset_same; reflexivity.
Qed.

Lemma gattr_set_other k k' v o : k' <> k -> gattr (gobj_of (set_attr k v o)) k' = gattr (gobj_of o) k'.
Proof.
  intro N.
  destruct k'; unfold gattr, gobj_of, set_attr; simpl opath; simpl oprim; simpl oattrs;
    cbn [glabel gshape gstyle]; unfold label_of;
    try (rewrite !aget_style_of by (simpl; tauto)); rewrite aget_aupd_other by exact N; reflexivity.
Qed.

Lemma gattr_reset k o :
  match k with
  | KLabel => glabel (gobj_of (set_attr k None o)) = match oprim o with Some v => v | None => last (opath o) [] end
  | KShape => gshape (gobj_of (set_attr k None o)) = rectangle
  | _ => aget k (gstyle (gobj_of (set_attr k None o))) = None
  end.
Proof.
  destruct k; unfold gobj_of, set_attr; simpl opath; simpl oprim; simpl oattrs;
    cbn [glabel gshape gstyle]; unfold label_of;
    try (rewrite aget_style_of by (simpl; tauto)); rewrite aget_aremove_same; reflexivity.
Qed.

Lemma number_in seen es g : In g (number seen es) -> exists e, In e es /\ gsrc g = esrc e /\ gdst g = edst e /\ gsa g = esa e /\ gda g = eda e.
Proof.
  revert seen; induction es as [|e es IH]; intros seen H; simpl in H; [contradiction|].
  destruct H as [<-|H].
  - exists e. simpl. auto.
  - apply IH in H as [e' [H1 H2]]. exists e'. split; [right|]; assumption.
Qed.

(* ================================================================ invariant 1: one object per key *)

Definition uniq (st : state) : Prop := NoDup (keys st).

Lemma map_okey_upd K f os : (forall o, opath (f o) = opath o) -> map okey (upd_obj K f os) = map okey os.
Proof.
  intro Hf. unfold upd_obj, okey. rewrite map_map. apply map_ext. intro o.
  destruct (at_key K o); [rewrite Hf|]; reflexivity.
Qed.

Lemma ensure_uniq S D ns os : NoDup (map okey os) -> NoDup (map okey (fst (ensure S D ns os))).
Proof.
  revert D os; induction ns as [|n ns IH]; intros D os H; simpl; [exact H|].
  destruct (find_obj (fkey (D ++ [n])) os) as [o|] eqn:E.
  - apply IH. rewrite map_okey_upd by apply add_scope_path. exact H.
  - apply IH. rewrite map_app. simpl.
    apply NoDup_snoc; [exact H|].
    intro Hin. apply in_map_iff in Hin as [o [Ek Ho]]. eapply find_obj_none in E; eauto.
Qed.

Lemma exec_edge_objs Os S s t sa da idx p eb st st' :
  exec Os S (DEdge s t sa da idx p eb) st = Ok st' ->
  objs st' = objs st \/
  (exists Bs Bd, objs st' = fst (ensure S Bd (snd t) (fst (ensure S Bs (snd s) (objs st))))).
Proof.
  simpl. unfold exec_edge_null, exec_edge_new, exec_edge_ref.
  destruct p; destruct idx;
    destruct (snd s) eqn:Es; try discriminate; destruct (snd t) eqn:Et; try discriminate;
    repeat match goal with
           | |- context [base_of ?S ?u] => destruct (base_of S u)
           | |- context [existsb ?f ?l] => destruct (existsb f l)
           end; try discriminate;
    try (intro H; inversion H; subst; left; reflexivity).
  - destruct (ensure S p (n :: l) (objs st)) as [os1 Ds] eqn:E1.
    destruct (ensure S p0 (n0 :: l0) os1) as [os2 Dd] eqn:E2.
    intro H; inversion H; subst; right; cbn [objs]. exists p, p0. rewrite E1. cbn [fst]. rewrite E2. reflexivity.
  - destruct (ensure S p (n :: l) (objs st)) as [os1 Ds] eqn:E1.
    destruct (ensure S p0 (n0 :: l0) os1) as [os2 Dd] eqn:E2.
    intro H; inversion H; subst; right; cbn [objs]. exists p, p0. rewrite E1. cbn [fst]. rewrite E2. reflexivity.
Qed.

Lemma exec_edge_attr_objs Os S s t sa da i k v st st' :
  exec Os S (DEdgeAttr s t sa da i k v) st = Ok st' -> objs st' = objs st.
Proof.
  simpl. unfold exec_edge_null, exec_edge_ref.
  destruct v; destruct (snd s) eqn:Es; try discriminate; destruct (snd t) eqn:Et; try discriminate;
    repeat match goal with
           | |- context [base_of ?S ?u] => destruct (base_of S u)
           | |- context [existsb ?f ?l] => destruct (existsb f l)
           end; try discriminate; intro H; inversion H; subst; reflexivity.
Qed.

Lemma all_ok_true d : all_ok (fun _ => true) d = true.
Proof.
  induction d as [r p body IH| | |] using decl_ind'; simpl; auto.
  destruct body as [ds|]; [|reflexivity]. simpl in IH. induction IH; simpl; [reflexivity|].
  rewrite H. exact IHIH.
Qed.

Lemma run_state_uniq p st : run_state p = Ok st -> uniq st.
Proof.
  apply (run_state_inv (fun _ => true) uniq).
  - intros. unfold uniq, keys in *. simpl. apply ensure_uniq. assumption.
  - intros. unfold uniq, keys in *. simpl. rewrite map_okey_upd; assumption.
  - intros. unfold uniq, keys in *. simpl. apply NoDup_map_filter. assumption.
  - intros Os0 S0 s t sa da idx pr eb st0 st0' _ Hi He. unfold uniq, keys in *.
    apply exec_edge_objs in He as [->|[Bs [Bd ->]]]; [assumption|].
    apply ensure_uniq, ensure_uniq. assumption.
  - intros Os0 S0 s t sa da i k v st0 st0' _ Hi He. unfold uniq, keys in *.
    apply exec_edge_attr_objs in He. rewrite He. assumption.
  - unfold prog_ok. apply forallb_forall. intros; apply all_ok_true.
  - constructor.
Qed.

Theorem merge_unique p b :
  run p = RBoard b -> NoDup (map (fun o => fkey (gpath o)) (gobjs b)).
Proof.
  intro H. apply run_board in H as [st [Hs ->]]. apply run_state_uniq in Hs.
  unfold to_board. simpl. rewrite map_map. exact Hs.
Qed.

(* ================================================================ last write wins / frame (attributes) *)

Lemma find_after_upd K f os :
  (forall o, opath (f o) = opath o) -> find_obj K (upd_obj K f os) = option_map f (find_obj K os).
Proof. intro Hf. rewrite find_upd_obj by exact Hf. rewrite path_eqb_refl. reflexivity. Qed.

Lemma ensure_target_top S ns os : ns <> [] -> find_obj (fkey ns) (fst (ensure S [] ns os)) <> None.
Proof.
  intro Hne. apply find_obj_has_key. rewrite <- (ensure_top_key S ns os). apply ensure_target. exact Hne.
Qed.

Theorem last_write_wins p ns k v b :
  ns <> [] ->
  run (p ++ [DAttr (0, ns) k (Some v)]) = RBoard b ->
  exists o, gfind (fkey ns) (gobjs b) = Some o /\ gattr o k = Some (norm k v).
Proof.
  intros Hne H. apply run_board in H as [st' [Hs ->]].
  rewrite run_state_snoc in Hs. destruct (run_state p) as [st| |] eqn:Hp; try discriminate.
  rewrite exec_attr_top in Hs by exact Hne. inversion Hs; subst. clear Hs.
  unfold to_board. cbn [gobjs objs]. rewrite gfind_map, find_after_upd by apply set_attr_path.
  destruct (find_obj (fkey ns) (fst (ensure [] [] ns (objs st)))) as [o|] eqn:E.
  - exists (gobj_of (set_attr k (Some v) o)). split; [reflexivity | apply gattr_set_same].
  - exfalso. eapply ensure_target_top; eauto.
Qed.

Lemma in_gobjs_after_ensure S D ns os o :
  In o os -> exists o1, In o1 (fst (ensure S D ns os)) /\ gobj_of o1 = gobj_of o.
Proof.
  intro Ho. destruct (ensure_gobjs S D ns os) as [ex Hex].
  assert (In (gobj_of o) (map gobj_of (fst (ensure S D ns os)))) as Hin.
  { rewrite Hex. apply in_or_app; left. apply in_map; assumption. }
  apply in_map_iff in Hin as [o1 [E Ho1]]. exists o1; auto.
Qed.

Lemma gobj_of_path_eq o1 o : gobj_of o1 = gobj_of o -> opath o1 = opath o.
Proof. intro E. apply (f_equal gpath) in E. exact E. Qed.

Lemma number_edges_same st os : number [] (edges (mkState os (edges st))) = number [] (edges st).
Proof. reflexivity. Qed.

Theorem frame_attr p ns k v b b' :
  ns <> [] ->
  run p = RBoard b ->
  run (p ++ [DAttr (0, ns) k v]) = RBoard b' ->
  gedges b' = gedges b /\
  forall o, In o (gobjs b) ->
    if path_eqb (fkey (gpath o)) (fkey ns)
    then exists o', In o' (gobjs b') /\ gpath o' = gpath o /\ forall k', k' <> k -> gattr o' k' = gattr o k'
    else In o (gobjs b').
Proof.
  intros Hne H H'. apply run_board in H as [st [Hs ->]]. apply run_board in H' as [st' [Hs' ->]].
  rewrite run_state_snoc, Hs, exec_attr_top in Hs' by exact Hne. inversion Hs'; subst; clear Hs'.
  unfold to_board; cbn [gobjs gedges objs edges]. split; [reflexivity|].
  intros g Hg. apply in_map_iff in Hg as [o [<- Ho]].
  destruct (in_gobjs_after_ensure [] [] ns (objs st) o Ho) as [o1 [Ho1 E1]].
  pose proof (gobj_of_path_eq _ _ E1) as Ep.
  assert (In (if at_key (fkey ns) o1 then set_attr k v o1 else o1)
             (upd_obj (fkey ns) (set_attr k v) (fst (ensure [] [] ns (objs st))))) as Hin.
  { unfold upd_obj. apply in_map_iff. exists o1; auto. }
  unfold at_key in Hin. rewrite Ep in Hin. cbn [gpath gobj_of].
  destruct (path_eqb (fkey (opath o)) (fkey ns)).
  - exists (gobj_of (set_attr k v o1)). split; [apply in_map; exact Hin|]. split.
    + cbn. exact Ep.
    + intros k' Nk. rewrite gattr_set_other by exact Nk. rewrite E1. reflexivity.
  - rewrite <- E1. apply in_map. exact Hin.
Qed.

(* ---- null resets an attribute ---- *)

Theorem null_removes_attr p ns k b :
  ns <> [] ->
  run (p ++ [DAttr (0, ns) k None]) = RBoard b ->
  exists o, gfind (fkey ns) (gobjs b) = Some o /\
    match k with
    | KLabel => True
    | KShape => gshape o = rectangle
    | _ => aget k (gstyle o) = None
    end.
Proof.
  intros Hne H. apply run_board in H as [st' [Hs ->]].
  rewrite run_state_snoc in Hs. destruct (run_state p) as [st| |] eqn:Hp; try discriminate.
  rewrite exec_attr_top in Hs by exact Hne. inversion Hs; subst. clear Hs.
  unfold to_board. cbn [gobjs objs]. rewrite gfind_map, find_after_upd by apply set_attr_path.
  destruct (find_obj (fkey ns) (fst (ensure [] [] ns (objs st)))) as [o|] eqn:E.
  - exists (gobj_of (set_attr k None o)). split; [reflexivity|].
    pose proof (gattr_reset k o) as R. destruct k; auto.
  - exfalso. eapply ensure_target_top; eauto.
Qed.

(* label: null brings back the primary value, or the name *)
Theorem null_label_falls_back p ns b :
  ns <> [] ->
  run (p ++ [DAttr (0, ns) KLabel None]) = RBoard b ->
  exists st o0 o, run_state (p ++ [DAttr (0, ns) KLabel None]) = Ok st /\
    find_obj (fkey ns) (objs st) = Some o0 /\ gfind (fkey ns) (gobjs b) = Some o /\
    glabel o = match oprim o0 with Some v => v | None => last (gpath o) [] end.
Proof.
  intros Hne H. apply run_board in H as [st' [Hs ->]]. exists st'.
  pose proof Hs as Hs0.
  rewrite run_state_snoc in Hs. destruct (run_state p) as [st| |] eqn:Hp; try discriminate.
  rewrite exec_attr_top in Hs by exact Hne. inversion Hs; subst. clear Hs.
  unfold to_board. cbn [gobjs objs]. rewrite gfind_map, find_after_upd by apply set_attr_path.
  destruct (find_obj (fkey ns) (fst (ensure [] [] ns (objs st)))) as [o|] eqn:E.
  - exists (set_attr KLabel None o), (gobj_of (set_attr KLabel None o)).
    split; [exact Hs0|]. split; [reflexivity|]. split; [reflexivity|]. apply (gattr_reset KLabel o).
  - exfalso. eapply ensure_target_top; eauto.
Qed.

(* ---- primary value (x: v): last write wins unless a label keyword is in force ---- *)

Definition label_kw_at (st : state) (K : path) : option str :=
  match find_obj K (objs st) with Some o => aget KLabel (oattrs o) | None => None end.

Lemma find_app' {A} (f : A -> bool) l1 l2 :
  find f (l1 ++ l2) = match find f l1 with Some x => Some x | None => find f l2 end.
Proof. induction l1 as [|x l1 IH]; simpl; [reflexivity|]. destruct (f x); [reflexivity | exact IH]. Qed.

Lemma ensure_find_attrs S D ns os K o1 :
  find_obj K (fst (ensure S D ns os)) = Some o1 ->
  match find_obj K os with
  | Some o => oattrs o1 = oattrs o /\ oprim o1 = oprim o
  | None => oattrs o1 = [] /\ oprim o1 = None
  end.
Proof.
  revert D os; induction ns as [|n ns IH]; intros D os H; simpl in H.
  - rewrite H. auto.
  - destruct (find_obj (fkey (D ++ [n])) os) as [o|] eqn:E.
    + apply IH in H. rewrite find_upd_obj in H by apply add_scope_path.
      destruct (path_eqb (fkey (D ++ [n])) K); [|exact H].
      destruct (find_obj K os); simpl in H; exact H.
    + apply IH in H. unfold find_obj in H. rewrite find_app' in H. fold (find_obj K os) in H.
      destruct (find_obj K os); [exact H|].
      simpl in H. destruct (at_key K _); [|exact H]. simpl in H. exact H.
Qed.

Theorem last_write_wins_primary p ns v st b :
  ns <> [] ->
  run_state p = Ok st -> label_kw_at st (fkey ns) = None ->
  run (p ++ [DObj (0, ns) (PStr v) None]) = RBoard b ->
  exists o, gfind (fkey ns) (gobjs b) = Some o /\ glabel o = v.
Proof.
  intros Hne Hp Hl H. apply run_board in H as [st' [Hs ->]].
  rewrite run_state_snoc, Hp, exec_obj_top in Hs by exact Hne. cbn zeta in Hs. inversion Hs; subst; clear Hs.
  unfold to_board. cbn [gobjs objs]. rewrite gfind_map, find_after_upd by apply set_prim_path.
  destruct (find_obj (fkey ns) (fst (ensure [] [] ns (objs st)))) as [o|] eqn:E.
  - exists (gobj_of (set_prim v o)). split; [reflexivity|].
    apply ensure_find_attrs in E. unfold label_kw_at in Hl.
    unfold gobj_of, set_prim. cbn [glabel oattrs oprim opath]. unfold label_of.
    destruct (find_obj (fkey ns) (objs st)) as [o0|]; destruct E as [Ea _]; rewrite Ea; [rewrite Hl|]; reflexivity.
  - exfalso. eapply ensure_target_top; eauto.
Qed.

(* ================================================================ null removes the object *)

Theorem null_removes_object_regular p ns body b :
  ns <> [] ->
  run (p ++ [DObj (0, ns) PNull body]) = RBoard b ->
  forall o, In o (gobjs b) -> is_prefix (fkey ns) (fkey (gpath o)) = false.
Proof.
  intros Hne H o Ho. apply run_board in H as [st' [Hs ->]].
  rewrite run_state_snoc in Hs. destruct (run_state p) as [st| |] eqn:Hp; try discriminate.
  rewrite exec_obj_top in Hs by exact Hne. cbn zeta in Hs. inversion Hs; subst; clear Hs.
  unfold to_board, delete_obj in Ho. cbn [gobjs objs] in Ho.
  apply in_map_iff in Ho as [o0 [<- Ho0]]. apply filter_In in Ho0 as [_ Hf].
  apply negb_true_iff in Hf. exact Hf.
Qed.

(* connections: tight edges (no declaration reached an endpoint through "_" past the container) *)

Definition econt (e : edge) : path := lcpne (fkey (esrc e)) (fkey (edst e)).
Definition tight_e (e : edge) : Prop := ebs e <= length (econt e) /\ ebd e <= length (econt e).
Definition etouches (K : path) (e : edge) : bool := is_prefix K (fkey (esrc e)) || is_prefix K (fkey (edst e)).

Lemma dies_iff_touches K e : tight_e e -> edge_dies K e = etouches K e.
Proof.
  intros [T1 T2]. unfold edge_dies, etouches, econt in *.
  set (ks := fkey (esrc e)) in *. set (kd := fkey (edst e)) in *.
  pose proof (lcpne_prefix_l ks kd) as Pl. pose proof (lcpne_prefix_r ks kd) as Pr.
  destruct (is_prefix K (lcpne ks kd)) eqn:Ec.
  - simpl. rewrite (is_prefix_trans _ _ _ Ec Pl). reflexivity.
  - simpl.
    assert (forall kx, is_prefix (lcpne ks kd) kx = true -> is_prefix K kx = true -> length (lcpne ks kd) < length K) as Hlt.
    { intros kx Pc Pk. destruct (le_lt_dec (length K) (length (lcpne ks kd))) as [L|L]; [|exact L].
      rewrite (is_prefix_comparable _ _ _ Pk Pc L) in Ec. discriminate. }
    destruct (is_prefix K ks) eqn:E1; destruct (is_prefix K kd) eqn:E2; simpl; try reflexivity.
    + pose proof (Hlt ks Pl E1). replace (ebs e <? length K) with true by (symmetry; apply Nat.ltb_lt; lia). reflexivity.
    + pose proof (Hlt ks Pl E1). replace (ebs e <? length K) with true by (symmetry; apply Nat.ltb_lt; lia). reflexivity.
    + pose proof (Hlt kd Pr E2). replace (ebd e <? length K) with true by (symmetry; apply Nat.ltb_lt; lia). reflexivity.
Qed.

Theorem null_removes_object_edges p ns body st b :
  ns <> [] ->
  run_state p = Ok st -> Forall tight_e (edges st) ->
  run (p ++ [DObj (0, ns) PNull body]) = RBoard b ->
  forall e, In e (gedges b) ->
    is_prefix (fkey ns) (fkey (gsrc e)) = false /\ is_prefix (fkey ns) (fkey (gdst e)) = false.
Proof.
  intros Hne Hp Ht H e He. apply run_board in H as [st' [Hs ->]].
  rewrite run_state_snoc, Hp, exec_obj_top in Hs by exact Hne. cbn zeta in Hs. inversion Hs; subst; clear Hs.
  unfold to_board, delete_obj in He. cbn [gedges edges] in He.
  apply number_in in He as [e0 [He0 [-> [-> _]]]].
  apply filter_In in He0 as [Hin Hf]. apply negb_true_iff in Hf.
  rewrite Forall_forall in Ht. rewrite dies_iff_touches in Hf by (apply Ht; exact Hin).
  unfold etouches in Hf. apply orb_false_iff in Hf. exact Hf.
Qed.

(* ================================================================ inversion of the edge steps *)

Lemma exec_edge_new_inv S s t sa da p eb st st' :
  exec_edge_new S s t sa da p eb st = Ok st' ->
  exists Bs Bd os1 Ds os2 Dd,
    base_of S (fst s) = Some Bs /\ base_of S (fst t) = Some Bd /\ snd s <> [] /\ snd t <> [] /\
    ensure S Bs (snd s) (objs st) = (os1, Ds) /\ ensure S Bd (snd t) os1 = (os2, Dd) /\
    st' = mkState os2 (edges st ++ [mkEdge Ds Dd sa da
                                      (length (filter (eclass_eqb (fkey Ds) (fkey Dd) sa da) (edges st)))
                                      (match p with PStr v => Some v | _ => None end)
                                      (eapply_body eb []) (length Bs) (length Bd) [S]]).
Proof.
  unfold exec_edge_new.
  destruct (snd s) as [|n l] eqn:Es; [discriminate|]. destruct (snd t) as [|n0 l0] eqn:Et; [discriminate|].
  destruct (base_of S (fst s)) as [Bs|]; [|discriminate]. destruct (base_of S (fst t)) as [Bd|]; [|discriminate].
  destruct (ensure S Bs (n :: l) (objs st)) as [os1 Ds] eqn:E1.
  destruct (ensure S Bd (n0 :: l0) os1) as [os2 Dd] eqn:E2.
  intro H; inversion H; subst. exists Bs, Bd, os1, Ds, os2, Dd.
  repeat split; try reflexivity; try discriminate; assumption.
Qed.

Definition ref_hit (ks kd : path) (sa da : bool) (i : nat) (e : edge) : bool :=
  eclass_eqb ks kd sa da e && Nat.eqb (eidx e) i.

Lemma exec_edge_ref_inv S s t sa da i p eb st st' :
  exec_edge_ref S s t sa da i p eb st = Ok st' ->
  exists Bs Bd,
    base_of S (fst s) = Some Bs /\ base_of S (fst t) = Some Bd /\ snd s <> [] /\ snd t <> [] /\
    let hit := ref_hit (fkey (Bs ++ snd s)) (fkey (Bd ++ snd t)) sa da i in
    existsb hit (edges st) = true /\
    st' = mkState (objs st) (map (fun e => if hit e then eupdate S (fst s) (fst t) p eb e else e) (edges st)).
Proof.
  unfold exec_edge_ref.
  destruct (snd s) as [|n l] eqn:Es; [discriminate|]. destruct (snd t) as [|n0 l0] eqn:Et; [discriminate|].
  destruct (base_of S (fst s)) as [Bs|]; [|discriminate]. destruct (base_of S (fst t)) as [Bd|]; [|discriminate].
  fold (ref_hit (fkey (Bs ++ n :: l)) (fkey (Bd ++ n0 :: l0)) sa da i).
  destruct (existsb _ (edges st)) eqn:Ex; [|discriminate].
  intro H; inversion H; subst. exists Bs, Bd. repeat split; try discriminate; try reflexivity. exact Ex.
Qed.

Lemma exec_edge_ref_err S s t sa da i p eb st c :
  exec_edge_ref S s t sa da i p eb st = Err c -> c = E_INDEX.
Proof.
  unfold exec_edge_ref.
  destruct (snd s); [discriminate|]. destruct (snd t); [discriminate|].
  destruct (base_of S (fst s)); [|intro H; inversion H; reflexivity].
  destruct (base_of S (fst t)); [|intro H; inversion H; reflexivity].
  destruct (existsb _ _); [discriminate | intro H; inversion H; reflexivity].
Qed.

(* ================================================================ invariant 2 (plain programs) *)

Definition ups0 (r : ref) : bool := Nat.eqb (fst r) 0.

(* no underscore references and no null on a connection *)
Definition plain_decl (d : decl) : bool :=
  match d with
  | DObj r _ _ => ups0 r
  | DAttr r _ _ => ups0 r
  | DEdge s t _ _ _ p _ => ups0 s && ups0 t && match p with PNull => false | _ => true end
  | DEdgeAttr s t _ _ _ _ v => ups0 s && ups0 t && match v with None => false | Some _ => true end
  end.
Definition plain (p : program) : bool := prog_ok plain_decl p.

(* the IR index of every connection is its rank among the connections of its class *)
Fixpoint cons_from (seen es : list edge) : Prop :=
  match es with
  | [] => True
  | e :: es' => eidx e = length (filter (same_class e) seen) /\ cons_from (seen ++ [e]) es'
  end.
Definition consistent (es : list edge) : Prop := cons_from [] es.

Definition inv2 (st : state) : Prop := Forall tight_e (edges st) /\ consistent (edges st).

Lemma cons_from_app seen es e :
  cons_from seen es -> eidx e = length (filter (same_class e) (seen ++ es)) -> cons_from seen (es ++ [e]).
Proof.
  revert seen; induction es as [|x es IH]; intros seen H He; simpl in *.
  - rewrite app_nil_r in He. auto.
  - destruct H as [H1 H2]. split; [exact H1|]. apply IH; [exact H2|]. rewrite <- app_assoc. exact He.
Qed.

Lemma filter_filter_keep {A} (c g : A -> bool) l :
  (forall x, In x l -> c x = true -> g x = true) -> filter c (filter g l) = filter c l.
Proof.
  induction l as [|x l IH]; simpl; intro H; [reflexivity|].
  destruct (g x) eqn:G; simpl.
  - rewrite IH by (intros; apply H; auto). reflexivity.
  - destruct (c x) eqn:C; [rewrite (H x (or_introl eq_refl) C) in G; discriminate|].
    apply IH. intros; apply H; auto.
Qed.

Lemma cons_from_filter g seen es :
  (forall e e', In e (seen ++ es) -> In e' (seen ++ es) -> same_class e e' = true -> g e = g e') ->
  cons_from seen es -> cons_from (filter g seen) (filter g es).
Proof.
  revert seen; induction es as [|e es IH]; intros seen Hg H; simpl in *; [exact I|].
  destruct H as [H1 H2].
  assert (cons_from (filter g (seen ++ [e])) (filter g es)) as IH'.
  { apply IH; [|exact H2]. intros a b Ha Hb. rewrite <- app_assoc in Ha, Hb. apply Hg; assumption. }
  rewrite filter_app in IH'. simpl in IH'.
  destruct (g e) eqn:G; simpl.
  - split; [|exact IH'].
    rewrite filter_filter_keep; [exact H1|].
    intros x Hx Cx. rewrite <- G. symmetry. apply Hg; [apply in_or_app; right; left; reflexivity | apply in_or_app; left; exact Hx | exact Cx].
  - rewrite app_nil_r in IH'. exact IH'.
Qed.

Lemma cons_from_map f seen es :
  (forall e, esrc (f e) = esrc e /\ edst (f e) = edst e /\ esa (f e) = esa e /\ eda (f e) = eda e /\ eidx (f e) = eidx e) ->
  cons_from seen es -> cons_from (map f seen) (map f es).
Proof.
  intro Hf. revert seen; induction es as [|e es IH]; intros seen H; simpl in *; [exact I|].
  destruct H as [H1 H2]. split.
  - destruct (Hf e) as [E1 [E2 [E3 [E4 E5]]]]. rewrite E5, H1.
    clear - Hf E1 E2 E3 E4. induction seen as [|x seen IHs]; simpl; [reflexivity|].
    assert (same_class (f e) (f x) = same_class e x) as Ec.
    { unfold same_class, eclass_eqb. destruct (Hf x) as [X1 [X2 [X3 [X4 _]]]].
      rewrite E1, E2, E3, E4, X1, X2, X3, X4. reflexivity. }
    rewrite Ec. destruct (same_class e x); simpl; rewrite IHs; reflexivity.
  - specialize (IH (seen ++ [e]) H2). rewrite map_app in IH. exact IH.
Qed.

Lemma Forall_filter' {A} (P : A -> Prop) g l : Forall P l -> Forall P (filter g l).
Proof. induction 1; simpl; [constructor|]. destruct (g x); [constructor|]; assumption. Qed.

Lemma same_class_touches K e e' : same_class e e' = true -> etouches K e = etouches K e'.
Proof.
  unfold same_class, eclass_eqb, etouches. intro H.
  repeat (apply andb_true_iff in H as [H ?]). apply path_eqb_eq in H. apply path_eqb_eq in H2.
  rewrite H, H2. reflexivity.
Qed.

Lemma inv2_delete K st : inv2 st -> inv2 (delete_obj K st).
Proof.
  intros [Ht Hc]. unfold inv2, delete_obj. cbn [edges]. split; [apply Forall_filter'; exact Ht|].
  unfold consistent. apply (cons_from_filter (fun e => negb (edge_dies K e)) [] (edges st)); [|exact Hc].
  simpl. intros e e' He He' Hs. rewrite Forall_forall in Ht.
  rewrite !dies_iff_touches by (apply Ht; assumption). rewrite (same_class_touches K e e' Hs). reflexivity.
Qed.

Lemma tight_new S ns1 ns2 Ds Dd sa da n pr a sc :
  ns1 <> [] -> ns2 <> [] -> fkey Ds = fkey S ++ fkey ns1 -> fkey Dd = fkey S ++ fkey ns2 ->
  tight_e (mkEdge Ds Dd sa da n pr a (length S) (length S) sc).
Proof.
  intros N1 N2 E1 E2. unfold tight_e, econt. cbn [esrc edst ebs ebd]. rewrite E1, E2.
  assert (fkey ns1 <> []) by (intro X; apply fkey_nil_inv in X; contradiction).
  assert (fkey ns2 <> []) by (intro X; apply fkey_nil_inv in X; contradiction).
  pose proof (is_prefix_length _ _ (lcpne_common (fkey S) (fkey ns1) (fkey ns2) H H0)) as L.
  rewrite fkey_length in L. split; exact L.
Qed.

Lemma inv2_edge Os S s t sa da idx p eb st st' :
  plain_decl (DEdge s t sa da idx p eb) = true -> inv2 st -> exec Os S (DEdge s t sa da idx p eb) st = Ok st' -> inv2 st'.
Proof.
  intros Hok [Ht Hc] Hex. simpl in Hok.
  apply andb_true_iff in Hok as [Hok Hp]. apply andb_true_iff in Hok as [Us Ut].
  unfold ups0 in Us, Ut. apply Nat.eqb_eq in Us, Ut.
  simpl in Hex. destruct p; try discriminate; destruct idx as [i|].
  1,3: apply exec_edge_ref_inv in Hex as [Bs [Bd [_ [_ [_ [_ [_ ->]]]]]]]; split; cbn [edges].
  1,3: (apply Forall_forall; intros e He; apply in_map_iff in He as [e0 [<- He0]];
        rewrite Forall_forall in Ht; specialize (Ht e0 He0); destruct (ref_hit _ _ _ _ _ e0); [|exact Ht];
        destruct Ht as [T1 T2]; unfold tight_e, econt, eupdate; cbn [esrc edst ebs ebd];
        split; [destruct (Nat.eqb (fst s) 0) | destruct (Nat.eqb (fst t) 0)]; unfold econt in *; lia).
  1,2: (unfold consistent; apply (cons_from_map _ [] (edges st)); [|exact Hc];
        intro e; destruct (ref_hit _ _ _ _ _ e); unfold eupdate; cbn; auto).
  all: apply exec_edge_new_inv in Hex as [Bs [Bd [os1 [Ds [os2 [Dd [B1 [B2 [N1 [N2 [E1 [E2 ->]]]]]]]]]]]].
  all: rewrite Us, base_of_zero in B1; rewrite Ut, base_of_zero in B2; inversion B1; inversion B2; subst Bs Bd.
  all: pose proof (ensure_key S S (snd s) (objs st)) as K1; rewrite E1 in K1; cbn [snd] in K1.
  all: pose proof (ensure_key S S (snd t) os1) as K2; rewrite E2 in K2; cbn [snd] in K2.
  all: split; cbn [edges].
  all: try (apply Forall_app; split; [exact Ht | constructor; [|constructor]]; apply tight_new with (ns1 := snd s) (ns2 := snd t); assumption).
  all: unfold consistent; apply cons_from_app; [exact Hc|]; reflexivity.
Qed.

Lemma inv2_edge_attr Os S s t sa da i k v st st' :
  plain_decl (DEdgeAttr s t sa da i k v) = true -> inv2 st -> exec Os S (DEdgeAttr s t sa da i k v) st = Ok st' -> inv2 st'.
Proof.
  intros Hok [Ht Hc] Hex. simpl in Hok.
  apply andb_true_iff in Hok as [_ Hv]. destruct v as [v|]; [|discriminate].
  simpl in Hex. apply exec_edge_ref_inv in Hex as [Bs [Bd [_ [_ [_ [_ [_ ->]]]]]]]. split; cbn [edges].
  - apply Forall_forall; intros e He; apply in_map_iff in He as [e0 [<- He0]].
    rewrite Forall_forall in Ht; specialize (Ht e0 He0); destruct (ref_hit _ _ _ _ _ e0); [|exact Ht].
    destruct Ht as [T1 T2]; unfold tight_e, econt, eupdate; cbn [esrc edst ebs ebd].
    split; [destruct (Nat.eqb (fst s) 0) | destruct (Nat.eqb (fst t) 0)]; unfold econt in *; lia.
  - unfold consistent; apply (cons_from_map _ [] (edges st)); [|exact Hc].
    intro e; destruct (ref_hit _ _ _ _ _ e); unfold eupdate; cbn; auto.
Qed.

Theorem plain_inv2 p st : plain p = true -> run_state p = Ok st -> inv2 st.
Proof.
  intros Hp Hs.
  refine (run_state_inv plain_decl inv2 _ _ inv2_delete inv2_edge inv2_edge_attr p st Hp _ Hs).
  - intros S D ns st0 H. exact H.
  - intros K f st0 _ H. exact H.
  - split; [constructor | exact I].
Qed.

(* ================================================================ numbering of connections *)

Definition gclass_of (e : edge) (g : gedge) : bool := gclass_eqb (fkey (esrc e)) (fkey (edst e)) (esa e) (eda e) g.

Lemma number_app seen es1 es2 : number seen (es1 ++ es2) = number seen es1 ++ number (seen ++ es1) es2.
Proof.
  revert seen; induction es1 as [|e es1 IH]; intro seen; simpl.
  - rewrite app_nil_r. reflexivity.
  - rewrite IH, <- app_assoc. reflexivity.
Qed.

Lemma number_length seen es : length (number seen es) = length es.
Proof. revert seen; induction es as [|e es IH]; intro seen; simpl; [reflexivity|]. rewrite IH. reflexivity. Qed.

Lemma number_consistent seen es : cons_from seen es -> number seen es = map (fun e => gedge_of (eidx e) e) es.
Proof.
  revert seen; induction es as [|e es IH]; intros seen H; simpl in *; [reflexivity|].
  destruct H as [H1 H2]. rewrite <- H1, IH by exact H2. reflexivity.
Qed.

(* restriction to a class-closed set of connections commutes with numbering *)
Lemma number_filter (q : edge -> bool) (qg : gedge -> bool) seen es :
  (forall n e, qg (gedge_of n e) = q e) ->
  (forall e e', same_class e e' = true -> q e = q e') ->
  filter qg (number seen es) = number (filter q seen) (filter q es).
Proof.
  intros Hqg Hq. revert seen; induction es as [|e es IH]; intro seen; simpl; [reflexivity|].
  specialize (IH (seen ++ [e])). rewrite filter_app in IH. simpl in IH.
  rewrite Hqg. destruct (q e) eqn:Q; simpl.
  - rewrite IH. f_equal. f_equal. f_equal. symmetry.
    apply filter_filter_keep. intros x _ Cx. rewrite <- Q. symmetry. apply Hq. exact Cx.
  - rewrite app_nil_r in IH. exact IH.
Qed.

Lemma remove_first_filter {A} (h q : A -> bool) l :
  (forall x, h x = true -> q x = false) -> filter q (remove_first h l) = filter q l.
Proof.
  intro H. induction l as [|x l IH]; simpl; [reflexivity|].
  destruct (h x) eqn:Hx.
  - rewrite (H x Hx). reflexivity.
  - simpl. rewrite IH. reflexivity.
Qed.

Lemma remove_first_length {A} (h : A -> bool) l :
  existsb h l = true -> S (length (remove_first h l)) = length l.
Proof.
  induction l as [|x l IH]; simpl; [discriminate|].
  destruct (h x); simpl; [reflexivity|]. intro H. rewrite IH by exact H. reflexivity.
Qed.

Lemma remove_first_none {A} (h : A -> bool) l : existsb h l = false -> remove_first h l = l.
Proof.
  induction l as [|x l IH]; simpl; [reflexivity|].
  destruct (h x); simpl; [discriminate|]. intro H. rewrite IH by exact H. reflexivity.
Qed.

(* ================================================================ null removes a connection *)

Lemma exec_edge_null_top s t sa da i st :
  s <> [] -> t <> [] ->
  exec_edge_null [] (0, s) (0, t) sa da (Some i) st
  = Ok (mkState (objs st) (remove_first (ref_hit (fkey s) (fkey t) sa da i) (edges st))).
Proof. intros Hs Ht. destruct s; [contradiction|]. destruct t; [contradiction|]. reflexivity. Qed.

Lemma eclass_closed ks kd sa da e e' : same_class e e' = true -> eclass_eqb ks kd sa da e = eclass_eqb ks kd sa da e'.
Proof.
  unfold same_class, eclass_eqb. intro H.
  repeat (apply andb_true_iff in H as [H ?]). apply path_eqb_eq in H. apply path_eqb_eq in H2.
  apply Bool.eqb_prop in H1. apply Bool.eqb_prop in H0. rewrite H, H2, H1, H0. reflexivity.
Qed.

Lemma gclass_gedge_of ks kd sa da n e : gclass_eqb ks kd sa da (gedge_of n e) = eclass_eqb ks kd sa da e.
Proof. reflexivity. Qed.

Lemma remove_first_filter_length {A} (h q : A -> bool) l :
  (forall x, h x = true -> q x = true) -> existsb h l = true ->
  S (length (filter q (remove_first h l))) = length (filter q l).
Proof.
  intros Hhq. induction l as [|x l IH]; simpl; [discriminate|].
  destruct (h x) eqn:Hx; simpl.
  - intros _. rewrite (Hhq x Hx). reflexivity.
  - intro H. destruct (q x); simpl; rewrite IH by exact H; reflexivity.
Qed.

Theorem null_removes_edge p s t sa da i eb st b b' :
  s <> [] -> t <> [] -> run_state p = Ok st -> run p = RBoard b ->
  run (p ++ [DEdge (0, s) (0, t) sa da (Some i) PNull eb]) = RBoard b' ->
  let cls := gclass_eqb (fkey s) (fkey t) sa da in
  let hit := ref_hit (fkey s) (fkey t) sa da i in
  gobjs b' = gobjs b /\
  filter (fun g => negb (cls g)) (gedges b') = filter (fun g => negb (cls g)) (gedges b) /\
  (existsb hit (edges st) = true -> S (length (filter cls (gedges b'))) = length (filter cls (gedges b))) /\
  (existsb hit (edges st) = false -> gedges b' = gedges b).
Proof.
  intros Hs Ht Hp Hb Hb' cls hit.
  apply run_board in Hb as [st0 [Hs0 ->]]. rewrite Hp in Hs0. inversion Hs0; subst st0; clear Hs0.
  apply run_board in Hb' as [st' [Hs' ->]].
  rewrite run_state_snoc, Hp in Hs'. simpl in Hs'. rewrite exec_edge_null_top in Hs' by assumption.
  inversion Hs'; subst; clear Hs'. unfold to_board; cbn [gobjs gedges objs edges].
  split; [reflexivity|].
  assert (forall n e, cls (gedge_of n e) = eclass_eqb (fkey s) (fkey t) sa da e) as Hcg by reflexivity.
  split; [|split].
  - rewrite !(number_filter (fun e => negb (eclass_eqb (fkey s) (fkey t) sa da e)) (fun g => negb (cls g))).
    + simpl. rewrite remove_first_filter; [reflexivity|].
      intros x Hx. unfold ref_hit in Hx. apply andb_true_iff in Hx as [Hx _]. rewrite Hx. reflexivity.
    + intros; rewrite Hcg; reflexivity.
    + intros e e' Hc. rewrite (eclass_closed _ _ _ _ e e' Hc). reflexivity.
    + intros; rewrite Hcg; reflexivity.
    + intros e e' Hc. rewrite (eclass_closed _ _ _ _ e e' Hc). reflexivity.
  - intro Hex.
    rewrite !(number_filter (eclass_eqb (fkey s) (fkey t) sa da) cls) by (auto; apply eclass_closed).
    rewrite !number_length. simpl. apply remove_first_filter_length; [|exact Hex].
    intros x Hx. unfold ref_hit in Hx. apply andb_true_iff in Hx as [Hx _]. exact Hx.
  - intro Hex. fold hit. rewrite remove_first_none by exact Hex. reflexivity.
Qed.

(* under consistency the IR index is the graph index *)
Lemma hit_graph ks kd sa da i es :
  consistent es ->
  existsb (ref_hit ks kd sa da i) es
  = existsb (fun g => gclass_eqb ks kd sa da g && Nat.eqb (gidx g) i) (number [] es).
Proof.
  intro Hc. rewrite (number_consistent [] es Hc). clear Hc.
  induction es as [|e es IH]; simpl; [reflexivity|]. rewrite IH. reflexivity.
Qed.

(* ================================================================ names are compared case-insensitively *)

(* every object on the way from D along ns exists *)
Definition all_exist (D : path) (ns : list name) (os : list obj) : Prop :=
  forall j, 1 <= j <= length ns -> has_key (fkey D ++ fkey (firstn j ns)) os.

Lemma has_key_upd K K' f os : (forall o, opath (f o) = opath o) -> has_key K' os -> has_key K' (upd_obj K f os).
Proof.
  intros Hf H. eapply has_key_paths; [|exact H]. exists []. rewrite app_nil_r. apply upd_obj_keys. exact Hf.
Qed.

Lemma fkey_cons n r : fkey (n :: r) = fold_name n :: fkey r.
Proof. reflexivity. Qed.

Lemma all_exist_step Sc D n r os o :
  all_exist D (n :: r) os -> find_obj (fkey (D ++ [n])) os = Some o ->
  all_exist (opath o) r (upd_obj (fkey (D ++ [n])) (add_scope Sc) os).
Proof.
  intros H E j Hj. apply has_key_upd; [apply add_scope_path|].
  apply find_obj_some in E as [_ Ek]. rewrite Ek, fkey_app. simpl.
  specialize (H (S j)). simpl in H. rewrite <- app_assoc. simpl. apply H. lia.
Qed.

Lemma ensure_spelling S D ns ns' os :
  fkey ns = fkey ns' -> all_exist D ns os -> ensure S D ns os = ensure S D ns' os.
Proof.
  revert D ns' os; induction ns as [|n r IH]; intros D ns' os E H.
  - destruct ns'; [reflexivity | discriminate].
  - destruct ns' as [|n' r']; [discriminate|]. rewrite !fkey_cons in E. inversion E as [[E1 E2]].
    simpl. rewrite !fkey_app. simpl. rewrite <- E1.
    assert (has_key (fkey (D ++ [n])) os) as Hk.
    { specialize (H 1). simpl in H. rewrite fkey_app. apply H. lia. }
    apply find_obj_has_key in Hk. rewrite fkey_app in Hk. simpl in Hk.
    destruct (find_obj (fkey D ++ [fold_name n]) os) as [o|] eqn:Ef; [|congruence].
    apply IH; [exact E2|].
    rewrite <- fkey_app with (b := [n]) in *. eapply all_exist_step; eauto.
Qed.

Theorem case_insensitive_attr p ns ns' k v st :
  run_state p = Ok st -> fkey ns = fkey ns' -> all_exist [] ns (objs st) ->
  run (p ++ [DAttr (0, ns) k v]) = run (p ++ [DAttr (0, ns') k v]).
Proof.
  intros Hp E H. unfold run. rewrite !run_state_snoc, Hp. cbn [exec]. rewrite base_of_top.
  rewrite (ensure_spelling [] [] ns ns' (objs st) E H). reflexivity.
Qed.

Theorem case_insensitive_obj p ns ns' pv body st :
  run_state p = Ok st -> fkey ns = fkey ns' -> all_exist [] ns (objs st) ->
  run (p ++ [DObj (0, ns) pv body]) = run (p ++ [DObj (0, ns') pv body]).
Proof.
  intros Hp E H. unfold run. rewrite !run_state_snoc, Hp. rewrite !exec_DObj. unfold exec_obj.
  destruct ns as [|n r]; destruct ns' as [|n' r']; try discriminate; [reflexivity|].
  rewrite base_of_top. cbv beta iota.
  rewrite (ensure_spelling [] [] (n :: r) (n' :: r') (objs st) E H). reflexivity.
Qed.

(* ---- after ensure every object on the path exists ---- *)

Lemma ensure_all_exist Sc D ns os : all_exist D ns (fst (ensure Sc D ns os)).
Proof.
  revert D os; induction ns as [|n r IH]; intros D os j Hj; simpl in Hj; [lia|].
  simpl.
  assert (forall D' os', fkey D' = fkey (D ++ [n]) -> has_key (fkey D') os' ->
            has_key (fkey D ++ fkey (firstn j (n :: r))) (fst (ensure Sc D' r os'))) as Hgen.
  { intros D' os' Ek Hk. destruct j as [|j]; [lia|]. simpl. destruct j as [|j].
    - simpl. eapply has_key_paths; [apply ensure_paths|]. rewrite Ek, fkey_app in Hk. exact Hk.
    - specialize (IH D' os' (S j)). rewrite Ek, fkey_app in IH. simpl in IH. rewrite <- app_assoc in IH. simpl in IH.
      apply IH. simpl in Hj. lia. }
  destruct (find_obj (fkey (D ++ [n])) os) as [o|] eqn:E.
  - apply find_obj_some in E as [Ho Ek]. apply Hgen; [exact Ek|].
    apply has_key_upd; [apply add_scope_path|]. exists o; auto.
  - apply Hgen; [reflexivity|]. exists (mkObj (D ++ [n]) None [] [Sc]). split; [apply in_or_app; right; left; reflexivity | reflexivity].
Qed.

(* ---- a missing last element is created, in the spelling of the declaration, with nothing on it ---- *)

Lemma ensure_creates_last S D ns os :
  ns <> [] -> all_exist D (removelast ns) os -> ~ has_key (fkey D ++ fkey ns) os ->
  exists os' P, fst (ensure S D ns os) = os' ++ [mkObj (P ++ [last ns []]) None [] [S]]
                /\ map gobj_of os' = map gobj_of os /\ fkey P = fkey D ++ fkey (removelast ns).
Proof.
  revert D os; induction ns as [|n r IH]; intros D os Hne Hall Hno; [contradiction|].
  destruct r as [|n2 r].
  - simpl in *. destruct (find_obj (fkey (D ++ [n])) os) as [o|] eqn:E.
    + exfalso. apply Hno. apply find_obj_some in E as [Ho Ek]. rewrite fkey_app in Ek. exists o; auto.
    + exists os, D. simpl. rewrite app_nil_r. auto.
  - assert (has_key (fkey (D ++ [n])) os) as Hk.
    { specialize (Hall 1). simpl in Hall. rewrite fkey_app. apply Hall. lia. }
    apply find_obj_has_key in Hk.
    destruct (find_obj (fkey (D ++ [n])) os) as [o|] eqn:E; [|congruence].
    change (ensure S D (n :: n2 :: r) os) with
      (match find_obj (fkey (D ++ [n])) os with
       | Some o => ensure S (opath o) (n2 :: r) (upd_obj (fkey (D ++ [n])) (add_scope S) os)
       | None => ensure S (D ++ [n]) (n2 :: r) (os ++ [mkObj (D ++ [n]) None [] [S]]) end).
    rewrite E.
    pose proof (find_obj_some _ _ _ E) as [_ Ek].
    destruct (IH (opath o) (upd_obj (fkey (D ++ [n])) (add_scope S) os)) as [os' [P [E1 [E2 E3]]]].
    + discriminate.
    + change (removelast (n :: n2 :: r)) with (n :: removelast (n2 :: r)) in Hall.
      eapply all_exist_step; eauto.
    + intros [x [Hx Kx]]. apply Hno. unfold upd_obj in Hx. apply in_map_iff in Hx as [y [Ey Hy]].
      exists y. split; [exact Hy|].
      assert (opath x = opath y) as Exy by (destruct (at_key _ y); subst x; reflexivity).
      rewrite <- Exy, Kx, Ek, fkey_app. simpl. rewrite <- app_assoc. reflexivity.
    + exists os', P. split; [exact E1|]. split.
      * rewrite E2. apply upd_obj_add_scope_gobjs.
      * rewrite E3, Ek, fkey_app. change (removelast (n :: n2 :: r)) with (n :: removelast (n2 :: r)).
        simpl. rewrite <- app_assoc. reflexivity.
Qed.

Lemma map_removelast' {A B} (f : A -> B) l : map f (removelast l) = removelast (map f l).
Proof. induction l as [|x l IH]; [reflexivity|]. destruct l; [reflexivity|]. simpl in *. rewrite IH. reflexivity. Qed.

Lemma removelast_length' {A} (l : list A) : length (removelast l) = length l - 1.
Proof. induction l as [|x l IH]; [reflexivity|]. destruct l; [reflexivity|]. simpl in *. lia. Qed.

Lemma delete_keeps_proper_prefixes K os ns :
  K = fkey ns -> all_exist [] ns os ->
  all_exist [] (removelast ns) (filter (fun o => negb (is_prefix K (fkey (opath o)))) os).
Proof.
  intros -> H j Hj. rewrite removelast_length' in Hj.
  rewrite firstn_removelast by lia. destruct (H j) as [o [Ho Ko]]; [lia|]. exists o. split; [|exact Ko].
  apply filter_In. split; [exact Ho|]. apply negb_true_iff.
  destruct (is_prefix (fkey ns) (fkey (opath o))) eqn:P; [|reflexivity].
  apply is_prefix_length in P. rewrite Ko in P. simpl in P. rewrite !fkey_length, firstn_length in P. lia.
Qed.

Lemma fkey_removelast_last ns : ns <> [] -> fkey (removelast ns) ++ fkey [last ns []] = fkey ns.
Proof. intro H. rewrite <- fkey_app, <- app_removelast_last by exact H. reflexivity. Qed.

Theorem redeclare_fresh p ns ns' pv b :
  ns <> [] -> fkey ns = fkey ns' -> pv <> PNull ->
  run (p ++ [DObj (0, ns) PNull None; DObj (0, ns') pv None]) = RBoard b ->
  (exists o, gfind (fkey ns) (gobjs b) = Some o
             /\ glabel o = match pv with PStr v => v | _ => last ns' [] end
             /\ gshape o = rectangle /\ gstyle o = [] /\ last (gpath o) [] = last ns' [])
  /\ (forall o, In o (gobjs b) -> is_prefix (fkey ns) (fkey (gpath o)) = true -> fkey (gpath o) = fkey ns).
Proof.
  intros Hne E Hpv H.
  assert (ns' <> []) as Hne' by (intro X; subst; destruct ns; [contradiction | discriminate]).
  apply run_board in H as [st' [Hs ->]].
  replace (p ++ [DObj (0, ns) PNull None; DObj (0, ns') pv None])
    with ((p ++ [DObj (0, ns) PNull None]) ++ [DObj (0, ns') pv None]) in Hs by (rewrite <- app_assoc; reflexivity).
  rewrite run_state_snoc in Hs. rewrite run_state_snoc in Hs.
  destruct (run_state p) as [st| |] eqn:Hp; try discriminate.
  rewrite exec_obj_top in Hs by exact Hne. cbn zeta in Hs. cbn iota in Hs.
  rewrite exec_obj_top in Hs by exact Hne'. cbn zeta in Hs.
  set (os0 := fst (ensure [] [] ns (objs st))) in *.
  set (os1 := filter (fun o => negb (is_prefix (fkey ns) (fkey (opath o)))) os0) in *.
  assert (objs (delete_obj (fkey ns) (mkState os0 (edges st))) = os1) as Eo by reflexivity.
  rewrite Eo in Hs.
  destruct (ensure_creates_last [] [] ns' os1 Hne') as [os' [P [E1 [E2 E3]]]].
  { assert (removelast ns' = removelast ns' ) by reflexivity.
    assert (all_exist [] (removelast ns) os1) as Ha.
    { apply delete_keeps_proper_prefixes; [reflexivity|]. apply ensure_all_exist. }
    intros j Hj. simpl.
    assert (fkey (firstn j (removelast ns')) = fkey (firstn j (removelast ns))) as Ef.
    { unfold fkey. rewrite <- !firstn_map, !map_removelast'. unfold fkey in E. rewrite E. reflexivity. }
    rewrite Ef. apply (Ha j).
    assert (length (removelast ns') = length (removelast ns)) as El.
    { rewrite <- (map_length fold_name (removelast ns')), <- (map_length fold_name (removelast ns)), !map_removelast'.
      unfold fkey in E. rewrite E. reflexivity. }
    lia. }
  { simpl. rewrite <- E. intros [o [Ho Ko]]. unfold os1 in Ho. apply filter_In in Ho as [_ Hf].
    rewrite Ko, is_prefix_refl in Hf. discriminate. }
  cbn [app fkey map] in E3. fold (fkey (removelast ns')) in E3.
  assert (fkey (P ++ [last ns' []]) = fkey ns) as Kn.
  { rewrite fkey_app, E3, fkey_removelast_last by exact Hne'. symmetry; exact E. }
  assert (forall f, (forall o, opath (f o) = opath o) ->
            exists os'', upd_obj (fkey ns') f (fst (ensure [] [] ns' os1)) = os'' ++ [f (mkObj (P ++ [last ns' []]) None [] [[]])]
                          /\ map gobj_of os'' = map gobj_of os1) as Hupd.
  { intros f Hf. rewrite E1. unfold upd_obj. rewrite map_app. cbn [map].
    eexists. split.
    { match goal with |- context [if at_key ?k ?o then _ else _] =>
        assert (at_key k o = true) as Ak by (apply at_key_true; cbn [opath]; rewrite Kn; exact E); rewrite Ak end.
      reflexivity. }
    rewrite <- E2. rewrite !map_map. apply map_ext_in. intros o Ho.
    destruct (at_key (fkey ns') o) eqn:Ao; [|reflexivity].
    exfalso. apply at_key_true in Ao.
    assert (In (gobj_of o) (map gobj_of os1)) as Hin by (rewrite <- E2; apply in_map; exact Ho).
    apply in_map_iff in Hin as [o1 [Eg Ho1]]. apply gobj_of_path_eq in Eg.
    unfold os1 in Ho1. apply filter_In in Ho1 as [_ Hf1]. rewrite Eg, Ao, <- E, is_prefix_refl in Hf1. discriminate. }
  assert (forall o, In o os1 -> is_prefix (fkey ns) (fkey (opath o)) = false) as Hos1.
  { intros o Ho. unfold os1 in Ho. apply filter_In in Ho as [_ Hf]. apply negb_true_iff in Hf. exact Hf. }
  destruct pv as [| |v]; [|contradiction|].
  - (* PNone *)
    inversion Hs; subst; clear Hs. unfold to_board; cbn [gobjs objs].
    rewrite E1, map_app. simpl. split.
    + exists (gobj_of (mkObj (P ++ [last ns' []]) None [] [[]])). split.
      * unfold gfind. rewrite find_app'.
        destruct (find _ (map gobj_of os')) as [g|] eqn:Ef.
        { exfalso. apply find_some in Ef as [Hg Kg]. rewrite E2 in Hg. apply in_map_iff in Hg as [o1 [<- Ho1]].
          apply path_eqb_eq in Kg. cbn [gpath gobj_of] in Kg. specialize (Hos1 o1 Ho1). rewrite Kg, is_prefix_refl in Hos1. discriminate. }
        simpl. cbn [gpath gobj_of opath]. rewrite Kn, path_eqb_refl. reflexivity.
      * unfold gobj_of. cbn. rewrite last_last. auto.
    + intros o Ho Hp'. apply in_app_or in Ho as [Ho|[<-|[]]].
      * rewrite E2 in Ho. apply in_map_iff in Ho as [o1 [<- Ho1]]. cbn [gpath gobj_of] in Hp'. rewrite (Hos1 o1 Ho1) in Hp'. discriminate.
      * cbn [gpath gobj_of opath set_prim]. exact Kn.
  - (* PStr *)
    destruct (Hupd (set_prim v) (set_prim_path v)) as [os'' [U1 U2]].
    inversion Hs; subst; clear Hs. unfold to_board; cbn [gobjs objs].
    rewrite U1, map_app. simpl. split.
    + exists (gobj_of (set_prim v (mkObj (P ++ [last ns' []]) None [] [[]]))). split.
      * unfold gfind. rewrite find_app'.
        destruct (find _ (map gobj_of os'')) as [g|] eqn:Ef.
        { exfalso. apply find_some in Ef as [Hg Kg]. rewrite U2 in Hg. apply in_map_iff in Hg as [o1 [<- Ho1]].
          apply path_eqb_eq in Kg. cbn [gpath gobj_of] in Kg. specialize (Hos1 o1 Ho1). rewrite Kg, is_prefix_refl in Hos1. discriminate. }
        simpl. cbn [gpath gobj_of opath set_prim]. rewrite Kn, path_eqb_refl. reflexivity.
      * unfold gobj_of, set_prim. cbn. rewrite last_last. auto.
    + intros o Ho Hp'. apply in_app_or in Ho as [Ho|[<-|[]]].
      * rewrite U2 in Ho. apply in_map_iff in Ho as [o1 [<- Ho1]]. cbn [gpath gobj_of] in Hp'. rewrite (Hos1 o1 Ho1) in Hp'. discriminate.
      * cbn [gpath gobj_of opath set_prim]. exact Kn.
Qed.

(* ================================================================ first spelling wins *)

Theorem first_spelling_wins p n pv st b :
  run_state p = Ok st -> find_obj [fold_name n] (objs st) = None -> pv <> PNull ->
  run (p ++ [DObj (0, [n]) pv None]) = RBoard b ->
  exists o, gfind [fold_name n] (gobjs b) = Some o /\ gpath o = [n].
Proof.
  intros Hp Hn Hpv H. apply run_board in H as [st' [Hs ->]].
  rewrite run_state_snoc, Hp, exec_obj_top in Hs by discriminate. cbn zeta in Hs.
  assert (fst (ensure [] [] [n] (objs st)) = objs st ++ [mkObj [n] None [] [[]]]) as Ee.
  { simpl. change (fkey [n]) with [fold_name n]. rewrite Hn. reflexivity. }
  rewrite Ee in Hs.
  assert (forall f, (forall o, opath (f o) = opath o) ->
            gfind [fold_name n] (map gobj_of (upd_obj [fold_name n] f (objs st ++ [mkObj [n] None [] [[]]])))
            = Some (gobj_of (f (mkObj [n] None [] [[]])))) as Hf.
  { intros f Hfp. rewrite gfind_map, find_after_upd by exact Hfp.
    unfold find_obj. rewrite find_app'. fold (find_obj [fold_name n] (objs st)). rewrite Hn.
    simpl. unfold at_key. simpl. rewrite path_eqb_refl. reflexivity. }
  destruct pv as [| |v]; [|contradiction|]; inversion Hs; subst; clear Hs; unfold to_board; cbn [gobjs objs].
  - exists (gobj_of (mkObj [n] None [] [[]])). split; [|reflexivity].
    rewrite gfind_map. unfold find_obj. rewrite find_app'. fold (find_obj [fold_name n] (objs st)). rewrite Hn.
    simpl. unfold at_key. simpl. rewrite path_eqb_refl. reflexivity.
  - exists (gobj_of (set_prim v (mkObj [n] None [] [[]]))). split; [|reflexivity].
    change (fkey [n]) with [fold_name n]. apply Hf. apply set_prim_path.
Qed.

(* ================================================================ refutations (witnesses replayed on d2) *)

Definition n_a : name := [97]%N.  Definition n_b : name := [98]%N.
Definition n_x : name := [120]%N. Definition n_y : name := [121]%N.
Definition s_red : str := [114;101;100]%N. Definition s_lbl : str := [108;98;108]%N.

(* a.label: y ;; a: x   — the label stays y *)
Lemma primary_shadowed_refuted :
  exists p ns v b o,
    run (p ++ [DObj (0, ns) (PStr v) None]) = RBoard b /\ gfind (fkey ns) (gobjs b) = Some o /\ glabel o <> v.
Proof.
  exists [DAttr (0, [n_a]) KLabel (Some n_y)], [n_a], n_x. eexists. eexists.
  split; [vm_compute; reflexivity|]. split; [vm_compute; reflexivity|]. vm_compute. discriminate.
Qed.

(* a: { _.x } ;; a: null   — a comes back as an object without any reference *)
Lemma null_object_ghost_refuted :
  exists p ns b o,
    run (p ++ [DObj (0, ns) PNull None]) = RBoard b /\ In o (gghosts b) /\ is_prefix (fkey ns) (fkey (gpath o)) = true.
Proof.
  exists [DObj (0, [n_a]) PNone (Some [DObj (1, [n_x]) PNone None])], [n_a]. eexists. eexists.
  split; [vm_compute; reflexivity|]. split; [left; reflexivity | vm_compute; reflexivity].
Qed.

(* a: { b -> _.x } ;; a: null   — the connection a.b -> x survives *)
Lemma null_object_edge_refuted :
  exists p ns b e,
    run (p ++ [DObj (0, ns) PNull None]) = RBoard b /\ In e (gedges b) /\ is_prefix (fkey ns) (fkey (gsrc e)) = true.
Proof.
  exists [DObj (0, [n_a]) PNone (Some [DEdge (0, [n_b]) (1, [n_x]) false true None PNone None])], [n_a]. eexists. eexists.
  split; [vm_compute; reflexivity|]. split; [left; reflexivity | vm_compute; reflexivity].
Qed.

(* x -> y ;; (x -> y)[0].style.stroke: red ;; (x -> y)[0].style.stroke: null   — the connection is gone *)
Lemma null_edge_attr_refuted :
  exists p s t i k b b',
    run p = RBoard b /\ length (gedges b) = 1 /\
    run (p ++ [DEdgeAttr (0, s) (0, t) false true i k None]) = RBoard b' /\ gedges b' = [].
Proof.
  exists [DEdge (0, [n_x]) (0, [n_y]) false true None PNone None; DEdgeAttr (0, [n_x]) (0, [n_y]) false true 0 KStroke (Some s_red)],
         [n_x], [n_y], 0, KStroke. eexists. eexists.
  split; [vm_compute; reflexivity|]. split; [reflexivity|]. split; [vm_compute; reflexivity | reflexivity].
Qed.
