(* C10 — Later declarations override earlier ones; null removes.  Statements only.
   Model: V.C10.Core ([run] = reference interpreter of the core fragment, tied to d2ir + d2compiler by the
   correspondence check).  [p ++ [d]] = "the program p followed by the declaration d"; all theorems hold
   for every program p of the fragment (any length, any nesting), by induction over the declarations.
   (0, ns) is the top-level reference ns = a.b.c without underscores; [fkey] folds letter case
   (strings.EqualFold); [gfind K objs] looks an object up by its case-folded absolute path. *)
From Coq Require Import List NArith Bool Arith Lia.
Import ListNotations.
Require Import V.C10.Core V.C10.CoreLemmas V.C10.Proofs V.C10.Ghosts.

(* -- last assignment wins: after [ns.k: v] the attribute k of ns is v (shape values are lower-cased) -- *)
Theorem C10_last_write_wins : forall p ns k v b,
  ns <> [] ->
  run (p ++ [DAttr (0, ns) k (Some v)]) = RBoard b ->
  exists o, gfind (fkey ns) (gobjs b) = Some o /\ gattr o k = Some (norm k v).
Proof. exact last_write_wins. Qed.

(* the primary value [ns: v] is the label unless a label keyword is in force on that object *)
Theorem C10_last_write_wins_primary : forall p ns v st b,
  ns <> [] ->
  run_state p = Ok st -> label_kw_at st (fkey ns) = None ->
  run (p ++ [DObj (0, ns) (PStr v) None]) = RBoard b ->
  exists o, gfind (fkey ns) (gobjs b) = Some o /\ glabel o = v.
Proof. exact last_write_wins_primary. Qed.

(* full statement refuted: [a.label: y ;; a: x] keeps the label y (finding C10-label-keyword-shadows-primary) *)
Theorem C10_last_write_wins_primary_refuted :
  exists p ns v b o,
    run (p ++ [DObj (0, ns) (PStr v) None]) = RBoard b /\ gfind (fkey ns) (gobjs b) = Some o /\ glabel o <> v.
Proof. exact primary_shadowed_refuted. Qed.

(* -- frame: an attribute assignment (or reset) changes nothing else: same connections, every other object
      identical, the object itself keeps path and all other attributes -- *)
Theorem C10_frame : forall p ns k v b b',
  ns <> [] ->
  run p = RBoard b ->
  run (p ++ [DAttr (0, ns) k v]) = RBoard b' ->
  gedges b' = gedges b /\
  forall o, In o (gobjs b) ->
    if path_eqb (fkey (gpath o)) (fkey ns)
    then exists o', In o' (gobjs b') /\ gpath o' = gpath o /\ forall k', k' <> k -> gattr o' k' = gattr o k'
    else In o (gobjs b').
Proof. exact frame_attr. Qed.

(* -- names are compared case-insensitively: a board never has two objects whose paths differ only in
      letter case ... -- *)
Theorem C10_case_insensitive_merge : forall p b,
  run p = RBoard b -> NoDup (map (fun o => fkey (gpath o)) (gobjs b)).
Proof. exact merge_unique. Qed.

(* ... a declaration addressing an existing object in another spelling is the same declaration ... *)
Theorem C10_case_insensitive_attr : forall p ns ns' k v st,
  run_state p = Ok st -> fkey ns = fkey ns' -> all_exist [] ns (objs st) ->
  run (p ++ [DAttr (0, ns) k v]) = run (p ++ [DAttr (0, ns') k v]).
Proof. exact case_insensitive_attr. Qed.

Theorem C10_case_insensitive_obj : forall p ns ns' pv body st,
  run_state p = Ok st -> fkey ns = fkey ns' -> all_exist [] ns (objs st) ->
  run (p ++ [DObj (0, ns) pv body]) = run (p ++ [DObj (0, ns') pv body]).
Proof. exact case_insensitive_obj. Qed.

(* ... and the spelling that created the object is the one displayed *)
Theorem C10_first_spelling_wins : forall p n pv st b,
  run_state p = Ok st -> find_obj [fold_name n] (objs st) = None -> pv <> PNull ->
  run (p ++ [DObj (0, [n]) pv None]) = RBoard b ->
  exists o, gfind [fold_name n] (gobjs b) = Some o /\ gpath o = [n].
Proof. exact first_spelling_wins. Qed.

(* -- null removes the object: neither it nor any descendant is among the declared objects ... -- *)
Theorem C10_null_removes_object : forall p ns body b,
  ns <> [] ->
  run (p ++ [DObj (0, ns) PNull body]) = RBoard b ->
  forall o, In o (gobjs b) -> is_prefix (fkey ns) (fkey (gpath o)) = false.
Proof. exact null_removes_object_regular. Qed.

(* ... and no connection has it on a path, provided no declaration reached an endpoint through "_"
   from inside a container on the path ([tight_e]); holds for every underscore-free program without
   connection nulls: C10_plain_programs_are_tight *)
Theorem C10_null_removes_attached_edges : forall p ns body st b,
  ns <> [] ->
  run_state p = Ok st -> Forall tight_e (edges st) ->
  run (p ++ [DObj (0, ns) PNull body]) = RBoard b ->
  forall e, In e (gedges b) ->
    is_prefix (fkey ns) (fkey (gsrc e)) = false /\ is_prefix (fkey ns) (fkey (gdst e)) = false.
Proof. exact null_removes_object_edges. Qed.

Theorem C10_plain_programs_are_tight : forall p st,
  plain p = true -> run_state p = Ok st -> Forall tight_e (edges st) /\ consistent (edges st).
Proof. exact plain_inv2. Qed.

(* full strength for every program without "_": after [ns: null] neither a declared nor a re-created
   object lies under ns and no connection has ns on a path ... *)
Theorem C10_null_removes_object_full : forall p ns body b,
  ns <> [] -> no_ups (p ++ [DObj (0, ns) PNull body]) = true ->
  run (p ++ [DObj (0, ns) PNull body]) = RBoard b ->
  (forall o, In o (gobjs b ++ gghosts b) -> is_prefix (fkey ns) (fkey (gpath o)) = false) /\
  (forall e, In e (gedges b) ->
     is_prefix (fkey ns) (fkey (gsrc e)) = false /\ is_prefix (fkey ns) (fkey (gdst e)) = false).
Proof. exact null_removes_object_full. Qed.

(* ... because such programs never make d2compiler re-create an object, and all their connections are tight *)
Theorem C10_no_underscore_no_resurrection : forall p b,
  no_ups p = true -> run p = RBoard b -> gghosts b = [].
Proof. exact no_ups_no_ghosts. Qed.

Theorem C10_no_underscore_tight : forall p st,
  no_ups p = true -> run_state p = Ok st -> Forall tight_e (edges st).
Proof. exact no_ups_tight. Qed.

(* with "_" the full statement is refuted twice (finding C10-null-container-resurrected):
   [a: { _.x } ;; a: null] — d2compiler re-creates a (an object without references);
   [a: { b -> _.x } ;; a: null] — the connection a.b -> x survives and re-creates a and a.b *)
Theorem C10_null_removes_object_ghost_refuted :
  exists p ns b o,
    run (p ++ [DObj (0, ns) PNull None]) = RBoard b /\ In o (gghosts b) /\ is_prefix (fkey ns) (fkey (gpath o)) = true.
Proof. exact null_object_ghost_refuted. Qed.

Theorem C10_null_removes_attached_edges_refuted :
  exists p ns b e,
    run (p ++ [DObj (0, ns) PNull None]) = RBoard b /\ In e (gedges b) /\ is_prefix (fkey ns) (fkey (gsrc e)) = true.
Proof. exact null_object_edge_refuted. Qed.

(* -- null removes the connection (s -> t)[i]: objects and all other classes of connections untouched; if a
      connection of that class with IR index i exists the class shrinks by one, else nothing changes.
      ([hit_graph]: when the IR indices are consistent the IR index is the index shown on the board.) -- *)
Theorem C10_null_removes_edge : forall p s t sa da i eb st b b',
  s <> [] -> t <> [] -> run_state p = Ok st -> run p = RBoard b ->
  run (p ++ [DEdge (0, s) (0, t) sa da (Some i) PNull eb]) = RBoard b' ->
  let cls := gclass_eqb (fkey s) (fkey t) sa da in
  let hit := ref_hit (fkey s) (fkey t) sa da i in
  gobjs b' = gobjs b /\
  filter (fun g => negb (cls g)) (gedges b') = filter (fun g => negb (cls g)) (gedges b) /\
  (existsb hit (edges st) = true -> S (length (filter cls (gedges b'))) = length (filter cls (gedges b))) /\
  (existsb hit (edges st) = false -> gedges b' = gedges b).
Proof. exact null_removes_edge. Qed.

Theorem C10_ir_index_is_board_index_when_consistent : forall ks kd sa da i es,
  consistent es ->
  existsb (ref_hit ks kd sa da i) es
  = existsb (fun g => gclass_eqb ks kd sa da g && Nat.eqb (gidx g) i) (number [] es).
Proof. exact hit_graph. Qed.

(* -- null resets an attribute of an object: style keywords disappear, the shape is the default again,
      the label falls back to the primary value or the name -- *)
Theorem C10_null_removes_attr : forall p ns k b,
  ns <> [] ->
  run (p ++ [DAttr (0, ns) k None]) = RBoard b ->
  exists o, gfind (fkey ns) (gobjs b) = Some o /\
    match k with
    | KLabel => True
    | KShape => gshape o = rectangle
    | _ => aget k (gstyle o) = None
    end.
Proof. exact null_removes_attr. Qed.

Theorem C10_null_label_falls_back : forall p ns b,
  ns <> [] ->
  run (p ++ [DAttr (0, ns) KLabel None]) = RBoard b ->
  exists st o0 o, run_state (p ++ [DAttr (0, ns) KLabel None]) = Ok st /\
    find_obj (fkey ns) (objs st) = Some o0 /\ gfind (fkey ns) (gobjs b) = Some o /\
    glabel o = match oprim o0 with Some v => v | None => last (gpath o) [] end.
Proof. exact null_label_falls_back. Qed.

(* on a connection the same declaration deletes the whole connection (finding C10-edge-attribute-null-deletes-edge) *)
Theorem C10_null_removes_edge_attr_refuted :
  exists p s t i k b b',
    run p = RBoard b /\ length (gedges b) = 1 /\
    run (p ++ [DEdgeAttr (0, s) (0, t) false true i k None]) = RBoard b' /\ gedges b' = [].
Proof. exact null_edge_attr_refuted. Qed.

(* -- a declaration after null creates the object afresh: spelled as now declared, default shape, no style,
      label = the new primary or the new name, and nothing below it -- *)
Theorem C10_redeclare_fresh : forall p ns ns' pv b,
  ns <> [] -> fkey ns = fkey ns' -> pv <> PNull ->
  run (p ++ [DObj (0, ns) PNull None; DObj (0, ns') pv None]) = RBoard b ->
  (exists o, gfind (fkey ns) (gobjs b) = Some o
             /\ glabel o = match pv with PStr v => v | _ => last ns' [] end
             /\ gshape o = rectangle /\ gstyle o = [] /\ last (gpath o) [] = last ns' [])
  /\ (forall o, In o (gobjs b) -> is_prefix (fkey ns) (fkey (gpath o)) = true -> fkey (gpath o) = fkey ns).
Proof. exact redeclare_fresh. Qed.

(* non-vacuity of the hypotheses *)
Example C10_hypotheses_satisfiable :
  let p := [DObj (0, [n_a; n_b]) (PStr s_lbl) None; DEdge (0, [n_a; n_b]) (0, [n_x]) false true None PNone None] in
  plain p = true /\ no_ups p = true /\
  (exists st, run_state p = Ok st /\ label_kw_at st (fkey [n_a; n_b]) = None /\ all_exist [] [n_a; n_b] (objs st)
              /\ find_obj [fold_name n_y] (objs st) = None /\ Forall tight_e (edges st) /\ consistent (edges st)).
Proof.
  split; [reflexivity|]. split; [reflexivity|]. eexists. split; [vm_compute; reflexivity|].
  split; [reflexivity|]. split.
  - intros j Hj. simpl in Hj. destruct j as [|[|[|j]]]; try lia.
    + eexists. split; [left; reflexivity | reflexivity].
    + eexists. split; [right; left; reflexivity | reflexivity].
  - split; [reflexivity|]. split.
    + repeat constructor; vm_compute; auto.
    + vm_compute. auto.
Qed.

Print Assumptions C10_last_write_wins.
Print Assumptions C10_last_write_wins_primary.
Print Assumptions C10_last_write_wins_primary_refuted.
Print Assumptions C10_frame.
Print Assumptions C10_case_insensitive_merge.
Print Assumptions C10_case_insensitive_attr.
Print Assumptions C10_case_insensitive_obj.
Print Assumptions C10_first_spelling_wins.
Print Assumptions C10_null_removes_object.
Print Assumptions C10_null_removes_attached_edges.
Print Assumptions C10_plain_programs_are_tight.
Print Assumptions C10_null_removes_object_full.
Print Assumptions C10_no_underscore_no_resurrection.
Print Assumptions C10_no_underscore_tight.
Print Assumptions C10_null_removes_object_ghost_refuted.
Print Assumptions C10_null_removes_attached_edges_refuted.
Print Assumptions C10_null_removes_edge.
Print Assumptions C10_ir_index_is_board_index_when_consistent.
Print Assumptions C10_null_removes_attr.
Print Assumptions C10_null_label_falls_back.
Print Assumptions C10_null_removes_edge_attr_refuted.
Print Assumptions C10_redeclare_fresh.
