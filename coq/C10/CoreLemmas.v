(* Basic lemmas about the core model (V.C10.Core): boolean equalities, prefixes, attribute maps,
   [ensure], unfolding of [exec], induction over nested declarations, numbering of connections. *)
From Coq Require Import List NArith Bool Arith Lia.
Import ListNotations.
Require Import V.Lib.RunCases V.C10.Core.

(* ---- boolean equalities ---- *)

Lemma str_eqb_eq a b : str_eqb a b = true <-> a = b.
Proof. apply list_eqb_eq. intros; apply N.eqb_eq. Qed.

Lemma path_eqb_eq a b : path_eqb a b = true <-> a = b.
Proof. apply list_eqb_eq. intros; apply str_eqb_eq. Qed.

Lemma path_eqb_refl a : path_eqb a a = true.
Proof. apply path_eqb_eq; reflexivity. Qed.

Lemma path_eqb_neq a b : path_eqb a b = false <-> a <> b.
Proof.
  split; intro H.
  - intro E. apply path_eqb_eq in E. congruence.
  - destruct (path_eqb a b) eqn:E; [apply path_eqb_eq in E; contradiction | reflexivity].
Qed.

Lemma kw_eqb_eq a b : kw_eqb a b = true <-> a = b.
Proof.
  unfold kw_eqb. rewrite N.eqb_eq. split; [| intros ->; reflexivity].
  destruct a, b; simpl; intro H; try reflexivity; discriminate.
Qed.

Lemma kw_eqb_refl k : kw_eqb k k = true.
Proof. apply kw_eqb_eq; reflexivity. Qed.

Lemma kw_eqb_neq a b : kw_eqb a b = false <-> a <> b.
Proof.
  split; intro H.
  - intro E. apply kw_eqb_eq in E. congruence.
  - destruct (kw_eqb a b) eqn:E; [apply kw_eqb_eq in E; contradiction | reflexivity].
Qed.

Lemma kw_eqb_sym a b : kw_eqb a b = kw_eqb b a.
Proof. unfold kw_eqb. apply N.eqb_sym. Qed.

(* ---- fkey / prefixes ---- *)

Lemma fkey_app a b : fkey (a ++ b) = fkey a ++ fkey b.
Proof. unfold fkey. apply map_app. Qed.

Lemma fkey_length a : length (fkey a) = length a.
Proof. unfold fkey. apply map_length. Qed.

Lemma is_prefix_refl k : is_prefix k k = true.
Proof. induction k; simpl; [reflexivity|]. rewrite IHk. replace (str_eqb a a) with true; [reflexivity|]. symmetry; apply str_eqb_eq; reflexivity. Qed.

Lemma is_prefix_spec k p : is_prefix k p = true <-> exists r, p = k ++ r.
Proof.
  revert p; induction k as [|x k IH]; intros p; simpl.
  - split; [intros _; exists p; reflexivity | reflexivity].
  - destruct p as [|y p].
    + split; [discriminate | intros [r E]; discriminate].
    + rewrite andb_true_iff, str_eqb_eq, IH. split.
      * intros [-> [r ->]]. exists r; reflexivity.
      * intros [r E]. inversion E; subst. split; [reflexivity | exists r; reflexivity].
Qed.

Lemma is_prefix_app k r : is_prefix k (k ++ r) = true.
Proof. apply is_prefix_spec. exists r; reflexivity. Qed.

Lemma is_prefix_trans a b c : is_prefix a b = true -> is_prefix b c = true -> is_prefix a c = true.
Proof.
  rewrite !is_prefix_spec. intros [r ->] [s ->]. exists (r ++ s). rewrite app_assoc. reflexivity.
Qed.

Lemma is_prefix_length k p : is_prefix k p = true -> length k <= length p.
Proof. rewrite is_prefix_spec. intros [r ->]. rewrite app_length. lia. Qed.

(* two prefixes of the same path are comparable *)
Lemma is_prefix_comparable a b p :
  is_prefix a p = true -> is_prefix b p = true -> length a <= length b -> is_prefix a b = true.
Proof.
  revert b p; induction a as [|x a IH]; intros b p Ha Hb L; simpl; [reflexivity|].
  destruct b as [|y b]; [simpl in L; lia|].
  destruct p as [|z p]; [discriminate|].
  simpl in Ha, Hb. apply andb_true_iff in Ha as [Ha1 Ha2]. apply andb_true_iff in Hb as [Hb1 Hb2].
  apply str_eqb_eq in Ha1, Hb1. subst.
  replace (str_eqb z z) with true by (symmetry; apply str_eqb_eq; reflexivity). simpl.
  eapply IH; eauto. simpl in L. lia.
Qed.

Lemma lcpne_prefix_l a b : is_prefix (lcpne a b) a = true.
Proof.
  revert b; induction a as [|x a IH]; intros b; simpl; [reflexivity|].
  destruct b as [|y b]; [reflexivity|].
  destruct a as [|x' a]; [reflexivity|]. destruct b as [|y' b]; [reflexivity|].
  destruct (str_eqb x y) eqn:E; [|reflexivity].
  simpl. replace (str_eqb x x) with true by (symmetry; apply str_eqb_eq; reflexivity). simpl.
  apply (IH (y' :: b)).
Qed.

Lemma lcpne_prefix_r a b : is_prefix (lcpne a b) b = true.
Proof.
  revert b; induction a as [|x a IH]; intros b; simpl; [reflexivity|].
  destruct b as [|y b]; [reflexivity|].
  destruct a as [|x' a]; [reflexivity|]. destruct b as [|y' b]; [reflexivity|].
  destruct (str_eqb x y) eqn:E; [|reflexivity].
  simpl. rewrite E. simpl. apply (IH (y' :: b)).
Qed.

(* the container of a connection whose endpoints are both strictly below A is at or below A *)
Lemma lcpne_common A x y : x <> [] -> y <> [] -> is_prefix A (lcpne (A ++ x) (A ++ y)) = true.
Proof.
  intros Hx Hy. induction A as [|a A IH]; simpl; [reflexivity|].
  destruct (A ++ x) as [|x1 t1] eqn:E1.
  { apply app_eq_nil in E1 as [_ ?]; contradiction. }
  destruct (A ++ y) as [|y1 t2] eqn:E2.
  { apply app_eq_nil in E2 as [_ ?]; contradiction. }
  replace (str_eqb a a) with true by (symmetry; apply str_eqb_eq; reflexivity).
  simpl. replace (str_eqb a a) with true by (symmetry; apply str_eqb_eq; reflexivity). simpl.
  exact IH.
Qed.

(* ---- attribute maps ---- *)

Lemma aget_aremove_same k a : aget k (aremove k a) = None.
Proof.
  unfold aget, aremove. induction a as [|[k' v] a IH]; simpl; [reflexivity|].
  destruct (kw_eqb k' k) eqn:E; simpl; [exact IH|]. rewrite E. exact IH.
Qed.

Lemma aget_aremove_other k k' a : k' <> k -> aget k' (aremove k a) = aget k' a.
Proof.
  intro N. unfold aget, aremove. induction a as [|[k1 v] a IH]; simpl; [reflexivity|].
  destruct (kw_eqb k1 k) eqn:E; simpl.
  - apply kw_eqb_eq in E; subst. replace (kw_eqb k k') with false; [exact IH|].
    symmetry; apply kw_eqb_neq; congruence.
  - destruct (kw_eqb k1 k'); [reflexivity | exact IH].
Qed.

Lemma aget_aset_same k v a : aget k (aset k v a) = Some v.
Proof. unfold aget, aset. simpl. rewrite kw_eqb_refl. reflexivity. Qed.

Lemma aget_aset_other k k' v a : k' <> k -> aget k' (aset k v a) = aget k' a.
Proof.
  intro N. unfold aset. unfold aget at 1. simpl.
  replace (kw_eqb k k') with false by (symmetry; apply kw_eqb_neq; congruence).
  apply aget_aremove_other; exact N.
Qed.

Lemma aget_aupd_same k v a : aget k (aupd k v a) = match v with Some s => Some (norm k s) | None => None end.
Proof. destruct v; simpl; [apply aget_aset_same | apply aget_aremove_same]. Qed.

Lemma aget_aupd_other k k' v a : k' <> k -> aget k' (aupd k v a) = aget k' a.
Proof. intro N. destruct v; simpl; [apply aget_aset_other | apply aget_aremove_other]; exact N. Qed.

Lemma aget_style_of k a : In k style_kws -> aget k (style_of a) = aget k a.
Proof.
  unfold style_of, style_kws. intro H.
  simpl in H. simpl.
  repeat match goal with H : _ \/ _ |- _ => destruct H as [H|H] end; try contradiction; subst;
    destruct (aget KFill a), (aget KStroke a), (aget KOpacity a), (aget KStrokeWidth a), (aget KFontColor a);
    reflexivity.
Qed.

Lemma flat_map_ext_in' {A B} (f g : A -> list B) l : (forall x, In x l -> f x = g x) -> flat_map f l = flat_map g l.
Proof.
  induction l as [|x l IH]; simpl; intro H; [reflexivity|].
  rewrite H by (left; reflexivity). rewrite IH; [reflexivity|]. intros; apply H; right; assumption.
Qed.

Lemma style_of_ext a b : (forall k, In k style_kws -> aget k a = aget k b) -> style_of a = style_of b.
Proof. intro H. unfold style_of. apply flat_map_ext_in'. intros k Hk. rewrite (H k Hk). reflexivity. Qed.

(* ---- objects: find / update ---- *)

Lemma at_key_true K o : at_key K o = true <-> fkey (opath o) = K.
Proof. unfold at_key. apply path_eqb_eq. Qed.

Lemma find_obj_some K os o : find_obj K os = Some o -> In o os /\ fkey (opath o) = K.
Proof. unfold find_obj. intro H. apply find_some in H as [H1 H2]. split; [assumption | apply at_key_true; assumption]. Qed.

Lemma find_obj_none K os : find_obj K os = None -> forall o, In o os -> fkey (opath o) <> K.
Proof.
  unfold find_obj. intros H o Ho E. pose proof (find_none _ _ H o Ho) as N.
  apply at_key_true in E. congruence.
Qed.

Lemma find_upd_obj K K' f os :
  (forall o, opath (f o) = opath o) ->
  find_obj K' (upd_obj K f os) = if path_eqb K K' then option_map f (find_obj K' os) else find_obj K' os.
Proof.
  intro Hf. unfold find_obj, upd_obj. induction os as [|o os IH]; simpl.
  - destruct (path_eqb K K'); reflexivity.
  - destruct (at_key K o) eqn:E1.
    + unfold at_key at 1. rewrite Hf. fold (at_key K' o).
      apply at_key_true in E1.
      destruct (at_key K' o) eqn:E2.
      * apply at_key_true in E2. rewrite <- E1, <- E2, path_eqb_refl. reflexivity.
      * rewrite IH. reflexivity.
    + destruct (at_key K' o) eqn:E2.
      * destruct (path_eqb K K') eqn:E3; [|reflexivity].
        apply path_eqb_eq in E3; subst. congruence.
      * exact IH.
Qed.

Lemma upd_obj_keys K f os :
  (forall o, opath (f o) = opath o) -> map opath (upd_obj K f os) = map opath os.
Proof.
  intro Hf. unfold upd_obj. rewrite map_map. apply map_ext. intro o. destruct (at_key K o); [apply Hf | reflexivity].
Qed.

Lemma add_scope_path S o : opath (add_scope S o) = opath o. Proof. reflexivity. Qed.
Lemma set_prim_path v o : opath (set_prim v o) = opath o. Proof. reflexivity. Qed.
Lemma set_attr_path k v o : opath (set_attr k v o) = opath o. Proof. reflexivity. Qed.

Lemma gobj_of_add_scope S o : gobj_of (add_scope S o) = gobj_of o. Proof. reflexivity. Qed.

Lemma upd_obj_add_scope_gobjs K S os : map gobj_of (upd_obj K (add_scope S) os) = map gobj_of os.
Proof. unfold upd_obj. rewrite map_map. apply map_ext. intro o. destruct (at_key K o); reflexivity. Qed.

(* ---- ensure ---- *)

Lemma ensure_key S D ns os : fkey (snd (ensure S D ns os)) = fkey D ++ fkey ns.
Proof.
  revert D os; induction ns as [|n ns IH]; intros D os; simpl.
  - rewrite app_nil_r. reflexivity.
  - destruct (find_obj (fkey (D ++ [n])) os) as [o|] eqn:E.
    + rewrite IH. apply find_obj_some in E as [_ E]. rewrite E, fkey_app. simpl. rewrite <- app_assoc. reflexivity.
    + rewrite IH. rewrite fkey_app. simpl. rewrite <- app_assoc. reflexivity.
Qed.

(* ensure only appends objects; existing ones keep path, primary and attributes *)
Lemma ensure_gobjs S D ns os : exists extra, map gobj_of (fst (ensure S D ns os)) = map gobj_of os ++ extra.
Proof.
  revert D os; induction ns as [|n ns IH]; intros D os; simpl.
  - exists []. rewrite app_nil_r. reflexivity.
  - destruct (find_obj (fkey (D ++ [n])) os) as [o|] eqn:E.
    + destruct (IH (opath o) (upd_obj (fkey (D ++ [n])) (add_scope S) os)) as [ex Hex].
      exists ex. rewrite Hex, upd_obj_add_scope_gobjs. reflexivity.
    + destruct (IH (D ++ [n]) (os ++ [mkObj (D ++ [n]) None [] [S]])) as [ex Hex].
      eexists. rewrite Hex, map_app, <- app_assoc. reflexivity.
Qed.

Lemma ensure_paths S D ns os : exists extra, map opath (fst (ensure S D ns os)) = map opath os ++ extra.
Proof.
  revert D os; induction ns as [|n ns IH]; intros D os; simpl.
  - exists []. rewrite app_nil_r. reflexivity.
  - destruct (find_obj (fkey (D ++ [n])) os) as [o|] eqn:E.
    + destruct (IH (opath o) (upd_obj (fkey (D ++ [n])) (add_scope S) os)) as [ex Hex].
      exists ex. rewrite Hex, upd_obj_keys by apply add_scope_path. reflexivity.
    + destruct (IH (D ++ [n]) (os ++ [mkObj (D ++ [n]) None [] [S]])) as [ex Hex].
      eexists. rewrite Hex, map_app, <- app_assoc. reflexivity.
Qed.

Definition has_key (K : path) (os : list obj) : Prop := exists o, In o os /\ fkey (opath o) = K.

Lemma has_key_paths K os os' : (exists ex, map opath os' = map opath os ++ ex) -> has_key K os -> has_key K os'.
Proof.
  intros [ex E] [o [Ho Hk]].
  assert (In (opath o) (map opath os')) as Hin by (rewrite E; apply in_or_app; left; apply in_map; assumption).
  apply in_map_iff in Hin as [o' [E' Ho']]. exists o'. split; [assumption | congruence].
Qed.

Lemma find_obj_has_key K os : find_obj K os <> None <-> has_key K os.
Proof.
  split.
  - destruct (find_obj K os) as [o|] eqn:E; [|congruence]. intros _. apply find_obj_some in E. exists o; exact E.
  - intros [o [Ho Hk]] N. eapply find_obj_none in N; eauto.
Qed.

(* after ensure, the target exists (if the walk was non-empty, or the start existed) *)
Lemma ensure_target S D ns os :
  ns <> [] -> has_key (fkey (snd (ensure S D ns os))) (fst (ensure S D ns os)).
Proof.
  revert D os; induction ns as [|n ns IH]; intros D os Hne; [contradiction|]. simpl.
  destruct (find_obj (fkey (D ++ [n])) os) as [o|] eqn:E.
  - destruct ns as [|n2 ns].
    + simpl. apply find_obj_some in E as [Ho Hk]. apply in_split in Ho as [l1 [l2 ->]].
      exists (add_scope S o). split.
      * unfold upd_obj. rewrite map_app. simpl. unfold at_key at 2. rewrite Hk, path_eqb_refl. apply in_or_app; right; left; reflexivity.
      * reflexivity.
    + apply IH. discriminate.
  - destruct ns as [|n2 ns].
    + simpl. exists (mkObj (D ++ [n]) None [] [S]). split; [apply in_or_app; right; left; reflexivity | reflexivity].
    + apply IH. discriminate.
Qed.

(* ---- exec: unfolding and lists ---- *)

Lemma exec_body_eq Os S D ds st :
  (fix go (ds : list decl) (st : state) : res state :=
     match ds with
     | [] => Ok st
     | d :: ds' => match exec (S :: Os) D d st with Ok st' => go ds' st' | r => r end
     end) ds st = exec_list (S :: Os) D ds st.
Proof. revert st; induction ds as [|d ds IH]; intro st; simpl; [reflexivity|]. destruct (exec (S :: Os) D d st); auto. Qed.

Definition exec_obj (Os : list path) (S : path) (ups : nat) (ns : list name) (p : prim) (body : option (list decl)) (st : state) : res state :=
  match ns with
  | [] => if Nat.eqb ups 0 then Unsup else Err E_UNDERSCORE
  | _ =>
      match base_of S ups with
      | None => Err E_UNDERSCORE
      | Some B =>
          let '(os1, D) := ensure S B ns (objs st) in
          let st1 := mkState os1 (edges st) in
          match p with
          | PNull => if existsb (fun X => is_prefix (fkey D) (fkey X)) (S :: Os) then Unsup else Ok (delete_obj (fkey D) st1)
          | _ =>
              let st2 := match p with
                         | PStr v => mkState (upd_obj (fkey D) (set_prim v) os1) (edges st)
                         | _ => st1 end in
              match body with
              | None => Ok st2
              | Some ds => exec_list (S :: Os) D ds st2
              end
          end
      end
  end.

Lemma exec_DObj Os S ups ns p body st : exec Os S (DObj (ups, ns) p body) st = exec_obj Os S ups ns p body st.
Proof.
  unfold exec_obj. simpl. destruct ns; [reflexivity|].
  destruct (base_of S ups); [|reflexivity].
  destruct (ensure S p0 (n :: ns) (objs st)) as [os1 D].
  destruct p; try reflexivity; destruct body; try reflexivity; apply exec_body_eq.
Qed.

Lemma exec_list_app Os S a b st :
  exec_list Os S (a ++ b) st = match exec_list Os S a st with Ok st' => exec_list Os S b st' | r => r end.
Proof.
  revert st; induction a as [|d a IH]; intro st; simpl; [reflexivity|].
  destruct (exec Os S d st); [apply IH | reflexivity | reflexivity].
Qed.

Lemma run_state_snoc p d :
  run_state (p ++ [d]) = match run_state p with Ok st => exec [] [] d st | Err c => Err c | Unsup => Unsup end.
Proof.
  unfold run_state. rewrite exec_list_app. destruct (exec_list [] [] p init); simpl; try reflexivity.
  destruct (exec [] [] d a); reflexivity.
Qed.

Lemma run_board p b : run p = RBoard b <-> exists st, run_state p = Ok st /\ b = to_board st.
Proof.
  unfold run. destruct (run_state p); split.
  - intro H; inversion H; eauto.
  - intros [st [H ->]]; inversion H; reflexivity.
  - discriminate.
  - intros [st [H _]]; discriminate.
  - discriminate.
  - intros [st [H _]]; discriminate.
Qed.

(* ---- induction over nested declarations ---- *)

Definition body_all (P : decl -> Prop) (body : option (list decl)) : Prop :=
  match body with Some ds => Forall P ds | None => True end.

Section DeclInd.
  Variable P : decl -> Prop.
  Hypothesis HObj : forall r p body, body_all P body -> P (DObj r p body).
  Hypothesis HAttr : forall r k v, P (DAttr r k v).
  Hypothesis HEdge : forall s d sa da idx p eb, P (DEdge s d sa da idx p eb).
  Hypothesis HEdgeAttr : forall s d sa da i k v, P (DEdgeAttr s d sa da i k v).

  Fixpoint decl_ind' (d : decl) : P d :=
    match d with
    | DObj r p body =>
        HObj r p body
          (match body as b0 return body_all P b0 with
           | None => I
           | Some ds => (fix go (l : list decl) : Forall P l :=
                           match l with
                           | [] => Forall_nil P
                           | x :: l' => Forall_cons x (decl_ind' x) (go l')
                           end) ds
           end)
    | DAttr r k v => HAttr r k v
    | DEdge s t sa da idx p eb => HEdge s t sa da idx p eb
    | DEdgeAttr s t sa da i k v => HEdgeAttr s t sa da i k v
    end.
End DeclInd.

(* a syntactic guard checked on a declaration and, recursively, on the bodies *)
Fixpoint all_ok (ok : decl -> bool) (d : decl) : bool :=
  ok d && match d with
          | DObj _ _ (Some ds) => forallb (all_ok ok) ds
          | _ => true
          end.

Definition prog_ok (ok : decl -> bool) (p : program) : bool := forallb (all_ok ok) p.

(* Generic preservation of a state invariant by [exec] / [exec_list], for programs that satisfy a
   syntactic guard: it suffices that the primitive steps preserve it. *)
Section Invariant.
  Variable ok : decl -> bool.
  Variable Inv : state -> Prop.
  Hypothesis H_ensure : forall S D ns st, Inv st -> Inv (mkState (fst (ensure S D ns (objs st))) (edges st)).
  Hypothesis H_upd : forall K f st, (forall o, opath (f o) = opath o) -> Inv st -> Inv (mkState (upd_obj K f (objs st)) (edges st)).
  Hypothesis H_delete : forall K st, Inv st -> Inv (delete_obj K st).
  Hypothesis H_edge : forall Os S s t sa da idx p eb st st',
      ok (DEdge s t sa da idx p eb) = true -> Inv st -> exec Os S (DEdge s t sa da idx p eb) st = Ok st' -> Inv st'.
  Hypothesis H_edge_attr : forall Os S s t sa da i k v st st',
      ok (DEdgeAttr s t sa da i k v) = true -> Inv st -> exec Os S (DEdgeAttr s t sa da i k v) st = Ok st' -> Inv st'.

  Lemma exec_list_inv_aux Os S ds :
    Forall (fun d => forall Os S st st', all_ok ok d = true -> Inv st -> exec Os S d st = Ok st' -> Inv st') ds ->
    forall st st', forallb (all_ok ok) ds = true -> Inv st -> exec_list Os S ds st = Ok st' -> Inv st'.
  Proof.
    induction 1 as [|d ds Hd _ IH]; intros st st' Hok Hinv Hex; simpl in *.
    - inversion Hex; subst; assumption.
    - apply andb_true_iff in Hok as [Hok1 Hok2].
      destruct (exec Os S d st) as [st1| |] eqn:E; try discriminate.
      eapply IH; [exact Hok2 | eapply Hd; [exact Hok1 | exact Hinv | exact E] | exact Hex].
  Qed.

  Lemma exec_inv : forall d Os S st st', all_ok ok d = true -> Inv st -> exec Os S d st = Ok st' -> Inv st'.
  Proof.
    induction d as [r p body IHb | r k v | s t sa da idx p eb | s t sa da i k v] using decl_ind';
      intros Os S st st' Hok Hinv Hex.
    - destruct r as [ups ns]. rewrite exec_DObj in Hex. unfold exec_obj in Hex.
      destruct ns as [|n ns]; [destruct (Nat.eqb ups 0); discriminate|].
      destruct (base_of S ups) as [B|]; [|discriminate].
      destruct (ensure S B (n :: ns) (objs st)) as [os1 D] eqn:En.
      assert (Inv (mkState os1 (edges st))) as I1.
      { pose proof (H_ensure S B (n :: ns) st Hinv) as H. rewrite En in H. exact H. }
      simpl in Hok. apply andb_true_iff in Hok as [_ Hok].
      assert (forall st2, Inv st2 ->
                match body with None => Ok st2 | Some ds => exec_list (S :: Os) D ds st2 end = Ok st' -> Inv st') as Hbody.
      { intros st2 I2 Hb. destruct body as [ds|].
        - eapply exec_list_inv_aux; eauto.
        - inversion Hb; subst; assumption. }
      destruct p.
      + eapply Hbody; eauto.
      + destruct (existsb _ (S :: Os)); [discriminate|]. inversion Hex; subst. apply H_delete. exact I1.
      + eapply Hbody; [|exact Hex]. apply (H_upd (fkey D) (set_prim s) (mkState os1 (edges st))); [reflexivity | exact I1].
    - destruct r as [ups ns]. simpl in Hex.
      destruct (base_of S ups) as [B|]; [|discriminate].
      destruct (ensure S B ns (objs st)) as [os1 D] eqn:En.
      destruct D; [discriminate|]. inversion Hex; subst.
      apply (H_upd _ (set_attr k v) (mkState os1 (edges st))); [reflexivity|].
      pose proof (H_ensure S B ns st Hinv) as H. rewrite En in H. exact H.
    - simpl in Hok. apply andb_true_iff in Hok as [Hok _]. eapply H_edge; eauto.
    - simpl in Hok. apply andb_true_iff in Hok as [Hok _]. eapply H_edge_attr; eauto.
  Qed.

  Lemma exec_list_inv Os S ds st st' :
    forallb (all_ok ok) ds = true -> Inv st -> exec_list Os S ds st = Ok st' -> Inv st'.
  Proof.
    apply exec_list_inv_aux. apply Forall_forall. intros d _ Os' S' st0 st0'. apply exec_inv.
  Qed.

  Lemma run_state_inv p st : prog_ok ok p = true -> Inv init -> run_state p = Ok st -> Inv st.
  Proof. intros Hok Hi H. eapply exec_list_inv; eauto. Qed.
End Invariant.
