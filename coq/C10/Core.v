(* C10 / C11 — shared model: the CORE FRAGMENT of D2 and its reference interpreter.

   Syntax.  A program is a list of declarations (source order).  A reference [(ups, names)] is
   [ups] leading underscores followed by a dotted path of (non-reserved) names:
     DObj  r prim body          r            | r: lbl | r: null | r: lbl { body } | r: { body }
     DAttr r k v                r.k: v       | r.k: null         (k a reserved attribute keyword;
                                                                  names = [] : the enclosing object)
     DEdge s d sa da idx prim eb   s -> d ...   (idx = None: new connection; Some i: (s -> d)[i] ...)
     DEdgeAttr s d sa da i k v     (s -> d)[i].k: v | null
   (sa, da) = (source arrowhead, target arrowhead): -> (false,true) <- (true,false) <-> -- .
   An edge body [eb] is a list of attribute assignments (k, Some v | None = null).

   Semantics.  [run] folds [exec] over the declarations in source order on a FLAT state: the list of
   live objects in creation order (absolute path in the spelling that created it, primary value,
   attribute map, scopes of the declarations that referenced it) and the list of live connections in
   creation order (absolute endpoints, arrowheads, IR index, primary, attributes, and how far up the
   endpoint paths declarations have referenced them).  This mirrors what d2ir.compileMap / compileKey /
   EnsureField / CreateEdge / createEdge2 / GetEdges / DeleteField / DeleteEdge do on this fragment
   (d2ir keeps a tree of maps; on this fragment the tree is determined by the absolute paths, and
   d2compiler + SortObjectsByAST/SortEdgesByAST emit objects and edges in creation order).
   Names are compared with [fkey] (strings.EqualFold = equality of the rune-wise canonical fold [cf]).
   [to_board] mirrors d2compiler.compileMap/compileField/compileEdge + d2graph.EnsureChild/Connect/
   initIndex: label = label keyword, else primary, else the name; graph index = number of earlier
   connections with the same endpoints and arrowheads (the IR index keeps gaps / duplicates after a
   deletion); objects that exist only because a surviving reference or connection names them
   (d2compiler's EnsureChild of a reference's scope, Connect's ensureChildEdge) are the [ghosts].

   Every rule here was checked against the real compiler; the correspondence check compares
   [run p] with the projection of d2compiler.Compile(print p) on every generated program. *)
From Coq Require Import List NArith Bool Arith.
Import ListNotations.
Require Import V.Lib.RunCases.

Definition str := list N.
Definition name := str.
Definition path := list name.

Definition str_eqb : str -> str -> bool := list_eqb N.eqb.
Definition path_eqb : path -> path -> bool := list_eqb str_eqb.

(* ---- letter case: strings.EqualFold and strings.ToLower on the runes the generators use ---- *)

(* canonical representative of the unicode.SimpleFold orbit *)
Definition cf (r : N) : N :=
  (if (65 <=? r) && (r <=? 90) then r + 32               (* A-Z *)
   else if r =? 8490 then 107                            (* U+212A KELVIN SIGN ~ k *)
   else if r =? 383 then 115                             (* U+017F LONG S ~ s *)
   else if r =? 201 then 233                             (* É ~ é *)
   else if r =? 7838 then 223                            (* U+1E9E ~ ß *)
   else if (r =? 931) || (r =? 962) then 963             (* Σ ς ~ σ *)
   else r)%N.                                            (* incl. U+0130 İ and U+0131 ı: own orbits *)

(* unicode.ToLower *)
Definition lower (r : N) : N :=
  (if (65 <=? r) && (r <=? 90) then r + 32
   else if r =? 8490 then 107
   else if r =? 304 then 105                             (* U+0130 İ -> i : not a fold *)
   else if r =? 201 then 233
   else if r =? 7838 then 223
   else if r =? 931 then 963
   else r)%N.

Definition fold_name (n : name) : name := map cf n.
Definition fkey (p : path) : path := map fold_name p.
Definition lower_str (s : str) : str := map lower s.

Fixpoint is_prefix (k p : path) : bool :=
  match k, p with
  | [], _ => true
  | x :: k', y :: p' => str_eqb x y && is_prefix k' p'
  | _ :: _, [] => false
  end.

(* longest common prefix that leaves both remainders non-empty (EdgeID.resolve's "common") *)
Fixpoint lcpne (a b : path) : path :=
  match a, b with
  | x :: a', y :: b' =>
      match a', b' with
      | _ :: _, _ :: _ => if str_eqb x y then x :: lcpne a' b' else []
      | _, _ => []
      end
  | _, _ => []
  end.

(* ---- syntax ---- *)

Inductive kw := KLabel | KShape | KFill | KStroke | KOpacity | KStrokeWidth | KFontColor.

Definition kw_code (k : kw) : N :=
  match k with KLabel => 0 | KShape => 1 | KFill => 2 | KStroke => 3 | KOpacity => 4
             | KStrokeWidth => 5 | KFontColor => 6 end%N.
Definition kw_eqb (a b : kw) : bool := (kw_code a =? kw_code b)%N.
Definition style_kws : list kw := [KFill; KStroke; KOpacity; KStrokeWidth; KFontColor].

(* compileReserved lower-cases a shape value; every other value is stored as written *)
Definition norm (k : kw) (v : str) : str := match k with KShape => lower_str v | _ => v end.

Inductive prim := PNone | PNull | PStr (s : str).
Definition ref := (nat * list name)%type.
Definition ebody := list (kw * option str).

Inductive decl :=
| DObj (r : ref) (p : prim) (body : option (list decl))
| DAttr (r : ref) (k : kw) (v : option str)
| DEdge (s d : ref) (sa da : bool) (idx : option nat) (p : prim) (eb : option ebody)
| DEdgeAttr (s d : ref) (sa da : bool) (i : nat) (k : kw) (v : option str).

Definition program := list decl.

(* ---- state ---- *)

Definition attrs := list (kw * str).
Definition aremove (k : kw) (a : attrs) : attrs := filter (fun kv => negb (kw_eqb (fst kv) k)) a.
Definition aset (k : kw) (v : str) (a : attrs) : attrs := (k, v) :: aremove k a.
Definition aget (k : kw) (a : attrs) : option str :=
  match find (fun kv => kw_eqb (fst kv) k) a with Some kv => Some (snd kv) | None => None end.
Definition aupd (k : kw) (v : option str) (a : attrs) : attrs :=
  match v with Some s => aset k (norm k s) a | None => aremove k a end.

Record obj := mkObj { opath : path; oprim : option str; oattrs : attrs; oscopes : list path }.
Record edge := mkEdge { esrc : path; edst : path; esa : bool; eda : bool; eidx : nat;
                        eprim : option str; eattrs : attrs;
                        ebs : nat; ebd : nat;          (* endpoint path elements deeper than this carry
                                                          a reference of one of the edge's declarations *)
                        escopes : list path }.
Record state := mkState { objs : list obj; edges : list edge }.
Definition init : state := mkState [] [].

Definition at_key (K : path) (o : obj) : bool := path_eqb (fkey (opath o)) K.
Definition find_obj (K : path) (os : list obj) : option obj := find (at_key K) os.
Definition upd_obj (K : path) (f : obj -> obj) (os : list obj) : list obj :=
  map (fun o => if at_key K o then f o else o) os.

Definition add_scope (S : path) (o : obj) : obj :=
  mkObj (opath o) (oprim o) (oattrs o) (oscopes o ++ [S]).
Definition set_prim (v : str) (o : obj) : obj := mkObj (opath o) (Some v) (oattrs o) (oscopes o).
Definition set_attr (k : kw) (v : option str) (o : obj) : obj :=
  mkObj (opath o) (oprim o) (aupd k v (oattrs o)) (oscopes o).

(* Map.ensureField with create = true, from the object whose stored path is [D]: walks [ns]; an
   existing field (EqualFold) keeps its spelling and gets a reference, a missing one is appended. *)
Fixpoint ensure (S D : path) (ns : list name) (os : list obj) : list obj * path :=
  match ns with
  | [] => (os, D)
  | n :: ns' =>
      let K := fkey (D ++ [n]) in
      match find_obj K os with
      | Some o => ensure S (opath o) ns' (upd_obj K (add_scope S) os)
      | None => ensure S (D ++ [n]) ns' (os ++ [mkObj (D ++ [n]) None [] [S]])
      end
  end.

(* "_" : [ups] levels up from the scope; None = more underscores than levels *)
Definition base_of (S : path) (ups : nat) : option path :=
  if ups <=? length S then Some (firstn (length S - ups) S) else None.

Definition eclass_eqb (ks kd : path) (sa da : bool) (e : edge) : bool :=
  path_eqb (fkey (esrc e)) ks && path_eqb (fkey (edst e)) kd && Bool.eqb (esa e) sa && Bool.eqb (eda e) da.
Definition same_class (e1 e2 : edge) : bool :=
  eclass_eqb (fkey (esrc e1)) (fkey (edst e1)) (esa e1) (eda e1) e2.
Definition idx_ok (i : option nat) (e : edge) : bool :=
  match i with None => true | Some n => Nat.eqb (eidx e) n end.

(* Map.DeleteField: the field, its subtree (objects and the connections stored inside it) and the
   connections one of whose declarations referenced the field *)
Definition edge_dies (K : path) (e : edge) : bool :=
  let ks := fkey (esrc e) in
  let kd := fkey (edst e) in
  is_prefix K (lcpne ks kd)
  || (is_prefix K ks && (ebs e <? length K))
  || (is_prefix K kd && (ebd e <? length K)).

Definition delete_obj (K : path) (st : state) : state :=
  mkState (filter (fun o => negb (is_prefix K (fkey (opath o)))) (objs st))
          (filter (fun e => negb (edge_dies K e)) (edges st)).

(* Map.DeleteEdge: the first stored edge that matches *)
Fixpoint remove_first {A} (f : A -> bool) (l : list A) : list A :=
  match l with
  | [] => []
  | x :: l' => if f x then l' else x :: remove_first f l'
  end.

Definition eapply_body (eb : option ebody) (a : attrs) : attrs :=
  match eb with
  | None => a
  | Some l => fold_left (fun a kv => aupd (fst kv) (snd kv) a) l a
  end.

Definition eupdate (S : path) (us ud : nat) (p : prim) (eb : option ebody) (e : edge) : edge :=
  mkEdge (esrc e) (edst e) (esa e) (eda e) (eidx e)
         (match p with PStr v => Some v | _ => eprim e end)
         (eapply_body eb (eattrs e))
         (if Nat.eqb us 0 then Nat.min (ebs e) (length S) else ebs e)
         (if Nat.eqb ud 0 then Nat.min (ebd e) (length S) else ebd e)
         (escopes e ++ [S]).

Inductive res (A : Type) := Ok (a : A) | Err (c : N) | Unsup.
Arguments Ok {A}. Arguments Err {A}. Arguments Unsup {A}.

Definition E_UNDERSCORE : N := 1.   (* "invalid underscore…", "field key must contain more than underscores" *)
Definition E_INDEX : N := 2.        (* "indexed edge does not exist" *)

(* null on an edge declaration (with or without index / attribute keyword): DeleteEdge, silently *)
Definition exec_edge_null (S : path) (s d : ref) (sa da : bool) (i : option nat) (st : state) : res state :=
  match snd s, snd d with
  | [], _ | _, [] => Unsup
  | _, _ =>
      match base_of S (Nat.max (fst s) (fst d)) with
      | None => Ok st
      | Some _ =>
          match base_of S (fst s), base_of S (fst d) with
          | Some Bs, Some Bd =>
              let ks := fkey (Bs ++ snd s) in
              let kd := fkey (Bd ++ snd d) in
              Ok (mkState (objs st)
                          (remove_first (fun e => eclass_eqb ks kd sa da e && idx_ok i e) (edges st)))
          | _, _ => Ok st
          end
      end
  end.

(* an indexed reference that sets something on the matching edge(s) *)
Definition exec_edge_ref (S : path) (s d : ref) (sa da : bool) (i : nat) (p : prim) (eb : option ebody)
    (st : state) : res state :=
  match snd s, snd d with
  | [], _ | _, [] => Unsup
  | _, _ =>
      match base_of S (fst s), base_of S (fst d) with
      | Some Bs, Some Bd =>
          let ks := fkey (Bs ++ snd s) in
          let kd := fkey (Bd ++ snd d) in
          let hit := fun e => eclass_eqb ks kd sa da e && Nat.eqb (eidx e) i in
          if existsb hit (edges st)
          then Ok (mkState (objs st)
                           (map (fun e => if hit e then eupdate S (fst s) (fst d) p eb e else e) (edges st)))
          else Err E_INDEX
      | _, _ => Err E_INDEX
      end
  end.

Definition exec_edge_new (S : path) (s d : ref) (sa da : bool) (p : prim) (eb : option ebody)
    (st : state) : res state :=
  match snd s, snd d with
  | [], _ | _, [] => Unsup
  | _, _ =>
      match base_of S (fst s), base_of S (fst d) with
      | Some Bs, Some Bd =>
          let '(os1, Ds) := ensure S Bs (snd s) (objs st) in
          let '(os2, Dd) := ensure S Bd (snd d) os1 in
          let n := length (filter (eclass_eqb (fkey Ds) (fkey Dd) sa da) (edges st)) in
          let e := mkEdge Ds Dd sa da n (match p with PStr v => Some v | _ => None end)
                          (eapply_body eb []) (length Bs) (length Bd) [S] in
          Ok (mkState os2 (edges st ++ [e]))
      | _, _ => Err E_UNDERSCORE
      end
  end.

(* [Os]: the scopes of the enclosing bodies (innermost first), [S]: the current scope *)
Fixpoint exec (Os : list path) (S : path) (d : decl) (st : state) {struct d} : res state :=
  match d with
  | DObj (ups, ns) p body =>
      match ns with
      | [] => if Nat.eqb ups 0 then Unsup else Err E_UNDERSCORE
      | _ =>
          match base_of S ups with
          | None => Err E_UNDERSCORE
          | Some B =>
              let '(os1, D) := ensure S B ns (objs st) in
              let st1 := mkState os1 (edges st) in
              match p with
              | PNull =>
                  (* deleting an object whose body is being compiled: the rest of that body is
                     compiled into a detached map — outside the fragment *)
                  if existsb (fun X => is_prefix (fkey D) (fkey X)) (S :: Os) then Unsup
                  else Ok (delete_obj (fkey D) st1)
              | _ =>
                  let st2 := match p with
                             | PStr v => mkState (upd_obj (fkey D) (set_prim v) os1) (edges st)
                             | _ => st1 end in
                  match body with
                  | None => Ok st2
                  | Some ds =>
                      (fix go (ds : list decl) (st : state) : res state :=
                         match ds with
                         | [] => Ok st
                         | d :: ds' => match exec (S :: Os) D d st with Ok st' => go ds' st' | r => r end
                         end) ds st2
                  end
              end
          end
      end
  | DAttr (ups, ns) k v =>
      match base_of S ups with
      | None => Err E_UNDERSCORE
      | Some B =>
          let '(os1, D) := ensure S B ns (objs st) in
          match D with
          | [] => Unsup                                   (* attribute of the board itself *)
          | _ => Ok (mkState (upd_obj (fkey D) (set_attr k v) os1) (edges st))
          end
      end
  | DEdge s d sa da idx p eb =>
      match p, idx with
      | PNull, _ => exec_edge_null S s d sa da idx st
      | _, None => exec_edge_new S s d sa da p eb st
      | _, Some i => exec_edge_ref S s d sa da i p eb st
      end
  | DEdgeAttr s d sa da i k v =>
      match v with
      | None => exec_edge_null S s d sa da (Some i) st          (* deletes the whole edge *)
      | Some _ => exec_edge_ref S s d sa da i PNone (Some [(k, v)]) st
      end
  end.

Fixpoint exec_list (Os : list path) (S : path) (ds : list decl) (st : state) : res state :=
  match ds with
  | [] => Ok st
  | d :: ds' => match exec Os S d st with Ok st' => exec_list Os S ds' st' | r => r end
  end.

Definition run_state (p : program) : res state := exec_list [] [] p init.

(* ---- the compiled board ---- *)

Record gobj := mkGObj { gpath : path; glabel : str; gshape : str; gstyle : attrs }.
Record gedge := mkGEdge { gsrc : path; gdst : path; gsa : bool; gda : bool; gidx : nat;
                          gelabel : str; gestyle : attrs }.
Record board := mkBoard { gobjs : list gobj; gghosts : list gobj; gedges : list gedge }.

Definition rectangle : str := [114;101;99;116;97;110;103;108;101]%N.

Definition style_of (a : attrs) : attrs :=
  flat_map (fun k => match aget k a with Some v => [(k, v)] | None => [] end) style_kws.

Definition label_of (a : attrs) (p : option str) (dflt : str) : str :=
  match aget KLabel a with
  | Some v => v
  | None => match p with Some v => v | None => dflt end
  end.

Definition gobj_of (o : obj) : gobj :=
  mkGObj (opath o) (label_of (oattrs o) (oprim o) (last (opath o) []))
         (match aget KShape (oattrs o) with Some v => v | None => rectangle end)
         (style_of (oattrs o)).

Definition ghost_of (p : path) : gobj := mkGObj p (last p []) rectangle [].

Definition gedge_of (n : nat) (e : edge) : gedge :=
  mkGEdge (esrc e) (edst e) (esa e) (eda e) n (label_of (eattrs e) (eprim e) []) (style_of (eattrs e)).

(* Edge.initIndex at Connect time *)
Fixpoint number (seen : list edge) (es : list edge) : list gedge :=
  match es with
  | [] => []
  | e :: es' => gedge_of (length (filter (same_class e) seen)) e :: number (seen ++ [e]) es'
  end.

Definition prefixes (p : path) : list path := map (fun i => firstn i p) (seq 1 (length p)).

Definition ghost_cands (st : state) : list path :=
  flat_map (fun o => flat_map prefixes (oscopes o)) (objs st)
  ++ flat_map (fun e => flat_map prefixes (escopes e) ++ prefixes (esrc e) ++ prefixes (edst e)) (edges st).

Fixpoint dedup_keys (seen : list path) (l : list path) : list path :=
  match l with
  | [] => []
  | p :: l' => if existsb (path_eqb (fkey p)) seen then dedup_keys seen l'
               else p :: dedup_keys (fkey p :: seen) l'
  end.

Definition ghosts (st : state) : list path :=
  dedup_keys (map (fun o => fkey (opath o)) (objs st)) (ghost_cands st).

Definition to_board (st : state) : board :=
  mkBoard (map gobj_of (objs st)) (map ghost_of (ghosts st)) (number [] (edges st)).

Inductive result := RErr (c : N) | RUnsup | RBoard (b : board).

Definition run (p : program) : result :=
  match run_state p with
  | Ok st => RBoard (to_board st)
  | Err c => RErr c
  | Unsup => RUnsup
  end.

(* ---- observations used by the theorems and by Check.v ---- *)

Definition gattr (o : gobj) (k : kw) : option str :=
  match k with
  | KLabel => Some (glabel o)
  | KShape => Some (gshape o)
  | _ => aget k (gstyle o)
  end.

Definition geattr (e : gedge) (k : kw) : option str :=
  match k with
  | KLabel => Some (gelabel e)
  | KShape => None
  | _ => aget k (gestyle e)
  end.

Definition gfind (K : path) (l : list gobj) : option gobj := find (fun o => path_eqb (fkey (gpath o)) K) l.

Definition gclass_eqb (ks kd : path) (sa da : bool) (e : gedge) : bool :=
  path_eqb (fkey (gsrc e)) ks && path_eqb (fkey (gdst e)) kd && Bool.eqb (gsa e) sa && Bool.eqb (gda e) da.

(* absolute target of a reference written at the top level *)
Definition top_target (r : ref) : option path :=
  match r with (O, n :: ns) => Some (n :: ns) | _ => None end.
