(* Executable checker for C11 cases.  Same case type and correspondence as C10 (V.C10.Check); the
   clauses evaluated on the implementation's own outputs are those of C11:
     20  the connections of every (source, target, arrowheads) class are numbered 0,1,2,... in
         declaration order (the board lists connections in declaration order)
     21  no two connections of the board have the same ID (class + index)
     22  an indexed reference (s -> t)[i] to an existing index changes exactly that connection
     23  an indexed reference to a missing index is an error ("indexed edge does not exist")
     24  a new connection is appended with index = number of existing connections of its class    *)
From Coq Require Import List NArith Bool Arith.
Import ListNotations.
Require Import V.Lib.RunCases.
Require Export V.C10.Check.

Definition gsame_class (a b : gedge) : bool :=
  gclass_eqb (fkey (gsrc a)) (fkey (gdst a)) (gsa a) (gda a) b.

Fixpoint consecutive (seen es : list gedge) : bool :=
  match es with
  | [] => true
  | e :: es' => Nat.eqb (gidx e) (length (filter (gsame_class e) seen)) && consecutive (seen ++ [e]) es'
  end.

Fixpoint ids_distinct (es : list gedge) : bool :=
  match es with
  | [] => true
  | e :: es' => negb (existsb (fun e' => gsame_class e e' && Nat.eqb (gidx e) (gidx e')) es') && ids_distinct es'
  end.

Definition estyle_others_eq (k : kw) (e e' : gedge) : bool :=
  forallb (fun k' => kw_eqb k' k || opt_eqb str_eqb (geattr e k') (geattr e' k'))
          [KLabel; KFill; KStroke; KOpacity; KStrokeWidth; KFontColor].

Definition same_ends (e e' : gedge) : bool :=
  path_eqb (gsrc e) (gsrc e') && path_eqb (gdst e) (gdst e') && Bool.eqb (gsa e) (gsa e')
  && Bool.eqb (gda e) (gda e') && Nat.eqb (gidx e) (gidx e').

(* what an indexed reference must do to the edge it hits: [upd e e'] *)
Definition hits_one (hit : gedge -> bool) (upd : gedge -> gedge -> bool) (bp b : board) : bool :=
  list_eqb gobj_eqb (gobjs bp) (gobjs b)
  && list_eqb (fun e e' => if hit e then same_ends e e' && upd e e' else gedge_eqb e e') (gedges bp) (gedges b).

Definition cstep11 (p : program) (d : decl) (rp r : impl) : list N :=
  (match r with
   | IBoard b => flag (consecutive [] (gedges b)) 20 ++ flag (ids_distinct (gedges b)) 21
   | IErr _ => []
   end)
  ++ match rp with
     | IErr _ => []
     | IBoard bp =>
         let ref_case := fun s t sa da i (upd : gedge -> gedge -> bool) =>
           match top_target s, top_target t with
           | Some Ds, Some Dt =>
               let hit := fun e => gclass_eqb (fkey Ds) (fkey Dt) sa da e && Nat.eqb (gidx e) i in
               if existsb hit (gedges bp)
               then flag (match r with IBoard b => hits_one hit upd bp b | IErr _ => false end) 22
               else flag (match r with IErr c => (c =? 2)%N | IBoard _ => false end) 23
           | _, _ => []
           end in
         match d with
         | DEdgeAttr s t sa da i k (Some v) =>
             ref_case s t sa da i (fun e e' => opt_eqb str_eqb (geattr e' k) (match k with KShape => None | _ => Some v end)
                                               && estyle_others_eq k e e')
         | DEdgeAttr s t sa da i k None =>
             (* only the missing-index half is C11's: null of an existing index is C10's clause 18 *)
             match top_target s, top_target t with
             | Some Ds, Some Dt =>
                 let hit := fun e => gclass_eqb (fkey Ds) (fkey Dt) sa da e && Nat.eqb (gidx e) i in
                 if existsb hit (gedges bp) then []
                 else flag (match r with IErr c => (c =? 2)%N | IBoard _ => false end) 23
             | _, _ => []
             end
         | DEdge s t sa da (Some i) PNull _ =>
             match top_target s, top_target t with
             | Some Ds, Some Dt =>
                 let hit := fun e => gclass_eqb (fkey Ds) (fkey Dt) sa da e && Nat.eqb (gidx e) i in
                 if existsb hit (gedges bp) then []
                 else flag (match r with IErr c => (c =? 2)%N | IBoard _ => false end) 23
             | _, _ => []
             end
         | DEdge s t sa da (Some i) _ _ => ref_case s t sa da i (fun _ _ => true)
         | DEdge s t sa da None pv _ =>
             match pv, top_target s, top_target t, r with
             | PNull, _, _, _ => []
             | _, Some Ds, Some Dt, IBoard b =>
                 let n := length (filter (gclass_eqb (fkey Ds) (fkey Dt) sa da) (gedges bp)) in
                 flag (match rev (gedges b) with
                       | e :: rest => list_eqb gedge_eqb (rev rest) (gedges bp)
                                      && gclass_eqb (fkey Ds) (fkey Dt) sa da e && Nat.eqb (gidx e) n
                       | [] => false end) 24
             | _, _, _, _ => []
             end
         | _ => []
         end
     end.

Definition check_case (c : case) : list N :=
  match c with
  | CRun p r => flag (corr p r) 1
  | CStep p d rp r => cstep11 p d rp r
  | CFold a b ef la => check_fold a b ef la
  end.
